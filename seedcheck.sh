#!/bin/bash
# seedcheck.sh <dir with change_k.diff + demo_k/> <k> <check ids...>
# Confirms a seeded change (compiles, baseline suite passes, demo fails with / passes without)
# and runs the named checks against a scratch worktree carrying it. Prints a JSON summary.
export GOFLAGS=-mod=mod GOPROXY=off GOSUMDB=off GOTOOLCHAIN=local
dir=$1; k=$2; shift 2; checks="$@"
diff=$dir/change_$k.diff
wt=/tmp/sc-$$-$k
out=/tmp/sc-$$-$k.log
git -C /repo worktree add -q $wt ${SEED_BASE:-HEAD} || exit 9
[ -n "$SEED_BASE" ] && echo "base=$SEED_BASE"
cleanup() { git -C /repo worktree remove --force $wt 2>/dev/null; }
trap cleanup EXIT
res() { echo "$1=$2"; }
# demo on the clean tree
if [ -f $dir/demo_$k/run.sh ]; then
  (cd $wt && timeout 600 bash $dir/demo_$k/run.sh $wt >$out.demo0 2>&1); d0=$?
  (cd $wt && git checkout -q -- . && git clean -fdq)
else d0=NA; fi
if ! git -C $wt apply $diff 2>$out.apply; then res applies no; cat $out.apply; exit 1; fi
res applies yes
(cd $wt && go build ./... && go build -tags verif ./...) >$out.build 2>&1 && res builds yes || { res builds no; tail -5 $out.build; exit 1; }
(cd $wt && go test -vet=off -count=1 ./... 2>&1) >$out.test
fails=$(grep -E "^--- FAIL" $out.test | grep -v "TestSingleConnect\|TestMultiConnect" | tr '\n' ' ')
res suite_unexpected_failures "[$fails]"
if [ -f $dir/demo_$k/run.sh ]; then
  (cd $wt && timeout 600 bash $dir/demo_$k/run.sh $wt >$out.demo1 2>&1); d1=$?
  (cd $wt && git clean -fdq -e '*.go' >/dev/null 2>&1; git -C $wt status --short | grep '^??' | awk '{print $2}' | xargs -r -I{} rm -rf $wt/{})
else d1=NA; fi
res demo_exit_clean $d0
res demo_exit_changed $d1
for c in $checks; do
  (cd /verif && VERIF_REPO=$wt VERIF_WORK_SUFFIX=-sc$$$k timeout 3000 ./run.sh $c quick >$out.$c 2>&1); e=$?
  keys=$(grep "^VIOLATION" $out.$c | sed 's/.*key="\([^"]*\)".*/\1/' | head -8 | tr '\n' ';')
  res "check_${c}_exit" $e
  res "check_${c}_keys" "$keys"
  rm -rf /verif/work/$c-sc$$$k /verif/work/altevidence-sc$$$k
done
