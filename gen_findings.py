#!/usr/bin/env python3
# Renders known_findings.jsonl as FINDINGS.md (grouped by property, fixed/known).
import json, collections
rows=[json.loads(l) for l in open('/verif/known_findings.jsonl') if l.strip()]
by=collections.OrderedDict()
for r in rows: by.setdefault(r['property'],[]).append(r)
out=['# Findings on the pinned tree','',
 'Generated from known_findings.jsonl (`python3 gen_findings.py`). `fixed` entries name the `fix:` commit in /repo and suppress nothing;',
 '`known` entries are genuine defects recorded rather than repaired: a check prints `KNOWN-FINDING:` for them and exits 0.','']
nf=sum(1 for r in rows if r['status']=='fixed'); nk=len(rows)-nf
out.append('Totals: %d finding keys fixed by %d commits, %d finding keys known.'%(nf,len({r.get('commit') for r in rows if r['status']=='fixed'}),nk)); out.append('')
for p in sorted(by):
    out.append('## %s'%p); out.append(''); out.append('| status | commit | key | what fails |'); out.append('|---|---|---|---|')
    for r in by[p]:
        out.append('| %s | %s | `%s` | %s |'%(r['status'], r.get('commit',''), r['key'].replace('|','\\|'), r['what'].replace('|','\\|').replace('\n',' ')[:260]))
    out.append('')
open('/verif/FINDINGS.md','w').write('\n'.join(out))
print(nf,'fixed',nk,'known')
