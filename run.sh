#!/bin/sh
# ./run.sh <PROP> quick|thorough        run one check (exit 0 held / 1 violation / 2 inconclusive)
# ./run.sh <PROP> --replay <path>       re-execute the case recorded in a replay file
set -e
cd "$(dirname "$0")"
export GOFLAGS=-mod=mod GOPROXY=off GOSUMDB=off GOTOOLCHAIN=local VERIF_ROOT="$(pwd)"
[ -x bin/driver ] || ./setup.sh >/dev/null
exec bin/driver "$@"
