#!/usr/bin/env python3
# Validates MANIFEST.json and every evidence file against the schemas in /root/.vp.
import json, sys, glob, os
try:
    import jsonschema
except ImportError:
    sys.path.insert(0, glob.glob('/opt/veriftools/pyvenv/lib/python*/site-packages')[0])
    import jsonschema
ok = True
def check(path, schema):
    global ok
    try:
        jsonschema.validate(json.load(open(path)), json.load(open(schema)))
        print('ok  ', path)
    except Exception as e:
        ok = False
        print('FAIL', path, str(e)[:300])
if os.path.exists('MANIFEST.json'):
    check('MANIFEST.json', '/root/.vp/MANIFEST.schema.json')
for f in sorted(glob.glob('evidence/*.json')):
    check(f, '/root/.vp/EVIDENCE.schema.json')
    c = json.load(open(f)).get('coverage', {})
    if c.get('distinct_nontrivial', 0) > c.get('evaluations', 0):
        ok = False
        print('FAIL', f, 'distinct_nontrivial exceeds evaluations: accounting error in the worker')
sys.exit(0 if ok else 1)
