#!/usr/bin/env python3
# Regenerates MANIFEST.json from the table below (kept as code so that it stays consistent).
import json, os
ROOT = os.path.dirname(os.path.abspath(__file__))
props = [json.loads(l) for l in open(os.path.join(ROOT, 'properties.jsonl'))]
# id -> (category, technique, level text, level note, design ref)
CHECKS = {
 'C15': ('exploration', 'runtime differential monitoring against independent reference implementations (CRC-32 from hash/crc32, hashes and murmur re-implemented from the algorithm, net.IP), exhaustive enumeration of the small sub-spaces, golden digests for purity',
         'Executes the real hash/hexa32/bitutil/iputil functions on every input of the finite sub-spaces the property names (all byte strings of length<=2, all 2^16 byte pairs; all 2^32 half pairs and all 2^32 IPv4 addresses in the thorough tier) and on seeded random inputs elsewhere, comparing each result with an independent reference; a golden digest pins the persisted values.',
         'Trusts the Go standard library (hash/crc32, net) and the reference ports in cmd/wC15; random parts cover only the sampled inputs.', 'DESIGN.md §4 C15'),

 'C06': ('exploration', 'runtime monitoring of the real client against a fault-injecting loopback collector: offline checkers over recorded send intervals and received byte streams (well-formed frames, at-most-once, per-sender and real-time order, no loss when healthy, bounded-progress recovery) plus the Go race detector',
         'Runs the real OneWayTcpClient (hook constructor and the production singleton path) against a loopback collector with its own frame parser under 1..32 concurrent senders, direct and queue mode, frames beyond the 2 MiB write buffer, and enumerated fault schedules (FIN/RST after exactly N bytes for every frame-header offset, body offsets and later frames; 0/1/2/5 refused reconnects). Every scenario is decided by stream oracles over what the peer received; the same scenarios run under -race.',
         'Only interleavings and fault timings the scheduler/kernel produced are covered (evidence reports connections, cuts, recoveries, distinct arrival interleavings). Loss of data acknowledged just before a peer close is inherent to TCP and only counted. Expected payload bytes come from pack.ToBytesPack (C05 checks those bytes independently).', 'DESIGN.md §4 C06'),
 'C19': ('exploration', 'runtime differential monitoring of the calendar helpers against time.UnixMilli(t).UTC(), enumerating every day of 2000-2099 at fixed instants and minute boundaries; format/parse inverse over generated patterns',
         'Every day of the century is enumerated (36 525 days x 7 instants exhaustively; every minute boundary +-1 ms of every day in the thorough tier) and each helper result compared field by field with the standard library; unit functions are checked as exact step functions at every boundary; DateFormat format/parse round trips over generated patterns.',
         'Trusts the Go time package; instants within a day other than the enumerated ones are sampled; TZ is forced to UTC; partial patterns are checked only as far as the code documents (absent fields default to now).', 'DESIGN.md §4 C19'),
 'C01': ('exploration', 'runtime differential monitoring of the real stream codec against an independent reference encoder/reader: exhaustive sweeps of all 8/16/24-bit (and, thorough, 32-bit) patterns, boundary enumeration of decimal classes and length thresholds, and random write/read programs with Size()/Available()/canary monitors',
         'Every fixed-width write/read pair and the little-endian helpers are executed on every 2^16 and 2^24 pattern (all 2^32 in the thorough tier), decimals on every value around each length-class boundary, blobs/texts/arrays at every threshold, and random programs of 1..64 mixed writes are replayed as the matching reads; bytes must equal the independent refcodec image, Size() and Available() are checked after every operation.',
         'Trusts harness/refcodec (written from the layout, no golib imports; cross-checked by its own reader). 40/64-bit values and programs are sampled with boundary bias; payloads beyond 2^20 bytes are not materialised.', 'DESIGN.md §4 C01'),
 'C02': ('exploration', 'runtime differential monitoring: real WriteValue/ReadValue versus an independent reference encoder of the tagged value format, structural comparison through a neutral value tree, consumption canary and re-encode check',
         'Generated value trees over all implemented type codes (empty/singleton/wide up to 40 000 entries/deep up to depth 2000/mixed/colliding keys) are encoded by golib and by the reference encoder (bytes must match), decoded (type, payload and order must match through an independent walker, not golib Equals), must consume exactly their bytes and re-encode identically.',
         'Trusts harness/refcodec/value.go and harness/valgen; values are sampled with boundary bias; type code 47 has no Go type and cannot be built.', 'DESIGN.md §4 C02'),
 'C07': ('exploration', 'runtime monitoring of UDP pack writer/reader agreement per (type, version) with measured carried-field sets (plus a committed gate table), pool-reuse residue monitor on pointer-identical reuse, and password-marker scanning after Process()',
         'For every pack type and every version around every gate the writer and reader are run on filled packs: every carried field (carried = flipping it changes the bytes) must be restored, every other field stay zero, and the reader consume exactly the bytes; measured carried sets are compared with spec/udp_gates.json. Pool histories compare re-acquired (pointer-identical) packs with fresh ones; connection strings with unique password markers are processed and every string field scanned.',
         'spec/udp_gates.json was generated from the pinned tree and reviewed; pool reuse is only decided when sync.Pool actually returns the same object (floor on reuse events); field values are sampled.', 'DESIGN.md §4 C07'),
 'C08': ('exploration', 'runtime differential monitoring of step streams, transaction and service records against an independent reference encoder, with per-step consumption offsets and optional-section presence oracles',
         'Lists of 0..200 steps over all registered step types and versions are written, compared byte for byte with the reference encoder, and read back step by step (same steps, same order, cumulative offsets equal the reference sizes); transaction records over all 64 combinations of optional groups, service records and the embedding packs are round-tripped the same way.',
         'Trusts harness/refcodec/step.go, txrecord.go and harness/stepgen; field values are sampled with boundary bias.', 'DESIGN.md §4 C08'),
 'C11': ('exploration', 'runtime monitoring of the queues: lock-step sequential FIFO model with callback prediction, offline checkers over recorded concurrent histories (conservation, exactly-once, per-producer order, capacity bound), porcupine linearizability against FIFO / two-FIFO models, blocking-get wake-up probes, timed-get lower bound, Go race detector',
         'Sequential operation sequences on RequestQueue and both lanes of RequestDoubleQueue are checked step by step against a FIFO model that predicts returns, Failed/Overflowed arguments and Size(); producer/consumer histories with consumers parked before the first put are checked for conservation, exactly-once delivery, per-producer order and double-queue priority; short histories are checked with porcupine; the same workloads run under -race.',
         'Only interleavings the scheduler produced are covered (evidence reports histories, overlap, wake-ups); a lost wake-up is only concluded from a consumer parked with Size()>0 observed stably, bare timeouts are inconclusive.', 'DESIGN.md §4 C11'),
 'C13': ('exploration', 'runtime monitoring against slice models and checked sorting oracles: lock-step sequence model for the typed lists and the linked list, out-of-range probes incl. spare capacity, wire form versus an independent reference encoding, permutation/order/tie-break checks of Sorting results',
         'Random operation sequences on the five typed lists and the linked list are compared step by step with a slice model across capacity growth; every index outside [0,size) must be reported; Write/Read round trips are compared with a reference encoding; Sorting/SortingAnyList results are checked to be permutations ordering primary then child values in the requested directions for all 5x5 type pairs; Filtering returns exactly the selected elements.',
         'Operation sequences and values are sampled; NaN floats excluded as the property states.', 'DESIGN.md §4 C13'),
 'C14': ('exploration', 'runtime monitoring against an independent HyperLogLog reference model (own register array and murmur port): register equality after every batch, order/duplicate independence, merge = union byte for byte, serialisation round trip, estimator re-evaluation and error bands',
         'Item sets at precisions 4..16 and cardinalities 0..20m are offered to the real counter and to a reference model; unpacked registers must be equal, Offer must report register growth, shuffled/duplicated orders and merges of 2..5 parts must give identical bytes, inputs must be untouched, mismatched precisions rejected, and Cardinality() must equal an independent evaluation of the estimator and stay within the calibrated error band.',
         'The reference model and murmur port in cmd/wC14 are written from the algorithm; the per-evaluation error band is 12 sigma with a 6 % floor plus a per-shard median check (a 7 sigma band was shown to fire on correct code); item sets are sampled.', 'DESIGN.md §4 C14'),
 'C17': ('exploration', 'runtime monitoring of the real file logger on temp homes under the library virtual clock: file-content oracles for lines/order/suppression/level, rotation and retention set-difference oracles over seeded directories, read-window and path-traversal probes with an outside canary, Go race detector',
         'Scenarios log uniquely numbered lines from 1..16 goroutines through every entry point, advance the virtual clock across day boundaries and run the cycle hook, seed log directories with own/foreign/undated/invalid-date files around the keep-days edge, and call Read with hostile names, positions and lengths; oracles compare the files on disk with what must be there.',
         'Uses the verif hooks VerifCycle/VerifClearOldLog; the real 10 s timer goroutine cannot be stopped and is tolerated; concurrent suppression is checked one-sidedly.', 'DESIGN.md §4 C17'),
 'C20': ('exploration', 'runtime law checking (no model): totality, reflexive/symmetric/transitive Equals, decoded-copy equality, CompareTo sign reversal, transitivity, zero-iff-equal for scalars and type-code order, over generated pairs and triples covering all type pairs',
         'Pairs and triples over all 20x20 implemented type pairs and the targeted shapes (different key sets, insertion orders, element types, nil versus empty, equal-sum summaries, NaN as its own class, a value and its decoded copy) are evaluated; any panic or broken law is reported under a key naming law, types and shape.',
         'Laws only: a lawful but wrong ordering is not visible (payload content is C02). Known findings (container CompareTo and NaN) are listed in known_findings.jsonl with witnesses.', 'DESIGN.md §4 C20'),
 'C03': ('exploration', 'runtime round-trip monitoring of every pack type against a committed carried-field manifest: structural diff of populated and decoded packs, consumption canary, byte-identical re-encode, container record/stamp checks and per-field sensitivity probes',
         'Every registered and unregistered pack type is populated by reflection from spec/pack_fields.json with boundary-biased values (both header forms, optional sections on/off, record lists of 0/1/many, nested and compressed containers), encoded, decoded and re-encoded; every carried field must be restored, the decoder must consume exactly the encoding, containers must return their records in order and stamped, and flipping any manifest field must change the bytes.',
         'The manifest was derived from the writers of the pinned tree, cross-checked by measurement and reviewed; a change made consistently to writer and reader of a listed pack is C05 territory. Known reader/writer disagreements are listed in known_findings.jsonl.', 'DESIGN.md §4 C03'),
 'C05': ('exploration', 'runtime differential monitoring of the bytes a TCP peer actually receives (and of ToBytesPack) against an independent reference encoder of the frame, the common header and the eight pack bodies',
         'Packs of the eight listed types are generated as neutral reference structs, converted to real packs, sent through a real OneWayTcpClient to a loopback peer (Send/SendFlush, with and without per-send license) and encoded with ToBytesPack; the received stream must equal byte for byte the reference frames, with the first differing offset attributed to a reference field.',
         'Conformance is relative to harness/refcodec/packs.go, written from the property text and the pinned writers (no Java collector in the sandbox); field values are sampled with boundary bias; entry order of the two unordered DB-pool maps is not part of the layout.', 'DESIGN.md §4 C05'),
 'C09': ('exploration', 'runtime lock-step monitoring of the thirteen linked hash maps/sets against a sequential insertion-ordered dictionary model, with a structural invariant walker over the private tables after every operation',
         'Operation histories (all public operations, colliding/negative/extreme/empty keys, capacities, load factors, maximum sizes) are applied to the real structure and to the model; after every operation the return value, size, first/last elements and all enumerations must agree and the walker must find buckets, chains, the order list and the bound intact.',
         'Histories are sampled (<= 400 operations); the classes of nothing {nil, \"\", 0, NONE, false} are folded as the thirteen types do not agree on them; bucket hashes used by the walker are transcribed and cross-checked by lookups.', 'DESIGN.md §4 C09'),
 'C10': ('exploration', 'Go race detector over stress workloads of the point operations; porcupine linearizability checking of recorded short concurrent histories against the sequential models, with structural walkers at quiescence; reflection-enumerated self-deadlock probe of every exported method on private instances',
         'For all seventeen hash maps/sets, the linked list and both queues: 2..16 goroutines hammer one shared instance with the point operations under -race; thousands of short histories (3..5 goroutines, logical-clock call/return stamps) are checked with porcupine against the lmap/pmap/deque models and the private structure is walked afterwards; every exported method (found by reflection) is called on a private populated instance and a probe parked in Mutex.Lock is a conclusive self-deadlock.',
         'Only interleavings the scheduler produced are covered (evidence: histories with overlap, overlapping pairs, operation-pair matrix per type); linearizability and race freedom are claimed for the point operations only, as the property states.', 'DESIGN.md §4 C10'),
 'C12': ('exploration', 'runtime lock-step monitoring of the four plain hash maps/sets against a mathematical map/set model, multiset comparison of enumerations, structural walker, and serialisation against an independent reference',
         'Operation histories across several rehashes (colliding, negative, extreme and empty keys; capacities and load factors) are applied to the real structure and the model; returns and sizes must agree after every operation, enumerations must yield every element exactly once, chains must be intact, and IntIntMap.ToBytes/ToObject must round-trip and match the reference encoding.',
         'Histories are sampled; return conventions for nothing are folded as in C09.', 'DESIGN.md §4 C12'),
 'C18': ('exploration', 'runtime monitoring of the real file configuration on temp files: edit-history tracking with pinned mtimes against an independent properties parser, observer monitors, reader/reload stress under the race detector in a grandchild process, write-back diff oracles, atomicity sampler and (thorough) strace crash-point enumeration of the write-back',
         'Random edit histories (incl. several edits within one second) are followed by an immediate reload through the verif hook and all getters compared with an independent parse; observers must be notified; readers hammer getters during reloads; SetValues results are diffed line by line; a concurrent reader samples the file during write-back and, in the thorough tier, every syscall of the write-back is killed once with strace and the file must be complete old or new content.',
         'Uses the verif hooks VerifNew/VerifReloadNow/VerifStop; crash points are syscall boundaries only; lenient numeric spellings are accepted either way. Known write-back escaping findings are listed with their value class.', 'DESIGN.md §4 C18'),
 'C16': ('exploration', 'runtime monitoring of the real zip sender with a recording TcpClient (synchronous and retaining modes): offline exactly-once / order / count / decodability / compression-threshold / flush-trigger checkers over the emitted packs, hand-over snapshots for aliasing, settings read through a verif hook, Go race detector on the queue scenarios',
         'Fresh senders (real GetInstance after the reset hook) receive uniquely numbered log records of 0 B..200 KiB with virtual timestamps through the queue (1..8 producers) or directly (Append, SendDirect), with default or ApplyConfig settings; every emitted pack is parsed by an independent parser (gunzip when flagged) and the record stream must be exactly what was handed over, counts must match, compression must follow the threshold, batches must close at the buffer/wait triggers and at stop, defaults must be in force, and retained packs must equal their hand-over snapshots.',
         'Uses the verif hooks VerifResetInstance/VerifSettings; only interleavings the scheduler produced are covered; flush-trigger judgements in queue mode are skipped (never failed) when machine load stretched the drain; ApplyConfig concurrent with the loop is not driven.', 'DESIGN.md §4 C16'),
 'C04': ('fault_enumeration', 'runtime fault enumeration over a reference-encoded corpus: every strict prefix of every encoding is decoded by the real decoders (must end in a recoverable panic), every length/count/tag/version field is overwritten with hostile values and decoded in a sandboxed decode server with an exact allocation meter (TotalAlloc), CPU-time termination rule and an address-space limit; plain and checkptr builds',
         'A corpus of valid encodings of values, steps, records and every pack type (built by the independent reference encoder, admitted only if golib decodes it completely) is subjected to two enumerated fault spaces: all truncation points, and all hostile values at every field-map entry (plus every byte position of small encodings). A prefix that decodes normally, an allocation above 64 x len(input) + 1 MiB, a process-fatal event or a decode burning more than 20 s CPU is a violation attributed to decoder and field.',
         'The fault space is single-field corruption and truncation of the generated corpus (sampled for encodings above 4 KiB); tcp-mode reads are not driven; allocations below the 1 MiB constant pass; older-version end marks inside body blobs give no exception because the outer length prefix then disagrees.', 'DESIGN.md §4 C04'),
}
PENDING = 'check not built yet in this round (planned, see DESIGN.md §4); not claimed until its monitor exists and is silent on the unchanged tree'
NA = {}
checks, na = [], []
for p in props:
    i = p['id']
    if i in CHECKS and os.path.exists(os.path.join(ROOT, 'harness', 'cmd', 'w' + i, 'config.json')):
        cat, tech, text, note, ref = CHECKS[i]
        checks.append({
            'property_id': i,
            'quick_cmd': './run.sh %s quick' % i,
            'thorough_cmd': './run.sh %s thorough' % i,
            'evidence_file': 'evidence/%s.json' % i,
            'replay_cmd_template': './run.sh %s --replay {path}' % i,
            'engine': 'harness',
            'level_claimed': {'category': cat, 'text': text, 'design_ref': ref},
            'level_note': note,
            'technique': tech,
        })
    else:
        na.append({'property_id': i, 'reason': NA.get(i, PENDING)})
hooks = []
hf = os.path.join(ROOT, 'hook_commits.txt')
if os.path.exists(hf):
    hooks = [l.split()[0] for l in open(hf) if l.strip()]
man = {
 'version': 1,
 'setup_cmd': './setup.sh --warm',
 'hooks': {
   'guard': 'verif',
   'enable': 'go build -tags verif (the driver builds every worker from /repo with this tag; hook files are new *_verif.go files carrying //go:build verif)',
   'baseline_off_cmd': "cd /repo && GOFLAGS=-mod=mod go test -vet=off -count=1 -timeout 25m ./...",
   'source_commits': hooks,
   'add_only': True,
 },
 'engines': [{'name': 'harness', 'path': 'harness', 'serves_properties': [c['property_id'] for c in checks],
              'kind_free_text': 'Go workers executing the real golib code under generated workloads with runtime monitors (reference models, independent reference encoder, history checkers, Go race detector, checkptr, allocation meter); driver spawns one child process per shard and build flavour'}],
 'checks': checks,
 'not_applicable': na,
 'notes': 'All checks: ./run.sh <ID> quick|thorough; VERIF_SEED selects the case list. Exit 0 held on what was observed / 1 VIOLATION / 2 inconclusive (observation floor unmet). Known findings: known_findings.jsonl.',
}
json.dump(man, open(os.path.join(ROOT, 'MANIFEST.json'), 'w'), indent=1)
print('checks:', [c['property_id'] for c in checks], 'not_applicable:', len(na))
