#!/usr/bin/env python3
# Regenerates MANIFEST.json from the table below (kept as code so that it stays consistent).
import json, os
ROOT = os.path.dirname(os.path.abspath(__file__))
props = [json.loads(l) for l in open(os.path.join(ROOT, 'properties.jsonl'))]
# id -> (category, technique, level text, level note, design ref)
CHECKS = {
 'C15': ('exploration', 'runtime differential monitoring against independent reference implementations (CRC-32 from hash/crc32, hashes and murmur re-implemented from the algorithm, net.IP), exhaustive enumeration of the small sub-spaces, golden digests for purity',
         'Executes the real hash/hexa32/bitutil/iputil functions on every input of the finite sub-spaces the property names (all byte strings of length<=2, all 2^16 byte pairs; all 2^32 half pairs and all 2^32 IPv4 addresses in the thorough tier) and on seeded random inputs elsewhere, comparing each result with an independent reference; a golden digest pins the persisted values.',
         'Trusts the Go standard library (hash/crc32, net) and the reference ports in cmd/wC15; random parts cover only the sampled inputs.', 'DESIGN.md §4 C15'),

 'C06': ('exploration', 'runtime monitoring of the real client against a fault-injecting loopback collector: offline checkers over recorded send intervals and received byte streams (well-formed frames, at-most-once, per-sender and real-time order, no loss when healthy, bounded-progress recovery) plus the Go race detector',
         'Runs the real OneWayTcpClient (hook constructor and the production singleton path) against a loopback collector with its own frame parser under 1..32 concurrent senders, direct and queue mode, frames beyond the 2 MiB write buffer, and enumerated fault schedules (FIN/RST after exactly N bytes for every frame-header offset, body offsets and later frames; 0/1/2/5 refused reconnects). Every scenario is decided by stream oracles over what the peer received; the same scenarios run under -race.',
         'Only interleavings and fault timings the scheduler/kernel produced are covered (evidence reports connections, cuts, recoveries, distinct arrival interleavings). Loss of data acknowledged just before a peer close is inherent to TCP and only counted. Expected payload bytes come from pack.ToBytesPack (C05 checks those bytes independently).', 'DESIGN.md §4 C06'),
 'C19': ('exploration', 'runtime differential monitoring of the calendar helpers against time.UnixMilli(t).UTC(), enumerating every day of 2000-2099 at fixed instants and minute boundaries; format/parse inverse over generated patterns',
         'Every day of the century is enumerated (36 525 days x 7 instants exhaustively; every minute boundary +-1 ms of every day in the thorough tier) and each helper result compared field by field with the standard library; unit functions are checked as exact step functions at every boundary; DateFormat format/parse round trips over generated patterns.',
         'Trusts the Go time package; instants within a day other than the enumerated ones are sampled; TZ is forced to UTC; partial patterns are checked only as far as the code documents (absent fields default to now).', 'DESIGN.md §4 C19'),
}
PENDING = 'check not built yet in this round (planned, see DESIGN.md §4); not claimed until its monitor exists and is silent on the unchanged tree'
NA = {}
checks, na = [], []
for p in props:
    i = p['id']
    if i in CHECKS and os.path.exists(os.path.join(ROOT, 'harness', 'cmd', 'w' + i, 'config.json')):
        cat, tech, text, note, ref = CHECKS[i]
        checks.append({
            'property_id': i,
            'quick_cmd': './run.sh %s quick' % i,
            'thorough_cmd': './run.sh %s thorough' % i,
            'evidence_file': 'evidence/%s.json' % i,
            'replay_cmd_template': './run.sh %s --replay {path}' % i,
            'engine': 'harness',
            'level_claimed': {'category': cat, 'text': text, 'design_ref': ref},
            'level_note': note,
            'technique': tech,
        })
    else:
        na.append({'property_id': i, 'reason': NA.get(i, PENDING)})
hooks = []
hf = os.path.join(ROOT, 'hook_commits.txt')
if os.path.exists(hf):
    hooks = [l.split()[0] for l in open(hf) if l.strip()]
man = {
 'version': 1,
 'setup_cmd': './setup.sh --warm',
 'hooks': {
   'guard': 'verif',
   'enable': 'go build -tags verif (the driver builds every worker from /repo with this tag; hook files are new *_verif.go files carrying //go:build verif)',
   'baseline_off_cmd': "cd /repo && GOFLAGS=-mod=mod go test -vet=off -count=1 -timeout 25m ./...",
   'source_commits': hooks,
   'add_only': True,
 },
 'engines': [{'name': 'harness', 'path': 'harness', 'serves_properties': [c['property_id'] for c in checks],
              'kind_free_text': 'Go workers executing the real golib code under generated workloads with runtime monitors (reference models, independent reference encoder, history checkers, Go race detector, checkptr, allocation meter); driver spawns one child process per shard and build flavour'}],
 'checks': checks,
 'not_applicable': na,
 'notes': 'All checks: ./run.sh <ID> quick|thorough; VERIF_SEED selects the case list. Exit 0 held on what was observed / 1 VIOLATION / 2 inconclusive (observation floor unmet). Known findings: known_findings.jsonl.',
}
json.dump(man, open(os.path.join(ROOT, 'MANIFEST.json'), 'w'), indent=1)
print('checks:', [c['property_id'] for c in checks], 'not_applicable:', len(na))
