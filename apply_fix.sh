#!/bin/sh
# apply_fix.sh <diff> <pkgs to test (space separated, quoted)> <commit message file>
# Applies a reviewed fix diff to /repo, builds, runs the packages' own tests with the guard off,
# and commits it as one "fix:" commit.
set -e
export GOFLAGS=-mod=mod GOPROXY=off GOSUMDB=off GOTOOLCHAIN=local
cd /repo
git apply "$1"
go build ./... 
go build -tags verif ./...
for p in $2; do go test -vet=off -count=1 "$p" 2>&1 | tail -3; done
git commit -qa -F "$3"
git log --oneline | head -1
