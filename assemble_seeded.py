#!/usr/bin/env python3
# Collects confirmed seeded changes from /tmp/seed-<ID>/ and work/seedres/<ID>-<k>.txt into
# /verif/seeded/<ID>-<k>/ (patch.diff, demo/, meta.json) and writes seeded/INDEX.md.
import json, os, re, shutil, glob
rows=[]
# changes of rounds 6-7 that the named check missed before it was strengthened (DESIGN.md 8.6);
# their seedres files were overwritten by the re-run, so the earlier result is recorded here
FIRST_MISSED={'C18r6-2':'C18','C10r6-3':'C10','C17r6-2':'C17','C12r6-2':'C12','C03r6-3':'C03','C04r6-2':'C04',
 'C18r7-1':'C18','C18r7-3':'C18','C06r7-2':'C06','C20r7-3':'C20','C13r7-3':'C13','C12r7-2':'C12','C15r7-2':'C15','C16r7-3':'C16',
 'C11r8-1':'C11','C11r8-3':'C11','C12r8-3':'C12','C14r8-1':'C14','C18r8-3':'C18','C20r8-1':'C20','C10r8-3':'C10','C06r8-3':'C06','C04r8-2':'C04','C03r8-2':'C03',
 'C09r9-2':'C09','C18r9-1':'C18','C18r9-2':'C18','C06r9-1':'C06'}
# changes that were confirmed as patches but judged not to break the property as stated (DESIGN.md §8.3)
DISPOSITION={
 'C18r8-1': 'outside the property as stated - an out-of-range float literal may read as infinity or as the default (the getter oracle has accepted both from the start, DESIGN.md 8.6 round 8)',
 'C08r4-3': 'outside the property as stated - needs Read on an object that already holds another pack, which the unchanged tree does not support either (DESIGN.md 8.3)',
}
for res in sorted(glob.glob('/verif/work/seedres/*.txt')):
    name=os.path.basename(res)[:-4]; pid,k=name.split('-')
    src='/tmp/seed-%s'%pid
    mr=re.match(r'(C\d+)r(\d+)$',pid)
    if mr:
        pid=mr.group(1); src='/tmp/seed%s-%s'%(mr.group(2),pid)
    kv={}
    for l in open(res):
        if '=' in l:
            a,b=l.rstrip('\n').split('=',1); kv[a]=b
    if 'demo_exit_changed' not in kv: continue
    ok = kv.get('applies')=='yes' and kv.get('builds')=='yes' and kv.get('suite_unexpected_failures')=='[]' and kv.get('demo_exit_clean')=='0' and kv.get('demo_exit_changed') not in ('0','NA')
    checks={m.group(1):(kv['check_%s_exit'%m.group(1)], kv.get('check_%s_keys'%m.group(1),'')) for m in (re.match(r'check_(C\d+)_exit',a) for a in kv) if m}
    meta={}
    try: meta=json.load(open('%s/change_%s.json'%(src,k)))
    except Exception as e: meta={'note':'change json unreadable: %s'%e}
    dst='/verif/seeded/%s'%name
    if ok and os.path.exists('%s/change_%s.diff'%(src,k)):
        os.makedirs(dst,exist_ok=True)
        shutil.copy('%s/change_%s.diff'%(src,k), dst+'/patch.diff')
        if os.path.isdir('%s/demo_%s'%(src,k)):
            shutil.rmtree(dst+'/demo',ignore_errors=True); shutil.copytree('%s/demo_%s'%(src,k), dst+'/demo')
    if os.path.isdir(dst):
        old={}
        if os.path.exists(dst+'/meta.json'):
            old=json.load(open(dst+'/meta.json'))
        oc=old.get('checks_run',{})
        hist=old.get('history',[])
        for c,(e,keys) in checks.items():
            new={'exit':int(e) if e.isdigit() else e,'violation_keys':[x for x in keys.split(';') if x]}
            if c in oc and oc[c]['exit']!=new['exit']:
                hist.append({'check':c,'earlier_result':oc[c],'note':'result before the check was strengthened (or before a base fix landed); superseded by checks_run'})
            oc[c]=new
        if name in FIRST_MISSED and not any(x.get('check')==FIRST_MISSED[name] for x in hist):
            hist.append({'check':FIRST_MISSED[name],'earlier_result':{'exit':0,'violation_keys':[]},'note':'result before the check was strengthened (DESIGN.md 8.6); superseded by checks_run'})
        old['history']=hist
        m={'property':pid,'breaks':meta.get('what_it_breaks',''),'title':meta.get('title',''),
           'needs_to_manifest':meta.get('needs_to_manifest',''),'files':meta.get('files',[]),
           'base_commit':kv.get('base','/repo HEAD at the time of the run (see /repo git log; later fix: commits may touch the same lines)'),
           'confirmed':{'applies_to_repo_head':kv.get('applies'),'builds':kv.get('builds'),'baseline_suite_unexpected_failures':kv.get('suite_unexpected_failures'),
                        'demo_exit_on_unchanged_tree':kv.get('demo_exit_clean'),'demo_exit_with_change':kv.get('demo_exit_changed')},
           'what_was_run':'seedcheck.sh: scratch worktree of /repo HEAD, demo/run.sh on the clean tree, git apply patch.diff, go build ./... (with and without -tags verif), go test -vet=off -count=1 ./..., demo/run.sh again, then VERIF_REPO=<worktree> ./run.sh <check> quick for the checks listed',
           'checks_run':oc,'history':old.get('history',[])}
        json.dump(m,open(dst+'/meta.json','w'),indent=1,ensure_ascii=False)
        caught=[c for c,v in oc.items() if v['exit']==1]
        outcome='caught by '+', '.join(caught) if caught else 'MISSED'
        if name in DISPOSITION and not caught:
            outcome='not counted: '+DISPOSITION[name]
            m['disposition']=DISPOSITION[name]
            json.dump(m,open(dst+'/meta.json','w'),indent=1,ensure_ascii=False)
# the index is rebuilt from every kept change's meta.json (work/seedres is scratch and may be gone)
def _key(d):
    m=re.match(r'(C\d+)(?:r(\d+))?-(\d+)$',d)
    return (m.group(1),int(m.group(2) or 1),int(m.group(3)))
for name in sorted([d for d in os.listdir('/verif/seeded') if os.path.isdir('/verif/seeded/'+d)],key=_key):
    m=json.load(open('/verif/seeded/%s/meta.json'%name)); oc=m.get('checks_run',{})
    caught=[c for c,v in oc.items() if v['exit']==1]
    outcome='caught by '+', '.join(caught) if caught else 'MISSED'
    if m.get('disposition') and not caught: outcome='not counted: '+m['disposition']
    rows.append((name,m.get('title',''),m.get('needs_to_manifest',''),', '.join('%s: %s'%(c,'; '.join(oc[c]['violation_keys'][:3]) or 'exit %s'%oc[c]['exit']) for c in oc), outcome))
with open('/verif/seeded/INDEX.md','w') as f:
    f.write('# Seeded changes (independent mutation rounds)\n\nEach directory: patch.diff (apply with `git -C /repo apply`), demo/ (fails with the change, passes without), meta.json.\n\n| id | change | needs to manifest | checks run (first keys) | outcome |\n|---|---|---|---|---|\n')
    for r in rows:
        f.write('| %s | %s | %s | %s | %s |\n'%tuple(str(x).replace('|','\\|').replace('\n',' ')[:300] for x in r))
print(len(rows),'seeded changes;', sum(1 for r in rows if r[4]=='MISSED'),'missed;', sum(1 for r in rows if r[4].startswith('not counted')),'not counted')
