package vlib

import (
	"bufio"
	"encoding/binary"
	"encoding/json"
	"flag"
	"fmt"
	"os"
	"path/filepath"
	"runtime/debug"
	"sort"
	"strings"
	"sync"
	"time"
)

// VerifRoot is where known_findings.jsonl, spec/ and work/ live.
func VerifRoot() string {
	if v := os.Getenv("VERIF_ROOT"); v != "" {
		return v
	}
	return "/verif"
}

type Violation struct {
	Key    string `json:"key"`
	What   string `json:"what"`
	Replay string `json:"replay"`
	Count  int    `json:"count"`
}

type KnownSeen struct {
	Key   string `json:"key"`
	What  string `json:"what"`
	Count int    `json:"count"`
}

type Inconclusive struct {
	Case   string `json:"case"`
	Reason string `json:"reason"`
}

type Floor struct {
	Name string `json:"name"`
	Min  int64  `json:"min"`
	Got  int64  `json:"got"`
}

// Result is what one child process reports to the driver.
type Result struct {
	Prop         string              `json:"prop"`
	Flavour      string              `json:"flavour"`
	Shard        int                 `json:"shard"`
	NShards      int                 `json:"nshards"`
	Seed         uint64              `json:"seed"`
	Tier         string              `json:"tier"`
	Completed    bool                `json:"completed"`
	Evaluations  int64               `json:"evaluations"`
	DistinctN    int64               `json:"distinct_enumerated"` // distinct by construction (enumerations)
	DistinctFile string              `json:"distinct_file"`       // 8-byte hashes of sampled distinct cases
	Counters     map[string]int64    `json:"counters"`
	Sets         map[string][]string `json:"sets"`
	Samples      []interface{}       `json:"samples"`
	Violations   []Violation         `json:"violations"`
	Known        []KnownSeen         `json:"known"`
	Inconclusive []Inconclusive      `json:"inconclusive"`
	Floors       []Floor             `json:"floors"`
	Exhaustive   []string            `json:"exhaustive"`
	Notes        []string            `json:"notes"`
}

type KnownFinding struct {
	Property string `json:"property"`
	Key      string `json:"key"`
	Status   string `json:"status"` // known | fixed
	What     string `json:"what"`
	Witness  string `json:"witness,omitempty"`
	Commit   string `json:"commit,omitempty"`
}

// LoadKnown reads known_findings.jsonl; only status=="known" entries suppress.
func LoadKnown(prop string) map[string]KnownFinding {
	m := map[string]KnownFinding{}
	// the committed list is the only source: nothing is added to it at run time
	files := []string{filepath.Join(VerifRoot(), "known_findings.jsonl")}
	for _, fn := range files {
		f, err := os.Open(fn)
		if err != nil {
			continue
		}
		sc := bufio.NewScanner(f)
		sc.Buffer(make([]byte, 1<<20), 1<<24)
		for sc.Scan() {
			line := strings.TrimSpace(sc.Text())
			if line == "" || strings.HasPrefix(line, "#") {
				continue
			}
			var k KnownFinding
			if json.Unmarshal([]byte(line), &k) != nil {
				continue
			}
			if k.Property == prop && k.Status == "known" {
				m[k.Key] = k
			}
		}
		f.Close()
	}
	return m
}

type Ctx struct {
	Prop    string
	Tier    string
	Seed    uint64
	Out     string
	Shard   int
	NShards int
	Flavour string
	Only    string // "section#index": run only that case (replay)
	Resume  map[string]bool

	mu         sync.Mutex
	res        Result
	known      map[string]KnownFinding
	vio        map[string]*Violation
	knownSeen  map[string]*KnownSeen
	distinct   map[uint64]struct{}
	sets       map[string]map[string]struct{}
	journal    *os.File
	start      time.Time
	curCase    string
	maxSamples int
}

// Start parses the worker flags. Every worker's main begins with it.
func Start(prop string) *Ctx {
	c := &Ctx{Prop: prop}
	var seed uint64
	flag.StringVar(&c.Tier, "tier", "quick", "quick|thorough")
	flag.Uint64Var(&seed, "seed", 1, "VERIF_SEED")
	flag.StringVar(&c.Out, "out", "", "output directory of this child")
	flag.IntVar(&c.Shard, "shard", 0, "shard index")
	flag.IntVar(&c.NShards, "nshards", 1, "number of shards")
	flag.StringVar(&c.Flavour, "flavour", "plain", "build flavour (plain|race|checkptr)")
	flag.StringVar(&c.Only, "only", "", "run only this case id (replay)")
	skip := flag.String("skip", "", "comma separated case ids to skip (cases that were process-fatal in an earlier child)")
	flag.Parse()
	c.Seed = seed
	if c.Out == "" {
		c.Out = filepath.Join(VerifRoot(), "work", prop, "manual")
	}
	os.MkdirAll(c.Out, 0o755)
	c.Resume = map[string]bool{}
	for _, s := range strings.Split(*skip, ",") {
		if s != "" {
			c.Resume[s] = true
		}
	}
	c.known = LoadKnown(prop)
	c.vio = map[string]*Violation{}
	c.knownSeen = map[string]*KnownSeen{}
	c.distinct = map[uint64]struct{}{}
	c.sets = map[string]map[string]struct{}{}
	c.res = Result{Prop: prop, Flavour: c.Flavour, Shard: c.Shard, NShards: c.NShards, Seed: seed, Tier: c.Tier,
		Counters: map[string]int64{}}
	c.maxSamples = 6
	j, err := os.OpenFile(filepath.Join(c.Out, "journal"), os.O_CREATE|os.O_WRONLY|os.O_APPEND, 0o644)
	if err == nil {
		c.journal = j
	}
	c.start = time.Now()
	return c
}

func (c *Ctx) Thorough() bool { return c.Tier == "thorough" }

// N picks the case count for the tier.
func (c *Ctx) N(quick, thorough int) int {
	if c.Thorough() {
		return thorough
	}
	return quick
}

// Rand returns the stream for (seed, label): independent of shard, so that a case is the
// same whatever the sharding.
func (c *Ctx) Rand(label string) *Rand {
	return NewRand(Mix(c.Seed*0x9e3779b97f4a7c15 ^ HashStr(label)))
}

// Journal records the case about to be executed; it is written with one write(2) so that
// it survives a process-fatal event.
func (c *Ctx) Journal(caseID, keyHint string) {
	c.mu.Lock()
	c.curCase = caseID
	if c.journal != nil {
		c.journal.WriteString(caseID + "\t" + keyHint + "\n")
	}
	c.mu.Unlock()
}

// JournalData stores a (possibly large) input next to the journal before a risky call.
func (c *Ctx) JournalData(name string, data []byte) {
	os.WriteFile(filepath.Join(c.Out, name), data, 0o644)
}

// Cases runs fn for the indices of [0,n) that belong to this shard. Each case has its own
// PRNG stream derived from (seed, section, index). A panic escaping fn is a violation
// keyed "<section>:panic" (workers that expect panics recover themselves).
func (c *Ctx) Cases(section string, n int, fn func(i int, r *Rand)) {
	for i := 0; i < n; i++ {
		if i%c.NShards != c.Shard {
			continue
		}
		id := fmt.Sprintf("%s#%d", section, i)
		if c.Only != "" && c.Only != id {
			continue
		}
		if c.Resume[id] {
			continue
		}
		c.Journal(id, section)
		c.runCase(section, id, i, fn)
	}
}

func (c *Ctx) runCase(section, id string, i int, fn func(i int, r *Rand)) {
	defer func() {
		if e := recover(); e != nil {
			c.Fail(section+":panic", fmt.Sprintf("unexpected panic in case %s: %v", id, e),
				map[string]interface{}{"panic": fmt.Sprint(e), "stack": string(debug.Stack())})
		}
	}()
	r := c.Rand(id)
	fn(i, r)
	c.mu.Lock()
	c.res.Evaluations++
	c.mu.Unlock()
}

// ParallelCases runs this shard's cases of a section on g goroutines at the same time. fn
// must only touch its own objects, its own r and the (mutex-protected) Ctx methods. It is used
// to observe functions that must stay pure and independent under concurrent callers: the
// oracle inside fn is the sequential one, the concurrency comes from running many at once.
// The whole block is journalled (and replayed) as one case "<section>#par".
func (c *Ctx) ParallelCases(section string, n, g int, fn func(i int, r *Rand)) {
	id := section + "#par"
	if (c.Only != "" && c.Only != id) || c.Resume[id] {
		return
	}
	c.Journal(id, section)
	var idx []int
	for i := 0; i < n; i++ {
		if i%c.NShards == c.Shard {
			idx = append(idx, i)
		}
	}
	var wg sync.WaitGroup
	var next int64 = -1
	var mu sync.Mutex
	for w := 0; w < g; w++ {
		wg.Add(1)
		go func() {
			defer wg.Done()
			for {
				mu.Lock()
				next++
				k := next
				mu.Unlock()
				if int(k) >= len(idx) {
					return
				}
				i := idx[k]
				func() {
					defer func() {
						if e := recover(); e != nil {
							c.Fail(section+":panic", fmt.Sprintf("unexpected panic in parallel case %s#%d: %v", section, i, e),
								map[string]interface{}{"panic": fmt.Sprint(e), "stack": string(debug.Stack())})
						}
					}()
					fn(i, c.Rand(fmt.Sprintf("%s#%d", section, i)))
				}()
				c.mu.Lock()
				c.res.Evaluations++
				c.mu.Unlock()
			}
		}()
	}
	wg.Wait()
}

// Section runs a bulk block (sweeps) once on the shard that owns it, or on all shards if
// sharded is true (the block then uses c.Shard/c.NShards itself).
func (c *Ctx) Section(name string, sharded bool, fn func()) {
	if !sharded && HashStr(name)%uint64(c.NShards) != uint64(c.Shard) {
		return
	}
	id := name + "#0"
	if c.Only != "" && c.Only != id {
		return
	}
	if c.Resume[id] {
		return
	}
	c.Journal(id, name)
	defer func() {
		if e := recover(); e != nil {
			c.Fail(name+":panic", fmt.Sprintf("unexpected panic in section %s: %v", name, e),
				map[string]interface{}{"panic": fmt.Sprint(e), "stack": string(debug.Stack())})
		}
	}()
	fn()
}

func (c *Ctx) Count(key string, n int64) {
	c.mu.Lock()
	c.res.Counters[key] += n
	c.mu.Unlock()
}

// Max keeps the maximum seen for a counter.
func (c *Ctx) Max(key string, v int64) {
	c.mu.Lock()
	if v > c.res.Counters[key] {
		c.res.Counters[key] = v
	}
	c.mu.Unlock()
}

// Eval adds evaluations made outside Cases (sweeps).
func (c *Ctx) Eval(n int64) {
	c.mu.Lock()
	c.res.Evaluations += n
	c.mu.Unlock()
}

// Distinct registers the hash of a non-trivial case (bounded set; see DistinctEnum for
// enumerations whose elements are distinct by construction).
func (c *Ctx) Distinct(h uint64) {
	c.mu.Lock()
	if len(c.distinct) < 4<<20 {
		c.distinct[h] = struct{}{}
	}
	c.mu.Unlock()
}

func (c *Ctx) DistinctStr(s string)   { c.Distinct(HashStr(s)) }
func (c *Ctx) DistinctBytes(b []byte) { c.Distinct(HashBytes(b)) }

// DistinctEnum counts n cases that are distinct by construction (a loop over distinct values).
func (c *Ctx) DistinctEnum(n int64) {
	c.mu.Lock()
	c.res.DistinctN += n
	c.mu.Unlock()
}

// SetAdd records membership in a named coverage set (types covered, op pairs, ...).
func (c *Ctx) SetAdd(set, member string) {
	c.mu.Lock()
	m := c.sets[set]
	if m == nil {
		m = map[string]struct{}{}
		c.sets[set] = m
	}
	if len(m) < 5000 {
		m[member] = struct{}{}
	}
	c.mu.Unlock()
}

func (c *Ctx) Sample(v interface{}) {
	c.mu.Lock()
	if len(c.res.Samples) < c.maxSamples {
		c.res.Samples = append(c.res.Samples, v)
	}
	c.mu.Unlock()
}

// SampleN reports whether another sample is still wanted (avoid building large samples).
func (c *Ctx) WantSample() bool {
	c.mu.Lock()
	defer c.mu.Unlock()
	return len(c.res.Samples) < c.maxSamples
}

func (c *Ctx) Exhaustive(what string) {
	c.mu.Lock()
	c.res.Exhaustive = append(c.res.Exhaustive, what)
	c.mu.Unlock()
}

func (c *Ctx) Note(s string) {
	c.mu.Lock()
	if len(c.res.Notes) < 50 {
		c.res.Notes = append(c.res.Notes, s)
	}
	c.mu.Unlock()
}

// Floor declares an observation floor: if got < min the run is inconclusive.
func (c *Ctx) Floor(name string, min, got int64) {
	c.mu.Lock()
	c.res.Floors = append(c.res.Floors, Floor{name, min, got})
	c.mu.Unlock()
}

func (c *Ctx) Counter(key string) int64 {
	c.mu.Lock()
	defer c.mu.Unlock()
	return c.res.Counters[key]
}

func (c *Ctx) Inconclusive(caseID, reason string) {
	c.mu.Lock()
	if len(c.res.Inconclusive) < 200 {
		c.res.Inconclusive = append(c.res.Inconclusive, Inconclusive{caseID, reason})
	}
	c.res.Counters["inconclusive"]++
	c.mu.Unlock()
}

// IsKnown tells whether key is listed as a known (unrepaired) finding.
func (c *Ctx) IsKnown(key string) bool {
	_, ok := c.known[key]
	return ok
}

// Fail reports a failing case under a finding key. Listed known findings are counted;
// anything else becomes a violation with a replay file holding the explicit case.
func (c *Ctx) Fail(key, what string, detail interface{}) {
	c.mu.Lock()
	defer c.mu.Unlock()
	if k, ok := c.known[key]; ok {
		ks := c.knownSeen[key]
		if ks == nil {
			ks = &KnownSeen{Key: key, What: k.What}
			c.knownSeen[key] = ks
		}
		ks.Count++
		return
	}
	v := c.vio[key]
	if v == nil {
		v = &Violation{Key: key, What: what}
		c.vio[key] = v
	}
	v.Count++
	if v.Count == 1 {
		dir := filepath.Join(VerifRoot(), "work", "replay")
		os.MkdirAll(dir, 0o755)
		name := fmt.Sprintf("%s-%s-s%d-%016x.json", c.Prop, c.Flavour, c.Seed, HashStr(key+c.curCase))
		p := filepath.Join(dir, name)
		rep := map[string]interface{}{
			"property": c.Prop, "key": key, "what": what, "flavour": c.Flavour, "tier": c.Tier,
			"seed": c.Seed, "shard": c.Shard, "nshards": c.NShards, "case": c.curCase, "detail": detail,
		}
		b, err := json.MarshalIndent(rep, "", " ")
		if err != nil {
			rep["detail"] = fmt.Sprintf("%+v", detail)
			b, _ = json.MarshalIndent(rep, "", " ")
		}
		os.WriteFile(p, b, 0o644)
		v.Replay = p
		fmt.Fprintf(os.Stderr, "FAIL %s key=%s case=%s: %s\n", c.Prop, key, c.curCase, what)
	}
}

// Failf is Fail with a formatted message and no structured detail.
func (c *Ctx) Failf(key string, detail interface{}, format string, a ...interface{}) {
	c.Fail(key, fmt.Sprintf(format, a...), detail)
}

// Violations returns the number of distinct violation keys so far.
func (c *Ctx) Violations() int {
	c.mu.Lock()
	defer c.mu.Unlock()
	return len(c.vio)
}

// Finish writes result.json and the distinct-hash file. The driver decides exit codes; the
// worker exits 0 when it ran to completion.
func (c *Ctx) Finish() {
	c.mu.Lock()
	defer c.mu.Unlock()
	c.res.Completed = true
	keys := make([]string, 0, len(c.vio))
	for k := range c.vio {
		keys = append(keys, k)
	}
	sort.Strings(keys)
	for _, k := range keys {
		c.res.Violations = append(c.res.Violations, *c.vio[k])
	}
	keys = keys[:0]
	for k := range c.knownSeen {
		keys = append(keys, k)
	}
	sort.Strings(keys)
	for _, k := range keys {
		c.res.Known = append(c.res.Known, *c.knownSeen[k])
	}
	c.res.Sets = map[string][]string{}
	for s, m := range c.sets {
		l := make([]string, 0, len(m))
		for k := range m {
			l = append(l, k)
		}
		sort.Strings(l)
		c.res.Sets[s] = l
	}
	df := filepath.Join(c.Out, "distinct.bin")
	buf := make([]byte, 0, 8*len(c.distinct))
	var tmp [8]byte
	for h := range c.distinct {
		binary.LittleEndian.PutUint64(tmp[:], h)
		buf = append(buf, tmp[:]...)
	}
	os.WriteFile(df, buf, 0o644)
	c.res.DistinctFile = df
	c.res.Counters["worker_wall_ms"] = time.Since(c.start).Milliseconds()
	b, _ := json.Marshal(&c.res)
	tmpf := filepath.Join(c.Out, "result.json.tmp")
	os.WriteFile(tmpf, b, 0o644)
	os.Rename(tmpf, filepath.Join(c.Out, "result.json"))
	if c.journal != nil {
		c.journal.Close()
	}
}

// Hex is a short hex rendering for samples and replay files.
func Hex(b []byte) string {
	const max = 96
	if len(b) <= max {
		return fmt.Sprintf("%x", b)
	}
	return fmt.Sprintf("%x…(%d bytes)", b[:max], len(b))
}

// Catch runs fn and returns the recovered panic value (nil if it returned normally).
func Catch(fn func()) (p interface{}) {
	defer func() {
		if e := recover(); e != nil {
			p = e
		}
	}()
	fn()
	return nil
}
