// Package vlib is the shared runtime of every worker: seeded PRNG, case journal,
// counters, finding keys, replay files and the result file the driver merges.
package vlib

import (
	"math"
)

// Rand is a splitmix64 stream. All case lists are determined by VERIF_SEED through it.
type Rand struct{ s uint64 }

func NewRand(seed uint64) *Rand { return &Rand{s: seed} }

func Mix(x uint64) uint64 {
	x += 0x9e3779b97f4a7c15
	x = (x ^ (x >> 30)) * 0xbf58476d1ce4e5b9
	x = (x ^ (x >> 27)) * 0x94d049bb133111eb
	return x ^ (x >> 31)
}

// HashStr is FNV-1a 64 finished with Mix (used for labels and distinct-case hashing).
func HashStr(s string) uint64 {
	h := uint64(14695981039346656037)
	for i := 0; i < len(s); i++ {
		h ^= uint64(s[i])
		h *= 1099511628211
	}
	return Mix(h)
}

func HashBytes(b []byte) uint64 {
	h := uint64(14695981039346656037)
	for i := 0; i < len(b); i++ {
		h ^= uint64(b[i])
		h *= 1099511628211
	}
	return Mix(h)
}

func (r *Rand) U64() uint64 {
	r.s += 0x9e3779b97f4a7c15
	x := r.s
	x = (x ^ (x >> 30)) * 0xbf58476d1ce4e5b9
	x = (x ^ (x >> 27)) * 0x94d049bb133111eb
	return x ^ (x >> 31)
}

func (r *Rand) U32() uint32 { return uint32(r.U64() >> 32) }

// Intn returns a value in [0,n). n<=0 returns 0.
func (r *Rand) Intn(n int) int {
	if n <= 0 {
		return 0
	}
	return int(r.U64() % uint64(n))
}

// Range returns a value in [lo,hi].
func (r *Rand) Range(lo, hi int) int {
	if hi <= lo {
		return lo
	}
	return lo + r.Intn(hi-lo+1)
}

func (r *Rand) Bool() bool { return r.U64()&1 == 1 }

// Chance is true with probability num/den.
func (r *Rand) Chance(num, den int) bool { return r.Intn(den) < num }

func (r *Rand) Float64() float64 { return float64(r.U64()>>11) / (1 << 53) }

// Fork derives an independent stream from this one and a label.
func (r *Rand) Fork(label string) *Rand { return NewRand(Mix(r.U64() ^ HashStr(label))) }

func (r *Rand) Bytes(n int) []byte {
	b := make([]byte, n)
	for i := 0; i < n; i += 8 {
		v := r.U64()
		for j := 0; j < 8 && i+j < n; j++ {
			b[i+j] = byte(v >> (8 * uint(j)))
		}
	}
	return b
}

func (r *Rand) Shuffle(n int, swap func(i, j int)) {
	for i := n - 1; i > 0; i-- {
		j := r.Intn(i + 1)
		swap(i, j)
	}
}

// ---- boundary-biased primitive draws ------------------------------------------------

var int64Edges = func() []int64 {
	e := []int64{0, 1, -1, math.MinInt64, math.MaxInt64, math.MinInt64 + 1, math.MaxInt64 - 1}
	// decimal class edges and every power of two, each ±{0,1}
	for k := uint(1); k < 64; k++ {
		p := int64(1) << k
		for _, d := range []int64{-1, 0, 1} {
			e = append(e, p+d, -p+d)
		}
	}
	return e
}()

// I64 draws a 64-bit integer biased to class edges and powers of two.
func (r *Rand) I64() int64 {
	switch r.Intn(10) {
	case 0, 1, 2, 3:
		return int64Edges[r.Intn(len(int64Edges))]
	case 4:
		return int64(r.Intn(512)) - 256
	case 5:
		// random magnitude
		return int64(r.U64()) >> uint(r.Intn(64))
	default:
		return int64(r.U64())
	}
}

func (r *Rand) I32() int32 {
	switch r.Intn(10) {
	case 0, 1, 2:
		v := int64Edges[r.Intn(len(int64Edges))]
		if v >= math.MinInt32 && v <= math.MaxInt32 {
			return int32(v)
		}
		return int32(v >> 32)
	case 3:
		return int32(r.Intn(512)) - 256
	case 4:
		return int32(r.U32()) >> uint(r.Intn(32))
	default:
		return int32(r.U32())
	}
}

func (r *Rand) I16() int16 {
	switch r.Intn(6) {
	case 0:
		e := []int16{0, 1, -1, 127, 128, -128, -129, 255, 256, 32767, -32768, -32767, 32766}
		return e[r.Intn(len(e))]
	default:
		return int16(r.U64())
	}
}

var f64Specials = []uint64{
	0, 0x8000000000000000, // ±0
	1, 0x8000000000000001, 0x000fffffffffffff, // subnormals
	0x0010000000000000,                     // min normal
	0x7fefffffffffffff, 0xffefffffffffffff, // ±max
	0x7ff0000000000000, 0xfff0000000000000, // ±Inf
	0x7ff8000000000000, 0xfff8000000000000, // quiet NaN
	0x7ff0000000000001, 0x7ff4000000000000, 0xfff0000000000001, // signalling NaN payloads
	0x7fffffffffffffff, 0x3ff0000000000000, 0xbff0000000000000,
}

// F64 draws a double from special bit patterns or uniform bits (NaNs included).
func (r *Rand) F64() float64 {
	switch r.Intn(4) {
	case 0:
		return math.Float64frombits(f64Specials[r.Intn(len(f64Specials))])
	case 1:
		return float64(r.I32()) / 8
	default:
		return math.Float64frombits(r.U64())
	}
}

var f32Specials = []uint32{
	0, 0x80000000, 1, 0x80000001, 0x007fffff, 0x00800000, 0x7f7fffff, 0xff7fffff,
	0x7f800000, 0xff800000, 0x7fc00000, 0xffc00000, 0x7f800001, 0x7fa00000, 0xff800001, 0x7fffffff,
	0x3f800000, 0xbf800000,
}

func (r *Rand) F32() float32 {
	switch r.Intn(4) {
	case 0:
		return math.Float32frombits(f32Specials[r.Intn(len(f32Specials))])
	case 1:
		return float32(r.I16()) / 4
	default:
		return math.Float32frombits(r.U32())
	}
}

// NoNaN64 / NoNaN32 redraw until the value is not a NaN.
func (r *Rand) F64NoNaN() float64 {
	for {
		f := r.F64()
		if f == f {
			return f
		}
	}
}
func (r *Rand) F32NoNaN() float32 {
	for {
		f := r.F32()
		if f == f {
			return f
		}
	}
}

var strAlphabets = []string{
	"abcdefghijklmnopqrstuvwxyz0123456789 _-=/;:",
	"한국어テスト日本語éüß€😀",
}

// Str draws a string: "", 1 byte, multi-byte UTF-8, invalid UTF-8, threshold lengths, random.
// maxLen caps the length (in bytes, approximately for multi-byte alphabets).
func (r *Rand) Str(maxLen int) string {
	switch r.Intn(13) {
	case 0:
		return ""
	case 12:
		// long multi-byte text: the number of characters and the number of bytes lie on
		// different sides of a length-class threshold (253/254 bytes, 127/128, 255/256), e.g.
		// 85..253 three-byte characters or 127..253 two-byte ones, optionally with an ASCII tail
		// that puts the BYTE length exactly on a threshold
		alpha := [][]rune{[]rune("가나다라마바사한글"), []rune("éüñßøåäö"), []rune("😀😁🙂"), []rune("aé한😀")}[r.Intn(4)]
		n := []int{85, 86, 100, 127, 128, 200, 252, 253, 254, r.Range(64, 260)}[r.Intn(10)]
		out := make([]rune, n)
		for i := range out {
			out[i] = alpha[r.Intn(len(alpha))]
		}
		t := string(out)
		if r.Intn(3) == 0 {
			for _, l := range []int{253, 254, 255, 256, 65535, 65536} {
				if len(t) <= l && l-len(t) < 8 {
					t += r.AsciiN(l - len(t))
					break
				}
			}
		}
		if len(t) > maxLen {
			// clip on a character boundary (cutting inside a character is case 2's and 3's job)
			cut := 0
			for i := range t {
				if i > maxLen {
					break
				}
				cut = i
			}
			t = t[:cut]
		}
		return t
	case 1:
		return string(rune('a' + r.Intn(26)))
	case 2:
		rs := []rune(strAlphabets[1])
		n := r.Range(1, 8)
		out := make([]rune, n)
		for i := range out {
			out[i] = rs[r.Intn(len(rs))]
		}
		return clip(string(out), maxLen)
	case 3:
		// invalid UTF-8
		b := r.Bytes(r.Range(1, 6))
		b[0] = 0xff
		return clip(string(b), maxLen)
	case 4:
		l := []int{253, 254, 255, 256, 127, 128}[r.Intn(6)]
		return r.AsciiN(minInt(l, maxLen))
	case 5:
		if maxLen >= 65536 && r.Intn(8) == 0 {
			l := []int{65534, 65535, 65536, 65537}[r.Intn(4)]
			return r.AsciiN(minInt(l, maxLen))
		}
		return r.AsciiN(r.Range(0, minInt(64, maxLen)))
	default:
		return r.AsciiN(r.Range(0, minInt(24, maxLen)))
	}
}

func clip(s string, n int) string {
	if len(s) > n {
		return s[:n]
	}
	return s
}

func minInt(a, b int) int {
	if a < b {
		return a
	}
	return b
}

func (r *Rand) AsciiN(n int) string {
	a := strAlphabets[0]
	b := make([]byte, n)
	for i := range b {
		b[i] = a[r.Intn(len(a))]
	}
	return string(b)
}

// Ident draws a short identifier-like string (never empty).
func (r *Rand) Ident() string {
	n := r.Range(1, 10)
	b := make([]byte, n)
	for i := range b {
		b[i] = byte('a' + r.Intn(26))
	}
	return string(b)
}

// Blob draws a byte slice: nil, empty, threshold lengths or random.
func (r *Rand) Blob(maxLen int) []byte {
	switch r.Intn(10) {
	case 0:
		return nil
	case 1:
		return []byte{}
	case 2:
		l := []int{1, 253, 254, 255, 256}[r.Intn(5)]
		return r.Bytes(minInt(l, maxLen))
	case 3:
		if maxLen >= 65536 && r.Intn(8) == 0 {
			l := []int{65534, 65535, 65536, 65537}[r.Intn(4)]
			return r.Bytes(minInt(l, maxLen))
		}
		return r.Bytes(r.Range(0, minInt(300, maxLen)))
	default:
		return r.Bytes(r.Range(0, minInt(40, maxLen)))
	}
}
