// Package lmap holds what C09 (sequential model comparison) and C10 (linearizability of
// concurrent histories) share for the thirteen linked hash maps/sets of util/hmap:
//
//   - Types: one descriptor per type, with its constructors (default and, where the type
//     offers it, capacity/load-factor) — New(cfg) builds a fresh real instance;
//   - Apply(inst, op): performs ONE public operation, named uniformly, on the real instance
//     with generic key/value arguments and returns a normalised, comparable Result (panics
//     are recovered into the Result);
//   - Model: the sequential reference model (an insertion-ordered dictionary with a maximum
//     size) that steps the same Op and returns the same Result; Clone() is a slice copy;
//   - Walk(inst): the structural-invariant walker over the private fields (reflect+unsafe);
//   - Runner: runs calls on a helper goroutine and recognises a self-deadlock (the helper
//     parked in sync.(*Mutex).Lock on a private instance) without trusting wall-clock time.
//
// Canonical argument/result forms: integer keys, LinkedKey ids and integer values are int64;
// float values are float32; string keys are string; object values (interface{}) are whatever
// the caller passes (the workers pass int64, string or nil). Nothing in this package uses a
// golib container as the oracle of another.
package lmap

import (
	"fmt"
	"reflect"

	"github.com/whatap/golib/util/hmap"
)

type KeyKind int

const (
	KInt32 KeyKind = iota
	KInt64
	KString
	KLinked // hmap.LinkedKey, implemented by LKey
)

type ValKind int

const (
	VSet ValKind = iota // sets: the "value" of a key is the key itself
	VObj                // interface{}
	VInt32
	VInt64
	VFloat32
)

// LKey is the harness's LinkedKey: identity = ID, hash = uint(ID) (so that ids chosen to be
// congruent modulo the table sizes collide, and negative ids give extreme hashes) — except
// for the ids of the twin range [TwinBase, TwinBase+2^32), which hash in groups of four:
// TwinBase+4j … TwinBase+4j+3 are four DIFFERENT keys with one and the same full hash value
// (a structure must tell them apart with Equals, not by the stored hash).
type LKey struct{ ID int64 }

// TwinBase is the first id of the twin range (see LKey).
const TwinBase = int64(1) << 50

func (k LKey) Hash() uint {
	if k.ID >= TwinBase && k.ID < TwinBase+1<<32 {
		return uint(TwinBase + (k.ID-TwinBase)>>2)
	}
	return uint(k.ID)
}
func (k LKey) Equals(o hmap.LinkedKey) bool {
	x, ok := o.(LKey)
	return ok && x.ID == k.ID
}
func (k LKey) String() string { return fmt.Sprintf("K%d", k.ID) }

// UKey is LKey with a dynamic type that does not support == (it has a slice field): a structure
// that compares two stored keys with == instead of Equals panics at run time on it. Same
// identity and hash as LKey{ID}. Used by the instances whose Config has UKeys set.
type UKey struct {
	ID  int64
	Pad []byte
}

func (k UKey) Hash() uint { return LKey{k.ID}.Hash() }
func (k UKey) Equals(o hmap.LinkedKey) bool {
	x, ok := o.(UKey)
	return ok && x.ID == k.ID
}
func (k UKey) String() string { return fmt.Sprintf("U%d", k.ID) }

// Config selects the constructor and the initial bound of an instance.
type Config struct {
	Default bool    `json:"default"`        // use the default constructor (capacity 101, load factor 0.75)
	Cap     int     `json:"cap,omitempty"`  // initial capacity (types with HasCapLF, Default=false)
	LF      float32 `json:"lf,omitempty"`   // load factor
	Max     int     `json:"max,omitempty"`  // >0: SetMax(Max) right after construction
	None    any     `json:"none,omitempty"` // non-nil: the NONE sentinel to install (int64 or float32), types with HasNone
	UKeys   bool    `json:"uncomparable_keys,omitempty"` // LinkedMap/LinkedSet: keys are UKey (no == for their dynamic type) instead of LKey
}

// TypeDesc describes one of the thirteen linked types.
type TypeDesc struct {
	Name     string
	Key      KeyKind
	Val      ValKind
	HasCapLF bool // offers New<Type>(initCapacity, loadFactor)
	HasNone  bool // primitive-valued: has a configurable NONE sentinel

	newDefault func() any
	newCapLF   func(c int, lf float32) any
	ops        map[string]bool // uniform op name -> offered
	lay        *layout         // private-field layout, for Walk
}

// IsSet reports whether the type is a set (no values).
func (t *TypeDesc) IsSet() bool { return t.Val == VSet }

// Real maps a uniform operation name to the method name of this type.
func (t *TypeDesc) Real(op string) string {
	switch op {
	case "ContainsKey":
		if t.IsSet() {
			return "Contains"
		}
	case "FirstKey":
		if t.IsSet() {
			return "GetFirst"
		}
		return "GetFirstKey"
	case "LastKey":
		if t.IsSet() {
			return "GetLast"
		}
		return "GetLastKey"
	case "FirstValue":
		return "GetFirstValue"
	case "LastValue":
		return "GetLastValue"
	case "KeyArray":
		if t.Name == "StringLinkedSet" {
			return "GetArray"
		}
	}
	return op
}

// AllOps is every uniform operation name Apply and Model.Step understand.
var AllOps = []string{
	"Put", "PutFirst", "PutLast", "Add", "AddFirst", "AddLast", "AddNoOver", "Unipoint",
	"Get", "GetLRU", "ContainsKey", "ContainsValue",
	"Remove", "RemoveFirst", "RemoveLast", "Clear", "Sort", "SetMax",
	"Size", "IsEmpty", "IsFull", "FirstKey", "LastKey", "FirstValue", "LastValue",
	"Keys", "Values", "Entries", "KeyArray", "GetKeySet", "ToString",
}

// Supports reports whether the type offers the (uniformly named) operation.
func (t *TypeDesc) Supports(op string) bool { return t.ops[op] }

// Ops lists the operations the type offers.
func (t *TypeDesc) Ops() []string {
	var l []string
	for _, o := range AllOps {
		if t.ops[o] {
			l = append(l, o)
		}
	}
	return l
}

// Inst is one real instance plus what Apply needs to drive it.
type Inst struct {
	T    *TypeDesc
	Obj  any // *hmap.<Type>
	Cfg  Config
	None any // canonical NONE of this instance: int64(0)/float32(0) unless configured; nil for object maps and sets

	// EnumLimit bounds every enumeration (a corrupted order list must not hang the harness).
	EnumLimit int

	rv   reflect.Value
	meth map[string]reflect.Value // real method name -> bound method (filled at New, read-only afterwards)
}

// New builds a fresh real instance. Types without a capacity/load-factor constructor ignore
// Cap/LF. A constructor that returns nil (bad arguments) yields Obj == nil.
func (t *TypeDesc) New(cfg Config) *Inst {
	var obj any
	if cfg.Default || !t.HasCapLF {
		obj = t.newDefault()
	} else {
		obj = t.newCapLF(cfg.Cap, cfg.LF)
	}
	in := &Inst{T: t, Obj: obj, Cfg: cfg, EnumLimit: 1 << 20}
	in.rv = reflect.ValueOf(obj)
	if in.rv.IsNil() {
		in.Obj = nil
		return in
	}
	in.meth = make(map[string]reflect.Value, in.rv.NumMethod())
	rt := in.rv.Type()
	for i := 0; i < rt.NumMethod(); i++ {
		in.meth[rt.Method(i).Name] = in.rv.Method(i)
	}
	switch t.Val {
	case VInt32, VInt64:
		in.None = int64(0)
	case VFloat32:
		in.None = float32(0)
	}
	if t.HasNone && cfg.None != nil {
		f := in.rv.Elem().FieldByName("NONE")
		f.Set(reflect.ValueOf(cfg.None).Convert(f.Type()))
		switch t.Val {
		case VInt32, VInt64:
			in.None = reflect.ValueOf(cfg.None).Convert(reflect.TypeOf(int64(0))).Interface()
		case VFloat32:
			in.None = reflect.ValueOf(cfg.None).Convert(reflect.TypeOf(float32(0))).Interface()
		}
	}
	if cfg.Max > 0 {
		in.meth["SetMax"].Call([]reflect.Value{reflect.ValueOf(cfg.Max)})
	}
	return in
}

// Types lists the thirteen linked types.
var Types = []*TypeDesc{
	{Name: "LinkedMap", Key: KLinked, Val: VObj, HasCapLF: true,
		newDefault: func() any { return hmap.NewLinkedMapDefault() },
		newCapLF:   func(c int, l float32) any { return hmap.NewLinkedMap(c, l) }},
	{Name: "IntKeyLinkedMap", Key: KInt32, Val: VObj, HasCapLF: true,
		newDefault: func() any { return hmap.NewIntKeyLinkedMapDefault() },
		newCapLF:   func(c int, l float32) any { return hmap.NewIntKeyLinkedMap(c, l) }},
	{Name: "LongKeyLinkedMap", Key: KInt64, Val: VObj, HasCapLF: true,
		newDefault: func() any { return hmap.NewLongKeyLinkedMapDefault() },
		newCapLF:   func(c int, l float32) any { return hmap.NewLongKeyLinkedMap(c, l) }},
	{Name: "StringKeyLinkedMap", Key: KString, Val: VObj,
		newDefault: func() any { return hmap.NewStringKeyLinkedMap() }},
	{Name: "IntIntLinkedMap", Key: KInt32, Val: VInt32, HasNone: true,
		newDefault: func() any { return hmap.NewIntIntLinkedMap() }},
	{Name: "IntFloatLinkedMap", Key: KInt32, Val: VFloat32, HasNone: true,
		newDefault: func() any { return hmap.NewIntFloatLinkedMap() }},
	{Name: "LongFloatLinkedMap", Key: KInt64, Val: VFloat32, HasNone: true,
		newDefault: func() any { return hmap.NewLongFloatLinkedMap() }},
	{Name: "LongLongLinkedMap", Key: KInt64, Val: VInt64, HasCapLF: true, HasNone: true,
		newDefault: func() any { return hmap.NewLongLongLinkedMapDefault() },
		newCapLF:   func(c int, l float32) any { return hmap.NewLongLongLinkedMap(c, l) }},
	{Name: "StringIntLinkedMap", Key: KString, Val: VInt32, HasNone: true,
		newDefault: func() any { return hmap.NewStringIntLinkedMap() }},
	{Name: "StringLongLinkedMap", Key: KString, Val: VInt64, HasNone: true,
		newDefault: func() any { return hmap.NewStringLongLinkedMap() }},
	{Name: "LinkedSet", Key: KLinked, Val: VSet,
		newDefault: func() any { return hmap.NewLinkedSet() }},
	{Name: "IntLinkedSet", Key: KInt32, Val: VSet,
		newDefault: func() any { return hmap.NewIntLinkedSet() }},
	{Name: "StringLinkedSet", Key: KString, Val: VSet,
		newDefault: func() any { return hmap.NewStringLinkedSet() }},
}

// TypeByName finds a descriptor.
func TypeByName(n string) *TypeDesc {
	for _, t := range Types {
		if t.Name == n {
			return t
		}
	}
	return nil
}

func init() {
	for _, t := range Types {
		obj := t.newDefault()
		rt := reflect.TypeOf(obj)
		t.ops = map[string]bool{}
		for _, o := range AllOps {
			if _, ok := rt.MethodByName(t.Real(o)); ok {
				t.ops[o] = true
			}
		}
		t.lay = newLayout(t, rt.Elem())
	}
}
