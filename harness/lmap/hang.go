package lmap

// FindCycle: proof that a call which is RUNNING (not parked) inside a linked map/set and does
// not come back can never come back. Every internal loop of these types follows a hash chain
// until nil or the order list until the header; it can only run for ever when a chain has
// become cyclic or the order list has a cycle that does not pass through the header — and no
// correct mutation (insert at the chain head, unlink, re-bucket, link at an end of the order
// list) creates either, even for an instant. The private links are read while the stuck call
// may still be rewriting them (word-sized pointer reads, bounded number of steps, no writes),
// hence no race instrumentation.

import (
	"fmt"
	"reflect"
	"unsafe"
)

//go:norace
func FindCycle(in *Inst) string {
	if in == nil || in.Obj == nil {
		return ""
	}
	t, l := in.T, in.T.lay
	base := reflect.ValueOf(in.Obj).UnsafePointer()
	table := *(*[]unsafe.Pointer)(unsafe.Add(base, l.table))
	const maxSteps = 1 << 16
	for b, e := range table {
		seen := map[unsafe.Pointer]bool{}
		var keys []any
		for n := 0; e != nil && n < maxSteps; e, n = ptrAt(e, l.eChain), n+1 {
			if seen[e] {
				return fmt.Sprintf("bucket %d of the %d-bucket private table holds a cyclic hash chain (keys %v, then the first of them again)", b, len(table), keys)
			}
			seen[e] = true
			if len(keys) < 12 {
				keys = append(keys, t.readKey(e))
			}
		}
	}
	header := ptrAt(base, l.header)
	if header == nil {
		return ""
	}
	seen := map[unsafe.Pointer]bool{}
	n := 0
	for e := ptrAt(header, l.eNext); e != nil && e != header && n < maxSteps; e, n = ptrAt(e, l.eNext), n+1 {
		if seen[e] {
			return fmt.Sprintf("the order list (link_next from the header) returns to the entry with key %v after %d entries without passing through the header", t.readKey(e), n)
		}
		seen[e] = true
	}
	seen = map[unsafe.Pointer]bool{}
	n = 0
	for e := ptrAt(header, l.ePrev); e != nil && e != header && n < maxSteps; e, n = ptrAt(e, l.ePrev), n+1 {
		if seen[e] {
			return fmt.Sprintf("the order list (link_prev from the header) returns to the entry with key %v after %d entries without passing through the header", t.readKey(e), n)
		}
		seen[e] = true
	}
	return ""
}
