package lmap

import (
	"bytes"
	"fmt"
	"runtime"
	"strings"
	"time"
)

// Outcome of a guarded call.
type Outcome int

const (
	Returned     Outcome = iota
	SelfDeadlock         // the helper goroutine is parked in sync.(*Mutex).Lock: on an instance
	//                      no other goroutine can reach nobody will ever unlock it — conclusive
	Hung // the time limit passed and the helper is not parked on a mutex (busy loop, slow machine): inconclusive
)

// Runner executes calls on one helper goroutine so that a call that never returns cannot
// stall the worker. After SelfDeadlock or Hung the runner (and the instance the call was
// made on) must be abandoned.
type Runner struct {
	req  chan func()
	done chan struct{}
	gid  string
	dead bool
}

func NewRunner() *Runner {
	r := &Runner{req: make(chan func()), done: make(chan struct{})}
	ready := make(chan string)
	go r.loop(ready)
	r.gid = <-ready
	return r
}

func (r *Runner) loop(ready chan string) {
	var b [64]byte
	n := runtime.Stack(b[:], false) // "goroutine 123 [running]:..."
	f := strings.Fields(string(b[:n]))
	id := ""
	if len(f) > 1 {
		id = f[1]
	}
	ready <- id
	for fn := range r.req {
		fn()
		r.done <- struct{}{}
	}
}

// Close ends the helper goroutine (no effect after a deadlock: that goroutine is lost).
func (r *Runner) Close() {
	if !r.dead {
		close(r.req)
		r.dead = true
	}
}

// Do runs fn on the helper goroutine. It returns as soon as fn returns; otherwise it polls
// the helper's stack (first after 150 ms, then every 250 ms, up to limit): parked in
// sync.(*Mutex).Lock => SelfDeadlock with that stack; limit reached => Hung.
func (r *Runner) Do(fn func(), limit time.Duration) (Outcome, string) {
	if r.dead {
		return Hung, "runner abandoned"
	}
	r.req <- fn
	wait := 150 * time.Millisecond
	var spent time.Duration
	t := time.NewTimer(wait)
	defer t.Stop()
	for {
		select {
		case <-r.done:
			return Returned, ""
		case <-t.C:
			spent += wait
			st := r.stack()
			if strings.Contains(st, "sync.(*Mutex).Lock") && (strings.Contains(st, "[sync.Mutex.Lock") || strings.Contains(st, "[semacquire")) {
				// make sure it is still parked a moment later (not a transient park)
				time.Sleep(50 * time.Millisecond)
				select {
				case <-r.done:
					return Returned, ""
				default:
				}
				r.dead = true
				return SelfDeadlock, st
			}
			if spent >= limit {
				r.dead = true
				return Hung, st
			}
			wait = 250 * time.Millisecond
			t.Reset(wait)
		}
	}
}

// stack returns the stack block of the helper goroutine from an all-goroutine dump.
func (r *Runner) stack() string {
	buf := make([]byte, 1<<20)
	for {
		n := runtime.Stack(buf, true)
		if n < len(buf) {
			buf = buf[:n]
			break
		}
		buf = make([]byte, 2*len(buf))
	}
	head := []byte(fmt.Sprintf("goroutine %s [", r.gid))
	for _, blk := range bytes.Split(buf, []byte("\n\n")) {
		if bytes.HasPrefix(blk, head) {
			return string(blk)
		}
	}
	return ""
}
