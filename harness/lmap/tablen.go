package lmap

import (
	"reflect"
	"unsafe"
)

// TableLen reads only the current number of buckets of the private table (cheap: no walk);
// CountField reads the private count field.
func TableLen(in *Inst) int {
	if in == nil || in.Obj == nil {
		return 0
	}
	base := reflect.ValueOf(in.Obj).UnsafePointer()
	return len(*(*[]unsafe.Pointer)(unsafe.Add(base, in.T.lay.table)))
}

func CountField(in *Inst) int {
	if in == nil || in.Obj == nil {
		return 0
	}
	base := reflect.ValueOf(in.Obj).UnsafePointer()
	return *(*int)(unsafe.Add(base, in.T.lay.count))
}
