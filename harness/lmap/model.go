package lmap

import "sort"

// Ent is one key/value pair of the model (sets: V == K).
type Ent struct{ K, V any }

// StepInfo says what the last Step did (used to classify a divergence; not part of the state).
type StepInfo struct {
	Existing bool  // the operation addressed a key that was present
	Inserted bool  // a new key was inserted
	Evicted  []any // keys evicted to respect Max
	Changed  bool  // the state (content or order) changed
}

// Model is the sequential specification: an insertion-ordered dictionary with an optional
// maximum size. Put keeps the position of an existing key; PutFirst/PutLast (and the
// Add-variants of the same names) place or move the entry at that end; a new key inserted at
// the back evicts from the front while the size is >= Max, a new key inserted at the front
// evicts from the back; updating an existing key never evicts. Add accumulates.
// SetMax only records the bound (it is enforced by the next insertion); Sort re-inserts the
// entries in key order (so a structure holding more than Max entries is cut to the last Max).
type Model struct {
	Val  ValKind
	None any // canonical NONE (folded into "nothing"), nil for object maps and sets
	Max  int
	Ents []Ent
	Last StepInfo
}

func NewModel(t *TypeDesc, cfg Config) *Model {
	m := &Model{Val: t.Val, Max: cfg.Max}
	if m.Max < 0 {
		m.Max = 0
	}
	in := Inst{T: t}
	switch t.Val {
	case VInt32, VInt64:
		in.None = int64(0)
		if t.HasNone && cfg.None != nil {
			in.None = Canon(cfg.None)
		}
	case VFloat32:
		in.None = float32(0)
		if t.HasNone && cfg.None != nil {
			in.None = Canon(cfg.None)
		}
	}
	m.None = in.None
	return m
}

// Clone copies the state (cheap: one slice copy).
func (m *Model) Clone() *Model {
	c := *m
	c.Ents = append([]Ent(nil), m.Ents...)
	c.Last = StepInfo{}
	return &c
}

// Equal compares two model states (content, order and bound).
func (m *Model) Equal(o *Model) bool {
	if m.Max != o.Max || len(m.Ents) != len(o.Ents) {
		return false
	}
	for i := range m.Ents {
		if m.Ents[i] != o.Ents[i] {
			return false
		}
	}
	return true
}

func (m *Model) Size() int { return len(m.Ents) }

func (m *Model) Keys() []any {
	s := make([]any, len(m.Ents))
	for i, e := range m.Ents {
		s[i] = e.K
	}
	return s
}
func (m *Model) Values() []any {
	s := make([]any, len(m.Ents))
	for i, e := range m.Ents {
		s[i] = e.V
	}
	return s
}
func (m *Model) Pairs() []any {
	s := make([]any, len(m.Ents))
	for i, e := range m.Ents {
		s[i] = [2]any{e.K, e.V}
	}
	return s
}

func (m *Model) find(k any) int {
	for i := range m.Ents {
		if m.Ents[i].K == k {
			return i
		}
	}
	return -1
}

func (m *Model) removeAt(i int) Ent {
	e := m.Ents[i]
	m.Ents = append(m.Ents[:i:i], m.Ents[i+1:]...)
	return e
}

func (m *Model) moveTo(i int, first bool) {
	if (first && i == 0) || (!first && i == len(m.Ents)-1) {
		return
	}
	e := m.removeAt(i)
	m.place(e, first)
	m.Last.Changed = true
}

func (m *Model) place(e Ent, first bool) {
	if first {
		m.Ents = append([]Ent{e}, m.Ents...)
	} else {
		m.Ents = append(m.Ents, e)
	}
}

// insert adds a NEW key at the given end, evicting from the opposite end.
func (m *Model) insert(e Ent, first bool) {
	if m.Max > 0 {
		for len(m.Ents) >= m.Max {
			if first {
				m.Last.Evicted = append(m.Last.Evicted, m.removeAt(len(m.Ents)-1).K)
			} else {
				m.Last.Evicted = append(m.Last.Evicted, m.removeAt(0).K)
			}
		}
	}
	m.place(e, first)
	m.Last.Inserted, m.Last.Changed = true, true
}

func (m *Model) sum(a, b any) any {
	switch m.Val {
	case VInt32:
		return int64(int32(a.(int64)) + int32(b.(int64)))
	case VInt64:
		return a.(int64) + b.(int64)
	case VFloat32:
		return a.(float32) + b.(float32)
	}
	panic("lmap: Add on a non-numeric model")
}

func (m *Model) val(v any) Result { return ValResult(v, m.None) }

func boolResult(b bool) Result {
	if b {
		return Result{Kind: RVal, Val: true}
	}
	return Result{Kind: RVal, Absent: true}
}

// Step applies op to the model and returns what a correct implementation returns.
func (m *Model) Step(op Op) Result {
	m.Last = StepInfo{}
	set := m.Val == VSet
	v := op.V
	if set {
		v = op.K
	}
	switch op.Name {
	case "Put", "PutFirst", "PutLast", "Unipoint", "Add", "AddFirst", "AddLast", "AddNoOver":
		first := op.Name == "PutFirst" || op.Name == "AddFirst"
		force := first || op.Name == "PutLast" || op.Name == "AddLast"
		add := op.Name[0] == 'A'
		res := Result{Kind: RVal, Absent: true}
		if i := m.find(op.K); i >= 0 {
			m.Last.Existing = true
			res = m.val(m.Ents[i].V)
			nv := v
			if add {
				nv = m.sum(m.Ents[i].V, v)
			}
			if m.Ents[i].V != nv {
				m.Ents[i].V = nv
				m.Last.Changed = true
			}
			if force {
				m.moveTo(i, first)
			}
		} else if op.Name == "AddNoOver" && m.Max > 0 && len(m.Ents) >= m.Max {
			// full: the new key is not admitted
		} else {
			m.insert(Ent{op.K, v}, first)
		}
		if op.Name == "Unipoint" {
			return m.val(op.K)
		}
		return res
	case "Get", "GetLRU":
		i := m.find(op.K)
		if i < 0 {
			return m.val(nil)
		}
		m.Last.Existing = true
		r := m.val(m.Ents[i].V)
		if op.Name == "GetLRU" {
			m.moveTo(i, false)
		}
		return r
	case "ContainsKey":
		return boolResult(m.find(op.K) >= 0)
	case "ContainsValue":
		for _, e := range m.Ents {
			if e.V == op.V {
				return boolResult(true)
			}
		}
		return boolResult(false)
	case "Remove", "RemoveFirst", "RemoveLast":
		i := -1
		switch {
		case op.Name == "Remove":
			i = m.find(op.K)
		case op.Name == "RemoveFirst" && len(m.Ents) > 0:
			i = 0
		case op.Name == "RemoveLast":
			i = len(m.Ents) - 1
		}
		if i < 0 {
			return m.val(nil)
		}
		m.Last.Existing, m.Last.Changed = true, true
		return m.val(m.removeAt(i).V)
	case "Clear":
		m.Last.Changed = len(m.Ents) > 0
		m.Ents = nil
		return Result{Kind: RVoid}
	case "Sort":
		old := m.Ents
		l := append([]Ent(nil), old...)
		sort.SliceStable(l, func(i, j int) bool {
			if op.Desc {
				return LessKeys(l[j].K, l[i].K)
			}
			return LessKeys(l[i].K, l[j].K)
		})
		m.Ents = nil
		for _, e := range l {
			m.insert(e, false)
		}
		m.Last = StepInfo{Evicted: m.Last.Evicted}
		if len(old) != len(m.Ents) {
			m.Last.Changed = true
		} else {
			for i := range old {
				if old[i] != m.Ents[i] {
					m.Last.Changed = true
				}
			}
		}
		return Result{Kind: RVoid}
	case "SetMax":
		m.Max = op.N
		if m.Max < 0 {
			m.Max = 0
		}
		return Result{Kind: RVoid}
	case "ToString":
		return Result{Kind: RVoid}
	case "Size":
		return m.val(int64(len(m.Ents)))
	case "IsEmpty":
		return boolResult(len(m.Ents) == 0)
	case "IsFull":
		return boolResult(m.Max > 0 && len(m.Ents) >= m.Max)
	case "FirstKey", "LastKey", "FirstValue", "LastValue":
		if len(m.Ents) == 0 {
			return m.val(nil)
		}
		e := m.Ents[0]
		if op.Name[0] == 'L' {
			e = m.Ents[len(m.Ents)-1]
		}
		if op.Name == "FirstKey" || op.Name == "LastKey" {
			return m.val(e.K)
		}
		return m.val(e.V)
	case "Keys", "KeyArray", "GetKeySet":
		return Result{Kind: RSeq, Seq: m.Keys()}
	case "Values":
		return Result{Kind: RSeq, Seq: m.Values()}
	case "Entries":
		return Result{Kind: RSeq, Seq: m.Pairs()}
	}
	panic("lmap: model does not know operation " + op.Name)
}

// Resync replaces the model content by an observed state (used after a reported divergence
// so that the rest of a history is still checked).
func (m *Model) Resync(keys, vals []any, max int) {
	m.Ents = m.Ents[:0]
	for i := range keys {
		m.Ents = append(m.Ents, Ent{keys[i], vals[i]})
	}
	m.Max = max
}
