package lmap

import (
	"fmt"
	"hash/crc32"
	"reflect"
	"unsafe"

	"github.com/whatap/golib/util/hmap"
)

// layout holds the offsets of the private fields the walker reads. They are taken from the
// struct types by name at start-up, so a renamed field fails loudly (newLayout panics)
// instead of reading garbage.
type layout struct {
	table, header, count, max, threshold    uintptr
	eKey, eVal, eHash, eChain, eNext, ePrev uintptr
	hasHash, hasVal                         bool
}

func fieldOff(st reflect.Type, names ...string) (uintptr, bool) {
	for _, n := range names {
		if f, ok := st.FieldByName(n); ok {
			return f.Offset, true
		}
	}
	return 0, false
}

func must(off uintptr, ok bool) uintptr {
	if !ok {
		panic("lmap: private field layout of util/hmap changed; update lmap/walk.go")
	}
	return off
}

func newLayout(t *TypeDesc, st reflect.Type) *layout {
	l := &layout{}
	l.table = must(fieldOff(st, "table"))
	l.header = must(fieldOff(st, "header"))
	l.count = must(fieldOff(st, "count"))
	l.max = must(fieldOff(st, "max"))
	l.threshold = must(fieldOff(st, "threshold"))
	hf, _ := st.FieldByName("header")
	et := hf.Type.Elem()
	l.eKey = must(fieldOff(et, "key"))
	l.eChain = must(fieldOff(et, "hash_next", "next"))
	l.eNext = must(fieldOff(et, "link_next"))
	l.ePrev = must(fieldOff(et, "link_prev"))
	l.eHash, l.hasHash = fieldOff(et, "keyHash")
	l.eVal, l.hasVal = fieldOff(et, "value")
	if l.hasVal == t.IsSet() {
		panic("lmap: entry layout of " + t.Name + " does not match its kind")
	}
	return l
}

// Snapshot is what Walk saw.
type Snapshot struct {
	Keys, Vals []any // in order-list order (sets: Vals == Keys)
	Count      int   // the count field
	Max        int   // the max field
	TableLen   int
	Threshold  int
	MaxChain   int      // longest hash chain
	Problems   []string // violated structural invariants (empty = sound)
}

func (s *Snapshot) bad(format string, a ...any) {
	if len(s.Problems) < 8 {
		s.Problems = append(s.Problems, fmt.Sprintf(format, a...))
	}
}

func javaHash(s string) int {
	h := 0
	for i := 0; i < len(s); i++ {
		h = 31*h + int(s[i])
	}
	return h
}

// BucketHash is the hash the type uses to select a bucket, written from the port's
// definition (CRC32-IEEE as a signed 32-bit value, Java's String.hashCode in Go ints, the
// integer folds) — not by calling the private hash method.
func (t *TypeDesc) BucketHash(k any) uint {
	switch t.Name {
	case "LinkedMap", "LinkedSet":
		return LKey{k.(int64)}.Hash() // the harness's own key type defines this hash
	case "IntKeyLinkedMap":
		return uint(int32(k.(int64)) & 0x7fffffff)
	case "LongKeyLinkedMap":
		x := k.(int64)
		return uint(x ^ x>>32)
	case "IntIntLinkedMap", "IntFloatLinkedMap", "IntLinkedSet":
		return uint(int32(k.(int64)))
	case "LongFloatLinkedMap", "LongLongLinkedMap":
		return uint(k.(int64))
	case "StringKeyLinkedMap", "StringIntLinkedMap", "StringLongLinkedMap":
		return uint(int32(crc32.ChecksumIEEE([]byte(k.(string)))))
	case "StringLinkedSet":
		return uint(javaHash(k.(string)))
	}
	panic("lmap: no bucket hash for " + t.Name)
}

func ptrAt(p unsafe.Pointer, off uintptr) unsafe.Pointer {
	return *(*unsafe.Pointer)(unsafe.Add(p, off))
}

func (t *TypeDesc) readKey(e unsafe.Pointer) any {
	p := unsafe.Add(e, t.lay.eKey)
	switch t.Key {
	case KInt32:
		return int64(*(*int32)(p))
	case KInt64:
		return *(*int64)(p)
	case KString:
		return *(*string)(p)
	}
	return Canon(*(*hmap.LinkedKey)(p))
}

func (t *TypeDesc) readVal(e unsafe.Pointer) any {
	p := unsafe.Add(e, t.lay.eVal)
	switch t.Val {
	case VObj:
		return Canon(*(*interface{})(p))
	case VInt32:
		return int64(*(*int32)(p))
	case VInt64:
		return *(*int64)(p)
	case VFloat32:
		return *(*float32)(p)
	}
	return nil
}

// Walk inspects the private structure of a quiescent instance:
//   - the order list is circular through the header in both directions, without nil links,
//     and holds exactly `count` distinct entries with distinct keys;
//   - every hash chain is acyclic; every chained entry is on the order list, occurs in
//     exactly one bucket, exactly once, and in the bucket its hash selects (the stored
//     keyHash where the entry has one — which must be the hash of its key — else the hash of
//     the key);
//   - the number of chained entries equals `count`.
//
// "size <= max" is reported through Count/Max (the caller knows whether the bound was
// lowered below the current size by SetMax).
func Walk(in *Inst) *Snapshot { return walk(in, true) }

// WalkOrder is the cheap part of Walk: only the order list (both link directions, count) is
// checked and read; buckets and key uniqueness are not looked at.
func WalkOrder(in *Inst) *Snapshot { return walk(in, false) }

func walk(in *Inst, full bool) *Snapshot {
	t, l := in.T, in.T.lay
	s := &Snapshot{}
	base := reflect.ValueOf(in.Obj).UnsafePointer()
	s.Count = *(*int)(unsafe.Add(base, l.count))
	s.Max = *(*int)(unsafe.Add(base, l.max))
	s.Threshold = *(*int)(unsafe.Add(base, l.threshold))
	table := *(*[]unsafe.Pointer)(unsafe.Add(base, l.table))
	s.TableLen = len(table)
	header := ptrAt(base, l.header)
	if header == nil {
		s.bad("header is nil")
		return s
	}
	if len(table) == 0 {
		s.bad("table is empty")
	}
	// order list, forwards
	limit := s.Count + 4
	if limit < 4 {
		limit = 4
	}
	pos := map[unsafe.Pointer]int{}
	keyAt := map[any]int{}
	prev := header
	e := ptrAt(header, l.eNext)
	for steps := 0; ; steps++ {
		if e == nil {
			s.bad("order list: nil link_next after %d entries", len(s.Keys))
			return s
		}
		if back := ptrAt(e, l.ePrev); back != prev {
			s.bad("order list: link_prev of element %d does not point to its predecessor", len(s.Keys))
		}
		if e == header {
			break
		}
		if steps > limit {
			s.bad("order list: more than %d entries but count=%d (or a cycle not through the header)", steps, s.Count)
			return s
		}
		k := t.readKey(e)
		if full {
			if _, dup := pos[e]; dup {
				s.bad("order list: cycle not through the header after %d entries", len(s.Keys))
				return s
			}
			pos[e] = len(s.Keys)
			if j, dup := keyAt[k]; dup {
				s.bad("key %v is stored twice (order positions %d and %d)", k, j, len(s.Keys))
			}
			keyAt[k] = len(s.Keys)
		}
		s.Keys = append(s.Keys, k)
		if l.hasVal {
			s.Vals = append(s.Vals, t.readVal(e))
		}
		prev = e
		e = ptrAt(e, l.eNext)
	}
	if !l.hasVal {
		s.Vals = s.Keys
	}
	if len(s.Keys) != s.Count {
		s.bad("order list holds %d entries, count=%d", len(s.Keys), s.Count)
	}
	if !full {
		return s
	}
	// buckets
	seen := make([]bool, len(s.Keys))
	chained := 0
	for b, e := range table {
		n := 0
		for ; e != nil; e = ptrAt(e, l.eChain) {
			n++
			if n > len(s.Keys)+1 {
				s.bad("bucket %d: hash chain longer than the number of entries (cycle)", b)
				break
			}
			i, ok := pos[e]
			if !ok {
				s.bad("bucket %d holds an entry (key %v) that is not on the order list", b, t.readKey(e))
				continue
			}
			if seen[i] {
				s.bad("entry %v is reachable from two buckets / twice", s.Keys[i])
				continue
			}
			seen[i] = true
			chained++
			h := t.BucketHash(s.Keys[i])
			if l.hasHash {
				if kh := *(*uint)(unsafe.Add(e, l.eHash)); kh != h {
					s.bad("entry %v: stored keyHash %d is not the hash of its key (%d)", s.Keys[i], kh, h)
					h = kh
				}
			}
			if int(h%uint(len(table))) != b {
				s.bad("entry %v sits in bucket %d, its hash selects bucket %d of %d", s.Keys[i], b, h%uint(len(table)), len(table))
			}
		}
		if n > s.MaxChain {
			s.MaxChain = n
		}
	}
	if chained != len(s.Keys) {
		for i, ok := range seen {
			if !ok {
				s.bad("entry %v is on the order list but in no bucket", s.Keys[i])
				break
			}
		}
	}
	if chained != s.Count {
		s.bad("buckets hold %d entries, count=%d", chained, s.Count)
	}
	return s
}
