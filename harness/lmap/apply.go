package lmap

import (
	"fmt"
	"reflect"

	"github.com/whatap/golib/util/hmap"
)

// Op is one public operation, named uniformly over the thirteen types.
//
//	Put PutFirst PutLast Add AddFirst AddLast AddNoOver   K,V (sets: K)  -> previous value
//	Unipoint                                              K              -> the stored key
//	Get GetLRU Remove                                     K              -> value
//	ContainsKey (sets: Contains)                          K              -> bool
//	ContainsValue                                         V              -> bool
//	RemoveFirst RemoveLast FirstKey LastKey FirstValue LastValue         -> value / key
//	Clear, Sort (Desc), SetMax (N), ToString                              -> nothing compared
//	Size IsEmpty IsFull                                                  -> int / bool
//	Keys Values Entries KeyArray GetKeySet                               -> sequence
type Op struct {
	Name string `json:"op"`
	K    any    `json:"k,omitempty"`
	V    any    `json:"v,omitempty"`
	Desc bool   `json:"desc,omitempty"` // Sort: descending key order
	N    int    `json:"n,omitempty"`    // SetMax
}

func (o Op) String() string {
	switch o.Name {
	case "Sort":
		return fmt.Sprintf("Sort(desc=%v)", o.Desc)
	case "SetMax":
		return fmt.Sprintf("SetMax(%d)", o.N)
	}
	s := o.Name + "("
	if o.K != nil {
		s += fmt.Sprintf("%#v", o.K)
	}
	if o.V != nil {
		if o.K != nil {
			s += ","
		}
		s += fmt.Sprintf("%#v", o.V)
	}
	return s + ")"
}

type ResKind int8

const (
	RVoid ResKind = iota // nothing to compare (Clear, Sort, SetMax, ToString)
	RVal                 // a value or "absent"
	RSeq                 // a sequence (enumerations, key arrays)
)

// Result is the normalised outcome of one operation. For RVal the class "nothing"
// {nil, "", 0, NONE, false} is folded into Absent (the thirteen types do not agree on how
// they say "nothing"; the property does not ask them to); present values are exact. Sequence
// elements are never folded: keys are int64/string, values canonical, entries [2]any{k,v}.
type Result struct {
	Kind   ResKind
	Absent bool
	Val    any
	Seq    []any
	Panic  string // non-empty: the call panicked (Apply) — never set by the model
	Raw    string // how the real code spelled an absent result, e.g. `string("")` (not compared)
}

// Equal compares two results (Raw is ignored).
func (a Result) Equal(b Result) bool {
	if a.Panic != "" || b.Panic != "" {
		return a.Panic == b.Panic
	}
	if a.Kind != b.Kind || a.Absent != b.Absent {
		return false
	}
	switch a.Kind {
	case RVal:
		return a.Absent || a.Val == b.Val
	case RSeq:
		return SeqEqual(a.Seq, b.Seq)
	}
	return true
}

func SeqEqual(a, b []any) bool {
	if len(a) != len(b) {
		return false
	}
	for i := range a {
		if a[i] != b[i] {
			return false
		}
	}
	return true
}

func (r Result) String() string {
	if r.Panic != "" {
		return "panic: " + r.Panic
	}
	switch r.Kind {
	case RVal:
		if r.Absent {
			if r.Raw != "" {
				return "absent[" + r.Raw + "]"
			}
			return "absent"
		}
		return fmt.Sprintf("%#v", r.Val)
	case RSeq:
		return fmt.Sprintf("%v", r.Seq)
	}
	return "void"
}

// IsNothing reports whether a canonical value belongs to the class "nothing".
func IsNothing(v any, none any) bool {
	switch x := v.(type) {
	case nil:
		return true
	case string:
		return x == ""
	case int64:
		return x == 0 || v == none
	case float32:
		return x == 0 || v == none
	case bool:
		return !x
	}
	return false
}

// ValResult folds a canonical value into a Result.
func ValResult(v any, none any) Result {
	if IsNothing(v, none) {
		return Result{Kind: RVal, Absent: true}
	}
	return Result{Kind: RVal, Val: v}
}

// Canon brings a value returned by golib to canonical form.
func Canon(x any) any {
	switch v := x.(type) {
	case nil:
		return nil
	case int32:
		return int64(v)
	case int64:
		return v
	case int:
		return int64(v)
	case float32:
		return v
	case string:
		return v
	case bool:
		return v
	case LKey:
		return v.ID
	case UKey:
		return v.ID
	}
	rv := reflect.ValueOf(x)
	if rv.Kind() == reflect.Ptr && rv.IsNil() {
		return nil
	}
	return fmt.Sprintf("<%T>", x) // anything else (an entry object where a value was expected, …)
}

var (
	linkedKeyT   = reflect.TypeOf((*hmap.LinkedKey)(nil)).Elem()
	intEnumerT   = reflect.TypeOf((*hmap.IntEnumer)(nil)).Elem()
	longEnumerT  = reflect.TypeOf((*hmap.LongEnumer)(nil)).Elem()
	floatEnumerT = reflect.TypeOf((*hmap.FloatEnumer)(nil)).Elem()
	strEnumerT   = reflect.TypeOf((*hmap.StringEnumer)(nil)).Elem()
	enumerationT = reflect.TypeOf((*hmap.Enumeration)(nil)).Elem()
)

func toArg(a any, t reflect.Type, ukeys bool) reflect.Value {
	if a == nil {
		return reflect.Zero(t)
	}
	if t == linkedKeyT {
		if id, ok := a.(int64); ok {
			if ukeys {
				return reflect.ValueOf(UKey{ID: id})
			}
			return reflect.ValueOf(LKey{id})
		}
	}
	v := reflect.ValueOf(a)
	if t.Kind() == reflect.Interface {
		return v
	}
	return v.Convert(t)
}

func (in *Inst) call(real string, args ...any) []reflect.Value {
	m, ok := in.meth[real]
	if !ok {
		panic("lmap: " + in.T.Name + " does not offer " + real)
	}
	mt := m.Type()
	var buf [2]reflect.Value
	av := buf[:0]
	for i, a := range args {
		av = append(av, toArg(a, mt.In(i), in.Cfg.UKeys))
	}
	return m.Call(av)
}

func (in *Inst) valRes(out reflect.Value) Result {
	raw := out.Interface()
	r := ValResult(Canon(raw), in.None)
	if r.Absent {
		r.Raw = fmt.Sprintf("%T(%#v)", raw, raw)
	}
	return r
}

func boolRes(out reflect.Value) Result {
	if out.Bool() {
		return Result{Kind: RVal, Val: true}
	}
	return Result{Kind: RVal, Absent: true, Raw: "bool(false)"}
}

// entryKV extracts key and value of an entry object through its public getters.
func entryKV(el any) (k, v any, ok bool) {
	switch e := el.(type) {
	case *hmap.LinkedEntry:
		if e != nil {
			return Canon(e.GetKey()), Canon(e.GetValue()), true
		}
	case *hmap.IntKeyLinkedEntry:
		if e != nil {
			return Canon(e.GetKey()), Canon(e.GetValue()), true
		}
	case *hmap.LongKeyLinkedEntry:
		if e != nil {
			return Canon(e.GetKey()), Canon(e.GetValue()), true
		}
	case *hmap.StringKeyLinkedEntry:
		if e != nil {
			return Canon(e.GetKey()), Canon(e.GetValue()), true
		}
	case *hmap.IntIntLinkedEntry:
		if e != nil {
			return Canon(e.GetKey()), Canon(e.GetValue()), true
		}
	case *hmap.IntFloatLinkedEntry:
		if e != nil {
			return Canon(e.GetKey()), Canon(e.GetValue()), true
		}
	case *hmap.LongFloatLinkedEntry:
		if e != nil {
			return Canon(e.GetKey()), Canon(e.GetValue()), true
		}
	case *hmap.LongLongLinkedEntry:
		if e != nil {
			return Canon(e.GetKey()), Canon(e.GetValue()), true
		}
	case *hmap.StringIntLinkedEntry:
		if e != nil {
			return Canon(e.GetKey()), Canon(e.GetValue()), true
		}
	case *hmap.StringLongLinkedEntry:
		if e != nil {
			return Canon(e.GetKey()), Canon(e.GetValue()), true
		}
	}
	return nil, nil, false
}

const nonTerminating = "<enumeration did not end>"

// drain reads an enumerator through the interface the method DECLARES as its return type.
func (in *Inst) drain(out reflect.Value, entries bool) []any {
	var seq []any
	x := out.Interface()
	lim := in.EnumLimit
	add := func(v any) bool {
		if len(seq) >= lim {
			seq = append(seq, nonTerminating)
			return false
		}
		seq = append(seq, v)
		return true
	}
	switch out.Type() {
	case intEnumerT:
		for e := x.(hmap.IntEnumer); e.HasMoreElements(); {
			if !add(int64(e.NextInt())) {
				break
			}
		}
	case longEnumerT:
		for e := x.(hmap.LongEnumer); e.HasMoreElements(); {
			if !add(e.NextLong()) {
				break
			}
		}
	case floatEnumerT:
		for e := x.(hmap.FloatEnumer); e.HasMoreElements(); {
			if !add(e.NextFloat()) {
				break
			}
		}
	case strEnumerT:
		for e := x.(hmap.StringEnumer); e.HasMoreElements(); {
			if !add(e.NextString()) {
				break
			}
		}
	case enumerationT:
		for e := x.(hmap.Enumeration); e.HasMoreElements(); {
			el := e.NextElement()
			var item any
			if entries {
				if k, v, ok := entryKV(el); ok {
					item = [2]any{k, v}
				} else {
					item = Canon(el)
				}
			} else {
				item = Canon(el)
			}
			if !add(item) {
				break
			}
		}
	default:
		panic(fmt.Sprintf("lmap: unknown enumerator type %v", out.Type()))
	}
	return seq
}

// LessKeys is the key order used by Sort: numeric for int64 ids, bytewise for strings.
func LessKeys(a, b any) bool {
	switch x := a.(type) {
	case int64:
		return x < b.(int64)
	case string:
		return x < b.(string)
	}
	panic("lmap: uncomparable keys")
}

func (in *Inst) comparator(desc bool) reflect.Value {
	ft := in.meth["Sort"].Type().In(0)
	return reflect.MakeFunc(ft, func(args []reflect.Value) []reflect.Value {
		a, b := Canon(args[0].Interface()), Canon(args[1].Interface())
		if desc {
			a, b = b, a
		}
		return []reflect.Value{reflect.ValueOf(LessKeys(a, b))}
	})
}

// Apply performs op on the real instance. It is safe to call from several goroutines on one
// instance (all harness state it touches is read-only); a panic of the code under test is
// returned in Result.Panic.
func Apply(in *Inst, op Op) (res Result) {
	defer func() {
		if e := recover(); e != nil {
			res = Result{Panic: fmt.Sprint(e)}
		}
	}()
	t := in.T
	real := t.Real(op.Name)
	switch op.Name {
	case "Put", "PutFirst", "PutLast", "Add", "AddFirst", "AddLast", "AddNoOver":
		if t.IsSet() {
			return in.valRes(in.call(real, op.K)[0])
		}
		return in.valRes(in.call(real, op.K, op.V)[0])
	case "Unipoint", "Get", "GetLRU", "Remove":
		return in.valRes(in.call(real, op.K)[0])
	case "ContainsKey":
		return boolRes(in.call(real, op.K)[0])
	case "ContainsValue":
		return boolRes(in.call(real, op.V)[0])
	case "RemoveFirst", "RemoveLast", "FirstKey", "LastKey", "FirstValue", "LastValue", "Size":
		return in.valRes(in.call(real)[0])
	case "IsEmpty", "IsFull":
		return boolRes(in.call(real)[0])
	case "Clear", "ToString":
		in.call(real)
		return Result{Kind: RVoid}
	case "Sort":
		in.meth[real].Call([]reflect.Value{in.comparator(op.Desc)})
		return Result{Kind: RVoid}
	case "SetMax":
		in.call(real, op.N)
		return Result{Kind: RVoid}
	case "Keys", "Values":
		return Result{Kind: RSeq, Seq: in.drain(in.call(real)[0], false)}
	case "Entries":
		return Result{Kind: RSeq, Seq: in.drain(in.call(real)[0], true)}
	case "KeyArray":
		arr := in.call(real)[0]
		seq := make([]any, 0, arr.Len())
		for i := 0; i < arr.Len(); i++ {
			seq = append(seq, Canon(arr.Index(i).Interface()))
		}
		return Result{Kind: RSeq, Seq: seq}
	case "GetKeySet":
		set := in.call(real)[0].Interface().(*hmap.IntLinkedSet)
		var seq []any
		for e := set.Keys(); e.HasMoreElements() && len(seq) <= in.EnumLimit; {
			seq = append(seq, int64(e.NextInt()))
		}
		return Result{Kind: RSeq, Seq: seq}
	}
	panic("lmap: unknown operation " + op.Name)
}
