// Package valgen generates values of golib's tagged value model as neutral trees
// (refcodec.V), builds the real golib values from them, walks golib values back into neutral
// trees through the exported API only, and compares neutral trees structurally.
//
// API (shared by the C02, C03, C04, C05, C08 and C20 workers — nothing property specific):
//
//	Gen(r, depth, width)          one boundary-biased value; depth = container levels that may
//	                              still be opened, width = max entries per container/array
//	GenTag(r, tag, depth, width)  same, of the given type code
//	Leaf(r, width)                a non-container value (scalars, summaries, text, blob, arrays)
//	Deep(r, depth)                a chain of `depth` nested containers with tiny widths
//	Wide(r, tag, n)               one container/array of exactly n entries (cheap leaves)
//	CollidingIntKeys(r, n)        n distinct int32 keys falling into one hash chain of
//	CollidingStrKeys(r, n)        the backing linked maps (see collide.go)
//	ToGolib(v)                    refcodec.V  -> value.Value
//	FromGolib(x)                  value.Value -> refcodec.V (order preserving)
//	Equal(a, b)                   structural equality: floats by bits, nil ≡ empty, order
//	                              sensitive; returns the path of the first difference
//	PathKind(path)                the path with entry positions removed (stable finding keys)
//	Stats(v)                      node count, depth, widest container of a tree
package valgen

import (
	"fmt"
	"math"
	"slices"
	"sort"
	"strings"

	"github.com/whatap/golib/lang/value"

	"verif/refcodec"
)

type V = refcodec.V

func cloneBytes(b []byte) []byte {
	if b == nil {
		return nil
	}
	return append(make([]byte, 0, len(b)), b...)
}

// ToGolib builds the real golib value. Slices are copied (nil stays nil, empty stays empty)
// so that the neutral tree remains the oracle's private copy.
func ToGolib(v V) value.Value {
	switch v.Tag {
	case refcodec.TNull:
		return value.NewNullValue()
	case refcodec.TBool:
		return value.NewBoolValue(v.I != 0)
	case refcodec.TDecimal:
		return value.NewDecimalValue(v.I)
	case refcodec.TInt:
		return value.NewIntValue(int32(v.I))
	case refcodec.TLong:
		return value.NewLongValue(v.I)
	case refcodec.TFloat:
		return value.NewFloatValue(v.F32)
	case refcodec.TDouble:
		return value.NewDoubleValue(v.F)
	case refcodec.TDoubleSummary:
		s := value.NewDoubleSummary()
		if v.DS != nil {
			s.Sum, s.Count, s.Min, s.Max = v.DS.Sum, v.DS.Count, v.DS.Min, v.DS.Max
		}
		return s
	case refcodec.TLongSummary:
		s := value.NewLongSummary()
		if v.LS != nil {
			s.Sum, s.Count, s.Min, s.Max = v.LS.Sum, v.LS.Count, v.LS.Min, v.LS.Max
		}
		return s
	case refcodec.TText:
		return value.NewTextValue(v.S)
	case refcodec.TTextHash:
		return value.NewTextHashValue(int32(v.I))
	case refcodec.TBlob:
		return value.NewBlobValue(cloneBytes(v.B))
	case refcodec.TIP4:
		return value.NewIP4Value(cloneBytes(v.B))
	case refcodec.TList:
		l := value.NewListValue(nil)
		for i := range v.List {
			l.Add(ToGolib(v.List[i]))
		}
		return l
	case refcodec.TIntArray:
		if v.Ints == nil {
			return value.NewIntArray(nil)
		}
		return value.NewIntArray(append(make([]int32, 0, len(v.Ints)), v.Ints...))
	case refcodec.TFloatArray:
		if v.Floats == nil {
			return value.NewFloatArray(nil)
		}
		return value.NewFloatArray(append(make([]float32, 0, len(v.Floats)), v.Floats...))
	case refcodec.TTextArray:
		if v.Texts == nil {
			return value.NewTextArray(nil)
		}
		return value.NewTextArray(append(make([]string, 0, len(v.Texts)), v.Texts...))
	case refcodec.TLongArray:
		if v.Longs == nil {
			return value.NewLongArray(nil)
		}
		return value.NewLongArray(append(make([]int64, 0, len(v.Longs)), v.Longs...))
	case refcodec.TMap:
		m := value.NewMapValue()
		for i := range v.Keys {
			m.Put(v.Keys[i], ToGolib(v.Vals[i]))
		}
		return m
	case refcodec.TIntMap:
		m := value.NewIntMapValue()
		for i := range v.IntKeys {
			m.Put(v.IntKeys[i], ToGolib(v.Vals[i]))
		}
		return m
	}
	panic(fmt.Sprintf("valgen.ToGolib: no golib type for tag %d", v.Tag))
}

// TUnknown is the tag FromGolib gives to something that is not one of the 20 value types
// (nil interface, nil element, foreign implementation); S then holds a description.
const TUnknown byte = 0xff

// FromGolib walks a golib value into the neutral tree using exported fields, accessors and
// the containers' own enumerators (so the order is the order golib would write).
// The tag is that of the concrete Go type.
func FromGolib(x value.Value) V {
	switch t := x.(type) {
	case *value.NullValue:
		if t == nil {
			break
		}
		return V{Tag: refcodec.TNull}
	case *value.BoolValue:
		if t.Val {
			return V{Tag: refcodec.TBool, I: 1}
		}
		return V{Tag: refcodec.TBool}
	case *value.DecimalValue:
		return V{Tag: refcodec.TDecimal, I: t.Val}
	case *value.IntValue:
		return V{Tag: refcodec.TInt, I: int64(t.Val)}
	case *value.LongValue:
		return V{Tag: refcodec.TLong, I: t.Val}
	case *value.FloatValue:
		return V{Tag: refcodec.TFloat, F32: t.Val}
	case *value.DoubleValue:
		return V{Tag: refcodec.TDouble, F: t.Val}
	case *value.DoubleSummary:
		return V{Tag: refcodec.TDoubleSummary, DS: &refcodec.DoubleSum{Sum: t.Sum, Count: t.Count, Min: t.Min, Max: t.Max}}
	case *value.LongSummary:
		return V{Tag: refcodec.TLongSummary, LS: &refcodec.LongSum{Sum: t.Sum, Count: t.Count, Min: t.Min, Max: t.Max}}
	case *value.TextValue:
		return V{Tag: refcodec.TText, S: t.Val}
	case *value.TextHashValue:
		return V{Tag: refcodec.TTextHash, I: int64(t.Val)}
	case *value.BlobValue:
		return V{Tag: refcodec.TBlob, B: t.Val}
	case *value.IP4Value:
		return V{Tag: refcodec.TIP4, B: t.Val}
	case *value.ListValue:
		n := t.Size()
		out := V{Tag: refcodec.TList}
		if n > 0 {
			out.List = make([]V, n)
			for i := 0; i < n; i++ {
				out.List[i] = FromGolib(t.Get(i))
			}
		}
		return out
	case *value.IntArray:
		return V{Tag: refcodec.TIntArray, Ints: t.Val}
	case *value.FloatArray:
		return V{Tag: refcodec.TFloatArray, Floats: t.Val}
	case *value.TextArray:
		return V{Tag: refcodec.TTextArray, Texts: t.Val}
	case *value.LongArray:
		return V{Tag: refcodec.TLongArray, Longs: t.Val}
	case *value.MapValue:
		out := V{Tag: refcodec.TMap}
		en := t.Keys()
		for en.HasMoreElements() {
			k := en.NextString()
			out.Keys = append(out.Keys, k)
			out.Vals = append(out.Vals, FromGolib(t.Get(k)))
		}
		if sz := t.Size(); sz != len(out.Keys) {
			// Size() disagrees with what the enumerator yields: keep the evidence in the tree.
			out.Keys = append(out.Keys, fmt.Sprintf("<valgen: Size()=%d but %d keys enumerated>", sz, len(out.Keys)))
			out.Vals = append(out.Vals, V{Tag: TUnknown})
		}
		return out
	case *value.IntMapValue:
		out := V{Tag: refcodec.TIntMap}
		en := t.Keys()
		for en.HasMoreElements() {
			k := en.NextInt()
			out.IntKeys = append(out.IntKeys, k)
			out.Vals = append(out.Vals, FromGolib(t.Get(k)))
		}
		if sz := t.Size(); sz != len(out.IntKeys) {
			out.IntKeys = append(out.IntKeys, 0)
			out.Vals = append(out.Vals, V{Tag: TUnknown, S: fmt.Sprintf("<valgen: Size()=%d but %d keys enumerated>", sz, len(out.IntKeys)-1)})
		}
		return out
	}
	return V{Tag: TUnknown, S: fmt.Sprintf("<valgen: not a value type: %T>", x)}
}

// Equal compares two neutral trees: same tags, same payload (floats by bit pattern, nil and
// empty slices/strings equal, a nil summary equal to the all-zero summary), list items and
// map entries in the same order. On a difference it returns the path of the first one, e.g.
// "ListValue[3]/MapValue{#2}/DoubleSummary.Min" ({#i} = i-th entry in insertion order);
// leaves are <Type>.Val/.len/.Sum/…, ".type" (other type), ".size", "{#i}.key", and
// "<Container>.order" when the same items/keys are present in another order.
func Equal(a, b V) (bool, string) {
	p := diff(&a, &b)
	return p == "", p
}

func name(t byte) string {
	if t == TUnknown {
		return "Unknown"
	}
	return refcodec.ValueTagName(t)
}

func diff(a, b *V) string {
	if a.Tag != b.Tag {
		return name(a.Tag) + ".type"
	}
	n := name(a.Tag)
	switch a.Tag {
	case refcodec.TNull:
	case refcodec.TBool:
		if (a.I != 0) != (b.I != 0) {
			return n + ".Val"
		}
	case refcodec.TDecimal, refcodec.TLong:
		if a.I != b.I {
			return n + ".Val"
		}
	case refcodec.TInt, refcodec.TTextHash:
		if int32(a.I) != int32(b.I) {
			return n + ".Val"
		}
	case refcodec.TFloat:
		if math.Float32bits(a.F32) != math.Float32bits(b.F32) {
			return n + ".Val"
		}
	case refcodec.TDouble:
		if math.Float64bits(a.F) != math.Float64bits(b.F) {
			return n + ".Val"
		}
	case refcodec.TDoubleSummary:
		var x, y refcodec.DoubleSum
		if a.DS != nil {
			x = *a.DS
		}
		if b.DS != nil {
			y = *b.DS
		}
		switch {
		case math.Float64bits(x.Sum) != math.Float64bits(y.Sum):
			return n + ".Sum"
		case x.Count != y.Count:
			return n + ".Count"
		case math.Float64bits(x.Min) != math.Float64bits(y.Min):
			return n + ".Min"
		case math.Float64bits(x.Max) != math.Float64bits(y.Max):
			return n + ".Max"
		}
	case refcodec.TLongSummary:
		var x, y refcodec.LongSum
		if a.LS != nil {
			x = *a.LS
		}
		if b.LS != nil {
			y = *b.LS
		}
		switch {
		case x.Sum != y.Sum:
			return n + ".Sum"
		case x.Count != y.Count:
			return n + ".Count"
		case x.Min != y.Min:
			return n + ".Min"
		case x.Max != y.Max:
			return n + ".Max"
		}
	case refcodec.TText:
		if a.S != b.S {
			return n + ".Val"
		}
	case refcodec.TBlob, refcodec.TIP4:
		if len(a.B) != len(b.B) {
			return n + ".len"
		}
		for i := range a.B {
			if a.B[i] != b.B[i] {
				return n + ".Val"
			}
		}
	case refcodec.TList:
		if len(a.List) != len(b.List) {
			return n + ".size"
		}
		for i := range a.List {
			if p := diff(&a.List[i], &b.List[i]); p != "" {
				if permuted(a.List, b.List) {
					return n + ".order"
				}
				return fmt.Sprintf("%s[%d]/%s", n, i, p)
			}
		}
	case refcodec.TIntArray:
		if len(a.Ints) != len(b.Ints) {
			return n + ".len"
		}
		for i := range a.Ints {
			if a.Ints[i] != b.Ints[i] {
				return fmt.Sprintf("%s.Val[%d]", n, i)
			}
		}
	case refcodec.TLongArray:
		if len(a.Longs) != len(b.Longs) {
			return n + ".len"
		}
		for i := range a.Longs {
			if a.Longs[i] != b.Longs[i] {
				return fmt.Sprintf("%s.Val[%d]", n, i)
			}
		}
	case refcodec.TFloatArray:
		if len(a.Floats) != len(b.Floats) {
			return n + ".len"
		}
		for i := range a.Floats {
			if math.Float32bits(a.Floats[i]) != math.Float32bits(b.Floats[i]) {
				return fmt.Sprintf("%s.Val[%d]", n, i)
			}
		}
	case refcodec.TTextArray:
		if len(a.Texts) != len(b.Texts) {
			return n + ".len"
		}
		for i := range a.Texts {
			if a.Texts[i] != b.Texts[i] {
				return fmt.Sprintf("%s.Val[%d]", n, i)
			}
		}
	case refcodec.TMap:
		if len(a.Keys) != len(b.Keys) {
			return n + ".size"
		}
		for i := range a.Keys {
			if a.Keys[i] != b.Keys[i] {
				x, y := append([]string(nil), a.Keys...), append([]string(nil), b.Keys...)
				sort.Strings(x)
				sort.Strings(y)
				if slices.Equal(x, y) {
					return n + ".order"
				}
				return fmt.Sprintf("%s{#%d}.key", n, i)
			}
		}
		for i := range a.Vals {
			if p := diff(&a.Vals[i], &b.Vals[i]); p != "" {
				return fmt.Sprintf("%s{#%d}/%s", n, i, p)
			}
		}
	case refcodec.TIntMap:
		if len(a.IntKeys) != len(b.IntKeys) {
			return n + ".size"
		}
		for i := range a.IntKeys {
			if a.IntKeys[i] != b.IntKeys[i] {
				x, y := append([]int32(nil), a.IntKeys...), append([]int32(nil), b.IntKeys...)
				slices.Sort(x)
				slices.Sort(y)
				if slices.Equal(x, y) {
					return n + ".order"
				}
				return fmt.Sprintf("%s{#%d}.key", n, i)
			}
		}
		for i := range a.Vals {
			if p := diff(&a.Vals[i], &b.Vals[i]); p != "" {
				return fmt.Sprintf("%s{#%d}/%s", n, i, p)
			}
		}
	default:
		if a.S != b.S {
			return n + ".desc"
		}
	}
	return ""
}

// permuted tells whether two equally long item lists hold the same items in another order
// (compared through their reference encodings; only called after a difference was found).
func permuted(a, b []V) bool {
	enc := func(l []V) []string {
		out := make([]string, len(l))
		for i := range l {
			if l[i].Tag == TUnknown || hasUnknown(&l[i]) {
				return nil
			}
			out[i] = string(refcodec.EncodeValue(l[i]))
		}
		sort.Strings(out)
		return out
	}
	x, y := enc(a), enc(b)
	return x != nil && y != nil && slices.Equal(x, y)
}

func hasUnknown(v *V) bool {
	if v.Tag == TUnknown {
		return true
	}
	for _, k := range Children(v) {
		if hasUnknown(&k) {
			return true
		}
	}
	return false
}

// PathKind removes the entry positions from a path returned by Equal:
// "ListValue[3]/MapValue{#2}/DoubleSummary.Min" -> "ListValue[]/MapValue{}/DoubleSummary.Min".
func PathKind(path string) string {
	var sb strings.Builder
	skip := false
	for i := 0; i < len(path); i++ {
		ch := path[i]
		switch {
		case ch == '[' || ch == '{':
			sb.WriteByte(ch)
			skip = true
		case ch == ']' || ch == '}':
			sb.WriteByte(ch)
			skip = false
		case !skip:
			sb.WriteByte(ch)
		}
	}
	return sb.String()
}

// Stat describes the shape of a tree.
type Stat struct {
	Nodes    int // values in the tree
	Depth    int // container levels (a leaf has depth 0, a list of leaves 1)
	MaxWidth int // entries of the widest container or array
}

// Stats measures a tree; visit (may be nil) is called for every node.
func Stats(v V, visit func(n *V, depth int)) Stat {
	var st Stat
	var walk func(n *V, d int)
	walk = func(n *V, d int) {
		st.Nodes++
		if visit != nil {
			visit(n, d)
		}
		w := 0
		var kids []V
		switch n.Tag {
		case refcodec.TList:
			kids, w = n.List, len(n.List)
		case refcodec.TMap, refcodec.TIntMap:
			kids, w = n.Vals, len(n.Vals)
		case refcodec.TIntArray:
			w = len(n.Ints)
		case refcodec.TFloatArray:
			w = len(n.Floats)
		case refcodec.TTextArray:
			w = len(n.Texts)
		case refcodec.TLongArray:
			w = len(n.Longs)
		}
		if w > st.MaxWidth {
			st.MaxWidth = w
		}
		if IsContainer(n.Tag) {
			if d+1 > st.Depth {
				st.Depth = d + 1
			}
			for i := range kids {
				walk(&kids[i], d+1)
			}
		}
	}
	walk(&v, 0)
	return st
}

// IsContainer tells whether values of the tag hold other tagged values.
func IsContainer(t byte) bool {
	return t == refcodec.TList || t == refcodec.TMap || t == refcodec.TIntMap
}

// Children returns the directly nested values of a container (nil for leaves).
func Children(v *V) []V {
	switch v.Tag {
	case refcodec.TList:
		return v.List
	case refcodec.TMap, refcodec.TIntMap:
		return v.Vals
	}
	return nil
}
