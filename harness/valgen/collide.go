package valgen

import (
	"math"
	"slices"
	"strconv"
	"sync"

	"verif/refcodec"
	"verif/vlib"
)

// Keys that collide in the tables behind MapValue / IntMapValue.
//
// Both linked maps start with 101 buckets and grow to 2n+1 (203, 407, 815, …) when the
// entry count reaches 75 % of the bucket count; the bucket of a key is hash mod buckets.
//   - int keys hash to key & 0x7fffffff: k and k|MinInt32 collide at every table size; keys
//     congruent mod 101 collide in the first table, mod 20503 (=101·203) in the first two,
//     mod 8344721 (=101·203·407) in the first three.
//   - string keys hash to CRC-32 of the bytes, sign-extended to 64 bits and taken as
//     unsigned. Colliding strings are found by search over the candidates "k<base36 of a mixed counter>" with
//     the independent CRC of refcodec: same bucket mod 101 (thousands), same mod 20503
//     (about a dozen per group), same mod 8344721 (pairs), identical CRC (a few pairs —
//     these stay in one chain whatever the table size).
//
// The moduli are stated from reading hmap; the C02 worker measures the real chain lengths
// with reflection, so a wrong assumption here shows up as a missed floor, not as silence.

const (
	Mod1 = 101
	Mod2 = 101 * 203
	Mod3 = 101 * 203 * 407
)

// StrBucket is the bucket the string-keyed linked map uses for key at the given table size.
func StrBucket(key string, buckets int) int {
	return int(uint64(int64(refcodec.Hash32([]byte(key)))) % uint64(buckets))
}

// IntBucket is the bucket the int-keyed linked map uses for key at the given table size.
func IntBucket(key int32, buckets int) int {
	return int(uint64(key&math.MaxInt32) % uint64(buckets))
}

const nCand = 1 << 19

// candKey spreads the index over ~12 base-36 digits: CRC-32 is injective on strings that
// differ only in their last four bytes, so short counters would never collide fully.
func candKey(i int32) string { return "k" + strconv.FormatUint(vlib.Mix(uint64(i)), 36) }

var (
	collOnce  sync.Once
	by101     [Mod1][]int32 // candidates per first-table bucket
	groups2   [][]int32     // ≥ 6 candidates equal mod 20503
	groups3   [][]int32     // ≥ 2 candidates equal mod 8344721
	fullPairs [][]int32     // identical CRC
)

func collInit() {
	h := make([]uint32, nCand)
	for i := range h {
		h[i] = uint32(refcodec.Hash32([]byte(candKey(int32(i)))))
	}
	ext := func(i int32) uint64 { return uint64(int64(int32(h[i]))) }
	for i := int32(0); i < nCand; i++ {
		b := ext(i) % Mod1
		by101[b] = append(by101[b], i)
	}
	// sort (key<<19 | index) as plain integers: keys are < 2^32, indices < 2^19
	group := func(key func(i int32) uint64, min int) [][]int32 {
		comp := make([]uint64, nCand)
		for i := range comp {
			comp[i] = key(int32(i))<<19 | uint64(i)
		}
		slices.Sort(comp)
		var out [][]int32
		for s := 0; s < len(comp); {
			e := s + 1
			for e < len(comp) && comp[e]>>19 == comp[s]>>19 {
				e++
			}
			if e-s >= min {
				g := make([]int32, 0, e-s)
				for _, x := range comp[s:e] {
					g = append(g, int32(x&(1<<19-1)))
				}
				out = append(out, g)
			}
			s = e
		}
		return out
	}
	groups2 = group(func(i int32) uint64 { return ext(i) % Mod2 }, 6)
	groups3 = group(func(i int32) uint64 { return ext(i) % Mod3 }, 2)
	fullPairs = group(func(i int32) uint64 { return uint64(h[i]) }, 2)
}

// CollidingStrKeys returns n distinct keys that all fall into one bucket of the 101-bucket
// table; the first few of them also collide after one, two or all table growths (the mode
// is drawn from r). The order is shuffled. n is capped at what the search found (≈ 2500).
func CollidingStrKeys(r *vlib.Rand, n int) []string {
	collOnce.Do(collInit)
	var head []int32
	switch r.Intn(4) {
	case 0:
	case 1:
		if len(groups2) > 0 {
			head = groups2[r.Intn(len(groups2))]
		}
	case 2:
		if len(groups3) > 0 {
			head = groups3[r.Intn(len(groups3))]
		}
	case 3:
		if len(fullPairs) > 0 {
			head = fullPairs[r.Intn(len(fullPairs))]
		}
	}
	var bucket int
	if len(head) > 0 {
		bucket = StrBucket(candKey(head[0]), Mod1)
	} else {
		bucket = r.Intn(Mod1)
	}
	pool := by101[bucket]
	if n > len(pool) {
		n = len(pool)
	}
	seen := map[int32]bool{}
	out := make([]string, 0, n)
	for _, i := range head {
		if len(out) < n && !seen[i] {
			seen[i] = true
			out = append(out, candKey(i))
		}
	}
	start := r.Intn(len(pool))
	for k := 0; len(out) < n && k < len(pool); k++ {
		i := pool[(start+k)%len(pool)]
		if !seen[i] {
			seen[i] = true
			out = append(out, candKey(i))
		}
	}
	r.Shuffle(len(out), func(i, j int) { out[i], out[j] = out[j], out[i] })
	return out
}

// CollidingIntKeys returns n distinct int32 keys that share one chain of the int-keyed
// table: an arithmetic progression with step 101, 20503 or 8344721 (drawn from r; the
// largest step allows 257 keys) in which some keys are replaced or accompanied by their
// sign-bit twin (same hash at every table size). The order is shuffled.
func CollidingIntKeys(r *vlib.Rand, n int) []int32 {
	step := []int64{Mod1, Mod1, Mod2, Mod3}[r.Intn(4)]
	base := int64(r.Intn(int(step)))
	maxJ := (int64(math.MaxInt32) - base) / step
	seen := map[int32]bool{}
	out := make([]int32, 0, n)
	add := func(k int32) {
		if len(out) < n && !seen[k] {
			seen[k] = true
			out = append(out, k)
		}
	}
	twin := r.Intn(3) // 0: none, 1: some twins, 2: every key with its twin
	for j := int64(0); len(out) < n && j <= maxJ; j++ {
		var m int64 = j
		if step != Mod3 && r.Chance(1, 8) {
			m = int64(r.Intn(int(maxJ + 1))) // far apart members of the progression
		}
		k := int32(base + m*step)
		switch {
		case twin == 2:
			add(k)
			add(k | math.MinInt32)
		case twin == 1 && r.Chance(1, 3):
			add(k | math.MinInt32)
		default:
			add(k)
		}
	}
	r.Shuffle(len(out), func(i, j int) { out[i], out[j] = out[j], out[i] })
	return out
}
