package valgen

import (
	"math"

	"verif/refcodec"
	"verif/vlib"
)

var leafTags = []byte{refcodec.TNull, refcodec.TBool, refcodec.TDecimal, refcodec.TInt, refcodec.TLong,
	refcodec.TFloat, refcodec.TDouble, refcodec.TDoubleSummary, refcodec.TLongSummary, refcodec.TText,
	refcodec.TTextHash, refcodec.TBlob, refcodec.TIP4, refcodec.TIntArray, refcodec.TFloatArray,
	refcodec.TTextArray, refcodec.TLongArray}

var containerTags = []byte{refcodec.TList, refcodec.TMap, refcodec.TIntMap}

// Gen draws one value of any of the 20 types. depth is the number of container levels that
// may still be opened below (0 ⇒ a leaf or an empty container); width bounds the entries of
// each container and array. The total number of nodes is bounded by an internal budget
// (64 + 16·width), so that depth and width can be varied freely.
func Gen(r *vlib.Rand, depth, width int) V {
	b := 64 + 16*width
	return gen(r, depth, width, &b)
}

// GenTag is Gen for a fixed type code.
func GenTag(r *vlib.Rand, tag byte, depth, width int) V {
	b := 64 + 16*width
	return genTag(r, tag, depth, width, &b)
}

// Leaf draws a non-container value (scalar, summary, text, blob, IPv4 or a typed array).
func Leaf(r *vlib.Rand, width int) V {
	b := 1
	return genTag(r, leafTags[r.Intn(len(leafTags))], 0, width, &b)
}

func gen(r *vlib.Rand, depth, width int, budget *int) V {
	if depth > 0 && *budget > 0 && r.Chance(2, 5) {
		return genTag(r, containerTags[r.Intn(3)], depth, width, budget)
	}
	if r.Chance(1, 12) {
		// an empty (or, with depth left, small) container where a leaf would do
		return genTag(r, containerTags[r.Intn(3)], depth, width, budget)
	}
	return genTag(r, leafTags[r.Intn(len(leafTags))], depth, width, budget)
}

// count draws a container/array size in [0,max]: empty, singleton, two, full, or uniform.
func count(r *vlib.Rand, max int) int {
	if max <= 0 {
		return 0
	}
	switch r.Intn(8) {
	case 0:
		return 0
	case 1:
		return 1
	case 2:
		return minI(2, max)
	case 3:
		return max
	default:
		return r.Range(0, max)
	}
}

func minI(a, b int) int {
	if a < b {
		return a
	}
	return b
}

// text draws a string, with the long thresholds (253…256 common, 65534…65537 rare).
func text(r *vlib.Rand) string {
	if r.Chance(1, 200) {
		return r.AsciiN([]int{65534, 65535, 65536, 65537}[r.Intn(4)])
	}
	return r.Str(300)
}

func blob(r *vlib.Rand) []byte {
	if r.Chance(1, 200) {
		return r.Bytes([]int{65534, 65535, 65536, 65537, 70001}[r.Intn(5)])
	}
	return r.Blob(300)
}

// shortText is a cheap key/element string (≤ 12 bytes, may be empty or multi-byte).
func shortText(r *vlib.Rand) string {
	switch r.Intn(8) {
	case 0:
		return ""
	case 1:
		return r.Str(12)
	default:
		return r.Ident()
	}
}

func arrayLen(r *vlib.Rand, width int) int {
	if r.Chance(1, 24) {
		return []int{127, 128, 255, 256, 257}[r.Intn(5)]
	}
	return count(r, width)
}

func genTag(r *vlib.Rand, tag byte, depth, width int, budget *int) V {
	*budget--
	v := V{Tag: tag}
	switch tag {
	case refcodec.TNull:
	case refcodec.TBool:
		if r.Bool() {
			v.I = 1
		}
	case refcodec.TDecimal, refcodec.TLong:
		v.I = r.I64()
	case refcodec.TInt, refcodec.TTextHash:
		v.I = int64(r.I32())
	case refcodec.TFloat:
		v.F32 = r.F32()
	case refcodec.TDouble:
		v.F = r.F64()
	case refcodec.TDoubleSummary:
		if !r.Chance(1, 10) { // nil ≡ zero summary
			v.DS = &refcodec.DoubleSum{Sum: r.F64(), Count: r.I32(), Min: r.F64(), Max: r.F64()}
		}
	case refcodec.TLongSummary:
		if !r.Chance(1, 10) {
			v.LS = &refcodec.LongSum{Sum: r.I64(), Count: r.I32(), Min: r.I64(), Max: r.I64()}
		}
	case refcodec.TText:
		v.S = text(r)
	case refcodec.TBlob:
		v.B = blob(r)
	case refcodec.TIP4:
		switch r.Intn(5) {
		case 0:
			v.B = []byte{0, 0, 0, 0}
		case 1:
			v.B = []byte{255, 255, 255, 255}
		case 2:
			v.B = []byte{127, 0, 0, 1}
		default:
			v.B = r.Bytes(4)
		}
	case refcodec.TIntArray:
		n := arrayLen(r, width)
		if n > 0 || r.Bool() { // nil vs empty
			v.Ints = make([]int32, n)
			for i := range v.Ints {
				v.Ints[i] = r.I32()
			}
		}
	case refcodec.TLongArray:
		n := arrayLen(r, width)
		if n > 0 || r.Bool() {
			v.Longs = make([]int64, n)
			for i := range v.Longs {
				v.Longs[i] = r.I64()
			}
		}
	case refcodec.TFloatArray:
		n := arrayLen(r, width)
		if n > 0 || r.Bool() {
			v.Floats = make([]float32, n)
			for i := range v.Floats {
				v.Floats[i] = r.F32()
			}
		}
	case refcodec.TTextArray:
		n := arrayLen(r, width)
		if n > 0 || r.Bool() {
			v.Texts = make([]string, n)
			for i := range v.Texts {
				if r.Chance(1, 6) {
					v.Texts[i] = r.Str(300)
				} else {
					v.Texts[i] = shortText(r)
				}
			}
		}
	case refcodec.TList:
		n := kids(r, depth, width, budget)
		if n > 0 {
			v.List = make([]V, n)
			for i := range v.List {
				v.List[i] = gen(r, depth-1, width, budget)
			}
		}
	case refcodec.TMap:
		n := kids(r, depth, width, budget)
		if n > 0 {
			v.Keys = StrKeys(r, n)
			v.Vals = make([]V, len(v.Keys))
			for i := range v.Vals {
				v.Vals[i] = gen(r, depth-1, width, budget)
			}
		}
	case refcodec.TIntMap:
		n := kids(r, depth, width, budget)
		if n > 0 {
			v.IntKeys = IntKeys(r, n)
			v.Vals = make([]V, len(v.IntKeys))
			for i := range v.Vals {
				v.Vals[i] = gen(r, depth-1, width, budget)
			}
		}
	default:
		panic("valgen: cannot generate tag")
	}
	return v
}

// kids draws the number of entries of a container given the remaining depth and budget.
func kids(r *vlib.Rand, depth, width int, budget *int) int {
	if depth <= 0 || *budget <= 0 {
		return 0
	}
	n := count(r, width)
	if n > *budget {
		n = *budget
	}
	return n
}

// StrKeys draws n distinct map keys: random texts (with "", multi-byte, invalid UTF-8 and
// the 253…256 byte thresholds), identifiers, or keys colliding in the backing table.
func StrKeys(r *vlib.Rand, n int) []string {
	if n <= 0 {
		return nil
	}
	if r.Chance(1, 4) {
		if ks := CollidingStrKeys(r, n); len(ks) == n {
			return ks
		}
	}
	seen := make(map[string]bool, n)
	out := make([]string, 0, n)
	rich := r.Chance(1, 3)
	for tries := 0; len(out) < n; tries++ {
		var k string
		switch {
		case tries > 4*n+16:
			k = "u" + r.AsciiN(12)
		case rich:
			k = r.Str(300)
		default:
			k = shortText(r)
		}
		if !seen[k] {
			seen[k] = true
			out = append(out, k)
		}
	}
	return out
}

// IntKeys draws n distinct int-map keys: boundary-biased, sequential, or colliding.
func IntKeys(r *vlib.Rand, n int) []int32 {
	if n <= 0 {
		return nil
	}
	mode := r.Intn(4)
	if mode == 0 {
		if ks := CollidingIntKeys(r, n); len(ks) == n {
			return ks
		}
	}
	seen := make(map[int32]bool, n)
	out := make([]int32, 0, n)
	base := r.I32()
	for tries := 0; len(out) < n; tries++ {
		var k int32
		switch {
		case mode == 1:
			k = base + int32(tries) // sequential, may wrap through MaxInt32 → MinInt32
		case tries > 4*n+16:
			k = int32(r.U32())
		default:
			k = r.I32()
		}
		if !seen[k] {
			seen[k] = true
			out = append(out, k)
		}
	}
	return out
}

// cheapLeaf is a small scalar (no long strings, no arrays): filler for wide and deep shapes.
func cheapLeaf(r *vlib.Rand) V {
	switch r.Intn(10) {
	case 0:
		return V{Tag: refcodec.TNull}
	case 1:
		return V{Tag: refcodec.TBool, I: int64(r.Intn(2))}
	case 2:
		return V{Tag: refcodec.TDecimal, I: r.I64()}
	case 3:
		return V{Tag: refcodec.TInt, I: int64(r.I32())}
	case 4:
		return V{Tag: refcodec.TLong, I: r.I64()}
	case 5:
		return V{Tag: refcodec.TFloat, F32: r.F32()}
	case 6:
		return V{Tag: refcodec.TDouble, F: r.F64()}
	case 7:
		return V{Tag: refcodec.TText, S: shortText(r)}
	case 8:
		return V{Tag: refcodec.TTextHash, I: int64(r.I32())}
	default:
		return V{Tag: refcodec.TIP4, B: r.Bytes(4)}
	}
}

// Deep builds a chain of exactly depth nested containers (list / map / int map drawn per
// level). Every level holds the nested container plus 0…2 cheap leaves around it; the
// innermost container holds one arbitrary leaf.
func Deep(r *vlib.Rand, depth int) V {
	cur := Leaf(r, 3)
	for d := 0; d < depth; d++ {
		n := 1 + r.Intn(3)
		pos := r.Intn(n)
		items := make([]V, n)
		for i := range items {
			if i == pos {
				items[i] = cur
			} else {
				items[i] = cheapLeaf(r)
			}
		}
		switch containerTags[r.Intn(3)] {
		case refcodec.TList:
			cur = V{Tag: refcodec.TList, List: items}
		case refcodec.TMap:
			cur = V{Tag: refcodec.TMap, Keys: StrKeys(r, n), Vals: items}
		default:
			cur = V{Tag: refcodec.TIntMap, IntKeys: IntKeys(r, n), Vals: items}
		}
	}
	return cur
}

// Wide builds one container or typed array of exactly n entries (arrays: n ≤ 32767, the
// largest count their 16-bit field can carry). Container entries are cheap leaves with an
// occasional small nested container; map keys are distinct and, for about a third of the
// maps, chosen to collide in the backing table.
func Wide(r *vlib.Rand, tag byte, n int) V {
	v := V{Tag: tag}
	item := func() V {
		if r.Chance(1, 64) {
			return Gen(r, 1, 3)
		}
		return cheapLeaf(r)
	}
	switch tag {
	case refcodec.TList:
		v.List = make([]V, n)
		for i := range v.List {
			v.List[i] = item()
		}
	case refcodec.TMap:
		v.Keys = wideStrKeys(r, n)
		v.Vals = make([]V, n)
		for i := range v.Vals {
			v.Vals[i] = item()
		}
	case refcodec.TIntMap:
		v.IntKeys = wideIntKeys(r, n)
		v.Vals = make([]V, n)
		for i := range v.Vals {
			v.Vals[i] = item()
		}
	case refcodec.TIntArray:
		if n > math.MaxInt16 {
			panic("valgen.Wide: array longer than its count field")
		}
		v.Ints = make([]int32, n)
		for i := range v.Ints {
			v.Ints[i] = r.I32()
		}
	case refcodec.TLongArray:
		v.Longs = make([]int64, n)
		for i := range v.Longs {
			v.Longs[i] = r.I64()
		}
	case refcodec.TFloatArray:
		v.Floats = make([]float32, n)
		for i := range v.Floats {
			v.Floats[i] = r.F32()
		}
	case refcodec.TTextArray:
		v.Texts = make([]string, n)
		for i := range v.Texts {
			v.Texts[i] = shortText(r)
		}
	default:
		panic("valgen.Wide: not a container or array tag")
	}
	return v
}

func wideStrKeys(r *vlib.Rand, n int) []string {
	var out []string
	seen := make(map[string]bool, n)
	if r.Chance(1, 3) {
		// a colliding block first (or in the middle), the rest random
		for _, k := range CollidingStrKeys(r, minI(n, 64+r.Intn(400))) {
			seen[k] = true
			out = append(out, k)
		}
	}
	for len(out) < n {
		k := r.AsciiN(r.Range(1, 10))
		if r.Chance(1, 50) {
			k = r.Str(40)
		}
		if !seen[k] {
			seen[k] = true
			out = append(out, k)
		}
	}
	r.Shuffle(len(out), func(i, j int) { out[i], out[j] = out[j], out[i] })
	return out
}

func wideIntKeys(r *vlib.Rand, n int) []int32 {
	var out []int32
	seen := make(map[int32]bool, n)
	mode := r.Intn(3)
	if mode == 0 {
		for _, k := range CollidingIntKeys(r, minI(n, 64+r.Intn(400))) {
			seen[k] = true
			out = append(out, k)
		}
	}
	base := r.I32()
	for i := 0; len(out) < n; i++ {
		k := int32(r.U32())
		if mode == 1 {
			k = base + int32(i)*int32(Mod1) // every key of the first table in one bucket, wrapping
		}
		if !seen[k] {
			seen[k] = true
			out = append(out, k)
		}
	}
	r.Shuffle(len(out), func(i, j int) { out[i], out[j] = out[j], out[i] })
	return out
}
