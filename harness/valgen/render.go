package valgen

import (
	"fmt"
	"math"
	"strings"

	"verif/refcodec"
)

// Render writes a tree as one line of text that is safe to put into JSON (floats as bit
// patterns, strings quoted, blobs in hex), stopping after about limit bytes. It is meant
// for replay files and samples: the explicit value, not an index into the PRNG stream.
func Render(v V, limit int) string {
	var sb strings.Builder
	render(&sb, &v, limit)
	return sb.String()
}

func full(sb *strings.Builder, limit int) bool {
	if sb.Len() >= limit {
		if !strings.HasSuffix(sb.String(), "…") {
			sb.WriteString("…")
		}
		return true
	}
	return false
}

func qs(s string) string {
	if len(s) > 48 {
		return fmt.Sprintf("%q…(%d bytes)", s[:32], len(s))
	}
	return fmt.Sprintf("%q", s)
}

func hx(b []byte) string {
	if len(b) > 24 {
		return fmt.Sprintf("%x…(%d bytes)", b[:16], len(b))
	}
	return fmt.Sprintf("%x", b)
}

func render(sb *strings.Builder, v *V, limit int) {
	if full(sb, limit) {
		return
	}
	switch v.Tag {
	case refcodec.TNull:
		sb.WriteString("Null")
	case refcodec.TBool:
		fmt.Fprintf(sb, "Bool(%v)", v.I != 0)
	case refcodec.TDecimal:
		fmt.Fprintf(sb, "Decimal(%d)", v.I)
	case refcodec.TInt:
		fmt.Fprintf(sb, "Int(%d)", int32(v.I))
	case refcodec.TLong:
		fmt.Fprintf(sb, "Long(%d)", v.I)
	case refcodec.TFloat:
		fmt.Fprintf(sb, "Float(bits=0x%08x)", math.Float32bits(v.F32))
	case refcodec.TDouble:
		fmt.Fprintf(sb, "Double(bits=0x%016x)", math.Float64bits(v.F))
	case refcodec.TDoubleSummary:
		var s refcodec.DoubleSum
		if v.DS != nil {
			s = *v.DS
		}
		fmt.Fprintf(sb, "DoubleSummary(sum=0x%016x,count=%d,min=0x%016x,max=0x%016x)",
			math.Float64bits(s.Sum), s.Count, math.Float64bits(s.Min), math.Float64bits(s.Max))
	case refcodec.TLongSummary:
		var s refcodec.LongSum
		if v.LS != nil {
			s = *v.LS
		}
		fmt.Fprintf(sb, "LongSummary(sum=%d,count=%d,min=%d,max=%d)", s.Sum, s.Count, s.Min, s.Max)
	case refcodec.TText:
		sb.WriteString("Text(" + qs(v.S) + ")")
	case refcodec.TTextHash:
		fmt.Fprintf(sb, "TextHash(%d)", int32(v.I))
	case refcodec.TBlob:
		sb.WriteString("Blob(" + hx(v.B) + ")")
	case refcodec.TIP4:
		sb.WriteString("IP4(" + hx(v.B) + ")")
	case refcodec.TList:
		fmt.Fprintf(sb, "List#%d[", len(v.List))
		for i := range v.List {
			if i > 0 {
				sb.WriteString(", ")
			}
			if full(sb, limit) {
				break
			}
			render(sb, &v.List[i], limit)
		}
		sb.WriteString("]")
	case refcodec.TIntArray:
		fmt.Fprintf(sb, "IntArray#%d[", len(v.Ints))
		for i, x := range v.Ints {
			if full(sb, limit) {
				break
			}
			if i > 0 {
				sb.WriteString(",")
			}
			fmt.Fprintf(sb, "%d", x)
		}
		sb.WriteString("]")
	case refcodec.TLongArray:
		fmt.Fprintf(sb, "LongArray#%d[", len(v.Longs))
		for i, x := range v.Longs {
			if full(sb, limit) {
				break
			}
			if i > 0 {
				sb.WriteString(",")
			}
			fmt.Fprintf(sb, "%d", x)
		}
		sb.WriteString("]")
	case refcodec.TFloatArray:
		fmt.Fprintf(sb, "FloatArray#%d[", len(v.Floats))
		for i, x := range v.Floats {
			if full(sb, limit) {
				break
			}
			if i > 0 {
				sb.WriteString(",")
			}
			fmt.Fprintf(sb, "0x%08x", math.Float32bits(x))
		}
		sb.WriteString("]")
	case refcodec.TTextArray:
		fmt.Fprintf(sb, "TextArray#%d[", len(v.Texts))
		for i, x := range v.Texts {
			if full(sb, limit) {
				break
			}
			if i > 0 {
				sb.WriteString(",")
			}
			sb.WriteString(qs(x))
		}
		sb.WriteString("]")
	case refcodec.TMap:
		fmt.Fprintf(sb, "Map#%d{", len(v.Keys))
		for i := range v.Keys {
			if i > 0 {
				sb.WriteString(", ")
			}
			if full(sb, limit) {
				break
			}
			sb.WriteString(qs(v.Keys[i]) + ": ")
			if i < len(v.Vals) {
				render(sb, &v.Vals[i], limit)
			}
		}
		sb.WriteString("}")
	case refcodec.TIntMap:
		fmt.Fprintf(sb, "IntMap#%d{", len(v.IntKeys))
		for i := range v.IntKeys {
			if i > 0 {
				sb.WriteString(", ")
			}
			if full(sb, limit) {
				break
			}
			fmt.Fprintf(sb, "%d: ", v.IntKeys[i])
			if i < len(v.Vals) {
				render(sb, &v.Vals[i], limit)
			}
		}
		sb.WriteString("}")
	default:
		fmt.Fprintf(sb, "Unknown(tag=%d,%s)", v.Tag, qs(v.S))
	}
}
