package valgen

import (
	"math"
	"testing"

	"verif/refcodec"
	"verif/vlib"
)

// perturb changes exactly one payload item of v (or returns false if v has none).
func perturb(v *V) bool {
	switch v.Tag {
	case refcodec.TNull:
		return false
	case refcodec.TBool:
		if v.I != 0 {
			v.I = 0
		} else {
			v.I = 1
		}
	case refcodec.TDecimal, refcodec.TLong, refcodec.TInt, refcodec.TTextHash:
		v.I ^= 1
	case refcodec.TFloat:
		v.F32 = math.Float32frombits(math.Float32bits(v.F32) ^ 1)
	case refcodec.TDouble:
		v.F = math.Float64frombits(math.Float64bits(v.F) ^ 1)
	case refcodec.TDoubleSummary:
		s := refcodec.DoubleSum{}
		if v.DS != nil {
			s = *v.DS
		}
		s.Max = math.Float64frombits(math.Float64bits(s.Max) ^ 1)
		v.DS = &s
	case refcodec.TLongSummary:
		s := refcodec.LongSum{}
		if v.LS != nil {
			s = *v.LS
		}
		s.Min ^= 1
		v.LS = &s
	case refcodec.TText:
		v.S += "x"
	case refcodec.TBlob:
		v.B = append(append([]byte(nil), v.B...), 0)
	case refcodec.TIP4:
		v.B = []byte{v.B[0], v.B[1], v.B[2], v.B[3] ^ 1}
	case refcodec.TIntArray:
		v.Ints = append(append([]int32(nil), v.Ints...), 0)
	case refcodec.TLongArray:
		v.Longs = append(append([]int64(nil), v.Longs...), 0)
	case refcodec.TFloatArray:
		v.Floats = append(append([]float32(nil), v.Floats...), 0)
	case refcodec.TTextArray:
		v.Texts = append(append([]string(nil), v.Texts...), "")
	case refcodec.TList:
		if len(v.List) < 2 {
			v.List = append(append([]V(nil), v.List...), V{Tag: refcodec.TNull})
		} else { // order
			l := append([]V(nil), v.List...)
			l[0], l[1] = l[1], l[0]
			if ok, _ := Equal(l[0], l[1]); ok {
				l = l[1:]
			}
			v.List = l
		}
	case refcodec.TMap:
		if len(v.Keys) < 2 {
			v.Keys = append(append([]string(nil), v.Keys...), "\x00new")
			v.Vals = append(append([]V(nil), v.Vals...), V{Tag: refcodec.TNull})
		} else {
			k := append([]string(nil), v.Keys...)
			l := append([]V(nil), v.Vals...)
			k[0], k[1] = k[1], k[0]
			l[0], l[1] = l[1], l[0]
			v.Keys, v.Vals = k, l
		}
	case refcodec.TIntMap:
		if len(v.IntKeys) < 2 {
			nk := int32(12345)
			if len(v.IntKeys) == 1 && v.IntKeys[0] == nk {
				nk++
			}
			v.IntKeys = append(append([]int32(nil), v.IntKeys...), nk)
			v.Vals = append(append([]V(nil), v.Vals...), V{Tag: refcodec.TNull})
		} else {
			k := append([]int32(nil), v.IntKeys...)
			l := append([]V(nil), v.Vals...)
			k[0], k[1] = k[1], k[0]
			l[0], l[1] = l[1], l[0]
			v.IntKeys, v.Vals = k, l
		}
	}
	return true
}

func TestRoundTripThroughGolibObjectsAndEqualSensitivity(t *testing.T) {
	r := vlib.NewRand(7)
	seen := map[byte]bool{}
	for i := 0; i < 4000; i++ {
		v := Gen(r, r.Intn(5), r.Intn(10))
		seen[v.Tag] = true
		back := FromGolib(ToGolib(v))
		if ok, p := Equal(v, back); !ok {
			t.Fatalf("FromGolib(ToGolib(v)) differs at %s: %s", p, Render(v, 500))
		}
		w := v
		if perturb(&w) {
			if ok, _ := Equal(v, w); ok {
				t.Fatalf("Equal does not see a perturbation of %s", Render(v, 300))
			}
			if string(refcodec.EncodeValue(v)) == string(refcodec.EncodeValue(w)) {
				t.Fatalf("reference encoding does not see a perturbation of %s", Render(v, 300))
			}
		}
	}
	if len(seen) != 20 {
		t.Fatalf("generator produced %d top-level types, want 20", len(seen))
	}
}

func TestNilEqualsEmpty(t *testing.T) {
	a := V{Tag: refcodec.TList, List: []V{{Tag: refcodec.TBlob}, {Tag: refcodec.TIntArray}, {Tag: refcodec.TLongSummary}}}
	b := V{Tag: refcodec.TList, List: []V{{Tag: refcodec.TBlob, B: []byte{}}, {Tag: refcodec.TIntArray, Ints: []int32{}}, {Tag: refcodec.TLongSummary, LS: &refcodec.LongSum{}}}}
	if ok, p := Equal(a, b); !ok {
		t.Fatal(p)
	}
	if PathKind("ListValue[31]/MapValue{#2}/DoubleSummary.Min") != "ListValue[]/MapValue{}/DoubleSummary.Min" {
		t.Fatal(PathKind("ListValue[31]/MapValue{#2}/DoubleSummary.Min"))
	}
}

func TestCollidingKeys(t *testing.T) {
	collOnce.Do(collInit)
	if len(groups2) == 0 || len(groups3) == 0 || len(fullPairs) == 0 {
		t.Fatalf("search found groups2=%d groups3=%d full=%d", len(groups2), len(groups3), len(fullPairs))
	}
	t.Logf("groups mod %d: %d, mod %d: %d, full CRC collisions: %d", Mod2, len(groups2), Mod3, len(groups3), len(fullPairs))
	for _, g := range fullPairs {
		if refcodec.Hash32([]byte(candKey(g[0]))) != refcodec.Hash32([]byte(candKey(g[1]))) || candKey(g[0]) == candKey(g[1]) {
			t.Fatal("not a full collision")
		}
	}
	r := vlib.NewRand(3)
	for i := 0; i < 200; i++ {
		n := 2 + r.Intn(300)
		ks := CollidingStrKeys(r, n)
		if len(ks) != n {
			t.Fatalf("got %d keys, want %d", len(ks), n)
		}
		seen := map[string]bool{}
		for _, k := range ks {
			if seen[k] || StrBucket(k, Mod1) != StrBucket(ks[0], Mod1) {
				t.Fatal("duplicate or not colliding")
			}
			seen[k] = true
		}
		n = 2 + r.Intn(255)
		is := CollidingIntKeys(r, n)
		if len(is) != n {
			t.Fatalf("got %d int keys, want %d", len(is), n)
		}
		si := map[int32]bool{}
		for _, k := range is {
			if si[k] || IntBucket(k, Mod1) != IntBucket(is[0], Mod1) {
				t.Fatal("duplicate or not colliding")
			}
			si[k] = true
		}
	}
}

func TestFieldMapOfReferenceEncoder(t *testing.T) {
	r := vlib.NewRand(11)
	valid := map[byte]bool{}
	for _, x := range refcodec.ValueTags {
		valid[x] = true
	}
	for i := 0; i < 2000; i++ {
		v := Gen(r, r.Intn(5), r.Intn(10))
		w := refcodec.NewW()
		w.Value(v)
		tags, counts := 0, 0
		for _, f := range w.Fields {
			if f.Off < 0 || f.Width <= 0 || f.Off+f.Width > len(w.B) {
				t.Fatalf("field %+v outside the %d-byte encoding", f, len(w.B))
			}
			switch {
			case f.Kind == refcodec.KTag:
				tags++
				if !valid[w.B[f.Off]] {
					t.Fatalf("tag field %+v points at byte %d", f, w.B[f.Off])
				}
			case f.Kind == refcodec.KCount && (f.Name == "list-count" || f.Name == "map-count" || f.Name == "intmap-count"):
				counts++
				if int(w.B[f.Off])+1 != f.Width {
					t.Fatalf("count field %+v: class byte %d", f, w.B[f.Off])
				}
			}
		}
		st := Stats(v, nil)
		nc := 0
		Stats(v, func(n *V, d int) {
			if IsContainer(n.Tag) {
				nc++
			}
		})
		if tags != st.Nodes || counts != nc {
			t.Fatalf("field map has %d tags / %d container counts, tree has %d nodes / %d containers", tags, counts, st.Nodes, nc)
		}
	}
}
