package stepgen

import (
	"fmt"

	"github.com/whatap/golib/lang/service"
	"github.com/whatap/golib/lang/value"

	"verif/refcodec"
	"verif/valgen"
	"verif/vlib"
)

type RefTxRecord = refcodec.RefTxRecord
type RefService = refcodec.RefService

// TxShape fixes which optional groups of a transaction record are present.
type TxShape struct {
	Mtrace   bool // multi-trace id non-zero
	Caller   bool // caller pcode non-zero
	Fields   int  // -1 nil, 0 empty map, n>0 entries (≤255)
	ErrorSet bool // error id non-zero
	LevelSet bool // error level non-zero
}

func (s TxShape) String() string {
	f := "nil"
	if s.Fields >= 0 {
		f = fmt.Sprint(s.Fields)
	}
	return fmt.Sprintf("mtrace=%v caller=%v fields=%s error=%v level=%v", s.Mtrace, s.Caller, f, s.ErrorSet, s.LevelSet)
}

// TxShapes enumerates every combination: 2 × 2 × {nil, empty, 1, 255} × 2 × 2 = 64.
func TxShapes() []TxShape {
	var out []TxShape
	for _, m := range []bool{false, true} {
		for _, c := range []bool{false, true} {
			for _, f := range []int{-1, 0, 1, 255} {
				for _, e := range []bool{false, true} {
					for _, l := range []bool{false, true} {
						out = append(out, TxShape{m, c, f, e, l})
					}
				}
			}
		}
	}
	return out
}

func nz64(r *vlib.Rand) int64 {
	for {
		if v := r.I64(); v != 0 {
			return v
		}
	}
}

// GenTxRecordShape draws a record with exactly the given optional groups. The members of an
// absent group other than its presence field are still populated half of the time (the wire
// must not carry them; see TxCanon).
func GenTxRecordShape(r *vlib.Rand, sh TxShape) RefTxRecord {
	t := RefTxRecord{
		Txid: r.I64(), EndTime: r.I64(), Service: r.I32(), Elapsed: r.I32(),
		CpuTime: r.I32(), Malloc: r.I64(),
		SqlCount: r.I32(), SqlTime: r.I32(), SqlFetchCount: r.I32(), SqlFetchTime: r.I32(),
		HttpcCount: r.I32(), HttpcTime: r.I32(),
		Active: r.Bool(), StepsDataPos: r.I64(), Cipher: r.I32(),
		IpAddr: r.I32(), WClientId: r.I64(), UserAgent: r.I32(), Referer: r.I32(), Status: r.I32(),
		HttpMethod: byte(r.U64()), Domain: r.I32(), Login: r.I32(),
		Oid: r.I32(), Okind: r.I32(), Onode: r.I32(), Uuid: r.Str(400), DbcTime: r.I32(), Apdex: byte(r.U64()),
		McallerStepId: r.I64(), OriginUrl: r.Str(400), StepSplitCount: r.I64(),
	}
	if sh.ErrorSet {
		t.Error = nz64(r)
	}
	if sh.LevelSet {
		t.ErrorLevel = []byte{10, 20, 30, 1, 255, byte(1 + r.Intn(255))}[r.Intn(6)]
	}
	if sh.Mtrace {
		t.Mtid = nz64(r)
	}
	if sh.Mtrace || r.Bool() {
		t.Mdepth, t.Mcaller = r.I32(), r.I64()
	}
	if sh.Caller {
		t.McallerPcode = nz64(r)
	}
	if sh.Caller || r.Bool() {
		t.McallerOkind, t.McallerOid, t.McallerSpec, t.McallerUrl, t.MthisSpec = r.I32(), r.I32(), r.I32(), r.I32(), r.I32()
	}
	if sh.Fields >= 0 {
		depth := 2
		if sh.Fields > 50 {
			depth = 0
		}
		m := GenAttrMap(r, sh.Fields, depth)
		t.Fields = &m
	}
	return t
}

// GenTxRecord draws a record of a random shape (field counts 0..255).
func GenTxRecord(r *vlib.Rand) RefTxRecord {
	sh := TxShape{Mtrace: r.Bool(), Caller: r.Bool(), ErrorSet: r.Bool(), LevelSet: r.Bool()}
	switch r.Intn(8) {
	case 0:
		sh.Fields = -1
	case 1:
		sh.Fields = 0
	case 2:
		sh.Fields = []int{254, 255, 128, 127}[r.Intn(4)]
	default:
		sh.Fields = r.Range(1, 10)
	}
	return GenTxRecordShape(r, sh)
}

// TxShapeOf tells which optional groups a record has.
func TxShapeOf(t RefTxRecord) TxShape {
	sh := TxShape{Mtrace: t.Mtid != 0, Caller: t.McallerPcode != 0, Fields: -1, ErrorSet: t.Error != 0, LevelSet: t.ErrorLevel != 0}
	if t.Fields != nil {
		sh.Fields = len(t.Fields.Keys)
	}
	return sh
}

// TxCanon returns what a correct decoder yields for a written t: members of absent groups are
// zero, an empty custom-field map is absent, and a zero error level is 'warning' (20) when
// an error id is present — the decoder's deliberate defaulting.
func TxCanon(t RefTxRecord) RefTxRecord {
	if t.Mtid == 0 {
		t.Mdepth, t.Mcaller = 0, 0
	}
	if t.McallerPcode == 0 {
		t.McallerOkind, t.McallerOid, t.McallerSpec, t.McallerUrl, t.MthisSpec = 0, 0, 0, 0, 0
	}
	if t.Fields != nil && len(t.Fields.Keys) == 0 {
		t.Fields = nil
	}
	if t.ErrorLevel == 0 && t.Error != 0 {
		t.ErrorLevel = 20
	}
	return t
}

func TxToGolib(t RefTxRecord) *service.TxRecord {
	p := service.NewTxRecord()
	p.Txid, p.EndTime, p.Service, p.Elapsed, p.Error, p.CpuTime, p.Malloc = t.Txid, t.EndTime, t.Service, t.Elapsed, t.Error, t.CpuTime, t.Malloc
	p.SqlCount, p.SqlTime, p.SqlFetchCount, p.SqlFetchTime = t.SqlCount, t.SqlTime, t.SqlFetchCount, t.SqlFetchTime
	p.HttpcCount, p.HttpcTime = t.HttpcCount, t.HttpcTime
	p.Active, p.StepsDataPos, p.Cipher = t.Active, t.StepsDataPos, t.Cipher
	p.IpAddr, p.WClientId, p.UserAgent, p.Referer, p.Status = t.IpAddr, t.WClientId, t.UserAgent, t.Referer, t.Status
	p.Mtid, p.Mdepth, p.Mcaller = t.Mtid, t.Mdepth, t.Mcaller
	p.McallerPcode, p.McallerOkind, p.McallerOid, p.McallerSpec, p.McallerUrl, p.MthisSpec = t.McallerPcode, t.McallerOkind, t.McallerOid, t.McallerSpec, t.McallerUrl, t.MthisSpec
	p.HttpMethod, p.Domain = t.HttpMethod, t.Domain
	if t.Fields != nil {
		p.Fields = valgen.ToGolib(*t.Fields).(*value.MapValue)
	}
	p.Login, p.ErrorLevel = t.Login, t.ErrorLevel
	p.Oid, p.Okind, p.Onode = t.Oid, t.Okind, t.Onode
	p.Uuid, p.DbcTime, p.Apdex = t.Uuid, t.DbcTime, t.Apdex
	p.McallerStepId, p.OriginUrl, p.StepSplitCount = t.McallerStepId, t.OriginUrl, int(t.StepSplitCount)
	return p
}

func TxFromGolib(p *service.TxRecord) RefTxRecord {
	return RefTxRecord{
		Txid: p.Txid, EndTime: p.EndTime, Service: p.Service, Elapsed: p.Elapsed, Error: p.Error, CpuTime: p.CpuTime, Malloc: p.Malloc,
		SqlCount: p.SqlCount, SqlTime: p.SqlTime, SqlFetchCount: p.SqlFetchCount, SqlFetchTime: p.SqlFetchTime,
		HttpcCount: p.HttpcCount, HttpcTime: p.HttpcTime,
		Active: p.Active, StepsDataPos: p.StepsDataPos, Cipher: p.Cipher,
		IpAddr: p.IpAddr, WClientId: p.WClientId, UserAgent: p.UserAgent, Referer: p.Referer, Status: p.Status,
		Mtid: p.Mtid, Mdepth: p.Mdepth, Mcaller: p.Mcaller,
		McallerPcode: p.McallerPcode, McallerOkind: p.McallerOkind, McallerOid: p.McallerOid, McallerSpec: p.McallerSpec,
		McallerUrl: p.McallerUrl, MthisSpec: p.MthisSpec,
		HttpMethod: p.HttpMethod, Domain: p.Domain, Fields: AttrFromGolib(p.Fields), Login: p.Login, ErrorLevel: p.ErrorLevel,
		Oid: p.Oid, Okind: p.Okind, Onode: p.Onode, Uuid: p.Uuid, DbcTime: p.DbcTime, Apdex: p.Apdex,
		McallerStepId: p.McallerStepId, OriginUrl: p.OriginUrl, StepSplitCount: int64(p.StepSplitCount),
	}
}

// TxDiff returns the names of the differing fields.
func TxDiff(a, b RefTxRecord) []string { return diffStruct(a, b) }
func TxEqual(a, b RefTxRecord) bool    { return len(TxDiff(a, b)) == 0 }

// TxGroupOf maps a field name to the optional group it belongs to (finding keys
// TxRecord.<group>:not-restored); fields outside the optional groups map to themselves.
func TxGroupOf(field string) string {
	switch field {
	case "Mtid", "Mdepth", "Mcaller":
		return "multi-trace"
	case "McallerPcode", "McallerOkind", "McallerOid", "McallerSpec", "McallerUrl", "MthisSpec":
		return "caller"
	case "Fields":
		return "custom-fields"
	case "ErrorLevel":
		return "error-level"
	}
	return field
}

// ---- service records ------------------------------------------------------------------------

// GenService draws a service record of type t (refcodec.SvcT*).
func GenService(r *vlib.Rand, t byte) RefService {
	s := RefService{Type: t,
		Seq: r.I64(), EndTime: r.I64(), Service: r.I32(), Elapsed: r.I32(), Error: r.I64(), CpuTime: r.I32(), Malloc: r.I64(),
		SqlCount: r.I32(), SqlTime: r.I32(), SqlFetchCount: r.I32(), SqlFetchTime: r.I32(),
		HttpcCount: r.I32(), HttpcTime: r.I32(), Active: r.Bool(), StepsDataPos: r.I64()}
	if t != refcodec.SvcTApp {
		s.IpAddr, s.WClientId, s.UserAgent, s.Referer, s.Status = r.I32(), r.I64(), r.I32(), r.I32(), r.I32()
		s.Mtid, s.Mdepth, s.Mcaller = r.I64(), r.I32(), r.I64()
	}
	return s
}

func svcFillAbstract(a *service.AbstractService, s RefService) {
	a.Seq, a.EndTime, a.Service, a.Elapsed, a.Error, a.CpuTime, a.Malloc = s.Seq, s.EndTime, s.Service, s.Elapsed, s.Error, s.CpuTime, s.Malloc
	a.SqlCount, a.SqlTime, a.SqlFetchCount, a.SqlFetchTime = s.SqlCount, s.SqlTime, s.SqlFetchCount, s.SqlFetchTime
	a.HttpcCount, a.HttpcTime, a.Active, a.Steps_data_pos = s.HttpcCount, s.HttpcTime, s.Active, s.StepsDataPos
}

func svcFillWas(w *service.WasService, s RefService) {
	svcFillAbstract(&w.AbstractService, s)
	w.IpAddr, w.WClientId, w.UserAgent, w.Referer, w.Status = s.IpAddr, s.WClientId, s.UserAgent, s.Referer, s.Status
	w.Mtid, w.Mdepth, w.Mcaller = s.Mtid, s.Mdepth, s.Mcaller
}

func SvcToGolib(s RefService) service.Service {
	switch s.Type {
	case refcodec.SvcTWas:
		p := service.NewWasService()
		svcFillWas(p, s)
		return p
	case refcodec.SvcTApp:
		p := service.NewAppService()
		svcFillAbstract(&p.AbstractService, s)
		return p
	case refcodec.SvcTWas2:
		p := service.NewWasService2()
		svcFillWas(&p.WasService, s)
		return p
	}
	panic(fmt.Sprintf("stepgen.SvcToGolib: unknown service type %d", s.Type))
}

func svcFromAbstract(t byte, a *service.AbstractService) RefService {
	return RefService{Type: t, Seq: a.Seq, EndTime: a.EndTime, Service: a.Service, Elapsed: a.Elapsed, Error: a.Error,
		CpuTime: a.CpuTime, Malloc: a.Malloc, SqlCount: a.SqlCount, SqlTime: a.SqlTime, SqlFetchCount: a.SqlFetchCount,
		SqlFetchTime: a.SqlFetchTime, HttpcCount: a.HttpcCount, HttpcTime: a.HttpcTime, Active: a.Active, StepsDataPos: a.Steps_data_pos}
}

func svcFromWas(t byte, w *service.WasService) RefService {
	s := svcFromAbstract(t, &w.AbstractService)
	s.IpAddr, s.WClientId, s.UserAgent, s.Referer, s.Status = w.IpAddr, w.WClientId, w.UserAgent, w.Referer, w.Status
	s.Mtid, s.Mdepth, s.Mcaller = w.Mtid, w.Mdepth, w.Mcaller
	return s
}

// SvcFromGolib walks a golib service record (Type 0 if it is not one of the three types).
func SvcFromGolib(x service.Service) RefService {
	switch p := x.(type) {
	case *service.WasService:
		return svcFromWas(refcodec.SvcTWas, p)
	case *service.AppService:
		return svcFromAbstract(refcodec.SvcTApp, &p.AbstractService)
	case *service.WasService2:
		return svcFromWas(refcodec.SvcTWas2, &p.WasService)
	}
	return RefService{}
}

func SvcDiff(a, b RefService) []string { return diffStruct(a, b) }
func SvcEqual(a, b RefService) bool    { return len(SvcDiff(a, b)) == 0 }
