// Package stepgen generates profile steps, transaction records and service records as
// neutral structs (refcodec.RefStep / RefTxRecord / RefService), builds the real golib
// objects from them, walks golib objects back into neutral structs through exported fields
// only, and compares neutral structs field by field.
//
// API (shared by the C08 and C04 workers — nothing property specific):
//
//	GenStep(r, type)              one boundary-biased step of the given type
//	GenSteps(r, n)                n steps over the stream-registered types
//	ToGolib(s) / FromGolib(x)     RefStep <-> step.Step (all 9 registered types and MessageStepX)
//	Sql3ToGolib / Sql3FromGolib   RefStep <-> *step.SqlStep_3 (not a step.Step: own Write/Read only)
//	Canon(s)                      what a correct decoder returns for a written s: sections whose
//	                              presence condition does not hold are zero
//	Diff(a, b) / Equal(a, b)      names of differing fields (nil ≡ empty slices; attributes by valgen.Equal)
//	GenAttrMap(r, n, depth)       an ordered map value with n unique keys (attributes, custom fields)
//
//	GenTxRecord(r) / GenTxRecordShape(r, shape) / TxShapes()   tx records, every optional-group combination
//	TxToGolib / TxFromGolib / TxCanon / TxDiff / TxEqual / TxGroupOf
//	GenService(r, type) / SvcToGolib / SvcFromGolib / SvcDiff / SvcEqual
package stepgen

import (
	"bytes"
	"fmt"
	"math"
	"reflect"

	"github.com/whatap/golib/lang/step"
	"github.com/whatap/golib/lang/value"

	"verif/refcodec"
	"verif/valgen"
	"verif/vlib"
)

type RefStep = refcodec.RefStep
type V = refcodec.V

// ---- value generator for attribute maps / custom fields ---------------------------------

var attrLeafTags = []byte{refcodec.TNull, refcodec.TBool, refcodec.TDecimal, refcodec.TInt, refcodec.TLong,
	refcodec.TFloat, refcodec.TDouble, refcodec.TText, refcodec.TTextHash, refcodec.TBlob, refcodec.TIP4,
	refcodec.TIntArray, refcodec.TLongArray, refcodec.TTextArray, refcodec.TFloatArray}

func genAttrVal(r *vlib.Rand, depth int) V {
	if depth > 0 && r.Intn(8) == 0 {
		if r.Bool() {
			n := r.Intn(4)
			l := V{Tag: refcodec.TList}
			for i := 0; i < n; i++ {
				l.List = append(l.List, genAttrVal(r, depth-1))
			}
			return l
		}
		return GenAttrMap(r, r.Intn(4), depth-1)
	}
	t := attrLeafTags[r.Intn(len(attrLeafTags))]
	// text and decimal are what agents really put in these maps: bias towards them
	switch r.Intn(6) {
	case 0, 1:
		t = refcodec.TText
	case 2:
		t = refcodec.TDecimal
	}
	v := V{Tag: t}
	switch t {
	case refcodec.TBool:
		v.I = int64(r.Intn(2))
	case refcodec.TDecimal, refcodec.TLong:
		v.I = r.I64()
	case refcodec.TInt, refcodec.TTextHash:
		v.I = int64(r.I32())
	case refcodec.TFloat:
		v.F32 = r.F32()
	case refcodec.TDouble:
		v.F = r.F64()
	case refcodec.TText:
		v.S = r.Str(400)
	case refcodec.TBlob:
		v.B = r.Blob(400)
	case refcodec.TIP4:
		v.B = r.Bytes(4)
	case refcodec.TIntArray:
		for i, n := 0, r.Intn(5); i < n; i++ {
			v.Ints = append(v.Ints, r.I32())
		}
	case refcodec.TLongArray:
		for i, n := 0, r.Intn(5); i < n; i++ {
			v.Longs = append(v.Longs, r.I64())
		}
	case refcodec.TTextArray:
		for i, n := 0, r.Intn(5); i < n; i++ {
			v.Texts = append(v.Texts, r.Str(40))
		}
	case refcodec.TFloatArray:
		for i, n := 0, r.Intn(5); i < n; i++ {
			v.Floats = append(v.Floats, r.F32())
		}
	}
	return v
}

// GenAttrMap draws an ordered map value (Tag TMap) of exactly n entries with unique keys
// (the empty key included now and then); nested containers down to depth.
func GenAttrMap(r *vlib.Rand, n, depth int) V {
	m := V{Tag: refcodec.TMap, Keys: []string{}, Vals: []V{}}
	seen := map[string]bool{}
	for i := 0; i < n; i++ {
		var k string
		switch r.Intn(10) {
		case 0:
			k = r.Str(300)
		case 1:
			k = ""
		default:
			k = r.Ident()
		}
		for seen[k] {
			k += fmt.Sprintf(".%d", i)
		}
		seen[k] = true
		m.Keys = append(m.Keys, k)
		m.Vals = append(m.Vals, genAttrVal(r, depth))
	}
	return m
}

// ---- step generator -----------------------------------------------------------------------

func genStack(r *vlib.Rand) []int32 {
	var n int
	switch r.Intn(16) {
	case 0:
		return nil
	case 1:
		return []int32{}
	case 2:
		n = r.Range(200, 1500)
	case 3:
		if r.Intn(24) == 0 {
			n = []int{32766, 32767}[r.Intn(2)] // the largest count the 16-bit signed prefix can carry
		} else {
			n = r.Range(1, 3)
		}
	default:
		n = r.Range(1, 12)
	}
	s := make([]int32, n)
	for i := range s {
		if n > 100 {
			s[i] = int32(r.U32())
		} else {
			s[i] = r.I32()
		}
	}
	return s
}

func genBlob(r *vlib.Rand) []byte {
	if r.Intn(200) == 0 {
		return r.Bytes([]int{65535, 65536, 65537}[r.Intn(3)])
	}
	return r.Blob(300)
}

func genText(r *vlib.Rand) string {
	if r.Intn(200) == 0 {
		return r.AsciiN([]int{65535, 65536, 65537}[r.Intn(3)])
	}
	return r.Str(400)
}

// GenStep draws one step of type t (any of refcodec.StepRegistered / StepUnregistered).
func GenStep(r *vlib.Rand, t byte) RefStep {
	s := RefStep{Type: t, Parent: r.I32(), Index: r.I32(), StartTime: r.I32()}
	switch t {
	case refcodec.StepTMethodX:
		s.Hash, s.Elapsed, s.StartCpu, s.StartMem = r.I32(), r.I32(), r.I32(), int64(r.I32())
		s.Stack = genStack(r)
	case refcodec.StepTSqlX:
		s.Hash, s.Elapsed, s.Error = r.I32(), r.I32(), r.I64()
		s.Xtype, s.Dbc = byte(r.U64()), r.I32()
		s.P1, s.P2, s.Pcrc = genBlob(r), genBlob(r), byte(r.U64())
		s.StartCpu, s.StartMem = r.I32(), r.I64()
		s.Stack = genStack(r)
	case refcodec.StepTResultSet:
		s.Dbc, s.SqlHash, s.Elapsed, s.Fetch = r.I32(), r.I32(), r.I32(), r.I32()
	case refcodec.StepTSocket:
		if r.Bool() {
			s.IpAddr = r.Bytes(4)
		} else {
			s.IpAddr = genBlob(r)
		}
		s.Port, s.Elapsed, s.Error = r.I32(), r.I32(), r.I64()
	case refcodec.StepTHttpcX:
		s.Version = byte(r.Intn(3))
		s.Url, s.Elapsed, s.Error = r.I32(), r.I32(), r.I64()
		s.Host, s.Port, s.Status = r.I32(), r.I32(), r.I32()
		s.StartCpu, s.StartMem = r.I32(), r.I64()
		s.Stack = genStack(r)
		if s.Version == 2 || r.Bool() {
			// also set under versions 0/1, where the wire does not carry them
			s.StepId, s.Driver, s.OriginUrl, s.Param = r.I64(), genText(r), genText(r), genText(r)
		}
	case refcodec.StepTActiveStack:
		s.Seq, s.HasCallstack = r.I64(), r.Bool()
	case refcodec.StepTMessage:
		s.Hash, s.Time, s.Value, s.Desc = r.I32(), r.I32(), r.I32(), genText(r)
	case refcodec.StepTSecureMsg:
		s.Hash, s.Opt, s.Crc, s.SecValue = r.I32(), byte(r.U64()), byte(r.U64()), genBlob(r)
	case refcodec.StepTDBC:
		s.Hash, s.Elapsed, s.Error = r.I32(), r.I32(), int64(r.I32())
	case refcodec.StepTMessageX:
		s.Title, s.Desc, s.Ctr = genText(r), genText(r), r.I32()
		switch r.Intn(4) {
		case 0: // absent
		case 1:
			m := GenAttrMap(r, 0, 0)
			s.Attr = &m
		default:
			m := GenAttrMap(r, r.Range(1, 12), 2)
			s.Attr = &m
		}
	case refcodec.StepTSql3:
		s.Hash, s.Elapsed, s.Error = r.I32(), r.I32(), r.I64()
		s.Xtype, s.Updated, s.Crud, s.Dbc = byte(r.U64()), r.I32(), byte(r.U64()), r.I32()
		s.Opt = byte(r.U64())
		if r.Bool() {
			s.Opt &= 7
		}
		// all sections are populated; the flags decide what the wire carries
		s.P1, s.P2, s.Pcrc = genBlob(r), genBlob(r), byte(r.U64())
		s.StartCpu, s.Cpu, s.StartMem, s.Mem = r.I32(), r.I32(), int64(r.I32()), r.I32()
		s.Stack = genStack(r)
	default:
		panic(fmt.Sprintf("stepgen.GenStep: unknown step type %d", t))
	}
	return s
}

// GenSteps draws n steps over the stream-registered types.
func GenSteps(r *vlib.Rand, n int) []RefStep {
	out := make([]RefStep, n)
	for i := range out {
		out[i] = GenStep(r, refcodec.StepRegistered[r.Intn(len(refcodec.StepRegistered))])
	}
	return out
}

// Canon returns what a correct decoder yields for a written s: sections whose presence
// condition did not hold at write time are zero.
func Canon(s RefStep) RefStep {
	switch s.Type {
	case refcodec.StepTHttpcX:
		if s.Version != 2 {
			s.StepId, s.Driver, s.OriginUrl, s.Param = 0, "", "", ""
		}
	case refcodec.StepTSql3:
		if s.Opt&1 == 0 {
			s.P1, s.P2, s.Pcrc = nil, nil, 0
		}
		if s.Opt&2 == 0 {
			s.StartCpu, s.Cpu, s.StartMem, s.Mem = 0, 0, 0, 0
		}
		if s.Opt&4 == 0 {
			s.Stack = nil
		}
	}
	return s
}

func cpI32(v []int32) []int32 {
	if v == nil {
		return nil
	}
	return append(make([]int32, 0, len(v)), v...)
}
func cpB(v []byte) []byte {
	if v == nil {
		return nil
	}
	return append(make([]byte, 0, len(v)), v...)
}

// ToGolib builds the real golib step (slices copied: the neutral struct stays the oracle's).
func ToGolib(s RefStep) step.Step {
	switch s.Type {
	case refcodec.StepTMethodX:
		p := step.NewMethodStepX()
		p.Parent, p.Index, p.StartTime = s.Parent, s.Index, s.StartTime
		p.Hash, p.Elapsed, p.StartCpu, p.StartMem, p.Stack = s.Hash, s.Elapsed, s.StartCpu, int32(s.StartMem), cpI32(s.Stack)
		return p
	case refcodec.StepTSqlX:
		p := step.NewSqlStepX()
		p.Parent, p.Index, p.StartTime = s.Parent, s.Index, s.StartTime
		p.Hash, p.Elapsed, p.Error, p.Xtype, p.Dbc = s.Hash, s.Elapsed, s.Error, s.Xtype, s.Dbc
		p.P1, p.P2, p.Pcrc, p.StartCpu, p.StartMem, p.Stack = cpB(s.P1), cpB(s.P2), s.Pcrc, s.StartCpu, s.StartMem, cpI32(s.Stack)
		return p
	case refcodec.StepTResultSet:
		p := step.NewResultSetStep()
		p.Parent, p.Index, p.StartTime = s.Parent, s.Index, s.StartTime
		p.Dbc, p.SqlHash, p.Elapsed, p.Fetch = s.Dbc, s.SqlHash, s.Elapsed, s.Fetch
		return p
	case refcodec.StepTSocket:
		p := step.NewSocketStep()
		p.Parent, p.Index, p.StartTime = s.Parent, s.Index, s.StartTime
		p.IpAddr, p.Port, p.Elapsed, p.Error = cpB(s.IpAddr), s.Port, s.Elapsed, s.Error
		return p
	case refcodec.StepTHttpcX:
		p := step.NewHttpcStepXVersion(s.Version)
		p.Parent, p.Index, p.StartTime = s.Parent, s.Index, s.StartTime
		p.Url, p.Elapsed, p.Error, p.Host, p.Port, p.Status = s.Url, s.Elapsed, s.Error, s.Host, s.Port, s.Status
		p.StartCpu, p.StartMem, p.Stack = s.StartCpu, s.StartMem, cpI32(s.Stack)
		p.StepId, p.Driver, p.OriginUrl, p.Param = s.StepId, s.Driver, s.OriginUrl, s.Param
		return p
	case refcodec.StepTActiveStack:
		p := step.NewActiveStackStep()
		p.Parent, p.Index, p.StartTime = s.Parent, s.Index, s.StartTime
		p.Seq, p.HasCallstack = s.Seq, s.HasCallstack
		return p
	case refcodec.StepTMessage:
		p := step.NewMessageStep()
		p.Parent, p.Index, p.StartTime = s.Parent, s.Index, s.StartTime
		p.Hash, p.Time, p.Value, p.Desc = s.Hash, s.Time, s.Value, s.Desc
		return p
	case refcodec.StepTSecureMsg:
		p := step.NewSecureMsgStep()
		p.Parent, p.Index, p.StartTime = s.Parent, s.Index, s.StartTime
		p.Hash, p.Opt, p.Crc, p.Value = s.Hash, s.Opt, s.Crc, cpB(s.SecValue)
		return p
	case refcodec.StepTDBC:
		p := step.NewDBCStep()
		p.Parent, p.Index, p.StartTime = s.Parent, s.Index, s.StartTime
		p.Hash, p.Elapsed, p.Error = s.Hash, s.Elapsed, int32(s.Error)
		return p
	case refcodec.StepTMessageX:
		p := step.NewMessageStepX()
		p.Parent, p.Index, p.StartTime = s.Parent, s.Index, s.StartTime
		p.Title, p.Desc, p.Ctr = s.Title, s.Desc, s.Ctr
		if s.Attr != nil {
			p.Attr = valgen.ToGolib(*s.Attr).(*value.MapValue)
		}
		return p
	}
	panic(fmt.Sprintf("stepgen.ToGolib: unknown step type %d (SqlStep_3: use Sql3ToGolib)", s.Type))
}

// AttrFromGolib walks a *value.MapValue (nil stays nil).
func AttrFromGolib(m *value.MapValue) *V {
	if m == nil {
		return nil
	}
	v := valgen.FromGolib(m)
	return &v
}

// FromGolib walks a golib step into the neutral struct (Type 0 if it is not a step type of
// the library).
func FromGolib(x step.Step) RefStep {
	switch p := x.(type) {
	case *step.MethodStepX:
		return RefStep{Type: refcodec.StepTMethodX, Parent: p.Parent, Index: p.Index, StartTime: p.StartTime,
			Hash: p.Hash, Elapsed: p.Elapsed, StartCpu: p.StartCpu, StartMem: int64(p.StartMem), Stack: p.Stack}
	case *step.SqlStepX:
		return RefStep{Type: refcodec.StepTSqlX, Parent: p.Parent, Index: p.Index, StartTime: p.StartTime,
			Hash: p.Hash, Elapsed: p.Elapsed, Error: p.Error, Xtype: p.Xtype, Dbc: p.Dbc, P1: p.P1, P2: p.P2, Pcrc: p.Pcrc,
			StartCpu: p.StartCpu, StartMem: p.StartMem, Stack: p.Stack}
	case *step.ResultSetStep:
		return RefStep{Type: refcodec.StepTResultSet, Parent: p.Parent, Index: p.Index, StartTime: p.StartTime,
			Dbc: p.Dbc, SqlHash: p.SqlHash, Elapsed: p.Elapsed, Fetch: p.Fetch}
	case *step.SocketStep:
		return RefStep{Type: refcodec.StepTSocket, Parent: p.Parent, Index: p.Index, StartTime: p.StartTime,
			IpAddr: p.IpAddr, Port: p.Port, Elapsed: p.Elapsed, Error: p.Error}
	case *step.HttpcStepX:
		return RefStep{Type: refcodec.StepTHttpcX, Parent: p.Parent, Index: p.Index, StartTime: p.StartTime,
			Version: p.Version, Url: p.Url, Elapsed: p.Elapsed, Error: p.Error, Host: p.Host, Port: p.Port, Status: p.Status,
			StartCpu: p.StartCpu, StartMem: p.StartMem, Stack: p.Stack,
			StepId: p.StepId, Driver: p.Driver, OriginUrl: p.OriginUrl, Param: p.Param}
	case *step.ActiveStackStep:
		return RefStep{Type: refcodec.StepTActiveStack, Parent: p.Parent, Index: p.Index, StartTime: p.StartTime,
			Seq: p.Seq, HasCallstack: p.HasCallstack}
	case *step.MessageStep:
		return RefStep{Type: refcodec.StepTMessage, Parent: p.Parent, Index: p.Index, StartTime: p.StartTime,
			Hash: p.Hash, Time: p.Time, Value: p.Value, Desc: p.Desc}
	case *step.SecureMsgStep:
		return RefStep{Type: refcodec.StepTSecureMsg, Parent: p.Parent, Index: p.Index, StartTime: p.StartTime,
			Hash: p.Hash, Opt: p.Opt, Crc: p.Crc, SecValue: p.Value}
	case *step.DBCStep:
		return RefStep{Type: refcodec.StepTDBC, Parent: p.Parent, Index: p.Index, StartTime: p.StartTime,
			Hash: p.Hash, Elapsed: p.Elapsed, Error: int64(p.Error)}
	case *step.MessageStepX:
		return RefStep{Type: refcodec.StepTMessageX, Parent: p.Parent, Index: p.Index, StartTime: p.StartTime,
			Title: p.Title, Desc: p.Desc, Ctr: p.Ctr, Attr: AttrFromGolib(p.Attr)}
	}
	return RefStep{}
}

// Sql3ToGolib / Sql3FromGolib: SqlStep_3 does not implement step.Step (its IsTrue takes a
// byte), so it can never be an element of a step stream; it only has its own Write/Read.
func Sql3ToGolib(s RefStep) *step.SqlStep_3 {
	p := step.NewSqlStep_3()
	p.Parent, p.Index, p.StartTime = s.Parent, s.Index, s.StartTime
	p.Hash, p.Elapsed, p.Error, p.Xtype, p.Updated, p.Crud, p.Dbc = s.Hash, s.Elapsed, s.Error, s.Xtype, s.Updated, s.Crud, s.Dbc
	p.Opt = s.Opt
	p.P1, p.P2, p.Pcrc = cpB(s.P1), cpB(s.P2), s.Pcrc
	p.StartCpu, p.Cpu, p.StartMem, p.Mem = s.StartCpu, s.Cpu, int32(s.StartMem), s.Mem
	p.Stack = cpI32(s.Stack)
	return p
}

func Sql3FromGolib(p *step.SqlStep_3) RefStep {
	return RefStep{Type: refcodec.StepTSql3, Parent: p.Parent, Index: p.Index, StartTime: p.StartTime,
		Hash: p.Hash, Elapsed: p.Elapsed, Error: p.Error, Xtype: p.Xtype, Updated: p.Updated, Crud: p.Crud, Dbc: p.Dbc,
		Opt: p.Opt, P1: p.P1, P2: p.P2, Pcrc: p.Pcrc, StartCpu: p.StartCpu, Cpu: p.Cpu, StartMem: int64(p.StartMem), Mem: p.Mem,
		Stack: p.Stack}
}

// ---- structural comparison ---------------------------------------------------------------

// diffStruct compares two values of the same struct type field by field and returns the
// names of the differing fields: slices nil ≡ empty, floats by bits, *V by valgen.Equal
// (nil and non-nil differ: presence is part of the value).
func diffStruct(a, b interface{}) []string {
	va, vb := reflect.ValueOf(a), reflect.ValueOf(b)
	var out []string
	for i := 0; i < va.NumField(); i++ {
		fa, fb := va.Field(i), vb.Field(i)
		name := va.Type().Field(i).Name
		same := true
		switch x := fa.Interface().(type) {
		case []byte:
			same = bytes.Equal(x, fb.Interface().([]byte))
		case []int32:
			y := fb.Interface().([]int32)
			same = len(x) == len(y)
			for k := 0; same && k < len(x); k++ {
				same = x[k] == y[k]
			}
		case *V:
			y := fb.Interface().(*V)
			if (x == nil) != (y == nil) {
				same = false
			} else if x != nil {
				same, _ = valgen.Equal(*x, *y)
			}
		case float64:
			same = math.Float64bits(x) == math.Float64bits(fb.Interface().(float64))
		default:
			if fa.Kind() == reflect.Struct {
				for _, n := range diffStruct(fa.Interface(), fb.Interface()) {
					out = append(out, name+"."+n)
				}
				continue
			}
			same = fa.Interface() == fb.Interface()
		}
		if !same {
			out = append(out, name)
		}
	}
	return out
}

// Diff returns the names of the fields in which two steps differ ("Type" first if the
// types differ).
func Diff(a, b RefStep) []string { return diffStruct(a, b) }

func Equal(a, b RefStep) bool { return len(Diff(a, b)) == 0 }

// AttrDiffPath is the path of the first difference between two attribute maps ("" if equal,
// "presence" if only one is nil).
func AttrDiffPath(a, b *V) string {
	if (a == nil) != (b == nil) {
		return "presence"
	}
	if a == nil {
		return ""
	}
	_, p := valgen.Equal(*a, *b)
	return valgen.PathKind(p)
}
