package pmap
import ("testing";"time";"fmt")
func TestTmp(t *testing.T){
 t0:=time.Now(); g:=CRCGroups(); fmt.Println(len(g.Groups), g.LibraryAgrees, time.Since(t0))
 n:=map[int]int{}; for _,x:=range g.Groups{n[len(x)]++}; fmt.Println(n)
 for _,x:=range g.Groups[:5]{fmt.Printf("%q %x %x\n",x,LibHashStr(x[0]),LibHashStr(x[1]))}
 last:=g.Groups[len(g.Groups)-1]; fmt.Printf("%q\n",last); for _,s:=range last{fmt.Printf("%x ",LibHashStr(s))}
 fmt.Println()
 k:=MixedKernel(); fmt.Println("kernel",k)
 for _,d:=range k{fmt.Printf("%08x\n",uint32(d))}
 jg,dr:=JavaGroups(nil); fmt.Println(len(jg),dr, jg[3])
}
