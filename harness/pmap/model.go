package pmap

import (
	"fmt"
	"sort"
	"strconv"
	"strings"
)

// MVal is a stored value of the model (Nil: a nil object stored in an IntKeyMap).
type MVal struct {
	V   int32
	Nil bool
}

// Model is the sequential reference: a mathematical map (int32 → value) or set (of int32 or
// of strings). It knows nothing about buckets, chains or growth.
//
// Per-type return conventions pinned from the pinned tree (all effects are exact; only
// "nothing" is a class, see Match):
//
//	IntIntMap.Put        present: previous value          absent: nothing (NONE)
//	IntIntMap.Add        present: previous value          absent: the added amount (= new value)
//	IntIntMap.AddIfExist present: new value (old+amount)  absent: nothing (0), map unchanged
//	IntIntMap.Get/Remove present: the value               absent: nothing (NONE)
//	IntKeyMap.Put/Remove present: previous value          absent: nothing (nil)
//	IntSet.Put           true iff the key was added       IntSet.Remove: the key / nothing (0)
//	StringSet.Put/Unipoint: the key itself                StringSet.Remove: true iff removed
//
// int32 additions wrap (two's complement), as Go's do.
type Model struct {
	Type string
	None int32
	Max  int
	M    map[int32]MVal
	SS   map[string]struct{}
}

func NewModel(typ string, none int32) *Model {
	m := &Model{Type: typ, None: none}
	if typ == TStringSet {
		m.SS = map[string]struct{}{}
	} else {
		m.M = map[int32]MVal{}
	}
	return m
}

// Clone copies the state (O(size); the concurrent checks keep states at a handful of keys).
func (m *Model) Clone() *Model {
	c := &Model{Type: m.Type, None: m.None, Max: m.Max}
	if m.M != nil {
		c.M = make(map[int32]MVal, len(m.M))
		for k, v := range m.M {
			c.M[k] = v
		}
	}
	if m.SS != nil {
		c.SS = make(map[string]struct{}, len(m.SS))
		for k := range m.SS {
			c.SS[k] = struct{}{}
		}
	}
	return c
}

func (m *Model) Size() int {
	if m.SS != nil {
		return len(m.SS)
	}
	return len(m.M)
}

// StateKey is a canonical rendering of the state (state equality for history checkers).
func (m *Model) StateKey() string {
	e := m.entries()
	return fmt.Sprintf("%s|%d|%d|%016x%016x|%s", m.Type, m.Max, e.N, e.H1, e.H2, e.S)
}

func (m *Model) valTok(v MVal) string {
	if v.Nil {
		return "nil"
	}
	return itoa(v.V)
}

func (m *Model) keys() Result {
	if m.SS != nil {
		t := make([]string, 0, len(m.SS))
		for k := range m.SS {
			t = append(t, strconv.Quote(k))
		}
		return Canon(t)
	}
	t := make([]string, 0, len(m.M))
	for k := range m.M {
		t = append(t, itoa(k))
	}
	return Canon(t)
}

func (m *Model) values() Result {
	t := make([]string, 0, len(m.M))
	for _, v := range m.M {
		t = append(t, m.valTok(v))
	}
	return Canon(t)
}

func (m *Model) entries() Result { return Canon(m.EntryTokens()) }

// EntryTokens lists the content as tokens: "k=v" for maps, the key for sets (strings quoted).
func (m *Model) EntryTokens() []string {
	if m.SS != nil {
		t := make([]string, 0, len(m.SS))
		for k := range m.SS {
			t = append(t, strconv.Quote(k))
		}
		return t
	}
	t := make([]string, 0, len(m.M))
	for k, v := range m.M {
		if m.Type == TIntSet {
			t = append(t, itoa(k))
		} else {
			t = append(t, itoa(k)+"="+m.valTok(v))
		}
	}
	return t
}

// printed renders the entries as the ToString methods print them (fmt %d=%v of the boxed value).
func (m *Model) printed() Result {
	t := make([]string, 0, len(m.M))
	for k, v := range m.M {
		switch {
		case m.Type == TIntSet:
			t = append(t, itoa(k))
		case m.Type == TIntIntMap:
			t = append(t, itoa(k)+"="+itoa(v.V))
		case v.Nil:
			t = append(t, fmt.Sprintf("%d=%v", k, nil))
		default:
			t = append(t, fmt.Sprintf("%d=%v", k, Box(v.V)))
		}
	}
	return Canon(t)
}

func valResult(v MVal) Result {
	if v.Nil {
		return Result{Kind: RNil}
	}
	return Result{Kind: RInt, I: int64(v.V)}
}

var absent = Result{Kind: RAbsent}
var void = Result{Kind: RVoid}

// Step applies op to the model and returns the result the real structure must produce.
func (m *Model) Step(op Op) Result {
	switch m.Type {
	case TIntIntMap:
		return m.stepIntInt(op)
	case TIntKeyMap:
		return m.stepIntKey(op)
	case TIntSet:
		return m.stepIntSet(op)
	case TStringSet:
		return m.stepStringSet(op)
	}
	return Result{Kind: ROther, S: "model: unknown type " + m.Type}
}

func (m *Model) badOp(op Op) Result {
	return Result{Kind: ROther, S: "model: unknown operation " + m.Type + "." + op.Name}
}

func (m *Model) stepIntInt(op Op) Result {
	old, present := m.M[op.K]
	switch op.Name {
	case "Put":
		m.M[op.K] = MVal{V: op.V}
		if present {
			return valResult(old)
		}
		return absent
	case "Add":
		if present {
			m.M[op.K] = MVal{V: old.V + op.V}
			return valResult(old)
		}
		m.M[op.K] = MVal{V: op.V}
		return Result{Kind: RInt, I: int64(op.V)}
	case "AddIfExist":
		if present {
			m.M[op.K] = MVal{V: old.V + op.V}
			return Result{Kind: RInt, I: int64(old.V + op.V)}
		}
		return absent
	case "Get":
		if present {
			return valResult(old)
		}
		return absent
	case "ContainsKey":
		return Result{Kind: RBool, B: present}
	case "ContainsValue":
		for _, v := range m.M {
			if v.V == op.V {
				return Result{Kind: RBool, B: true}
			}
		}
		return Result{Kind: RBool, B: false}
	case "Remove":
		if present {
			delete(m.M, op.K)
			return valResult(old)
		}
		return absent
	case "Clear":
		m.M = map[int32]MVal{}
		return void
	case "Size":
		return Result{Kind: RInt, I: int64(len(m.M))}
	case "IsEmpty":
		return Result{Kind: RBool, B: len(m.M) == 0}
	case "IsFull":
		return Result{Kind: RBool, B: m.Max > 0 && m.Max <= len(m.M)}
	case "SetMax":
		m.Max = int(op.V)
		return void
	case "Keys", "KeyArray":
		return m.keys()
	case "Values", "ValueArray":
		return m.values()
	case "Entries":
		return m.entries()
	case "ToString":
		return m.printed()
	case "Sort":
		return void
	case "ToBytes":
		return Result{Kind: RAny}
	case "ToObject":
		for i, k := range op.KS {
			m.M[k] = MVal{V: op.VS[i]}
		}
		return void
	}
	return m.badOp(op)
}

func (m *Model) stepIntKey(op Op) Result {
	old, present := m.M[op.K]
	switch op.Name {
	case "Put":
		m.M[op.K] = MVal{V: op.V, Nil: op.Nil}
		if op.Nil {
			m.M[op.K] = MVal{Nil: true}
		}
		if present {
			return valResult(old)
		}
		return absent
	case "Get":
		if present {
			return valResult(old)
		}
		return absent
	case "ContainsKey":
		return Result{Kind: RBool, B: present}
	case "ContainsValue":
		for _, v := range m.M {
			if !v.Nil && v.V == op.V {
				return Result{Kind: RBool, B: true}
			}
		}
		return Result{Kind: RBool, B: false}
	case "Remove":
		if present {
			delete(m.M, op.K)
			return valResult(old)
		}
		return absent
	case "Clear":
		m.M = map[int32]MVal{}
		return void
	case "Size":
		return Result{Kind: RInt, I: int64(len(m.M))}
	case "Keys", "KeyArray":
		return m.keys()
	case "Values":
		return m.values()
	case "Entries":
		return m.entries()
	case "ToString", "ToFormatString":
		return m.printed()
	case "PutAll":
		if op.Nil || op.Self {
			return void
		}
		other := map[int32]int32{}
		for i, k := range op.KS {
			other[k] = op.VS[i]
		}
		for k, v := range other {
			m.M[k] = MVal{V: v}
		}
		return void
	}
	return m.badOp(op)
}

func (m *Model) stepIntSet(op Op) Result {
	_, present := m.M[op.K]
	switch op.Name {
	case "Put":
		m.M[op.K] = MVal{}
		return Result{Kind: RBool, B: !present}
	case "PutAll":
		if !op.Nil {
			for _, k := range op.KS {
				m.M[k] = MVal{}
			}
		}
		return void
	case "Contains":
		return Result{Kind: RBool, B: present}
	case "Remove":
		if present {
			delete(m.M, op.K)
			return Result{Kind: RInt, I: int64(op.K)}
		}
		return absent
	case "Clear":
		m.M = map[int32]MVal{}
		return void
	case "Size":
		return Result{Kind: RInt, I: int64(len(m.M))}
	case "Values":
		return m.keys()
	case "ToString":
		return m.printed()
	}
	return m.badOp(op)
}

func (m *Model) stepStringSet(op Op) Result {
	_, present := m.SS[op.S]
	switch op.Name {
	case "Put", "Unipoint":
		m.SS[op.S] = struct{}{}
		return Result{Kind: RStr, S: op.S}
	case "Contains", "HasKey":
		return Result{Kind: RBool, B: present}
	case "Remove":
		delete(m.SS, op.S)
		return Result{Kind: RBool, B: present}
	case "Clear":
		m.SS = map[string]struct{}{}
		return void
	case "Size":
		return Result{Kind: RInt, I: int64(len(m.SS))}
	case "Keys":
		return m.keys()
	}
	return m.badOp(op)
}

// SortedIntKeys lists the int keys in increasing order (for deterministic sweeps).
func (m *Model) SortedIntKeys() []int32 {
	k := make([]int32, 0, len(m.M))
	for x := range m.M {
		k = append(k, x)
	}
	sort.Slice(k, func(i, j int) bool { return k[i] < k[j] })
	return k
}

// SortedStrKeys lists the string keys in increasing order.
func (m *Model) SortedStrKeys() []string {
	k := make([]string, 0, len(m.SS))
	for x := range m.SS {
		k = append(k, x)
	}
	sort.Strings(k)
	return k
}

// Describe is a short rendering for replay files.
func (m *Model) Describe() string {
	t := m.EntryTokens()
	sort.Strings(t)
	n := len(t)
	if len(t) > 200 {
		t = append(t[:200:200], "…")
	}
	return fmt.Sprintf("%s size=%d {%s}", m.Type, n, strings.Join(t, ", "))
}
