package pmap

// Equal-hash key groups: DISTINCT keys whose FULL hash value (not merely the bucket index)
// coincides. A structure that tells two such keys apart only by comparing the keys themselves
// behaves correctly; one that trusts the (stored) hash does not, and no randomly drawn key
// ever shows the difference: a 32-bit collision has to be searched for.
//
// Everything here is computed independently of golib (hash/crc32 of the standard library is
// the reference for hash.HashStr, Java's String.hashCode is restated, the bit mix of
// IntKeyMap.hash is restated) and then VERIFIED against the library's own function by the
// caller-supplied verify function; if the library disagrees with the reference the search is
// repeated with the library's function and the fact is recorded in Source.

import (
	"hash/crc32"
	"sort"
	"sync"

	"github.com/whatap/golib/util/hash"
)

// StrGroups is a set of equal-hash string groups.
type StrGroups struct {
	Groups [][]string // every group: >= 2 distinct strings with one hash value
	Source string     // how they were found
	// LibraryAgrees: the library's hash function gives one value per group as well (when it
	// does not, Groups were searched with the library's function instead of the reference).
	LibraryAgrees bool
}

func splitmix(x uint64) uint64 { return mix64(x) }

// candidate i of the birthday search: a lower-case word of 4..10 letters.
func wordCandidate(i uint64) string {
	x := splitmix(i*2 + 1)
	n := 4 + int(x%7)
	x = splitmix(x)
	b := make([]byte, n)
	for j := 0; j < n; j++ {
		if j == 6 {
			x = splitmix(x ^ i)
		}
		b[j] = 'a' + byte(x%26)
		x /= 26
	}
	return string(b)
}

// candidate i of the fixed-length search: 8 arbitrary bytes (so that XOR differences of
// colliding pairs can be combined, see xorGroups).
func blockCandidate(i uint64) string {
	x := splitmix(i ^ 0xb10cb10c)
	b := make([]byte, 8)
	for j := range b {
		b[j] = byte(x >> (8 * uint(j)))
	}
	return string(b)
}

// BirthdayPairs searches n generated candidates for pairs of distinct strings with equal
// h value (sort by hash, compare neighbours).
func BirthdayPairs(h func(string) uint32, n int, gen func(i uint64) string) [][2]string {
	keys := make([]uint64, n)
	for i := 0; i < n; i++ {
		keys[i] = uint64(h(gen(uint64(i))))<<32 | uint64(i)
	}
	sort.Slice(keys, func(a, b int) bool { return keys[a] < keys[b] })
	var out [][2]string
	for i := 1; i < n; i++ {
		if keys[i]>>32 != keys[i-1]>>32 {
			continue
		}
		a, b := gen(keys[i-1]&0xffffffff), gen(keys[i]&0xffffffff)
		if a != b {
			out = append(out, [2]string{a, b})
		}
	}
	return out
}

func xorStr(a, b string) string {
	o := make([]byte, len(a))
	for i := range o {
		o[i] = a[i] ^ b[i]
	}
	return string(o)
}

// xorGroups: CRC-32 is affine over GF(2) on strings of one length, so for equal-length pairs
// (a1,b1), (a2,b2), … with equal CRC the differences d_i = a_i^b_i can be applied to any string
// x of that length without changing its CRC: {x, x^d1, x^d2, x^d1^d2, …} is an equal-hash
// group of 4 (8 with three differences). The result is verified by the caller like every
// other group, so nothing depends on this argument being right.
func xorGroups(pairs [][2]string) [][]string {
	var out [][]string
	for i := 0; i+1 < len(pairs); i += 2 {
		a1, b1 := pairs[i][0], pairs[i][1]
		d2 := xorStr(pairs[i+1][0], pairs[i+1][1])
		g := []string{a1, b1, xorStr(a1, d2), xorStr(b1, d2)}
		if i+2 < len(pairs) && i%4 == 0 {
			d3 := xorStr(pairs[i+2][0], pairs[i+2][1])
			g = append(g, xorStr(a1, d3)) // a group of 5
		}
		out = append(out, g)
	}
	return out
}

func distinctStrings(g []string) bool {
	seen := map[string]bool{}
	for _, s := range g {
		if seen[s] {
			return false
		}
		seen[s] = true
	}
	return true
}

func oneValue(h func(string) uint32, g []string) bool {
	for _, s := range g[1:] {
		if h(s) != h(g[0]) {
			return false
		}
	}
	return true
}

func searchStrGroups(h func(string) uint32) [][]string {
	var groups [][]string
	for _, p := range BirthdayPairs(h, 1<<20, wordCandidate) {
		groups = append(groups, []string{p[0], p[1]})
	}
	blocks := BirthdayPairs(h, 1<<19, blockCandidate)
	for _, p := range blocks {
		groups = append(groups, []string{p[0], p[1]})
	}
	for _, g := range xorGroups(blocks) {
		if distinctStrings(g) && oneValue(h, g) {
			groups = append(groups, g)
		}
	}
	return groups
}

// LibHashStr is the library's string hash as an unsigned 32-bit value.
func LibHashStr(s string) uint32 { return uint32(hash.HashStr(s)) }

// RefHashStr is the reference: CRC-32 (IEEE) of the standard library.
func RefHashStr(s string) uint32 { return crc32.ChecksumIEEE([]byte(s)) }

var (
	crcOnce   sync.Once
	crcGroups *StrGroups
)

// CRCGroups returns (computed once per process, the same in every process) the equal-hash
// groups for the string-keyed structures that hash with hash.HashStr: pairs of lower-case
// words, pairs of 8-byte blocks and groups of 4 and 5 blocks.
func CRCGroups() *StrGroups {
	crcOnce.Do(func() {
		g := &StrGroups{Source: "birthday search with hash/crc32.ChecksumIEEE over 2^20 lower-case words and 2^19 8-byte blocks, verified with hash.HashStr", LibraryAgrees: true}
		g.Groups = searchStrGroups(RefHashStr)
		for _, grp := range g.Groups {
			if !oneValue(LibHashStr, grp) {
				g.LibraryAgrees = false
				break
			}
		}
		if !g.LibraryAgrees || len(g.Groups) == 0 {
			g.LibraryAgrees = false
			g.Source = "hash.HashStr does not agree with CRC-32 IEEE on the reference groups: birthday search with hash.HashStr itself"
			g.Groups = searchStrGroups(LibHashStr)
		}
		crcGroups = g
	})
	return crcGroups
}

// JavaHashCode restates Java's String.hashCode over the bytes, in Go ints (as the port does).
func JavaHashCode(s string) int {
	h := 0
	for i := 0; i < len(s); i++ {
		h = 31*h + int(s[i])
	}
	return h
}

// JavaGroups builds equal-hashCode groups: "Aa", "BB" and "C#" have the same hashCode (2112)
// and the same length, so every string made of k such blocks between a common prefix and
// suffix has the same hashCode. verify (the library's function, may be nil) is applied to
// every group; groups that do not collide under it are dropped and counted in dropped.
func JavaGroups(verify func(string) int) (groups [][]string, dropped int) {
	blocks := []string{"Aa", "BB", "C#"}
	fix := [][2]string{{"", ""}, {"k", ""}, {"", "7"}, {"user-", "-id"}, {"\xff", "\x00"}, {"한", ""}, {"j", "0"}, {"", "zzzzzzzzzzzz"}}
	add := func(g []string) {
		ok := distinctStrings(g)
		for _, s := range g[1:] {
			if JavaHashCode(s) != JavaHashCode(g[0]) || (verify != nil && verify(s) != verify(g[0])) {
				ok = false
			}
		}
		if ok {
			groups = append(groups, g)
		} else {
			dropped++
		}
	}
	for _, f := range fix {
		add([]string{f[0] + "Aa" + f[1], f[0] + "BB" + f[1]})
		add([]string{f[0] + "Aa" + f[1], f[0] + "BB" + f[1], f[0] + "C#" + f[1]})
		var four, five []string
		for _, x := range blocks[:2] {
			for _, y := range blocks[:2] {
				four = append(four, f[0]+x+y+f[1])
			}
		}
		five = append(append(five, four...), f[0]+"C#Aa"+f[1])
		add(four)
		add(five)
	}
	return
}

// HashIntMixed restates IntKeyMap.hash: the sign-extended key xor-mixed with four of its own
// right shifts, the low 31 bits kept.
func HashIntMixed(key int32) uint32 {
	h := uint64(int64(key))
	r := h ^ (h >> 20) ^ (h >> 12)
	r = r ^ (h >> 7) ^ (h >> 4)
	return uint32(r & 0x7fffffff)
}

var (
	kernOnce sync.Once
	kernel   []int32
)

// MixedKernel returns non-zero differences d with HashIntMixed(k^d) == HashIntMixed(k) for
// every key k. The mix is linear over GF(2) in the 32 key bits (sign extension included) and
// keeps 31 bits, so such differences exist; they are found by elimination over the images of
// the 32 unit keys and checked on sample keys (an empty result means the restated mix is not
// linear after all — the callers then simply have no equal-hash int keys).
func MixedKernel() []int32 {
	kernOnce.Do(func() {
		if HashIntMixed(0) != 0 {
			return
		}
		// rows: (image, combination of unit vectors that produced it)
		type row struct {
			img  uint32
			comb uint32
		}
		var basis []row
		var kern []uint32
		for i := 0; i < 32; i++ {
			cur := row{HashIntMixed(int32(uint32(1) << uint(i))), uint32(1) << uint(i)}
			for _, b := range basis {
				if top := highBit(b.img); cur.img&top != 0 {
					cur.img ^= b.img
					cur.comb ^= b.comb
				}
			}
			if cur.img == 0 {
				kern = append(kern, cur.comb)
				continue
			}
			basis = append(basis, cur)
			sort.Slice(basis, func(a, b int) bool { return basis[a].img > basis[b].img })
		}
		for _, d := range kern {
			ok := d != 0
			x := uint64(12345)
			for t := 0; t < 2000 && ok; t++ {
				x = splitmix(x)
				k := int32(uint32(x))
				if HashIntMixed(k^int32(d)) != HashIntMixed(k) {
					ok = false
				}
			}
			if ok {
				kernel = append(kernel, int32(d))
			}
		}
	})
	return kernel
}

func highBit(x uint32) uint32 {
	var b uint32 = 1 << 31
	for b != 0 && x&b == 0 {
		b >>= 1
	}
	return b
}
