// Package pmap holds what the checks of the PLAIN (unordered) hash maps and sets of
// golib/util/hmap share: type descriptors with their constructors, a uniform Apply that
// performs one public operation by name and returns a normalised comparable Result, a
// sequential reference Model (mathematical map / set) stepping the same Op/Result types, and
// a structural invariant walker over the private fields (walk.go).
//
// Used by cmd/wC12 (sequential model check) and meant to be reused by the concurrent checks
// (C10): Apply is safe to call from several goroutines on one Inst (it adds no shared state
// of its own), Model.Clone is cheap for the small states of short histories, and
// Model.Step + Match form a porcupine step function:
//
//	func step(st, in, out interface{}) (bool, interface{}) {
//	    m := st.(*pmap.Model).Clone()
//	    want := m.Step(in.(pmap.Op))
//	    return pmap.Match(want, out.(pmap.Result), m.None), m
//	}
//
// with Model.StateKey() as the state equality.
package pmap

import (
	"fmt"
	"runtime"
	"runtime/debug"
	"sort"
	"strconv"
	"strings"
	"sync/atomic"
	"time"

	"github.com/whatap/golib/io"
	"github.com/whatap/golib/util/hmap"
)

// Type names.
const (
	TIntIntMap = "IntIntMap"
	TIntKeyMap = "IntKeyMap"
	TIntSet    = "IntSet"
	TStringSet = "StringSet"
)

// Op is one public operation with generic arguments. Which fields are used depends on
// the operation: K/V for int keys and values, S for the string key of StringSet, KS/VS for
// bulk arguments (PutAll; the pairs carried by ToObject), Bytes for ToObject.
type Op struct {
	Name  string  `json:"op"`
	K     int32   `json:"k,omitempty"`
	V     int32   `json:"v,omitempty"`
	S     string  `json:"s,omitempty"`
	KS    []int32 `json:"ks,omitempty"`
	VS    []int32 `json:"vs,omitempty"`
	Nil   bool    `json:"nil,omitempty"`  // PutAll(nil) / Put(key, nil) for IntKeyMap
	Self  bool    `json:"self,omitempty"` // IntKeyMap.PutAll(itself)
	Bytes []byte  `json:"bytes,omitempty"`
	Str   bool    `json:"str,omitempty"` // the key is the string S (StringSet), even when S == ""
	// Src: a LIVE instance used as the PutAll argument (multi-instance histories: both maps go on
	// being used and checked afterwards); KS/VS then list its content for the model. SrcTag names
	// it in traces. A replay rebuilds the source from KS/VS.
	Src    interface{} `json:"-"`
	SrcTag string      `json:"src,omitempty"`
}

func (o Op) String() string {
	switch o.Name {
	case "Put", "Add", "AddIfExist":
		if o.Str {
			return fmt.Sprintf("%s(%q)", o.Name, o.S)
		}
		if o.Nil {
			return fmt.Sprintf("%s(%d,nil)", o.Name, o.K)
		}
		return fmt.Sprintf("%s(%d,%d)", o.Name, o.K, o.V)
	case "PutAll":
		if o.Nil {
			return "PutAll(nil)"
		}
		if o.Self {
			return "PutAll(self)"
		}
		if o.SrcTag != "" {
			return fmt.Sprintf("PutAll(live instance %s holding %v,%v)", o.SrcTag, o.KS, o.VS)
		}
		return fmt.Sprintf("PutAll(%v,%v)", o.KS, o.VS)
	case "ToObject":
		return fmt.Sprintf("ToObject(%d bytes)", len(o.Bytes))
	case "Keys", "Values", "Entries", "Sort", "SetMax", "ContainsValue":
		return fmt.Sprintf("%s(%d)", o.Name, o.V)
	case "Unipoint", "HasKey":
		return fmt.Sprintf("%s(%q)", o.Name, o.S)
	case "Get", "ContainsKey", "Contains", "Remove":
		if o.Str {
			return fmt.Sprintf("%s(%q)", o.Name, o.S)
		}
		return fmt.Sprintf("%s(%d)", o.Name, o.K)
	}
	return o.Name + "()"
}

// StrOp builds a StringSet operation on key s.
func StrOp(name, s string) Op { return Op{Name: name, S: s, Str: true} }

// Result kinds.
const (
	RVoid     = "void"
	RInt      = "int"      // I
	RBool     = "bool"     // B
	RStr      = "str"      // S
	RNil      = "nil"      // a nil object
	RMultiset = "multiset" // N elements, S = canonical sorted rendering
	RBytes    = "bytes"    // S = the bytes
	ROther    = "other"    // S = %T:%v of something unexpected
	RPanic    = "panic"    // S = panic text
	RDeadlock = "deadlock" // the call never returned (see Guard)
	RAbsent   = "absent"   // MODEL ONLY: "nothing" — matches nil, "", 0, NONE, false
	RAny      = "any"      // MODEL ONLY: any normal return (checked elsewhere)
)

// Result is the normalised, comparable outcome of one operation.
type Result struct {
	Kind string `json:"kind"`
	I    int64  `json:"i,omitempty"`
	B    bool   `json:"b,omitempty"`
	S    string `json:"s,omitempty"`
	N    int    `json:"n,omitempty"`
	// multisets: a 128-bit order-independent, multiplicity-sensitive fingerprint of the
	// tokens; S additionally holds the sorted rendering when N <= RenderMax.
	H1 uint64 `json:"h1,omitempty"`
	H2 uint64 `json:"h2,omitempty"`
}

// RenderMax: multisets up to this size are also rendered in S (diagnostics); larger ones
// are compared by count and fingerprint, and Diff re-enumerates to explain a mismatch.
const RenderMax = 48

func (r Result) String() string {
	switch r.Kind {
	case RInt:
		return strconv.FormatInt(r.I, 10)
	case RBool:
		return strconv.FormatBool(r.B)
	case RStr:
		return strconv.Quote(r.S)
	case RMultiset:
		s := r.S
		if len(s) > 300 {
			s = s[:300] + "…"
		}
		if r.N > RenderMax {
			return fmt.Sprintf("multiset[%d]#%016x%016x", r.N, r.H1, r.H2)
		}
		return fmt.Sprintf("multiset[%d]{%s}", r.N, s)
	case RBytes:
		return fmt.Sprintf("bytes[%d]", len(r.S))
	case RPanic, ROther, RDeadlock:
		return r.Kind + ":" + r.S
	}
	return r.Kind
}

// Match tells whether the actual result agrees with the model's. none is the NONE sentinel
// of the instance (IntIntMap.NONE; 0 elsewhere). The library's types do not agree on what
// "nothing" looks like, so an expected RAbsent accepts nil, "", 0, NONE and false; every
// present value, boolean, size and multiset must be exact.
func Match(want, got Result, none int32) bool {
	if got.Kind == RPanic || got.Kind == RDeadlock {
		return false
	}
	switch want.Kind {
	case RAny:
		return true
	case RAbsent:
		switch got.Kind {
		case RNil:
			return true
		case RInt:
			return got.I == 0 || got.I == int64(none)
		case RStr:
			return got.S == ""
		case RBool:
			return !got.B
		}
		return false
	}
	return want == got
}

// Boxed is one of the dynamic types stored in IntKeyMap values.
type Boxed struct{ V int32 }

func mod3(v int32) int32 { return ((v % 3) + 3) % 3 }

// Box turns the generic int value into an object for the object-valued map; the dynamic
// type varies with the value (string, int32, comparable struct).
func Box(v int32) interface{} {
	switch mod3(v) {
	case 0:
		return "s" + strconv.Itoa(int(v))
	case 1:
		return v
	}
	return Boxed{v}
}

// Unbox is the inverse of Box.
func Unbox(x interface{}) (int32, bool) {
	switch t := x.(type) {
	case string:
		if strings.HasPrefix(t, "s") {
			if n, err := strconv.Atoi(t[1:]); err == nil && mod3(int32(n)) == 0 {
				return int32(n), true
			}
		}
	case int32:
		if mod3(t) == 1 {
			return t, true
		}
	case Boxed:
		if mod3(t.V) == 2 {
			return t.V, true
		}
	}
	return 0, false
}

func objResult(x interface{}) Result {
	if x == nil {
		return Result{Kind: RNil}
	}
	if v, ok := Unbox(x); ok {
		return Result{Kind: RInt, I: int64(v)}
	}
	return Result{Kind: ROther, S: fmt.Sprintf("%T:%v", x, x)}
}

// Tokens used in multisets: keys "k", values "v", entries "k=v"; nil object values "nil";
// string keys quoted.
func tokVal(x interface{}) string {
	if x == nil {
		return "nil"
	}
	if v, ok := Unbox(x); ok {
		return strconv.Itoa(int(v))
	}
	return fmt.Sprintf("?%T:%v", x, x)
}

func mix64(x uint64) uint64 {
	x += 0x9e3779b97f4a7c15
	x = (x ^ (x >> 30)) * 0xbf58476d1ce4e5b9
	x = (x ^ (x >> 27)) * 0x94d049bb133111eb
	return x ^ (x >> 31)
}

// Canon turns a multiset of tokens into its canonical comparable form.
func Canon(tokens []string) Result {
	r := Result{Kind: RMultiset, N: len(tokens)}
	for _, t := range tokens {
		h := uint64(14695981039346656037)
		for i := 0; i < len(t); i++ {
			h ^= uint64(t[i])
			h *= 1099511628211
		}
		a := mix64(h)
		r.H1 += a
		r.H2 += mix64(a ^ 0x5bd1e9955bd1e995)
	}
	if len(tokens) <= RenderMax {
		t := append([]string(nil), tokens...)
		sort.Strings(t)
		r.S = strings.Join(t, ",")
	}
	return r
}

// DiffTokens explains the difference of two multisets: tokens (with multiplicity) that are
// only in want ("missing") or only in got ("extra"), at most 20 of each.
func DiffTokens(want, got []string) (missing, extra []string) {
	cnt := map[string]int{}
	for _, t := range want {
		cnt[t]++
	}
	for _, t := range got {
		cnt[t]--
	}
	keys := make([]string, 0, len(cnt))
	for k, n := range cnt {
		if n != 0 {
			keys = append(keys, k)
		}
	}
	sort.Strings(keys)
	for _, k := range keys {
		n := cnt[k]
		for ; n > 0 && len(missing) < 20; n-- {
			missing = append(missing, k)
		}
		for ; n < 0 && len(extra) < 20; n++ {
			extra = append(extra, k)
		}
	}
	return
}

// Descriptor describes one type under test.
type Descriptor struct {
	Name      string
	IsSet     bool
	StringKey bool
	// Capacities / load factors accepted by the public constructor (nil: default constructor only).
	CtorCaps []int
	CtorLFs  []float32
	// PointOps: single-key operations performed inside one critical section (the ones a
	// concurrent check may mix); WholeOps: whole-structure methods.
	PointOps []string
	WholeOps []string
	// New constructs an instance; capacity 0 selects the default constructor.
	New func(capacity int, lf float32) *Inst
}

// Inst is one instance under test.
type Inst struct {
	Type string
	Obj  interface{}
	Cap  int // 0: default constructor (101 / 0.75)
	LF   float32
	None int32 // IntIntMap.NONE
	Dead bool  // abandoned (a call on it never returned)
}

// ZeroCap asks New for the public constructor with capacity 0 (IntKeyMap accepts it and turns it
// into a table of one bucket; 0 itself selects the default constructor here).
const ZeroCap = -7

var (
	StdCaps = []int{1, 2, 3, 7, 101}
	StdLFs  = []float32{0.5, 0.75, 1, 2}
)

var Types = []*Descriptor{
	{
		Name: TIntIntMap, CtorCaps: StdCaps, CtorLFs: StdLFs,
		PointOps: []string{"Put", "Add", "AddIfExist", "Get", "ContainsKey", "Remove", "Clear", "Size", "IsEmpty"},
		WholeOps: []string{"ContainsValue", "Keys", "Values", "Entries", "KeyArray", "ValueArray", "ToString", "Sort", "ToBytes", "ToObject", "SetMax", "IsFull"},
		New: func(capacity int, lf float32) *Inst {
			in := &Inst{Type: TIntIntMap, Cap: capacity, LF: lf}
			if capacity == 0 {
				in.Obj = hmap.NewIntIntMapDefault()
			} else {
				in.Obj = hmap.NewIntIntMap(capacity, lf)
			}
			return in
		},
	},
	{
		Name: TIntKeyMap, CtorCaps: StdCaps, CtorLFs: StdLFs,
		PointOps: []string{"Put", "Get", "ContainsKey", "Remove", "Clear", "Size"},
		WholeOps: []string{"ContainsValue", "Keys", "Values", "Entries", "KeyArray", "ToString", "ToFormatString", "PutAll"},
		New: func(capacity int, lf float32) *Inst {
			in := &Inst{Type: TIntKeyMap, Cap: capacity, LF: lf}
			if capacity == 0 {
				in.Obj = hmap.NewIntKeyMapDefault()
			} else if capacity == ZeroCap {
				in.Obj = hmap.NewIntKeyMap(0, lf)
			} else {
				in.Obj = hmap.NewIntKeyMap(capacity, lf)
			}
			return in
		},
	},
	{
		Name: TIntSet, IsSet: true,
		PointOps: []string{"Put", "Contains", "Remove", "Clear", "Size"},
		WholeOps: []string{"PutAll", "Values", "ToString"},
		New: func(capacity int, lf float32) *Inst {
			return &Inst{Type: TIntSet, Obj: hmap.NewIntSet()}
		},
	},
	{
		Name: TStringSet, IsSet: true, StringKey: true,
		PointOps: []string{"Put", "Unipoint", "Contains", "HasKey", "Remove", "Clear", "Size"},
		WholeOps: []string{"Keys"},
		New: func(capacity int, lf float32) *Inst {
			return &Inst{Type: TStringSet, Obj: hmap.NewStringSet()}
		},
	},
}

func ByName(name string) *Descriptor {
	for _, d := range Types {
		if d.Name == name {
			return d
		}
	}
	return nil
}

// SetNone sets the public NONE sentinel of an IntIntMap instance.
func (in *Inst) SetNone(none int32) {
	if m, ok := in.Obj.(*hmap.IntIntMap); ok {
		m.NONE = none
		in.None = none
	}
}

// Size calls the public Size().
func (in *Inst) Size() int {
	switch m := in.Obj.(type) {
	case *hmap.IntIntMap:
		return m.Size()
	case *hmap.IntKeyMap:
		return m.Size()
	case *hmap.IntSet:
		return m.Size()
	case *hmap.StringSet:
		return m.Size()
	}
	return -1
}

// enumCap bounds an enumeration so that a cyclic chain cannot run for ever.
func enumCap(size int) int { return 2*size + 64 }

// BetweenNext, when set, is called after every element an enumeration hands out (before the
// next one is asked for). Single-goroutine workers use it to interleave NON-modifying calls on
// the same structure with an enumeration in progress; it must be nil whenever goroutines share
// this package.
var BetweenNext func()

const tokMore = "<more-after-size>"
const tokUnbounded = "<unbounded>"

// enumerate drives an enumerator. mode 0/1: HasMoreElements()/next until false;
// mode 2: next Size() times without asking (as KeyArray does), then HasMoreElements() must
// be false.
func enumerate(mode int32, size int, has func() bool, next func() string) Result {
	toks := make([]string, 0, size)
	if BetweenNext != nil {
		inner := next
		next = func() string {
			t := inner()
			if f := BetweenNext; f != nil {
				f()
			}
			return t
		}
	}
	if mode == 2 {
		for i := 0; i < size; i++ {
			toks = append(toks, next())
		}
		if has() {
			toks = append(toks, tokMore)
		}
		return Canon(toks)
	}
	lim := enumCap(size)
	for has() {
		if len(toks) >= lim {
			toks = append(toks, tokUnbounded)
			break
		}
		toks = append(toks, next())
	}
	return Canon(toks)
}

func itoa(v int32) string { return strconv.Itoa(int(v)) }

func intsResult(v []int32) Result {
	t := make([]string, len(v))
	for i, x := range v {
		t[i] = itoa(x)
	}
	return Canon(t)
}

// splitBraced parses "{a, b, c}" into its elements.
func splitBraced(s, open, close, sep string) ([]string, bool) {
	if !strings.HasPrefix(s, open) || !strings.HasSuffix(s, close) || len(s) < len(open)+len(close) {
		return nil, false
	}
	body := s[len(open) : len(s)-len(close)]
	if body == "" {
		return nil, true
	}
	return strings.Split(body, sep), true
}

// Apply performs op on the instance and normalises the outcome. A panic inside the
// operation is recovered into the result (Kind RPanic, S = "text @ innermost golib frame").
func Apply(in *Inst, op Op) (res Result) {
	defer func() {
		if e := recover(); e != nil {
			res = Result{Kind: RPanic, S: fmt.Sprint(e) + " @ " + golibFrame(string(debug.Stack()))}
		}
	}()
	switch m := in.Obj.(type) {
	case *hmap.IntIntMap:
		return applyIntInt(in, m, op)
	case *hmap.IntKeyMap:
		return applyIntKey(in, m, op)
	case *hmap.IntSet:
		return applyIntSet(m, op)
	case *hmap.StringSet:
		return applyStringSet(m, op)
	}
	return Result{Kind: ROther, S: "unknown instance type"}
}

func golibFrame(stack string) string {
	for _, ln := range strings.Split(stack, "\n") {
		if strings.HasPrefix(ln, "github.com/whatap/golib/") {
			if i := strings.LastIndex(ln, "("); i > 0 {
				ln = ln[:i]
			}
			return strings.TrimPrefix(ln, "github.com/whatap/golib/")
		}
	}
	return "?"
}

func unknownOp(t string, op Op) Result {
	return Result{Kind: ROther, S: "unknown operation " + t + "." + op.Name}
}

func applyIntInt(in *Inst, m *hmap.IntIntMap, op Op) Result {
	switch op.Name {
	case "Put":
		return Result{Kind: RInt, I: int64(m.Put(op.K, op.V))}
	case "Add":
		return Result{Kind: RInt, I: int64(m.Add(op.K, op.V))}
	case "AddIfExist":
		return Result{Kind: RInt, I: int64(m.AddIfExist(op.K, op.V))}
	case "Get":
		return Result{Kind: RInt, I: int64(m.Get(op.K))}
	case "ContainsKey":
		return Result{Kind: RBool, B: m.ContainsKey(op.K)}
	case "ContainsValue":
		return Result{Kind: RBool, B: m.ContainsValue(op.V)}
	case "Remove":
		return Result{Kind: RInt, I: int64(m.Remove(op.K))}
	case "Clear":
		m.Clear()
		return Result{Kind: RVoid}
	case "Size":
		return Result{Kind: RInt, I: int64(m.Size())}
	case "IsEmpty":
		return Result{Kind: RBool, B: m.IsEmpty()}
	case "IsFull":
		return Result{Kind: RBool, B: m.IsFull()}
	case "SetMax":
		if m.SetMax(int(op.V)) != m {
			return Result{Kind: ROther, S: "SetMax did not return its receiver"}
		}
		return Result{Kind: RVoid}
	case "Keys", "Values":
		var en hmap.IntEnumer
		if op.Name == "Keys" {
			en = m.Keys()
		} else {
			en = m.Values()
		}
		next := func() string { return itoa(en.NextInt()) }
		if op.V == 1 {
			if ee, ok := en.(hmap.Enumeration); ok {
				next = func() string {
					x := ee.NextElement()
					if v, ok := x.(int32); ok {
						return itoa(v)
					}
					return fmt.Sprintf("?%T:%v", x, x)
				}
			}
		}
		return enumerate(op.V, m.Size(), en.HasMoreElements, next)
	case "Entries":
		en := m.Entries()
		return enumerate(op.V, m.Size(), en.HasMoreElements, func() string {
			x := en.NextElement()
			e, ok := x.(*hmap.IntIntEntry)
			if !ok || e == nil {
				return fmt.Sprintf("?%T:%v", x, x)
			}
			if op.V == 1 {
				return e.ToString()
			}
			return itoa(e.GetKey()) + "=" + itoa(e.GetValue())
		})
	case "KeyArray":
		return intsResult(m.KeyArray())
	case "ValueArray":
		return intsResult(m.ValueArray())
	case "ToString":
		s := m.ToString()
		t, ok := splitBraced(s, "{", "}", ", ")
		if !ok {
			return Result{Kind: ROther, S: "unparsable ToString: " + s}
		}
		return Canon(t)
	case "Sort":
		if op.V&1 == 0 {
			m.Sort(func(a, b int32) bool { return a < b })
		} else {
			m.Sort(func(a, b int32) bool { return a > b })
		}
		return Result{Kind: RVoid}
	case "ToBytes":
		o := io.NewDataOutputX()
		m.ToBytes(o)
		return Result{Kind: RBytes, S: string(o.ToByteArray())}
	case "ToObject":
		if m.ToObject(io.NewDataInputX(append([]byte(nil), op.Bytes...))) != m {
			return Result{Kind: ROther, S: "ToObject did not return its receiver"}
		}
		return Result{Kind: RVoid}
	}
	return unknownOp(TIntIntMap, op)
}

func applyIntKey(in *Inst, m *hmap.IntKeyMap, op Op) Result {
	switch op.Name {
	case "Put":
		if op.Nil {
			return objResult(m.Put(op.K, nil))
		}
		return objResult(m.Put(op.K, Box(op.V)))
	case "Get":
		return objResult(m.Get(op.K))
	case "ContainsKey":
		return Result{Kind: RBool, B: m.ContainsKey(op.K)}
	case "ContainsValue":
		return Result{Kind: RBool, B: m.ContainsValue(Box(op.V))}
	case "Remove":
		return objResult(m.Remove(op.K))
	case "Clear":
		m.Clear()
		return Result{Kind: RVoid}
	case "Size":
		return Result{Kind: RInt, I: int64(m.Size())}
	case "Keys":
		en := m.Keys()
		next := func() string { return itoa(en.NextInt()) }
		if op.V == 1 {
			if ee, ok := en.(hmap.Enumeration); ok {
				next = func() string {
					x := ee.NextElement()
					if v, ok := x.(int32); ok {
						return itoa(v)
					}
					return fmt.Sprintf("?%T:%v", x, x)
				}
			}
		}
		return enumerate(op.V, m.Size(), en.HasMoreElements, next)
	case "Values":
		en := m.Values()
		return enumerate(op.V, m.Size(), en.HasMoreElements, func() string { return tokVal(en.NextElement()) })
	case "Entries":
		en := m.Entries()
		return enumerate(op.V, m.Size(), en.HasMoreElements, func() string {
			x := en.NextElement()
			e, ok := x.(*hmap.IntKeyEntry)
			if !ok || e == nil {
				return fmt.Sprintf("?%T:%v", x, x)
			}
			return itoa(e.GetKey()) + "=" + tokVal(e.GetValue())
		})
	case "KeyArray":
		return intsResult(m.KeyArray())
	case "ToString":
		s := m.ToString()
		t, ok := splitBraced(s, "{", "}", ", ")
		if !ok {
			return Result{Kind: ROther, S: "unparsable ToString: " + s}
		}
		return Canon(t)
	case "ToFormatString":
		s := m.ToFormatString()
		if s == "{\n}" {
			return Canon(nil)
		}
		t, ok := splitBraced(s, "{\n\t", "\n}", "\n\t")
		if !ok {
			return Result{Kind: ROther, S: "unparsable ToFormatString: " + s}
		}
		return Canon(t)
	case "PutAll":
		switch {
		case op.Nil:
			m.PutAll(nil)
		case op.Self:
			m.PutAll(m)
		case op.Src != nil:
			m.PutAll(op.Src.(*hmap.IntKeyMap))
		default:
			o := hmap.NewIntKeyMapDefault()
			for i, k := range op.KS {
				o.Put(k, Box(op.VS[i]))
			}
			m.PutAll(o)
		}
		return Result{Kind: RVoid}
	}
	return unknownOp(TIntKeyMap, op)
}

func applyIntSet(m *hmap.IntSet, op Op) Result {
	switch op.Name {
	case "Put":
		return Result{Kind: RBool, B: m.Put(op.K)}
	case "PutAll":
		if op.Nil {
			m.PutAll(nil)
		} else {
			// the argument is lent, not given: a window of a larger array between guard cells;
			// afterwards the caller reuses its array (every cell overwritten). The set must
			// neither have written to it nor go on looking at it.
			const guard = int32(0x5a5a5a5a)
			n := len(op.KS)
			arr := make([]int32, n+8)
			for i := range arr {
				arr[i] = guard
			}
			win := arr[4 : 4+n : 4+n]
			copy(win, op.KS)
			m.PutAll(win)
			for i, v := range arr {
				in := i >= 4 && i < 4+n
				if (in && v != op.KS[i-4]) || (!in && v != guard) {
					return Result{Kind: ROther, S: fmt.Sprintf("PutAll wrote to the caller's slice (cell %d of the lent array)", i-4)}
				}
			}
			for i := range arr {
				arr[i] = guard ^ int32(i)
			}
		}
		return Result{Kind: RVoid}
	case "Contains":
		return Result{Kind: RBool, B: m.Contains(op.K)}
	case "Remove":
		return Result{Kind: RInt, I: int64(m.Remove(op.K))}
	case "Clear":
		m.Clear()
		return Result{Kind: RVoid}
	case "Size":
		return Result{Kind: RInt, I: int64(m.Size())}
	case "Values":
		en := m.Values()
		return enumerate(op.V, m.Size(), en.HasMoreElements, func() string { return itoa(en.NextInt()) })
	case "ToString":
		s := m.ToString()
		t, ok := splitBraced(s, "{", "}", ", ")
		if !ok {
			return Result{Kind: ROther, S: "unparsable ToString: " + s}
		}
		return Canon(t)
	}
	return unknownOp(TIntSet, op)
}

func applyStringSet(m *hmap.StringSet, op Op) Result {
	switch op.Name {
	case "Put":
		return Result{Kind: RStr, S: m.Put(op.S)}
	case "Unipoint":
		return Result{Kind: RStr, S: m.Unipoint(op.S)}
	case "Contains":
		return Result{Kind: RBool, B: m.Contains(op.S)}
	case "HasKey":
		return Result{Kind: RBool, B: m.HasKey(op.S)}
	case "Remove":
		return Result{Kind: RBool, B: m.Remove(op.S)}
	case "Clear":
		m.Clear()
		return Result{Kind: RVoid}
	case "Size":
		return Result{Kind: RInt, I: int64(m.Size())}
	case "Keys":
		en := m.Keys()
		return enumerate(op.V, m.Size(), en.HasMoreElements, func() string { return strconv.Quote(en.NextString()) })
	}
	return unknownOp(TStringSet, op)
}

// ---- guarded calls -------------------------------------------------------------------

// GuardOutcome reports how a guarded call ended.
type GuardOutcome struct {
	TimedOut bool
	// ParkedInOwnLock: the goroutine dump taken at the timeout shows the calling goroutine
	// parked in sync.(*Mutex).Lock beneath a golib frame. On a private instance used by one
	// goroutine nobody else can ever release that lock: a conclusive self-deadlock.
	ParkedInOwnLock bool
	Stack           string // the parked goroutine's stack
}

// guardedCall runs fn; it first publishes its goroutine id so that the dump taken at a
// timeout is searched for THIS goroutine (earlier abandoned calls stay parked for ever and
// must not be mistaken for it).
func guardedCall(fn func(), done chan<- struct{}, gid *atomic.Value) {
	defer close(done)
	var b [48]byte
	n := runtime.Stack(b[:], false) // "goroutine 123 [running]:..."
	s := string(b[:n])
	if i := strings.Index(s, " ["); i > 0 {
		gid.Store(s[:i+2]) // "goroutine 123 ["
	}
	fn()
}

// Guard runs fn in its own goroutine and waits for it. The timeout is only a watchdog: the
// verdict "self-deadlock" comes from the goroutine dump, not from the elapsed time. fn must
// recover its own panics (Apply does).
func Guard(timeout time.Duration, fn func()) GuardOutcome {
	done := make(chan struct{})
	gid := new(atomic.Value)
	go guardedCall(fn, done, gid)
	t := time.NewTimer(timeout)
	defer t.Stop()
	select {
	case <-done:
		return GuardOutcome{}
	case <-t.C:
	}
	return dumpFor(gid)
}

// ApplyGuarded is Apply behind Guard: a call that never returns yields Kind RDeadlock
// (S = the method chain that re-locks, e.g. "IntKeyMap.Keys<-IntKeyMap.KeyArray") when the
// dump proves it is parked on the structure's own mutex, and marks the instance dead.
// inconclusive is true when the watchdog fired without that proof.
func ApplyGuarded(in *Inst, op Op, timeout time.Duration) (res Result, inconclusive bool, stack string) {
	var r Result
	out := Guard(timeout, func() { r = Apply(in, op) })
	if !out.TimedOut {
		return r, false, ""
	}
	in.Dead = true
	if !out.ParkedInOwnLock {
		return Result{Kind: RDeadlock, S: "timeout without proof"}, true, ""
	}
	chain := DeadlockChain(out.Stack)
	return Result{Kind: RDeadlock, S: strings.Join(chain, "<-")}, false, out.Stack
}

// DeadlockChain lists the hmap frames of a parked goroutine, innermost first
// ("IntKeyMap.Keys", "IntKeyMap.KeyArray").
func DeadlockChain(stack string) []string {
	var chain []string
	for _, ln := range strings.Split(stack, "\n") {
		if strings.HasPrefix(ln, "github.com/whatap/golib/util/hmap.") {
			f := strings.TrimPrefix(ln, "github.com/whatap/golib/util/hmap.")
			if i := strings.LastIndex(f, "("); i > 0 {
				f = f[:i]
			}
			f = strings.NewReplacer("(*", "", ")", "").Replace(f)
			chain = append(chain, f)
		}
	}
	return chain
}

// GuardProgress runs fn in its own goroutine, like Guard, but the watchdog only looks at the
// call when progress() has not changed for `stall` (fn bumps a counter before every call
// into the structure). A dump showing the goroutine parked on its own mutex ends the wait
// with the proof; a goroutine that is merely slow (loaded machine) is waited for, up to
// 30 stalls without any progress, after which the outcome is TimedOut without proof
// (inconclusive). One goroutine hand-off per guarded block instead of one per operation.
func GuardProgress(stall time.Duration, progress func() int64, fn func()) GuardOutcome {
	done := make(chan struct{})
	gid := new(atomic.Value)
	go guardedCall(fn, done, gid)
	tick := stall / 10
	if tick <= 0 {
		tick = time.Millisecond
	}
	t := time.NewTicker(tick)
	defer t.Stop()
	last, same, dumps := progress(), 0, 0
	for {
		select {
		case <-done:
			return GuardOutcome{}
		case <-t.C:
		}
		if p := progress(); p != last {
			last, same = p, 0
			continue
		}
		same++
		if same%10 != 0 {
			continue
		}
		out := dumpFor(gid)
		if out.ParkedInOwnLock {
			return out
		}
		dumps++
		if dumps >= 30 {
			return out
		}
	}
}

func dumpFor(gid *atomic.Value) GuardOutcome {
	out := GuardOutcome{TimedOut: true}
	id, _ := gid.Load().(string)
	buf := make([]byte, 4<<20)
	n := runtime.Stack(buf, true)
	for _, g := range strings.Split(string(buf[:n]), "\n\n") {
		if id == "" || !strings.HasPrefix(g, id) || !strings.Contains(g, "pmap.guardedCall") {
			continue
		}
		i := strings.Index(g, "sync.(*Mutex).Lock")
		if i < 0 {
			continue
		}
		if strings.Contains(g[i:], "github.com/whatap/golib/") {
			out.ParkedInOwnLock = true
			out.Stack = g
			break
		}
	}
	return out
}
