package pmap

import (
	"fmt"
	"reflect"
	"unsafe"

	"github.com/whatap/golib/util/hmap"
)

// The walker reads the private table of a plain map/set through reflect (field offsets,
// checked against mirror structs once) + unsafe (pointers stay inside the allocations they
// come from, so checkptr accepts them). It must only run while nobody modifies the structure.

type iiEntry struct {
	key   int32
	value int32
	next  *iiEntry
}
type ikEntry struct {
	Key   int32
	Value interface{}
	Next  *ikEntry
}
type isEntry struct {
	key  int32
	next *isEntry
}
type ssEntry struct {
	hash uint
	key  string
	next *ssEntry
}

type layout struct {
	table, count, threshold, loadFactor uintptr
	err                                 error
}

var layouts = map[string]*layout{}

func sameLayout(real, mirror reflect.Type, names []string) error {
	if real.Size() != mirror.Size() || real.NumField() != mirror.NumField() {
		return fmt.Errorf("%s: %d fields/%d bytes, mirror %d/%d", real.Name(), real.NumField(), real.Size(), mirror.NumField(), mirror.Size())
	}
	for i := 0; i < real.NumField(); i++ {
		a, b := real.Field(i), mirror.Field(i)
		if a.Name != names[i] || a.Offset != b.Offset || a.Type.Kind() != b.Type.Kind() || a.Type.Size() != b.Type.Size() {
			return fmt.Errorf("%s field %d: %s %s@%d, expected %s %s@%d", real.Name(), i, a.Name, a.Type, a.Offset, names[i], b.Type, b.Offset)
		}
	}
	return nil
}

func mkLayout(mapType reflect.Type, entryReal, entryMirror reflect.Type, names []string) *layout {
	l := &layout{}
	if err := sameLayout(entryReal, entryMirror, names); err != nil {
		l.err = err
		return l
	}
	get := func(name string, kind reflect.Kind) uintptr {
		f, ok := mapType.FieldByName(name)
		if !ok || f.Type.Kind() != kind {
			if l.err == nil {
				l.err = fmt.Errorf("%s: no field %s of kind %s", mapType.Name(), name, kind)
			}
			return 0
		}
		return f.Offset
	}
	l.table = get("table", reflect.Slice)
	l.count = get("count", reflect.Int)
	l.threshold = get("threshold", reflect.Int)
	l.loadFactor = get("loadFactor", reflect.Float32)
	if l.err == nil {
		f, _ := mapType.FieldByName("table")
		if f.Type.Elem().Kind() != reflect.Ptr || f.Type.Elem().Elem() != entryReal {
			l.err = fmt.Errorf("%s.table is %s", mapType.Name(), f.Type)
		}
	}
	return l
}

func init() {
	layouts[TIntIntMap] = mkLayout(reflect.TypeOf((*hmap.IntIntMap)(nil)).Elem(),
		reflect.TypeOf((*hmap.IntIntEntry)(nil)).Elem(), reflect.TypeOf(iiEntry{}), []string{"key", "value", "next"})
	layouts[TIntKeyMap] = mkLayout(reflect.TypeOf((*hmap.IntKeyMap)(nil)).Elem(),
		reflect.TypeOf((*hmap.IntKeyEntry)(nil)).Elem(), reflect.TypeOf(ikEntry{}), []string{"Key", "Value", "Next"})
	layouts[TIntSet] = mkLayout(reflect.TypeOf((*hmap.IntSet)(nil)).Elem(),
		reflect.TypeOf((*hmap.IntSetry)(nil)).Elem(), reflect.TypeOf(isEntry{}), []string{"key", "next"})
	layouts[TStringSet] = mkLayout(reflect.TypeOf((*hmap.StringSet)(nil)).Elem(),
		reflect.TypeOf((*hmap.StringSetry)(nil)).Elem(), reflect.TypeOf(ssEntry{}), []string{"hash", "key", "next"})
}

// WalkEntry is one entry found in the table.
type WalkEntry struct {
	K      int32
	S      string
	V      int32
	VNil   bool
	Bucket int
}

// Problem kinds.
const (
	PCycle     = "cycle"          // a chain reaches an entry it already contains
	PShared    = "shared-entry"   // an entry is reachable from two buckets
	PCount     = "count-mismatch" // count != number of entries
	PMisplaced = "misplaced"      // entry not in the bucket its key hashes to (per the hash read at pin time)
	PDuplicate = "duplicate-key"  // two entries carry the same key
	PHashField = "stored-hash"    // StringSetry.hash differs from the hash of its key
	PValue     = "foreign-value"  // an IntKeyMap value that was never stored
	PNoTable   = "no-table"
)

type Problem struct {
	Kind   string `json:"kind"`
	Detail string `json:"detail"`
	K      int32  `json:"k,omitempty"`
	S      string `json:"s,omitempty"`
}

// WalkReport is what the walker saw.
type WalkReport struct {
	Type       string
	TableLen   int
	Count      int
	Threshold  int
	LoadFactor float32
	// Entries in the order the enumerators are documented to produce: buckets from the last
	// to the first, each chain from its head.
	Entries  []WalkEntry
	MaxChain int
	Problems []Problem
	Err      error // layout mismatch: the walker cannot read this build
}

// Independent statements of the index computations ("hash = key, or bit-mixed key, or CRC of
// the string, modulo the bucket count").
func IndexIntIdentity(key int32, n int) int { return int(uint64(int64(key)) % uint64(n)) }

func IndexIntMixed(key int32, n int) int {
	h := uint64(int64(key))
	r := h ^ (h >> 20) ^ (h >> 12)
	r = r ^ (h >> 7) ^ (h >> 4)
	return int((r & 0x7fffffff) % uint64(n))
}

var crcTab = func() [256]uint32 {
	var t [256]uint32
	for i := 0; i < 256; i++ {
		c := uint32(i)
		for k := 0; k < 8; k++ {
			if c&1 == 1 {
				c = c>>1 ^ 0xedb88320
			} else {
				c >>= 1
			}
		}
		t[i] = c
	}
	return t
}()

// StrHash is CRC-32 (IEEE) of the string, as a sign-extended int32 converted to uint.
func StrHash(s string) uint64 {
	crc := ^uint32(0)
	for i := 0; i < len(s); i++ {
		crc = crc>>8 ^ crcTab[byte(crc)^s[i]]
	}
	return uint64(int64(int32(^crc)))
}

func IndexStr(s string, n int) int { return int(StrHash(s) % uint64(n)) }

// Index is the bucket the key of this type belongs to in a table of n buckets.
func Index(typ string, k int32, s string, n int) int {
	switch typ {
	case TIntKeyMap:
		return IndexIntMixed(k, n)
	case TStringSet:
		return IndexStr(s, n)
	}
	return IndexIntIdentity(k, n)
}

// TableLen reads only the current number of buckets (cheap; used to notice a rehash).
func TableLen(in *Inst) int {
	l := layouts[in.Type]
	if l == nil || l.err != nil {
		return -1
	}
	base := reflect.ValueOf(in.Obj).UnsafePointer()
	// every table is a slice of pointers: the header layout does not depend on the element
	return len(*(*[]unsafe.Pointer)(unsafe.Add(base, l.table)))
}

// Walk validates the structure: every entry reachable in exactly one chain, in the bucket
// its key hashes to, chains acyclic, no key twice, count == number of entries.
func Walk(in *Inst) *WalkReport {
	rep := &WalkReport{Type: in.Type}
	l := layouts[in.Type]
	if l == nil {
		rep.Err = fmt.Errorf("no layout for %s", in.Type)
		return rep
	}
	if l.err != nil {
		rep.Err = l.err
		return rep
	}
	base := reflect.ValueOf(in.Obj).UnsafePointer()
	rep.Count = *(*int)(unsafe.Add(base, l.count))
	rep.Threshold = *(*int)(unsafe.Add(base, l.threshold))
	rep.LoadFactor = *(*float32)(unsafe.Add(base, l.loadFactor))
	tabp := unsafe.Add(base, l.table)
	seen := map[unsafe.Pointer]int{}
	add := func(kind, detail string, k int32, s string) {
		if len(rep.Problems) < 20 {
			rep.Problems = append(rep.Problems, Problem{Kind: kind, Detail: detail, K: k, S: s})
		}
	}
	// visit returns false when the chain must be abandoned
	visit := func(p unsafe.Pointer, bucket int, e WalkEntry) bool {
		if b, dup := seen[p]; dup {
			if b == bucket {
				add(PCycle, fmt.Sprintf("chain of bucket %d returns to an entry it already contains (key %s)", bucket, e.keyStr(in.Type)), e.K, e.S)
			} else {
				add(PShared, fmt.Sprintf("entry with key %s is reachable from buckets %d and %d", e.keyStr(in.Type), b, bucket), e.K, e.S)
			}
			return false
		}
		seen[p] = bucket
		e.Bucket = bucket
		rep.Entries = append(rep.Entries, e)
		if want := Index(in.Type, e.K, e.S, rep.TableLen); want != bucket {
			add(PMisplaced, fmt.Sprintf("key %s sits in bucket %d of %d, hashes to %d", e.keyStr(in.Type), bucket, rep.TableLen, want), e.K, e.S)
		}
		return true
	}
	chainLen := func(n int) {
		if n > rep.MaxChain {
			rep.MaxChain = n
		}
	}
	switch in.Type {
	case TIntIntMap:
		tab := *(*[]*iiEntry)(tabp)
		rep.TableLen = len(tab)
		for i := len(tab) - 1; i >= 0; i-- {
			n := 0
			for e := tab[i]; e != nil; e = e.next {
				if !visit(unsafe.Pointer(e), i, WalkEntry{K: e.key, V: e.value}) {
					break
				}
				n++
			}
			chainLen(n)
		}
	case TIntKeyMap:
		tab := *(*[]*ikEntry)(tabp)
		rep.TableLen = len(tab)
		for i := len(tab) - 1; i >= 0; i-- {
			n := 0
			for e := tab[i]; e != nil; e = e.Next {
				we := WalkEntry{K: e.Key}
				if e.Value == nil {
					we.VNil = true
				} else if v, ok := Unbox(e.Value); ok {
					we.V = v
				} else {
					add(PValue, fmt.Sprintf("key %d holds %T:%v", e.Key, e.Value, e.Value), e.Key, "")
				}
				if !visit(unsafe.Pointer(e), i, we) {
					break
				}
				n++
			}
			chainLen(n)
		}
	case TIntSet:
		tab := *(*[]*isEntry)(tabp)
		rep.TableLen = len(tab)
		for i := len(tab) - 1; i >= 0; i-- {
			n := 0
			for e := tab[i]; e != nil; e = e.next {
				if !visit(unsafe.Pointer(e), i, WalkEntry{K: e.key}) {
					break
				}
				n++
			}
			chainLen(n)
		}
	case TStringSet:
		tab := *(*[]*ssEntry)(tabp)
		rep.TableLen = len(tab)
		for i := len(tab) - 1; i >= 0; i-- {
			n := 0
			for e := tab[i]; e != nil; e = e.next {
				if uint64(e.hash) != StrHash(e.key) {
					add(PHashField, fmt.Sprintf("entry %q stores hash %d, its key hashes to %d", e.key, e.hash, StrHash(e.key)), 0, e.key)
				}
				if !visit(unsafe.Pointer(e), i, WalkEntry{S: e.key}) {
					break
				}
				n++
			}
			chainLen(n)
		}
	}
	if rep.TableLen == 0 {
		add(PNoTable, "table has no buckets", 0, "")
	}
	if rep.Count != len(rep.Entries) {
		add(PCount, fmt.Sprintf("count=%d but %d entries are chained", rep.Count, len(rep.Entries)), 0, "")
	}
	if in.Type == TStringSet {
		ks := map[string]bool{}
		for _, e := range rep.Entries {
			if ks[e.S] {
				add(PDuplicate, fmt.Sprintf("key %q is stored twice", e.S), 0, e.S)
			}
			ks[e.S] = true
		}
	} else {
		ks := map[int32]bool{}
		for _, e := range rep.Entries {
			if ks[e.K] {
				add(PDuplicate, fmt.Sprintf("key %d is stored twice", e.K), e.K, "")
			}
			ks[e.K] = true
		}
	}
	return rep
}

func (e WalkEntry) keyStr(typ string) string {
	if typ == TStringSet {
		return fmt.Sprintf("%q", e.S)
	}
	return fmt.Sprint(e.K)
}
