package pmap

// A call that never returns WITHOUT being parked on a mutex (a busy loop) cannot be told from
// a slow call by waiting. For these structures it can be told by looking: every loop of the
// four types follows a hash chain until nil, so a call can only run for ever when a chain
// has become cyclic — and no correct mutation (insert at the head, unlink, re-bucket) makes a
// chain cyclic even for an instant. FindCycle reads the private table of an instance WHILE the
// stuck call is still running on it and reports a chain that returns to one of its own
// entries: a proof that the chain walk in progress cannot end, independent of any clock.

import (
	"fmt"
	"reflect"
	"runtime"
	"strings"
	"sync/atomic"
	"time"
	"unsafe"
)

// Cycle describes a cyclic hash chain found in the private table.
type Cycle struct {
	Bucket   int      `json:"bucket"`
	TableLen int      `json:"table_len"`
	Keys     []string `json:"keys_on_the_chain_until_it_repeats"`
}

func (c *Cycle) String() string {
	return fmt.Sprintf("bucket %d of the %d-bucket private table holds a cyclic chain (keys %s, then the first of them again)",
		c.Bucket, c.TableLen, strings.Join(c.Keys, " -> "))
}

// FindCycle looks for a cyclic chain. It is meant to be called while another goroutine may
// be (endlessly) rewriting the links of that very chain, hence no race instrumentation; it
// reads word-sized pointers only, follows at most maxSteps links per bucket and never writes.
//
//go:norace
func FindCycle(in *Inst) *Cycle {
	l := layouts[in.Type]
	if l == nil || l.err != nil {
		return nil
	}
	base := reflect.ValueOf(in.Obj).UnsafePointer()
	tabp := unsafe.Add(base, l.table)
	const maxSteps = 1 << 16
	switch in.Type {
	case TIntIntMap:
		tab := *(*[]*iiEntry)(tabp)
		for i := range tab {
			seen := map[*iiEntry]bool{}
			var keys []string
			n := 0
			for e := tab[i]; e != nil && n < maxSteps; e, n = e.next, n+1 {
				if seen[e] {
					return &Cycle{Bucket: i, TableLen: len(tab), Keys: keys}
				}
				seen[e] = true
				if len(keys) < 12 {
					keys = append(keys, fmt.Sprint(e.key))
				}
			}
		}
	case TIntKeyMap:
		tab := *(*[]*ikEntry)(tabp)
		for i := range tab {
			seen := map[*ikEntry]bool{}
			var keys []string
			n := 0
			for e := tab[i]; e != nil && n < maxSteps; e, n = e.Next, n+1 {
				if seen[e] {
					return &Cycle{Bucket: i, TableLen: len(tab), Keys: keys}
				}
				seen[e] = true
				if len(keys) < 12 {
					keys = append(keys, fmt.Sprint(e.Key))
				}
			}
		}
	case TIntSet:
		tab := *(*[]*isEntry)(tabp)
		for i := range tab {
			seen := map[*isEntry]bool{}
			var keys []string
			n := 0
			for e := tab[i]; e != nil && n < maxSteps; e, n = e.next, n+1 {
				if seen[e] {
					return &Cycle{Bucket: i, TableLen: len(tab), Keys: keys}
				}
				seen[e] = true
				if len(keys) < 12 {
					keys = append(keys, fmt.Sprint(e.key))
				}
			}
		}
	case TStringSet:
		tab := *(*[]*ssEntry)(tabp)
		for i := range tab {
			seen := map[*ssEntry]bool{}
			var keys []string
			n := 0
			for e := tab[i]; e != nil && n < maxSteps; e, n = e.next, n+1 {
				if seen[e] {
					return &Cycle{Bucket: i, TableLen: len(tab), Keys: keys}
				}
				seen[e] = true
				if len(keys) < 12 {
					keys = append(keys, fmt.Sprintf("%q", e.key))
				}
			}
		}
	}
	return nil
}

// StallReport is handed to the probe of GuardProgressProbe at every stall.
type StallReport struct {
	Stack  string // stack of the case goroutine ("" when it was not found in the dump)
	Parked bool   // parked in sync.(*Mutex).Lock beneath a golib frame
	Stalls int    // number of consecutive stalls so far (1, 2, …)
}

// RunningInGolib names the innermost golib frame of a goroutine that is NOT parked
// ("util/hmap.(*IntIntMap).rehash"), "" when there is none.
func (s StallReport) RunningInGolib() string {
	if s.Stack == "" || s.Parked {
		return ""
	}
	if f := golibFrame(s.Stack); f != "?" {
		return f
	}
	return ""
}

// GuardProgressProbe is GuardProgress with a say for the caller: whenever progress() has not
// moved for `stall`, the case goroutine's stack is taken and probe is asked. probe returning
// true ends the wait (the caller has its proof: GuardOutcome.Proven); otherwise the wait goes
// on, up to maxStalls consecutive stalls (then TimedOut without proof). A dump showing the
// goroutine parked on the structure's own mutex ends the wait as in GuardProgress.
func GuardProgressProbe(stall time.Duration, maxStalls int, progress func() int64, fn func(), probe func(StallReport) bool) GuardOutcomeP {
	done := make(chan struct{})
	gid := new(atomic.Value)
	go guardedCall(fn, done, gid)
	tick := stall / 10
	if tick <= 0 {
		tick = time.Millisecond
	}
	t := time.NewTicker(tick)
	defer t.Stop()
	last, same, stalls := progress(), 0, 0
	for {
		select {
		case <-done:
			return GuardOutcomeP{}
		case <-t.C:
		}
		if p := progress(); p != last {
			last, same, stalls = p, 0, 0
			continue
		}
		same++
		if same%10 != 0 {
			continue
		}
		stalls++
		rep := stackOf(gid)
		rep.Stalls = stalls
		out := GuardOutcomeP{GuardOutcome: GuardOutcome{TimedOut: true, ParkedInOwnLock: rep.Parked, Stack: rep.Stack}}
		if rep.Parked {
			return out
		}
		// the call may have returned while the dump was taken
		select {
		case <-done:
			return GuardOutcomeP{}
		default:
		}
		if probe != nil && progress() == last && probe(rep) {
			out.Proven = true
			return out
		}
		if stalls >= maxStalls {
			return out
		}
	}
}

// GuardOutcomeP is GuardOutcome plus the probe's verdict.
type GuardOutcomeP struct {
	GuardOutcome
	Proven bool // the probe found its proof; Stack is the (running) goroutine's stack
}

func stackOf(gid *atomic.Value) StallReport {
	id, _ := gid.Load().(string)
	buf := make([]byte, 4<<20)
	n := runtime.Stack(buf, true)
	for _, g := range strings.Split(string(buf[:n]), "\n\n") {
		if id == "" || !strings.HasPrefix(g, id) || !strings.Contains(g, "pmap.guardedCall") {
			continue
		}
		rep := StallReport{Stack: g}
		if i := strings.Index(g, "sync.(*Mutex).Lock"); i >= 0 && strings.Contains(g[i:], "github.com/whatap/golib/") {
			rep.Parked = true
		}
		return rep
	}
	return StallReport{}
}
