package refcodec

// Profile steps — independent reference encoder (property C08; corpus for C04).
//
// A profile is a concatenation of steps: one type-tag byte, the common prefix of three
// decimals (parent, index, start time) and a type-specific body. Nothing separates the steps;
// every body must therefore be self-delimiting.
//
// Layout (derived by reading lang/step/*.go, written with the refcodec primitives only):
//
//	method-x   (17) prefix, version byte 0, dec hash, dec elapsed, dec startCpu, dec startMem, int-array stack
//	sql-x      (18) prefix, version byte 0, dec hash, dec elapsed, dec error, byte xtype, dec dbc,
//	                blob p1, blob p2, byte pcrc, dec startCpu, dec startMem, int-array stack
//	result-set (3)  prefix, dec dbc, dec sqlHash, dec elapsed, dec fetch
//	socket     (5)  prefix, blob ip, dec port, dec elapsed, dec error
//	httpc-x    (19) prefix, version byte v, dec url, dec elapsed, dec error, dec host, dec port, dec status,
//	                dec startCpu, dec startMem, int-array stack,
//	                v=1: one reserved decimal 0 · v=2: dec stepId, text driver, text originUrl, text param
//	active-stack (6) prefix, int64 seq, bool hasCallstack
//	message    (7)  prefix, dec hash, dec time, dec value, text desc
//	secure-msg (15) prefix, dec hash, byte opt, byte crc, blob value
//	dbc        (8)  prefix, dec hash, dec elapsed, dec error
//
// Two step types have a Write/Read pair but are not in the stream registry (CreateStep):
//
//	message-x  (22) prefix, version byte 0, blob{ text title, text desc, int32 ctr, [tagged map value] }
//	                the attribute map is written only when it is present (non-nil)
//	sql-3           prefix, dec hash, dec elapsed, dec error, byte xtype, dec updated, byte crud, dec dbc,
//	                byte opt, opt&1: blob p1, blob p2, byte pcrc · opt&2: dec startCpu, dec cpu, dec startMem,
//	                dec mem · opt&4: int-array stack.   golib tags it 18 (the tag of sql-x) and the type does
//	                not implement the Step interface, so it cannot travel in a stream; only its body is
//	                used (StepBody).
//
// Field map entries recorded while encoding (kinds of prim.go):
//
//	KTag     "step-type"                     width 1, the tag byte of every step
//	KVersion "step-version:<TypeName>"       width 1, the version byte of method-x, sql-x, httpc-x, message-x
//	KLen     "messagestepx-body-len"         the blob prefix around the message-x body (from Blob: "blob-len…")
//	KCount   "int-array-count"               16-bit count of every stack (from IntArray)
//	KEnd     "messagestepx-without-attributes"  offset inside the message-x body blob after ctr, recorded
//	                                         when attributes follow: a body that ends there is the complete
//	                                         attribute-less form (NOTE: an offset inside the blob — cutting
//	                                         the outer stream there leaves the blob length prefix too large)
//	plus the KDecLen / KLen / KTag / KCount entries of the primitives and of Value.
//
// Nothing here imports golib.

// Step type tags. StepTSql3 is a discriminator of this model only (the constant golib reserves
// for it, 13, is not what its GetStepType returns — see StepWireTag).
const (
	StepTResultSet   byte = 3
	StepTSocket      byte = 5
	StepTActiveStack byte = 6
	StepTMessage     byte = 7
	StepTDBC         byte = 8
	StepTSql3        byte = 13
	StepTSecureMsg   byte = 15
	StepTMethodX     byte = 17
	StepTSqlX        byte = 18
	StepTHttpcX      byte = 19
	StepTMessageX    byte = 22
)

// StepRegistered lists the types the stream decoder (CreateStep / ReadStep) knows.
var StepRegistered = []byte{StepTMethodX, StepTSqlX, StepTResultSet, StepTSocket, StepTHttpcX,
	StepTActiveStack, StepTMessage, StepTSecureMsg, StepTDBC}

// StepUnregistered have their own Write/Read but cannot be decoded from a stream.
var StepUnregistered = []byte{StepTMessageX, StepTSql3}

// StepTypeName is golib's Go type name of a step type (used in finding keys).
func StepTypeName(t byte) string {
	switch t {
	case StepTResultSet:
		return "ResultSetStep"
	case StepTSocket:
		return "SocketStep"
	case StepTActiveStack:
		return "ActiveStackStep"
	case StepTMessage:
		return "MessageStep"
	case StepTDBC:
		return "DBCStep"
	case StepTSql3:
		return "SqlStep_3"
	case StepTSecureMsg:
		return "SecureMsgStep"
	case StepTMethodX:
		return "MethodStepX"
	case StepTSqlX:
		return "SqlStepX"
	case StepTHttpcX:
		return "HttpcStepX"
	case StepTMessageX:
		return "MessageStepX"
	}
	return "UnknownStep"
}

// StepWireTag is the tag byte golib writes in front of a step of this type.
func StepWireTag(t byte) byte {
	if t == StepTSql3 {
		return StepTSqlX
	}
	return t
}

// RefStep is the neutral form of one step: a union over all step types, only the fields of
// its Type are meaningful (all others stay zero). Field names follow golib's.
//
//	all            Parent Index StartTime
//	MethodStepX    Hash Elapsed StartCpu StartMem(32-bit range) Stack
//	SqlStepX       Hash Elapsed Error Xtype Dbc P1 P2 Pcrc StartCpu StartMem Stack
//	ResultSetStep  Dbc SqlHash Elapsed Fetch
//	SocketStep     IpAddr Port Elapsed Error
//	HttpcStepX     Version(0,1,2) Url Elapsed Error Host Port Status StartCpu StartMem Stack
//	               and, carried by version 2 only: StepId Driver OriginUrl Param
//	ActiveStackStep Seq HasCallstack
//	MessageStep    Hash Time Value Desc
//	SecureMsgStep  Hash Opt Crc SecValue
//	DBCStep        Hash Elapsed Error(32-bit range)
//	MessageStepX   Title Desc Ctr Attr (nil = absent; otherwise Tag TMap)
//	SqlStep_3      Hash Elapsed Error Xtype Updated Crud Dbc Opt, Opt&1: P1 P2 Pcrc,
//	               Opt&2: StartCpu Cpu StartMem Mem (32-bit range), Opt&4: Stack
//
// nil and empty slices are the same value.
type RefStep struct {
	Type                     byte
	Parent, Index, StartTime int32

	Version  byte
	Hash     int32
	Elapsed  int32
	Error    int64
	StartCpu int32
	StartMem int64
	Stack    []int32

	Xtype  byte
	Dbc    int32
	P1, P2 []byte
	Pcrc   byte

	SqlHash, Fetch int32

	IpAddr []byte
	Port   int32

	Url, Host, Status        int32
	StepId                   int64
	Driver, OriginUrl, Param string

	Seq          int64
	HasCallstack bool

	Time, Value int32
	Desc        string

	Opt, Crc byte
	SecValue []byte

	Title string
	Ctr   int32
	Attr  *V

	Updated  int32
	Crud     byte
	Cpu, Mem int32
}

// BlobOf writes inner as a blob (length prefix + bytes) and carries inner's field map over,
// relocated to the offsets of this stream.
func (w *W) BlobOf(inner *W) *W {
	w.Blob(inner.B)
	base := len(w.B) - len(inner.B)
	for _, f := range inner.Fields {
		f.Off += base
		w.Fields = append(w.Fields, f)
	}
	return w
}

// Step writes the tag byte and the body.
func (w *W) Step(s RefStep) *W {
	w.Mark(1, KTag, "step-type")
	w.U8(StepWireTag(s.Type))
	return w.StepBody(s)
}

// Steps writes the steps back to back and returns the size of each encoded step, so that
// sizes[0]+…+sizes[i] is the offset at which step i ends.
func (w *W) Steps(list []RefStep) []int {
	sizes := make([]int, len(list))
	for i := range list {
		at := len(w.B)
		w.Step(list[i])
		sizes[i] = len(w.B) - at
	}
	return sizes
}

// EncodeSteps returns the bytes of the concatenated steps and the per-step sizes.
func EncodeSteps(list []RefStep) ([]byte, []int) {
	w := NewW()
	sizes := w.Steps(list)
	return w.B, sizes
}

func (w *W) stepVersion08(t byte, v byte) {
	w.Mark(1, KVersion, "step-version:"+StepTypeName(t))
	w.U8(v)
}

// StepBody writes what <Type>.Write emits (no tag byte).
func (w *W) StepBody(s RefStep) *W {
	w.Decimal(int64(s.Parent)).Decimal(int64(s.Index)).Decimal(int64(s.StartTime))
	switch s.Type {
	case StepTMethodX:
		w.stepVersion08(s.Type, 0)
		w.Decimal(int64(s.Hash)).Decimal(int64(s.Elapsed)).Decimal(int64(s.StartCpu)).Decimal(s.StartMem)
		w.IntArray(s.Stack)
	case StepTSqlX:
		w.stepVersion08(s.Type, 0)
		w.Decimal(int64(s.Hash)).Decimal(int64(s.Elapsed)).Decimal(s.Error)
		w.U8(s.Xtype).Decimal(int64(s.Dbc))
		w.Blob(s.P1).Blob(s.P2).U8(s.Pcrc)
		w.Decimal(int64(s.StartCpu)).Decimal(s.StartMem)
		w.IntArray(s.Stack)
	case StepTResultSet:
		w.Decimal(int64(s.Dbc)).Decimal(int64(s.SqlHash)).Decimal(int64(s.Elapsed)).Decimal(int64(s.Fetch))
	case StepTSocket:
		w.Blob(s.IpAddr).Decimal(int64(s.Port)).Decimal(int64(s.Elapsed)).Decimal(s.Error)
	case StepTHttpcX:
		w.stepVersion08(s.Type, s.Version)
		w.Decimal(int64(s.Url)).Decimal(int64(s.Elapsed)).Decimal(s.Error)
		w.Decimal(int64(s.Host)).Decimal(int64(s.Port)).Decimal(int64(s.Status))
		w.Decimal(int64(s.StartCpu)).Decimal(s.StartMem)
		w.IntArray(s.Stack)
		switch s.Version {
		case 1:
			w.Decimal(0)
		case 2:
			w.Decimal(s.StepId).Text(s.Driver).Text(s.OriginUrl).Text(s.Param)
		}
	case StepTActiveStack:
		w.I64(s.Seq).Bool(s.HasCallstack)
	case StepTMessage:
		w.Decimal(int64(s.Hash)).Decimal(int64(s.Time)).Decimal(int64(s.Value)).Text(s.Desc)
	case StepTSecureMsg:
		w.Decimal(int64(s.Hash)).U8(s.Opt).U8(s.Crc).Blob(s.SecValue)
	case StepTDBC:
		w.Decimal(int64(s.Hash)).Decimal(int64(s.Elapsed)).Decimal(s.Error)
	case StepTMessageX:
		w.stepVersion08(s.Type, 0)
		in := NewW()
		in.Text(s.Title).Text(s.Desc).I32(s.Ctr)
		if s.Attr != nil {
			in.Mark(0, KEnd, "messagestepx-without-attributes")
			in.Value(*s.Attr)
		}
		w.BlobOf(in)
	case StepTSql3:
		w.Decimal(int64(s.Hash)).Decimal(int64(s.Elapsed)).Decimal(s.Error)
		w.U8(s.Xtype).Decimal(int64(s.Updated)).U8(s.Crud).Decimal(int64(s.Dbc))
		w.U8(s.Opt)
		if s.Opt&1 != 0 {
			w.Blob(s.P1).Blob(s.P2).U8(s.Pcrc)
		}
		if s.Opt&2 != 0 {
			w.Decimal(int64(s.StartCpu)).Decimal(int64(s.Cpu)).Decimal(s.StartMem).Decimal(int64(s.Mem))
		}
		if s.Opt&4 != 0 {
			w.IntArray(s.Stack)
		}
	default:
		panic("refcodec: step type without a layout: " + StepTypeName(s.Type))
	}
	return w
}

// EncodeStepBody returns the bytes of StepBody on a fresh stream.
func EncodeStepBody(s RefStep) []byte {
	w := NewW()
	w.StepBody(s)
	return w.B
}
