package refcodec

// Transaction records, service records and the packs that embed them / step streams —
// independent reference encoder (property C08; corpus for C04).
//
// Layout (derived by reading lang/service/*.go and lang/pack/{ProfilePack,ProfileStepSplitPack,
// ErrorSnapPack1,AbstractPack}.go, written with the refcodec primitives only):
//
//	tx record      version byte 10, blob{
//	                 int64 txid, dec endTime, dec service, dec elapsed, dec error, dec cpuTime, dec malloc,
//	                 dec sqlCount, dec sqlTime, dec sqlFetchCount, dec sqlFetchTime, dec httpcCount, dec httpcTime,
//	                 bool active, dec stepsDataPos, dec cipher, int32 ipAddr, dec wClientId, dec userAgent,
//	                 dec referer, dec status,
//	                 multi-trace group:  byte 1, dec mtid, dec mdepth, dec mcaller   | byte 0     (present iff mtid != 0)
//	                 caller group:       byte 6, dec pcode, dec okind, dec oid, dec spec, dec url, dec thisSpec | byte 0
//	                                                                                              (present iff pcode != 0)
//	                 byte httpMethod, dec domain,
//	                 custom fields:      byte n (0..255), n × (text key, tagged value)            (absent/empty: 0)
//	                 dec login, byte errorLevel, dec oid, dec okind, dec onode, text uuid, dec dbcTime, byte apdex,
//	                 dec mcallerStepId, text originUrl, dec stepSplitCount }
//	service record type byte (1 was, 2 app, 3 was-2), int64 seq, dec endTime, dec service, dec elapsed, dec error,
//	               dec cpuTime, dec sqlCount, dec sqlTime, dec sqlFetchCount, dec sqlFetchTime, dec malloc,
//	               dec httpcCount, dec httpcTime, bool active, dec stepsDataPos;
//	               was / was-2 add: int32 ipAddr, reserved dec 0, dec wClientId, dec userAgent, dec referer,
//	               dec status, dec mtid, dec mdepth, dec mcaller
//	pack header    okind|onode == 0: dec pcode, int32 oid, int64 time
//	               otherwise:        byte 9, dec pcode, int32 oid, int32 okind, int32 onode, int64 time
//	profile pack            int16 0x0300, header, tx record, blob steps
//	profile-step-split pack int16 0x0302, header, version byte 0, int64 txid, dec inx, blob steps
//	error-snap pack         int16 0x0801, header, int64 seq, blob profile(steps), blob stack(int-array), byte appendType,
//	                        dec appendHash
//
// Field map entries recorded while encoding:
//
//	KVersion "txrecord-version"            width 1
//	KLen     "blob-len…"                   the blob prefix around the tx record body (from Blob)
//	KTag     "txrecord-mtrace-present" "txrecord-caller-form"   width 1, the presence bytes of the optional groups
//	KCount   "txrecord-fields-count"       width 1
//	KEnd     "txrecord-end:<stage>"        offsets INSIDE the body blob at which the record of an older agent
//	                                       version ended (before login, error level, oid/okind/onode, uuid, dbc time,
//	                                       apdex, caller step id, step split count). NOTE: cutting the outer stream
//	                                       there leaves the blob length prefix too large; a complete older record
//	                                       has the shorter length in its prefix.
//	KTag     "service-type"                width 1
//	KTag     "pack-type"                   width 2
//	KVersion "pack-header-form"            width 1 (the byte 9 of the long header form)
//	KVersion "stepsplit-version"           width 1
//	plus everything Step / Value / the primitives record (relocated into blobs by BlobOf).
//
// Nothing here imports golib.

// RefTxRecord is the neutral form of a transaction record. Field names follow golib's.
// Fields is nil (absent) or a TMap value; an empty map is the same wire value as nil.
type RefTxRecord struct {
	Txid    int64
	EndTime int64
	Service int32
	Elapsed int32
	Error   int64
	CpuTime int32
	Malloc  int64

	SqlCount, SqlTime, SqlFetchCount, SqlFetchTime int32
	HttpcCount, HttpcTime                          int32

	Active       bool
	StepsDataPos int64
	Cipher       int32

	IpAddr    int32
	WClientId int64
	UserAgent int32
	Referer   int32
	Status    int32

	Mtid    int64
	Mdepth  int32
	Mcaller int64

	McallerPcode int64
	McallerOkind int32
	McallerOid   int32
	McallerSpec  int32
	McallerUrl   int32
	MthisSpec    int32

	HttpMethod byte
	Domain     int32
	Fields     *V
	Login      int32
	ErrorLevel byte

	Oid, Okind, Onode int32
	Uuid              string
	DbcTime           int32
	Apdex             byte
	McallerStepId     int64
	OriginUrl         string
	StepSplitCount    int64
}

const TxRecordVersion byte = 10

// TxRecord writes version byte + body blob.
func (w *W) TxRecord(t RefTxRecord) *W {
	w.Mark(1, KVersion, "txrecord-version")
	w.U8(TxRecordVersion)
	o := NewW()
	o.I64(t.Txid).Decimal(t.EndTime).Decimal(int64(t.Service)).Decimal(int64(t.Elapsed)).Decimal(t.Error)
	o.Decimal(int64(t.CpuTime)).Decimal(t.Malloc)
	o.Decimal(int64(t.SqlCount)).Decimal(int64(t.SqlTime)).Decimal(int64(t.SqlFetchCount)).Decimal(int64(t.SqlFetchTime))
	o.Decimal(int64(t.HttpcCount)).Decimal(int64(t.HttpcTime))
	o.Bool(t.Active).Decimal(t.StepsDataPos).Decimal(int64(t.Cipher))
	o.I32(t.IpAddr).Decimal(t.WClientId).Decimal(int64(t.UserAgent)).Decimal(int64(t.Referer)).Decimal(int64(t.Status))

	o.Mark(1, KTag, "txrecord-mtrace-present")
	if t.Mtid != 0 {
		o.U8(1).Decimal(t.Mtid).Decimal(int64(t.Mdepth)).Decimal(t.Mcaller)
	} else {
		o.U8(0)
	}
	o.Mark(1, KTag, "txrecord-caller-form")
	if t.McallerPcode != 0 {
		o.U8(6).Decimal(t.McallerPcode).Decimal(int64(t.McallerOkind)).Decimal(int64(t.McallerOid))
		o.Decimal(int64(t.McallerSpec)).Decimal(int64(t.McallerUrl)).Decimal(int64(t.MthisSpec))
	} else {
		o.U8(0)
	}
	o.U8(t.HttpMethod).Decimal(int64(t.Domain))

	o.Mark(1, KCount, "txrecord-fields-count")
	if t.Fields == nil {
		o.U8(0)
	} else {
		if t.Fields.Tag != TMap || len(t.Fields.Keys) != len(t.Fields.Vals) || len(t.Fields.Keys) > 255 {
			panic("refcodec: tx record fields must be a map value of at most 255 entries")
		}
		o.U8(byte(len(t.Fields.Keys)))
		for i := range t.Fields.Keys {
			o.Text(t.Fields.Keys[i])
			o.Value(t.Fields.Vals[i])
		}
	}
	o.Mark(0, KEnd, "txrecord-end:before-login")
	o.Decimal(int64(t.Login))
	o.Mark(0, KEnd, "txrecord-end:before-error-level")
	o.U8(t.ErrorLevel)
	o.Mark(0, KEnd, "txrecord-end:before-oid-okind-onode")
	o.Decimal(int64(t.Oid)).Decimal(int64(t.Okind)).Decimal(int64(t.Onode))
	o.Mark(0, KEnd, "txrecord-end:before-uuid")
	o.Text(t.Uuid)
	o.Mark(0, KEnd, "txrecord-end:before-dbc-time")
	o.Decimal(int64(t.DbcTime))
	o.Mark(0, KEnd, "txrecord-end:before-apdex")
	o.U8(t.Apdex)
	o.Mark(0, KEnd, "txrecord-end:before-caller-step-id")
	o.Decimal(t.McallerStepId).Text(t.OriginUrl)
	o.Mark(0, KEnd, "txrecord-end:before-step-split-count")
	o.Decimal(t.StepSplitCount)
	return w.BlobOf(o)
}

// EncodeTxRecord returns the bytes of one record.
func EncodeTxRecord(t RefTxRecord) []byte {
	w := NewW()
	w.TxRecord(t)
	return w.B
}

// Service record types.
const (
	SvcTWas  byte = 1
	SvcTApp  byte = 2
	SvcTWas2 byte = 3
)

var SvcTypes = []byte{SvcTWas, SvcTApp, SvcTWas2}

func SvcTypeName(t byte) string {
	switch t {
	case SvcTWas:
		return "WasService"
	case SvcTApp:
		return "AppService"
	case SvcTWas2:
		return "WasService2"
	}
	return "UnknownService"
}

// RefService is the neutral form of a service record. The fields after StepsDataPos are
// carried by the two was types only.
type RefService struct {
	Type    byte
	Seq     int64
	EndTime int64
	Service int32
	Elapsed int32
	Error   int64
	CpuTime int32
	Malloc  int64

	SqlCount, SqlTime, SqlFetchCount, SqlFetchTime int32
	HttpcCount, HttpcTime                          int32

	Active       bool
	StepsDataPos int64

	IpAddr    int32
	WClientId int64
	UserAgent int32
	Referer   int32
	Status    int32
	Mtid      int64
	Mdepth    int32
	Mcaller   int64
}

// Service writes type byte + body.
func (w *W) Service(s RefService) *W {
	w.Mark(1, KTag, "service-type")
	w.U8(s.Type)
	w.I64(s.Seq).Decimal(s.EndTime).Decimal(int64(s.Service))
	w.Decimal(int64(s.Elapsed)).Decimal(s.Error).Decimal(int64(s.CpuTime))
	w.Decimal(int64(s.SqlCount)).Decimal(int64(s.SqlTime)).Decimal(int64(s.SqlFetchCount)).Decimal(int64(s.SqlFetchTime))
	w.Decimal(s.Malloc)
	w.Decimal(int64(s.HttpcCount)).Decimal(int64(s.HttpcTime))
	w.Bool(s.Active).Decimal(s.StepsDataPos)
	switch s.Type {
	case SvcTApp:
	case SvcTWas, SvcTWas2:
		w.I32(s.IpAddr).Decimal(0).Decimal(s.WClientId).Decimal(int64(s.UserAgent)).Decimal(int64(s.Referer)).Decimal(int64(s.Status))
		w.Decimal(s.Mtid).Decimal(int64(s.Mdepth)).Decimal(s.Mcaller)
	default:
		panic("refcodec: service type without a layout")
	}
	return w
}

func EncodeService(s RefService) []byte {
	w := NewW()
	w.Service(s)
	return w.B
}

// ---- packs embedding tx records and step streams -----------------------------------------

const (
	PackTProfile   int16 = 0x0300
	PackTStepSplit int16 = 0x0302
	PackTErrorSnap int16 = 0x0801
)

// RefPackHeader08 is the common pack header (both forms; the long one iff Okind|Onode != 0).
type RefPackHeader08 struct {
	Pcode             int64
	Oid, Okind, Onode int32
	Time              int64
}

func (w *W) packHeader08(h RefPackHeader08) {
	if h.Okind|h.Onode == 0 {
		w.Decimal(h.Pcode).I32(h.Oid).I64(h.Time)
		return
	}
	w.Mark(1, KVersion, "pack-header-form")
	w.U8(9).Decimal(h.Pcode).I32(h.Oid).I32(h.Okind).I32(h.Onode).I64(h.Time)
}

func (w *W) packType08(t int16) {
	w.Mark(2, KTag, "pack-type")
	w.I16(t)
}

type RefProfilePack struct {
	Hdr   RefPackHeader08
	Tx    RefTxRecord
	Steps []RefStep
}

func (w *W) stepsBlob08(steps []RefStep) {
	in := NewW()
	in.Steps(steps)
	w.BlobOf(in)
}

// ProfilePack writes pack type + header + tx record + steps blob.
func (w *W) ProfilePack(p RefProfilePack) *W {
	w.packType08(PackTProfile)
	w.packHeader08(p.Hdr)
	w.TxRecord(p.Tx)
	w.stepsBlob08(p.Steps)
	return w
}

type RefStepSplitPack struct {
	Hdr   RefPackHeader08
	Txid  int64
	Inx   int64
	Steps []RefStep
}

func (w *W) StepSplitPack(p RefStepSplitPack) *W {
	w.packType08(PackTStepSplit)
	w.packHeader08(p.Hdr)
	w.Mark(1, KVersion, "stepsplit-version")
	w.U8(0).I64(p.Txid).Decimal(p.Inx)
	w.stepsBlob08(p.Steps)
	return w
}

// RefErrorSnapPack: the stack blob is the int-array encoding of Stack when HasStack, else empty.
type RefErrorSnapPack struct {
	Hdr        RefPackHeader08
	Seq        int64
	Profile    []RefStep
	HasStack   bool
	Stack      []int32
	AppendType byte
	AppendHash int32
}

func (w *W) ErrorSnapPack(p RefErrorSnapPack) *W {
	w.packType08(PackTErrorSnap)
	w.packHeader08(p.Hdr)
	w.I64(p.Seq)
	w.stepsBlob08(p.Profile)
	st := NewW()
	if p.HasStack {
		st.IntArray(p.Stack)
	}
	w.BlobOf(st)
	w.U8(p.AppendType).Decimal(int64(p.AppendHash))
	return w
}
