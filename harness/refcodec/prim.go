// Package refcodec is an INDEPENDENT reference encoder of the golib wire formats. It is
// written from the protocol layout with encoding/binary and math only and imports nothing
// from golib, so that a change applied consistently to golib's writer and reader is still
// visible as a byte difference.
//
// While encoding it records a field map: for every length, count, type-tag and version byte
// its offset, width and meaning (C04 aims its corruptions with it).
package refcodec

import (
	"encoding/binary"
	"math"
)

// Field kinds recorded in the field map.
const (
	KLen     = "len"               // a byte-length prefix (blob/text/short/int length)
	KCount   = "count"             // an element count
	KTag     = "tag"               // a type tag (value type, pack type, step type)
	KVersion = "version"           // a version byte
	KDecLen  = "declen"            // the length-class byte of a decimal
	KEnd     = "older-version-end" // offset at which a complete older version of the message ends
)

type Field struct {
	Off   int    `json:"off"`
	Width int    `json:"width"`
	Kind  string `json:"kind"`
	Name  string `json:"name"`
}

// W is the reference output stream.
type W struct {
	B      []byte
	Fields []Field
}

func NewW() *W { return &W{} }

func (w *W) Len() int      { return len(w.B) }
func (w *W) Bytes() []byte { return w.B }

func (w *W) mark(width int, kind, name string) {
	w.Fields = append(w.Fields, Field{Off: len(w.B), Width: width, Kind: kind, Name: name})
}

// Mark records a field-map entry at the current offset (used by the layered encoders).
func (w *W) Mark(width int, kind, name string) { w.mark(width, kind, name) }

func (w *W) Raw(b []byte) *W { w.B = append(w.B, b...); return w }
func (w *W) Bool(v bool) *W {
	if v {
		w.B = append(w.B, 1)
	} else {
		w.B = append(w.B, 0)
	}
	return w
}
func (w *W) U8(v byte) *W    { w.B = append(w.B, v); return w }
func (w *W) I16(v int16) *W  { w.B = binary.BigEndian.AppendUint16(w.B, uint16(v)); return w }
func (w *W) U16(v uint16) *W { w.B = binary.BigEndian.AppendUint16(w.B, v); return w }
func (w *W) I24(v int32) *W {
	w.B = append(w.B, byte(uint32(v)>>16), byte(uint32(v)>>8), byte(uint32(v)))
	return w
}
func (w *W) I32(v int32) *W { w.B = binary.BigEndian.AppendUint32(w.B, uint32(v)); return w }
func (w *W) I40(v int64) *W {
	u := uint64(v)
	w.B = append(w.B, byte(u>>32), byte(u>>24), byte(u>>16), byte(u>>8), byte(u))
	return w
}
func (w *W) I64(v int64) *W   { w.B = binary.BigEndian.AppendUint64(w.B, uint64(v)); return w }
func (w *W) F32(v float32) *W { return w.I32(int32(math.Float32bits(v))) }
func (w *W) F64(v float64) *W { return w.I64(int64(math.Float64bits(v))) }

// decimal length classes: explicit range table {0; int8; int16; int24; int32; int40; int64}
var decClasses = []struct {
	lo, hi int64
	n      byte
}{
	{0, 0, 0},
	{-128, 127, 1},
	{-32768, 32767, 2},
	{-8388608, 8388607, 3},
	{-2147483648, 2147483647, 4},
	{-549755813888, 549755813887, 5},
	{math.MinInt64, math.MaxInt64, 8},
}

// DecimalClass returns the number of payload bytes of the shortest form holding v.
func DecimalClass(v int64) int {
	for _, c := range decClasses {
		if v >= c.lo && v <= c.hi {
			return int(c.n)
		}
	}
	return 8
}

func (w *W) Decimal(v int64) *W {
	n := DecimalClass(v)
	w.mark(1, KDecLen, "decimal-class")
	w.B = append(w.B, byte(n))
	u := uint64(v)
	for i := n - 1; i >= 0; i-- {
		w.B = append(w.B, byte(u>>(8*uint(i))))
	}
	return w
}

// Blob: nil and empty are the same value on the wire (one zero byte).
func (w *W) Blob(b []byte) *W {
	n := len(b)
	switch {
	case n == 0:
		w.mark(1, KLen, "blob-len")
		w.B = append(w.B, 0)
		return w
	case n <= 253:
		w.mark(1, KLen, "blob-len")
		w.B = append(w.B, byte(n))
	case n <= 65535:
		w.mark(3, KLen, "blob-len16")
		w.B = append(w.B, 255, byte(n>>8), byte(n))
	default:
		w.mark(5, KLen, "blob-len32")
		w.B = append(w.B, 254, byte(n>>24), byte(n>>16), byte(n>>8), byte(n))
	}
	w.B = append(w.B, b...)
	return w
}

func (w *W) Text(s string) *W { return w.Blob([]byte(s)) }

func (w *W) ShortBytes(b []byte) *W {
	w.mark(2, KLen, "short-len")
	w.I16(int16(len(b)))
	w.B = append(w.B, b...)
	return w
}
func (w *W) TextShort(s string) *W { return w.ShortBytes([]byte(s)) }

func (w *W) IntBytes(b []byte) *W {
	w.mark(4, KLen, "int-len")
	w.I32(int32(len(b)))
	w.B = append(w.B, b...)
	return w
}

func (w *W) count16(n int, name string) {
	w.mark(2, KCount, name)
	w.I16(int16(n))
}

func (w *W) ShortArray(v []int16) *W {
	w.count16(len(v), "short-array-count")
	for _, x := range v {
		w.I16(x)
	}
	return w
}
func (w *W) IntArray(v []int32) *W {
	w.count16(len(v), "int-array-count")
	for _, x := range v {
		w.I32(x)
	}
	return w
}
func (w *W) LongArray(v []int64) *W {
	w.count16(len(v), "long-array-count")
	for _, x := range v {
		w.I64(x)
	}
	return w
}
func (w *W) FloatArray(v []float32) *W {
	w.count16(len(v), "float-array-count")
	for _, x := range v {
		w.F32(x)
	}
	return w
}
func (w *W) DoubleArray(v []float64) *W {
	w.count16(len(v), "double-array-count")
	for _, x := range v {
		w.F64(x)
	}
	return w
}
func (w *W) TextArray(v []string) *W {
	w.count16(len(v), "text-array-count")
	for _, x := range v {
		w.Text(x)
	}
	return w
}

// Frame builds the one-way TCP frame around a payload (pack type + body).
func Frame(src, ver byte, pcode, licenseHash int64, payload []byte) []byte {
	w := NewW()
	w.U8(src).U8(ver).I64(pcode).I64(licenseHash).IntBytes(payload)
	return w.B
}

// ---- CRC-based hashes (table regenerated from the reflected IEEE polynomial) ------------

var crcTable = func() [256]uint32 {
	var t [256]uint32
	for i := 0; i < 256; i++ {
		c := uint32(i)
		for k := 0; k < 8; k++ {
			if c&1 == 1 {
				c = c>>1 ^ 0xedb88320
			} else {
				c >>= 1
			}
		}
		t[i] = c
	}
	return t
}()

// Hash32 is CRC-32 (IEEE).
func Hash32(b []byte) int32 {
	crc := ^uint32(0)
	for _, x := range b {
		crc = crc>>8 ^ crcTable[byte(crc)^x]
	}
	return int32(^crc)
}

// Hash64 is the collector's 64-bit variant: 64-bit register, sign-extended table entries.
func Hash64(b []byte) int64 {
	crc := ^uint64(0)
	for _, x := range b {
		crc = crc>>8 ^ uint64(int64(int32(crcTable[byte(crc)^x])))
	}
	return int64(^crc)
}

// Hash64v2: two interleaved CRC lanes, 0 for empty input.
func Hash64v2(b []byte) int64 {
	if len(b) == 0 {
		return 0
	}
	crc := ^uint64(0)
	for _, x := range b {
		crc >>= 8
		lo := uint64(crcTable[byte(crc)^x])
		hi := uint64(crcTable[byte(crc>>32)^x])
		crc ^= lo
		crc ^= hi << 32
	}
	return int64(^crc)
}
