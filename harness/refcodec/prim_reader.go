package refcodec

import (
	"encoding/binary"
	"math"
)

// R is the INDEPENDENT reference reader of the primitive stream layout (the inverse of W).
// It is used (a) to check the reference writer against itself, so that a slip in the oracle
// shows up as an oracle fault and not as a golib finding, and (b) to learn how many bytes a
// field occupies (Off before / after a call). Like W it imports nothing from golib.
//
// A read past the end sets Short and returns zero values; it never panics.
type R struct {
	B     []byte
	Off   int
	Short bool
}

func NewR(b []byte) *R { return &R{B: b} }

// Left is the number of unread bytes.
func (r *R) Left() int { return len(r.B) - r.Off }

func (r *R) take(n int) []byte {
	if n < 0 || r.Off+n > len(r.B) {
		r.Short = true
		r.Off = len(r.B)
		return make([]byte, prMax(n, 0))
	}
	b := r.B[r.Off : r.Off+n]
	r.Off += n
	return b
}

func prMax(a, b int) int {
	if a > b {
		return a
	}
	return b
}

// Raw returns a copy of the next n bytes.
func (r *R) Raw(n int) []byte { return append([]byte{}, r.take(n)...) }

func (r *R) Bool() bool  { return r.take(1)[0] == 1 }
func (r *R) U8() byte    { return r.take(1)[0] }
func (r *R) I16() int16  { return int16(binary.BigEndian.Uint16(r.take(2))) }
func (r *R) U16() uint16 { return binary.BigEndian.Uint16(r.take(2)) }

// I24 sign-extends a 3-byte big-endian two's complement field.
func (r *R) I24() int32 {
	b := r.take(3)
	u := uint32(b[0])<<16 | uint32(b[1])<<8 | uint32(b[2])
	if u&0x800000 != 0 {
		u |= 0xff000000
	}
	return int32(u)
}
func (r *R) I32() int32  { return int32(binary.BigEndian.Uint32(r.take(4))) }
func (r *R) U32() uint32 { return binary.BigEndian.Uint32(r.take(4)) }

// I40 sign-extends a 5-byte big-endian two's complement field.
func (r *R) I40() int64 {
	b := r.take(5)
	u := uint64(b[0])<<32 | uint64(binary.BigEndian.Uint32(b[1:]))
	if u&(1<<39) != 0 {
		u |= 0xffffff0000000000
	}
	return int64(u)
}
func (r *R) I64() int64   { return int64(binary.BigEndian.Uint64(r.take(8))) }
func (r *R) F32() float32 { return math.Float32frombits(binary.BigEndian.Uint32(r.take(4))) }
func (r *R) F64() float64 { return math.Float64frombits(binary.BigEndian.Uint64(r.take(8))) }

// Decimal reads the class byte and that many payload bytes (sign-extended). ok is false for
// a class byte outside {0,1,2,3,4,5,8}.
func (r *R) Decimal() (v int64, ok bool) {
	n := int(r.take(1)[0])
	switch n {
	case 0, 1, 2, 3, 4, 5, 8:
	default:
		return 0, false
	}
	if n == 0 {
		return 0, true
	}
	b := r.take(n)
	var u uint64
	if b[0]&0x80 != 0 {
		u = ^uint64(0)
	}
	for _, x := range b {
		u = u<<8 | uint64(x)
	}
	return int64(u), true
}

// Blob reads the 1 / 255+2 / 254+4 byte prefix and the payload.
func (r *R) Blob() []byte {
	n := int(r.take(1)[0])
	switch n {
	case 255:
		n = int(binary.BigEndian.Uint16(r.take(2)))
	case 254:
		n = int(int32(binary.BigEndian.Uint32(r.take(4))))
	}
	return r.Raw(n)
}
func (r *R) Text() string { return string(r.Blob()) }

// ShortBytes: unsigned 16-bit length, payload.
func (r *R) ShortBytes() []byte { return r.Raw(int(r.U16())) }
func (r *R) TextShort() string  { return string(r.ShortBytes()) }

// IntBytes: signed 32-bit length, payload.
func (r *R) IntBytes() []byte { return r.Raw(int(r.I32())) }

func (r *R) count16() int { return int(r.I16()) }

func (r *R) ShortArray() []int16 {
	n := r.count16()
	v := make([]int16, 0, prMax(n, 0))
	for i := 0; i < n && !r.Short; i++ {
		v = append(v, r.I16())
	}
	return v
}
func (r *R) IntArray() []int32 {
	n := r.count16()
	v := make([]int32, 0, prMax(n, 0))
	for i := 0; i < n && !r.Short; i++ {
		v = append(v, r.I32())
	}
	return v
}
func (r *R) LongArray() []int64 {
	n := r.count16()
	v := make([]int64, 0, prMax(n, 0))
	for i := 0; i < n && !r.Short; i++ {
		v = append(v, r.I64())
	}
	return v
}
func (r *R) FloatArray() []float32 {
	n := r.count16()
	v := make([]float32, 0, prMax(n, 0))
	for i := 0; i < n && !r.Short; i++ {
		v = append(v, r.F32())
	}
	return v
}
func (r *R) DoubleArray() []float64 {
	n := r.count16()
	v := make([]float64, 0, prMax(n, 0))
	for i := 0; i < n && !r.Short; i++ {
		v = append(v, r.F64())
	}
	return v
}
func (r *R) TextArray() []string {
	n := r.count16()
	v := make([]string, 0, prMax(n, 0))
	for i := 0; i < n && !r.Short; i++ {
		v = append(v, r.Text())
	}
	return v
}

// DecimalArray: a decimal count followed by that many decimals.
func (r *R) DecimalArray() ([]int64, bool) {
	n, ok := r.Decimal()
	if !ok || n < 0 {
		return nil, false
	}
	v := make([]int64, 0, 16)
	for i := int64(0); i < n && !r.Short; i++ {
		x, ok := r.Decimal()
		if !ok {
			return v, false
		}
		v = append(v, x)
	}
	return v, true
}
