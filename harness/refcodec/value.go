package refcodec

// Tagged value model — independent reference encoder.
//
// API (kept deliberately small; used by C02, C03, C04, C05, C08, C20 workers):
//
//	type V                       neutral value tree (no golib types); which fields carry the
//	                             payload of which tag is listed at the struct
//	T* constants, ValueTags      the type codes (20 implemented + TFloatSummary reserved)
//	ValueTagName(tag)            golib's Go type name of a tag ("MapValue", "IntArray", …)
//	(*W).Value(v)                tag byte + payload, recursively
//	(*W).ValueBody(v)            payload only (what <Type>.Write emits without the tag)
//	EncodeValue(v)               bytes of Value(v) on a fresh stream
//
// Layout (derived by reading lang/value/*.go, written with the refcodec primitives only):
//
//	null            -
//	boolean         1 byte 0/1
//	decimal         decimal (class byte + shortest big-endian form)
//	int, text-hash  int32          long   int64
//	float           IEEE bits int32      double IEEE bits int64
//	double summary  f64 sum, i32 count, f64 min, f64 max
//	long summary    i64 sum, i32 count, i64 min, i64 max
//	text            blob of the string's bytes     blob  blob prefix + bytes
//	ip4             4 raw bytes (no length)
//	list            decimal count, then count tagged values
//	int/float/text/long array   int16 count, then the elements (text elements as blobs)
//	map             decimal count, then count × (text key, tagged value), insertion order
//	int map         decimal count, then count × (int32 key, tagged value), insertion order
//
// Field map entries recorded while encoding (see prim.go for the kinds):
//
//	KTag   "value-tag"                          width 1, at every tagged value
//	KCount "list-count" "map-count" "intmap-count"   whole decimal (class byte + payload)
//	KDecLen "decimal-class"                     (from Decimal) the class byte of every decimal
//	KCount "int-array-count" …                  (from the array primitives) the 16-bit counts
//	KLen   "blob-len" "blob-len16" "blob-len32" (from Blob) text/blob/key length prefixes
//
// Nothing here imports golib.

const (
	TNull          byte = 0
	TBool          byte = 10
	TDecimal       byte = 20
	TInt           byte = 21
	TLong          byte = 22
	TFloat         byte = 30
	TDouble        byte = 40
	TDoubleSummary byte = 45
	TLongSummary   byte = 46
	TFloatSummary  byte = 47 // reserved code: golib has no type for it, CreateValue panics on it
	TText          byte = 50
	TTextHash      byte = 51
	TBlob          byte = 60
	TIP4           byte = 61
	TList          byte = 70
	TIntArray      byte = 71
	TFloatArray    byte = 72
	TTextArray     byte = 73
	TLongArray     byte = 74
	TMap           byte = 80
	TIntMap        byte = 81
)

// ValueTags lists the implemented type codes in ascending order.
var ValueTags = []byte{TNull, TBool, TDecimal, TInt, TLong, TFloat, TDouble, TDoubleSummary, TLongSummary,
	TText, TTextHash, TBlob, TIP4, TList, TIntArray, TFloatArray, TTextArray, TLongArray, TMap, TIntMap}

// ValueTagName is the Go type name golib uses for a tag (used in finding keys).
func ValueTagName(t byte) string {
	switch t {
	case TNull:
		return "NullValue"
	case TBool:
		return "BoolValue"
	case TDecimal:
		return "DecimalValue"
	case TInt:
		return "IntValue"
	case TLong:
		return "LongValue"
	case TFloat:
		return "FloatValue"
	case TDouble:
		return "DoubleValue"
	case TDoubleSummary:
		return "DoubleSummary"
	case TLongSummary:
		return "LongSummary"
	case TFloatSummary:
		return "FloatSummary"
	case TText:
		return "TextValue"
	case TTextHash:
		return "TextHashValue"
	case TBlob:
		return "BlobValue"
	case TIP4:
		return "IP4Value"
	case TList:
		return "ListValue"
	case TIntArray:
		return "IntArray"
	case TFloatArray:
		return "FloatArray"
	case TTextArray:
		return "TextArray"
	case TLongArray:
		return "LongArray"
	case TMap:
		return "MapValue"
	case TIntMap:
		return "IntMapValue"
	}
	return "UnknownValue"
}

// LongSum / DoubleSum are the payloads of the two summary types (nil ≡ all zero).
type LongSum struct {
	Sum      int64
	Count    int32
	Min, Max int64
}
type DoubleSum struct {
	Sum      float64
	Count    int32
	Min, Max float64
}

// V is one node of the neutral value tree. Only the fields of its Tag are meaningful:
//
//	TBool: I!=0 · TDecimal/TInt/TLong/TTextHash: I · TFloat: F32 · TDouble: F
//	TDoubleSummary: DS · TLongSummary: LS · TText: S · TBlob: B · TIP4: B (4 bytes)
//	TList: List · TIntArray: Ints · TFloatArray: Floats · TTextArray: Texts · TLongArray: Longs
//	TMap: Keys+Vals (parallel, insertion order, keys unique)
//	TIntMap: IntKeys+Vals (parallel, insertion order, keys unique)
//
// nil and empty slices are the same value.
type V struct {
	Tag     byte
	I       int64
	F       float64
	F32     float32
	S       string
	B       []byte
	LS      *LongSum
	DS      *DoubleSum
	List    []V
	Keys    []string
	IntKeys []int32
	Vals    []V
	Ints    []int32
	Floats  []float32
	Texts   []string
	Longs   []int64
}

// Value writes the tag byte and the payload.
func (w *W) Value(v V) *W {
	w.Mark(1, KTag, "value-tag")
	w.U8(v.Tag)
	return w.ValueBody(v)
}

func (w *W) countDec(n int, name string) {
	w.Mark(1+DecimalClass(int64(n)), KCount, name)
	w.Decimal(int64(n))
}

// ValueBody writes the payload only.
func (w *W) ValueBody(v V) *W {
	switch v.Tag {
	case TNull:
	case TBool:
		w.Bool(v.I != 0)
	case TDecimal:
		w.Decimal(v.I)
	case TInt, TTextHash:
		w.I32(int32(v.I))
	case TLong:
		w.I64(v.I)
	case TFloat:
		w.F32(v.F32)
	case TDouble:
		w.F64(v.F)
	case TDoubleSummary:
		var s DoubleSum
		if v.DS != nil {
			s = *v.DS
		}
		w.F64(s.Sum).I32(s.Count).F64(s.Min).F64(s.Max)
	case TLongSummary:
		var s LongSum
		if v.LS != nil {
			s = *v.LS
		}
		w.I64(s.Sum).I32(s.Count).I64(s.Min).I64(s.Max)
	case TText:
		w.Text(v.S)
	case TBlob:
		w.Blob(v.B)
	case TIP4:
		w.Raw(v.B)
	case TList:
		w.countDec(len(v.List), "list-count")
		for i := range v.List {
			w.Value(v.List[i])
		}
	case TIntArray:
		w.IntArray(v.Ints)
	case TFloatArray:
		w.FloatArray(v.Floats)
	case TTextArray:
		w.TextArray(v.Texts)
	case TLongArray:
		w.LongArray(v.Longs)
	case TMap:
		if len(v.Keys) != len(v.Vals) {
			panic("refcodec: map value with len(Keys) != len(Vals)")
		}
		w.countDec(len(v.Keys), "map-count")
		for i := range v.Keys {
			w.Text(v.Keys[i])
			w.Value(v.Vals[i])
		}
	case TIntMap:
		if len(v.IntKeys) != len(v.Vals) {
			panic("refcodec: int map value with len(IntKeys) != len(Vals)")
		}
		w.countDec(len(v.IntKeys), "intmap-count")
		for i := range v.IntKeys {
			w.I32(v.IntKeys[i])
			w.Value(v.Vals[i])
		}
	default:
		panic("refcodec: value tag without a layout: " + ValueTagName(v.Tag))
	}
	return w
}

// EncodeValue returns the bytes of the tagged value.
func EncodeValue(v V) []byte {
	w := NewW()
	w.Value(v)
	return w.B
}
