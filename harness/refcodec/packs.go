package refcodec

// Pack bodies — independent reference encoder of the eight packs whose wire image the
// collector protocol fixes (property C05), plus the common pack header.
//
// API (used by the C05 worker; C04 can aim corruptions with the recorded field map):
//
//	RefHeader                          project code, object id, kind, node, time
//	RefTagCountPack RefLogSinkPack RefTextPack RefParamPack RefEventPack RefZipPack
//	RefHitMapPack RefCounterPack       neutral structs (no golib types; maps are refcodec.V)
//	RefPack                            interface implemented by pointers to the eight structs
//	(*W).PackHeader(h)                 the common header (short or marker-9 form)
//	(*W).TagCountPack(p) … (*W).CounterPack(p)   header + body of one pack (no pack type)
//	(*W).Pack(p)                       2-byte pack type + header + body  (= the frame payload)
//	EncodePack(p)                      bytes, offset→field table and field map of Pack(p)
//	Spans.At(off)                      name of the reference field an offset falls into
//
// Every encoder returns the Spans it wrote: consecutive, non-overlapping [Off,End) ranges of
// the stream named after the field they hold ("header.pcode", "category", "tags",
// "sql_meter.fetch_count", …; names never contain indices or values). Counts, lengths, type
// tags, version / form-marker bytes and presence bytes are in addition recorded in the field
// map (W.Fields) through Mark.
//
// Layout (written from the collector protocol layout; lang/pack/*.go was read line by line
// to confirm the order, nothing is imported from it):
//
//	header        okind==0 && onode==0:  decimal pcode, i32 oid, i64 time
//	              otherwise:             byte 9, decimal pcode, i32 oid, i32 okind, i32 onode, i64 time
//	              (a decimal's class byte is ≤ 8, so the first byte tells the two forms apart)
//	tag-count     header, version byte 0, text category, decimal tag hash, tagged map tags,
//	              tagged map data
//	log-sink      header, version byte 0, text category, decimal tag hash, tagged map tags,
//	              decimal line, text content, bool has-fields [, tagged map fields];
//	              has-fields ⇔ the field map is present and non-empty
//	   tag hash   the pack's own value; when that is 0 and the tag map is non-empty it is
//	              Hash64 of the tagged encoding (type byte 80 + map body) of the tag map
//	text          header, decimal count, count × (byte div, i32 hash, text)
//	parameter     header, i32 id, decimal request, decimal response, decimal count,
//	              count × (text key, tagged value) in insertion order
//	event         header, byte level, text title, text message, byte count,
//	              count × (text key, text value): the caller's attributes in insertion order
//	              with the reserved keys put after them (a key already present keeps its place
//	              and takes the reserved value): "_uuid_" (only when the uuid is non-empty),
//	              "_esca_" = "true"/"false", "_status_" and "_otype_" = decimal text
//	zip           header, byte status, decimal record count, blob records
//	hit-map       header, version byte 1, 120 × (u16 hit, u16 error)
//	counter       header, blob( fixed field order, see counterBody ) — every section the writer
//	              emits is modelled, including those golib's reader skips (DB pool maps, netstat,
//	              websocket) and the tagged "extra" map
//
// Nothing here imports golib.

import (
	"sort"
	"strconv"
)

// KPresence is the field-map kind of a one-byte "section follows" flag (0 absent, ≠0 present).
const KPresence = "presence"

// Pack type codes (the 2 bytes in front of every pack body).
const (
	PackParameter int16 = 0x0100
	PackCounter1  int16 = 0x0201
	PackText      int16 = 0x0700
	PackEvent     int16 = 0x1400
	PackHitMap1   int16 = 0x1501
	PackTagCount  int16 = 0x1601
	PackLogSink   int16 = 0x170a
	PackZip       int16 = 0x170b
)

// HitMapLength is the fixed number of cells of the hit-map pack.
const HitMapLength = 120

// Reserved attribute keys of the event pack.
const (
	EventKeyEscalation = "_esca_"
	EventKeyUUID       = "_uuid_"
	EventKeyStatus     = "_status_"
	EventKeyOtype      = "_otype_"
)

// Span names the bytes [Off,End) of the stream.
type Span struct {
	Off  int    `json:"off"`
	End  int    `json:"end"`
	Name string `json:"name"`
}

// Spans is the offset→field-name table of one encoding (ascending, non-overlapping).
type Spans []Span

// At returns the name of the field that holds offset off ("" if none does).
func (s Spans) At(off int) string {
	i := sort.Search(len(s), func(i int) bool { return s[i].End > off })
	if i < len(s) && s[i].Off <= off {
		return s[i].Name
	}
	return ""
}

// Find returns the first span with that name.
func (s Spans) Find(name string) (Span, bool) {
	for _, x := range s {
		if x.Name == name {
			return x, true
		}
	}
	return Span{}, false
}

// Names lists the distinct field names in order of first appearance.
func (s Spans) Names() []string {
	seen := map[string]bool{}
	var out []string
	for _, x := range s {
		if !seen[x.Name] {
			seen[x.Name] = true
			out = append(out, x.Name)
		}
	}
	return out
}

// penc couples the stream with the span table while one pack is encoded.
type penc struct {
	w     *W
	spans Spans
}

func (e *penc) f(name string, fn func()) {
	off := e.w.Len()
	fn()
	e.spans = append(e.spans, Span{Off: off, End: e.w.Len(), Name: name})
}
func (e *penc) u8(name string, v byte)     { e.f(name, func() { e.w.U8(v) }) }
func (e *penc) flag(name string, v bool)   { e.f(name, func() { e.w.Bool(v) }) }
func (e *penc) i16(name string, v int16)   { e.f(name, func() { e.w.I16(v) }) }
func (e *penc) u16(name string, v uint16)  { e.f(name, func() { e.w.U16(v) }) }
func (e *penc) i32(name string, v int32)   { e.f(name, func() { e.w.I32(v) }) }
func (e *penc) i64(name string, v int64)   { e.f(name, func() { e.w.I64(v) }) }
func (e *penc) f32(name string, v float32) { e.f(name, func() { e.w.F32(v) }) }
func (e *penc) dec(name string, v int64)   { e.f(name, func() { e.w.Decimal(v) }) }
func (e *penc) text(name string, s string) { e.f(name, func() { e.w.Text(s) }) }
func (e *penc) blob(name string, b []byte) { e.f(name, func() { e.w.Blob(b) }) }
func (e *penc) value(name string, v V)     { e.f(name, func() { e.w.Value(v) }) }

// count writes a decimal element count and records it in the field map.
func (e *penc) count(name string, n int) {
	e.w.Mark(1+DecimalClass(int64(n)), KCount, name)
	e.dec(name, int64(n))
}

// count8 writes a one-byte element count. The layout has no form for more than 255 elements.
func (e *penc) count8(name string, n int) {
	if n < 0 || n > 255 {
		panic("refcodec: " + name + " = " + strconv.Itoa(n) + " does not fit the one-byte count of the layout")
	}
	e.w.Mark(1, KCount, name)
	e.u8(name, byte(n))
}

func (e *penc) version(name string, v byte) {
	e.w.Mark(1, KVersion, name)
	e.u8(name, v)
}

func (e *penc) presence(name string, present bool, marker byte) bool {
	e.w.Mark(1, KPresence, name)
	if present {
		e.u8(name, marker)
	} else {
		e.u8(name, 0)
	}
	return present
}

// ---- common header -----------------------------------------------------------------------

type RefHeader struct {
	Pcode int64
	Oid   int32
	Okind int32
	Onode int32
	Time  int64
}

// LongForm tells whether the marker-9 form (with kind and node) is used.
func (h RefHeader) LongForm() bool { return h.Okind != 0 || h.Onode != 0 }

func (e *penc) header(h RefHeader) {
	if !h.LongForm() {
		e.dec("header.pcode", h.Pcode)
		e.i32("header.oid", h.Oid)
		e.i64("header.time", h.Time)
		return
	}
	e.version("header.marker", 9)
	e.dec("header.pcode", h.Pcode)
	e.i32("header.oid", h.Oid)
	e.i32("header.okind", h.Okind)
	e.i32("header.onode", h.Onode)
	e.i64("header.time", h.Time)
}

// PackHeader writes the common pack header.
func (w *W) PackHeader(h RefHeader) Spans {
	e := &penc{w: w}
	e.header(h)
	return e.spans
}

// RefPack is one of the eight neutral pack structs (always used through a pointer).
type RefPack interface {
	PackType() int16
	PackName() string // golib's Go type name, used in finding keys
	Hdr() *RefHeader
	body(e *penc)
}

// Pack writes the 2-byte pack type and the pack (header + body): the payload of a frame and
// the image ToBytesPack produces.
func (w *W) Pack(p RefPack) Spans {
	e := &penc{w: w}
	w.Mark(2, KTag, "pack-type")
	e.i16("packtype", p.PackType())
	e.header(*p.Hdr())
	p.body(e)
	return e.spans
}

// EncodePack encodes Pack(p) on a fresh stream.
func EncodePack(p RefPack) ([]byte, Spans, []Field) {
	w := NewW()
	s := w.Pack(p)
	return w.B, s, w.Fields
}

func (w *W) packBody(p RefPack) Spans {
	e := &penc{w: w}
	e.header(*p.Hdr())
	p.body(e)
	return e.spans
}

// ---- tag-count ---------------------------------------------------------------------------

type RefTagCountPack struct {
	RefHeader
	Category string
	TagHash  int64 // the value the pack carries before it is written (0 = not computed yet)
	Tags     V     // TMap
	Data     V     // TMap
}

func (p *RefTagCountPack) PackType() int16  { return PackTagCount }
func (p *RefTagCountPack) PackName() string { return "TagCountPack" }
func (p *RefTagCountPack) Hdr() *RefHeader  { return &p.RefHeader }

// EffectiveTagHash is the tag hash on the wire: the pack's own value, or — when that is 0 and
// the tag map is not empty — Hash64 of the tagged encoding of the tag map.
func EffectiveTagHash(own int64, tags V) int64 {
	if tags.Tag != TMap {
		panic("refcodec: the tag map of a pack must be a map value")
	}
	if own == 0 && len(tags.Keys) > 0 {
		return Hash64(EncodeValue(tags))
	}
	return own
}

func mustMap(v V, what string) {
	if v.Tag != TMap {
		panic("refcodec: " + what + " must be a map value")
	}
}

func (p *RefTagCountPack) body(e *penc) {
	mustMap(p.Tags, "TagCountPack.Tags")
	mustMap(p.Data, "TagCountPack.Data")
	e.version("version", 0)
	e.text("category", p.Category)
	e.dec("taghash", EffectiveTagHash(p.TagHash, p.Tags))
	e.value("tags", p.Tags)
	e.value("data", p.Data)
}

func (w *W) TagCountPack(p *RefTagCountPack) Spans { return w.packBody(p) }

// ---- log-sink ----------------------------------------------------------------------------

type RefLogSinkPack struct {
	RefHeader
	Category string
	TagHash  int64
	Tags     V // TMap
	Line     int64
	Content  string
	Fields   *V // nil = no field map at all; a map without entries is not written either
}

func (p *RefLogSinkPack) PackType() int16  { return PackLogSink }
func (p *RefLogSinkPack) PackName() string { return "LogSinkPack" }
func (p *RefLogSinkPack) Hdr() *RefHeader  { return &p.RefHeader }

func (p *RefLogSinkPack) body(e *penc) {
	mustMap(p.Tags, "LogSinkPack.Tags")
	e.version("version", 0)
	e.text("category", p.Category)
	e.dec("taghash", EffectiveTagHash(p.TagHash, p.Tags))
	e.value("tags", p.Tags)
	e.dec("line", p.Line)
	e.text("content", p.Content)
	has := p.Fields != nil && len(p.Fields.Keys) > 0
	e.w.Mark(1, KPresence, "has-fields")
	e.flag("has_fields", has)
	if has {
		mustMap(*p.Fields, "LogSinkPack.Fields")
		e.value("fields", *p.Fields)
	}
}

func (w *W) LogSinkPack(p *RefLogSinkPack) Spans { return w.packBody(p) }

// ---- text --------------------------------------------------------------------------------

type RefTextRec struct {
	Div  byte
	Hash int32
	Text string
}

type RefTextPack struct {
	RefHeader
	Records []RefTextRec
}

func (p *RefTextPack) PackType() int16  { return PackText }
func (p *RefTextPack) PackName() string { return "TextPack" }
func (p *RefTextPack) Hdr() *RefHeader  { return &p.RefHeader }

func (p *RefTextPack) body(e *penc) {
	e.count("records.count", len(p.Records))
	for _, r := range p.Records {
		e.u8("records.div", r.Div)
		e.i32("records.hash", r.Hash)
		e.text("records.text", r.Text)
	}
}

func (w *W) TextPack(p *RefTextPack) Spans { return w.packBody(p) }

// ---- parameter ---------------------------------------------------------------------------

type RefParamPack struct {
	RefHeader
	Id       int32
	Request  int64
	Response int64
	Keys     []string // unique, insertion order
	Vals     []V      // parallel to Keys
}

func (p *RefParamPack) PackType() int16  { return PackParameter }
func (p *RefParamPack) PackName() string { return "ParamPack" }
func (p *RefParamPack) Hdr() *RefHeader  { return &p.RefHeader }

func (p *RefParamPack) body(e *penc) {
	if len(p.Keys) != len(p.Vals) {
		panic("refcodec: ParamPack with len(Keys) != len(Vals)")
	}
	e.i32("id", p.Id)
	e.dec("request", p.Request)
	e.dec("response", p.Response)
	e.count("table.count", len(p.Keys))
	for i := range p.Keys {
		e.text("table.key", p.Keys[i])
		e.value("table.value", p.Vals[i])
	}
}

func (w *W) ParamPack(p *RefParamPack) Spans { return w.packBody(p) }

// ---- event -------------------------------------------------------------------------------

type RefEventPack struct {
	RefHeader
	Uuid       string
	Escalation bool
	Level      byte
	Title      string
	Message    string
	Status     int32
	Otype      int32
	AttrKeys   []string // the caller's attributes: unique keys, insertion order
	AttrVals   []string
}

func (p *RefEventPack) PackType() int16  { return PackEvent }
func (p *RefEventPack) PackName() string { return "EventPack" }
func (p *RefEventPack) Hdr() *RefHeader  { return &p.RefHeader }

// WireAttrs is the attribute table as it travels: the caller's attributes followed by the
// reserved keys that carry uuid, escalation, status and object type.
func (p *RefEventPack) WireAttrs() (keys, vals []string) {
	if len(p.AttrKeys) != len(p.AttrVals) {
		panic("refcodec: EventPack with len(AttrKeys) != len(AttrVals)")
	}
	keys = append(keys, p.AttrKeys...)
	vals = append(vals, p.AttrVals...)
	put := func(k, v string) {
		for i := range keys {
			if keys[i] == k {
				vals[i] = v
				return
			}
		}
		keys = append(keys, k)
		vals = append(vals, v)
	}
	if p.Uuid != "" {
		put(EventKeyUUID, p.Uuid)
	}
	if p.Escalation {
		put(EventKeyEscalation, "true")
	} else {
		put(EventKeyEscalation, "false")
	}
	put(EventKeyStatus, strconv.FormatInt(int64(p.Status), 10))
	put(EventKeyOtype, strconv.FormatInt(int64(p.Otype), 10))
	return keys, vals
}

func (p *RefEventPack) body(e *penc) {
	e.u8("level", p.Level)
	e.text("title", p.Title)
	e.text("message", p.Message)
	keys, vals := p.WireAttrs()
	e.count8("attr.count", len(keys))
	for i := range keys {
		e.text("attr.key", keys[i])
		e.text("attr.value", vals[i])
	}
}

func (w *W) EventPack(p *RefEventPack) Spans { return w.packBody(p) }

// ---- zip ---------------------------------------------------------------------------------

type RefZipPack struct {
	RefHeader
	Status      byte
	RecordCount int64
	Records     []byte
}

func (p *RefZipPack) PackType() int16  { return PackZip }
func (p *RefZipPack) PackName() string { return "ZipPack" }
func (p *RefZipPack) Hdr() *RefHeader  { return &p.RefHeader }

func (p *RefZipPack) body(e *penc) {
	e.u8("status", p.Status)
	e.w.Mark(1+DecimalClass(p.RecordCount), KCount, "record-count")
	e.dec("record_count", p.RecordCount)
	e.blob("records", p.Records)
}

func (w *W) ZipPack(p *RefZipPack) Spans { return w.packBody(p) }

// ---- hit-map -----------------------------------------------------------------------------

// RefHitMapPack: 120 cells, each 0..65535 (an unsigned 16-bit counter on the wire).
type RefHitMapPack struct {
	RefHeader
	Hit   []int32
	Error []int32
}

func (p *RefHitMapPack) PackType() int16  { return PackHitMap1 }
func (p *RefHitMapPack) PackName() string { return "HitMapPack1" }
func (p *RefHitMapPack) Hdr() *RefHeader  { return &p.RefHeader }

func (p *RefHitMapPack) body(e *penc) {
	if len(p.Hit) != HitMapLength || len(p.Error) != HitMapLength {
		panic("refcodec: HitMapPack1 needs exactly 120 hit and 120 error cells")
	}
	e.version("version", 1)
	for i := 0; i < HitMapLength; i++ {
		if p.Hit[i] < 0 || p.Hit[i] > 65535 || p.Error[i] < 0 || p.Error[i] > 65535 {
			panic("refcodec: HitMapPack1 cell outside 0..65535")
		}
		e.u16("hit", uint16(p.Hit[i]))
		e.u16("error", uint16(p.Error[i]))
	}
}

func (w *W) HitMapPack(p *RefHitMapPack) Spans { return w.packBody(p) }

// ---- counter -----------------------------------------------------------------------------

type RefTxMeter struct {
	Time  int64
	Count int32
	Error int32
	Actx  int32
}

type RefIntMeter struct { // caller-OID meter and HTTP-call meter entries: int key + meter
	Key int32
	RefTxMeter
}

type RefSqlMeter struct {
	Key int32
	RefTxMeter
	FetchCount int64
	FetchTime  int64
}

type RefPKindMeter struct {
	Pcode int64
	Okind int32
	RefTxMeter
}

type RefPOidMeter struct {
	Pcode int64
	Oid   int32
	RefTxMeter
}

type RefIntPair struct{ K, V int32 }

type RefNetstat struct{ Est, FinW, CloW, TimW int32 }

type RefWebsocket struct {
	Count int32
	In    int64
	Out   int64
}

// RefCounterPack carries every field the counter pack puts on the wire. Has* = the optional
// section / map object exists (a present but empty meter map is written differently from an
// absent one). The DB pool section is written only when BOTH maps exist; the entry order of
// these two maps is not fixed by the layout (unordered maps): the encoder writes them in the
// order given.
type RefCounterPack struct {
	RefHeader

	Duration                int32
	Cputime                 int64
	HeapTot                 int64
	HeapUse                 int64
	HeapPerm                int64
	HeapPendingFinalization int32
	GcCount                 int32
	GcTime                  int64
	ServiceCount            int32
	ServiceError            int32
	ServiceTime             int64
	SqlCount                int32
	SqlError                int32
	SqlTime                 int64
	SqlFetchCount           int64
	SqlFetchTime            int64
	HttpcCount              int32
	HttpcError              int32
	HttpcTime               int64
	ActSvcCount             int32
	ActSvcSlice             []int16 // ≤ 255 entries; nil ≡ empty

	Cpu, CpuSys, CpuUsr, CpuWait, CpuSteal, CpuIrq float32
	CpuProc                                        float32
	CpuCores                                       int32
	Mem, Swap, Disk                                float32

	ThreadTotalStarted int64
	ThreadCount        int32
	ThreadDaemon       int32
	ThreadPeakCount    int32

	HasDbNumActive bool
	HasDbNumIdle   bool
	DbNumActive    []RefIntPair
	DbNumIdle      []RefIntPair

	Netstat *RefNetstat

	ProcFd   int32
	Tps      float32
	RespTime int32
	ApType   int16

	Websocket *RefWebsocket

	Starttime   int64
	PackDropped int64
	HostIp      int32
	MacHash     int32

	Extra *V // TIntMap, nil = absent

	Pid        int32
	ActiveStat []int16 // ≤ 255 entries; nil ≡ empty

	ThreadPoolActiveCount int32
	ThreadPoolQueueSize   int32

	HasTxcallerOidMeter   bool
	TxcallerOidMeter      []RefIntMeter
	HasSqlMeter           bool
	SqlMeter              []RefSqlMeter
	HasHttpcMeter         bool
	HttpcMeter            []RefIntMeter
	HasTxcallerGroupMeter bool
	TxcallerGroupMeter    []RefPKindMeter
	TxcallerUnknown       *RefTxMeter

	ContainerKey   int32
	TxDbcTime      float32
	TxSqlTime      float32
	TxHttpcTime    float32
	ApdexSatisfied int32
	ApdexTolerated int32
	ArrivalRate    float32
	GcOldgenCount  int32
	Version        byte
	HeapMax        int64
	ProcFdMax      int32
	Metering       float32
	ApdexTotal     int32

	HasTxcallerPOidMeter bool
	TxcallerPOidMeter    []RefPOidMeter

	Resp90     int32
	Resp95     int32
	TimeSqrSum int64
}

func (p *RefCounterPack) PackType() int16  { return PackCounter1 }
func (p *RefCounterPack) PackName() string { return "CounterPack1" }
func (p *RefCounterPack) Hdr() *RefHeader  { return &p.RefHeader }

func (e *penc) shorts8(name string, v []int16) {
	e.count8(name+".count", len(v))
	for _, x := range v {
		e.i16(name, x)
	}
}

func (e *penc) txMeter(name string, m RefTxMeter) {
	e.dec(name+".time", m.Time)
	e.dec(name+".count", int64(m.Count))
	e.dec(name+".error", int64(m.Error))
	e.dec(name+".actx", int64(m.Actx))
}

func (e *penc) intPairs(name string, m []RefIntPair) {
	e.count(name+".size", len(m))
	for _, x := range m {
		e.dec(name+".key", int64(x.K))
		e.dec(name+".value", int64(x.V))
	}
}

// meterHead writes the opening of a meter table: a single zero for an absent table, else the
// form marker 9 and the decimal entry count.
func (e *penc) meterHead(name string, has bool, n int) bool {
	if !has {
		e.w.Mark(1, KPresence, name+"-absent")
		e.dec(name+".absent", 0)
		return false
	}
	e.version(name+".marker", 9)
	e.count(name+".size", n)
	return true
}

// counterInner writes the content of the counter pack's blob on e (a fresh stream).
func (p *RefCounterPack) counterInner(e *penc) {
	e.dec("duration", int64(p.Duration))
	e.dec("cputime", p.Cputime)
	e.dec("heap_tot", p.HeapTot)
	e.dec("heap_use", p.HeapUse)
	e.dec("heap_perm", p.HeapPerm)
	e.dec("heap_pending_finalization", int64(p.HeapPendingFinalization))
	e.dec("gc_count", int64(p.GcCount))
	e.dec("gc_time", p.GcTime)
	e.dec("service_count", int64(p.ServiceCount))
	e.dec("service_error", int64(p.ServiceError))
	e.dec("service_time", p.ServiceTime)
	e.dec("sql_count", int64(p.SqlCount))
	e.dec("sql_error", int64(p.SqlError))
	e.dec("sql_time", p.SqlTime)
	e.dec("sql_fetch_count", p.SqlFetchCount)
	e.dec("sql_fetch_time", p.SqlFetchTime)
	e.dec("httpc_count", int64(p.HttpcCount))
	e.dec("httpc_error", int64(p.HttpcError))
	e.dec("httpc_time", p.HttpcTime)
	e.dec("act_svc_count", int64(p.ActSvcCount))
	e.shorts8("act_svc_slice", p.ActSvcSlice)

	e.f32("cpu", p.Cpu)
	e.f32("cpu_sys", p.CpuSys)
	e.f32("cpu_usr", p.CpuUsr)
	e.f32("cpu_wait", p.CpuWait)
	e.f32("cpu_steal", p.CpuSteal)
	e.f32("cpu_irq", p.CpuIrq)
	e.f32("cpu_proc", p.CpuProc)
	e.dec("cpu_cores", int64(p.CpuCores))
	e.f32("mem", p.Mem)
	e.f32("swap", p.Swap)
	e.f32("disk", p.Disk)

	e.dec("thread_total_started", p.ThreadTotalStarted)
	e.dec("thread_count", int64(p.ThreadCount))
	e.dec("thread_daemon", int64(p.ThreadDaemon))
	e.dec("thread_peak_count", int64(p.ThreadPeakCount))

	if e.presence("db_num.present", p.HasDbNumActive && p.HasDbNumIdle, 1) {
		e.intPairs("db_num_active", p.DbNumActive)
		e.intPairs("db_num_idle", p.DbNumIdle)
	}

	if e.presence("netstat.present", p.Netstat != nil, 1) {
		e.dec("netstat.est", int64(p.Netstat.Est))
		e.dec("netstat.fin_w", int64(p.Netstat.FinW))
		e.dec("netstat.clo_w", int64(p.Netstat.CloW))
		e.dec("netstat.tim_w", int64(p.Netstat.TimW))
	}

	e.dec("proc_fd", int64(p.ProcFd))
	e.f32("tps", p.Tps)
	e.dec("resp_time", int64(p.RespTime))
	e.i16("ap_type", p.ApType)

	if e.presence("websocket.present", p.Websocket != nil, 1) {
		e.dec("websocket.count", int64(p.Websocket.Count))
		e.dec("websocket.in", p.Websocket.In)
		e.dec("websocket.out", p.Websocket.Out)
	}

	e.dec("starttime", p.Starttime)
	e.dec("pack_dropped", p.PackDropped)
	e.dec("host_ip", int64(p.HostIp))
	e.dec("mac_hash", int64(p.MacHash))

	if e.presence("extra.present", p.Extra != nil, 1) {
		if p.Extra.Tag != TIntMap {
			panic("refcodec: CounterPack1.Extra must be an int map value")
		}
		e.value("extra", *p.Extra)
	}

	e.i32("pid", p.Pid)
	e.shorts8("active_stat", p.ActiveStat)

	e.dec("threadpool_active_count", int64(p.ThreadPoolActiveCount))
	e.dec("threadpool_queue_size", int64(p.ThreadPoolQueueSize))

	if e.meterHead("txcaller_oid_meter", p.HasTxcallerOidMeter, len(p.TxcallerOidMeter)) {
		for _, m := range p.TxcallerOidMeter {
			e.i32("txcaller_oid_meter.key", m.Key)
			e.txMeter("txcaller_oid_meter", m.RefTxMeter)
		}
	}
	if e.meterHead("sql_meter", p.HasSqlMeter, len(p.SqlMeter)) {
		for _, m := range p.SqlMeter {
			e.i32("sql_meter.key", m.Key)
			e.txMeter("sql_meter", m.RefTxMeter)
			e.dec("sql_meter.fetch_count", m.FetchCount)
			e.dec("sql_meter.fetch_time", m.FetchTime)
		}
	}
	if e.meterHead("httpc_meter", p.HasHttpcMeter, len(p.HttpcMeter)) {
		for _, m := range p.HttpcMeter {
			e.i32("httpc_meter.key", m.Key)
			e.txMeter("httpc_meter", m.RefTxMeter)
		}
	}
	if e.meterHead("txcaller_group_meter", p.HasTxcallerGroupMeter, len(p.TxcallerGroupMeter)) {
		for _, m := range p.TxcallerGroupMeter {
			e.dec("txcaller_group_meter.pcode", m.Pcode)
			e.dec("txcaller_group_meter.okind", int64(m.Okind))
			e.txMeter("txcaller_group_meter", m.RefTxMeter)
		}
	}
	// the retired per-kind meter table: always an empty table
	e.count("txcaller_okind_meter_deprecated.size", 0)

	if e.presence("txcaller_unknown.version", p.TxcallerUnknown != nil, 2) {
		e.txMeter("txcaller_unknown", *p.TxcallerUnknown)
	}

	e.dec("container_key", int64(p.ContainerKey))
	e.f32("tx_dbc_time", p.TxDbcTime)
	e.f32("tx_sql_time", p.TxSqlTime)
	e.f32("tx_httpc_time", p.TxHttpcTime)
	e.dec("apdex_satisfied", int64(p.ApdexSatisfied))
	e.dec("apdex_tolerated", int64(p.ApdexTolerated))
	e.f32("arrival_rate", p.ArrivalRate)
	e.dec("gc_oldgen_count", int64(p.GcOldgenCount))
	e.version("version", p.Version)
	e.dec("heap_max", p.HeapMax)
	e.dec("proc_fd_max", int64(p.ProcFdMax))
	e.f32("metering", p.Metering)
	e.dec("apdex_total", int64(p.ApdexTotal))

	// caller project/object meter: bare decimal count (no form marker), 0 when absent
	n := 0
	if p.HasTxcallerPOidMeter {
		n = len(p.TxcallerPOidMeter)
	}
	e.count("txcaller_poid_meter.size", n)
	if p.HasTxcallerPOidMeter {
		for _, m := range p.TxcallerPOidMeter {
			e.dec("txcaller_poid_meter.pcode", m.Pcode)
			e.dec("txcaller_poid_meter.oid", int64(m.Oid))
			e.txMeter("txcaller_poid_meter", m.RefTxMeter)
		}
	}

	e.dec("resp90", int64(p.Resp90))
	e.dec("resp95", int64(p.Resp95))
	e.dec("time_sqr_sum", p.TimeSqrSum)
}

func (p *RefCounterPack) body(e *penc) {
	in := &penc{w: NewW()}
	p.counterInner(in)
	start := e.w.Len()
	e.w.Blob(in.w.B) // records the blob length in the field map
	shift := e.w.Len() - len(in.w.B)
	e.spans = append(e.spans, Span{Off: start, End: shift, Name: "body_length"})
	for _, s := range in.spans {
		e.spans = append(e.spans, Span{Off: s.Off + shift, End: s.End + shift, Name: s.Name})
	}
	for _, f := range in.w.Fields {
		f.Off += shift
		e.w.Fields = append(e.w.Fields, f)
	}
}

func (w *W) CounterPack(p *RefCounterPack) Spans { return w.packBody(p) }
