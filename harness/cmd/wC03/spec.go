package main

// The carried-field manifest (/verif/spec/pack_fields.json): for every pack type, pack
// element and record type the fields the wire carries, in wire order, with their wire form,
// their domain (integer width, maximum count the count prefix can represent, fixed lengths,
// keys that are reserved) and the presence condition of optional sections. It was derived
// once by reading every Write method (seed table in specseed.go) and cross-checked against a
// measured sensitivity run on the pinned tree (VERIF_WRITE_SPEC=1, specgen.go); at run time
// ONLY the JSON file is used: the populator, the structural walker and the sensitivity
// oracle are all driven by it, so a field that a later change drops from both the writer and
// the reader is still demanded.

import (
	"encoding/json"
	"fmt"
	"os"
	"path/filepath"

	"verif/vlib"
)

// FieldSpec describes one carried field (or, through Elem/Key, the entries of a container).
//
// Kind:
//
//	int      Go integer of any width / byte; Bits+Unsigned give the domain the wire form holds
//	bool     f32  f64  text  blob
//	strptr   *string (nil is written as "")
//	ints     slice of Go integers (Elem = int spec); Max = what the count prefix holds; Fixed = exact length
//	list     slice of structs / struct pointers / interface values (Type or Elem.Kind=="iface")
//	struct   embedded struct value (Type)          ptr   *struct, nil = section absent (Type)
//	iface    interface holding *struct; the concrete type is chosen by the sibling field Select through Cases
//	strmap   *hmap.StringKeyLinkedMap; Elem.Kind ∈ value | text | anylist
//	strintmap *hmap.StringIntLinkedMap      intintlmap *hmap.IntIntLinkedMap (Max = the map's own bound)
//	intintmap *hmap.IntIntMap (unordered)   intkeylmap *hmap.IntKeyLinkedMap of *struct (Type)
//	linkedmap *hmap.LinkedMap, key *struct (Key.Type), value *struct (Type)
//	intkeymap *hmap.IntKeyMap of *struct (Type), unordered
//	mapvalue *value.MapValue   intmapvalue *value.IntMapValue   (tagged value trees, see valgen)
//	txrecord *service.TxRecord (see stepgen)
//	packs    []Pack — nested, type-tagged packs
//	recblob  []byte that SetRecords*/GetRecords interpret as a record list (Type = record type)
type FieldSpec struct {
	Name     string            `json:"name"`
	Wire     string            `json:"wire"`
	Kind     string            `json:"kind"`
	Bits     int               `json:"bits,omitempty"`
	Unsigned bool              `json:"unsigned,omitempty"`
	Max      int               `json:"max,omitempty"`
	Fixed    int               `json:"fixed,omitempty"`
	Type     string            `json:"type,omitempty"`
	Elem     *FieldSpec        `json:"elem,omitempty"`
	Key      *FieldSpec        `json:"key,omitempty"`
	Cond     string            `json:"cond,omitempty"`
	NonNil   bool              `json:"non_nil,omitempty"`
	Derive   string            `json:"derive,omitempty"`
	Select   string            `json:"select,omitempty"`
	Cases    map[string]string `json:"cases,omitempty"`
	Exclude  []string          `json:"exclude_keys,omitempty"`
	Note     string            `json:"note,omitempty"`
}

type NotCarried struct {
	Name string `json:"name"`
	Why  string `json:"why"`
}

// TypeSpec is one pack type / element / record type.
type TypeSpec struct {
	Name       string       `json:"name"`
	Class      string       `json:"class"` // pack | element | record
	Registered bool         `json:"registered,omitempty"`
	Code       string       `json:"type_code,omitempty"` // hex of the type short written before the body
	Via        string       `json:"round_trip"`          // how the worker round-trips it
	Layout     string       `json:"layout"`              // the wire layout read off the Write method
	Fields     []FieldSpec  `json:"fields"`
	NotCarried []NotCarried `json:"not_carried,omitempty"`
	Internal   []string     `json:"internal_fields,omitempty"` // struct fields that are a representation of listed fields (not probed)
	Rules      []string     `json:"decoder_rules,omitempty"`   // what a correct decoder returns where that is not the written value
	// filled by the measured sensitivity run (VERIF_WRITE_SPEC=1)
	Measured map[string]string `json:"measured,omitempty"`
}

type Manifest struct {
	Note  string      `json:"note"`
	Types []*TypeSpec `json:"types"`
	by    map[string]*TypeSpec
}

func specPath() string { return filepath.Join(vlib.VerifRoot(), "spec", "pack_fields.json") }

func loadManifest() (*Manifest, error) {
	b, err := os.ReadFile(specPath())
	if err != nil {
		return nil, err
	}
	m := &Manifest{}
	if err := json.Unmarshal(b, m); err != nil {
		return nil, err
	}
	m.index()
	return m, nil
}

func (m *Manifest) index() {
	m.by = map[string]*TypeSpec{}
	for _, t := range m.Types {
		m.by[t.Name] = t
	}
}

func (m *Manifest) T(name string) *TypeSpec {
	t := m.by[name]
	if t == nil {
		panic(fmt.Sprintf("manifest has no type %q", name))
	}
	return t
}

func (t *TypeSpec) field(name string) (int, *FieldSpec) {
	for i := range t.Fields {
		if t.Fields[i].Name == name {
			return i, &t.Fields[i]
		}
	}
	return -1, nil
}
