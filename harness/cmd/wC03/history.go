package main

// History monitor: the encoding of a pack must be a function of the pack's CURRENT field
// values, not of what was written, set or decoded before.
//
// One golib object is kept alive over several writes. Between the writes it is re-populated
// with new values of the manifest fields in the ways a caller can do that:
//
//	regen    every manifest field assigned anew from an independent draw of the generator
//	mix      a random subset of the fields (cross-dependent fields move together) taken from
//	         an independent draw, the others left exactly as the previous write left them
//	flips    1..3 single leaves changed, only the enclosing top-level fields assigned
//	inplace  a map the pack already holds is changed through the map's own Put / Remove
//	         (the object keeps the very container the previous write saw)
//	records  record-list / container packs: the record list is changed (one record replaced,
//	         appended, dropped) and the pack's own SetRecords* is called again on the same object
//
// (a taken field is either assigned a new container or — maps — cleared and refilled in
// place; a record blob that came from records goes through the pack's setter, never through
// a plain assignment). After every step the bytes of the long-lived object must equal the
// bytes of a FRESH object built from exactly the same model; writing the unchanged object
// twice must give the same bytes; a decoded pack that is read, then changed in one place and
// written must equal a fresh object with those values as well.
//
// A field whose value the writer is documented to compute and keep (manifest `derive`: the
// tag hash) is part of the object's state: after each write the model takes the value the
// object now holds, so a legitimately cached value is not a finding.
//
// Finding keys:
//
//	<Type>.<field>:encoding-depends-on-history   the re-written object's bytes decode to another
//	                                             value of <field> than the one it holds now
//	<Type>:reencode-differs/after-rewrite        bytes differ from the fresh object's, no carried
//	                                             field decodes differently (or nothing decodes)
//	<Type>:reencode-differs/same-object          two writes of the unchanged object differ
//	<Type>:reencode-differs/after-read           a decoded pack that was only read re-encodes differently
//	<Type>:reencode-differs/after-decode-modify  decode, change one place, encode ≠ fresh object

import (
	"bytes"
	"fmt"
	"reflect"
	"sort"
	"strings"

	"github.com/whatap/golib/lang/value"
	"github.com/whatap/golib/util/hmap"

	"verif/refcodec"
	"verif/valgen"
	"verif/vlib"
)

type hist struct {
	ts       *TypeSpec
	typ      string
	where    string
	r        *vlib.Rand
	obj      interface{}
	sv       reflect.Value
	model    *Node
	log      []string
	inDomain bool // the model is still a value the generator could have drawn (no raw flips)
	// exportedOnly: the object was decoded and not read yet; unexported fields may be in a lazy
	// form only the pack's own accessors resolve, so only exported fields are touched
	exportedOnly bool
	found        bool // a finding (known or not) was reported: object and model may have parted
}

func (h *hist) logf(f string, a ...interface{}) { h.log = append(h.log, fmt.Sprintf(f, a...)) }

func newHist(ts *TypeSpec, model *Node, obj interface{}, r *vlib.Rand, where string) *hist {
	v := reflect.ValueOf(obj)
	for v.Kind() == reflect.Ptr {
		v = v.Elem()
	}
	return &hist{ts: ts, typ: ts.Name, where: where, r: r, obj: obj, sv: v, model: model, inDomain: true}
}

// topField cuts a leaf path down to the manifest field of the top type it lies in.
func topField(path string) string {
	if i := strings.IndexAny(path, ".[{"); i >= 0 {
		return path[:i]
	}
	return path
}

// fieldGroups partitions the manifest fields into sets that are only meaningful together:
// the record blob with its count and status, an interface-typed section with the sibling
// that selects its concrete type.
func fieldGroups(ts *TypeSpec) [][]int {
	parent := make([]int, len(ts.Fields))
	for i := range parent {
		parent[i] = i
	}
	var find func(int) int
	find = func(i int) int {
		if parent[i] != i {
			parent[i] = find(parent[i])
		}
		return parent[i]
	}
	join := func(a, b int) {
		if a >= 0 && b >= 0 {
			parent[find(a)] = find(b)
		}
	}
	for i := range ts.Fields {
		f := &ts.Fields[i]
		if f.Kind == "recblob" {
			j, _ := ts.field("RecordCount")
			join(i, j)
			j, _ = ts.field("Status")
			join(i, j)
		}
		sel := f.Select
		if sel == "" && f.Elem != nil {
			sel = f.Elem.Select
		}
		if sel != "" {
			j, _ := ts.field(sel)
			join(i, j)
		}
	}
	by := map[int][]int{}
	var roots []int
	for i := range ts.Fields {
		r := find(i)
		if by[r] == nil {
			roots = append(roots, r)
		}
		by[r] = append(by[r], i)
	}
	out := make([][]int, 0, len(roots))
	for _, r := range roots {
		out = append(out, by[r])
	}
	return out
}

var groupCache = map[string][][]int{}

func groupsOf(ts *TypeSpec) [][]int {
	g, ok := groupCache[ts.Name]
	if !ok {
		g = fieldGroups(ts)
		groupCache[ts.Name] = g
	}
	return g
}

// groupOf returns the whole group the field i belongs to.
func groupOf(ts *TypeSpec, i int) []int {
	for _, g := range groupsOf(ts) {
		for _, j := range g {
			if j == i {
				return g
			}
		}
	}
	return []int{i}
}

// ---------------------------------------------------------------- applying a model to the living object

// strmapValue turns a model entry of a string-keyed linked map into what golib stores.
func strmapValue(f *FieldSpec, n *Node) interface{} {
	switch f.Elem.Kind {
	case "value":
		return valgen.ToGolib(*n.V)
	case "text":
		return n.S
	case "anylist":
		return buildAnyList(n)
	}
	panic("strmapValue: " + f.Elem.Kind)
}

// refill empties the container the object already holds and fills it from the model (no new
// container is assigned). It returns false when the field is not such a container.
func refill(f *FieldSpec, n *Node, fv reflect.Value) bool {
	switch f.Kind {
	case "strmap":
		if fv.IsNil() || n.K != kMap {
			return false
		}
		m := fv.Interface().(*hmap.StringKeyLinkedMap)
		m.Clear()
		for i, k := range n.Keys {
			m.Put(k.S, strmapValue(f, n.L[i]))
		}
		return true
	case "mapvalue":
		if fv.IsNil() || n.K != kVal || n.V.Tag != refcodec.TMap {
			return false
		}
		m := fv.Interface().(*value.MapValue)
		m.Clear()
		for i, k := range n.V.Keys {
			m.Put(k, valgen.ToGolib(n.V.Vals[i]))
		}
		return true
	case "intmapvalue":
		if fv.IsNil() || n.K != kVal || n.V.Tag != refcodec.TIntMap {
			return false
		}
		m := fv.Interface().(*value.IntMapValue)
		m.Clear()
		for i, k := range n.V.IntKeys {
			m.Put(k, valgen.ToGolib(n.V.Vals[i]))
		}
		return true
	}
	return false
}

func (h *hist) assignField(i int) {
	f := &h.ts.Fields[i]
	fv := fieldOf(h.sv, f.Name)
	if h.r.Bool() && refill(f, h.model.L[i], fv) {
		h.logf("%s: cleared and refilled in place", f.Name)
		c.Count("history_refills_in_place", 1)
		return
	}
	buildField(h.model.L[i], f, fv, h.sv)
	h.logf("%s = %s", f.Name, renderStr(h.model.L[i], 160))
}

// put applies the model's fields idx to the living object. A record blob that was built
// from records goes through the pack's own setter; the fields that setter fills in are not
// assigned.
func (h *hist) put(idx []int) {
	set := map[int]bool{}
	for _, i := range idx {
		set[i] = true
	}
	if iRec, fRec := h.ts.field("Records"); fRec != nil && fRec.Kind == "recblob" && set[iRec] {
		rb := h.model.L[iRec]
		if rb.Recs != nil && !strings.Contains(rb.RecMode, "panicked") {
			applyRecords(h.obj, h.typ, rb)
			for _, name := range setterComputed(h.typ) {
				j, _ := h.ts.field(name)
				delete(set, j)
			}
			h.logf("%s of %d records through the pack's own setter (mode %s, zipMinSize %d)", h.typ, len(rb.Recs), rb.RecMode, rb.RecMin)
			c.Count("history_setter_rewrites", 1)
		}
	}
	var order []int
	for i := range set {
		order = append(order, i)
	}
	sort.Ints(order)
	for _, i := range order {
		h.assignField(i)
	}
}

// plainRecords: the record blob is plain bytes from now on (assigned, not handed to the setter).
func (h *hist) plainRecords() {
	if iRec, fRec := h.ts.field("Records"); fRec != nil && fRec.Kind == "recblob" && h.model.L[iRec].Recs != nil {
		plain := *h.model.L[iRec]
		plain.Recs = nil
		h.model.L[iRec] = &plain
	}
}

// syncDerived takes over what the writer computed and keeps (tag hash).
func (h *hist) syncDerived() {
	for i := range h.ts.Fields {
		f := &h.ts.Fields[i]
		if f.Derive != "" && h.model.L[i].K == kInt {
			h.model.L[i].I = getInt(fieldOf(h.sv, f.Name))
		}
	}
}

// ---------------------------------------------------------------- the re-population steps

func (h *hist) stepRegen() {
	donor := genTree(h.typ, h.r.Fork("regen"))
	idx := make([]int, len(h.ts.Fields))
	for i := range idx {
		idx[i] = i
		h.model.L[i] = donor.L[i]
	}
	h.logf("-- regen: every field assigned anew")
	h.put(idx)
}

func (h *hist) stepMix() {
	donor := genTree(h.typ, h.r.Fork("mix"))
	groups := groupsOf(h.ts)
	var idx []int
	for len(idx) == 0 {
		for _, g := range groups {
			if h.r.Bool() {
				idx = append(idx, g...)
			}
		}
	}
	for _, i := range idx {
		h.model.L[i] = donor.L[i]
	}
	h.logf("-- mix: %d of %d fields taken from an independent draw", len(idx), len(h.ts.Fields))
	h.put(idx)
}

func exported(name string) bool { return name != "" && name[0] >= 'A' && name[0] <= 'Z' }

func (h *hist) stepFlips() bool {
	var lv []leaf
	leaves(h.r, h.model, "", "", &lv)
	if h.exportedOnly {
		var keep []leaf
		for _, lf := range lv {
			ok := true
			if i, _ := h.ts.field(topField(lf.path)); i >= 0 {
				for _, j := range groupOf(h.ts, i) {
					ok = ok && exported(h.ts.Fields[j].Name)
				}
			}
			if ok {
				keep = append(keep, lf)
			}
		}
		lv = keep
	}
	if len(lv) == 0 {
		return false
	}
	touched := map[int]bool{}
	n := 1 + h.r.Intn(3)
	h.logf("-- flips")
	for k := 0; k < n; k++ {
		lf := lv[h.r.Intn(len(lv))]
		if lf.flip() == nil {
			continue
		}
		i, _ := h.ts.field(topField(lf.path))
		if i < 0 {
			panic("flip outside the manifest: " + lf.path)
		}
		for _, j := range groupOf(h.ts, i) {
			touched[j] = true
		}
		h.logf("single leaf %s changed", lf.path)
	}
	if len(touched) == 0 {
		return false
	}
	var idx []int
	for i := range touched {
		idx = append(idx, i)
	}
	// a record blob whose bytes, count or status were changed by hand is plain bytes from now
	// on: it is assigned, not handed to the setter again
	if iRec, _ := h.ts.field("Records"); iRec >= 0 && touched[iRec] {
		h.plainRecords()
	}
	h.inDomain = false
	h.put(idx)
	return true
}

func freshStrKey(r *vlib.Rand, have []string, exclude []string) string {
	seen := map[string]bool{}
	for _, k := range have {
		seen[k] = true
	}
	for _, k := range exclude {
		seen[k] = true
	}
	for {
		k := r.Ident()
		if r.Intn(3) == 0 {
			k = r.Str(40)
		}
		if !seen[k] {
			return k
		}
	}
}

// stepInPlace changes a map the object already holds through the map's own API.
func (h *hist) stepInPlace() bool {
	var cand []int
	for i := range h.ts.Fields {
		f := &h.ts.Fields[i]
		n := h.model.L[i]
		fv := fieldOf(h.sv, f.Name)
		if h.exportedOnly && !exported(f.Name) {
			continue
		}
		switch f.Kind {
		case "strmap":
			if n.K == kMap && !fv.IsNil() {
				cand = append(cand, i)
			}
		case "mapvalue":
			if n.K == kVal && n.V.Tag == refcodec.TMap && !fv.IsNil() {
				cand = append(cand, i)
			}
		case "intmapvalue":
			if n.K == kVal && n.V.Tag == refcodec.TIntMap && !fv.IsNil() {
				cand = append(cand, i)
			}
		}
	}
	if len(cand) == 0 {
		return false
	}
	i := cand[h.r.Intn(len(cand))]
	f := &h.ts.Fields[i]
	fv := fieldOf(h.sv, f.Name)
	r := h.r
	h.logf("-- inplace on %s", f.Name)
	nops := 1 + r.Intn(3)
	switch f.Kind {
	case "strmap":
		m := fv.Interface().(*hmap.StringKeyLinkedMap)
		old := h.model.L[i]
		n := &Node{K: kMap, Keys: append([]*Node{}, old.Keys...), L: append([]*Node{}, old.L...)}
		h.model.L[i] = n
		newVal := func() *Node {
			switch f.Elem.Kind {
			case "value":
				v := valgen.Gen(r, 2, 5)
				return &Node{K: kVal, V: &v}
			case "anylist":
				return genAnyList(r)
			}
			return &Node{K: kStr, S: r.Str(300)}
		}
		for k := 0; k < nops; k++ {
			full := f.Max > 0 && len(n.Keys) >= f.Max
			op := r.Intn(3)
			if len(n.Keys) == 0 {
				op = 0
			}
			if op == 0 && full {
				if len(n.Keys) == 0 {
					continue
				}
				op = 2
			}
			switch op {
			case 0: // a new key: appended
				var have []string
				for _, kk := range n.Keys {
					have = append(have, kk.S)
				}
				key, val := freshStrKey(r, have, f.Exclude), newVal()
				m.Put(key, strmapValue(f, val))
				n.Keys, n.L = append(n.Keys, &Node{K: kStr, S: key}), append(n.L, val)
				h.logf("%s.Put(%s, %s) (new key)", f.Name, q(key), renderStr(val, 80))
			case 1: // an existing key: the value is replaced, the position stays
				j := r.Intn(len(n.Keys))
				val := newVal()
				m.Put(n.Keys[j].S, strmapValue(f, val))
				n.L[j] = val
				h.logf("%s.Put(%s, %s) (existing key)", f.Name, q(n.Keys[j].S), renderStr(val, 80))
			case 2:
				j := r.Intn(len(n.Keys))
				m.Remove(n.Keys[j].S)
				h.logf("%s.Remove(%s)", f.Name, q(n.Keys[j].S))
				n.Keys = append(n.Keys[:j:j], n.Keys[j+1:]...)
				n.L = append(n.L[:j:j], n.L[j+1:]...)
			}
		}
	case "mapvalue":
		m := fv.Interface().(*value.MapValue)
		nv := *h.model.L[i].V
		nv.Keys = append([]string{}, nv.Keys...)
		nv.Vals = append([]refcodec.V{}, nv.Vals...)
		for k := 0; k < nops; k++ {
			val := valgen.Gen(r, 1, 4)
			if len(nv.Keys) > 0 && r.Bool() {
				j := r.Intn(len(nv.Keys))
				m.Put(nv.Keys[j], valgen.ToGolib(val))
				nv.Vals[j] = val
				h.logf("%s.Put(%s, %s) (existing key)", f.Name, q(nv.Keys[j]), valgen.Render(val, 80))
			} else {
				key := freshStrKey(r, nv.Keys, nil)
				m.Put(key, valgen.ToGolib(val))
				nv.Keys, nv.Vals = append(nv.Keys, key), append(nv.Vals, val)
				h.logf("%s.Put(%s, %s) (new key)", f.Name, q(key), valgen.Render(val, 80))
			}
		}
		h.model.L[i] = &Node{K: kVal, V: &nv}
	case "intmapvalue":
		m := fv.Interface().(*value.IntMapValue)
		nv := *h.model.L[i].V
		nv.IntKeys = append([]int32{}, nv.IntKeys...)
		nv.Vals = append([]refcodec.V{}, nv.Vals...)
		for k := 0; k < nops; k++ {
			val := valgen.Gen(r, 1, 4)
			if len(nv.IntKeys) > 0 && r.Bool() {
				j := r.Intn(len(nv.IntKeys))
				m.Put(nv.IntKeys[j], valgen.ToGolib(val))
				nv.Vals[j] = val
				h.logf("%s.Put(%d, %s) (existing key)", f.Name, nv.IntKeys[j], valgen.Render(val, 80))
			} else {
				key := int32(genInt(r, 32, false))
				for again := true; again; {
					again = false
					for _, e := range nv.IntKeys {
						if e == key {
							key++
							again = true
						}
					}
				}
				m.Put(key, valgen.ToGolib(val))
				nv.IntKeys, nv.Vals = append(nv.IntKeys, key), append(nv.Vals, val)
				h.logf("%s.Put(%d, %s) (new key)", f.Name, key, valgen.Render(val, 80))
			}
		}
		h.model.L[i] = &Node{K: kVal, V: &nv}
	}
	c.Count("history_inplace_steps", 1)
	return true
}

// stepRecords changes the record list and calls the pack's setter again on the same object.
func (h *hist) stepRecords() bool {
	iRec, fRec := h.ts.field("Records")
	if fRec == nil || fRec.Kind != "recblob" {
		return false
	}
	old := h.model.L[iRec]
	if old.Recs == nil || strings.Contains(old.RecMode, "panicked") || len(old.Recs) > 400 {
		return false
	}
	r := h.r
	g := &genCtx{r: r, depth: 1}
	gen := func() *Node {
		switch h.typ {
		case "ZipPack", "LogSinkZipPack":
			return genInner(g, h.typ)
		}
		if fRec.Type == "TransactionRec" {
			return genStruct(g, fmt.Sprintf("TransactionRec#v%d", old.RecVer))
		}
		return genStruct(g, fRec.Type)
	}
	recs := append([]*Node{}, old.Recs...)
	what := ""
	switch op := r.Intn(3); {
	case op == 0 && len(recs) > 0:
		j := r.Intn(len(recs))
		recs[j] = gen()
		what = fmt.Sprintf("record %d of %d replaced", j, len(recs))
	case op == 1 && len(recs) > 0:
		recs = recs[:len(recs)-1]
		what = fmt.Sprintf("last of %d records dropped", len(recs)+1)
	default:
		recs = append(recs, gen())
		what = fmt.Sprintf("a record appended to %d", len(recs)-1)
	}
	rb := &Node{K: kBytes, Recs: recs, RecMode: old.RecMode, RecVer: old.RecVer, RecMin: old.RecMin}
	switch h.typ {
	case "ZipPack":
		rb.RecMode = []string{"plain", "gzip"}[r.Intn(2)]
	case "LogSinkZipPack":
		rb.RecMin = []int{0, 100, 1 << 30}[r.Intn(3)]
	default:
		rb.RecMode = drawRecMode(r, h.typ)
	}
	deriveRecords(h.typ, h.model, rb)
	h.logf("-- records: %s", what)
	h.put(groupOf(h.ts, iRec))
	c.Count("history_record_list_changes", 1)
	return true
}

func (h *hist) step(k int) {
	_, fRec := h.ts.field("Records")
	container := fRec != nil && fRec.Kind == "recblob"
	p := h.r.Intn(100)
	switch {
	case p < 20:
		h.stepRegen()
		c.Count("history_steps_regen", 1)
	case p < 45:
		h.stepMix()
		c.Count("history_steps_mix", 1)
	case p < 65:
		if !h.stepFlips() {
			h.stepMix()
		}
		c.Count("history_steps_flips", 1)
	default:
		if container && h.stepRecords() {
			return
		}
		if h.stepInPlace() {
			return
		}
		if h.r.Bool() || !h.stepFlips() {
			h.stepMix()
			c.Count("history_steps_mix", 1)
		} else {
			c.Count("history_steps_flips", 1)
		}
	}
}

// ---------------------------------------------------------------- judging

func (h *hist) detail(extra map[string]interface{}) func() map[string]interface{} {
	return func() map[string]interface{} {
		m := map[string]interface{}{"type": h.typ, "where": h.where, "history": append([]string{}, h.log...), "current_field_values": renderStr(h.model, 6000)}
		for k, v := range extra {
			m[k] = v
		}
		return m
	}
}

// freshBytes encodes a brand-new object built from the current model.
func (h *hist) freshBytes() (enc []byte, ok bool) {
	if p := vlib.Catch(func() { enc = encode(h.ts, buildObj(h.model)) }); p != nil {
		// the same values cannot be written by a fresh object either: not a matter of history
		c.Count("history_fresh_object_unwritable", 1)
		return nil, false
	}
	return enc, true
}

// judge compares the living object's bytes with the fresh object's. It returns false when
// an unlisted finding was reported.
func (h *hist) judge(got, fresh []byte, stage string) bool {
	if bytes.Equal(got, fresh) {
		return true
	}
	h.found = true
	typ := h.typ
	at := firstDiff(got, fresh)
	extra := map[string]interface{}{"bytes_of_the_reused_object": hexFull(got), "bytes_of_a_fresh_object_with_the_same_values": hexFull(fresh), "first_differing_byte": at}
	exp := expected(h.model)
	d := decode(h.ts, got)
	var gotTree *Node
	var walkDiff *difference
	if d.problem == "" && d.obj != nil && !reflect.ValueOf(d.obj).IsNil() {
		gotTree, walkDiff = extractGuarded(typ, d.obj)
	}
	explained := false
	if gotTree != nil && walkDiff == nil && d.panicked == nil {
		for i := range h.ts.Fields {
			name := h.ts.Fields[i].Name
			if key := typ + "." + name + ":decode-panics"; c.IsKnown(key) && !isEmptyish(exp.L[i]) {
				break // a listed derailing section is present: nothing after it can be judged
			}
			x := diffNode(exp.L[i], gotTree.L[i], name, name)
			if x == nil {
				continue
			}
			if c.IsKnown(keyOf(typ, x, "not-restored")) {
				continue // the reader's own listed defect, the same for a fresh object
			}
			if x.Inner == "" {
				x.Kind = topField(x.Kind) // one key per manifest field of the pack
			}
			key := keyOf(typ, x, "encoding-depends-on-history")
			what := fmt.Sprintf("%s: %s written again after its fields were changed (%s): the %d bytes differ from those of a fresh %s holding the same values (first at byte %d) and decode with %s = other than the current value: %s", h.where, typ, stage, len(got), typ, at, x.Path, x.What)
			if c.IsKnown(key) {
				c.Fail(key, what, nil)
				explained = true
				continue
			}
			extra["field"] = x.Path
			extra["decoded_from_the_reused_object"] = renderStr(gotTree, 6000)
			fail(key, what, h.detail(extra))
			return false
		}
	}
	if explained {
		return true
	}
	key := typ + ":reencode-differs/" + stage
	why := "every carried field decodes to the current value"
	switch {
	case d.problem != "":
		why = d.problem
	case d.panicked != nil:
		why = fmt.Sprintf("decoding them panics: %v", d.panicked)
	case walkDiff != nil:
		why = walkDiff.What
	case gotTree != nil:
		// values equal, bytes not: is the stream at least a fixed point of decode/encode?
		d2 := decode(h.ts, got)
		var re []byte
		if p := vlib.Catch(func() { re = encode(h.ts, d2.obj) }); p == nil && !bytes.Equal(re, got) {
			why += fmt.Sprintf("; re-encoding the pack decoded from them is NOT byte-identical (differs at byte %d)", firstDiff(re, got))
		}
	}
	what := fmt.Sprintf("%s: %s (%s): the %d bytes of the reused object differ from the %d bytes of a fresh %s holding the same field values, first at byte %d; %s", h.where, typ, stage, len(got), len(fresh), typ, at, why)
	if c.IsKnown(key) {
		c.Fail(key, what, nil)
		return true
	}
	fail(key, what, h.detail(extra))
	return false
}

// write encodes the living object; ok is false when writing panicked (reported).
func (h *hist) write(stage string) (enc []byte, ok bool) {
	if p := vlib.Catch(func() { enc = encode(h.ts, h.obj) }); p != nil {
		if _, can := h.freshBytes(); can {
			h.found = true
			fail(h.typ+":encode-panics/"+stage, fmt.Sprintf("%s: writing the reused %s panicked (%v) while a fresh object with the same values is written fine", h.where, h.typ, p), h.detail(nil))
		}
		return nil, false
	}
	return enc, true
}

// settled returns the tree with what a writer is allowed to leave behind in a written object
// taken out, at every nesting depth: the reserved keys parked in an attribute map and the
// computed value of a derived field (tag hash).
func settled(n *Node) *Node {
	if n == nil {
		return n
	}
	switch n.K {
	case kList:
		c := *n
		c.L = make([]*Node, len(n.L))
		for i, e := range n.L {
			c.L[i] = settled(e)
		}
		return &c
	case kStruct:
		ts := man.T(n.T)
		c := *n
		c.L = append([]*Node{}, n.L...)
		for i := range ts.Fields {
			f := &ts.Fields[i]
			switch {
			case f.Derive != "":
				c.L[i] = nInt(0)
			case f.Kind == "strmap" && len(f.Exclude) > 0 && c.L[i].K == kMap:
				m := &Node{K: kMap}
				for j, k := range c.L[i].Keys {
					skip := false
					for _, e := range f.Exclude {
						skip = skip || e == k.S
					}
					if !skip {
						m.Keys, m.L = append(m.Keys, k), append(m.L, c.L[i].L[j])
					}
				}
				c.L[i] = m
			case c.L[i] != nil && (c.L[i].K == kStruct || c.L[i].K == kList):
				c.L[i] = settled(c.L[i])
			}
		}
		return &c
	}
	return n
}

// runHistory: oracle (7) on one populated instance.
func runHistory(ts *TypeSpec, tree *Node, i int, r *vlib.Rand, where string, clean bool) {
	typ := ts.Name
	var obj interface{}
	if p := vlib.Catch(func() { obj = buildObj(tree) }); p != nil {
		return // reported by roundTrip
	}
	model := *tree
	model.L = append([]*Node{}, tree.L...)
	h := newHist(ts, &model, obj, r, where)
	h.logf("fresh %s populated and written", typ)
	enc0, ok := h.write("first-write")
	if !ok {
		return // a populated fresh object that cannot be written is roundTrip's finding
	}
	h.syncDerived()
	// the unchanged object written twice
	again, ok := h.write("same-object")
	if !ok {
		return
	}
	h.logf("written again unchanged")
	if !h.judge(again, enc0, "same-object") {
		return
	}
	c.Count("history_same_object_rewrites", 1)
	steps := 2 + i%2
	for k := 1; k <= steps; k++ {
		if p := vlib.Catch(func() { h.step(k) }); p != nil {
			fail("harness:history-step-panics/"+typ, fmt.Sprintf("%s: applying a re-population step panicked: %v", where, p), h.detail(nil))
			return
		}
		fresh, can := h.freshBytes()
		if !can {
			return
		}
		got, ok := h.write("after-rewrite")
		if !ok {
			return
		}
		h.logf("written (%d bytes)", len(got))
		if !h.judge(got, fresh, "after-rewrite") {
			return
		}
		h.syncDerived()
		c.Count("history_rewrites_compared", 1)
		c.Eval(1) // each compared rewrite is one evaluation of the oracle
		c.DistinctBytes(got)
		if h.found {
			break // object and model have parted over a listed finding
		}
	}
	if !h.found {
		if fresh, can := h.freshBytes(); can {
			if again, ok := h.write("same-object"); ok && h.judge(again, fresh, "same-object") {
				c.Count("history_same_object_rewrites", 1)
			}
		}
	}
	// harness self-check at the very end (walking an object may change it): the living object
	// holds the model
	if !h.found {
		var back *Node
		if p := vlib.Catch(func() { back = extractObj(typ, obj) }); p == nil {
			if d := diffNode(settled(h.model), settled(back), "", ""); d != nil {
				fail("harness:history-self-check/"+typ+"."+d.Kind, fmt.Sprintf("%s: after the re-population steps the object does not hold the model at %s: %s", where, d.Path, d.What), h.detail(nil))
				return
			}
		}
		// and a fresh object with the final values is an ordinary round trip
		if h.inDomain && i%4 == 0 {
			if roundTrip(ts, h.model, where+" (final values of the history)") {
				c.Count("history_final_values_roundtrip_ok", 1)
			}
		}
	}
	c.Count("histories", 1)
	c.SetAdd("history_types_covered", typ)
	if clean {
		decodeModify(ts, enc0, r.Fork("decmod"), where)
	}
}

// decodeModify: a decoded pack is read, then changed in one place and written: the bytes
// must be those of a fresh object holding the same values.
func decodeModify(ts *TypeSpec, enc []byte, r *vlib.Rand, where string) {
	typ := ts.Name
	d := decode(ts, enc)
	if d.problem != "" || d.panicked != nil || d.obj == nil {
		return
	}
	// half of the time the pack that is changed has been read through its accessors before,
	// otherwise the values are taken from a second decoded copy and the pack itself is untouched
	unread := r.Bool()
	readFrom := d
	if unread {
		readFrom = decode(ts, enc)
	}
	got, diff := extractGuarded(typ, readFrom.obj) // the read access
	if diff != nil || got == nil {
		return
	}
	h := newHist(ts, got, d.obj, r, where)
	h.exportedOnly = unread
	if unread {
		h.logf("%s decoded from %d bytes, not read", typ, len(enc))
	} else {
		h.logf("%s decoded from %d bytes and read through its accessors", typ, len(enc))
	}
	if hasUnorderedMulti(got) {
		// a plain hash map with several entries is rebuilt in another table order by a fresh object
		c.Count("history_decode_modify_skipped_unordered", 1)
		return
	}
	// only read: still the same bytes as an untouched decoded copy (checked on a copy of its
	// own, so that the pack changed below has never been written)
	d2, d3 := decode(ts, enc), decode(ts, enc)
	var ref, after []byte
	if p := vlib.Catch(func() { ref = encode(ts, d2.obj) }); p != nil {
		return
	}
	if _, x := extractGuarded(typ, d3.obj); x != nil {
		return
	}
	if p := vlib.Catch(func() { after = encode(ts, d3.obj) }); p != nil || !bytes.Equal(after, ref) {
		key := typ + ":reencode-differs/after-read"
		fail(key, fmt.Sprintf("%s: a decoded %s that was only read through its accessors re-encodes differently from an untouched decoded copy (byte %d, panic %v)", where, typ, firstDiff(after, ref), p),
			h.detail(map[string]interface{}{"bytes": hexFull(enc), "reencoded_untouched": hexFull(ref), "reencoded_after_read": hexFull(after)}))
		return
	}
	h.syncDerived()
	done := false
	if p := vlib.Catch(func() {
		if r.Intn(3) == 0 {
			done = h.stepInPlace()
		}
		if !done {
			done = h.stepFlips()
		}
	}); p != nil {
		fail("harness:history-step-panics/"+typ, fmt.Sprintf("%s: changing the decoded pack panicked: %v", where, p), h.detail(nil))
		return
	}
	if !done {
		return
	}
	fresh, can := h.freshBytes()
	if !can {
		return
	}
	out, ok := h.write("after-decode-modify")
	if !ok {
		return
	}
	h.logf("written (%d bytes)", len(out))
	if h.judge(out, fresh, "after-decode-modify") && !h.found {
		c.Count("history_decode_modify_ok", 1)
		if unread {
			c.Count("history_decode_modify_unread_ok", 1)
		}
	}
}

// historyFlip (sweep): one manifest leaf changed on a written object and changed back, both
// directions compared with fresh objects.
func historyFlip(ts *TypeSpec, tree *Node, lf leaf, r *vlib.Rand, where string) {
	var obj interface{}
	if p := vlib.Catch(func() { obj = buildObj(tree) }); p != nil {
		return
	}
	h := newHist(ts, tree, obj, r, where)
	h.logf("fresh %s populated and written", ts.Name)
	if _, ok := h.write("first-write"); !ok {
		return
	}
	h.syncDerived()
	i, _ := ts.field(topField(lf.path))
	if i < 0 {
		return
	}
	undo := lf.flip()
	if undo == nil {
		return
	}
	defer func() {
		if undo != nil {
			undo()
		}
	}()
	h.plainRecords() // a leaf changed by hand: blob, count and status are plain fields here
	for dir := 0; dir < 2; dir++ {
		if dir == 1 {
			undo()
			undo = nil
			h.logf("-- %s changed back", lf.path)
		} else {
			h.logf("-- single leaf %s changed", lf.path)
		}
		if p := vlib.Catch(func() { h.put(groupOf(ts, i)) }); p != nil {
			fail("harness:history-step-panics/"+ts.Name, fmt.Sprintf("%s: assigning the changed field panicked: %v", where, p), h.detail(nil))
			return
		}
		fresh, can := h.freshBytes()
		if !can {
			return
		}
		got, ok := h.write("after-rewrite")
		if !ok {
			return
		}
		h.logf("written (%d bytes)", len(got))
		if !h.judge(got, fresh, "after-rewrite") || h.found {
			return
		}
		h.syncDerived()
		c.Count("sweep_history_flips", 1)
	}
}
