// wC03 — every pack type survives serialize/deserialize with all carried fields intact.
//
// Driven by the committed carried-field manifest spec/pack_fields.json (see spec.go): for each
// pack type the factory registers, each unregistered pack with a Write/Read pair, each pack
// element with its own Write/Read and each record type, a neutral model tree is drawn from
// the seeded PRNG (node.go), turned into the real golib object by reflection (bind.go),
// encoded, decoded with a canary suffix, read back by reflection and compared:
//
//	(1) same concrete type   (2) every manifest field equal (first differing path reported)
//	(3) the decoder consumed exactly the encoding   (4) re-encoding is byte-identical
//	(5) container / record-list packs: GetRecords() of the decoded pack returns the inner
//	    packs / records equal, in order, stamped with the container's identity (containers.go)
//	(6) sensitivity: flipping one manifest field alone changes the encoding
//	(7) history (history.go): the same object written twice, re-populated (all fields / some
//	    fields / single leaves / maps changed in place / SetRecords* called again) and written
//	    again, and a decoded pack read, changed in one place and written, always yields the bytes
//	    of a FRESH object holding the same current field values
//	(9) the environment (env.go): all of the above with every environment variable golib reads
//	    set to non-zero / non-empty values (for the case, and from process start in a child)
//	(10) payload redundancy of the compressed containers (redundancy.go): incompressible,
//	    ordinary, byte-identical records, long runs of one byte: ratios from < 1 to > 1000 : 1
//
// Finding keys: <Type>.<field pattern>:<kind>, kind ∈ not-restored, not-consumed,
// reencode-differs, decode-panics, not-carried, records-differ, records-not-stamped,
// encoding-depends-on-history (<Type>:<kind> where no single field applies;
// <Type>:reencode-differs/<stage> for (7)). A difference inside a nested pack is keyed
// by the inner pack's type. (8): <Type>.<field>:not-restored/used-object (header fields under
// AbstractPack), <Type>:decode-panics|not-consumed|reencode-differs/used-object,
// <Type>.<field>:handed-out-altered-by-later-read; (9): <Type>:bytes-depend-on-environment.
package main

import (
	"bytes"
	"encoding/hex"
	"fmt"
	"os"
	"reflect"
	"runtime/debug"
	"sort"
	"strconv"
	"strings"

	gio "github.com/whatap/golib/io"
	"github.com/whatap/golib/lang/pack"
	"github.com/whatap/golib/util/compressutil"

	"verif/vlib"
)

var c *vlib.Ctx

var canary = []byte{0xA5, 0x5A, 0xC3, 0x3C, 0x99}

func hexFull(b []byte) string {
	const max = 4096
	if len(b) <= max {
		return hex.EncodeToString(b)
	}
	return fmt.Sprintf("%s…(%d bytes)", hex.EncodeToString(b[:max]), len(b))
}

func firstDiff(a, b []byte) int {
	n := len(a)
	if len(b) < n {
		n = len(b)
	}
	for i := 0; i < n; i++ {
		if a[i] != b[i] {
			return i
		}
	}
	if len(a) != len(b) {
		return n
	}
	return -1
}

var reported = map[string]bool{}

// fail reports once with the full detail and afterwards only counts.
func fail(key, what string, detail func() map[string]interface{}) {
	if c.IsKnown(key) || reported[key] {
		c.Fail(key, what, nil)
		return
	}
	reported[key] = true
	c.Fail(key, what, detail())
}

func parseCode(s string) int16 {
	v, err := strconv.ParseInt(strings.TrimPrefix(s, "0x"), 16, 32)
	if err != nil {
		panic("bad type code " + s)
	}
	return int16(v)
}

// ---------------------------------------------------------------- codecs per class

func callMethod(obj interface{}, name string, arg interface{}) {
	m := reflect.ValueOf(obj).MethodByName(name)
	if !m.IsValid() {
		panic(fmt.Sprintf("%T has no method %s", obj, name))
	}
	m.Call([]reflect.Value{reflect.ValueOf(arg)})
}

func txVersion(typ string) byte { return typ[len(typ)-1] - '0' }

// encodeInto writes obj into out the way the manifest's round_trip says (packs with their type
// short, elements and records with their own writer).
func encodeInto(ts *TypeSpec, obj interface{}, out *gio.DataOutputX) {
	switch ts.Class {
	case "pack":
		pack.WritePack(out, obj.(pack.Pack))
	case "element":
		callMethod(obj, "Write", out)
	case "record":
		switch r := obj.(type) {
		case *pack.ErrorRec:
			pack.NewStatErrorPack().WriteRec(out, r)
		case *pack.ServiceRec:
			pack.NewStatServicePack().WriteRec(out, r)
		case *pack.TransactionRec:
			pack.WriteTransactionRec(out, r, txVersion(ts.Name))
		case *pack.DownCheckRec:
			pack.NewSMDownCheckPack().WriteRec(out, r)
		default:
			panic("encode: record " + ts.Name)
		}
	default:
		panic("encode: class " + ts.Class)
	}
}

// encodeFn names the library call whose result encodeRaw returns (finding keys of held.go).
func encodeFn(ts *TypeSpec) string {
	switch {
	case ts.Class == "pack" && ts.Registered:
		return "pack.ToBytesPack"
	case ts.Class == "pack":
		return "pack.WritePack"
	case ts.Class == "element":
		return strings.SplitN(ts.Name, "#", 2)[0] + ".Write"
	}
	return strings.SplitN(ts.Name, "#", 2)[0] + ".WriteRec"
}

// encodeRaw returns the bytes exactly as the library hands them out (ToBytesPack's result, or
// the ToByteArray result of the output written to).
func encodeRaw(ts *TypeSpec, obj interface{}) []byte {
	if ts.Class == "pack" && ts.Registered {
		return pack.ToBytesPack(obj.(pack.Pack))
	}
	out := gio.NewDataOutputX()
	encodeInto(ts, obj, out)
	return out.ToByteArray()
}

// encode is what the oracles use: the slice the library returned goes into the held-results
// ring as returned (held.go), the oracle works on a private copy taken at once.
func encode(ts *TypeSpec, obj interface{}) []byte {
	raw := encodeRaw(ts, obj)
	return ringKeep(ts, raw)
}

type decoded struct {
	obj      interface{} // decoded object (partially filled when the reader panicked)
	avail    int         // bytes left in the stream (canary length when exactly consumed)
	panicked interface{}
	problem  string // factory did not know the type, wrong type short …
}

// decode reads enc+canary back.
func decode(ts *TypeSpec, enc []byte) (d decoded) {
	buf := append(append(make([]byte, 0, len(enc)+len(canary)), enc...), canary...)
	in := gio.NewDataInputX(buf)
	d.panicked = vlib.Catch(func() {
		switch ts.Class {
		case "pack":
			t := in.ReadShort()
			if t != parseCode(ts.Code) {
				d.problem = fmt.Sprintf("type short on the wire is %#x, manifest says %s", uint16(t), ts.Code)
				return
			}
			if ts.Registered {
				p := pack.CreatePack(t)
				if p == nil || reflect.ValueOf(p).IsNil() {
					d.problem = fmt.Sprintf("pack.CreatePack(%#x) returned nil", uint16(t))
					return
				}
				d.obj = p
				p.Read(in)
			} else {
				p := newObj(ts.Name).(pack.Pack)
				d.obj = p
				p.Read(in)
			}
		case "element":
			d.obj = newObj(ts.Name)
			callMethod(d.obj, "Read", in)
		case "record":
			switch ts.Name {
			case "ErrorRec":
				d.obj = pack.NewStatErrorPack().ReadRec(in)
			case "ServiceRec":
				d.obj = pack.ReadRec(in)
			case "DownCheckRec":
				d.obj = pack.NewSMDownCheckPack().ReadRec(in)
			default:
				d.obj = pack.ReadTransactionRec(in)
			}
		}
	})
	d.avail = int(in.Available())
	ringVerify("decoding a " + ts.Name)
	return d
}

// ---------------------------------------------------------------- one instance

type caseStats struct{ flips, applicable int }

func keyOf(typ string, d *difference, kind string) string {
	if d == nil {
		return typ + ":" + kind
	}
	t := typ
	if d.Inner != "" {
		t = d.Inner
	}
	if d.Kind == "" {
		return t + ":" + kind
	}
	return t + "." + d.Kind + ":" + kind
}

func noteSections(ts *TypeSpec, tree *Node) {
	for i := range ts.Fields {
		f := &ts.Fields[i]
		n := tree.L[i]
		switch f.Kind {
		case "ptr", "strmap", "strintmap", "intintlmap", "intintmap", "intkeylmap", "intkeymap", "linkedmap", "mapvalue", "intmapvalue",
			"blob", "recblob", "ints", "list", "packs", "strptr":
			st := "non-empty"
			switch {
			case n.K == kAbsent || n.Nil:
				st = "nil"
			case isEmptyish(n):
				st = "empty"
			}
			c.SetAdd("optional_sections_seen", ts.Name+"."+f.Name+"="+st)
		}
	}
	if i, _ := ts.field("Okind"); i >= 0 && ts.Class == "pack" {
		j, _ := ts.field("Onode")
		if tree.L[i].I|tree.L[j].I == 0 {
			c.Count("header_short_form", 1)
			c.SetAdd("header_forms_seen", ts.Name+"=short")
		} else {
			c.Count("header_long_form", 1)
			c.SetAdd("header_forms_seen", ts.Name+"=long")
		}
	}
}

func genTree(typ string, r *vlib.Rand) *Node {
	g := &genCtx{r: r}
	return genStruct(g, typ)
}

// roundTrip runs oracles (1)-(5) on one populated instance and returns false when a finding
// was reported (the sensitivity flips are then skipped).
func roundTrip(ts *TypeSpec, tree *Node, where string) bool {
	typ := ts.Name
	detail := func(extra map[string]interface{}) func() map[string]interface{} {
		return func() map[string]interface{} {
			m := map[string]interface{}{"type": typ, "where": where, "populated": renderStr(tree, 6000)}
			for k, v := range extra {
				m[k] = v
			}
			return m
		}
	}
	var obj interface{}
	if p := vlib.Catch(func() { obj = buildObj(tree) }); p != nil {
		fail("harness:build-panics/"+typ, fmt.Sprintf("%s: building the object from the model panicked: %v", where, p), detail(map[string]interface{}{"stack": string(debug.Stack())}))
		return false
	}
	// harness self-check: the object holds exactly what the model says
	var back *Node
	if p := vlib.Catch(func() { back = extractObj(typ, obj) }); p != nil {
		fail("harness:extract-panics/"+typ, fmt.Sprintf("%s: reading the freshly built object back panicked: %v", where, p), detail(nil))
		return false
	}
	if d := diffNode(tree, back, "", ""); d != nil {
		fail("harness:self-check/"+typ+"."+d.Kind, fmt.Sprintf("%s: freshly built %s does not hold the model at %s: %s", where, typ, d.Path, d.What), detail(nil))
		return false
	}
	exp := expected(tree)

	var enc []byte
	if p := vlib.Catch(func() { enc = encode(ts, obj) }); p != nil {
		fail(typ+":encode-panics", fmt.Sprintf("%s: writing a populated %s panicked: %v", where, typ, p), detail(nil))
		return false
	}
	c.Count("bytes_encoded", int64(len(enc)))
	c.DistinctBytes(enc)

	d := decode(ts, enc)
	if d.problem != "" {
		fail(typ+":decode-panics", where+": "+d.problem, detail(map[string]interface{}{"bytes": hexFull(enc)}))
		return false
	}
	// (1) same concrete type
	if d.obj != nil && reflect.TypeOf(d.obj) != reflect.TypeOf(obj) {
		fail(typ+":type-changed", fmt.Sprintf("%s: a %T was written, a %T came back", where, obj, d.obj), detail(map[string]interface{}{"bytes": hexFull(enc)}))
		return false
	}
	// (2) structural equality on every manifest field, in wire order. A differing field whose
	// key is a listed known finding is counted and the walk goes on, so that a recorded defect
	// does not hide another one behind it.
	var got *Node
	var diff *difference
	if d.obj != nil && !reflect.ValueOf(d.obj).IsNil() {
		got, diff = extractGuarded(typ, d.obj)
	}
	more := func() map[string]interface{} {
		m := map[string]interface{}{"bytes": hexFull(enc), "expected": renderStr(exp, 6000)}
		if got != nil {
			m["decoded"] = renderStr(got, 6000)
		}
		if diff != nil {
			m["first_difference"] = diff.Path + ": " + diff.What
		}
		return m
	}
	if diff == nil && got != nil {
		for i := range ts.Fields {
			name := ts.Fields[i].Name
			// a section listed as known to derail the decoder (key <Type>.<field>:decode-panics) that is
			// present in the written pack: the instance is counted there; nothing at or after that
			// section can be judged
			if key := typ + "." + name + ":decode-panics"; c.IsKnown(key) && !isEmptyish(exp.L[i]) {
				c.Fail(key, "", nil)
				c.Count("instances_cut_at_known_derailing_section", 1)
				return false
			}
			x := diffNode(exp.L[i], got.L[i], name, name)
			if x == nil {
				continue
			}
			if key := keyOf(typ, x, "not-restored"); c.IsKnown(key) {
				c.Fail(key, "", nil)
				c.Count("known_field_differences_walked_past", 1)
				if diff == nil {
					diff = x
				}
				continue
			}
			diff = x
			break
		}
	}
	if d.panicked != nil {
		m := more()
		m["panic"] = fmt.Sprint(d.panicked)
		w := fmt.Sprintf("%s: decoding a written %s panicked: %v", where, typ, d.panicked)
		if diff != nil {
			w += fmt.Sprintf("; first field not restored: %s (%s)", diff.Path, diff.What)
		}
		fail(keyOf(typ, diff, "decode-panics"), w, detail(m))
		return false
	}
	if diff != nil {
		key := keyOf(typ, diff, "not-restored")
		if !c.IsKnown(key) || got == nil {
			fail(key, fmt.Sprintf("%s: %s field %s differs after the round trip: %s", where, typ, diff.Path, diff.What), detail(more()))
		}
		return false
	}
	// (3) exactly consumed
	if d.avail != len(canary) {
		fail(typ+":not-consumed", fmt.Sprintf("%s: decoding a %d-byte %s left %d bytes instead of the %d canary bytes", where, len(enc), typ, d.avail, len(canary)), detail(more()))
		return false
	}
	// (4) re-encoding, on a second decoded copy (walking or writing a pack may change it:
	// EventPack.Write adds the reserved attributes, StatGeneralPack.GetDataTable unpacks)
	d2 := decode(ts, enc)
	var reenc []byte
	if p := vlib.Catch(func() { reenc = encode(ts, d2.obj) }); p != nil {
		fail(typ+":reencode-differs", fmt.Sprintf("%s: re-encoding the decoded %s panicked: %v", where, typ, p), detail(more()))
		return false
	}
	if !bytes.Equal(reenc, enc) && !reencodeAccepted(ts, tree, exp, enc, reenc) {
		// a section listed as known to be dropped by the reader, written present-but-empty: equal
		// under nil ≡ empty, but its presence byte is lost — the same recorded defect
		for i := range ts.Fields {
			key := typ + "." + ts.Fields[i].Name + ":not-restored"
			if c.IsKnown(key) && exp.L[i].K != kAbsent && !exp.L[i].Nil && (got.L[i].K == kAbsent || got.L[i].Nil) {
				c.Fail(key, "", nil)
				c.Count("reencode_differs_by_known_dropped_section", 1)
				return false
			}
		}
		m := more()
		m["reencoded"] = hexFull(reenc)
		fail(typ+":reencode-differs", fmt.Sprintf("%s: re-encoding the decoded %s differs at byte %d (%d vs %d bytes)", where, typ, firstDiff(enc, reenc), len(enc), len(reenc)), detail(m))
		return false
	}
	c.Count("roundtrips_ok", 1)
	// registered packs additionally through the one-call API: ToPack -> ToBytesPack
	if ts.Class == "pack" && ts.Registered {
		var again []byte
		if p := vlib.Catch(func() { again = ringKeep(ts, pack.ToBytesPack(pack.ToPack(enc))) }); p != nil {
			fail(typ+":decode-panics", fmt.Sprintf("%s: pack.ToPack/ToBytesPack panicked: %v", where, p), detail(more()))
			return false
		}
		if !bytes.Equal(again, enc) && !bytes.Equal(again, reenc) {
			fail(typ+":reencode-differs", fmt.Sprintf("%s: ToBytesPack(ToPack(b)) differs from b at byte %d", where, firstDiff(enc, again)), detail(more()))
			return false
		}
		c.Count("topack_roundtrips_ok", 1)
	}
	// (5) containers and record lists
	return checkRecords(ts, tree, exp, d.obj, where, enc)
}

// extractGuarded walks the decoded object; a panic while walking is attributed to the field
// being read (e.g. StatGeneralPack.data, whose accessor parses the kept bytes lazily).
func extractGuarded(typ string, obj interface{}) (got *Node, diff *difference) {
	extracting = ""
	if p := vlib.Catch(func() { got = extractObj(typ, obj) }); p != nil {
		f := extracting
		return nil, &difference{Path: f, Kind: f, What: fmt.Sprintf("reading the decoded %s.%s panicked: %v", typ, f, p)}
	}
	return got, nil
}

// hasUnorderedMulti tells whether the tree holds a plain (unordered) hash map with two or
// more entries: its iteration order depends on the table capacity, which the wire does not carry.
func hasUnorderedMulti(n *Node) bool {
	if n == nil {
		return false
	}
	if n.K == kMap && n.Unordered && len(n.L) > 1 {
		return true
	}
	for _, c := range n.L {
		if hasUnorderedMulti(c) {
			return true
		}
	}
	for _, c := range n.Keys {
		if hasUnorderedMulti(c) {
			return true
		}
	}
	return false
}

// reencodeAccepted covers the two situations where a correct codec does not reproduce the
// bytes: (a) the manifest's decoder rules map the written value to a canonical one (error
// level 0 -> 20 in the embedded transaction record): the re-encoding must then equal the
// encoding of the canonical form; (b) records holding a plain hash map with several entries
// are re-written in the table order of the decoded map: the re-encoding must have the same
// length and decode to the same model.
func reencodeAccepted(ts *TypeSpec, tree, exp *Node, enc, reenc []byte) bool {
	if diffNode(tree, exp, "", "") != nil {
		var canon []byte
		if p := vlib.Catch(func() { canon = encode(ts, buildObj(exp)) }); p == nil && bytes.Equal(canon, reenc) {
			c.Count("reencode_equals_canonical_form", 1)
			return true
		}
	}
	if ts.Class != "pack" && hasUnorderedMulti(tree) && len(reenc) == len(enc) {
		d := decode(ts, reenc)
		if d.panicked == nil && d.obj != nil && d.avail == len(canary) {
			if got, diff := extractGuarded(ts.Name, d.obj); diff == nil && diffNode(exp, got, "", "") == nil {
				c.Count("reencode_same_up_to_hash_table_order", 1)
				return true
			}
		}
	}
	return false
}

func headerOf(obj interface{}) (h [4]int64, ok bool) {
	v := reflect.ValueOf(obj)
	for v.Kind() == reflect.Ptr {
		v = v.Elem()
	}
	for i, n := range []string{"Pcode", "Oid", "Okind", "Onode"} {
		f := v.FieldByName(n)
		if !f.IsValid() {
			return h, false
		}
		h[i] = f.Int()
	}
	return h, true
}

func checkRecords(ts *TypeSpec, tree, exp *Node, dec interface{}, where string, enc []byte) bool {
	typ := ts.Name
	iRec, fRec := ts.field("Records")
	if fRec == nil || fRec.Kind != "recblob" || tree.L[iRec].Recs == nil {
		return true
	}
	rb := tree.L[iRec]
	detail := func(extra map[string]interface{}) func() map[string]interface{} {
		return func() map[string]interface{} {
			m := map[string]interface{}{"type": typ, "where": where, "filled_by": rb.RecMode, "records": len(rb.Recs), "populated": renderStr(tree, 6000), "bytes": hexFull(enc)}
			for k, v := range extra {
				m[k] = v
			}
			return m
		}
	}
	if strings.Contains(rb.RecMode, "panicked") {
		fail(typ+".Records:records-differ", fmt.Sprintf("%s: %s with %d records: %s", where, typ, len(rb.Recs), rb.RecMode), detail(nil))
		return false
	}
	var got []interface{}
	if p := vlib.Catch(func() { got = getRecords(typ, dec) }); p != nil {
		fail(typ+".Records:records-differ", fmt.Sprintf("%s: GetRecords() of the decoded %s (%d records filled by %s) panicked: %v", where, typ, len(rb.Recs), rb.RecMode, p), detail(nil))
		return false
	}
	ringVerify("GetRecords() of a decoded " + typ)
	if len(got) != len(rb.Recs) {
		fail(typ+".Records:records-differ", fmt.Sprintf("%s: %s was filled with %d records by %s, GetRecords() of the decoded pack returns %d", where, typ, len(rb.Recs), rb.RecMode, len(got)), detail(nil))
		return false
	}
	zip := typ == "ZipPack" || typ == "LogSinkZipPack"
	ch, _ := headerOf(dec)
	seen := map[*Node]bool{}
	for i, x := range got {
		want := rb.Recs[i]
		if x == nil || reflect.ValueOf(x).IsNil() {
			fail(typ+".Records:records-differ", fmt.Sprintf("%s: record %d returned by GetRecords() is nil", where, i), detail(nil))
			return false
		}
		if zip {
			if tn := typeNameOf(x); tn != want.T {
				fail(typ+".Records:records-differ", fmt.Sprintf("%s: inner pack %d was a %s, GetRecords() returns a %s", where, i, want.T, tn), detail(nil))
				return false
			}
			if h, ok := headerOf(x); ok && h != ch {
				fail(typ+".Records:records-not-stamped", fmt.Sprintf("%s: inner pack %d (%s) has pcode/oid/okind/onode %v, the container has %v", where, i, want.T, h, ch), detail(nil))
				return false
			}
		}
		if len(got) > 500 && seen[want] && i%997 != 0 && (!zip || i%37 != 0) {
			continue // long lists repeat a pool of records: compare each distinct record once, plus a stride
		}
		seen[want] = true
		if zip {
			c.Count("inner_packs_compared", 1)
		} else {
			c.Count("records_compared", 1)
		}
		w := expected(want)
		if zip {
			w = stamp(w, exp)
		}
		var g *Node
		if p := vlib.Catch(func() { g = extractObj(want.T, x) }); p != nil {
			fail(typ+".Records:records-differ", fmt.Sprintf("%s: walking record %d panicked: %v", where, i, p), detail(nil))
			return false
		}
		if d := diffNode(w, g, "", ""); d != nil {
			// the right records in another order? then the container, not the record codec, is at fault
			for j, other := range rb.Recs {
				if j == i || other.T != want.T || len(rb.Recs) > 500 {
					continue
				}
				o := expected(other)
				if zip {
					o = stamp(o, exp)
				}
				if diffNode(o, g, "", "") == nil {
					fail(typ+".Records:records-differ", fmt.Sprintf("%s: %s filled by %s: GetRecords() returns at position %d the record that was put at position %d (order not kept)", where, typ, rb.RecMode, i, j), detail(nil))
					return false
				}
			}
			key := typ + ".Records:records-differ"
			inner := want.T
			if d.Inner != "" {
				inner = d.Inner
			}
			if d.Kind != "" {
				// name the record / inner type and its field: the defect lies in that codec
				key = inner + "." + d.Kind + ":records-differ"
			}
			fail(key, fmt.Sprintf("%s: %s filled by %s: record %d (%s) differs at %s: %s", where, typ, rb.RecMode, i, want.T, d.Path, d.What),
				detail(map[string]interface{}{"record_expected": renderStr(w, 3000), "record_returned": renderStr(g, 3000)}))
			return false
		}
	}
	c.Count("record_lists_checked", 1)
	c.SetAdd("record_list_shapes", fmt.Sprintf("%s/%s/%s", typ, rb.RecMode, sizeClass(len(rb.Recs))))
	if zip {
		noteRatio(typ, rb, len(rb.B))
	}
	if len(got) > 0 && len(got) <= 300 {
		if !recordsAgain(ts, rb, exp, dec, got, where, detail) {
			return false
		}
	}
	return true
}

// recordsAgain: what a container hands out belongs to the caller, and what it hands out next
// depends on the container as it is THEN (added after seeded change C03r6-3: GetRecords kept
// the decoded inner packs and returned the same objects again). The records returned by the
// first call are overwritten by the caller (every settable exported field, byte slices in
// place); a second call must still return the records that were put in. For the zip
// containers the decoded container is then given another identity (project code, object id,
// kind, node) and a third call must return inner packs stamped with THAT identity.
func recordsAgain(ts *TypeSpec, rb *Node, exp *Node, dec interface{}, first []interface{}, where string, detail func(map[string]interface{}) func() map[string]interface{}) bool {
	typ := ts.Name
	zip := typ == "ZipPack" || typ == "LogSinkZipPack"
	for _, x := range first {
		scribbleObj(reflect.ValueOf(x), 0)
	}
	var again []interface{}
	if p := vlib.Catch(func() { again = getRecords(typ, dec) }); p != nil {
		fail(typ+".GetRecords:second-call-differs", fmt.Sprintf("%s: a second GetRecords() of the decoded %s panicked after the caller had modified the records the first call returned: %v", where, typ, p), detail(nil))
		return false
	}
	if len(again) != len(first) {
		fail(typ+".GetRecords:second-call-differs", fmt.Sprintf("%s: a second GetRecords() of the decoded %s returns %d records, the first returned %d", where, typ, len(again), len(first)), detail(nil))
		return false
	}
	for i, x := range again {
		want := rb.Recs[i]
		if x == nil || reflect.ValueOf(x).IsNil() {
			fail(typ+".GetRecords:second-call-differs", fmt.Sprintf("%s: record %d of a second GetRecords() is nil", where, i), detail(nil))
			return false
		}
		w := expected(want)
		if zip {
			if typeNameOf(x) != want.T {
				fail(typ+".GetRecords:second-call-differs", fmt.Sprintf("%s: inner pack %d of a second GetRecords() is a %s, a %s was put in", where, i, typeNameOf(x), want.T), detail(nil))
				return false
			}
			w = stamp(w, exp)
		}
		var g *Node
		if p := vlib.Catch(func() { g = extractObj(want.T, x) }); p != nil {
			fail(typ+".GetRecords:second-call-differs", fmt.Sprintf("%s: walking record %d of a second GetRecords() panicked: %v", where, i, p), detail(nil))
			return false
		}
		if d := diffNode(w, g, "", ""); d != nil {
			fail(typ+".GetRecords:second-call-differs", fmt.Sprintf("%s: %s: the caller modified the records returned by GetRecords(); a second GetRecords() returns record %d (%s) differing from what was put in at %s: %s", where, typ, i, want.T, d.Path, d.What),
				detail(map[string]interface{}{"record_expected": renderStr(w, 3000), "record_returned_by_second_call": renderStr(g, 3000)}))
			return false
		}
	}
	c.Count("record_lists_fetched_again_after_caller_modified_the_first_result", 1)
	if !zip {
		return true
	}
	// another identity for the decoded container
	cv := reflect.ValueOf(dec)
	for cv.Kind() == reflect.Ptr {
		cv = cv.Elem()
	}
	old, _ := headerOf(dec)
	neu := [4]int64{old[0] ^ 0x5a5a5a5a5a, int64(int32(old[1]) ^ 0x1234567), int64(int32(old[2]) + 77), int64(int32(old[3]) ^ 0x55aa)}
	names := []string{"Pcode", "Oid", "Okind", "Onode"}
	set := func(h [4]int64) {
		for i, n := range names {
			cv.FieldByName(n).SetInt(h[i])
		}
	}
	set(neu)
	defer set(old)
	neu, _ = headerOf(dec) // as stored (field widths)
	var third []interface{}
	if p := vlib.Catch(func() { third = getRecords(typ, dec) }); p != nil {
		fail(typ+".Records:records-not-stamped/after-identity-change", fmt.Sprintf("%s: GetRecords() panicked after the decoded container was given another identity: %v", where, p), detail(nil))
		return false
	}
	if len(third) != len(first) {
		fail(typ+".GetRecords:second-call-differs", fmt.Sprintf("%s: GetRecords() after an identity change returns %d records, the first call returned %d", where, len(third), len(first)), detail(nil))
		return false
	}
	for i, x := range third {
		if h, ok := headerOf(x); ok && h != neu {
			fail(typ+".Records:records-not-stamped/after-identity-change", fmt.Sprintf("%s: the decoded %s was given pcode/oid/okind/onode %v (before: %v); inner pack %d returned by the next GetRecords() carries %v", where, typ, neu, old, i, h), detail(nil))
			return false
		}
	}
	c.Count("zip_containers_fetched_again_after_identity_change", 1)
	return true
}

// scribbleObj overwrites everything the caller can reach in a returned object through its
// exported fields: numbers, strings, bools, byte and number slices in place.
func scribbleObj(v reflect.Value, depth int) {
	if depth > 4 || !v.IsValid() {
		return
	}
	switch v.Kind() {
	case reflect.Ptr, reflect.Interface:
		if !v.IsNil() {
			scribbleObj(v.Elem(), depth+1)
		}
	case reflect.Struct:
		for i := 0; i < v.NumField(); i++ {
			f := v.Field(i)
			if !f.CanSet() {
				continue
			}
			scribbleObj(f, depth+1)
		}
	case reflect.Int, reflect.Int8, reflect.Int16, reflect.Int32, reflect.Int64:
		if v.CanSet() {
			v.SetInt(^v.Int() ^ 0x2b)
		}
	case reflect.Uint, reflect.Uint8, reflect.Uint16, reflect.Uint32, reflect.Uint64:
		if v.CanSet() {
			v.SetUint(^v.Uint() ^ 0x2b)
		}
	case reflect.Float32, reflect.Float64:
		if v.CanSet() {
			v.SetFloat(-12345.5)
		}
	case reflect.Bool:
		if v.CanSet() {
			v.SetBool(!v.Bool())
		}
	case reflect.String:
		if v.CanSet() {
			v.SetString("scribbled-by-the-caller")
		}
	case reflect.Slice:
		for i := 0; i < v.Len(); i++ {
			scribbleObj(v.Index(i), depth+1)
		}
	}
}

func sizeClass(n int) string {
	switch {
	case n == 0:
		return "0"
	case n == 1:
		return "1"
	case n <= 400:
		return "many"
	case n == 32767:
		return "32767"
	case n == 32768:
		return "32768"
	case n == 65535:
		return "65535"
	}
	return "huge"
}

// applicable tells whether the flipped place is inside a section the presence conditions
// make the writer emit.
func applicable(ts *TypeSpec, tree *Node, pattern string) bool {
	if ts.Name == "CounterPack1" && (strings.HasPrefix(pattern, "DbNumActive") || strings.HasPrefix(pattern, "DbNumIdle")) {
		ia, _ := ts.field("DbNumActive")
		ii, _ := ts.field("DbNumIdle")
		return tree.L[ia].K != kAbsent && tree.L[ii].K != kAbsent
	}
	return true
}

// flipOne applies oracle (6) to one leaf. It returns false when the leaf was not applicable.
func flipOne(ts *TypeSpec, tree *Node, base []byte, lf leaf, where string) bool {
	typ := ts.Name
	if !applicable(ts, tree, lf.pattern) {
		return false
	}
	undo := lf.flip()
	if undo == nil {
		return false
	}
	var enc2 []byte
	p := vlib.Catch(func() { enc2 = encode(ts, buildObj(tree)) })
	flipped := ""
	if p != nil || bytes.Equal(enc2, base) {
		flipped = renderStr(tree, 6000)
	}
	undo()
	c.Count("sensitivity_flips", 1)
	if p != nil {
		fail(typ+":encode-panics", fmt.Sprintf("%s: writing %s after changing only %s panicked: %v", where, typ, lf.path, p),
			func() map[string]interface{} {
				return map[string]interface{}{"type": typ, "where": where, "flipped": flipped}
			})
		return true
	}
	if bytes.Equal(enc2, base) {
		fail(typ+"."+lf.pattern+":not-carried", fmt.Sprintf("%s: changing only %s of a %s leaves the %d-byte encoding unchanged: the manifest says the wire carries it", where, lf.path, typ, len(base)),
			func() map[string]interface{} {
				return map[string]interface{}{"type": typ, "where": where, "field": lf.path, "populated": renderStr(tree, 6000), "flipped": flipped, "bytes": hexFull(base)}
			})
		return true
	}
	c.SetAdd("fields_sensitivity_checked", typ+"."+lf.pattern)
	return true
}

var sampledTypes = map[string]bool{}

func oneInstance(ts *TypeSpec, i int, r *vlib.Rand) {
	typ := ts.Name
	where := fmt.Sprintf("%s instance %d", typ, i)
	tree := genTree(typ, r.Fork("gen"))
	noteSections(ts, tree)
	c.Count("instances", 1)
	c.SetAdd("types_covered", typ)
	clean := roundTrip(ts, tree, where)
	if clean {
		flipsAndSample(ts, tree, i, r, where)
	}
	// (7) the same object written again after its fields were changed (history.go); last,
	// because the steps change the model tree
	runHistory(ts, tree, i, r.Fork("history"), where, clean)
}

func flipsAndSample(ts *TypeSpec, tree *Node, i int, r *vlib.Rand, where string) {
	typ := ts.Name
	// (6) a few single-field flips per instance, walking through the patterns
	var base []byte
	if p := vlib.Catch(func() { base = encode(ts, buildObj(tree)) }); p != nil {
		return
	}
	fr := r.Fork("flip")
	var lv []leaf
	leaves(fr, tree, "", "", &lv)
	if len(lv) > 0 {
		for k := 0; k < 4; k++ {
			flipOne(ts, tree, base, lv[(i*4+k*7919+fr.Intn(len(lv)))%len(lv)], where)
		}
	}
	if !sampledTypes[typ] && c.WantSample() && i/c.NShards == 1 && (typ == "CounterPack1" || typ == "EventPack" || typ == "SMBasePack" || typ == "ZipPack" || typ == "StatGeneralPack#1" || typ == "TransactionRec#v4") {
		sampledTypes[typ] = true
		c.Sample(map[string]interface{}{"type": typ, "populated": renderStr(tree, 1500), "encoding": vlib.Hex(base), "bytes": len(base), "leaves": len(lv)})
	}
}

// sweep makes sure every leaf pattern the manifest implies gets flipped at least once.
func sweep(ts *TypeSpec, pat string, idx int, r *vlib.Rand) {
	typ := ts.Name
	for try := 0; try < 400; try++ {
		tree := genTree(typ, r.Fork(fmt.Sprint("sweep", try)))
		var lv []leaf
		leaves(r, tree, "", "", &lv)
		for _, lf := range lv {
			if lf.pattern != pat {
				continue
			}
			var base []byte
			if p := vlib.Catch(func() { base = encode(ts, buildObj(tree)) }); p != nil {
				break
			}
			if flipOne(ts, tree, base, lf, fmt.Sprintf("%s sweep of %s", typ, pat)) {
				c.Count("sweep_patterns_flipped", 1)
				historyFlip(ts, tree, lf, r.Fork("hist"), fmt.Sprintf("%s history sweep of %s", typ, pat))
				return
			}
		}
	}
	c.Inconclusive(fmt.Sprintf("sweep/%s#%d", typ, idx), "no generated instance had an applicable place for manifest pattern "+typ+"."+pat)
}

// knownCodecFinding returns a listed known finding key of the type's own codec ("" if none).
func knownCodecFinding(t *TypeSpec) string {
	cands := []string{t.Name + ":decode-panics", t.Name + ":reencode-differs", t.Name + ":not-consumed"}
	var pats []string
	patterns(t.Name, "", 0, &pats)
	for _, f := range t.Fields {
		pats = append(pats, f.Name)
	}
	for _, p := range pats {
		cands = append(cands, t.Name+"."+p+":not-restored", t.Name+"."+p+":decode-panics")
	}
	for _, k := range cands {
		if c.IsKnown(k) {
			return k
		}
	}
	return ""
}

func main() {
	if os.Getenv("VERIF_WRITE_SPEC") == "1" {
		writeSpec()
		return
	}
	c = vlib.Start("C03")
	m, err := loadManifest()
	if err != nil {
		c.Inconclusive("manifest", "cannot load "+specPath()+": "+err.Error())
		c.Floor("instances", 1, 0)
		c.Finish()
		return
	}
	man = m
	envSetup()    // discovers the environment variables golib reads and unsets them (env.go)
	ringOn = true // encode()/decode() keep the returned slices and re-verify them (held.go)
	var names []string
	registered := 0
	for _, t := range man.Types {
		if t.Class == "member" {
			continue
		}
		names = append(names, t.Name)
		if t.Class == "pack" && t.Registered {
			registered++
			// a type whose own codec has a listed known finding is not nested into containers: its
			// defect is reported (and counted) standalone, inside a container it would only resurface
			// under the container's name
			if k := knownCodecFinding(t); k != "" {
				c.SetAdd("not_nested_because_known", t.Name+" ("+k+")")
				continue
			}
			nestedTypes = append(nestedTypes, t.Name)
		}
	}
	sort.Strings(nestedTypes)
	nEnv := c.N(40, 1500)
	if envInitChild() {
		// started by runEnvInitChild with the variables in the environment from the start: only the
		// env/<Type> sections (a smaller share), no floors
		for _, name := range names {
			ts := man.T(name)
			c.Cases("env/"+name, nEnv/2, func(i int, r *vlib.Rand) { envCase(ts, i, r) })
		}
		c.Finish()
		return
	}
	n := c.N(300, 10000)
	totalPatterns := 0
	for _, name := range names {
		ts := man.T(name)
		c.Cases("roundtrip/"+name, n, func(i int, r *vlib.Rand) { oneInstance(ts, i, r) })
		var pats []string
		patterns(name, "", 0, &pats)
		totalPatterns += len(pats)
		c.Cases("sweep/"+name, len(pats), func(i int, r *vlib.Rand) { sweep(ts, pats[i], i, r) })
	}
	for _, name := range names {
		ts := man.T(name)
		if len(envVars) > 0 {
			c.Cases("env/"+name, nEnv, func(i int, r *vlib.Rand) { envCase(ts, i, r) })
		}
	}
	// compressed containers at deflate's limit (redundancy.go)
	nExtreme := c.N(16, 200)
	for _, name := range []string{"ZipPack", "LogSinkZipPack"} {
		ts := man.T(name)
		c.Cases("redundancy/"+name, nExtreme, func(i int, r *vlib.Rand) { extremeCase(ts, i, r) })
	}
	// variables read at package initialisation: one child process per shard (env.go)
	if len(envInitReads) > 0 {
		c.Cases("env-init", c.NShards, func(i int, r *vlib.Rand) { runEnvInitChild(r) })
	}
	ringVerify("the end of the round-trip sections")
	ringOn = false // the cases below hold their results themselves (and run on many goroutines)
	nHeld := c.N(24, 600)
	for _, name := range names {
		name := name
		c.Cases("held/"+name, nHeld, func(i int, r *vlib.Rand) {
			heldPackCase(fmt.Sprintf("held/%s#%d", name, i), name, names, r, false)
		})
	}
	nHeldPar := c.N(24, 400) * len(names)
	c.ParallelCases("held-parallel", nHeldPar, 8, func(i int, r *vlib.Rand) {
		name := names[int(vlib.Mix(uint64(i))%uint64(len(names)))]
		heldPackCase(fmt.Sprintf("held-parallel#%d", i), name, names, r, true)
	})
	// Concurrent decoders of compressed containers: every goroutine decodes ITS OWN zipped packs
	// (every record carries the case's marker) over and over; what GetRecords returns must be
	// exactly its own records, whatever the other goroutines are inflating at the same moment.
	c.ParallelCases("zip-parallel", c.N(64, 640), 8, func(i int, r *vlib.Rand) {
		marker := fmt.Sprintf("<case %d>", i)
		nrec := r.Range(2, 40)
		var recs []pack.Pack
		for k := 0; k < nrec; k++ {
			tp := pack.NewLogSinkPack()
			tp.Line = int64(k)
			tp.Content = marker + r.AsciiN(r.Range(0, 400)) + marker
			recs = append(recs, tp)
		}
		zp := pack.NewZipPack().SetRecords(recs)
		zp.Pcode, zp.Oid = int64(i), int32(i)
		plain := append([]byte(nil), zp.Records...)
		z, err := compressutil.DoZip(plain)
		if err != nil {
			return
		}
		zp.Records, zp.Status = z, pack.ZIPPED
		enc := pack.ToBytesPack(zp)
		var lrecs bytes.Buffer
		for k := 0; k < nrec; k++ {
			lp := pack.NewLogSinkPack()
			lp.Category = marker
			lp.Content = marker + r.AsciiN(r.Range(0, 400)) + marker
			lp.Tags.PutString("m", marker)
			lrecs.Write(pack.ToBytesPack(lp))
		}
		lz := pack.NewLogSinkZipPack()
		lz.RecordCount = nrec
		lz.SetRecords(lrecs.Bytes(), 1)
		lenc := pack.ToBytesPack(lz)
		for round := 0; round < 60; round++ {
			var got []pack.Pack
			var lgot []*pack.LogSinkPack
			pv := vlib.Catch(func() {
				got = pack.ToPack(enc).(*pack.ZipPack).GetRecords()
				lgot = pack.ToPack(lenc).(*pack.LogSinkZipPack).GetRecords()
			})
			bad := ""
			switch {
			case pv != nil:
				bad = fmt.Sprintf("decoding a complete compressed container of its own panicked: %v", pv)
			case len(got) != nrec || len(lgot) != nrec:
				bad = fmt.Sprintf("GetRecords returned %d / %d records, the containers hold %d", len(got), len(lgot), nrec)
			default:
				for k := range got {
					tp, ok := got[k].(*pack.LogSinkPack)
					if !ok || !strings.HasPrefix(tp.Content, marker) || !strings.HasSuffix(tp.Content, marker) || tp.Line != int64(k) {
						bad = fmt.Sprintf("ZipPack record %d is not the record this goroutine compressed (marker %s)", k, marker)
						break
					}
					if !strings.HasPrefix(lgot[k].Content, marker) || !strings.HasSuffix(lgot[k].Content, marker) || lgot[k].Category != marker {
						bad = fmt.Sprintf("LogSinkZipPack record %d is not the record this goroutine compressed (marker %s)", k, marker)
						break
					}
				}
			}
			if bad != "" {
				c.Fail("ZipPack.GetRecords:foreign-or-damaged-records/concurrent-decoders", bad+" — while other goroutines were decoding their own compressed containers",
					map[string]interface{}{"case": i, "round": round, "records": nrec})
				return
			}
			c.Count("zip_parallel_decodes", 2)
		}
		c.Eval(59)
		c.DistinctBytes(enc)
	})
	c.Note(fmt.Sprintf("manifest: %d types (%d registered packs, %d of them nested into containers), %d leaf patterns; environment variables read by lang/pack and its imports: %v", len(names), registered, len(nestedTypes), totalPatterns, envVars))

	sh := int64(c.NShards)
	total := int64(n) * int64(len(names))
	c.Floor("instances", total/10/sh, c.Counter("instances"))
	c.Floor("roundtrips_ok", total/20/sh, c.Counter("roundtrips_ok"))
	c.Floor("topack_roundtrips_ok", int64(n)*int64(registered)/40/sh, c.Counter("topack_roundtrips_ok"))
	c.Floor("sensitivity_flips", total/10/sh, c.Counter("sensitivity_flips"))
	c.Floor("sweep_patterns_flipped", int64(totalPatterns)/10/sh, c.Counter("sweep_patterns_flipped"))
	c.Floor("header_short_form", total/50/sh, c.Counter("header_short_form"))
	c.Floor("header_long_form", total/50/sh, c.Counter("header_long_form"))
	c.Floor("record_lists_checked", int64(n)/10/sh, c.Counter("record_lists_checked"))
	c.Floor("records_compared", int64(n)/10/sh, c.Counter("records_compared"))
	c.Floor("inner_packs_compared", int64(n)/5/sh, c.Counter("inner_packs_compared"))
	c.Floor("histories", total/10/sh, c.Counter("histories"))
	c.Floor("history_rewrites_compared", total/5/sh, c.Counter("history_rewrites_compared"))
	c.Floor("history_same_object_rewrites", total/10/sh, c.Counter("history_same_object_rewrites"))
	c.Floor("history_decode_modify_ok", total/40/sh, c.Counter("history_decode_modify_ok"))
	c.Floor("history_inplace_steps", int64(n)/10/sh, c.Counter("history_inplace_steps"))
	c.Floor("history_setter_rewrites", int64(n)/10/sh, c.Counter("history_setter_rewrites"))
	c.Floor("sweep_history_flips", int64(totalPatterns)/10/sh, c.Counter("sweep_history_flips"))
	// payload redundancy of the compressed containers (redundancy.go): whole-run floors, declared by shard 0
	whole := func(name string, min int64) {
		if c.Shard != 0 {
			min = 0
		}
		c.Floor(name, min, c.Counter(name))
	}
	zn := int64(n) * 2 // ZipPack + LogSinkZipPack instances
	whole("zip_ratio_lt_1", zn/100)
	whole("zip_ratio_1_to_10", zn/50)
	whole("zip_ratio_10_to_100", zn/300)
	whole("zip_ratio_100_to_1000", zn/50)
	whole("zip_ratio_gt_1000", int64(nExtreme)/16)
	whole("redundancy_extreme_ok", int64(nExtreme)/5)
	whole("zip_compressed_identical", zn/100)
	whole("zip_compressed_run", zn/100)
	whole("zip_compressed_zeros", zn/100)
	whole("zip_compressed_incompressible", zn/100)
	// used objects and the environment
	whole("max_env_variables_found", 1)
	whole("env_cases", int64(nEnv)*int64(len(names))/10)
	whole("env_roundtrips_ok", int64(nEnv)*int64(len(names))/20)
	whole("env_cases_on_types_the_environment_reaches", int64(nEnv)/10)
	whole("env_cases_with_a_derived_field_zero", int64(nEnv)/20)
	if len(envInitReads) > 0 {
		whole("env_init_child_processes", int64(c.NShards)/2)
		whole("env_init_roundtrips_ok", int64(nEnv)*int64(len(names))/40)
	}
	// held results and live objects (held.go)
	nh := int64(nHeld)*int64(len(names)) + int64(nHeldPar)
	c.Floor("held_ring_results", total/5/sh, c.Counter("held_ring_results"))
	c.Floor("held_ring_reverifications", total/sh, c.Counter("held_ring_reverifications"))
	c.Floor("held_cases", nh/10/sh, c.Counter("held_cases"))
	c.Floor("held_parallel_cases", int64(nHeldPar)/10/sh, c.Counter("held_parallel_cases"))
	c.Floor("held_results", nh/2/sh, c.Counter("held_results"))
	c.Floor("held_reverifications", nh*4/sh, c.Counter("held_reverifications"))
	c.Floor("held_object_rewalks", nh*4/sh, c.Counter("held_object_rewalks"))
	c.Floor("held_objects_built", nh/4/sh, c.Counter("held_objects_built"))
	c.Floor("held_objects_decoded", nh/5/sh, c.Counter("held_objects_decoded"))
	c.Floor("held_multi_object_histories", nh/10/sh, c.Counter("held_multi_object_histories"))
	c.Floor("held_multi_object_decodes", nh/5/sh, c.Counter("held_multi_object_decodes"))
	c.Floor("held_input_overwrites", nh/10/sh, c.Counter("held_input_overwrites"))
	c.Finish()
}
