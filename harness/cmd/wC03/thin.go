// Helpers shared by the environment and redundancy sections: the object a receiver decodes
// into, and "thinning" a model field to the value the wire's shortest form stands for.
package main

import (
	"reflect"

	"github.com/whatap/golib/lang/pack"

	"verif/vlib"
)

// freshFor returns the object a receiver decodes into: the factory's for registered packs.
func freshFor(ts *TypeSpec) interface{} {
	if ts.Class == "pack" && ts.Registered {
		if p := pack.CreatePack(parseCode(ts.Code)); p != nil && !reflect.ValueOf(p).IsNil() {
			return p
		}
	}
	return newObj(ts.Name)
}

// thinField makes field k of the model the value the wire's shortest form stands for: numbers
// 0, texts and blobs empty, optional sections absent, lists and maps empty. Fields that are
// only meaningful together with others (record blob + count + status, a selector and the
// section it selects) are left alone.
func thinField(r *vlib.Rand, ts *TypeSpec, n *Node, k int) bool {
	f := &ts.Fields[k]
	if len(groupOf(ts, k)) != 1 {
		return false
	}
	var to *Node
	switch f.Kind {
	case "int", "bool":
		to = nInt(0)
	case "f32":
		to = &Node{K: kF32}
	case "f64":
		to = &Node{K: kF64}
	case "ptr", "intintmap", "intkeylmap", "intkeymap", "linkedmap":
		to = &Node{K: kAbsent}
	case "mapvalue", "intmapvalue", "strptr":
		if !f.NonNil {
			to = &Node{K: kAbsent}
		} else if f.Kind == "strptr" {
			to = &Node{K: kStr}
		}
	case "strmap", "strintmap", "intintlmap":
		to = &Node{K: kMap}
	case "list", "packs":
		to = &Node{K: kList, Nil: r.Bool()}
	case "ints":
		if f.Fixed == 0 {
			to = &Node{K: kList, Nil: r.Bool()}
		}
	case "blob":
		to = &Node{K: kBytes, Nil: true}
	case "text":
		to = &Node{K: kStr}
	}
	if to == nil {
		return false
	}
	n.L[k] = to
	return true
}

// thin applies thinField to a random half of the fields.
func thin(r *vlib.Rand, ts *TypeSpec, n *Node) int {
	made := 0
	for k := range ts.Fields {
		if r.Bool() && thinField(r, ts, n, k) {
			made++
		}
	}
	return made
}

func zeroish(n *Node) bool {
	if n == nil {
		return true
	}
	switch n.K {
	case kInt:
		return n.I == 0
	case kF32, kF64:
		return n.U == 0
	}
	return isEmptyish(n)
}
