package main

// Payload redundancy classes for the compressed containers (ZipPack with the sender's gzip
// step, LogSinkZipPack.SetRecords above its threshold).
//
// "zip and log-sink zip packs with compression return their inner packs unchanged" is
// quantified over every record stream, whatever it compresses to. Independently drawn inner
// packs always compress about 2..8 : 1, so the compressed form was only ever seen in that
// band. The outermost container of an instance therefore draws the REDUNDANCY of its payload:
//
//	ordinary        independently drawn inner packs (as before)
//	incompressible  inner packs whose text / blob fields hold 3 000..40 000 random bytes
//	                (the gzip form is LONGER than the stream: ratio < 1)
//	identical       one inner pack repeated 300..5000 times (byte-identical records)
//	run             one inner pack with a text / blob field holding 200 000..500 000 times the same byte
//	zeros           one inner pack with a text / blob field of 10^5..2^20 zero bytes
//
// and sections redundancy/<Type> hold the last three at 3..6 * 2^20 bytes / 3000..8000 records,
//	                (deflate's limit, about 1030 : 1)
//
// The ratio actually reached (stream length / compressed length) is measured on every
// compressed instance whose records came back and counted per band; floors in main.go.

import (
	"fmt"

	"verif/vlib"
)

// bulkPlaces returns the nodes of n (a struct) that are a text or blob field, at any depth of
// embedded structs and struct lists: the places a long payload can be put.
func bulkPlaces(n *Node, out *[]*Node) {
	if n == nil || n.K != kStruct {
		return
	}
	ts := man.T(n.T)
	for i := range ts.Fields {
		f := &ts.Fields[i]
		ch := n.L[i]
		if ch == nil {
			continue
		}
		switch f.Kind {
		case "text":
			if ch.K == kStr {
				*out = append(*out, ch)
			}
		case "blob":
			if ch.K == kBytes {
				*out = append(*out, ch)
			}
		case "struct", "ptr":
			bulkPlaces(ch, out)
		case "list":
			if ch.K == kList {
				for _, e := range ch.L {
					bulkPlaces(e, out)
				}
			}
		}
	}
}

func setBulk(n *Node, b []byte) {
	if n.K == kStr {
		n.S = string(b)
		return
	}
	n.B, n.Nil = b, false
}

// innerWithBulk draws inner packs until one has a place for a long payload.
func innerWithBulk(g *genCtx, typ string) (*Node, []*Node) {
	for try := 0; try < 40; try++ {
		in := genInner(g, typ)
		var pl []*Node
		bulkPlaces(in, &pl)
		if len(pl) > 0 {
			return in, pl
		}
	}
	return nil, nil
}

func repeatByte(b byte, n int) []byte {
	out := make([]byte, n)
	if b != 0 {
		for i := range out {
			out[i] = b
		}
	}
	return out
}

// drawRedundancy turns the ordinarily drawn record list into one of the redundancy classes.
// g.extreme (sections redundancy/<Type>): only the highly repetitive classes, at the sizes
// where deflate reaches its limit.
func drawRedundancy(g *genCtx, typ string, recs []*Node) ([]*Node, string) {
	r := g.r
	p := r.Intn(100)
	if g.extreme {
		p = 60 + r.Intn(40)
	}
	switch {
	case p < 46:
		return recs, "ordinary"
	case p < 60:
		// incompressible: every record that has a place gets random bytes
		n := 0
		if len(recs) == 0 {
			if in, _ := innerWithBulk(g, typ); in != nil {
				recs = []*Node{in}
			}
		}
		for _, rec := range recs {
			var pl []*Node
			bulkPlaces(rec, &pl)
			for _, x := range pl {
				setBulk(x, r.Bytes(r.Range(3000, 40000)))
				n++
			}
		}
		if n == 0 {
			return recs, "ordinary"
		}
		return recs, "incompressible"
	case p < 78:
		// byte-identical records; a record of more than 8 000 bytes is drawn again (the stream
		// stays below some tens of megabytes)
		one := genInner(g, typ)
		limit := 8000
		if g.extreme {
			limit = 1500
		}
		for try := 0; try < 40; try++ {
			size := 1 << 30
			vlib.Catch(func() { size = len(encodeRaw(man.T(one.T), buildObj(one))) })
			if size <= limit {
				break
			}
			one = genInner(g, typ)
		}
		cnt := []int{300, 320, 400, 600, 1000, 1000, 2000}[r.Intn(7)]
		if g.extreme {
			cnt = []int{3000, 5000, 8000}[r.Intn(3)]
		}
		out := make([]*Node, cnt)
		for i := range out {
			out[i] = one
		}
		return out, "identical"
	default:
		in, pl := innerWithBulk(g, typ)
		if in == nil {
			return recs, "ordinary"
		}
		x := pl[r.Intn(len(pl))]
		if g.extreme {
			// everything else in the record as short as the wire allows: the ratio of the container
			// is then the ratio of the run itself
			its := man.T(in.T)
			var direct []int
			for k, ch := range in.L {
				for _, cand := range pl {
					if ch == cand {
						direct = append(direct, k)
					}
				}
			}
			if len(direct) > 0 {
				k0 := direct[r.Intn(len(direct))]
				x = in.L[k0]
				for k := range its.Fields {
					if k != k0 && k >= 5 { // the header is the container's anyway
						thinField(r, its, in, k)
					}
				}
			}
		}
		class := "run"
		var b []byte
		if p < 90 {
			n := []int{200000, 200000, 300000, 500000}[r.Intn(4)]
			if g.extreme {
				n = []int{3 << 20, 1 << 22, 6 << 20}[r.Intn(3)]
			}
			b = repeatByte("aAxZ0 \n\xff"[r.Intn(8)], n)
		} else {
			class = "zeros"
			n := []int{100000, 300000, 1 << 20}[r.Intn(3)]
			if g.extreme {
				n = []int{3 << 20, 1 << 22, 6 << 20}[r.Intn(3)]
			}
			b = repeatByte(0, n)
		}
		setBulk(x, b)
		// alone, or among the ordinary records
		if len(recs) == 0 || g.extreme || r.Intn(3) != 0 {
			return []*Node{in}, class
		}
		recs[r.Intn(len(recs))] = in
		return recs, class
	}
}

// extremeCase (sections redundancy/ZipPack, redundancy/LogSinkZipPack): one compressed
// container at deflate's limit, through the round-trip oracles (1)-(5) only.
func extremeCase(ts *TypeSpec, i int, r *vlib.Rand) {
	for try := 0; try < 20; try++ {
		g := &genCtx{r: r.Fork(fmt.Sprint("gen", try)), extreme: true}
		tree := genStruct(g, ts.Name)
		iRec, _ := ts.field("Records")
		if rb := tree.L[iRec]; rb.Recs == nil || rb.RecMode != "gzip" {
			continue // the draw left blob, count and status arbitrary, or uncompressed
		}
		c.Count("redundancy_extreme_cases", 1)
		if roundTrip(ts, tree, fmt.Sprintf("%s extreme redundancy %d (%s)", ts.Name, i, tree.L[iRec].RecClass)) {
			c.Count("redundancy_extreme_ok", 1)
		}
		return
	}
}

func ratioBand(x10 int64) string {
	switch {
	case x10 < 10:
		return "lt_1"
	case x10 < 100:
		return "1_to_10"
	case x10 < 1000:
		return "10_to_100"
	case x10 < 10000:
		return "100_to_1000"
	}
	return "gt_1000"
}

// noteRatio counts a compressed container whose records all came back unchanged.
func noteRatio(typ string, rb *Node, compressedLen int) {
	if rb.RecMode != "gzip" || compressedLen == 0 || rb.RecPlain == 0 {
		return
	}
	x10 := int64(rb.RecPlain) * 10 / int64(compressedLen)
	band := ratioBand(x10)
	c.Count("zip_ratio_"+band, 1)
	c.Max("max_zip_ratio_x10", x10)
	c.SetAdd("zip_ratio_bands_seen", typ+"/"+band)
	class := rb.RecClass
	if class == "" {
		class = "ordinary"
	}
	c.Count("zip_compressed_"+class, 1)
	c.SetAdd("zip_redundancy_classes_seen", fmt.Sprintf("%s/%s/%s", typ, class, band))
}

var _ = vlib.Hex
