package main

// VERIF_WRITE_SPEC=1: write spec/pack_fields.json from the seed table (specseed.go) after a
// measured sensitivity run on the tree the worker was built against:
//   * every leaf pattern of the seed is flipped in populated instances and must change the
//     encoding (otherwise the reading of the Write method was wrong) — recorded in `measured`;
//   * every Go struct field the seed does NOT list is perturbed directly and must leave the
//     encoding unchanged (otherwise the seed forgot a carried field) — recorded as "-Field".
// Disagreements are printed and make the command exit 1; the file is reviewed, then committed.

import (
	"bytes"
	"encoding/json"
	"fmt"
	"os"
	"reflect"
	"sort"
	"unsafe"

	"verif/vlib"
)

func perturbGo(fv reflect.Value) bool {
	if !fv.CanSet() {
		fv = reflect.NewAt(fv.Type(), unsafe.Pointer(fv.UnsafeAddr())).Elem()
	}
	switch fv.Kind() {
	case reflect.Bool:
		fv.SetBool(!fv.Bool())
	case reflect.Int, reflect.Int8, reflect.Int16, reflect.Int32, reflect.Int64:
		fv.SetInt(fv.Int() ^ 1)
	case reflect.Uint, reflect.Uint8, reflect.Uint16, reflect.Uint32, reflect.Uint64:
		fv.SetUint(fv.Uint() ^ 1)
	case reflect.Float32, reflect.Float64:
		fv.SetFloat(fv.Float() + 1.5)
	case reflect.String:
		fv.SetString(fv.String() + "x")
	case reflect.Slice:
		fv.Set(reflect.Append(fv, reflect.New(fv.Type().Elem()).Elem()))
		if fv.Type().Elem().Kind() == reflect.Uint8 {
			fv.Index(fv.Len() - 1).SetUint(7)
		}
	default:
		return false
	}
	return true
}

func unlistedFields(t reflect.Type, listed map[string]bool, prefix string, out *[]string) {
	for i := 0; i < t.NumField(); i++ {
		f := t.Field(i)
		if f.Anonymous && f.Type.Kind() == reflect.Struct {
			unlistedFields(f.Type, listed, prefix, out)
			continue
		}
		if !listed[f.Name] {
			*out = append(*out, f.Name)
		}
	}
}

func writeSpec() {
	m := seedManifest()
	man = m
	for _, t := range m.Types {
		if t.Class == "pack" && t.Registered {
			nestedTypes = append(nestedTypes, t.Name)
		}
	}
	sort.Strings(nestedTypes)
	bad := 0
	for _, ts := range m.Types {
		if ts.Class == "member" {
			continue
		}
		ts.Measured = map[string]string{}
		var pats []string
		patterns(ts.Name, "", 0, &pats)
		changed, same := map[string]int{}, map[string]int{}
		r := vlib.NewRand(vlib.HashStr("spec/" + ts.Name))
		for inst := 0; inst < 400; inst++ {
			tree := genTree(ts.Name, r.Fork(fmt.Sprint(inst)))
			var base []byte
			if p := vlib.Catch(func() { base = encode(ts, buildObj(tree)) }); p != nil {
				fmt.Printf("!! %s: encode panicked: %v\n", ts.Name, p)
				bad++
				break
			}
			var lv []leaf
			leaves(r, tree, "", "", &lv)
			for _, lf := range lv {
				if !applicable(ts, tree, lf.pattern) {
					continue
				}
				undo := lf.flip()
				if undo == nil {
					continue
				}
				var e2 []byte
				p := vlib.Catch(func() { e2 = encode(ts, buildObj(tree)) })
				undo()
				if p != nil {
					fmt.Printf("!! %s: encode after flipping %s panicked: %v\n", ts.Name, lf.path, p)
					bad++
					continue
				}
				if bytes.Equal(e2, base) {
					same[lf.pattern]++
				} else {
					changed[lf.pattern]++
				}
			}
			// fields of the Go struct the seed does not list: perturb on a fresh object
			if inst < 40 {
				listed := map[string]bool{}
				for _, f := range ts.Fields {
					listed[f.Name] = true
				}
				for _, f := range ts.Internal {
					listed[f] = true
				}
				var extra []string
				unlistedFields(goTypes[ts.Name], listed, "", &extra)
				for _, name := range extra {
					obj := buildObj(tree)
					sv := reflect.ValueOf(obj).Elem()
					if !perturbGo(sv.FieldByName(name)) {
						if ts.Measured["-"+name] == "" {
							ts.Measured["-"+name] = "not probed (" + sv.FieldByName(name).Type().String() + ")"
						}
						continue
					}
					var e2 []byte
					if p := vlib.Catch(func() { e2 = encode(ts, obj) }); p != nil {
						ts.Measured["-"+name] = fmt.Sprintf("encode panicked after perturbing: %v", p)
						continue
					}
					if bytes.Equal(e2, base) {
						ts.Measured["-"+name] = "not carried: perturbing it leaves the encoding unchanged"
					} else {
						if ts.Measured["-"+name] == "CARRIED but not in the field list" {
							continue
						}
						ts.Measured["-"+name] = "CARRIED but not in the field list"
						fmt.Printf("!! %s: struct field %s changes the encoding but the seed does not list it\n", ts.Name, name)
						bad++
					}
				}
			}
		}
		for _, p := range pats {
			switch {
			case same[p] > 0:
				ts.Measured[p] = fmt.Sprintf("NOT carried in %d of %d flips", same[p], same[p]+changed[p])
				fmt.Printf("!! %s.%s: %s\n", ts.Name, p, ts.Measured[p])
				bad++
			case changed[p] == 0:
				ts.Measured[p] = "never reached"
				fmt.Printf("!! %s.%s: never reached by 400 instances\n", ts.Name, p)
				bad++
			default:
				ts.Measured[p] = fmt.Sprintf("carried: %d of %d single-field flips changed the encoding", changed[p], changed[p])
			}
		}
	}
	b, _ := json.MarshalIndent(m, "", " ")
	if err := os.WriteFile(specPath(), append(b, '\n'), 0o644); err != nil {
		fmt.Println("write:", err)
		os.Exit(1)
	}
	fmt.Printf("wrote %s: %d types, %d disagreements between the seed and the measurement\n", specPath(), len(m.Types), bad)
	if bad > 0 {
		os.Exit(1)
	}
}
