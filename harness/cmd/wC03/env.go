package main

// The process ENVIRONMENT as an input dimension.
//
// A constructor (and so the factory pack.CreatePack) that seeds a field from an environment
// variable gives the decoder a default the tests never see: with the variable unset every
// round trip is exact whatever the reader does with that default. The property quantifies over
// all field values — including 0 / empty when the environment would supply something else.
//
// (1) discovery, at run time and from the SOURCE the worker was built from (found through the
//     file name the compiler recorded for pack.NewCounterPack1, so a scratch worktree is read
//     when the worker is built against one): lang/pack and every golib package it imports,
//     transitively, are parsed; every os.Getenv / os.LookupEnv / os.ExpandEnv call with a
//     literal name is a variable (calls with a computed name are counted and named in the
//     evidence). All of them are unset for the ordinary sections (the parent's environment is
//     not an input of those).
// (2) sections env/<Type> (every manifest type): each case sets ALL discovered variables to
//     non-zero / non-empty values drawn from the case's stream (mostly decimal numbers, also
//     text) with os.Setenv — golib reads them when an object is constructed — runs the
//     ordinary round-trip oracles (1)-(5), the history monitor and the used-object decode under
//     that environment, and restores the environment. Which manifest fields of a type the
//     environment reaches is measured (a fresh object with and without the variables); those
//     fields are forced to 0 / empty in half of the cases, and the bytes written under the
//     environment must be the bytes written without it.
//
//	<Type>:bytes-depend-on-environment       same field values, other bytes with the variables set
//	(all other keys as in the ordinary sections)
//
// (3) a variable read once at package initialisation (init functions, package-level variables;
//     the pinned tree has one: util/dateutil reads WHATAP_DATETIME_MODE) cannot be set from
//     inside the process in time. When the scan finds such a read, each shard runs one case
//     env-init#<shard>: the worker starts ITSELF as a child process whose environment carries
//     all discovered variables (values from the seed), the child runs its share of the env/<Type>
//     sections and nothing else, and its findings are reported here under their own keys.

import (
	"bytes"
	"encoding/json"
	"fmt"
	"go/ast"
	"go/parser"
	"go/token"
	"os"
	"os/exec"
	"path/filepath"
	"reflect"
	"runtime"
	"sort"
	"strconv"
	"strings"

	"github.com/whatap/golib/lang/pack"

	"verif/vlib"
)

const golibModule = "github.com/whatap/golib"

type envRead struct {
	Name  string // "" when the name is computed
	Where string // file:line relative to the module root
	Init  bool   // outside any function: read at package initialisation
}

// golibRoot finds the source tree the binary was compiled from.
func golibRoot() string {
	f := runtime.FuncForPC(reflect.ValueOf(pack.NewCounterPack1).Pointer())
	if f == nil {
		return ""
	}
	file, _ := f.FileLine(f.Entry())
	dir := filepath.Dir(file) // …/lang/pack
	root := filepath.Dir(filepath.Dir(dir))
	if _, err := os.Stat(filepath.Join(root, "lang", "pack")); err != nil {
		return ""
	}
	return root
}

// scanEnvReads parses lang/pack and its golib imports (transitively) for environment reads.
func scanEnvReads(root string) (reads []envRead, pkgs int, err error) {
	seen := map[string]bool{}
	queue := []string{"lang/pack", "util/compressutil"}
	fset := token.NewFileSet()
	for len(queue) > 0 {
		rel := queue[0]
		queue = queue[1:]
		if seen[rel] {
			continue
		}
		seen[rel] = true
		dir := filepath.Join(root, filepath.FromSlash(rel))
		ents, e := os.ReadDir(dir)
		if e != nil {
			if rel == "lang/pack" {
				return nil, 0, e
			}
			continue
		}
		pkgs++
		for _, ent := range ents {
			name := ent.Name()
			if ent.IsDir() || !strings.HasSuffix(name, ".go") || strings.HasSuffix(name, "_test.go") {
				continue
			}
			af, e := parser.ParseFile(fset, filepath.Join(dir, name), nil, 0)
			if e != nil {
				continue
			}
			osName := ""
			for _, im := range af.Imports {
				p, _ := strconv.Unquote(im.Path.Value)
				if p == "os" {
					osName = "os"
					if im.Name != nil {
						osName = im.Name.Name
					}
				}
				if strings.HasPrefix(p, golibModule+"/") {
					queue = append(queue, strings.TrimPrefix(p, golibModule+"/"))
				}
			}
			if osName == "" {
				continue
			}
			visit := func(n ast.Node, init bool) {
				ast.Inspect(n, func(x ast.Node) bool {
					call, ok := x.(*ast.CallExpr)
					if !ok || len(call.Args) == 0 {
						return true
					}
					sel, ok := call.Fun.(*ast.SelectorExpr)
					if !ok {
						return true
					}
					id, ok := sel.X.(*ast.Ident)
					if !ok || id.Name != osName {
						return true
					}
					switch sel.Sel.Name {
					case "Getenv", "LookupEnv", "ExpandEnv", "Expand":
					default:
						return true
					}
					pos := fset.Position(call.Pos())
					rd := envRead{Where: fmt.Sprintf("%s/%s:%d", rel, name, pos.Line), Init: init}
					if lit, ok := call.Args[0].(*ast.BasicLit); ok && lit.Kind == token.STRING && (sel.Sel.Name == "Getenv" || sel.Sel.Name == "LookupEnv") {
						rd.Name, _ = strconv.Unquote(lit.Value)
					}
					reads = append(reads, rd)
					return true
				})
			}
			for _, d := range af.Decls {
				if fd, ok := d.(*ast.FuncDecl); ok {
					visit(fd, fd.Name.Name == "init" && fd.Recv == nil)
				} else {
					visit(d, true)
				}
			}
		}
	}
	return reads, pkgs, nil
}

var envVars []string // discovered variable names, sorted

// envSetup discovers the variables and clears them for the ordinary sections.
func envSetup() {
	root := golibRoot()
	if root == "" {
		c.Inconclusive("env/scan", "cannot locate the golib source tree the worker was built from")
		return
	}
	reads, pkgs, err := scanEnvReads(root)
	if err != nil {
		c.Inconclusive("env/scan", "cannot read "+root+": "+err.Error())
		return
	}
	set := map[string]bool{}
	for _, rd := range reads {
		switch {
		case rd.Name == "":
			c.SetAdd("env_reads_with_computed_name", rd.Where)
		default:
			set[rd.Name] = true
			c.SetAdd("env_reads_found", rd.Name+" @ "+rd.Where)
			if rd.Init {
				c.SetAdd("env_reads_at_package_initialisation", rd.Name+" @ "+rd.Where)
				envInitReads = append(envInitReads, rd.Name+" @ "+rd.Where)
			}
		}
	}
	for k := range set {
		envVars = append(envVars, k)
		os.Unsetenv(k)
	}
	sort.Strings(envVars)
	c.Max("max_env_packages_scanned", int64(pkgs))
	c.Max("max_env_variables_found", int64(len(envVars)))
}

// drawEnv draws a non-zero / non-empty value for every discovered variable.
func drawEnv(r *vlib.Rand) map[string]string {
	m := map[string]string{}
	for _, k := range envVars {
		var v string
		switch r.Intn(8) {
		case 0:
			v = "verif-" + r.Ident()
		case 1:
			v = []string{"1", "-1", "9223372036854775807", "-9223372036854775808", "255", "65536"}[r.Intn(6)]
		case 2:
			v = strconv.FormatInt(int64(r.I32()|1), 10)
		default:
			v = strconv.FormatInt(1600000000000+int64(r.Intn(400000000))*1000+1, 10)
		}
		m[k] = v
	}
	return m
}

func withEnv(env map[string]string, fn func()) {
	for k, v := range env {
		os.Setenv(k, v)
	}
	defer func() {
		for k := range env {
			os.Unsetenv(k)
		}
	}()
	fn()
}

func envString(env map[string]string) string {
	var ks []string
	for k := range env {
		ks = append(ks, k)
	}
	sort.Strings(ks)
	var sb strings.Builder
	for i, k := range ks {
		if i > 0 {
			sb.WriteString(" ")
		}
		fmt.Fprintf(&sb, "%s=%s", k, env[k])
	}
	return sb.String()
}

// envReached returns the indices of the manifest fields of typ whose value in a freshly
// constructed object differs with the variables set.
func envReached(ts *TypeSpec, env map[string]string) []int {
	var plain, under *Node
	if p := vlib.Catch(func() { plain = extractObj(ts.Name, freshFor(ts)) }); p != nil {
		return nil
	}
	withEnv(env, func() {
		if p := vlib.Catch(func() { under = extractObj(ts.Name, freshFor(ts)) }); p != nil {
			under = nil
		}
	})
	if under == nil {
		return nil
	}
	var out []int
	for i := range ts.Fields {
		if diffNode(plain.L[i], under.L[i], "", "") != nil {
			out = append(out, i)
		}
	}
	return out
}

// zeroNode is the value the wire's shortest form stands for.
func zeroNode(n *Node) bool {
	switch n.K {
	case kInt:
		n.I = 0
	case kF32, kF64:
		n.U = 0
	case kStr:
		n.S = ""
	case kBytes:
		n.B, n.Nil, n.Recs = nil, true, nil
	default:
		return false
	}
	return true
}

func envCase(ts *TypeSpec, i int, r *vlib.Rand) {
	typ := ts.Name
	env := drawEnv(r)
	where := fmt.Sprintf("%s instance %d with the environment %s", typ, i, envString(env))
	tree := genTree(typ, r.Fork("gen"))
	reached := envReached(ts, env)
	for _, k := range reached {
		c.SetAdd("env_derived_fields", typ+"."+ts.Fields[k].Name)
		if len(groupOf(ts, k)) == 1 && r.Bool() && zeroNode(tree.L[k]) {
			c.Count("env_cases_with_a_derived_field_zero", 1)
		}
	}
	c.Count("env_cases", 1)
	if len(reached) > 0 {
		c.Count("env_cases_on_types_the_environment_reaches", 1)
	}
	// the bytes a populated object gives without the variables
	var plain []byte
	if p := vlib.Catch(func() { plain = append([]byte(nil), encodeRaw(ts, buildObj(tree))...) }); p != nil {
		plain = nil
	}
	withEnv(env, func() {
		if plain != nil {
			var under []byte
			if p := vlib.Catch(func() { under = append([]byte(nil), encodeRaw(ts, buildObj(tree))...) }); p == nil && !bytes.Equal(under, plain) {
				fail(baseName(typ)+":bytes-depend-on-environment",
					fmt.Sprintf("%s: the same field values are written as other bytes than with the variables unset (first difference at byte %d, %d vs %d bytes)", where, firstDiff(under, plain), len(under), len(plain)),
					func() map[string]interface{} {
						return map[string]interface{}{"type": typ, "environment": env, "populated": renderStr(tree, 6000), "bytes_with_the_variables": hexFull(under), "bytes_without": hexFull(plain)}
					})
				return
			}
		}
		clean := roundTrip(ts, tree, where)
		if clean {
			c.Count("env_roundtrips_ok", 1)
		}
		runHistory(ts, tree, i, r.Fork("history"), where, clean)
	})
}

// ---------------------------------------------------------------- (3) variables read at package initialisation

const envInitMarker = "VERIF_C03_ENVINIT"

var envInitReads []string

func envInitChild() bool { return os.Getenv(envInitMarker) != "" }

// runEnvInitChild starts this binary again with the discovered variables in its environment
// from the start; the child runs only the env/<Type> sections of this shard.
func runEnvInitChild(r *vlib.Rand) {
	env := drawEnv(r)
	self, err := os.Executable()
	if err != nil {
		c.Inconclusive("env-init", "os.Executable: "+err.Error())
		return
	}
	out := filepath.Join(c.Out, "envinit")
	os.RemoveAll(out)
	cmd := exec.Command(self, "-tier", c.Tier, "-seed", strconv.FormatUint(c.Seed, 10), "-out", out,
		"-shard", strconv.Itoa(c.Shard), "-nshards", strconv.Itoa(c.NShards), "-flavour", c.Flavour)
	cmd.Env = append(os.Environ(), envInitMarker+"=1")
	for k, v := range env {
		cmd.Env = append(cmd.Env, k+"="+v)
	}
	cmd.Stderr = os.Stderr
	runErr := cmd.Run()
	b, err := os.ReadFile(filepath.Join(out, "result.json"))
	var res vlib.Result
	if err == nil {
		err = json.Unmarshal(b, &res)
	}
	if err != nil || !res.Completed {
		c.Inconclusive("env-init", fmt.Sprintf("the child process started with %s did not complete (%v, %v)", envString(env), runErr, err))
		return
	}
	started := "in a process STARTED with the environment " + envString(env) + ": "
	for _, v := range res.Violations {
		for n := 0; n < v.Count; n++ {
			var d interface{}
			if n == 0 {
				d = map[string]interface{}{"environment_at_process_start": env, "replay_file_of_the_child": v.Replay, "reads_at_package_initialisation": envInitReads}
			}
			c.Fail(v.Key, started+v.What, d)
		}
	}
	for _, k := range res.Known {
		for n := 0; n < k.Count; n++ {
			c.Fail(k.Key, k.What, nil)
		}
	}
	for _, ic := range res.Inconclusive {
		c.Inconclusive("env-init/"+ic.Case, ic.Reason)
	}
	c.Eval(res.Evaluations)
	c.Count("env_init_child_processes", 1)
	c.Count("env_init_cases", res.Counters["env_cases"])
	c.Count("env_init_roundtrips_ok", res.Counters["env_roundtrips_ok"])
	os.RemoveAll(out)
}
