package main

// Record-list packs and container packs: the blob is filled through the pack's own
// SetRecords* API from generated records / inner packs (as the agent does), and after the
// round trip GetRecords() (or the equivalent reader) of the DECODED pack must return them
// equal, in order and — for the zip containers — stamped with the container's identity.

import (
	"fmt"

	gio "github.com/whatap/golib/io"
	"github.com/whatap/golib/lang/pack"
	"github.com/whatap/golib/util/compressutil"

	"verif/vlib"
)

func recCount(r *vlib.Rand, cheap bool) int {
	switch r.Intn(12) {
	case 0, 1:
		return 0
	case 2, 3:
		return 1
	case 4:
		return 2
	case 5:
		if cheap && r.Intn(10) == 0 {
			// what a 16-bit count can hold
			return []int{32767, 32768, 65535}[r.Intn(3)]
		}
		return r.Range(100, 400)
	default:
		return r.Range(2, 12)
	}
}

func genRecords(g *genCtx, typ string, n *Node) {
	r := g.r
	ts := man.T(typ)
	_, fRec := ts.field("Records")
	if r.Intn(5) == 0 {
		return // an arbitrary blob with an arbitrary count: carried all the same
	}
	recType := fRec.Type
	ver := byte(0)
	if recType == "TransactionRec" {
		ver = byte(2 + r.Intn(3))
		recType = fmt.Sprintf("TransactionRec#v%d", ver)
	}
	cnt := recCount(r, true)
	distinct := cnt
	if distinct > 400 {
		distinct = 40
	}
	pool := make([]*Node, distinct)
	for i := range pool {
		pool[i] = genStruct(g, recType)
	}
	recs := make([]*Node, cnt)
	for i := range recs {
		recs[i] = pool[i%distinct]
	}
	deriveRecords(typ, n, &Node{K: kBytes, Recs: recs, RecMode: drawRecMode(r, typ), RecVer: ver})
}

// drawRecMode picks one of the setters the record-list pack offers.
func drawRecMode(r *vlib.Rand, typ string) string {
	switch typ {
	case "StatSqlPack", "StatHttpcPack", "StatTransactionPack", "StatTransactionPack1":
		if r.Bool() {
			return "SetRecordsList"
		}
	case "StatErrorPack":
		if r.Intn(3) == 0 {
			return "SetRecordsArray"
		}
	}
	return "SetRecords"
}

// applyRecords fills the record blob of the pack p from the records of rb through the pack's
// own setter, the way a sender does. It touches only what the setter touches (for ZipPack the
// gzip step of the zip sender is applied to the blob; the status flag stays a plain field).
func applyRecords(p interface{}, typ string, rb *Node) {
	cnt := len(rb.Recs)
	objs := make([]interface{}, cnt)
	for i, rec := range rb.Recs {
		objs[i] = buildObj(rec)
	}
	mode := rb.RecMode
	switch p := p.(type) {
	case *pack.StatServicePack:
		p.SetRecords(cnt, &sliceEnum{items: objs})
	case *pack.StatSqlPack:
		if mode == "SetRecordsList" {
			p.SetRecordsList(toList(objs))
		} else {
			p.SetRecords(cnt, &sliceEnum{items: objs})
		}
	case *pack.StatHttpcPack:
		if mode == "SetRecordsList" {
			p.SetRecordsList(toList(objs))
		} else {
			p.SetRecords(cnt, &sliceEnum{items: objs})
		}
	case *pack.StatErrorPack:
		if mode == "SetRecordsArray" {
			a := make([]*pack.ErrorRec, cnt)
			for i, o := range objs {
				a[i] = o.(*pack.ErrorRec)
			}
			p.SetRecordsArray(a)
		} else {
			p.SetRecords(cnt, &sliceEnum{items: objs})
		}
	case *pack.StatTransactionPack:
		// the record layout the setter writes is chosen by Version at that moment
		saved := p.Version
		p.Version = rb.RecVer
		defer func() { p.Version = saved }()
		if mode == "SetRecordsList" {
			p.SetRecordsList(toList(objs))
		} else {
			p.SetRecords(cnt, &sliceEnum{items: objs})
		}
	case *pack.StatTransactionPack1:
		saved := p.Version
		p.Version = rb.RecVer
		defer func() { p.Version = saved }()
		if mode == "SetRecordsList" {
			p.SetRecordsList(toList(objs))
		} else {
			p.SetRecords(cnt, &sliceEnum{items: objs})
		}
	case *pack.SMDownCheckPack:
		a := make([]*pack.DownCheckRec, cnt)
		for i, o := range objs {
			a[i] = o.(*pack.DownCheckRec)
		}
		p.SetRecords(a)
	case *pack.ZipPack:
		items := make([]pack.Pack, cnt)
		for i, o := range objs {
			items[i] = o.(pack.Pack)
		}
		p.SetRecords(items)
		rb.RecPlain = len(p.Records)
		if mode == "gzip" {
			// what logsink/zip's sender does before sending: gzip (+ status flag, a plain field)
			z, err := compressutil.DoZip(p.Records)
			if err != nil {
				panic(err)
			}
			p.Records = z
		}
	case *pack.LogSinkZipPack:
		o := gio.NewDataOutputX()
		for _, it := range objs {
			pack.WritePack(o, it.(pack.Pack))
		}
		rb.RecPlain = len(o.ToByteArray())
		p.SetRecords(o.ToByteArray(), rb.RecMin)
	default:
		panic("applyRecords: no setter for " + typ)
	}
}

// setterComputed names the manifest fields the record setter of the type fills in itself.
func setterComputed(typ string) []string {
	switch typ {
	case "LogSinkZipPack":
		return []string{"Records", "Status"} // the count is the caller's
	}
	return []string{"Records", "RecordCount"}
}

// deriveRecords fills the record fields of the model n (blob, count, status) by applying the
// records of rb to a FRESH pack through the pack's own setter.
func deriveRecords(typ string, n *Node, rb *Node) {
	ts := man.T(typ)
	iRec, _ := ts.field("Records")
	iCnt, _ := ts.field("RecordCount")
	iSt, _ := ts.field("Status")
	if typ == "ZipPack" && len(rb.Recs) == 0 {
		rb.RecMode = "plain" // the sender's gzip step refuses an empty blob
	}
	tmp := newObj(typ)
	perr := vlib.Catch(func() { applyRecords(tmp, typ, rb) })
	x := extractObj(typ, tmp)
	out := x.L[iRec]
	out.Recs, out.RecMode, out.RecVer, out.RecMin = rb.Recs, rb.RecMode, rb.RecVer, rb.RecMin
	out.RecPlain, out.RecClass = rb.RecPlain, rb.RecClass
	if out.Recs == nil {
		out.Recs = []*Node{}
	}
	n.L[iRec] = out
	n.L[iCnt] = x.L[iCnt]
	switch typ {
	case "ZipPack":
		n.L[iSt] = nInt(0)
		if rb.RecMode == "gzip" {
			n.L[iSt] = nInt(pack.ZIPPED)
		}
	case "LogSinkZipPack":
		n.L[iCnt] = nInt(int64(len(rb.Recs)))
		n.L[iSt] = x.L[iSt]
		out.RecMode = "plain"
		if x.L[iSt].I == pack.ZIPPED {
			out.RecMode = "gzip"
		}
	}
	if perr != nil {
		out.RecMode = fmt.Sprintf("%s panicked: %v", rb.RecMode, perr)
	}
}

// genZipRecords fills a zip container from inner packs the way the senders do.
func genZipRecords(g *genCtx, typ string, n *Node) {
	r := g.r
	ts := man.T(typ)
	iRec, _ := ts.field("Records")
	iCnt, _ := ts.field("RecordCount")
	if r.Intn(6) == 0 || g.depth >= 2 {
		if g.depth >= 2 {
			n.L[iRec] = &Node{K: kBytes, Nil: true}
			n.L[iCnt] = nInt(0)
		}
		return // arbitrary status / count / blob
	}
	cnt := recCount(r, false)
	if cnt > 60 {
		cnt = 60
	}
	recs := make([]*Node, cnt)
	g.depth++
	for i := range recs {
		recs[i] = genInner(g, typ)
	}
	// the payload's redundancy class (redundancy.go): only the outermost container
	class := "ordinary"
	if g.depth == 1 {
		recs, class = drawRedundancy(g, typ, recs)
	}
	g.depth--
	rb := &Node{K: kBytes, Recs: recs, RecMode: "plain", RecClass: class}
	compress := class != "ordinary" && r.Intn(6) != 0 // the classes are about the compressed form
	switch typ {
	case "ZipPack":
		if compress || r.Bool() {
			rb.RecMode = "gzip"
		}
	case "LogSinkZipPack":
		rb.RecMin = []int{0, 100, 1 << 30}[r.Intn(3)]
		if compress {
			rb.RecMin = []int{0, 100}[r.Intn(2)]
		}
	}
	deriveRecords(typ, n, rb)
}

// genInner draws one inner pack for a zip container.
func genInner(g *genCtx, typ string) *Node {
	if typ == "LogSinkZipPack" {
		return genStruct(g, "LogSinkPack")
	}
	return genStruct(g, nestedTypes[g.r.Intn(len(nestedTypes))])
}

// getRecords asks the decoded pack for its records.
func getRecords(typ string, obj interface{}) []interface{} {
	switch p := obj.(type) {
	case *pack.StatServicePack:
		// no GetRecords: the records are read with the package-level ReadRec
		if len(p.Records) == 0 {
			return nil
		}
		in := gio.NewDataInputX(p.Records)
		sz := int(in.ReadShort()) & 0xffff
		out := make([]interface{}, 0, sz)
		for i := 0; i < sz; i++ {
			out = append(out, pack.ReadRec(in))
		}
		return out
	case *pack.StatSqlPack:
		return fromList(p.GetRecords())
	case *pack.StatHttpcPack:
		return fromList(p.GetRecords())
	case *pack.StatErrorPack:
		var out []interface{}
		for _, x := range p.GetRecords() {
			out = append(out, x)
		}
		return out
	case *pack.StatTransactionPack:
		return fromList(p.GetRecords())
	case *pack.StatTransactionPack1:
		return fromList(p.GetRecords())
	case *pack.SMDownCheckPack:
		var out []interface{}
		for _, x := range p.GetRecords() {
			out = append(out, x)
		}
		return out
	case *pack.ZipPack:
		var out []interface{}
		for _, x := range p.GetRecords() {
			out = append(out, x)
		}
		return out
	case *pack.LogSinkZipPack:
		var out []interface{}
		for _, x := range p.GetRecords() {
			out = append(out, x)
		}
		return out
	}
	panic("getRecords: " + typ)
}

// stamp returns the expected form of an inner pack returned by a zip container's GetRecords.
func stamp(inner *Node, container *Node) *Node {
	c := *inner
	c.L = append([]*Node{}, inner.L...)
	its, cts := man.T(inner.T), man.T(container.T)
	for _, name := range []string{"Pcode", "Oid", "Okind", "Onode"} {
		i, _ := its.field(name)
		j, _ := cts.field(name)
		if i >= 0 && j >= 0 {
			c.L[i] = container.L[j]
		}
	}
	return &c
}
