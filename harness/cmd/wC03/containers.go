package main

// Record-list packs and container packs: the blob is filled through the pack's own
// SetRecords* API from generated records / inner packs (as the agent does), and after the
// round trip GetRecords() (or the equivalent reader) of the DECODED pack must return them
// equal, in order and — for the zip containers — stamped with the container's identity.

import (
	"fmt"

	gio "github.com/whatap/golib/io"
	"github.com/whatap/golib/lang/pack"
	"github.com/whatap/golib/util/compressutil"

	"verif/vlib"
)

func recCount(r *vlib.Rand, cheap bool) int {
	switch r.Intn(12) {
	case 0, 1:
		return 0
	case 2, 3:
		return 1
	case 4:
		return 2
	case 5:
		if cheap && r.Intn(10) == 0 {
			// what a 16-bit count can hold
			return []int{32767, 32768, 65535}[r.Intn(3)]
		}
		return r.Range(100, 400)
	default:
		return r.Range(2, 12)
	}
}

func genRecords(g *genCtx, typ string, n *Node) {
	r := g.r
	ts := man.T(typ)
	iRec, fRec := ts.field("Records")
	iCnt, _ := ts.field("RecordCount")
	if r.Intn(5) == 0 {
		return // an arbitrary blob with an arbitrary count: carried all the same
	}
	recType := fRec.Type
	ver := byte(0)
	if recType == "TransactionRec" {
		ver = byte(2 + r.Intn(3))
		recType = fmt.Sprintf("TransactionRec#v%d", ver)
	}
	cnt := recCount(r, true)
	distinct := cnt
	if distinct > 400 {
		distinct = 40
	}
	pool := make([]*Node, distinct)
	for i := range pool {
		pool[i] = genStruct(g, recType)
	}
	recs := make([]*Node, cnt)
	objs := make([]interface{}, cnt)
	for i := range recs {
		recs[i] = pool[i%distinct]
		objs[i] = buildObj(recs[i])
	}
	tmp := newObj(typ)
	mode := "SetRecords"
	perr := vlib.Catch(func() {
		switch p := tmp.(type) {
		case *pack.StatServicePack:
			p.SetRecords(cnt, &sliceEnum{items: objs})
		case *pack.StatSqlPack:
			if r.Bool() {
				mode = "SetRecordsList"
				p.SetRecordsList(toList(objs))
			} else {
				p.SetRecords(cnt, &sliceEnum{items: objs})
			}
		case *pack.StatHttpcPack:
			if r.Bool() {
				mode = "SetRecordsList"
				p.SetRecordsList(toList(objs))
			} else {
				p.SetRecords(cnt, &sliceEnum{items: objs})
			}
		case *pack.StatErrorPack:
			if r.Intn(3) == 0 {
				mode = "SetRecordsArray"
				a := make([]*pack.ErrorRec, cnt)
				for i, o := range objs {
					a[i] = o.(*pack.ErrorRec)
				}
				p.SetRecordsArray(a)
			} else {
				p.SetRecords(cnt, &sliceEnum{items: objs})
			}
		case *pack.StatTransactionPack:
			p.Version = ver
			if r.Bool() {
				mode = "SetRecordsList"
				p.SetRecordsList(toList(objs))
			} else {
				p.SetRecords(cnt, &sliceEnum{items: objs})
			}
		case *pack.StatTransactionPack1:
			p.Version = ver
			if r.Bool() {
				mode = "SetRecordsList"
				p.SetRecordsList(toList(objs))
			} else {
				p.SetRecords(cnt, &sliceEnum{items: objs})
			}
		case *pack.SMDownCheckPack:
			a := make([]*pack.DownCheckRec, cnt)
			for i, o := range objs {
				a[i] = o.(*pack.DownCheckRec)
			}
			p.SetRecords(a)
		default:
			panic("genRecords: no setter for " + typ)
		}
	})
	x := extractObj(typ, tmp)
	rb := x.L[iRec]
	rb.Recs, rb.RecMode = recs, mode
	if perr != nil {
		rb.RecMode = fmt.Sprintf("%s panicked: %v", mode, perr)
	}
	if rb.Recs == nil {
		rb.Recs = []*Node{}
	}
	n.L[iRec] = rb
	n.L[iCnt] = x.L[iCnt]
}

// genZipRecords fills a zip container from inner packs the way the senders do.
func genZipRecords(g *genCtx, typ string, n *Node) {
	r := g.r
	ts := man.T(typ)
	iRec, _ := ts.field("Records")
	iCnt, _ := ts.field("RecordCount")
	iSt, _ := ts.field("Status")
	if r.Intn(6) == 0 || g.depth >= 2 {
		if g.depth >= 2 {
			n.L[iRec] = &Node{K: kBytes, Nil: true}
			n.L[iCnt] = nInt(0)
		}
		return // arbitrary status / count / blob
	}
	cnt := recCount(r, false)
	if cnt > 60 {
		cnt = 60
	}
	recs := make([]*Node, cnt)
	objs := make([]pack.Pack, cnt)
	g.depth++
	for i := range recs {
		if typ == "LogSinkZipPack" {
			recs[i] = genStruct(g, "LogSinkPack")
		} else {
			recs[i] = genStruct(g, nestedTypes[r.Intn(len(nestedTypes))])
		}
		objs[i] = buildObj(recs[i]).(pack.Pack)
	}
	g.depth--
	mode := "plain"
	var blobBytes []byte
	status := int64(0)
	switch typ {
	case "ZipPack":
		p := pack.NewZipPack().SetRecords(objs)
		blobBytes = p.Records
		if r.Bool() {
			// what logsink/zip's sender does before sending: gzip + status flag
			z, err := compressutil.DoZip(p.Records)
			if err == nil {
				blobBytes, status, mode = z, pack.ZIPPED, "gzip"
			}
		}
	case "LogSinkZipPack":
		o := gio.NewDataOutputX()
		for _, it := range objs {
			pack.WritePack(o, it)
		}
		p := pack.NewLogSinkZipPack()
		min := []int{0, 100, 1 << 30}[r.Intn(3)]
		p.SetRecords(o.ToByteArray(), min)
		blobBytes, status = p.Records, int64(p.Status)
		if p.Status == pack.ZIPPED {
			mode = "gzip"
		}
	}
	n.L[iRec] = &Node{K: kBytes, B: blobBytes, Nil: blobBytes == nil, Recs: recs, RecMode: mode}
	n.L[iCnt] = nInt(int64(cnt))
	n.L[iSt] = nInt(status)
}

// getRecords asks the decoded pack for its records.
func getRecords(typ string, obj interface{}) []interface{} {
	switch p := obj.(type) {
	case *pack.StatServicePack:
		// no GetRecords: the records are read with the package-level ReadRec
		if len(p.Records) == 0 {
			return nil
		}
		in := gio.NewDataInputX(p.Records)
		sz := int(in.ReadShort()) & 0xffff
		out := make([]interface{}, 0, sz)
		for i := 0; i < sz; i++ {
			out = append(out, pack.ReadRec(in))
		}
		return out
	case *pack.StatSqlPack:
		return fromList(p.GetRecords())
	case *pack.StatHttpcPack:
		return fromList(p.GetRecords())
	case *pack.StatErrorPack:
		var out []interface{}
		for _, x := range p.GetRecords() {
			out = append(out, x)
		}
		return out
	case *pack.StatTransactionPack:
		return fromList(p.GetRecords())
	case *pack.StatTransactionPack1:
		return fromList(p.GetRecords())
	case *pack.SMDownCheckPack:
		var out []interface{}
		for _, x := range p.GetRecords() {
			out = append(out, x)
		}
		return out
	case *pack.ZipPack:
		var out []interface{}
		for _, x := range p.GetRecords() {
			out = append(out, x)
		}
		return out
	case *pack.LogSinkZipPack:
		var out []interface{}
		for _, x := range p.GetRecords() {
			out = append(out, x)
		}
		return out
	}
	panic("getRecords: " + typ)
}

// stamp returns the expected form of an inner pack returned by a zip container's GetRecords.
func stamp(inner *Node, container *Node) *Node {
	c := *inner
	c.L = append([]*Node{}, inner.L...)
	its, cts := man.T(inner.T), man.T(container.T)
	for _, name := range []string{"Pcode", "Oid", "Okind", "Onode"} {
		i, _ := its.field(name)
		j, _ := cts.field(name)
		if i >= 0 && j >= 0 {
			c.L[i] = container.L[j]
		}
	}
	return &c
}
