package main

// Held results: what the library hands out stays what it was.
//
// A round trip that compares every result at once cannot see an encoder that returns a slice
// of a buffer it will use again (pooled, per package or per object), a decoder that hands out
// slices of a scratch buffer or of the caller's input, or a constructor / GetRecords that
// returns instances it also gives to others: the result is right when it is returned and
// changes LATER, when another object is built, written or read. Two monitors:
//
// (a) the ring behind every oracle of this worker (single goroutine): encode() keeps the slice
//     the library returned AS RETURNED next to a private copy (the oracle goes on with the
//     copy) and the last few are compared with their copies after every following encode and
//     decode — that is after writes of the same object (history monitor) and of other objects
//     of the same and of other types:             <Func>:result-altered-later
//
// (b) cases with several objects alive at once (sections held/<Type> and, on 8 goroutines at
//     the same time, held-parallel), each around one manifest type:
//
//	prologue      every object of the case alone: the bytes a fresh object gives, the object
//	              decoded from them (walked, deep-copied), its re-encoding — the references
//	build         all objects built; after every later step each must still read back as
//	              it did:                          <Type>[.<field>]:built-object-altered-later
//	write         all objects written (ToBytesPack / ToBytesPackECB / WritePack into an own or
//	              a shared output / element and record writers), every result kept as returned
//	              and compared with the reference bytes at once:
//	                                               <Type>:bytes-differ/multi-object
//	              LogSinkPack.GetTabAsBytes / GetContentBytes / ResetTagHash results, record
//	              blobs made by SetRecords* likewise kept
//	decode        only then the results are decoded in a drawn order (ToPack straight from the
//	              returned slice, or from a private input that is overwritten afterwards) and
//	              compared with the reference object:
//	                                               <Type>[.<field>]:not-restored/multi-object
//	              every []byte reachable in the decoded object is kept as returned, GetRecords()
//	              results (inner packs, records) are walked and kept:
//	                                               <Type>.<Field>:result-altered-later
//	                                               <Type>[.<field>]:decoded-object-altered-later
//	rewrite       decoded objects written again in another order, results kept, compared with
//	              the reference re-encoding:       <Type>:reencode-differs/multi-object
//	end           everything re-verified; every returned encoding decoded once more
//
//     The objects of a case: the type of the section (one instance, and often the same model
//     with a few leaves flipped: same type, same size, other bytes), other draws of the same
//     type and other types (smaller, larger).

import (
	"bytes"
	"fmt"
	"reflect"
	"strings"
	"sync"
	"unsafe"

	gio "github.com/whatap/golib/io"
	"github.com/whatap/golib/lang/pack"

	"github.com/whatap/golib/lang/step"

	"verif/refcodec"
	"verif/stepgen"
	"verif/vlib"
)

// ---------------------------------------------------------------- a slice kept as returned

type heldRes struct {
	fn   string
	what string
	raw  []byte // as returned
	cp   []byte // private copy taken when it was returned
	dead bool
}

func newHeld(fn, what string, b []byte) *heldRes {
	return &heldRes{fn: fn, what: what, raw: b, cp: append(make([]byte, 0, len(b)), b...)}
}

func (h *heldRes) differs() string {
	if bytes.Equal(h.raw, h.cp) {
		return ""
	}
	i := firstDiff(h.raw, h.cp)
	lo, hi := i-4, i+12
	if lo < 0 {
		lo = 0
	}
	if hi > len(h.cp) {
		hi = len(h.cp)
	}
	return fmt.Sprintf("byte %d of %d: was %#02x, is now %#02x (bytes %d..%d were %x, are now %x)", i, len(h.cp), h.cp[i], h.raw[i], lo, hi-1, h.cp[lo:hi], h.raw[lo:hi])
}

// ---------------------------------------------------------------- (a) the ring

const ringSize = 6

var (
	ringOn   bool
	ring     [ringSize]*heldRes
	ringNext int
)

// ringKeep is called with the slice an encoder just returned: the ring is verified (the call
// that produced raw is a later call for everything in it), raw is kept as returned, and a
// private copy is handed to the oracle.
func ringKeep(ts *TypeSpec, raw []byte) []byte {
	if !ringOn {
		return raw
	}
	cp := append(make([]byte, 0, len(raw)), raw...)
	ringVerify("writing a " + ts.Name)
	if len(raw) > 0 {
		ring[ringNext] = &heldRes{fn: encodeFn(ts), what: "a " + ts.Name, raw: raw, cp: cp}
		ringNext = (ringNext + 1) % ringSize
		c.Count("held_ring_results", 1)
	}
	return cp
}

func ringVerify(after string) {
	if !ringOn {
		return
	}
	for i, h := range ring {
		if h == nil {
			continue
		}
		c.Count("held_ring_reverifications", 1)
		if d := h.differs(); d != "" {
			ring[i] = nil
			fail(h.fn+":result-altered-later",
				fmt.Sprintf("%s: the %d bytes returned for %s were kept as returned and have changed after %s: %s", h.fn, len(h.cp), h.what, after, d),
				func() map[string]interface{} {
					return map[string]interface{}{"function": h.fn, "result_of": h.what, "changed_after": after, "difference": d, "was": hexFull(h.cp), "is_now": hexFull(h.raw)}
				})
		}
	}
}

// ---------------------------------------------------------------- deep copies of walked trees

func cloneV(v refcodec.V) refcodec.V {
	w := v
	if v.B != nil {
		w.B = append(make([]byte, 0, len(v.B)), v.B...)
	}
	if v.LS != nil {
		x := *v.LS
		w.LS = &x
	}
	if v.DS != nil {
		x := *v.DS
		w.DS = &x
	}
	if v.List != nil {
		w.List = make([]refcodec.V, len(v.List))
		for i := range v.List {
			w.List[i] = cloneV(v.List[i])
		}
	}
	if v.Vals != nil {
		w.Vals = make([]refcodec.V, len(v.Vals))
		for i := range v.Vals {
			w.Vals[i] = cloneV(v.Vals[i])
		}
	}
	if v.Keys != nil {
		w.Keys = append(make([]string, 0, len(v.Keys)), v.Keys...)
	}
	if v.IntKeys != nil {
		w.IntKeys = append(make([]int32, 0, len(v.IntKeys)), v.IntKeys...)
	}
	if v.Ints != nil {
		w.Ints = append(make([]int32, 0, len(v.Ints)), v.Ints...)
	}
	if v.Floats != nil {
		w.Floats = append(make([]float32, 0, len(v.Floats)), v.Floats...)
	}
	if v.Texts != nil {
		w.Texts = append(make([]string, 0, len(v.Texts)), v.Texts...)
	}
	if v.Longs != nil {
		w.Longs = append(make([]int64, 0, len(v.Longs)), v.Longs...)
	}
	return w
}

// cloneNode copies a tree read from a live object so that nothing in it aliases the object.
func cloneNode(n *Node) *Node {
	if n == nil {
		return nil
	}
	c := *n
	if n.B != nil {
		c.B = append(make([]byte, 0, len(n.B)), n.B...)
	}
	if n.L != nil {
		c.L = make([]*Node, len(n.L))
		for i, e := range n.L {
			c.L[i] = cloneNode(e)
		}
	}
	if n.Keys != nil {
		c.Keys = make([]*Node, len(n.Keys))
		for i, e := range n.Keys {
			c.Keys[i] = cloneNode(e)
		}
	}
	if n.V != nil {
		v := cloneV(*n.V)
		c.V = &v
	}
	if n.Tx != nil {
		t := *n.Tx
		if t.Fields != nil {
			f := cloneV(*t.Fields)
			t.Fields = &f
		}
		c.Tx = &t
	}
	c.Recs = nil
	return &c
}

// ---------------------------------------------------------------- every []byte reachable in an object

func collectBytes(v reflect.Value, path string, depth int, seen map[uintptr]bool, out *[]*heldRes, typ string, max int) {
	if len(*out) >= max || depth > 6 || !v.IsValid() {
		return
	}
	switch v.Kind() {
	case reflect.Ptr:
		if v.IsNil() || seen[v.Pointer()] {
			return
		}
		seen[v.Pointer()] = true
		collectBytes(v.Elem(), path, depth+1, seen, out, typ, max)
	case reflect.Interface:
		if !v.IsNil() {
			collectBytes(v.Elem(), path, depth+1, seen, out, typ, max)
		}
	case reflect.Struct:
		t := v.Type()
		if !strings.Contains(t.PkgPath(), "whatap/golib") {
			return // sync.Mutex, bytes.Buffer, list.List …
		}
		for i := 0; i < v.NumField() && len(*out) < max; i++ {
			f := v.Field(i)
			if !f.CanInterface() { // unexported: read it through its address
				if !f.CanAddr() {
					continue
				}
				f = reflect.NewAt(f.Type(), unsafe.Pointer(f.UnsafeAddr())).Elem()
			}
			p := t.Field(i).Name
			if t.Field(i).Anonymous {
				p = ""
			}
			if path != "" && p != "" {
				p = path + "." + p
			} else if p == "" {
				p = path
			}
			collectBytes(f, p, depth+1, seen, out, typ, max)
		}
	case reflect.Slice:
		if v.IsNil() || v.Len() == 0 {
			return
		}
		if v.Type().Elem().Kind() == reflect.Uint8 {
			*out = append(*out, newHeld(typ+"."+stripIdx(path), path, v.Bytes()))
			return
		}
		switch v.Type().Elem().Kind() {
		case reflect.Ptr, reflect.Interface, reflect.Struct:
			for i := 0; i < v.Len() && i < 4 && len(*out) < max; i++ {
				collectBytes(v.Index(i), fmt.Sprintf("%s[%d]", path, i), depth+1, seen, out, typ, max)
			}
		}
	}
}

// stripIdx removes positions from a field path (stable finding keys).
func stripIdx(p string) string {
	var sb strings.Builder
	skip := false
	for _, r := range p {
		switch {
		case r == '[':
			skip = true
			sb.WriteString("[]")
		case r == ']':
			skip = false
		case !skip:
			sb.WriteRune(r)
		}
	}
	return sb.String()
}

// ---------------------------------------------------------------- pack setters that serialize their argument

// A blobSetter is a method of a pack that serializes what it is given and stores the bytes in
// the pack (besides SetRecords*, which applyRecords drives): the stored slice is a result the
// library made, and the caller sends it later.
type blobSetter struct {
	fn    string // finding-key name
	field string // where the bytes are stored
	call  func(p interface{}, steps []step.Step, ints []int32)
}

var blobSetters = map[string][]blobSetter{
	"ProfilePack": {{"ProfilePack.SetProfile", "Steps", func(p interface{}, s []step.Step, _ []int32) { p.(*pack.ProfilePack).SetProfile(s) }}},
	"ProfileStepSplitPack": {{"ProfileStepSplitPack.SetProfile", "Steps", func(p interface{}, s []step.Step, _ []int32) {
		p.(*pack.ProfileStepSplitPack).SetProfile(s)
	}}},
	"ErrorSnapPack1": {
		{"ErrorSnapPack1.SetProfile", "Profile", func(p interface{}, s []step.Step, _ []int32) { p.(*pack.ErrorSnapPack1).SetProfile(s) }},
		{"ErrorSnapPack1.SetStack", "Stack", func(p interface{}, _ []step.Step, a []int32) { p.(*pack.ErrorSnapPack1).SetStack(a) }},
	},
}

// setterArgs draws what the blob setters of a case are given (the same arguments in the
// prologue and in the case).
type setterArgs struct {
	ref   []stepgen.RefStep
	ints  []int32
	alone map[string][]byte // fn -> the bytes the setter stored when called alone (private copy)
}

func (a *setterArgs) steps() []step.Step {
	out := make([]step.Step, len(a.ref))
	for i := range a.ref {
		out[i] = stepgen.ToGolib(a.ref[i])
	}
	return out
}

// ---------------------------------------------------------------- (b) one case

// harnessMu serialises the parts of the harness that use package-level state (the generator's
// record hooks and the reflection walk) while a case runs on many goroutines. The library
// calls under observation — constructors, writers, readers, GetRecords — run outside it.
var harnessMu sync.Mutex

type liveObj struct {
	kind string // built | decoded | record
	what string
	typ  string // manifest type to walk it as
	obj  interface{}
	fp   *Node // deep copy of what a walk gave when the object was last the subject of a call
	dead bool
}

type pobj struct {
	ts     *TypeSpec
	tree   *Node
	name   string
	obj    interface{}
	live   *liveObj
	ref    []byte // bytes of a fresh object, alone
	refFp  *Node  // walk of the object decoded from ref, alone (nil: not decodable / not walkable)
	refRe  []byte // re-encoding of that object (nil: none)
	raw    []byte // encoding in the case, as returned
	cp     []byte
	ecb    int
	fn     string // the library call that returned raw
	d      interface{}
	stream bool
	args   *setterArgs // types with blob setters
}

type pcase struct {
	id     string
	par    bool
	log    []string
	held   []*heldRes
	objs   []*liveObj
	cnt    map[string]int64
	failed bool
}

func (h *pcase) logf(f string, a ...interface{}) {
	if len(h.log) < 300 {
		h.log = append(h.log, fmt.Sprintf(f, a...))
	}
}

func (h *pcase) locked(f func()) {
	if h.par {
		harnessMu.Lock()
		defer harnessMu.Unlock()
	}
	f()
}

// walk reads obj through the manifest (a deep copy; nil when the walk panics).
func (h *pcase) walk(typ string, obj interface{}) (n *Node, panicked interface{}) {
	h.locked(func() {
		panicked = vlib.Catch(func() { n = cloneNode(extractObj(typ, obj)) })
	})
	if panicked != nil {
		n = nil
	}
	return
}

func (h *pcase) fail(key, what string, extra map[string]interface{}) {
	h.failed = true
	h.cnt["held_failures"]++
	if c.IsKnown(key) {
		c.Fail(key, what, nil)
		return
	}
	m := map[string]interface{}{"case": h.id, "history": append([]string(nil), h.log...)}
	for k, x := range extra {
		m[k] = x
	}
	c.Fail(key, what, m)
}

func (h *pcase) hold(x *heldRes) {
	h.held = append(h.held, x)
	h.cnt["held_results"]++
	h.cnt["held_results/"+x.fn]++
}

func (h *pcase) watch(kind, what, typ string, obj interface{}, fp *Node) *liveObj {
	o := &liveObj{kind: kind, what: what, typ: typ, obj: obj, fp: fp}
	h.objs = append(h.objs, o)
	h.cnt["held_objects_"+kind]++
	return o
}

// after re-verifies everything alive after the library call described by step; subject (may
// be nil) is the object the call was made on: what it reads back as now is its new reference.
func (h *pcase) after(step string, subject *liveObj) {
	h.logf("%s", step)
	for _, x := range h.held {
		if x.dead {
			continue
		}
		h.cnt["held_reverifications"]++
		if d := x.differs(); d != "" {
			x.dead = true
			h.fail(x.fn+":result-altered-later",
				fmt.Sprintf("%s: the result for %s was kept as returned and has changed after a later call (%s): %s", x.fn, x.what, step, d),
				map[string]interface{}{"function": x.fn, "result_of": x.what, "changed_after": step, "difference": d, "was": hexFull(x.cp), "is_now": hexFull(x.raw)})
		}
	}
	for _, o := range h.objs {
		if o.dead {
			continue
		}
		now, p := h.walk(o.typ, o.obj)
		if o == subject {
			if p != nil {
				o.dead = true
			} else {
				o.fp = now
			}
			continue
		}
		h.cnt["held_object_rewalks"]++
		base := strings.SplitN(o.typ, "#", 2)[0]
		if p != nil {
			o.dead = true
			h.fail(base+":"+o.kind+"-object-altered-later", fmt.Sprintf("%s: walking %s panics after a later call on another object (%s): %v", o.typ, o.what, step, p),
				map[string]interface{}{"object": o.what, "as_it_was": renderStr(o.fp, 4000), "changed_after": step})
			continue
		}
		if d := diffNode(o.fp, now, "", ""); d != nil {
			o.dead = true
			kind := o.kind
			if kind == "record" {
				kind = "decoded"
			}
			h.fail(keyOf(o.typ, d, kind+"-object-altered-later"),
				fmt.Sprintf("%s: %s read back the same until now and differs at %s after a later call on another object (%s): %s", o.typ, o.what, d.Path, step, strings.Replace(d.What, "decoded", "now", -1)),
				map[string]interface{}{"object": o.what, "as_it_was": renderStr(o.fp, 4000), "now": renderStr(now, 4000), "path": d.Path, "changed_after": step})
		}
	}
}

// drawObjects: the manifest types and models of one case around the section's type.
func (h *pcase) drawObjects(base string, names []string, r *vlib.Rand) []*pobj {
	k := 3 + r.Intn(3)
	var out []*pobj
	h.locked(func() {
		seed := r.U64()
		add := func(typ string, tree *Node, how string) {
			out = append(out, &pobj{ts: man.T(typ), tree: tree, name: fmt.Sprintf("object %d (%s, %s)", len(out), typ, how)})
		}
		add(base, genTree(base, vlib.NewRand(seed)), "the section's type")
		for len(out) < k {
			switch r.Intn(6) {
			case 0, 1:
				// the same model with one to three leaves flipped: same type, same size, other bytes
				tree := genTree(base, vlib.NewRand(seed))
				var lv []leaf
				leaves(r, tree, "", "", &lv)
				if len(lv) == 0 {
					continue
				}
				n := 0
				for f := 1 + r.Intn(3); f > 0; f-- {
					if lv[r.Intn(len(lv))].flip() != nil {
						n++
					}
				}
				add(base, tree, fmt.Sprintf("the first model with %d leaves flipped", n))
			case 2:
				add(base, genTree(base, r.Fork("same")), "another draw of the type")
			default:
				t := names[r.Intn(len(names))]
				add(t, genTree(t, r.Fork("other")), "another type")
			}
		}
	})
	r.Shuffle(len(out), func(i, j int) { out[i], out[j] = out[j], out[i] })
	return out
}

// heldDecode reads enc back with the reader of the type; direct: registered packs through the
// one-call pack.ToPack on the very slice given.
func heldDecode(ts *TypeSpec, input []byte, direct bool) (obj interface{}, avail int, panicked interface{}) {
	if direct {
		panicked = vlib.Catch(func() { obj = pack.ToPack(input) })
		return obj, -1, panicked
	}
	in := gio.NewDataInputX(input)
	panicked = vlib.Catch(func() {
		switch ts.Class {
		case "pack":
			t := in.ReadShort()
			if t != parseCode(ts.Code) {
				panic(fmt.Sprintf("type short on the wire is %#x, manifest says %s", uint16(t), ts.Code))
			}
			var p pack.Pack
			if ts.Registered {
				p = pack.CreatePack(t)
			} else {
				p = newObj(ts.Name).(pack.Pack)
			}
			obj = p
			p.Read(in)
		case "element":
			obj = newObj(ts.Name)
			callMethod(obj, "Read", in)
		case "record":
			switch ts.Name {
			case "ErrorRec":
				obj = pack.NewStatErrorPack().ReadRec(in)
			case "ServiceRec":
				obj = pack.ReadRec(in)
			case "DownCheckRec":
				obj = pack.NewSMDownCheckPack().ReadRec(in)
			default:
				obj = pack.ReadTransactionRec(in)
			}
		}
	})
	return obj, int(in.Available()), panicked
}

func isNilObj(x interface{}) bool {
	if x == nil {
		return true
	}
	v := reflect.ValueOf(x)
	return v.Kind() == reflect.Ptr && v.IsNil()
}

func baseName(typ string) string { return strings.SplitN(typ, "#", 2)[0] }

func heldPackCase(id, base string, names []string, r *vlib.Rand, par bool) {
	h := &pcase{id: id, par: par, cnt: map[string]int64{}}
	defer func() {
		for k, n := range h.cnt {
			c.Count(k, n)
		}
	}()
	drawn := h.drawObjects(base, names, r)

	// prologue: every object alone — reference bytes, reference decoded object, reference re-encoding
	var objs []*pobj
	for _, o := range drawn {
		o := o
		if p := vlib.Catch(func() { o.ref = append([]byte(nil), encodeRaw(o.ts, buildObj(o.tree))...) }); p != nil {
			h.cnt["held_objects_unwritable"]++
			continue // unwritable model (a flipped selector …): roundtrip/history report what is theirs
		}
		input := append(append(make([]byte, 0, len(o.ref)+len(canary)), o.ref...), canary...)
		d, avail, p := heldDecode(o.ts, input, false)
		if p == nil && !isNilObj(d) && avail == len(canary) {
			if fp, wp := h.walk(o.ts.Name, d); wp == nil {
				o.refFp = fp
				if pe := vlib.Catch(func() { o.refRe = append([]byte(nil), encodeRaw(o.ts, d)...) }); pe != nil {
					o.refRe = nil
				}
				var agree bool
				h.locked(func() { agree = diffNode(expected(o.tree), fp, "", "") == nil })
				if agree {
					h.cnt["held_reference_decodes_equal_to_model"]++
				}
			}
		}
		if o.refFp == nil {
			h.cnt["held_objects_not_decodable_alone"]++ // listed reader defects: written and held only
		}
		if bs := blobSetters[o.ts.Name]; bs != nil {
			a := &setterArgs{ref: stepgen.GenSteps(r, r.Intn(6)), alone: map[string][]byte{}}
			for n := r.Intn(20); n > 0; n-- {
				a.ints = append(a.ints, r.I32())
			}
			for _, b := range bs {
				b := b
				tmp := newObj(o.ts.Name)
				if p := vlib.Catch(func() {
					b.call(tmp, a.steps(), a.ints)
					a.alone[b.fn] = append([]byte{}, fieldOf(reflect.ValueOf(tmp).Elem(), b.field).Bytes()...)
				}); p != nil {
					delete(a.alone, b.fn)
				}
			}
			o.args = a
		}
		objs = append(objs, o)
	}
	if len(objs) < 2 {
		return
	}
	hash := uint64(0)
	for _, o := range objs {
		hash = vlib.Mix(hash ^ vlib.HashBytes(o.ref))
	}
	h.logf("prologue: %d objects written, decoded and re-written alone (references)", len(objs))

	// build: all objects alive before the first write
	for _, o := range objs {
		o := o
		if p := vlib.Catch(func() { o.obj = buildObj(o.tree) }); p != nil {
			return
		}
		fp, wp := h.walk(o.ts.Name, o.obj)
		if wp != nil {
			return
		}
		o.live = h.watch("built", o.name, o.ts.Name, o.obj, fp)
		h.after("built "+o.name, o.live)
	}

	// write: every result kept as returned
	var shared *gio.DataOutputX
	order := make([]int, len(objs))
	for i := range order {
		order[i] = i
	}
	r.Shuffle(len(order), func(i, j int) { order[i], order[j] = order[j], order[i] })
	for _, i := range order {
		o := objs[i]
		typ := baseName(o.ts.Name)
		// getters that serialize a part of the pack
		if lp, ok := o.obj.(*pack.LogSinkPack); ok && lp.Tags != nil {
			var tab, content, reset []byte
			if p := vlib.Catch(func() {
				tab = lp.GetTabAsBytes()
				content = lp.GetContentBytes()
				reset = buildObj(o.tree).(*pack.LogSinkPack).ResetTagHash()
			}); p == nil {
				h.hold(newHeld("LogSinkPack.GetTabAsBytes", o.name, tab))
				h.hold(newHeld("LogSinkPack.GetContentBytes", o.name, content))
				h.hold(newHeld("LogSinkPack.ResetTagHash", "a second instance of "+o.name, reset))
				h.after("GetTabAsBytes, GetContentBytes of "+o.name+", ResetTagHash of a second instance", o.live)
			}
		}
		// record blobs made by the pack's own setter, on a second instance
		if iRec, fRec := o.ts.field("Records"); fRec != nil && fRec.Kind == "recblob" && o.tree.L[iRec].Recs != nil && len(o.tree.L[iRec].Recs) <= 400 {
			tmp := newObj(o.ts.Name)
			var blob []byte
			var p interface{}
			h.locked(func() { // applyRecords builds the records by reflection
				p = vlib.Catch(func() {
					applyRecords(tmp, o.ts.Name, o.tree.L[iRec])
					blob = fieldOf(reflect.ValueOf(tmp).Elem(), "Records").Bytes()
				})
			})
			if p == nil && len(blob) > 0 {
				h.hold(newHeld(typ+".SetRecords", "the record blob "+o.tree.L[iRec].RecMode+" stored in a second instance of "+o.name, blob))
				h.after("SetRecords ("+o.tree.L[iRec].RecMode+") on a second instance of "+o.name, nil)
			}
		}
		// … and by the setters that serialize steps / a stack, on a second instance
		if o.args != nil {
			for _, b := range blobSetters[o.ts.Name] {
				b := b
				alone, ok := o.args.alone[b.fn]
				if !ok {
					continue
				}
				tmp := newObj(o.ts.Name)
				var blob []byte
				if p := vlib.Catch(func() {
					b.call(tmp, o.args.steps(), o.args.ints)
					blob = fieldOf(reflect.ValueOf(tmp).Elem(), b.field).Bytes()
				}); p != nil {
					h.fail(b.fn+":encode-panics/multi-object", fmt.Sprintf("%s on a second instance of %s panics (%v); alone the same call is fine", b.fn, o.name, p), nil)
					return
				}
				cp := append([]byte{}, blob...)
				if len(blob) > 0 {
					h.hold(newHeld(b.fn, fmt.Sprintf("the %d bytes stored in field %s of a second instance of %s", len(blob), b.field, o.name), blob))
				}
				if !bytes.Equal(cp, alone) {
					h.fail(b.fn+":bytes-differ/multi-object", fmt.Sprintf("%s with the same argument stores other bytes after other objects were written than alone (first difference at byte %d of %d)", b.fn, firstDiff(cp, alone), len(alone)),
						map[string]interface{}{"stored_in_the_case": hexFull(cp), "stored_alone": hexFull(alone)})
					return
				}
				h.after(fmt.Sprintf("%s (%d steps / %d frames) on a second instance of %s", b.fn, len(o.args.ref), len(o.args.ints), o.name), nil)
			}
		}
		mode := r.Intn(5)
		fn, how := "", ""
		if p := vlib.Catch(func() {
			switch {
			case mode == 0:
				if shared == nil {
					shared = gio.NewDataOutputX()
				}
				start := len(shared.ToByteArray())
				encodeInto(o.ts, o.obj, shared)
				whole := shared.ToByteArray()
				o.raw, o.stream = whole[start:], true
				fn, how = "DataOutputX.ToByteArray", fmt.Sprintf("written into the shared output (bytes %d..%d of it)", start, len(whole))
				h.cnt["held_shared_output_writes"]++
			case mode == 1 && o.ts.Class == "pack":
				o.ecb = []int{8, 16, 7}[r.Intn(3)]
				o.raw = pack.ToBytesPackECB(o.obj.(pack.Pack), o.ecb)
				fn, how = "pack.ToBytesPackECB", fmt.Sprintf("ToBytesPackECB(p, %d)", o.ecb)
			case mode == 2 && o.ts.Class == "pack":
				out := gio.NewDataOutputX()
				pack.WritePack(out, o.obj.(pack.Pack))
				o.raw = out.ToByteArray()
				fn, how = "pack.WritePack", "WritePack into its own output"
			case o.ts.Class == "pack":
				o.raw = pack.ToBytesPack(o.obj.(pack.Pack))
				fn, how = "pack.ToBytesPack", "ToBytesPack"
			default:
				o.raw = encodeRaw(o.ts, o.obj)
				fn, how = encodeFn(o.ts), "its own writer into its own output"
			}
		}); p != nil {
			h.fail(typ+":encode-panics/multi-object", fmt.Sprintf("%s: writing %s panics (%v) while a fresh object with the same values alone is written fine", typ, o.name, p), map[string]interface{}{"populated": renderStr(o.tree, 4000)})
			return
		}
		o.cp, o.fn = append([]byte(nil), o.raw...), fn
		h.hold(newHeld(fn, "the encoding of "+o.name, o.raw))
		want := o.ref
		if o.ecb > 0 {
			want = append([]byte(nil), o.ref...)
			if rem := len(want) % o.ecb; rem != 0 {
				want = append(want, make([]byte, o.ecb-rem)...)
			}
		}
		if !bytes.Equal(o.cp, want) {
			h.fail(typ+":bytes-differ/multi-object",
				fmt.Sprintf("%s: %s %s after other objects: the %d bytes differ at byte %d from the %d bytes a fresh object with the same values gives alone", typ, o.name, how, len(o.cp), firstDiff(o.cp, want), len(want)),
				map[string]interface{}{"populated": renderStr(o.tree, 4000), "bytes_in_the_case": hexFull(o.cp), "bytes_alone": hexFull(want)})
			return
		}
		h.after(fmt.Sprintf("%s: %s, %d bytes", o.name, how, len(o.raw)), o.live)
	}
	if len(objs) >= 3 {
		h.cnt["held_multi_object_histories"]++
	}
	for i := range objs {
		for j := i + 1; j < len(objs); j++ {
			if objs[i].ts == objs[j].ts && len(objs[i].ref) == len(objs[j].ref) && !bytes.Equal(objs[i].ref, objs[j].ref) {
				h.cnt["held_same_type_same_size_pairs"]++
			}
		}
	}

	// decode: only now, in a drawn order
	r.Shuffle(len(order), func(i, j int) { order[i], order[j] = order[j], order[i] })
	for _, i := range order {
		o := objs[i]
		if o.refFp == nil {
			continue
		}
		typ := baseName(o.ts.Name)
		direct := o.ts.Class == "pack" && o.ts.Registered && o.ecb == 0 && r.Intn(3) == 0
		var input []byte
		if direct {
			input = o.raw
		} else {
			input = append(append(make([]byte, 0, len(o.ref)+len(canary)), o.ref...), canary...)
		}
		d, avail, p := heldDecode(o.ts, input, direct)
		if p != nil || isNilObj(d) || (!direct && avail != len(canary)) {
			h.fail(typ+":decode-panics/multi-object",
				fmt.Sprintf("%s: decoding the encoding of %s after the other objects were written: panic %v, %d bytes left (want %d) — alone the same bytes decode", typ, o.name, p, avail, len(canary)),
				map[string]interface{}{"populated": renderStr(o.tree, 4000), "bytes": hexFull(o.ref)})
			return
		}
		o.d = d
		fp, wp := h.walk(o.ts.Name, d)
		var df *difference
		if wp == nil {
			df = diffNode(o.refFp, fp, "", "")
		}
		if wp != nil || df != nil {
			key, what := typ+":not-restored/multi-object", fmt.Sprintf("walking it panics: %v", wp)
			if df != nil {
				key, what = keyOf(o.ts.Name, df, "not-restored/multi-object"), fmt.Sprintf("differs at %s: %s", df.Path, df.What)
			}
			h.fail(key, fmt.Sprintf("%s: %s decoded after all objects of the case were written (and others decoded) is not the object the same bytes give alone: %s", typ, o.name, what),
				map[string]interface{}{"populated": renderStr(o.tree, 4000), "decoded_alone": renderStr(o.refFp, 4000), "decoded_in_the_case": renderStr(fp, 4000), "bytes": hexFull(o.ref)})
			return
		}
		h.cnt["held_multi_object_decodes"]++
		live := h.watch("decoded", "the object decoded from the encoding of "+o.name, o.ts.Name, d, fp)
		var bs []*heldRes
		collectBytes(reflect.ValueOf(d), "", 0, map[uintptr]bool{}, &bs, typ, 8)
		for _, x := range bs {
			x.what = "field " + x.what + " of the object decoded from the encoding of " + o.name
			h.hold(x)
		}
		h.after(fmt.Sprintf("decoded the encoding of %s (ToPack on the returned slice itself: %v)", o.name, direct), live)
		if !direct {
			for j := range input {
				input[j] = byte(0xA5 + j*7)
			}
			h.cnt["held_input_overwrites"]++
			h.after("the input slice "+o.name+" was decoded from overwritten by the caller", nil)
		}
		// container and record-list packs: what GetRecords hands out
		if iRec, fRec := o.ts.field("Records"); fRec != nil && fRec.Kind == "recblob" && o.tree.L[iRec].Recs != nil {
			recs := o.tree.L[iRec].Recs
			var got []interface{}
			if p := vlib.Catch(func() { got = getRecords(o.ts.Name, d) }); p == nil && len(got) == len(recs) {
				h.cnt["held_getrecords_calls"]++
				for j := 0; j < len(got) && j < 6; j++ {
					if isNilObj(got[j]) {
						continue
					}
					if rfp, rp := h.walk(recs[j].T, got[j]); rp == nil {
						h.watch("record", fmt.Sprintf("record %d returned by GetRecords() of the object decoded from %s", j, o.name), recs[j].T, got[j], rfp)
					}
				}
				h.after("GetRecords() of the object decoded from "+o.name, live)
				// asked again: a second result, the first one stays
				if p := vlib.Catch(func() { getRecords(o.ts.Name, d) }); p == nil {
					h.after("GetRecords() of the object decoded from "+o.name+" called a second time", live)
				}
			}
		}
	}

	// rewrite: the decoded objects written again, in another order
	r.Shuffle(len(order), func(i, j int) { order[i], order[j] = order[j], order[i] })
	for _, i := range order {
		o := objs[i]
		if o.d == nil || o.refRe == nil {
			continue
		}
		typ := baseName(o.ts.Name)
		var again []byte
		if p := vlib.Catch(func() { again = encodeRaw(o.ts, o.d) }); p != nil {
			h.fail(typ+":reencode-differs/multi-object", fmt.Sprintf("%s: re-encoding the object decoded from %s panics (%v); alone it is written fine", typ, o.name, p), nil)
			return
		}
		acp := append([]byte(nil), again...)
		h.hold(newHeld(encodeFn(o.ts), "the re-encoding of the object decoded from "+o.name, again))
		if !bytes.Equal(acp, o.refRe) {
			h.fail(typ+":reencode-differs/multi-object",
				fmt.Sprintf("%s: re-encoding the object decoded from %s differs at byte %d from the re-encoding the same bytes give alone", typ, o.name, firstDiff(acp, o.refRe)),
				map[string]interface{}{"populated": renderStr(o.tree, 4000), "reencoded_in_the_case": hexFull(acp), "reencoded_alone": hexFull(o.refRe)})
			return
		}
		var subject *liveObj
		for _, l := range h.objs {
			if l.obj == o.d {
				subject = l
			}
		}
		h.after("the object decoded from "+o.name+" written again", subject)
	}
	if h.failed {
		return
	}

	// end of the case
	h.after("end of the case", nil)
	for _, o := range objs {
		if o.refFp == nil || o.ecb > 0 {
			continue
		}
		d, _, p := heldDecode(o.ts, o.raw, false)
		var fp *Node
		var wp interface{}
		if p == nil && !isNilObj(d) {
			fp, wp = h.walk(o.ts.Name, d)
		}
		if p != nil || wp != nil || fp == nil || diffNode(o.refFp, fp, "", "") != nil {
			// the bytes themselves were compared with their copy just above: they are what they were
			h.fail(baseName(o.ts.Name)+":not-restored/multi-object",
				fmt.Sprintf("%s: at the end of the case the (unchanged) encoding of %s no longer decodes to the object the same bytes gave alone (panic %v/%v)", baseName(o.ts.Name), o.name, p, wp),
				map[string]interface{}{"bytes": hexFull(o.cp), "decoded_alone": renderStr(o.refFp, 4000), "decoded_now": renderStr(fp, 4000)})
			return
		}
		h.cnt["held_final_decodes"]++
	}
	h.cnt["held_cases"]++
	if par {
		h.cnt["held_parallel_cases"]++
	}
	h.cnt["held_objects_per_case_total"] += int64(len(objs))
	c.Distinct(hash)
	c.SetAdd("held_types_covered", base)
	if (heldSampled < 2 && !par && len(h.log) <= 60) && c.WantSample() {
		heldSampled++
		c.Sample(map[string]interface{}{"section": "held", "case": id, "history": h.log})
	}
}

var heldSampled int
