package main

// Decoding INTO A USED OBJECT.
//
// Every other oracle of this worker decodes into the object the factory (or the constructor)
// just made. A receiver that keeps one pack object per connection and calls Read on it again,
// or a caller that populated a pack before Read, must still get exactly what the bytes carry:
// the decoded pack has "equal values in every field the wire format carries", which includes
// optional sections the bytes do NOT carry being absent afterwards, lists and maps holding the
// entries of the bytes only — and whatever the first Read handed out (the transaction record,
// maps, lists, slices the caller may have kept) must not be changed by the second Read.
//
// One case (sections reuse/<Type>, every pack type and every element with its own Read):
//
//	A, B     two models of the type: B an independent draw, in half of the cases thinned
//	         (optional sections, lists, maps, blobs, texts absent / empty) so that B is
//	         shorter than A where A is longer, and the other way round
//	ref      B's bytes decoded into a FRESH object: the reference walk, and the re-encoding of
//	         another fresh decode (never walked)
//	used     an object o that already holds A — "second-read": A's bytes were Read into it;
//	         "populated": the caller set every field (Transaction, maps, lists …) —
//	         then B's bytes are Read into the SAME o
//	kept     before the second Read a shallow copy of *o is taken: it holds the very pointers,
//	         maps and slices the first Read handed out; it is walked before and after
//
//	<Type>[.<field>]:not-restored/used-object     o differs from the fresh decode of B
//	<Type>:not-consumed/used-object               the second Read consumed another number of bytes
//	<Type>:decode-panics/used-object              the second Read panics, a fresh object reads B fine
//	<Type>:reencode-differs/used-object           o re-encodes differently from the fresh decode
//	<Type>[.<field>]:handed-out-altered-by-later-read   what the first Read handed out has changed
//
// The reference is what the SAME code gives for a fresh object, so the recorded reader defects
// (sections the reader drops) cancel out; cases whose second pack holds a section recorded as
// derailing the reader, or whose reference decode fails, are counted as skipped.

import (
	"bytes"
	"fmt"
	"reflect"
	"strings"

	gio "github.com/whatap/golib/io"
	"github.com/whatap/golib/lang/pack"

	"verif/vlib"
)

// freshFor returns the object a receiver decodes into: the factory's for registered packs.
func freshFor(ts *TypeSpec) interface{} {
	if ts.Class == "pack" && ts.Registered {
		if p := pack.CreatePack(parseCode(ts.Code)); p != nil && !reflect.ValueOf(p).IsNil() {
			return p
		}
	}
	return newObj(ts.Name)
}

// readInto calls the type's own Read on o with enc followed by the canary.
func readInto(ts *TypeSpec, o interface{}, enc []byte) (avail int, panicked interface{}) {
	buf := append(append(make([]byte, 0, len(enc)+len(canary)), enc...), canary...)
	in := gio.NewDataInputX(buf)
	panicked = vlib.Catch(func() {
		if ts.Class == "pack" {
			if t := in.ReadShort(); t != parseCode(ts.Code) {
				panic(fmt.Sprintf("type short on the wire is %#x, manifest says %s", uint16(t), ts.Code))
			}
			o.(pack.Pack).Read(in)
			return
		}
		callMethod(o, "Read", in)
	})
	return int(in.Available()), panicked
}

// thinField makes field k of the model the value the wire's shortest form stands for: numbers
// 0, texts and blobs empty, optional sections absent, lists and maps empty. Fields that are
// only meaningful together with others (record blob + count + status, a selector and the
// section it selects) are left alone.
func thinField(r *vlib.Rand, ts *TypeSpec, n *Node, k int) bool {
	f := &ts.Fields[k]
	if len(groupOf(ts, k)) != 1 {
		return false
	}
	var to *Node
	switch f.Kind {
	case "int", "bool":
		to = nInt(0)
	case "f32":
		to = &Node{K: kF32}
	case "f64":
		to = &Node{K: kF64}
	case "ptr", "intintmap", "intkeylmap", "intkeymap", "linkedmap":
		to = &Node{K: kAbsent}
	case "mapvalue", "intmapvalue", "strptr":
		if !f.NonNil {
			to = &Node{K: kAbsent}
		} else if f.Kind == "strptr" {
			to = &Node{K: kStr}
		}
	case "strmap", "strintmap", "intintlmap":
		to = &Node{K: kMap}
	case "list", "packs":
		to = &Node{K: kList, Nil: r.Bool()}
	case "ints":
		if f.Fixed == 0 {
			to = &Node{K: kList, Nil: r.Bool()}
		}
	case "blob":
		to = &Node{K: kBytes, Nil: true}
	case "text":
		to = &Node{K: kStr}
	}
	if to == nil {
		return false
	}
	n.L[k] = to
	return true
}

// thin applies thinField to a random half of the fields.
func thin(r *vlib.Rand, ts *TypeSpec, n *Node) int {
	made := 0
	for k := range ts.Fields {
		if r.Bool() && thinField(r, ts, n, k) {
			made++
		}
	}
	return made
}

func zeroish(n *Node) bool {
	if n == nil {
		return true
	}
	switch n.K {
	case kInt:
		return n.I == 0
	case kF32, kF64:
		return n.U == 0
	}
	return isEmptyish(n)
}

// usedKey: one finding key per manifest field of the pack; the five fields of the common header
// are read by AbstractPack.Read for every pack type and are keyed there.
func usedKey(ts *TypeSpec, k int, x *difference, kind string) string {
	if x.Inner != "" {
		return keyOf(ts.Name, x, kind)
	}
	if k >= 0 && k < 5 && ts.Class == "pack" && len(ts.Fields) >= 5 && ts.Fields[0].Name == "Pcode" {
		return "AbstractPack." + ts.Fields[k].Name + ":" + kind
	}
	return ts.Name + "." + topField(x.Kind) + ":" + kind
}

// shallowCopy returns a new struct holding the same field values (pointers, maps, slices
// included) as *o: what a caller kept of the object's contents.
func shallowCopy(o interface{}) interface{} {
	v := reflect.ValueOf(o)
	c := reflect.New(v.Elem().Type())
	c.Elem().Set(v.Elem())
	return c.Interface()
}

func reuseCase(ts *TypeSpec, i int, r *vlib.Rand, under string) {
	typ := ts.Name
	where := fmt.Sprintf("%s reuse %d%s", typ, i, under)
	// every case aims at one manifest field (all fields in turn): A holds something there, B's
	// bytes carry the shortest form (0 / empty / absent); besides that B is an independent draw,
	// in half of the cases with more fields thinned (and sometimes A as well)
	target := i % len(ts.Fields)
	treeA := genTree(typ, r.Fork("A"))
	for try := 0; try < 30 && zeroish(treeA.L[target]); try++ {
		treeA = genTree(typ, r.Fork(fmt.Sprint("A", try)))
	}
	treeB := genTree(typ, r.Fork("B"))
	thinned := 0
	if thinField(r, ts, treeB, target) {
		thinned++
		if !zeroish(treeA.L[target]) {
			c.SetAdd("reuse_fields_targeted", typ+"."+ts.Fields[target].Name)
		}
	}
	switch r.Intn(4) {
	case 0:
		thinned += thin(r, ts, treeB)
	case 1:
		thinned += thin(r, ts, treeB)
		thin(r, ts, treeA)
	}
	variant := []string{"second-read", "populated"}[r.Intn(2)]
	c.Count("reuse_cases", 1)

	var encA, encB []byte
	if p := vlib.Catch(func() {
		encA = append([]byte(nil), encodeRaw(ts, buildObj(treeA))...)
		encB = append([]byte(nil), encodeRaw(ts, buildObj(treeB))...)
	}); p != nil {
		c.Count("reuse_skipped_model_unwritable", 1)
		return
	}
	// a section listed as known to derail the reader (key <Type>.<field>:decode-panics) that is
	// present in B: what a fresh object decodes is read from wrong offsets — no reference
	expB := expected(treeB)
	for k := range ts.Fields {
		if c.IsKnown(typ+"."+ts.Fields[k].Name+":decode-panics") && !isEmptyish(expB.L[k]) {
			c.Count("reuse_skipped_known_derailing_section", 1)
			return
		}
	}
	// the reference: B into a fresh object
	fresh := freshFor(ts)
	availF, pF := readInto(ts, fresh, encB)
	var fpB *Node
	var wd *difference
	if pF == nil {
		fpB, wd = extractGuarded(typ, fresh)
	}
	if pF != nil || wd != nil || fpB == nil {
		c.Count("reuse_skipped_reference_undecodable", 1)
		c.SetAdd("reuse_types_skipped_reference_undecodable", typ)
		return
	}
	fpB = cloneNode(fpB)
	var reB []byte
	{
		f2 := freshFor(ts)
		if _, p := readInto(ts, f2, encB); p != nil || vlib.Catch(func() { reB = append([]byte(nil), encodeRaw(ts, f2)...) }) != nil {
			reB = nil
		}
	}

	// the used object (two of them, made the same way: one is walked, the other only re-encoded)
	mk := func() (interface{}, bool) {
		if variant == "populated" {
			var o interface{}
			if p := vlib.Catch(func() { o = buildObj(treeA) }); p != nil {
				return nil, false
			}
			return o, true
		}
		o := freshFor(ts)
		if _, p := readInto(ts, o, encA); p != nil {
			return nil, false
		}
		return o, true
	}
	o, ok := mk()
	o2, ok2 := mk()
	if !ok || !ok2 {
		c.Count("reuse_skipped_first_fill_fails", 1)
		return
	}
	kept := shallowCopy(o)
	var fpKept *Node
	if p := vlib.Catch(func() { fpKept = cloneNode(extractObj(typ, kept)) }); p != nil {
		fpKept = nil
	}

	detail := func(extra map[string]interface{}) func() map[string]interface{} {
		return func() map[string]interface{} {
			m := map[string]interface{}{
				"type": typ, "where": where, "how_the_object_was_filled_first": variant,
				"first_contents_A": renderStr(treeA, 4000), "second_pack_B": renderStr(treeB, 4000),
				"bytes_A": hexFull(encA), "bytes_B": hexFull(encB),
				"B_decoded_into_a_fresh_object": renderStr(fpB, 4000),
			}
			for k, v := range extra {
				m[k] = v
			}
			return m
		}
	}
	what := "Read of pack B into an object that was populated with pack A by the caller"
	if variant == "second-read" {
		what = "second Read (pack B) into the object an earlier Read (pack A) filled"
	}

	avail, p := readInto(ts, o, encB)
	readInto(ts, o2, encB)
	if p != nil {
		fail(baseName(typ)+":decode-panics/used-object", fmt.Sprintf("%s: %s panics (%v); a fresh object reads the same %d bytes fine", where, what, p, len(encB)), detail(nil))
		return
	}
	if avail != availF {
		fail(baseName(typ)+":not-consumed/used-object", fmt.Sprintf("%s: %s leaves %d bytes, a fresh object leaves %d", where, what, avail, availF), detail(nil))
		return
	}
	got, gd := extractGuarded(typ, o)
	if gd != nil || got == nil {
		w := "nothing"
		if gd != nil {
			w = gd.What
		}
		fail(keyOf(baseName(typ), gd, "not-restored/used-object"), fmt.Sprintf("%s: after the %s the object cannot be walked: %s", where, what, w), detail(nil))
		return
	}
	clean := true
	for k := range ts.Fields {
		name := ts.Fields[k].Name
		x := diffNode(fpB.L[k], got.L[k], name, name)
		if x == nil {
			continue
		}
		clean = false
		key := usedKey(ts, k, x, "not-restored/used-object")
		msg := fmt.Sprintf("%s: after the %s field %s is not what the bytes carry (what a fresh object decodes from the same bytes): %s", where, what, x.Path, x.What)
		if c.IsKnown(key) {
			c.Fail(key, msg, nil)
			continue
		}
		fail(key, msg, detail(map[string]interface{}{"decoded_into_the_used_object": renderStr(got, 4000), "field": x.Path}))
	}
	if clean && reB != nil {
		var re []byte
		if p := vlib.Catch(func() { re = append([]byte(nil), encodeRaw(ts, o2)...) }); p != nil || !bytes.Equal(re, reB) {
			// equal under nil ≡ empty, other bytes: a section that is absent in the fresh decode and
			// present-but-empty in the used object (or the other way round) has a presence byte of its own
			explained := false
			for k := range ts.Fields {
				a, b := fpB.L[k], got.L[k]
				if a == nil || b == nil || (a.K == kAbsent || a.Nil) == (b.K == kAbsent || b.Nil) {
					continue
				}
				name := ts.Fields[k].Name
				key := usedKey(ts, k, &difference{Kind: name}, "not-restored/used-object")
				msg := fmt.Sprintf("%s: after the %s field %s is %s where a fresh object decoding the same bytes has %s: the object re-encodes with another presence byte (%d vs %d bytes)", where, what, name, brief(b), brief(a), len(re), len(reB))
				explained, clean = true, false
				if c.IsKnown(key) {
					c.Fail(key, msg, nil)
					continue
				}
				fail(key, msg, detail(map[string]interface{}{"decoded_into_the_used_object": renderStr(got, 4000), "field": name, "reencoded_used_object": hexFull(re), "reencoded_fresh_decode": hexFull(reB)}))
			}
			if !explained && !(p == nil && ts.Class != "pack" && hasUnorderedMulti(fpB) && len(re) == len(reB)) {
				clean = false
				fail(baseName(typ)+":reencode-differs/used-object",
					fmt.Sprintf("%s: after the %s every walked field equals the fresh decode, but the object re-encodes differently (panic %v, first difference at byte %d, %d vs %d bytes)", where, what, p, firstDiff(re, reB), len(re), len(reB)),
					detail(map[string]interface{}{"reencoded_used_object": hexFull(re), "reencoded_fresh_decode": hexFull(reB)}))
			}
		}
	}
	// what the first fill handed out
	if fpKept != nil {
		now, kd := extractGuarded(typ, kept)
		var x *difference
		if kd != nil {
			x = kd
		} else {
			x = diffNode(fpKept, now, "", "")
		}
		if x != nil {
			clean = false
			k, _ := ts.field(topField(x.Kind))
			key := usedKey(ts, k, x, "handed-out-altered-by-later-read")
			msg := fmt.Sprintf("%s: the contents the object held before (%s; kept by the caller as the same pointers / maps / slices) changed at %s when pack B was Read into the object: %s", where, variant, x.Path, strings.NewReplacer("expected", "before", "decoded", "now").Replace(x.What))
			if c.IsKnown(key) {
				c.Fail(key, msg, nil)
			} else {
				fail(key, msg, detail(map[string]interface{}{"kept_before": renderStr(fpKept, 4000), "kept_now": renderStr(now, 4000)}))
			}
		} else {
			c.Count("reuse_kept_contents_rewalked", 1)
		}
	}
	if clean {
		c.Count("reuse_ok", 1)
		c.Count("reuse_ok_"+variant, 1)
		if thinned > 0 {
			c.Count("reuse_ok_second_pack_thinned", 1)
		}
		if len(encB) < len(encA) {
			c.Count("reuse_ok_second_pack_shorter", 1)
		} else if len(encB) > len(encA) {
			c.Count("reuse_ok_second_pack_longer", 1)
		}
	}
	c.SetAdd("reuse_types_covered", typ)
	c.Distinct(vlib.Mix(vlib.HashBytes(encA) ^ vlib.Mix(vlib.HashBytes(encB))))
}
