package main

// Neutral model tree of a populated pack. The manifest decides its shape: a struct node has
// one child per manifest field, in wire order. The tree is generated from the seeded PRNG
// (boundary-biased), turned into the real golib object by bind.go, read back from the decoded
// object by bind.go, and compared here (order-sensitive for linked maps and lists, nil ≡ empty,
// floats by bits). Leaves can be flipped one at a time for the sensitivity oracle.

import (
	"fmt"
	"math"
	"sort"
	"strings"

	"verif/refcodec"
	"verif/stepgen"
	"verif/valgen"
	"verif/vlib"
)

const (
	kAbsent  = iota // nil pointer / nil optional section
	kInt            // I (bools are 0/1)
	kF32            // U = bits
	kF64            // U = bits
	kStr            // S
	kBytes          // B (Nil: generated as nil)
	kList           // L
	kStruct         // T = type name, L = one child per manifest field of T
	kMap            // Keys + L, Unordered for plain hash maps
	kVal            // V
	kTx             // Tx
	kAnyList        // T = "1".."5" list type, L = elements
)

type Node struct {
	K         int
	I         int64
	U         uint64
	S         string
	B         []byte
	Nil       bool // bytes / list / map generated as nil rather than empty
	L         []*Node
	Keys      []*Node
	Unordered bool
	T         string
	V         *refcodec.V
	Tx        *refcodec.RefTxRecord
	// recblob: the records the blob was built from (nil when the blob is arbitrary bytes)
	Recs    []*Node
	RecMode string
	RecVer  byte // transaction record layout the setter was asked to write
	RecMin  int  // LogSinkZipPack.SetRecords: the compression threshold passed
	// zip containers: length of the concatenated inner packs before compression (set when the
	// setter is applied) and the redundancy class the payload was drawn from (redundancy.go)
	RecPlain int
	RecClass string
}

func nInt(v int64) *Node { return &Node{K: kInt, I: v} }

var man *Manifest

// ---------------------------------------------------------------- generation

func truncInt(v int64, bits int, unsigned bool) int64 {
	if bits <= 0 || bits >= 64 {
		return v
	}
	mask := int64(1)<<uint(bits) - 1
	v &= mask
	if !unsigned && v&(int64(1)<<uint(bits-1)) != 0 {
		v |= ^mask
	}
	return v
}

func genInt(r *vlib.Rand, bits int, unsigned bool) int64 {
	var v int64
	switch r.Intn(8) {
	case 0:
		v = 0
	case 1:
		// extremes of this width
		if unsigned {
			v = []int64{int64(1)<<uint(bits) - 1, int64(1)<<uint(bits-1) - 1, int64(1) << uint(bits-1), 1}[r.Intn(4)]
		} else if bits >= 64 {
			v = []int64{math.MaxInt64, math.MinInt64, -1, 1}[r.Intn(4)]
		} else {
			v = []int64{int64(1)<<uint(bits-1) - 1, -(int64(1) << uint(bits-1)), -1, 1}[r.Intn(4)]
		}
	default:
		v = r.I64()
	}
	return truncInt(v, bits, unsigned)
}

func genCount(r *vlib.Rand, max int, typical int) int {
	if max <= 0 {
		max = 1 << 30
	}
	var n int
	switch r.Intn(10) {
	case 0, 1:
		n = 0
	case 2, 3:
		n = 1
	case 4:
		n = 2
	case 5:
		if r.Intn(12) == 0 && max <= 70000 {
			n = max - r.Intn(2) // the largest count the prefix holds (and one below)
		} else {
			n = r.Range(typical, typical*6)
		}
	default:
		n = r.Range(0, typical)
	}
	if n > max {
		n = max
	}
	return n
}

func genText(r *vlib.Rand) string {
	if r.Intn(300) == 0 {
		return r.AsciiN([]int{65534, 65535, 65536, 65537}[r.Intn(4)])
	}
	return r.Str(300)
}

func genBlob(r *vlib.Rand) *Node {
	n := &Node{K: kBytes}
	if r.Intn(300) == 0 {
		n.B = r.Bytes([]int{65534, 65535, 65536, 65537}[r.Intn(4)])
		return n
	}
	n.B = r.Blob(400)
	n.Nil = n.B == nil
	return n
}

type genCtx struct {
	r     *vlib.Rand
	depth int // nesting depth of packs
	// extreme: zip containers draw only the highly repetitive payload classes, at full size
	extreme bool
	// sibling values generated so far in the enclosing struct (for Select)
	sib map[string]int64
}

func uniqueStrKeys(r *vlib.Rand, n int, exclude []string) []string {
	seen := map[string]bool{}
	for _, e := range exclude {
		seen[e] = true
	}
	out := make([]string, 0, n)
	for len(out) < n {
		var k string
		if n > 30 {
			k = fmt.Sprintf("k%d_%s", len(out), r.Ident())
		} else {
			k = r.Str(40)
			if r.Intn(3) == 0 {
				k = r.Ident()
			}
		}
		if seen[k] {
			k = k + fmt.Sprintf("#%d", len(out))
			if seen[k] {
				continue
			}
		}
		seen[k] = true
		out = append(out, k)
	}
	return out
}

func uniqueIntKeys(r *vlib.Rand, n int) []int32 {
	seen := map[int32]bool{}
	out := make([]int32, 0, n)
	for len(out) < n {
		k := int32(genInt(r, 32, false))
		if r.Intn(4) == 0 {
			k = int32(r.Intn(1000)) * 101 // colliding in the default 101-bucket tables
		}
		if seen[k] {
			continue
		}
		seen[k] = true
		out = append(out, k)
	}
	return out
}

func genStruct(g *genCtx, typ string) *Node {
	ts := man.T(typ)
	n := &Node{K: kStruct, T: typ, L: make([]*Node, len(ts.Fields))}
	saved := g.sib
	g.sib = map[string]int64{}
	// both header forms: decide the form first
	longHdr := g.r.Intn(5) < 3
	for i := range ts.Fields {
		f := &ts.Fields[i]
		c := genField(g, f)
		if ts.Class == "pack" && (f.Name == "Okind" || f.Name == "Onode") && len(ts.Fields) >= 5 && ts.Fields[0].Name == "Pcode" {
			if !longHdr {
				c.I = 0
			} else if f.Name == "Onode" && c.I == 0 && g.sib["Okind"] == 0 {
				c.I = int64(g.r.Range(1, 1<<20))
			}
		}
		if c.K == kInt {
			g.sib[f.Name] = c.I
		}
		n.L[i] = c
	}
	g.sib = saved
	fixup(g, typ, n)
	return n
}

func genField(g *genCtx, f *FieldSpec) *Node {
	r := g.r
	switch f.Kind {
	case "int":
		return nInt(genInt(r, f.Bits, f.Unsigned))
	case "bool":
		return nInt(int64(r.Intn(2)))
	case "f32":
		return &Node{K: kF32, U: uint64(math.Float32bits(r.F32()))}
	case "f64":
		return &Node{K: kF64, U: math.Float64bits(r.F64())}
	case "text":
		return &Node{K: kStr, S: genText(r)}
	case "blob", "recblob":
		return genBlob(r)
	case "strptr":
		if !f.NonNil && r.Intn(4) == 0 {
			return &Node{K: kAbsent}
		}
		return &Node{K: kStr, S: genText(r)}
	case "ints":
		n := &Node{K: kList}
		cnt := f.Fixed
		if cnt == 0 {
			cnt = genCount(r, f.Max, 12)
			if cnt == 0 && r.Bool() {
				n.Nil = true
			}
		}
		for i := 0; i < cnt; i++ {
			n.L = append(n.L, nInt(genInt(r, f.Elem.Bits, f.Elem.Unsigned)))
		}
		return n
	case "list":
		n := &Node{K: kList}
		cnt := genCount(r, f.Max, 6)
		if cnt == 0 && r.Bool() {
			n.Nil = true
		}
		for i := 0; i < cnt; i++ {
			if f.Elem != nil && f.Elem.Kind == "iface" {
				n.L = append(n.L, genField(g, f.Elem))
			} else {
				n.L = append(n.L, genStruct(g, f.Type))
			}
		}
		return n
	case "struct":
		return genStruct(g, f.Type)
	case "ptr":
		if r.Intn(3) == 0 {
			return &Node{K: kAbsent}
		}
		return genStruct(g, f.Type)
	case "iface":
		cls := f.Cases[fmt.Sprint(g.sib[f.Select])]
		if cls == "" {
			cls = "Linux"
		}
		return genStruct(g, f.Type+cls) // CpuLinux / CpuWindow / MemoryLinux / MemoryWindow
	case "strmap":
		n := &Node{K: kMap}
		cnt := genCount(r, f.Max, 8)
		if f.Elem.Kind == "anylist" && cnt > 40 {
			cnt = 40
		}
		for _, k := range uniqueStrKeys(r, cnt, f.Exclude) {
			n.Keys = append(n.Keys, &Node{K: kStr, S: k})
			switch f.Elem.Kind {
			case "value":
				v := valgen.Gen(r, 2, 5)
				n.L = append(n.L, &Node{K: kVal, V: &v})
			case "text":
				n.L = append(n.L, &Node{K: kStr, S: genText(r)})
			case "anylist":
				n.L = append(n.L, genAnyList(r))
			}
		}
		return n
	case "strintmap":
		n := &Node{K: kMap}
		for _, k := range uniqueStrKeys(r, genCount(r, f.Max, 8), nil) {
			if k == "" {
				k = "e" // StringIntLinkedMap refuses the empty key (recorded under C09)
			}
			n.Keys = append(n.Keys, &Node{K: kStr, S: k})
			n.L = append(n.L, nInt(genInt(r, 32, false)))
		}
		dedupeStrKeys(n)
		return n
	case "intintlmap", "intintmap":
		n := &Node{K: kMap, Unordered: f.Kind == "intintmap"}
		if f.Kind == "intintmap" && r.Intn(3) == 0 {
			return &Node{K: kAbsent}
		}
		cnt := genCount(r, f.Max, 8)
		if cnt > 600 && f.Max > 600 {
			cnt = f.Max // rarely: exactly the map's own bound
		}
		for _, k := range uniqueIntKeys(r, cnt) {
			n.Keys = append(n.Keys, nInt(int64(k)))
			n.L = append(n.L, nInt(genInt(r, 32, false)))
		}
		return n
	case "intkeylmap", "intkeymap":
		if r.Intn(4) == 0 {
			return &Node{K: kAbsent}
		}
		n := &Node{K: kMap, Unordered: f.Kind == "intkeymap"}
		for _, k := range uniqueIntKeys(r, genCount(r, f.Max, 6)) {
			n.Keys = append(n.Keys, nInt(int64(k)))
			n.L = append(n.L, genStruct(g, f.Type))
		}
		return n
	case "linkedmap":
		if r.Intn(4) == 0 {
			return &Node{K: kAbsent}
		}
		n := &Node{K: kMap}
		seen := map[string]bool{}
		cnt := genCount(r, f.Max, 6)
		for len(n.Keys) < cnt {
			k := genStruct(g, f.Key.Type)
			id := fmt.Sprint(k.L[0].I, "/", k.L[1].I)
			if seen[id] {
				continue
			}
			seen[id] = true
			n.Keys = append(n.Keys, k)
			n.L = append(n.L, genStruct(g, f.Type))
		}
		return n
	case "mapvalue", "intmapvalue":
		if !f.NonNil && r.Intn(4) == 0 {
			return &Node{K: kAbsent}
		}
		tag := refcodec.TMap
		if f.Kind == "intmapvalue" {
			tag = refcodec.TIntMap
		}
		var v refcodec.V
		switch r.Intn(6) {
		case 0:
			v = refcodec.V{Tag: tag}
		case 1:
			v = valgen.GenTag(r, tag, 3, 8)
		default:
			v = valgen.GenTag(r, tag, 1, 5)
		}
		return &Node{K: kVal, V: &v}
	case "txrecord":
		t := stepgen.GenTxRecord(r)
		return &Node{K: kTx, Tx: &t}
	case "packs":
		n := &Node{K: kList}
		cnt := 0
		if g.depth < 2 {
			cnt = genCount(r, f.Max, 4)
			if cnt > 12 {
				cnt = 12
			}
		}
		if cnt == 0 && r.Bool() {
			n.Nil = true
		}
		g.depth++
		for i := 0; i < cnt; i++ {
			n.L = append(n.L, genStruct(g, nestedTypes[r.Intn(len(nestedTypes))]))
		}
		g.depth--
		return n
	}
	panic("genField: unknown kind " + f.Kind + " of " + f.Name)
}

func dedupeStrKeys(n *Node) {
	seen := map[string]bool{}
	var ks, vs []*Node
	for i, k := range n.Keys {
		if seen[k.S] {
			continue
		}
		seen[k.S] = true
		ks = append(ks, k)
		vs = append(vs, n.L[i])
	}
	n.Keys, n.L = ks, vs
}

func genAnyList(r *vlib.Rand) *Node {
	t := 1 + r.Intn(5)
	n := &Node{K: kAnyList, T: fmt.Sprint(t)}
	cnt := genCount(r, 0, 6)
	if cnt > 300 {
		cnt = 300
	}
	for i := 0; i < cnt; i++ {
		switch t {
		case 1, 2:
			n.L = append(n.L, nInt(genInt(r, 64, false)))
		case 3:
			n.L = append(n.L, &Node{K: kF32, U: uint64(math.Float32bits(r.F32()))})
		case 4:
			n.L = append(n.L, &Node{K: kF64, U: math.Float64bits(r.F64())})
		default:
			n.L = append(n.L, &Node{K: kStr, S: genText(r)})
		}
	}
	return n
}

// registered types that may appear nested in composite / zip packs
var nestedTypes []string

// fixup enforces the cross-field parts of the domain after the independent draws.
func fixup(g *genCtx, typ string, n *Node) {
	r := g.r
	ts := man.T(typ)
	set := func(name string, v *Node) {
		if i, _ := ts.field(name); i >= 0 {
			n.L[i] = v
		}
	}
	get := func(name string) *Node {
		if i, _ := ts.field(name); i >= 0 {
			return n.L[i]
		}
		return nil
	}
	switch typ {
	case "SMBasePack", "SMBasePack#otherOS":
		// the reader derives the concrete Cpu/Memory types from OS: draw OS from the values it knows
		os := int64([]int{1, 2, 3, 4, 5, 1, 2}[r.Intn(7)])
		if typ == "SMBasePack#otherOS" {
			os = int64(6 + r.Intn(3)) // SunOS, OpenBSD, FreeBSD: constants of the package the reader has no case for
		}
		set("OS", nInt(os))
		saved := g.sib
		g.sib = map[string]int64{"OS": os}
		for _, name := range []string{"Cpu", "CpuCore", "Memory"} {
			_, f := ts.field(name)
			set(name, genField(g, f))
		}
		g.sib = saved
	case "TagCountPack", "TagLogPack", "LogSinkPack":
		// tag hash: mostly 0 (computed by the writer), sometimes an explicit value
		name := "tagHash"
		if typ == "LogSinkPack" {
			name = "TagHash"
		}
		if r.Intn(3) != 0 {
			set(name, nInt(0))
		}
	case "StatTransactionPack", "StatTransactionPack1", "StatServicePack", "StatSqlPack", "StatHttpcPack", "StatErrorPack", "SMDownCheckPack":
		genRecords(g, typ, n)
	case "ZipPack", "LogSinkZipPack":
		genZipRecords(g, typ, n)
	case "EventPack":
		if r.Intn(3) == 0 {
			set("Uuid", &Node{K: kStr, S: ""})
		}
		_ = get
	}
}

// ---------------------------------------------------------------- comparison

func bytesEq(a, b []byte) bool {
	if len(a) != len(b) {
		return false
	}
	for i := range a {
		if a[i] != b[i] {
			return false
		}
	}
	return true
}

func isEmptyish(n *Node) bool {
	if n == nil {
		return true
	}
	switch n.K {
	case kAbsent:
		return true
	case kStr:
		return n.S == ""
	case kBytes:
		return len(n.B) == 0
	case kList, kMap, kAnyList:
		return len(n.L) == 0
	case kVal:
		return (n.V.Tag == refcodec.TMap || n.V.Tag == refcodec.TIntMap) && len(n.V.Vals) == 0
	}
	return false
}

func sortedIdx(n *Node) []int {
	idx := make([]int, len(n.Keys))
	for i := range idx {
		idx[i] = i
	}
	sort.SliceStable(idx, func(a, b int) bool { return n.Keys[idx[a]].I < n.Keys[idx[b]].I })
	return idx
}

// diffNode returns "" when a (expected) and b (decoded) are the same value, else the path of
// the first difference (wire order) and a short description. typ crossing into a nested pack
// is reported through the returned inner type name.
type difference struct {
	Path  string // with positions: Disk[3].FreeSpace
	Kind  string // positions removed: Disk[].FreeSpace
	Inner string // innermost nested pack type the difference lies in ("" = the top type)
	What  string
}

func diffNode(a, b *Node, path, kind string) *difference {
	d := func(what string) *difference { return &difference{Path: path, Kind: kind, What: what} }
	if isEmptyish(a) && isEmptyish(b) {
		// nil ≡ empty, absent optional section ≡ empty section — but a present struct is not empty
		if (a == nil || a.K != kStruct) && (b == nil || b.K != kStruct) {
			return nil
		}
	}
	if a == nil || b == nil {
		return d("one side missing")
	}
	if a.K == kAbsent || b.K == kAbsent {
		if a.K == kAbsent && b.K == kAbsent {
			return nil
		}
		if a.K == kAbsent {
			return d("expected absent/empty, decoded " + brief(b))
		}
		x := d("expected " + brief(a) + ", decoded absent/nil")
		if a.K == kStruct && man.T(a.T).Class == "pack" && path != "" {
			// a nested pack that never came back: the reader of that inner type gave up
			x.Inner, x.Kind = a.T, ""
		}
		return x
	}
	if a.K != b.K {
		return d(fmt.Sprintf("node kinds differ: expected %s, decoded %s", brief(a), brief(b)))
	}
	switch a.K {
	case kInt:
		if a.I != b.I {
			return d(fmt.Sprintf("expected %d, decoded %d", a.I, b.I))
		}
	case kF32, kF64:
		if a.U != b.U {
			return d(fmt.Sprintf("expected bits %#x, decoded bits %#x", a.U, b.U))
		}
	case kStr:
		if a.S != b.S {
			return d(fmt.Sprintf("expected %s, decoded %s", q(a.S), q(b.S)))
		}
	case kBytes:
		if !bytesEq(a.B, b.B) {
			return d(fmt.Sprintf("expected %d bytes %s, decoded %d bytes %s", len(a.B), vlib.Hex(a.B), len(b.B), vlib.Hex(b.B)))
		}
	case kVal:
		if ok, p := valgen.Equal(*a.V, *b.V); !ok {
			return d("value trees differ at " + p + ": expected " + valgen.Render(*a.V, 300) + ", decoded " + valgen.Render(*b.V, 300))
		}
	case kTx:
		if df := stepgen.TxDiff(*a.Tx, *b.Tx); len(df) > 0 {
			return d("transaction record fields differ: " + strings.Join(df, ","))
		}
	case kList, kAnyList:
		if a.K == kAnyList && a.T != b.T {
			return d("list type expected " + a.T + ", decoded " + b.T)
		}
		for i := 0; i < len(a.L) && i < len(b.L); i++ {
			if x := diffNode(a.L[i], b.L[i], fmt.Sprintf("%s[%d]", path, i), kind+"[]"); x != nil {
				return x
			}
		}
		if len(a.L) != len(b.L) {
			return d(fmt.Sprintf("expected %d elements, decoded %d", len(a.L), len(b.L)))
		}
	case kStruct:
		if a.T != b.T {
			return d("expected a " + a.T + ", decoded a " + b.T)
		}
		ts := man.T(a.T)
		for i := range ts.Fields {
			p, k := ts.Fields[i].Name, ts.Fields[i].Name
			if path != "" {
				p, k = path+"."+p, kind+"."+k
			}
			if x := diffNode(a.L[i], b.L[i], p, k); x != nil {
				if ts.Class == "pack" && path != "" && x.Inner == "" {
					// inside a nested pack: the key names the inner type and its field
					x.Inner = a.T
					x.Kind = strings.TrimPrefix(x.Kind, kind+".")
				}
				return x
			}
		}
	case kMap:
		ai, bi := sortedIdxIf(a), sortedIdxIf(b)
		for i := 0; i < len(ai) && i < len(bi); i++ {
			ka, kb := a.Keys[ai[i]], b.Keys[bi[i]]
			if x := diffNode(ka, kb, fmt.Sprintf("%s{#%d}.key", path, i), kind+"{}.key"); x != nil {
				return x
			}
			if x := diffNode(a.L[ai[i]], b.L[bi[i]], fmt.Sprintf("%s{#%d}", path, i), kind+"{}"); x != nil {
				return x
			}
		}
		if len(a.L) != len(b.L) {
			return d(fmt.Sprintf("expected %d entries, decoded %d", len(a.L), len(b.L)))
		}
	}
	return nil
}

func sortedIdxIf(n *Node) []int {
	if n.Unordered {
		return sortedIdx(n)
	}
	idx := make([]int, len(n.Keys))
	for i := range idx {
		idx[i] = i
	}
	return idx
}

func q(s string) string {
	if len(s) > 80 {
		return fmt.Sprintf("%q…(%d bytes)", s[:80], len(s))
	}
	return fmt.Sprintf("%q", s)
}

func brief(n *Node) string {
	if n == nil {
		return "nothing"
	}
	switch n.K {
	case kAbsent:
		return "absent"
	case kInt:
		return fmt.Sprint(n.I)
	case kF32, kF64:
		return fmt.Sprintf("bits %#x", n.U)
	case kStr:
		return q(n.S)
	case kBytes:
		return fmt.Sprintf("%d bytes", len(n.B))
	case kList, kAnyList:
		return fmt.Sprintf("%d elements", len(n.L))
	case kMap:
		return fmt.Sprintf("%d entries", len(n.L))
	case kStruct:
		return "a " + n.T
	case kVal:
		return valgen.Render(*n.V, 120)
	case kTx:
		return "a transaction record"
	}
	return "?"
}

// render writes the tree out for replay files (bounded).
func render(n *Node, sb *strings.Builder, limit int) {
	if sb.Len() > limit {
		return
	}
	if n == nil {
		sb.WriteString("<nil>")
		return
	}
	switch n.K {
	case kAbsent:
		sb.WriteString("nil")
	case kInt:
		fmt.Fprint(sb, n.I)
	case kF32:
		fmt.Fprintf(sb, "f32(%#x)", n.U)
	case kF64:
		fmt.Fprintf(sb, "f64(%#x)", n.U)
	case kStr:
		sb.WriteString(q(n.S))
	case kBytes:
		if n.Nil {
			sb.WriteString("nil-bytes")
		} else {
			fmt.Fprintf(sb, "bytes(%s)", vlib.Hex(n.B))
		}
	case kList, kAnyList:
		if n.K == kAnyList {
			sb.WriteString("anylist" + n.T)
		}
		if n.Nil {
			sb.WriteString("nil-list")
			return
		}
		sb.WriteString("[")
		for i, e := range n.L {
			if i > 0 {
				sb.WriteString(", ")
			}
			if i >= 40 {
				fmt.Fprintf(sb, "…(%d elements)", len(n.L))
				break
			}
			render(e, sb, limit)
		}
		sb.WriteString("]")
	case kStruct:
		sb.WriteString(n.T + "{")
		ts := man.T(n.T)
		for i := range ts.Fields {
			if i > 0 {
				sb.WriteString(", ")
			}
			sb.WriteString(ts.Fields[i].Name + ":")
			render(n.L[i], sb, limit)
		}
		sb.WriteString("}")
	case kMap:
		sb.WriteString("map{")
		for i := range n.L {
			if i > 0 {
				sb.WriteString(", ")
			}
			if i >= 40 {
				fmt.Fprintf(sb, "…(%d entries)", len(n.L))
				break
			}
			render(n.Keys[i], sb, limit)
			sb.WriteString("=")
			render(n.L[i], sb, limit)
		}
		sb.WriteString("}")
	case kVal:
		sb.WriteString(valgen.Render(*n.V, 400))
	case kTx:
		fmt.Fprintf(sb, "tx%+v", *n.Tx)
	}
}

func renderStr(n *Node, limit int) string {
	var sb strings.Builder
	render(n, &sb, limit)
	s := sb.String()
	if len(s) > limit {
		s = s[:limit] + "…"
	}
	return s
}

// ---------------------------------------------------------------- leaves and flips

// A leaf is one place where a single carried field value can be changed without touching
// anything else. pattern is the path without positions (the manifest field pattern).
type leaf struct {
	pattern string
	path    string
	flip    func() (undo func())
}

func flipNode(n *Node, f *FieldSpec) func() {
	switch n.K {
	case kInt:
		old := n.I
		if f != nil && f.Kind == "bool" {
			n.I ^= 1
		} else {
			bits, uns := 64, false
			if f != nil {
				bits, uns = f.Bits, f.Unsigned
			}
			n.I = truncInt(n.I^1, bits, uns)
		}
		return func() { n.I = old }
	case kF32, kF64:
		old := n.U
		n.U ^= 1
		return func() { n.U = old }
	case kStr:
		old := n.S
		if n.S == "" {
			n.S = "x"
		} else {
			b := []byte(n.S)
			b[0] ^= 1
			n.S = string(b)
		}
		return func() { n.S = old }
	case kBytes:
		old, oldNil := n.B, n.Nil
		if len(n.B) == 0 {
			n.B, n.Nil = []byte{1}, false
		} else {
			nb := append([]byte{}, n.B...)
			nb[len(nb)/2] ^= 1
			n.B = nb
		}
		oldRecs := n.Recs
		n.Recs = nil
		return func() { n.B, n.Nil, n.Recs = old, oldNil, oldRecs }
	case kVal:
		old := n.V
		nv := perturbV(*n.V)
		n.V = &nv
		return func() { n.V = old }
	case kTx:
		old := n.Tx
		nt := *n.Tx
		nt.Txid ^= 1
		n.Tx = &nt
		return func() { n.Tx = old }
	}
	return nil
}

// perturbV returns a value that differs from v in one place (same type where the type has a payload).
func perturbV(v refcodec.V) refcodec.V {
	nv := v
	switch v.Tag {
	case refcodec.TNull:
		nv = refcodec.V{Tag: refcodec.TBool, I: 1}
	case refcodec.TBool:
		nv.I = 1 - (v.I & 1)
	case refcodec.TDecimal, refcodec.TLong:
		nv.I = v.I ^ 1
	case refcodec.TInt, refcodec.TTextHash:
		nv.I = int64(int32(v.I ^ 1))
	case refcodec.TFloat:
		nv.F32 = math.Float32frombits(math.Float32bits(v.F32) ^ 1)
	case refcodec.TDouble:
		nv.F = math.Float64frombits(math.Float64bits(v.F) ^ 1)
	case refcodec.TDoubleSummary:
		ds := refcodec.DoubleSum{}
		if v.DS != nil {
			ds = *v.DS
		}
		ds.Count ^= 1
		nv.DS = &ds
	case refcodec.TLongSummary:
		ls := refcodec.LongSum{}
		if v.LS != nil {
			ls = *v.LS
		}
		ls.Count ^= 1
		nv.LS = &ls
	case refcodec.TText:
		nv.S = v.S + "~"
	case refcodec.TBlob:
		nv.B = append(append([]byte{}, v.B...), 7)
	case refcodec.TIP4:
		b := append([]byte{}, v.B...)
		for len(b) < 4 {
			b = append(b, 0)
		}
		b[3] ^= 1
		nv.B = b
	case refcodec.TList:
		nv.List = append(append([]refcodec.V{}, v.List...), refcodec.V{Tag: refcodec.TBool, I: 1})
	case refcodec.TIntArray:
		nv.Ints = append(append([]int32{}, v.Ints...), 7)
	case refcodec.TFloatArray:
		nv.Floats = append(append([]float32{}, v.Floats...), 7)
	case refcodec.TTextArray:
		nv.Texts = append(append([]string{}, v.Texts...), "~")
	case refcodec.TLongArray:
		nv.Longs = append(append([]int64{}, v.Longs...), 7)
	case refcodec.TMap:
		k := "~flip~"
		for _, e := range v.Keys {
			if e == k {
				k += "~"
			}
		}
		nv.Keys = append(append([]string{}, v.Keys...), k)
		nv.Vals = append(append([]refcodec.V{}, v.Vals...), refcodec.V{Tag: refcodec.TBool, I: 1})
	case refcodec.TIntMap:
		k := int32(0x5a5a5a5a)
		for _, e := range v.IntKeys {
			if e == k {
				k++
			}
		}
		nv.IntKeys = append(append([]int32{}, v.IntKeys...), k)
		nv.Vals = append(append([]refcodec.V{}, v.Vals...), refcodec.V{Tag: refcodec.TBool, I: 1})
	}
	return nv
}

// leaves enumerates the flippable places of a struct node. For lists and maps one element /
// entry (chosen from r) is descended into.
func leaves(r *vlib.Rand, n *Node, path, pattern string, out *[]leaf) {
	ts := man.T(n.T)
	for i := range ts.Fields {
		f := &ts.Fields[i]
		c := n.L[i]
		p, k := f.Name, f.Name
		if path != "" {
			p, k = path+"."+p, pattern+"."+k
		}
		leavesField(r, c, f, p, k, out)
	}
}

func leavesField(r *vlib.Rand, c *Node, f *FieldSpec, p, k string, out *[]leaf) {
	add := func(n *Node, fs *FieldSpec, p, k string) {
		nn, ff := n, fs
		*out = append(*out, leaf{pattern: k, path: p, flip: func() func() { return flipNode(nn, ff) }})
	}
	if c == nil {
		return
	}
	switch c.K {
	case kAbsent:
		if f.Kind == "strptr" {
			// nil pointer -> "x": carried as a text
			cc := c
			*out = append(*out, leaf{pattern: k, path: p, flip: func() func() {
				cc.K, cc.S = kStr, "x"
				return func() { cc.K, cc.S = kAbsent, "" }
			}})
		}
	case kInt, kF32, kF64, kStr, kBytes, kVal, kTx:
		add(c, f, p, k)
	case kStruct:
		leaves(r, c, p, k, out)
	case kList:
		if len(c.L) == 0 {
			return
		}
		i := r.Intn(len(c.L))
		e := c.L[i]
		switch {
		case f.Kind == "ints":
			add(e, f.Elem, fmt.Sprintf("%s[%d]", p, i), k+"[]")
		case f.Kind == "packs":
			// a nested pack: flip its time stamp
			ts := man.T(e.T)
			if j, _ := ts.field("Time"); j >= 0 {
				add(e.L[j], &ts.Fields[j], fmt.Sprintf("%s[%d].Time", p, i), k+"[]")
			} else {
				leaves(r, e, fmt.Sprintf("%s[%d]", p, i), k+"[]", out)
			}
		default:
			leaves(r, e, fmt.Sprintf("%s[%d]", p, i), k+"[]", out)
		}
	case kMap:
		if len(c.L) == 0 {
			return
		}
		i := r.Intn(len(c.L))
		key, val := c.Keys[i], c.L[i]
		// the key
		switch key.K {
		case kStr:
			kk, cc := key, c
			*out = append(*out, leaf{pattern: k + "{}.key", path: fmt.Sprintf("%s{#%d}.key", p, i), flip: func() func() {
				old := kk.S
				ns := old + "~"
				for _, o := range cc.Keys {
					if o.S == ns {
						ns += "~"
					}
				}
				kk.S = ns
				return func() { kk.S = old }
			}})
		case kInt:
			kk, cc := key, c
			*out = append(*out, leaf{pattern: k + "{}.key", path: fmt.Sprintf("%s{#%d}.key", p, i), flip: func() func() {
				old := kk.I
				nv := int64(int32(old ^ 0x40000000))
				for again := true; again; {
					again = false
					for _, o := range cc.Keys {
						if o != kk && o.I == nv {
							nv = int64(int32(nv + 1))
							again = true
						}
					}
				}
				kk.I = nv
				return func() { kk.I = old }
			}})
		case kStruct:
			// a struct key: its leaves, each flip refused when it makes the key equal to another key
			// of the map (the map would merge the two entries)
			var sub []leaf
			leaves(r, key, fmt.Sprintf("%s{#%d}.key", p, i), k+"{}.key", &sub)
			kk, cc := key, c
			for _, lf := range sub {
				lf := lf
				inner := lf.flip
				lf.flip = func() func() {
					undo := inner()
					if undo == nil {
						return nil
					}
					for _, o := range cc.Keys {
						if o != kk && diffNode(o, kk, "", "") == nil {
							undo()
							return nil
						}
					}
					return undo
				}
				*out = append(*out, lf)
			}
		}
		switch val.K {
		case kStruct:
			leaves(r, val, fmt.Sprintf("%s{#%d}", p, i), k+"{}", out)
		case kAnyList:
			if len(val.L) > 0 {
				j := r.Intn(len(val.L))
				add(val.L[j], nil, fmt.Sprintf("%s{#%d}[%d]", p, i, j), k+"{}[]")
			}
		default:
			add(val, f.Elem, fmt.Sprintf("%s{#%d}", p, i), k+"{}")
		}
	}
}

// patterns lists every leaf pattern the manifest implies for a type (what the sensitivity
// sweep must reach).
func patterns(typ string, prefix string, depth int, out *[]string) {
	ts := man.T(typ)
	for i := range ts.Fields {
		f := &ts.Fields[i]
		k := f.Name
		if prefix != "" {
			k = prefix + "." + k
		}
		patternsField(f, k, depth, out)
	}
}

func patternsField(f *FieldSpec, k string, depth int, out *[]string) {
	switch f.Kind {
	case "int", "bool", "f32", "f64", "text", "blob", "recblob", "strptr", "mapvalue", "intmapvalue", "txrecord":
		*out = append(*out, k)
	case "ints":
		*out = append(*out, k+"[]")
	case "packs":
		*out = append(*out, k+"[]")
	case "list":
		if f.Elem != nil && f.Elem.Kind == "iface" {
			// element patterns depend on the concrete type; covered by the element types themselves
			*out = append(*out, k+"[].User")
			return
		}
		patterns(f.Type, k+"[]", depth+1, out)
	case "struct", "ptr":
		patterns(f.Type, k, depth+1, out)
	case "iface":
		*out = append(*out, k+".User")
		if f.Type == "Memory" {
			(*out)[len(*out)-1] = k + ".Total"
		}
	case "strmap":
		*out = append(*out, k+"{}.key")
		if f.Elem.Kind == "anylist" {
			*out = append(*out, k+"{}[]")
		} else {
			*out = append(*out, k+"{}")
		}
	case "strintmap", "intintlmap", "intintmap":
		*out = append(*out, k+"{}.key", k+"{}")
	case "intkeylmap", "intkeymap":
		*out = append(*out, k+"{}.key")
		patterns(f.Type, k+"{}", depth+1, out)
	case "linkedmap":
		patterns(f.Key.Type, k+"{}.key", depth+1, out)
		patterns(f.Type, k+"{}", depth+1, out)
	}
}
