package main

// Binding between the neutral model tree and the real golib objects: build (tree -> object)
// and extract (object -> tree), both by reflection over the struct fields the manifest names
// (unexported ones through unsafe), with small adapters for golib's containers, which are
// read back through their own enumerators (insertion order for the linked maps).

import (
	"container/list"
	"fmt"
	"math"
	"reflect"
	"strconv"
	"unsafe"

	gio "github.com/whatap/golib/io"
	"github.com/whatap/golib/lang"
	"github.com/whatap/golib/lang/pack"
	"github.com/whatap/golib/lang/service"
	"github.com/whatap/golib/lang/value"
	"github.com/whatap/golib/util/hmap"
	glist "github.com/whatap/golib/util/list"

	"verif/refcodec"
	"verif/stepgen"
	"verif/valgen"
)

// Go types behind the manifest's type names.
var goTypes = map[string]reflect.Type{
	"ParamPack": reflect.TypeOf(pack.ParamPack{}), "CounterPack1": reflect.TypeOf(pack.CounterPack1{}),
	"ProfilePack": reflect.TypeOf(pack.ProfilePack{}), "ActiveStackPack": reflect.TypeOf(pack.ActiveStackPack{}),
	"TextPack": reflect.TypeOf(pack.TextPack{}), "ErrorSnapPack1": reflect.TypeOf(pack.ErrorSnapPack1{}),
	"RealtimeUserPack": reflect.TypeOf(pack.RealtimeUserPack{}), "StatServicePack": reflect.TypeOf(pack.StatServicePack{}),
	"StatGeneralPack": reflect.TypeOf(pack.StatGeneralPack{}), "StatGeneralPack#1": reflect.TypeOf(pack.StatGeneralPack{}),
	"StatSqlPack": reflect.TypeOf(pack.StatSqlPack{}), "StatHttpcPack": reflect.TypeOf(pack.StatHttpcPack{}),
	"StatErrorPack": reflect.TypeOf(pack.StatErrorPack{}), "StatRemoteIpPack": reflect.TypeOf(pack.StatRemoteIpPack{}),
	"StatUserAgentPack": reflect.TypeOf(pack.StatUserAgentPack{}), "EventPack": reflect.TypeOf(pack.EventPack{}),
	"HitMapPack1": reflect.TypeOf(pack.HitMapPack1{}), "ExtensionPack": reflect.TypeOf(pack.ExtensionPack{}),
	"TagCountPack": reflect.TypeOf(pack.TagCountPack{}), "TagLogPack": reflect.TypeOf(pack.TagLogPack{}),
	"CompositePack": reflect.TypeOf(pack.CompositePack{}), "LogSinkPack": reflect.TypeOf(pack.LogSinkPack{}),
	"ZipPack": reflect.TypeOf(pack.ZipPack{}), "LogSinkZipPack": reflect.TypeOf(pack.LogSinkZipPack{}),
	"ServerInfoPack": reflect.TypeOf(pack.ServerInfoPack{}), "ProfileStepSplitPack": reflect.TypeOf(pack.ProfileStepSplitPack{}),
	"StatTransactionPack": reflect.TypeOf(pack.StatTransactionPack{}), "StatTransactionPack1": reflect.TypeOf(pack.StatTransactionPack1{}),
	"SMBasePack": reflect.TypeOf(pack.SMBasePack{}), "SMBasePack#otherOS": reflect.TypeOf(pack.SMBasePack{}), "SMDiskPerfPack": reflect.TypeOf(pack.SMDiskPerfPack{}),
	"SMNetPerfPack": reflect.TypeOf(pack.SMNetPerfPack{}), "SMProcPerfPack": reflect.TypeOf(pack.SMProcPerfPack{}),
	"SMTCPPerfPack": reflect.TypeOf(pack.SMTCPPerfPack{}), "SMLogEventPack": reflect.TypeOf(pack.SMLogEventPack{}),
	"SMDownCheckPack": reflect.TypeOf(pack.SMDownCheckPack{}), "SMPingPack": reflect.TypeOf(pack.SMPingPack{}),
	"SMExtension": reflect.TypeOf(pack.SMExtension{}),
	"CpuLinux":    reflect.TypeOf(pack.CpuLinux{}), "CpuWindow": reflect.TypeOf(pack.CpuWindow{}), "CpuOSX": reflect.TypeOf(pack.CpuOSX{}),
	"MemoryLinux": reflect.TypeOf(pack.MemoryLinux{}), "MemoryWindow": reflect.TypeOf(pack.MemoryWindow{}),
	"DiskPerf": reflect.TypeOf(pack.DiskPerf{}), "NetPerf": reflect.TypeOf(pack.NetPerf{}), "ProcNetPerf": reflect.TypeOf(pack.ProcNetPerf{}),
	"ProcFilePerf": reflect.TypeOf(pack.ProcFilePerf{}), "ProcPerf": reflect.TypeOf(pack.ProcPerf{}), "TCPPortPerf": reflect.TypeOf(pack.TCPPortPerf{}),
	"SMLogEvent": reflect.TypeOf(pack.SMLogEvent{}), "HttpcRec": reflect.TypeOf(pack.HttpcRec{}), "SqlRec": reflect.TypeOf(pack.SqlRec{}),
	"TimeCount": reflect.TypeOf(pack.TimeCount{}), "ErrorRec": reflect.TypeOf(pack.ErrorRec{}), "ServiceRec": reflect.TypeOf(pack.ServiceRec{}),
	"TransactionRec#v2": reflect.TypeOf(pack.TransactionRec{}), "TransactionRec#v3": reflect.TypeOf(pack.TransactionRec{}),
	"TransactionRec#v4": reflect.TypeOf(pack.TransactionRec{}), "DownCheckRec": reflect.TypeOf(pack.DownCheckRec{}),
	"TextRec": reflect.TypeOf(pack.TextRec{}), "NETSTAT": reflect.TypeOf(pack.NETSTAT{}), "WEBSOCKET": reflect.TypeOf(pack.WEBSOCKET{}),
	"TxMeter": reflect.TypeOf(pack.TxMeter{}), "HttpcMeter": reflect.TypeOf(pack.HttpcMeter{}), "SqlMeter": reflect.TypeOf(pack.SqlMeter{}),
	"PKIND": reflect.TypeOf(lang.PKIND{}), "POID": reflect.TypeOf(lang.POID{}),
}

// constructors as a caller (and the factory) would use them; everything else is new(T).
var ctors = map[string]func() interface{}{
	"ParamPack": func() interface{} { return pack.NewParamPack() }, "CounterPack1": func() interface{} { return pack.NewCounterPack1() },
	"ProfilePack": func() interface{} { return pack.NewProfilePack() }, "ActiveStackPack": func() interface{} { return pack.NewActiveStackPack() },
	"TextPack": func() interface{} { return pack.NewTextPack() }, "ErrorSnapPack1": func() interface{} { return pack.NewErrorSnapPack1() },
	"RealtimeUserPack": func() interface{} { return pack.NewRealtimeUserPack() }, "StatServicePack": func() interface{} { return pack.NewStatServicePack() },
	"StatGeneralPack":   func() interface{} { return pack.NewStatGeneralPack() },
	"StatGeneralPack#1": func() interface{} { return pack.NewStatGeneralPackType(pack.PACK_STAT_GENERAL_1) },
	"StatSqlPack":       func() interface{} { return pack.NewStatSqlPack() }, "StatHttpcPack": func() interface{} { return pack.NewStatHttpcPack() },
	"StatErrorPack": func() interface{} { return pack.NewStatErrorPack() }, "StatRemoteIpPack": func() interface{} { return pack.NewStatRemoteIpPack() },
	"StatUserAgentPack": func() interface{} { return pack.NewStatUserAgentPack() }, "EventPack": func() interface{} { return pack.NewEventPack() },
	"HitMapPack1": func() interface{} { return pack.NewHitMapPack1() }, "ExtensionPack": func() interface{} { return pack.NewExtensionPack() },
	"TagCountPack": func() interface{} { return pack.NewTagCountPack() }, "TagLogPack": func() interface{} { return pack.NewTagLogPack() },
	"CompositePack": func() interface{} { return pack.NewCompositePack() }, "LogSinkPack": func() interface{} { return pack.NewLogSinkPack() },
	"ZipPack": func() interface{} { return pack.NewZipPack() }, "LogSinkZipPack": func() interface{} { return pack.NewLogSinkZipPack() },
	"ServerInfoPack": func() interface{} { return pack.NewServerInfoPack() }, "ProfileStepSplitPack": func() interface{} { return pack.NewProfileStepSplitPack() },
	"StatTransactionPack": func() interface{} { return pack.NewStatTransactionPack() }, "StatTransactionPack1": func() interface{} { return pack.NewStatTransactionPack1() },
	"SMBasePack": func() interface{} { return pack.NewSMBasePack() }, "SMBasePack#otherOS": func() interface{} { return pack.NewSMBasePack() }, "SMDiskPerfPack": func() interface{} { return pack.NewSMDiskPerfPack() },
	"SMNetPerfPack": func() interface{} { return pack.NewSMNetPerfPack() }, "SMProcPerfPack": func() interface{} { return pack.NewSMProcPerfPack() },
	"SMTCPPerfPack": func() interface{} { return pack.NewSMTCPPerfPack() }, "SMLogEventPack": func() interface{} { return pack.NewSMLogEventPack() },
	"SMDownCheckPack": func() interface{} { return pack.NewSMDownCheckPack() }, "SMPingPack": func() interface{} { return pack.NewSMPingPack() },
	"SMExtension": func() interface{} { return pack.NewSMExtensionPack() },
	"HttpcRec":    func() interface{} { return pack.NewHttpcRec() }, "SqlRec": func() interface{} { return pack.NewSqlRec() },
	"TimeCount": func() interface{} { return pack.NewTimeCountDefault() },
}

// newObj returns a pointer to a fresh object of the manifest type.
func newObj(typ string) interface{} {
	if c := ctors[typ]; c != nil {
		return c()
	}
	t := goTypes[typ]
	if t == nil {
		panic("no Go type for " + typ)
	}
	return reflect.New(t).Interface()
}

// typeNameOf maps a golib object back to the manifest name (elements and nested packs).
func typeNameOf(x interface{}) string {
	t := reflect.TypeOf(x)
	for t.Kind() == reflect.Ptr {
		t = t.Elem()
	}
	n := t.Name()
	if n == "StatGeneralPack" {
		if x.(*pack.StatGeneralPack).GetPackType() != pack.PACK_STAT_GENERAL {
			return "StatGeneralPack#1"
		}
	}
	return n
}

// settable returns the field (promoted and unexported fields included) as a settable value.
func fieldOf(sv reflect.Value, name string) reflect.Value {
	f := sv.FieldByName(name)
	if !f.IsValid() {
		panic(fmt.Sprintf("%s has no field %s", sv.Type(), name))
	}
	if !f.CanSet() {
		f = reflect.NewAt(f.Type(), unsafe.Pointer(f.UnsafeAddr())).Elem()
	}
	return f
}

// ---------------------------------------------------------------- build

func buildObj(n *Node) interface{} {
	obj := newObj(n.T)
	buildInto(n, reflect.ValueOf(obj).Elem())
	return obj
}

func buildInto(n *Node, sv reflect.Value) {
	ts := man.T(n.T)
	for i := range ts.Fields {
		f := &ts.Fields[i]
		buildField(n.L[i], f, fieldOf(sv, f.Name), sv)
	}
	postBuild(n, sv)
}

func setInt(fv reflect.Value, v int64) {
	switch fv.Kind() {
	case reflect.Bool:
		fv.SetBool(v != 0)
	case reflect.Int, reflect.Int8, reflect.Int16, reflect.Int32, reflect.Int64:
		fv.SetInt(v)
	case reflect.Uint, reflect.Uint8, reflect.Uint16, reflect.Uint32, reflect.Uint64:
		fv.SetUint(uint64(v))
	default:
		panic("setInt on " + fv.Type().String())
	}
}

func getInt(fv reflect.Value) int64 {
	switch fv.Kind() {
	case reflect.Bool:
		if fv.Bool() {
			return 1
		}
		return 0
	case reflect.Int, reflect.Int8, reflect.Int16, reflect.Int32, reflect.Int64:
		return fv.Int()
	case reflect.Uint, reflect.Uint8, reflect.Uint16, reflect.Uint32, reflect.Uint64:
		return int64(fv.Uint())
	}
	panic("getInt on " + fv.Type().String())
}

func buildStructValue(n *Node, t reflect.Type) reflect.Value {
	// t is the struct type, *struct, or an interface to be filled with *struct
	switch t.Kind() {
	case reflect.Struct:
		v := reflect.New(t).Elem()
		buildInto(n, v)
		return v
	case reflect.Ptr:
		p := reflect.New(t.Elem())
		buildInto(n, p.Elem())
		return p
	case reflect.Interface:
		p := reflect.New(goTypes[n.T])
		buildInto(n, p.Elem())
		return p
	}
	panic("buildStructValue on " + t.String())
}

func buildField(n *Node, f *FieldSpec, fv reflect.Value, parent reflect.Value) {
	switch f.Kind {
	case "int", "bool":
		setInt(fv, n.I)
	case "f32":
		fv.SetFloat(float64(math.Float32frombits(uint32(n.U))))
		// SetFloat goes through float64: restore the exact bit pattern (signalling NaNs)
		*(*uint32)(unsafe.Pointer(fv.UnsafeAddr())) = uint32(n.U)
	case "f64":
		*(*uint64)(unsafe.Pointer(fv.UnsafeAddr())) = n.U
	case "text":
		fv.SetString(n.S)
	case "blob", "recblob":
		if n.Nil || n.B == nil {
			fv.Set(reflect.Zero(fv.Type()))
		} else {
			fv.SetBytes(append(make([]byte, 0, len(n.B)), n.B...))
		}
	case "strptr":
		if n.K == kAbsent {
			fv.Set(reflect.Zero(fv.Type()))
		} else {
			s := n.S
			fv.Set(reflect.ValueOf(&s))
		}
	case "ints":
		if n.Nil {
			fv.Set(reflect.Zero(fv.Type()))
			return
		}
		s := reflect.MakeSlice(fv.Type(), len(n.L), len(n.L))
		for i, e := range n.L {
			setInt(s.Index(i), e.I)
		}
		fv.Set(s)
	case "list":
		if n.Nil {
			fv.Set(reflect.Zero(fv.Type()))
			return
		}
		s := reflect.MakeSlice(fv.Type(), len(n.L), len(n.L))
		for i, e := range n.L {
			s.Index(i).Set(buildStructValue(e, fv.Type().Elem()))
		}
		fv.Set(s)
	case "struct":
		buildInto(n, fv)
	case "ptr":
		if n.K == kAbsent {
			fv.Set(reflect.Zero(fv.Type()))
		} else {
			fv.Set(buildStructValue(n, fv.Type()))
		}
	case "iface":
		fv.Set(buildStructValue(n, fv.Type()))
	case "strmap":
		m := hmap.NewStringKeyLinkedMap()
		for i, k := range n.Keys {
			switch f.Elem.Kind {
			case "value":
				m.Put(k.S, valgen.ToGolib(*n.L[i].V))
			case "text":
				m.Put(k.S, n.L[i].S)
			case "anylist":
				m.Put(k.S, buildAnyList(n.L[i]))
			}
		}
		fv.Set(reflect.ValueOf(m))
	case "strintmap":
		m := hmap.NewStringIntLinkedMap()
		for i, k := range n.Keys {
			m.Put(k.S, int32(n.L[i].I))
		}
		fv.Set(reflect.ValueOf(m))
	case "intintlmap":
		m := hmap.NewIntIntLinkedMap().SetMax(f.Max)
		for i, k := range n.Keys {
			m.Put(int32(k.I), int32(n.L[i].I))
		}
		fv.Set(reflect.ValueOf(m))
	case "intintmap":
		if n.K == kAbsent {
			fv.Set(reflect.Zero(fv.Type()))
			return
		}
		m := hmap.NewIntIntMapDefault()
		for i, k := range n.Keys {
			m.Put(int32(k.I), int32(n.L[i].I))
		}
		fv.Set(reflect.ValueOf(m))
	case "intkeylmap":
		if n.K == kAbsent {
			fv.Set(reflect.Zero(fv.Type()))
			return
		}
		m := hmap.NewIntKeyLinkedMapDefault()
		for i, k := range n.Keys {
			m.Put(int32(k.I), buildStructValue(n.L[i], reflect.PtrTo(goTypes[f.Type])).Interface())
		}
		fv.Set(reflect.ValueOf(m))
	case "intkeymap":
		if n.K == kAbsent {
			fv.Set(reflect.Zero(fv.Type()))
			return
		}
		m := hmap.NewIntKeyMapDefault()
		for i, k := range n.Keys {
			m.Put(int32(k.I), buildStructValue(n.L[i], reflect.PtrTo(goTypes[f.Type])).Interface())
		}
		fv.Set(reflect.ValueOf(m))
	case "linkedmap":
		if n.K == kAbsent {
			fv.Set(reflect.Zero(fv.Type()))
			return
		}
		m := hmap.NewLinkedMapDefault()
		for i, k := range n.Keys {
			key := buildStructValue(k, reflect.PtrTo(goTypes[f.Key.Type])).Interface().(hmap.LinkedKey)
			m.Put(key, buildStructValue(n.L[i], reflect.PtrTo(goTypes[f.Type])).Interface())
		}
		fv.Set(reflect.ValueOf(m))
	case "mapvalue":
		if n.K == kAbsent {
			fv.Set(reflect.Zero(fv.Type()))
			return
		}
		fv.Set(reflect.ValueOf(valgen.ToGolib(*n.V).(*value.MapValue)))
	case "intmapvalue":
		if n.K == kAbsent {
			fv.Set(reflect.Zero(fv.Type()))
			return
		}
		fv.Set(reflect.ValueOf(valgen.ToGolib(*n.V).(*value.IntMapValue)))
	case "txrecord":
		fv.Set(reflect.ValueOf(stepgen.TxToGolib(*n.Tx)))
	case "packs":
		if n.Nil {
			fv.Set(reflect.Zero(fv.Type()))
			return
		}
		s := make([]pack.Pack, len(n.L))
		for i, e := range n.L {
			s[i] = buildObj(e).(pack.Pack)
		}
		fv.Set(reflect.ValueOf(s))
	default:
		panic("buildField: unknown kind " + f.Kind)
	}
}

func buildAnyList(n *Node) glist.AnyList {
	var l glist.AnyList
	switch n.T {
	case "1":
		l = glist.NewIntListDefault()
	case "2":
		l = glist.NewLongListDefault()
	case "3":
		l = glist.NewFloatListDefault()
	case "4":
		l = glist.NewDoubleListDefault()
	default:
		l = glist.NewStringListDefault()
	}
	for _, e := range n.L {
		switch n.T {
		case "1":
			l.AddInt(int(e.I))
		case "2":
			l.AddLong(e.I)
		case "3":
			l.AddFloat(math.Float32frombits(uint32(e.U)))
		case "4":
			l.AddDouble(math.Float64frombits(e.U))
		default:
			l.AddString(e.S)
		}
	}
	return l
}

// ---------------------------------------------------------------- extract

func extractObj(typ string, obj interface{}) *Node {
	v := reflect.ValueOf(obj)
	for v.Kind() == reflect.Ptr || v.Kind() == reflect.Interface {
		v = v.Elem()
	}
	if !v.CanAddr() {
		c := reflect.New(v.Type()).Elem()
		c.Set(v)
		v = c
	}
	return extractFrom(typ, v)
}

// extracting names the top-level field being read (attribution of a panic while walking)
var extracting string
var extractDepth int

func extractFrom(typ string, sv reflect.Value) *Node {
	ts := man.T(typ)
	extractDepth++
	defer func() { extractDepth-- }()
	n := &Node{K: kStruct, T: typ, L: make([]*Node, len(ts.Fields))}
	for i := range ts.Fields {
		f := &ts.Fields[i]
		if extractDepth == 1 {
			extracting = f.Name
		}
		if f.Name == "data" && (typ == "StatGeneralPack" || typ == "StatGeneralPack#1") {
			// the decoder keeps the table serialized until it is asked for
			sv.Addr().Interface().(*pack.StatGeneralPack).GetDataTable()
		}
		n.L[i] = extractField(f, fieldOf(sv, f.Name))
	}
	return n
}

func extractStructValue(typ string, v reflect.Value) *Node {
	for v.Kind() == reflect.Ptr || v.Kind() == reflect.Interface {
		if v.IsNil() {
			return &Node{K: kAbsent}
		}
		v = v.Elem()
	}
	if typ == "" {
		typ = v.Type().Name()
	}
	if !v.CanAddr() {
		c := reflect.New(v.Type()).Elem()
		c.Set(v)
		v = c
	}
	return extractFrom(typ, v)
}

func extractField(f *FieldSpec, fv reflect.Value) *Node {
	switch f.Kind {
	case "int", "bool":
		return nInt(getInt(fv))
	case "f32":
		return &Node{K: kF32, U: uint64(*(*uint32)(unsafe.Pointer(fv.UnsafeAddr())))}
	case "f64":
		return &Node{K: kF64, U: *(*uint64)(unsafe.Pointer(fv.UnsafeAddr()))}
	case "text":
		return &Node{K: kStr, S: fv.String()}
	case "blob", "recblob":
		return &Node{K: kBytes, B: fv.Bytes(), Nil: fv.IsNil()}
	case "strptr":
		if fv.IsNil() {
			return &Node{K: kAbsent}
		}
		return &Node{K: kStr, S: fv.Elem().String()}
	case "ints":
		n := &Node{K: kList, Nil: fv.IsNil()}
		for i := 0; i < fv.Len(); i++ {
			n.L = append(n.L, nInt(getInt(fv.Index(i))))
		}
		return n
	case "list":
		n := &Node{K: kList, Nil: fv.IsNil()}
		for i := 0; i < fv.Len(); i++ {
			e := fv.Index(i)
			typ := f.Type
			if f.Elem != nil && f.Elem.Kind == "iface" {
				typ = ""
			}
			n.L = append(n.L, extractStructValue(typ, e))
		}
		return n
	case "struct":
		return extractFrom(f.Type, fv)
	case "ptr":
		return extractStructValue(f.Type, fv)
	case "iface":
		return extractStructValue("", fv)
	case "strmap":
		n := &Node{K: kMap}
		if fv.IsNil() {
			return &Node{K: kAbsent}
		}
		m := fv.Interface().(*hmap.StringKeyLinkedMap)
		en := m.Entries()
		for en.HasMoreElements() {
			e := en.NextElement().(*hmap.StringKeyLinkedEntry)
			n.Keys = append(n.Keys, &Node{K: kStr, S: e.GetKey()})
			switch x := e.GetValue().(type) {
			case value.Value:
				v := valgen.FromGolib(x)
				n.L = append(n.L, &Node{K: kVal, V: &v})
			case string:
				n.L = append(n.L, &Node{K: kStr, S: x})
			case glist.AnyList:
				n.L = append(n.L, extractAnyList(x))
			default:
				n.L = append(n.L, &Node{K: kStr, S: fmt.Sprintf("<%T>", x)})
			}
		}
		return n
	case "strintmap":
		if fv.IsNil() {
			return &Node{K: kAbsent}
		}
		n := &Node{K: kMap}
		en := fv.Interface().(*hmap.StringIntLinkedMap).Entries()
		for en.HasMoreElements() {
			e := en.NextElement().(*hmap.StringIntLinkedEntry)
			n.Keys = append(n.Keys, &Node{K: kStr, S: e.GetKey()})
			n.L = append(n.L, nInt(int64(e.GetValue())))
		}
		return n
	case "intintlmap":
		if fv.IsNil() {
			return &Node{K: kAbsent}
		}
		n := &Node{K: kMap}
		en := fv.Interface().(*hmap.IntIntLinkedMap).Entries()
		for en.HasMoreElements() {
			e := en.NextElement().(*hmap.IntIntLinkedEntry)
			n.Keys = append(n.Keys, nInt(int64(e.GetKey())))
			n.L = append(n.L, nInt(int64(e.GetValue())))
		}
		return n
	case "intintmap":
		if fv.IsNil() {
			return &Node{K: kAbsent}
		}
		n := &Node{K: kMap, Unordered: true}
		en := fv.Interface().(*hmap.IntIntMap).Entries()
		for en.HasMoreElements() {
			e := en.NextElement().(*hmap.IntIntEntry)
			n.Keys = append(n.Keys, nInt(int64(e.GetKey())))
			n.L = append(n.L, nInt(int64(e.GetValue())))
		}
		return n
	case "intkeylmap":
		if fv.IsNil() {
			return &Node{K: kAbsent}
		}
		n := &Node{K: kMap}
		en := fv.Interface().(*hmap.IntKeyLinkedMap).Entries()
		for en.HasMoreElements() {
			e := en.NextElement().(*hmap.IntKeyLinkedEntry)
			n.Keys = append(n.Keys, nInt(int64(e.GetKey())))
			n.L = append(n.L, extractStructValue(f.Type, reflect.ValueOf(e.GetValue())))
		}
		return n
	case "intkeymap":
		if fv.IsNil() {
			return &Node{K: kAbsent}
		}
		n := &Node{K: kMap, Unordered: true}
		en := fv.Interface().(*hmap.IntKeyMap).Entries()
		for en.HasMoreElements() {
			e := en.NextElement().(*hmap.IntKeyEntry)
			n.Keys = append(n.Keys, nInt(int64(e.GetKey())))
			n.L = append(n.L, extractStructValue(f.Type, reflect.ValueOf(e.GetValue())))
		}
		return n
	case "linkedmap":
		if fv.IsNil() {
			return &Node{K: kAbsent}
		}
		n := &Node{K: kMap}
		en := fv.Interface().(*hmap.LinkedMap).Entries()
		for en.HasMoreElements() {
			e := en.NextElement().(*hmap.LinkedEntry)
			n.Keys = append(n.Keys, extractStructValue(f.Key.Type, reflect.ValueOf(e.GetKey())))
			n.L = append(n.L, extractStructValue(f.Type, reflect.ValueOf(e.GetValue())))
		}
		return n
	case "mapvalue", "intmapvalue":
		if fv.IsNil() {
			return &Node{K: kAbsent}
		}
		v := valgen.FromGolib(fv.Interface().(value.Value))
		return &Node{K: kVal, V: &v}
	case "txrecord":
		if fv.IsNil() {
			return &Node{K: kAbsent}
		}
		t := stepgen.TxFromGolib(fv.Interface().(*service.TxRecord))
		return &Node{K: kTx, Tx: &t}
	case "packs":
		n := &Node{K: kList, Nil: fv.IsNil()}
		for i := 0; i < fv.Len(); i++ {
			e := fv.Index(i)
			if e.IsNil() {
				n.L = append(n.L, &Node{K: kAbsent})
				continue
			}
			p := e.Interface()
			n.L = append(n.L, extractObj(typeNameOf(p), p))
		}
		return n
	}
	panic("extractField: unknown kind " + f.Kind)
}

func extractAnyList(l glist.AnyList) *Node {
	n := &Node{K: kAnyList, T: strconv.Itoa(int(l.GetType()))}
	for i := 0; i < l.Size(); i++ {
		switch l.GetType() {
		case glist.ANYLIST_INT:
			n.L = append(n.L, nInt(int64(l.GetInt(i))))
		case glist.ANYLIST_LONG:
			n.L = append(n.L, nInt(l.GetLong(i)))
		case glist.ANYLIST_FLOAT:
			n.L = append(n.L, &Node{K: kF32, U: uint64(math.Float32bits(l.GetFloat(i)))})
		case glist.ANYLIST_DOUBLE:
			n.L = append(n.L, &Node{K: kF64, U: math.Float64bits(l.GetDouble(i))})
		default:
			n.L = append(n.L, &Node{K: kStr, S: l.GetString(i)})
		}
	}
	return n
}

// ---------------------------------------------------------------- expected value of a correct decoder

// expected returns what a correct decoder yields for a written tree where that is not simply
// the written value (the manifest's decoder_rules). The input tree is not modified.
func expected(n *Node) *Node {
	if n == nil || n.K != kStruct {
		return n
	}
	ts := man.T(n.T)
	c := *n
	c.L = append([]*Node{}, n.L...)
	for i := range ts.Fields {
		f := &ts.Fields[i]
		ch := c.L[i]
		switch {
		case f.Derive != "" && ch.I == 0:
			// tag hash computed by the writer from the encoded tag map
			j, _ := ts.field(f.Derive[len("tag-hash:"):])
			tags := c.L[j]
			if tags.K == kVal && len(tags.V.Vals) > 0 {
				c.L[i] = nInt(refcodec.Hash64(refcodec.EncodeValue(*tags.V)))
			}
		case f.Kind == "txrecord" && ch.K == kTx:
			t := stepgen.TxCanon(*ch.Tx)
			c.L[i] = &Node{K: kTx, Tx: &t}
		case f.Kind == "packs" || (f.Kind == "list" && ch.K == kList):
			l := *ch
			l.L = make([]*Node, len(ch.L))
			for k, e := range ch.L {
				l.L[k] = expected(e)
			}
			c.L[i] = &l
		case ch.K == kStruct:
			c.L[i] = expected(ch)
		}
	}
	if n.T == "CounterPack1" {
		ia, _ := ts.field("DbNumActive")
		ii, _ := ts.field("DbNumIdle")
		if c.L[ia].K == kAbsent || c.L[ii].K == kAbsent {
			c.L[ia], c.L[ii] = &Node{K: kAbsent}, &Node{K: kAbsent}
		}
	}
	return &c
}

// postBuild: things a populated object needs that are not a manifest field.
func postBuild(n *Node, sv reflect.Value) {
	switch n.T {
	case "StatTransactionPack", "StatTransactionPack1":
		// Version selects the record layout SetRecords writes; set by the record builder
	}
}

// ---------------------------------------------------------------- small helpers for the record hooks

type sliceEnum struct {
	items []interface{}
	i     int
}

func (e *sliceEnum) HasMoreElements() bool { return e.i < len(e.items) }
func (e *sliceEnum) NextElement() interface{} {
	x := e.items[e.i]
	e.i++
	return x
}

func toList(items []interface{}) *list.List {
	l := list.New()
	for _, x := range items {
		l.PushBack(x)
	}
	return l
}

func fromList(l *list.List) []interface{} {
	if l == nil {
		return nil
	}
	var out []interface{}
	for e := l.Front(); e != nil; e = e.Next() {
		out = append(out, e.Value)
	}
	return out
}

var _ = gio.NewDataOutputX
