package main

// Seed of the carried-field manifest: the wire layout of every pack type, element and record
// type as read off its Write method in /repo/lang/pack (wire order). `VERIF_WRITE_SPEC=1`
// cross-checks it against a measured sensitivity run and writes spec/pack_fields.json; the
// checks themselves never use this table, only the JSON file.

func fi(name string, bits int, wire string) FieldSpec {
	return FieldSpec{Name: name, Kind: "int", Bits: bits, Wire: wire}
}
func dec64(n string) FieldSpec { return fi(n, 64, "decimal") }
func dec32(n string) FieldSpec { return fi(n, 32, "decimal (int32 field)") }
func i64(n string) FieldSpec   { return fi(n, 64, "int64") }
func i32(n string) FieldSpec   { return fi(n, 32, "int32") }
func i16(n string) FieldSpec   { return fi(n, 16, "int16") }
func u8(n string) FieldSpec {
	f := fi(n, 8, "byte")
	f.Unsigned = true
	return f
}
func f32(n string) FieldSpec     { return FieldSpec{Name: n, Kind: "f32", Wire: "float32 bits"} }
func f64(n string) FieldSpec     { return FieldSpec{Name: n, Kind: "f64", Wire: "float64 bits"} }
func boolean(n string) FieldSpec { return FieldSpec{Name: n, Kind: "bool", Wire: "byte 0/1"} }
func text(n string) FieldSpec {
	return FieldSpec{Name: n, Kind: "text", Wire: "text (blob prefix + bytes)"}
}
func blob(n string) FieldSpec {
	return FieldSpec{Name: n, Kind: "blob", Wire: "blob (1/3/5-byte length prefix + bytes)"}
}
func strptr(n string, nonNil bool) FieldSpec {
	return FieldSpec{Name: n, Kind: "strptr", Wire: "text (nil pointer written as \"\")", NonNil: nonNil}
}
func cond(f FieldSpec, c string) FieldSpec { f.Cond = c; return f }
func note(f FieldSpec, s string) FieldSpec { f.Note = s; return f }

func listOf(n, typ, countWire string, max int) FieldSpec {
	return FieldSpec{Name: n, Kind: "list", Type: typ, Max: max, Wire: countWire + " count, then count × " + typ}
}
func mapvalue(n string, nonNil bool, wire string) FieldSpec {
	return FieldSpec{Name: n, Kind: "mapvalue", NonNil: nonNil, Wire: wire}
}
func intmapvalue(n string, nonNil bool, wire string) FieldSpec {
	return FieldSpec{Name: n, Kind: "intmapvalue", NonNil: nonNil, Wire: wire}
}

const maxI16 = 32767

var hdrFields = []FieldSpec{
	dec64("Pcode"),
	i32("Oid"),
	cond(i32("Okind"), "long header form only (first byte 9): Okind|Onode != 0"),
	cond(i32("Onode"), "long header form only (first byte 9): Okind|Onode != 0"),
	i64("Time"),
}

const hdrLayout = "header{ Okind|Onode==0: decimal Pcode, int32 Oid, int64 Time | else: byte 9, decimal Pcode, int32 Oid, int32 Okind, int32 Onode, int64 Time }"

func withHdr(fs ...FieldSpec) []FieldSpec {
	out := append([]FieldSpec{}, hdrFields...)
	return append(out, fs...)
}

func pk(name string, code string, registered bool, layout string, fs []FieldSpec) *TypeSpec {
	t := &TypeSpec{Name: name, Class: "pack", Registered: registered, Code: code, Layout: layout, Fields: fs}
	if registered {
		t.Via = "pack.ToBytesPack -> type short + pack.CreatePack + Read (canary suffix) and pack.ToPack -> pack.ToBytesPack"
	} else {
		t.Via = "pack.WritePack -> type short read by the harness, constructor, own Read (canary suffix) -> pack.WritePack"
	}
	return t
}
func el(name, layout string, fs []FieldSpec) *TypeSpec {
	return &TypeSpec{Name: name, Class: "element", Layout: layout, Fields: fs, Via: "own Write -> own Read on a fresh value (canary suffix) -> own Write"}
}
func rec(name, via, layout string, fs []FieldSpec) *TypeSpec {
	return &TypeSpec{Name: name, Class: "record", Layout: layout, Fields: fs, Via: via}
}

func meterMap(n, kind, typ string) FieldSpec {
	return FieldSpec{Name: n, Kind: kind, Type: typ,
		Wire: "nil: decimal 0 | else byte 9, decimal count, count × (int32 key, " + typ + " members as decimals)",
		Cond: "section present iff the map is not nil; an empty map decodes as empty"}
}

func recordBlobFields(recType string, countBits int) []FieldSpec {
	rb := FieldSpec{Name: "Records", Kind: "recblob", Type: recType,
		Wire: "blob; SetRecords* fill it with int16 count + count × " + recType, Max: 65535}
	var rc FieldSpec
	if countBits == 64 {
		rc = fi("RecordCount", 64, "decimal (int field)")
	} else {
		rc = dec32("RecordCount")
	}
	return []FieldSpec{rb, rc}
}

var cpuLinuxFields = []FieldSpec{f32("User"), f32("System"), f32("Idle"), f32("Nice"), f32("Irq"), f32("Softirq"), f32("Steal"), f32("Iowait"), f32("Load1"), f32("Load5"), f32("Load15")}

func timeCountMap(n string) FieldSpec {
	return FieldSpec{Name: n, Kind: "intkeymap", Type: "TimeCount",
		Wire: "decimal count (nil: 0), count × (int32 key, decimal Count, decimal Error, decimal Time); table order"}
}

func transactionRec(ver int) *TypeSpec {
	fs := []FieldSpec{i32("Hash"), dec32("Count"), dec32("Error"), dec64("TimeSum"), dec32("TimeMax"),
		dec32("SqlCount"), dec64("SqlTime"), dec32("SqlFetch"), dec64("SqlFetchTime"),
		dec32("HttpcCount"), dec64("HttpcTime"), dec64("MallocSum"), dec64("CpuSum"),
		timeCountMap("SqlMap"), timeCountMap("HttpcMap")}
	lay := "int32 Hash, byte version, decimals Count Error TimeSum TimeMax SqlCount SqlTime SqlFetch SqlFetchTime HttpcCount HttpcTime MallocSum CpuSum, SqlMap, HttpcMap"
	if ver >= 3 {
		fs = append(fs, dec32("ApdexSatisfied"), dec32("ApdexTolerated"))
		lay += ", version>=3: decimals ApdexSatisfied ApdexTolerated"
	}
	if ver >= 4 {
		fs = append(fs, dec32("TimeMin"), dec64("TimeStd"))
		lay += ", version>=4: decimals TimeMin TimeStd"
	}
	t := rec("TransactionRec#v"+string(rune('0'+ver)), "pack.WriteTransactionRec(out, rec, version) -> pack.ReadTransactionRec (canary suffix) -> WriteTransactionRec", lay, fs)
	t.NotCarried = []NotCarried{{"Profiled", "the byte after Hash is the record version; the profiled flag of the old layout is gone"}}
	if ver < 3 {
		t.NotCarried = append(t.NotCarried, NotCarried{"ApdexSatisfied, ApdexTolerated", "version 3 and later only"})
	}
	if ver < 4 {
		t.NotCarried = append(t.NotCarried, NotCarried{"TimeMin, TimeStd", "version 4 and later only"})
	}
	return t
}

func seedManifest() *Manifest {
	m := &Manifest{Note: "Carried-field manifest of golib's pack types (lang/pack): per type the fields the wire carries in wire order, " +
		"their wire form and domain, and the presence conditions of optional sections. Derived by reading each Write method " +
		"(cmd/wC03/specseed.go) and cross-checked by a measured sensitivity run on the pinned tree (VERIF_WRITE_SPEC=1: " +
		"`measured` says for every struct field whether flipping only that field changed the encoding). The C03 worker populates, " +
		"compares and flips exactly these fields; a field listed here that stops changing the encoding is reported as not-carried."}
	add := func(t *TypeSpec) *TypeSpec { m.Types = append(m.Types, t); return t }

	// ---------------------------------------------------------------- registered packs (24)
	add(pk("ParamPack", "0x0100", true, hdrLayout+", int32 Id, decimal Request, decimal Response, decimal count, count × (text key, tagged value)",
		withHdr(i32("Id"), dec64("Request"), dec64("Response"),
			FieldSpec{Name: "table", Kind: "strmap", NonNil: true, Elem: &FieldSpec{Kind: "value"},
				Wire: "decimal count, count × (text key, tagged value), insertion order"})))

	cp := add(pk("CounterPack1", "0x0201", true, hdrLayout+", blob{ body in the order of the field list; presence bytes guard the optional sections }",
		withHdr(
			dec32("Duration"), dec64("Cputime"), dec64("HeapTot"), dec64("HeapUse"), dec64("HeapPerm"), dec32("HeapPendingFinalization"),
			dec32("GcCount"), dec64("GcTime"), dec32("ServiceCount"), dec32("ServiceError"), dec64("ServiceTime"),
			dec32("SqlCount"), dec32("SqlError"), dec64("SqlTime"), dec64("SqlFetchCount"), dec64("SqlFetchTime"),
			dec32("HttpcCount"), dec32("HttpcError"), dec64("HttpcTime"), dec32("ActSvcCount"),
			FieldSpec{Name: "ActSvcSlice", Kind: "ints", Max: 255, Elem: &FieldSpec{Kind: "int", Bits: 16}, Wire: "byte count, count × int16"},
			f32("Cpu"), f32("CpuSys"), f32("CpuUsr"), f32("CpuWait"), f32("CpuSteal"), f32("CpuIrq"), f32("CpuProc"), dec32("CpuCores"),
			f32("Mem"), f32("Swap"), f32("Disk"),
			dec64("ThreadTotalStarted"), dec32("ThreadCount"), dec32("ThreadDaemon"), dec32("ThreadPeakCount"),
			FieldSpec{Name: "DbNumActive", Kind: "intintmap", Wire: "byte 1, then decimal count, count × (decimal key, decimal value); byte 0 when absent",
				Cond: "written iff DbNumActive != nil AND DbNumIdle != nil"},
			FieldSpec{Name: "DbNumIdle", Kind: "intintmap", Wire: "decimal count, count × (decimal key, decimal value)",
				Cond: "written iff DbNumActive != nil AND DbNumIdle != nil"},
			FieldSpec{Name: "Netstat", Kind: "ptr", Type: "NETSTAT", Wire: "byte 1 + decimals Est FinW CloW TimW | byte 0", Cond: "Netstat != nil"},
			dec32("ProcFd"), f32("Tps"), dec32("RespTime"), i16("ApType"),
			FieldSpec{Name: "Websocket", Kind: "ptr", Type: "WEBSOCKET", Wire: "byte 1 + decimals Count In Out | byte 0", Cond: "Websocket != nil"},
			dec64("Starttime"), dec64("PackDropped"), dec32("HostIp"), dec32("MacHash"),
			cond(intmapvalue("Extra", false, "byte 1 + tagged int-map value | byte 0"), "Extra != nil"),
			i32("Pid"),
			FieldSpec{Name: "ActiveStat", Kind: "ints", Max: 255, Elem: &FieldSpec{Kind: "int", Bits: 16}, Wire: "byte count, count × int16"},
			dec32("ThreadPoolActiveCount"), dec32("ThreadPoolQueueSize"),
			meterMap("TxcallerOidMeter", "intkeylmap", "TxMeter"),
			meterMap("SqlMeter", "intkeylmap", "SqlMeter"),
			meterMap("HttpcMeter", "intkeylmap", "HttpcMeter"),
			FieldSpec{Name: "TxcallerGroupMeter", Kind: "linkedmap", Type: "TxMeter", Key: &FieldSpec{Kind: "struct", Type: "PKIND"},
				Wire: "nil: decimal 0 | else byte 9, decimal count, count × (decimal PCode, decimal OKind, decimals Time Count Error Actx); then the deprecated okind meter count: decimal 0",
				Cond: "section present iff the map is not nil"},
			FieldSpec{Name: "TxcallerUnknown", Kind: "ptr", Type: "TxMeter", Wire: "byte 2 + decimals Time Count Error Actx | byte 0", Cond: "TxcallerUnknown != nil"},
			dec32("ContainerKey"), f32("TxDbcTime"), f32("TxSqlTime"), f32("TxHttpcTime"),
			dec32("ApdexSatisfied"), dec32("ApdexTolerated"), f32("ArrivalRate"), dec32("GcOldgenCount"), u8("Version"), dec64("HeapMax"),
			dec32("ProcFdMax"), f32("Metering"), dec32("ApdexTotal"),
			FieldSpec{Name: "TxcallerPOidMeter", Kind: "linkedmap", Type: "TxMeter", Key: &FieldSpec{Kind: "struct", Type: "POID"},
				Wire: "decimal count (nil: 0), count × (decimal PCode, decimal Oid, decimals Time Count Error Actx)",
				Cond: "entries present iff the map is not nil and not empty"},
			dec32("Resp90"), dec32("Resp95"), dec64("TimeSqrSum"),
		)))
	cp.NotCarried = []NotCarried{{"ActiveStatKeys", "constant key names, never written"}, {"CollectIntervalMs", "transient (comment in the source: no read, no write)"},
		{"TxMeter.Acts", "the active-transaction slice of a meter is not written by any of the meter sections"}}
	cp.Rules = []string{"DbNumActive/DbNumIdle are carried only when both are non-nil (one presence byte guards both)"}

	add(pk("ProfilePack", "0x0300", true, hdrLayout+", transaction record (version byte 10 + blob), blob Steps",
		withHdr(FieldSpec{Name: "Transaction", Kind: "txrecord", NonNil: true, Wire: "tx record: byte 10, blob{…} (layout: refcodec/txrecord.go, property C08)"},
			blob("Steps")))).Rules = []string{"transaction record: members of absent optional groups decode as zero, error level 0 with an error id decodes as 20 (stepgen.TxCanon)"}

	add(pk("ActiveStackPack", "0x0401", true, hdrLayout+", byte 1 (version), int64 Seq, int64 ProfileSeq, int32 Service, int32 CallStackHash, int-array CallStack, decimal Elapsed",
		withHdr(i64("Seq"), i64("ProfileSeq"), i32("Service"), i32("CallStackHash"),
			FieldSpec{Name: "CallStack", Kind: "ints", Max: maxI16, Elem: &FieldSpec{Kind: "int", Bits: 32}, Wire: "int16 count (nil: 0), count × int32"},
			dec32("Elapsed"))))

	add(pk("TextPack", "0x0700", true, hdrLayout+", decimal count, count × (byte Div, int32 Hash, text Text)",
		withHdr(listOf("records", "TextRec", "decimal", 0))))

	add(pk("ErrorSnapPack1", "0x0801", true, hdrLayout+", int64 Seq, blob Profile, blob Stack, byte AppendType, decimal AppendHash",
		withHdr(i64("Seq"), blob("Profile"), blob("Stack"), u8("AppendType"), dec32("AppendHash"))))

	add(pk("RealtimeUserPack", "0x0f00", true, hdrLayout+", blob Logbits", withHdr(blob("Logbits"))))

	add(pk("StatServicePack", "0x0900", true, hdrLayout+", blob Records, decimal RecordCount", withHdr(recordBlobFields("ServiceRec", 64)...)))

	sg := add(pk("StatGeneralPack", "0x0910", true, hdrLayout+", text Id, int24 length, that many bytes{ int16 count, count × (text key, byte list type, typed list) }",
		withHdr(text("Id"),
			FieldSpec{Name: "data", Kind: "strmap", NonNil: true, Max: maxI16, Elem: &FieldSpec{Kind: "anylist"},
				Wire: "int24 byte length + bytes{ int16 count, count × (text key, byte type 1..5, int24 count + elements: decimal | decimal | float32 | float64 | text) }",
				Note: "private; filled through Put, read back through GetDataTable (the decoder keeps the bytes until then)"})))
	sg.NotCarried = []NotCarried{{"DataStartTime", "written only when the pack type is not 0x0910 (see StatGeneralPack#1)"},
		{"dataBytes, dataBytesSize", "the serialized form of data (what Read keeps until GetDataTable is called)"}, {"packType", "is the type short"}}
	sg.Internal = []string{"dataBytes", "dataBytesSize", "packType", "lock"}

	add(pk("StatSqlPack", "0x0a00", true, hdrLayout+", blob Records, decimal RecordCount", withHdr(recordBlobFields("SqlRec", 32)...)))
	add(pk("StatHttpcPack", "0x0b00", true, hdrLayout+", blob Records, decimal RecordCount", withHdr(recordBlobFields("HttpcRec", 32)...)))
	add(pk("StatErrorPack", "0x0c00", true, hdrLayout+", blob Records, decimal RecordCount", withHdr(recordBlobFields("ErrorRec", 32)...)))

	add(pk("StatRemoteIpPack", "0x1100", true, hdrLayout+", decimal count, count × (int32 ip, int32 count)",
		withHdr(FieldSpec{Name: "IpTable", Kind: "intintlmap", NonNil: true, Max: 10000, Wire: "decimal count, count × (int32 key, int32 value), insertion order"})))
	add(pk("StatUserAgentPack", "0x1200", true, hdrLayout+", decimal count, count × (int32 agent, int32 count)",
		withHdr(FieldSpec{Name: "UserAgents", Kind: "intintlmap", NonNil: true, Max: 500, Wire: "decimal count, count × (int32 key, int32 value), insertion order"})))

	ev := add(pk("EventPack", "0x1400", true, hdrLayout+", byte Level, text Title, text Message, byte count, count × (text key, text value) — the attributes followed by the reserved entries _uuid_ (if set), _esca_, _status_, _otype_",
		withHdr(u8("Level"), text("Title"), text("Message"),
			FieldSpec{Name: "Attr", Kind: "strmap", NonNil: true, Max: 251, Elem: &FieldSpec{Kind: "text"},
				Exclude: []string{"_esca_", "_uuid_", "_status_", "_otype_"},
				Wire:    "byte count (attributes + 3..4 reserved entries, so at most 251 attributes), count × (text key, text value), insertion order"},
			cond(text("Uuid"), "attribute _uuid_, written when not empty"),
			FieldSpec{Name: "Escalation", Kind: "bool", Wire: "attribute _esca_ = \"true\" | \"false\""},
			note(fi("Status", 32, "attribute _status_ = decimal text"), "int32"),
			note(fi("Otype", 32, "attribute _otype_ = decimal text"), "int32"))))
	ev.NotCarried = []NotCarried{{"Eid", "never written"}}

	add(pk("HitMapPack1", "0x1501", true, hdrLayout+", byte 1 (version), 120 × (uint16 Hit[i], uint16 Error[i])",
		withHdr(
			FieldSpec{Name: "Hit", Kind: "ints", Fixed: 120, Elem: &FieldSpec{Kind: "int", Bits: 16, Unsigned: true}, Wire: "120 × uint16, interleaved with Error"},
			FieldSpec{Name: "Error", Kind: "ints", Fixed: 120, Elem: &FieldSpec{Kind: "int", Bits: 16, Unsigned: true}, Wire: "120 × uint16, interleaved with Hit"})))

	add(pk("ExtensionPack", "0x1600", true, hdrLayout+", byte 0 (version), bool IsProjectWide, decimal count, count × (text key, int32 value), tagged int-map value",
		withHdr(boolean("IsProjectWide"),
			FieldSpec{Name: "Header", Kind: "strintmap", NonNil: true, Wire: "decimal count, count × (text key, int32 value), insertion order"},
			intmapvalue("Value", true, "tagged int-map value"))))

	tagRules := []string{"tag hash: when it is 0 and the tag map is not empty the writer computes Hash64 over the encoded tag map and sends that; otherwise the stored value is sent"}
	add(pk("TagCountPack", "0x1601", true, hdrLayout+", byte 0 (version), text Category, decimal tagHash, tagged map Tags, tagged map Data",
		withHdr(text("Category"),
			FieldSpec{Name: "tagHash", Kind: "int", Bits: 64, Wire: "decimal", Derive: "tag-hash:Tags", Note: "private; GetTagHash()"},
			mapvalue("Tags", true, "tagged map value"), mapvalue("Data", true, "tagged map value")))).Rules = tagRules
	add(pk("TagLogPack", "0x1602", true, hdrLayout+", byte 0 (version), text Category, decimal tagHash, tagged map Tags, tagged map Fields",
		withHdr(text("Category"),
			FieldSpec{Name: "tagHash", Kind: "int", Bits: 64, Wire: "decimal", Derive: "tag-hash:Tags", Note: "private, no accessor"},
			mapvalue("Tags", true, "tagged map value"), mapvalue("Fields", true, "tagged map value")))).Rules = tagRules

	add(pk("CompositePack", "0x1700", true, hdrLayout+", int16 count, count × (type short + pack body)",
		withHdr(FieldSpec{Name: "pack", Kind: "packs", Max: maxI16, Wire: "int16 count, count × type-tagged pack", Note: "private, no accessor and no setter: reached by reflection"})))

	add(pk("LogSinkPack", "0x170a", true, hdrLayout+", byte 0 (version), text Category, decimal TagHash, tagged map Tags, decimal Line, text Content, bool + tagged map Fields",
		withHdr(text("Category"),
			FieldSpec{Name: "TagHash", Kind: "int", Bits: 64, Wire: "decimal", Derive: "tag-hash:Tags"},
			mapvalue("Tags", true, "tagged map value"), dec64("Line"), text("Content"),
			cond(mapvalue("Fields", false, "bool 1 + tagged map value | bool 0"), "Fields != nil and not empty")))).Rules = tagRules

	zipLayout := hdrLayout + ", byte Status (0 plain, 1 gzip), decimal RecordCount, blob Records (concatenated type-tagged packs, gzipped when Status is 1)"
	add(pk("ZipPack", "0x170b", true, zipLayout, withHdr(u8("Status"), fi("RecordCount", 64, "decimal (int field)"),
		FieldSpec{Name: "Records", Kind: "recblob", Type: "Pack", Wire: "blob"})))
	add(pk("LogSinkZipPack", "0x170d", true, zipLayout, withHdr(u8("Status"), fi("RecordCount", 64, "decimal (int field)"),
		FieldSpec{Name: "Records", Kind: "recblob", Type: "LogSinkPack", Wire: "blob"})))

	si := add(pk("ServerInfoPack", "0x6500", true, "NO common header: int24 Version, decimal Port, decimal UpTime, decimal KeepTime, text ServerName, map Attr (untagged: decimal count, count × (text key, tagged value))",
		[]FieldSpec{fi("Version", 24, "int24"), dec64("Port"), dec64("UpTime"), dec64("KeepTime"), text("ServerName"),
			mapvalue("Attr", true, "map body without the type tag: decimal count, count × (text key, tagged value)")}))
	si.NotCarried = []NotCarried{{"Pcode, Oid, Okind, Onode, Time", "Write does not emit the common header"}, {"Host", "never written"}}

	// ---------------------------------------------------------------- unregistered packs
	add(pk("ProfileStepSplitPack", "0x0302", false, hdrLayout+", byte 0 (version), int64 Txid, decimal Inx, blob Steps",
		withHdr(i64("Txid"), fi("Inx", 64, "decimal (int field)"), blob("Steps"))))

	st := add(pk("StatTransactionPack", "0x0900", false, hdrLayout+", blob Records, decimal RecordCount", withHdr(recordBlobFields("TransactionRec", 64)...)))
	st.NotCarried = []NotCarried{{"Version", "selects the record layout SetRecords* writes (byte after each record's Hash); not a pack-level field"}}
	st1 := add(pk("StatTransactionPack1", "0x0901", false, hdrLayout+", blob Records, decimal RecordCount, byte 0 (version), decimal Spec",
		withHdr(append(recordBlobFields("TransactionRec", 64), fi("Spec", 64, "decimal (int field)"))...)))
	st1.NotCarried = st.NotCarried

	sg1 := add(pk("StatGeneralPack#1", "0x0911", false, "as StatGeneralPack, then blob{ decimal DataStartTime } — pack.NewStatGeneralPackType(0x0911)",
		append(append([]FieldSpec{}, sg.Fields...), dec64("DataStartTime"))))
	sg1.NotCarried = sg.NotCarried[1:]
	sg1.Internal = sg.Internal

	osCases := map[string]string{"1": "Linux", "2": "Window", "3": "Linux", "4": "Linux", "5": "Linux"}
	smb := add(pk("SMBasePack", "0x3008", false, "blob{ "+hdrLayout+", int32 IP, int16 OS, Cpu, byte count + count × Cpu, Memory, decimal UpTime, int64 EpochTime, byte 1 + tagged map Extra | byte 0 }",
		withHdr(i32("IP"),
			FieldSpec{Name: "OS", Kind: "int", Bits: 16, Wire: "int16", Note: "the reader knows Linux/OSX/AIX/HPUX (1,3,5,4: CpuLinux+MemoryLinux) and Window (2: CpuWindow+MemoryWindow); the populator draws from these"},
			FieldSpec{Name: "Cpu", Kind: "iface", NonNil: true, Select: "OS", Cases: osCases, Type: "Cpu", Wire: "blob{ Cpu<OS> }"},
			FieldSpec{Name: "CpuCore", Kind: "list", Max: 255, Elem: &FieldSpec{Kind: "iface", Select: "OS", Cases: osCases, Type: "Cpu"}, Wire: "byte count, count × blob{ Cpu<OS> }"},
			FieldSpec{Name: "Memory", Kind: "iface", NonNil: true, Select: "OS", Cases: osCases, Type: "Memory", Wire: "blob{ Memory<OS> }"},
			dec64("UpTime"), i64("EpochTime"),
			cond(mapvalue("Extra", false, "byte 1 + tagged map value | byte 0"), "Extra != nil and not empty"))))
	smb.Rules = []string{"the concrete Cpu/Memory type is not on the wire: the reader derives it from OS"}
	smo := add(pk("SMBasePack#otherOS", "0x3008", false, "as SMBasePack, with OS drawn from OS_SUNOS(6), OS_OPENBSD(7), OS_FREEBSD(8) and the Linux-shaped Cpu/Memory elements",
		append([]FieldSpec{}, smb.Fields...)))
	for i := range smo.Fields {
		if len(smo.Fields[i].Cases) > 0 || (smo.Fields[i].Elem != nil && len(smo.Fields[i].Elem.Cases) > 0) {
			other := map[string]string{"6": "Linux", "7": "Linux", "8": "Linux"}
			f := smo.Fields[i]
			if f.Elem != nil {
				e := *f.Elem
				e.Cases = other
				f.Elem = &e
			} else {
				f.Cases = other
			}
			smo.Fields[i] = f
		}
		if smo.Fields[i].Name == "OS" {
			smo.Fields[i].Note = "6, 7, 8: operating systems the package names (SM.go) but SMBasePack.Read has no case for"
		}
	}
	smo.Rules = smb.Rules

	add(pk("SMDiskPerfPack", "0x3001", false, hdrLayout+", int16 OS, decimal count, count × DiskPerf", withHdr(i16("OS"), listOf("Disk", "DiskPerf", "decimal", 0))))
	add(pk("SMNetPerfPack", "0x3002", false, hdrLayout+", int16 OS, decimal count, count × NetPerf", withHdr(i16("OS"), listOf("Net", "NetPerf", "decimal", 0))))
	add(pk("SMProcPerfPack", "0x3003", false, hdrLayout+", int16 OS, decimal count, count × ProcPerf", withHdr(i16("OS"), listOf("Proc", "ProcPerf", "decimal", 0))))
	add(pk("SMTCPPerfPack", "0x3004", false, hdrLayout+", decimal count, count × TCPPortPerf", withHdr(listOf("TCPPortPerf", "TCPPortPerf", "decimal", 0))))
	add(pk("SMLogEventPack", "0x3005", false, hdrLayout+", decimal count, count × SMLogEvent", withHdr(listOf("LogEvent", "SMLogEvent", "decimal", 0))))
	add(pk("SMDownCheckPack", "0x3006", false, hdrLayout+", byte ver, blob Records, decimal RecordCount",
		withHdr(append([]FieldSpec{note(u8("ver"), "private")}, recordBlobFields("DownCheckRec", 32)...)...)))
	add(pk("SMPingPack", "0x3012", false, "blob{ "+hdrLayout+", int32 IP, int16 OS, int16 Core }", withHdr(i32("IP"), i16("OS"), i16("Core"))))
	add(pk("SMExtension", "0x1600", false, hdrLayout+", byte ver, bool isProjectwide, tagged int-map header, tagged int-map values, tagged int-map meta",
		withHdr(note(u8("ver"), "private"), note(boolean("isProjectwide"), "private"),
			intmapvalue("header", true, "tagged int-map value"), intmapvalue("values", true, "tagged int-map value"), intmapvalue("meta", true, "tagged int-map value"))))

	// ---------------------------------------------------------------- elements with their own Write/Read
	add(el("CpuLinux", "blob{ 11 × float32 }", cpuLinuxFields))
	add(el("CpuWindow", "blob{ 4 × float32 }", []FieldSpec{f32("User"), f32("System"), f32("Idle"), f32("ProcessorQueueLength")}))
	add(el("CpuOSX", "blob{ 11 × float32 }", cpuLinuxFields))
	add(el("MemoryLinux", "blob{ decimals and float32s in field order }", []FieldSpec{dec64("Total"), dec64("Free"), dec64("Cached"), dec64("Used"), f32("Pused"),
		dec64("Available"), f32("Pavailable"), dec64("Buffers"), dec64("Shared"), dec64("SwapUsed"), f32("SwapPused"), dec64("SwapTotal"), f32("PageFault"),
		dec64("Slab"), dec64("SReclaimable"), dec64("SUnreclaim")}))
	add(el("MemoryWindow", "blob{ decimals and float32s in field order }", []FieldSpec{dec64("Total"), dec64("Free"), dec64("Cached"), dec64("Used"), f32("Pused"),
		dec64("Available"), f32("Pavailable"), f32("PageFault"), dec64("SwapUsed"), f32("SwapPused"), dec64("SwapTotal"), dec64("PoolPagedBytes"), dec64("PoolNonpagedBytes")}))
	add(el("DiskPerf", "blob{ …, int32 1 (where Count would be), … }", []FieldSpec{i32("DeviceID"), i32("MountPoint"), i32("FileSystem"), dec64("FreeSpace"), dec64("UsedSpace"), dec64("TotalSpace"),
		f32("FreePercent"), f32("UsedPercent"), i32("Blksize"), f64("ReadIops"), f64("WriteIops"), f64("ReadBps"), f64("WriteBps"), f32("IOPercent"),
		f32("QueueLength"), dec64("InodeTotal"), dec64("InodeUsed"), f32("InodeUsedPercent"), i32("MountOption")})).
		NotCarried = []NotCarried{{"Count", "the writer emits the constant 1 in its place"}}
	add(el("NetPerf", "blob{ int32 Desc, blob IP, text HwAddr, 8 × float64, int32 1 (where Count would be) }", []FieldSpec{i32("Desc"), blob("IP"), text("HwAddr"), f64("TrafficIn"), f64("TrafficOut"),
		f64("PacketIn"), f64("PacketOut"), f64("ErrorOut"), f64("ErrorIn"), f64("DroppedOut"), f64("DroppedIn")})).
		NotCarried = []NotCarried{{"Count", "the writer emits the constant 1 in its place"}}
	add(el("ProcNetPerf", "blob{ int32 IP, int16 Port, int32 Count }", []FieldSpec{i32("IP"), i16("Port"), i32("Count")}))
	add(el("ProcFilePerf", "blob{ int32 FilePath, int64 Size }", []FieldSpec{i32("FilePath"), i64("Size")}))
	add(el("ProcPerf", "blob{ …, decimal count + count × ProcNetPerf, decimal count + count × ProcFilePerf, decimal MemoryShared, decimal OpenFileDescriptors }",
		[]FieldSpec{i32("Ppid"), i32("Pid"), f32("Cpu"), dec64("MemoryBytes"), f32("MemoryPercent"), f32("ReadBps"), f32("WriteBps"), i32("Cmd1"), i32("Cmd2"),
			f32("ReadIops"), f32("WriteIops"), i32("User"), i32("State"), i64("CreateTime"), dec64("Group"),
			listOf("Net", "ProcNetPerf", "decimal", 0), listOf("File", "ProcFilePerf", "decimal", 0), dec64("MemoryShared"), dec64("OpenFileDescriptors")}))
	add(el("TCPPortPerf", "blob{ int32 Port, bool IsAlive }", []FieldSpec{i32("Port"), boolean("IsAlive")}))
	add(el("SMLogEvent", "blob{ byte EventSource, byte Severity, text FilePath, text LogContent, text WinLogFile, int32 WinType, text WinSourceName, int32 WinEventCode, int64 WinCreateTime, text Keyword, text LogRule }",
		[]FieldSpec{u8("EventSource"), u8("Severity"), strptr("FilePath", false), strptr("LogContent", false), strptr("WinLogFile", false), i32("WinType"),
			strptr("WinSourceName", false), i32("WinEventCode"), i64("WinCreateTime"), strptr("Keyword", true), strptr("LogRule", true)}))
	add(el("HttpcRec", "int32 Url Host Port, decimals CountTotal CountError, decimal -1 (version), decimals TimeSum TimeStd TimeMin TimeMax, decimal Service",
		[]FieldSpec{i32("Url"), i32("Host"), i32("Port"), dec32("CountTotal"), dec32("CountError"), dec64("TimeSum"), dec64("TimeStd"), dec32("TimeMin"), dec32("TimeMax"), dec32("Service")}))
	add(el("SqlRec", "int32 Dbc Sql, byte SqlCrud, decimals CountTotal CountError, decimal -1 (version), decimals TimeSum TimeStd TimeMin TimeMax FetchCount FetchTime UpdateCount, decimal Service",
		[]FieldSpec{i32("Dbc"), i32("Sql"), u8("SqlCrud"), dec32("CountTotal"), dec32("CountError"), dec64("TimeSum"), dec64("TimeStd"), dec32("TimeMin"), dec32("TimeMax"),
			dec64("FetchCount"), dec64("FetchTime"), dec64("UpdateCount"), dec32("Service")}))
	add(el("TimeCount", "decimals Count Error Time", []FieldSpec{dec32("Count"), dec32("Error"), dec64("Time")}))

	// ---------------------------------------------------------------- records (written by helper functions of their pack)
	add(rec("ErrorRec", "StatErrorPack.WriteRec -> StatErrorPack.ReadRec (canary suffix) -> WriteRec", "int32 ClassHash, int32 Service, int64 SnapSeq, decimal Msg, decimal Count",
		[]FieldSpec{i32("ClassHash"), i32("Service"), i64("SnapSeq"), dec32("Msg"), dec32("Count")}))
	add(rec("ServiceRec", "StatServicePack.WriteRec -> pack.ReadRec (canary suffix) -> WriteRec", "int32 Hash, bool Profiled, 26 decimals in field order, SqlMap, HttpcMap",
		[]FieldSpec{i32("Hash"), boolean("Profiled"), dec32("Count"), dec32("Error"), dec32("Actived"), dec64("TimeSum"), dec64("TimeStd"), dec32("TimeMin"), dec32("TimeMax"),
			dec32("SqlCount"), dec64("SqlTime"), dec32("SqlFetch"), dec64("SqlFetchTime"), dec32("SqlUpdateRecord"), dec32("SqlCommitCount"),
			dec32("SqlSelect"), dec32("SqlUpdate"), dec32("SqlDelete"), dec32("SqlInsert"), dec32("SqlOthers"), dec32("HttpcCount"), dec64("HttpcTime"),
			dec64("MallocSum"), dec64("CpuSum"), dec32("Status200"), dec32("Status300"), dec32("Status400"), dec32("Status500"),
			timeCountMap("SqlMap"), timeCountMap("HttpcMap")}))
	add(transactionRec(2))
	add(transactionRec(3))
	add(transactionRec(4))
	add(rec("DownCheckRec", "SMDownCheckPack.WriteRec -> SMDownCheckPack.ReadRec (canary suffix) -> WriteRec", "text Name, text Host, int32 Port, bool Ok",
		[]FieldSpec{text("Name"), text("Host"), i32("Port"), boolean("Ok")}))

	// ---------------------------------------------------------------- helper structs (no codec of their own; members of the types above)
	helper := func(name string, fs []FieldSpec) {
		add(&TypeSpec{Name: name, Class: "member", Via: "inside its parent", Layout: "see parent", Fields: fs})
	}
	helper("TextRec", []FieldSpec{u8("Div"), i32("Hash"), text("Text")})
	helper("NETSTAT", []FieldSpec{dec32("Est"), dec32("FinW"), dec32("CloW"), dec32("TimW")})
	helper("WEBSOCKET", []FieldSpec{dec32("Count"), dec64("In"), dec64("Out")})
	helper("TxMeter", []FieldSpec{dec64("Time"), dec32("Count"), dec32("Error"), dec32("Actx")})
	helper("HttpcMeter", []FieldSpec{dec64("Time"), dec32("Count"), dec32("Error"), dec32("Actx")})
	helper("SqlMeter", []FieldSpec{dec64("Time"), dec32("Count"), dec32("Error"), dec32("Actx"), dec64("FetchCount"), dec64("FetchTime")})
	helper("PKIND", []FieldSpec{dec64("PCode"), dec32("OKind")})
	helper("POID", []FieldSpec{dec64("PCode"), dec32("Oid")})

	m.index()
	return m
}
