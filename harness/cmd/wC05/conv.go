package main

// Neutral reference struct -> the real golib pack (a fresh object on every call; slices are
// copied so that the neutral struct stays the oracle's private copy).

import (
	"reflect"
	"unsafe"

	"github.com/whatap/golib/lang"
	"github.com/whatap/golib/lang/pack"
	"github.com/whatap/golib/lang/value"
	"github.com/whatap/golib/util/hmap"

	"verif/refcodec"
	"verif/valgen"
)

func setHeader(a *pack.AbstractPack, h refcodec.RefHeader) {
	a.Pcode, a.Oid, a.Okind, a.Onode, a.Time = h.Pcode, h.Oid, h.Okind, h.Onode, h.Time
}

func toMap(v refcodec.V) *value.MapValue { return valgen.ToGolib(v).(*value.MapValue) }

// setPrivateInt64 writes an unexported int64 field (TagCountPack.tagHash has no setter; it
// is otherwise only filled by Read or by the first Write).
func setPrivateInt64(ptr interface{}, field string, v int64) {
	f := reflect.ValueOf(ptr).Elem().FieldByName(field)
	*(*int64)(unsafe.Pointer(f.UnsafeAddr())) = v
}

func toTagCount(p *refcodec.RefTagCountPack) pack.Pack {
	g := pack.NewTagCountPack()
	setHeader(&g.AbstractPack, p.RefHeader)
	g.Category = p.Category
	if p.TagHash != 0 {
		setPrivateInt64(g, "tagHash", p.TagHash)
	}
	g.Tags = toMap(p.Tags)
	g.Data = toMap(p.Data)
	return g
}

func toLogSink(p *refcodec.RefLogSinkPack) pack.Pack {
	g := pack.NewLogSinkPack()
	setHeader(&g.AbstractPack, p.RefHeader)
	g.Category = p.Category
	g.TagHash = p.TagHash
	g.Tags = toMap(p.Tags)
	g.Line = p.Line
	g.Content = p.Content
	if p.Fields == nil {
		g.Fields = nil
	} else {
		g.Fields = toMap(*p.Fields)
	}
	return g
}

func toText(p *refcodec.RefTextPack, bulk bool) pack.Pack {
	g := pack.NewTextPack()
	setHeader(&g.AbstractPack, p.RefHeader)
	if bulk {
		recs := make([]pack.TextRec, 0, len(p.Records))
		for _, r := range p.Records {
			recs = append(recs, pack.TextRec{Div: r.Div, Hash: r.Hash, Text: r.Text})
		}
		g.AddTexts(recs)
	} else {
		for _, r := range p.Records {
			g.AddText(pack.TextRec{Div: r.Div, Hash: r.Hash, Text: r.Text})
		}
	}
	return g
}

func toParam(p *refcodec.RefParamPack) pack.Pack {
	g := pack.NewParamPack()
	setHeader(&g.AbstractPack, p.RefHeader)
	g.Id, g.Request, g.Response = p.Id, p.Request, p.Response
	for i, k := range p.Keys {
		g.Put(k, valgen.ToGolib(p.Vals[i]))
	}
	return g
}

func toEvent(p *refcodec.RefEventPack) pack.Pack {
	g := pack.NewEventPack()
	setHeader(&g.AbstractPack, p.RefHeader)
	g.Uuid, g.Escalation, g.Level, g.Title, g.Message = p.Uuid, p.Escalation, p.Level, p.Title, p.Message
	g.Status, g.Otype = p.Status, p.Otype
	for i, k := range p.AttrKeys {
		g.Attr.Put(k, p.AttrVals[i])
	}
	return g
}

func toZip(p *refcodec.RefZipPack) pack.Pack {
	g := pack.NewZipPack()
	setHeader(&g.AbstractPack, p.RefHeader)
	g.Status = p.Status
	g.RecordCount = int(p.RecordCount)
	if p.Records != nil {
		g.Records = append(make([]byte, 0, len(p.Records)), p.Records...)
	}
	return g
}

func toHitMap(p *refcodec.RefHitMapPack) pack.Pack {
	g := pack.NewHitMapPack1()
	setHeader(&g.AbstractPack, p.RefHeader)
	copy(g.Hit, p.Hit)
	copy(g.Error, p.Error)
	return g
}

func cloneShorts(v []int16) []int16 {
	if v == nil {
		return nil
	}
	return append(make([]int16, 0, len(v)), v...)
}

func txMeter(m refcodec.RefTxMeter, acts []int16) pack.TxMeter {
	return pack.TxMeter{Time: m.Time, Count: m.Count, Error: m.Error, Actx: m.Actx, Acts: acts}
}

func intIntMap(m []refcodec.RefIntPair) *hmap.IntIntMap {
	g := hmap.NewIntIntMapDefault()
	for _, x := range m {
		g.Put(x.K, x.V)
	}
	return g
}

// toCounter: acts is a short array hung on some meters — the layout has no place for it, so
// it must not change a byte.
func toCounter(p *refcodec.RefCounterPack, acts []int16) pack.Pack {
	return fillCounter(pack.NewCounterPack1(), p, acts)
}

// fillCounter assigns every exported field of an existing counter pack from the neutral
// struct (sections the struct does not have are set to nil).
func fillCounter(g *pack.CounterPack1, p *refcodec.RefCounterPack, acts []int16) *pack.CounterPack1 {
	setHeader(&g.AbstractPack, p.RefHeader)
	g.DbNumActive, g.DbNumIdle, g.Netstat, g.Websocket, g.Extra = nil, nil, nil, nil, nil
	g.TxcallerOidMeter, g.SqlMeter, g.HttpcMeter, g.TxcallerGroupMeter, g.TxcallerUnknown, g.TxcallerPOidMeter = nil, nil, nil, nil, nil, nil
	g.Duration, g.Cputime = p.Duration, p.Cputime
	g.HeapTot, g.HeapUse, g.HeapPerm, g.HeapPendingFinalization = p.HeapTot, p.HeapUse, p.HeapPerm, p.HeapPendingFinalization
	g.GcCount, g.GcTime = p.GcCount, p.GcTime
	g.ServiceCount, g.ServiceError, g.ServiceTime = p.ServiceCount, p.ServiceError, p.ServiceTime
	g.SqlCount, g.SqlError, g.SqlTime, g.SqlFetchCount, g.SqlFetchTime = p.SqlCount, p.SqlError, p.SqlTime, p.SqlFetchCount, p.SqlFetchTime
	g.HttpcCount, g.HttpcError, g.HttpcTime = p.HttpcCount, p.HttpcError, p.HttpcTime
	g.ActSvcCount = p.ActSvcCount
	g.ActSvcSlice = cloneShorts(p.ActSvcSlice)
	g.Cpu, g.CpuSys, g.CpuUsr, g.CpuWait, g.CpuSteal, g.CpuIrq = p.Cpu, p.CpuSys, p.CpuUsr, p.CpuWait, p.CpuSteal, p.CpuIrq
	g.CpuProc, g.CpuCores = p.CpuProc, p.CpuCores
	g.Mem, g.Swap, g.Disk = p.Mem, p.Swap, p.Disk
	g.ThreadTotalStarted, g.ThreadCount, g.ThreadDaemon, g.ThreadPeakCount = p.ThreadTotalStarted, p.ThreadCount, p.ThreadDaemon, p.ThreadPeakCount
	if p.HasDbNumActive {
		g.DbNumActive = intIntMap(p.DbNumActive)
	}
	if p.HasDbNumIdle {
		g.DbNumIdle = intIntMap(p.DbNumIdle)
	}
	if p.Netstat != nil {
		g.Netstat = &pack.NETSTAT{Est: p.Netstat.Est, FinW: p.Netstat.FinW, CloW: p.Netstat.CloW, TimW: p.Netstat.TimW}
	}
	g.ProcFd, g.Tps, g.RespTime, g.ApType = p.ProcFd, p.Tps, p.RespTime, p.ApType
	if p.Websocket != nil {
		g.Websocket = &pack.WEBSOCKET{Count: p.Websocket.Count, In: p.Websocket.In, Out: p.Websocket.Out}
	}
	g.Starttime, g.PackDropped, g.HostIp, g.MacHash = p.Starttime, p.PackDropped, p.HostIp, p.MacHash
	if p.Extra != nil {
		g.Extra = valgen.ToGolib(*p.Extra).(*value.IntMapValue)
	}
	g.Pid = p.Pid
	g.ActiveStat = cloneShorts(p.ActiveStat)
	g.ThreadPoolActiveCount, g.ThreadPoolQueueSize = p.ThreadPoolActiveCount, p.ThreadPoolQueueSize
	if p.HasTxcallerOidMeter {
		g.TxcallerOidMeter = hmap.NewIntKeyLinkedMapDefault()
		for _, m := range p.TxcallerOidMeter {
			t := txMeter(m.RefTxMeter, acts)
			g.TxcallerOidMeter.Put(m.Key, &t)
		}
	}
	if p.HasSqlMeter {
		g.SqlMeter = hmap.NewIntKeyLinkedMapDefault()
		for _, m := range p.SqlMeter {
			g.SqlMeter.Put(m.Key, &pack.SqlMeter{TxMeter: txMeter(m.RefTxMeter, nil), FetchCount: m.FetchCount, FetchTime: m.FetchTime})
		}
	}
	if p.HasHttpcMeter {
		g.HttpcMeter = hmap.NewIntKeyLinkedMapDefault()
		for _, m := range p.HttpcMeter {
			g.HttpcMeter.Put(m.Key, &pack.HttpcMeter{TxMeter: txMeter(m.RefTxMeter, nil)})
		}
	}
	if p.HasTxcallerGroupMeter {
		g.TxcallerGroupMeter = hmap.NewLinkedMapDefault()
		for _, m := range p.TxcallerGroupMeter {
			t := txMeter(m.RefTxMeter, nil)
			g.TxcallerGroupMeter.Put(lang.NewPKIND(m.Pcode, m.Okind), &t)
		}
	}
	if p.TxcallerUnknown != nil {
		t := txMeter(*p.TxcallerUnknown, nil)
		g.TxcallerUnknown = &t
	}
	g.ContainerKey = p.ContainerKey
	g.TxDbcTime, g.TxSqlTime, g.TxHttpcTime = p.TxDbcTime, p.TxSqlTime, p.TxHttpcTime
	g.ApdexSatisfied, g.ApdexTolerated = p.ApdexSatisfied, p.ApdexTolerated
	g.ArrivalRate = p.ArrivalRate
	g.GcOldgenCount = p.GcOldgenCount
	g.Version = p.Version
	g.HeapMax = p.HeapMax
	g.ProcFdMax = p.ProcFdMax
	g.Metering = p.Metering
	g.ApdexTotal = p.ApdexTotal
	if p.HasTxcallerPOidMeter {
		g.TxcallerPOidMeter = hmap.NewLinkedMapDefault()
		for _, m := range p.TxcallerPOidMeter {
			t := txMeter(m.RefTxMeter, acts)
			g.TxcallerPOidMeter.Put(lang.NewPOID(m.Pcode, m.Oid), &t)
		}
	}
	g.Resp90, g.Resp95, g.TimeSqrSum = p.Resp90, p.Resp95, p.TimeSqrSum
	g.CollectIntervalMs = 5000 // transient: never on the wire
	return g
}
