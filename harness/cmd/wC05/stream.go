package main

// Recording peer and stream oracle shared by the concurrency, history and fault sections.
//
// The peer is a loopback TCP listener that keeps, per accepted connection, every byte it
// received. A connection may carry a cut plan: after exactly N received bytes the peer ends it
// (reset with SO_LINGER 0, or an orderly close) and never reads further. The oracle is purely
// about bytes: each connection's stream must be a sequence of whole frames (source byte 10,
// version byte 0, project code, license hash, length, payload of exactly that length), each
// equal to the reference frame of a pack that was handed to the client; only the last frame
// of a connection that was cut (or on which the client reported an error) may be incomplete,
// and then it must be the beginning of such a reference frame.

import (
	"bytes"
	"encoding/binary"
	"fmt"
	"net"
	"sync"
	"syscall"
	"time"

	"verif/refcodec"
	"verif/vlib"
)

type cutPlan struct {
	after int  // end the connection after exactly this many received bytes (<0: never)
	rst   bool // reset (SO_LINGER 0) instead of an orderly close
}

type peerConn struct {
	idx   int
	mu    sync.Mutex
	data  []byte
	cut   bool  // the peer itself ended this connection
	rerr  error // how the peer's read ended when it was not cut (nil = EOF)
	done  chan struct{}
	plan  cutPlan
	isBar bool // the harness's own barrier connection
}

type peer struct {
	ln         net.Listener
	addr       string
	mu         sync.Mutex
	conns      []*peerConn
	plans      []cutPlan
	barAddr    string
	acceptDone chan struct{}
	watch      []byte        // a frame whose arrival is announced on watchSeen
	watchSeen  chan struct{} // closed once
	watchOnce  sync.Once
}

// newPeer listens on loopback. rcvbuf > 0 asks for a small receive buffer on the accepted
// sockets, so that a sender of a large frame is really held up by a peer that stopped reading.
func newPeer(plans []cutPlan, rcvbuf int) (*peer, error) {
	lc := net.ListenConfig{}
	if rcvbuf > 0 {
		lc.Control = func(network, address string, rc syscall.RawConn) error {
			return rc.Control(func(fd uintptr) {
				syscall.SetsockoptInt(int(fd), syscall.SOL_SOCKET, syscall.SO_RCVBUF, rcvbuf)
			})
		}
	}
	ln, err := lc.Listen(nil, "tcp", "127.0.0.1:0")
	if err != nil {
		return nil, err
	}
	p := &peer{ln: ln, addr: ln.Addr().String(), plans: plans, acceptDone: make(chan struct{}), watchSeen: make(chan struct{})}
	go p.acceptLoop()
	return p, nil
}

func (p *peer) acceptLoop() {
	defer close(p.acceptDone)
	for {
		conn, err := p.ln.Accept()
		if err != nil {
			return
		}
		p.mu.Lock()
		if p.barAddr != "" && conn.RemoteAddr().String() == p.barAddr {
			p.mu.Unlock()
			conn.Close()
			p.ln.Close()
			return
		}
		pc := &peerConn{idx: len(p.conns), done: make(chan struct{}), plan: cutPlan{after: -1}}
		if pc.idx < len(p.plans) {
			pc.plan = p.plans[pc.idx]
		}
		p.conns = append(p.conns, pc)
		p.mu.Unlock()
		go p.serve(conn, pc)
	}
}

func (p *peer) setWatch(frame []byte) {
	p.mu.Lock()
	p.watch = frame
	p.mu.Unlock()
}

func (p *peer) serve(conn net.Conn, pc *peerConn) {
	defer close(pc.done)
	buf := make([]byte, 256*1024)
	got := 0
	for {
		if pc.plan.after >= 0 && got >= pc.plan.after {
			pc.mu.Lock()
			pc.cut = true
			pc.mu.Unlock()
			if pc.plan.rst {
				if tc, ok := conn.(*net.TCPConn); ok {
					tc.SetLinger(0)
				}
			}
			conn.Close()
			return
		}
		b := buf
		if pc.plan.after >= 0 && pc.plan.after-got < len(b) {
			b = b[:pc.plan.after-got]
		}
		n, err := conn.Read(b)
		if n > 0 {
			p.mu.Lock()
			w := p.watch
			p.mu.Unlock()
			pc.mu.Lock()
			old := len(pc.data)
			pc.data = append(pc.data, b[:n]...)
			if w != nil {
				from := old - len(w) + 1
				if from < 0 {
					from = 0
				}
				if bytes.Contains(pc.data[from:], w) {
					p.watchOnce.Do(func() { close(p.watchSeen) })
				}
			}
			pc.mu.Unlock()
			got += n
		}
		if err != nil {
			pc.mu.Lock()
			if err.Error() != "EOF" {
				pc.rerr = err
			}
			pc.mu.Unlock()
			conn.Close()
			return
		}
	}
}

// finish is called after the client has closed its connection: a barrier connection of the
// harness (accept order is connect order) tells the accept loop that every connection of the
// client has been accepted; then all of them are read to their end. ok=false: a watchdog fired.
func (p *peer) finish() (conns []*peerConn, ok bool) {
	p.mu.Lock()
	bc, err := net.Dial("tcp", p.addr)
	if err == nil {
		p.barAddr = bc.LocalAddr().String()
	}
	p.mu.Unlock()
	if err != nil {
		p.ln.Close()
	}
	t := time.NewTimer(watchdog)
	defer t.Stop()
	select {
	case <-p.acceptDone:
	case <-t.C:
		p.ln.Close()
		return nil, false
	}
	if bc != nil {
		bc.Close()
	}
	p.mu.Lock()
	conns = append(conns, p.conns...)
	p.mu.Unlock()
	for _, pc := range conns {
		select {
		case <-pc.done:
		case <-t.C:
			return conns, false
		}
	}
	return conns, true
}

// abandon closes the listener without waiting (after an anomaly).
func (p *peer) abandon() { p.ln.Close() }

// ---- what was handed to the client -----------------------------------------------------------

type sentPack struct {
	id       int64 // unique inside the scenario; travels as the pack header's time
	x        *expectation
	frame    []byte
	lic      string
	who      string // "sender 3 #17 Send+WithLicense"
	accepted bool   // the send call returned nil
	errText  string
	seen     int
}

type sentIndex struct {
	all    []*sentPack
	byHash map[uint64][]*sentPack
	byID   map[int64]*sentPack
	maxLen int // longest reference payload
}

func newSentIndex(all []*sentPack) *sentIndex {
	ix := &sentIndex{all: all, byHash: map[uint64][]*sentPack{}, byID: map[int64]*sentPack{}}
	for _, s := range all {
		h := vlib.HashBytes(s.frame)
		ix.byHash[h] = append(ix.byHash[h], s)
		ix.byID[s.id] = s
		if len(s.x.payload) > ix.maxLen {
			ix.maxLen = len(s.x.payload)
		}
	}
	return ix
}

func (ix *sentIndex) exact(frame []byte) *sentPack {
	for _, s := range ix.byHash[vlib.HashBytes(frame)] {
		if bytes.Equal(s.frame, frame) {
			return s
		}
	}
	return nil
}

// payloadID reads the unique id (the common header's time) out of a payload with the
// independent reference reader.
func payloadID(payload []byte) (id int64, ok bool) {
	defer func() {
		if recover() != nil {
			ok = false
		}
	}()
	rd := refcodec.NewR(payload)
	rd.I16()
	long := false
	if rd.Left() > 0 && payload[rd.Off] == 9 {
		rd.U8()
		long = true
	}
	if _, dok := rd.Decimal(); !dok {
		return 0, false
	}
	rd.I32()
	if long {
		rd.I32()
		rd.I32()
	}
	id = rd.I64()
	if rd.Short {
		return 0, false
	}
	return id, true
}

// prefixOfSome tells whether tail is the beginning of the reference frame of a sent pack.
func (ix *sentIndex) prefixOfSome(tail []byte) *sentPack {
	for _, s := range ix.all {
		if len(tail) <= len(s.frame) && bytes.Equal(s.frame[:len(tail)], tail) {
			return s
		}
	}
	return nil
}

// headerOfSome returns the sent pack whose reference frame starts with these 22 header bytes.
func (ix *sentIndex) headerOfSome(h []byte) *sentPack {
	for _, s := range ix.all {
		if bytes.Equal(s.frame[:22], h) {
			return s
		}
	}
	return nil
}

// closest returns the sent pack whose reference frame shares the longest prefix with frame.
func (ix *sentIndex) closest(frame []byte) (*sentPack, int) {
	var best *sentPack
	bl := -1
	for _, s := range ix.all {
		d := firstDiff(s.frame, frame)
		if d < 0 {
			d = len(frame)
		}
		if d > bl {
			best, bl = s, d
		}
	}
	return best, bl
}

type streamOpts struct {
	label        string             // scenario description for the replay file
	sfx          func(conn int) string // key suffix for findings on that connection
	tailAllowed  func(pc *peerConn) bool
	exactlyOnce  bool // a pack may not arrive twice
	wantAll      bool // every accepted pack must have arrived (only decided by the caller when no error was reported and no watchdog fired)
	extra        map[string]interface{}
	maxFailures  int
	countPrefix  string
}

type streamStats struct {
	frames, matched, bytes int64
	partialTails           int
	failures               int
}

func headerHex(b []byte) string {
	if len(b) > 22 {
		b = b[:22]
	}
	return fmt.Sprintf("%x", b)
}

// checkStreams applies the stream oracle to every connection.
func checkStreams(c *vlib.Ctx, conns []*peerConn, ix *sentIndex, o streamOpts) streamStats {
	var st streamStats
	if o.maxFailures == 0 {
		o.maxFailures = 3
	}
	fail := func(key, what string, detail map[string]interface{}) {
		st.failures++
		if st.failures > o.maxFailures {
			return
		}
		detail["scenario"] = o.label
		for k, v := range o.extra {
			detail[k] = v
		}
		c.Fail(key, what, detail)
	}
	for _, pc := range conns {
		pc.mu.Lock()
		data := pc.data
		pc.mu.Unlock()
		st.bytes += int64(len(data))
		sfx := o.sfx(pc.idx)
		off := 0
		prev := "start of the connection"
		for off < len(data) {
			rest := data[off:]
			// the bytes of a frame header that are present must be well-formed
			bad := ""
			if rest[0] != 10 {
				bad = fmt.Sprintf("source byte is %#02x, not 0x0a", rest[0])
			} else if len(rest) > 1 && rest[1] != 0 {
				bad = fmt.Sprintf("version byte is %#02x, not 0x00", rest[1])
			}
			ln := -1
			if bad == "" && len(rest) >= 22 {
				ln = int(int32(binary.BigEndian.Uint32(rest[18:22])))
				if ln < 2 {
					bad = fmt.Sprintf("length field %d cannot hold a pack type", ln)
					ln = -1
				} else if ln > ix.maxLen {
					bad = fmt.Sprintf("length field %d exceeds the longest payload handed to the client (%d)", ln, ix.maxLen)
					ln = -1
				}
			}
			if bad != "" {
				cl, common := ix.closest(rest[:mini(len(rest), 22+ix.maxLen)])
				d := map[string]interface{}{"connection": pc.idx, "stream_offset": off, "after": prev,
					"bytes_at_offset": window(data, off), "connection_bytes": len(data), "cut_by_peer": pc.cut}
				if cl != nil {
					d["closest_sent_pack"] = cl.who
					d["common_prefix_with_its_frame"] = common
				}
				fail("frame.stream:not-well-formed"+sfx,
					fmt.Sprintf("connection %d, offset %d (%s): no frame header here: %s; bytes %s", pc.idx, off, prev, bad, headerHex(rest)), d)
				break
			}
			if ln < 0 || len(rest) < 22+ln {
				// incomplete last frame
				st.partialTails++
				if !o.tailAllowed(pc) {
					fail("frame.stream:truncated"+sfx,
						fmt.Sprintf("connection %d ends %d bytes into a frame (offset %d, %s) although the client closed it without reporting an error", pc.idx, len(rest), off, prev),
						map[string]interface{}{"connection": pc.idx, "stream_offset": off, "tail_len": len(rest), "tail_head": headerHex(rest)})
				} else if ix.prefixOfSome(rest) == nil {
					cl, common := ix.closest(rest)
					d := map[string]interface{}{"connection": pc.idx, "stream_offset": off, "tail_len": len(rest), "tail_head": headerHex(rest)}
					if cl != nil {
						d["closest_sent_pack"] = cl.who
						d["common_prefix_with_its_frame"] = common
						d["expected_window"] = window(cl.frame, common)
						d["actual_window"] = window(rest, common)
					}
					fail("frame.stream:partial-frame-differs"+sfx,
						fmt.Sprintf("connection %d: the %d bytes before the cut (offset %d) are not the beginning of the reference frame of any pack handed to the client", pc.idx, len(rest), off), d)
				}
				break
			}
			frame := rest[:22+ln]
			st.frames++
			s := ix.exact(frame)
			if s == nil {
				// not a reference frame: name the pack it belongs to (by its id) and the field
				var owner *sentPack
				if id, ok := payloadID(frame[22:]); ok {
					owner = ix.byID[id]
				}
				if owner == nil {
					owner, _ = ix.closest(frame)
					if owner != nil && firstDiff(owner.frame, frame) < 22 {
						owner = nil
					}
				}
				d := -1
				if owner != nil {
					d = firstDiff(owner.frame, frame)
					owner.seen++ // it did arrive (differing): not to be reported as missing as well
				}
				if owner != nil && d >= 22 && len(frame)-d >= 22 && frame[d] == 10 && frame[d+1] == 0 && ix.headerOfSome(frame[d:d+22]) != nil {
					// the frame of one pack is cut short by the frame header of another one
					other := ix.headerOfSome(frame[d : d+22])
					fail("frame.stream:interleaved"+sfx,
						fmt.Sprintf("connection %d, offset %d: %d bytes into the frame of %s the frame header of %s begins (the length field of the first frame announces %d bytes)", pc.idx, off, d, owner.who, other.who, ln),
						map[string]interface{}{"connection": pc.idx, "stream_offset": off, "offset_in_frame": d, "frame_of": owner.who, "interrupted_by": other.who,
							"expected_window": window(owner.frame, d), "actual_window": window(frame, d)})
				} else if owner != nil {
					x := *owner.x
					x.sfx = sfx
					extra := map[string]interface{}{"scenario": o.label, "connection": pc.idx, "stream_offset": off, "sent_as": owner.who}
					for k, v := range o.extra {
						extra[k] = v
					}
					st.failures++
					if st.failures <= o.maxFailures {
						diffStream(c, &x, []sendPlan{{lic: owner.lic}}, [][]byte{owner.frame}, frame, extra)
					}
				} else {
					fail("frame:matches-no-sent-pack"+sfx,
						fmt.Sprintf("connection %d, offset %d: a well-delimited frame of %d bytes equals the reference frame of no pack handed to the client", pc.idx, off, len(frame)),
						map[string]interface{}{"connection": pc.idx, "stream_offset": off, "frame_head": window(frame, 0)})
				}
			} else {
				st.matched++
				s.seen++
				if o.exactlyOnce && s.seen == 2 {
					fail("frame:duplicate"+sfx,
						fmt.Sprintf("the frame of %s arrived twice (second time on connection %d, offset %d)", s.who, pc.idx, off),
						map[string]interface{}{"connection": pc.idx, "stream_offset": off, "sent_as": s.who})
				}
				prev = "after the frame of " + s.who
			}
			off += 22 + ln
		}
	}
	if o.wantAll {
		for _, s := range ix.all {
			if s.accepted && s.seen == 0 {
				fail("frame:missing"+o.sfx(0),
					fmt.Sprintf("%s was accepted by the client on a healthy connection, the client was drained and closed without an error, and its frame never arrived", s.who),
					map[string]interface{}{"sent_as": s.who})
				break
			}
			if !s.accepted && s.seen > 0 && o.exactlyOnce {
				fail("frame:unaccepted-arrived"+o.sfx(0),
					fmt.Sprintf("%s was refused by the client (%s) and its frame arrived nevertheless", s.who, s.errText),
					map[string]interface{}{"sent_as": s.who})
				break
			}
		}
	}
	return st
}

func mini(a, b int) int {
	if a < b {
		return a
	}
	return b
}
