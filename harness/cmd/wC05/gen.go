package main

// Generators of the NEUTRAL reference structs (refcodec.Ref*Pack). Everything is drawn from
// the case's own PRNG stream, boundary biased. Nothing here touches golib.

import (
	"math"
	"strings"

	"verif/refcodec"
	"verif/valgen"
	"verif/vlib"
)

// nz32 draws a non-zero 32-bit value (boundary biased).
func nz32(r *vlib.Rand) int32 {
	for {
		if v := r.I32(); v != 0 {
			return v
		}
	}
}

// genHeader: project code / object id / time over the whole width with the decimal class
// edges; kind and node both zero (short form) in half of the cases, otherwise every way the
// pair can be "not both zero" (one of them, both, opposite signs, disjoint bits, extremes).
func genHeader(r *vlib.Rand) refcodec.RefHeader {
	h := refcodec.RefHeader{Pcode: r.I64(), Oid: r.I32(), Time: r.I64()}
	switch r.Intn(12) {
	case 0, 1, 2, 3, 4, 5:
	case 6:
		h.Okind = nz32(r)
	case 7:
		h.Onode = nz32(r)
	case 8:
		h.Okind, h.Onode = nz32(r), nz32(r)
	case 9:
		x := nz32(r)
		h.Okind, h.Onode = x, -x // sum is zero (or both MinInt32)
	case 10:
		h.Okind, h.Onode = 1<<uint(r.Intn(16)), 1<<uint(16+r.Intn(15)) // disjoint bits
	case 11:
		e := []int32{math.MinInt32, math.MaxInt32, -1, 1}
		h.Okind, h.Onode = e[r.Intn(4)], e[r.Intn(4)]
	}
	return h
}

var bigLens = []int{65534, 65535, 65536, 65537}

// txt draws a text field: "", ASCII, multi-byte and invalid UTF-8, the 253/254/255/256
// thresholds (often) and the 65535/65536 thresholds (occasionally).
func txt(r *vlib.Rand) string {
	if r.Chance(1, 150) {
		return r.AsciiN(bigLens[r.Intn(len(bigLens))])
	}
	if r.Chance(1, 12) {
		return r.AsciiN([]int{252, 253, 254, 255, 256}[r.Intn(5)])
	}
	return r.Str(300)
}

// genLicense: empty, typical ASCII keys, UTF-8, long and very long strings.
func genLicense(r *vlib.Rand) string {
	switch r.Intn(10) {
	case 0:
		return ""
	case 1:
		return "x4" + r.AsciiN(20) + "-z" + r.AsciiN(20) + "-x" + r.AsciiN(20)
	case 2:
		return "라이선스-ключ-🔑-" + r.Ident()
	case 3:
		return strings.Repeat("L", r.Range(200, 5000))
	case 4:
		return r.Str(300)
	case 5:
		return string(rune('a' + r.Intn(26)))
	case 6:
		if r.Chance(1, 6) {
			return r.AsciiN(bigLens[r.Intn(len(bigLens))])
		}
		return r.AsciiN(r.Range(250, 260))
	default:
		return r.AsciiN(r.Range(1, 64))
	}
}

// genMap draws a map value through valgen: empty, flat text tags, or a general tree.
func genMap(r *vlib.Rand) refcodec.V {
	switch r.Intn(8) {
	case 0:
		return refcodec.V{Tag: refcodec.TMap}
	case 1, 2:
		// the common shape of tag maps: a few text / decimal entries
		n := r.Range(1, 6)
		v := refcodec.V{Tag: refcodec.TMap, Keys: valgen.StrKeys(r, n)}
		for range v.Keys {
			if r.Bool() {
				v.Vals = append(v.Vals, refcodec.V{Tag: refcodec.TText, S: txt(r)})
			} else {
				v.Vals = append(v.Vals, refcodec.V{Tag: refcodec.TDecimal, I: r.I64()})
			}
		}
		return v
	default:
		return valgen.GenTag(r, refcodec.TMap, r.Range(1, 3), r.Range(1, 10))
	}
}

func genTagHash(r *vlib.Rand) int64 {
	if r.Chance(1, 4) {
		return r.I64() // may be 0 again, which is fine
	}
	return 0
}

func genTagCount(r *vlib.Rand) *refcodec.RefTagCountPack {
	return &refcodec.RefTagCountPack{RefHeader: genHeader(r), Category: txt(r), TagHash: genTagHash(r),
		Tags: genMap(r), Data: genMap(r)}
}

func genLogSink(r *vlib.Rand) *refcodec.RefLogSinkPack {
	p := &refcodec.RefLogSinkPack{RefHeader: genHeader(r), Category: txt(r), TagHash: genTagHash(r),
		Tags: genMap(r), Line: r.I64(), Content: txt(r)}
	switch r.Intn(4) {
	case 0: // no field map object at all
	case 1:
		p.Fields = &refcodec.V{Tag: refcodec.TMap} // present but empty
	default:
		m := genMap(r)
		p.Fields = &m
	}
	return p
}

func genText(r *vlib.Rand) *refcodec.RefTextPack {
	p := &refcodec.RefTextPack{RefHeader: genHeader(r)}
	n := 0
	switch r.Intn(8) {
	case 0:
	case 1:
		n = 1
	case 2:
		n = []int{127, 128, 129, 255, 256}[r.Intn(5)]
	default:
		n = r.Range(0, 20)
	}
	for i := 0; i < n; i++ {
		rec := refcodec.RefTextRec{Div: byte(r.Intn(256)), Hash: r.I32()}
		if n > 30 {
			rec.Text = r.Str(24)
		} else {
			rec.Text = txt(r)
		}
		p.Records = append(p.Records, rec)
	}
	return p
}

func genParam(r *vlib.Rand) *refcodec.RefParamPack {
	p := &refcodec.RefParamPack{RefHeader: genHeader(r), Id: r.I32(), Request: r.I64(), Response: r.I64()}
	n := 0
	switch r.Intn(6) {
	case 0:
	case 1:
		n = []int{127, 128, 129}[r.Intn(3)]
	default:
		n = r.Range(0, 12)
	}
	p.Keys = valgen.StrKeys(r, n)
	for range p.Keys {
		if n > 20 {
			p.Vals = append(p.Vals, valgen.Leaf(r, 3))
		} else {
			p.Vals = append(p.Vals, valgen.Gen(r, r.Range(0, 2), r.Range(1, 6)))
		}
	}
	return p
}

var reservedEventKeys = []string{refcodec.EventKeyUUID, refcodec.EventKeyEscalation, refcodec.EventKeyStatus, refcodec.EventKeyOtype}

func genEvent(r *vlib.Rand) *refcodec.RefEventPack {
	p := &refcodec.RefEventPack{RefHeader: genHeader(r), Escalation: r.Bool(), Level: byte(r.Intn(256)),
		Title: txt(r), Message: txt(r), Status: r.I32(), Otype: r.I32()}
	if r.Chance(1, 3) {
		p.Level = []byte{0, 10, 20, 30}[r.Intn(4)]
	}
	if r.Chance(2, 3) {
		p.Uuid = r.Str(40)
	}
	n := 0
	switch r.Intn(8) {
	case 0:
	case 1:
		n = []int{250, 251}[r.Intn(2)] // 251 caller attributes + 4 reserved = 255, the one-byte limit
	case 2:
		n = []int{123, 124, 127, 128}[r.Intn(4)]
	default:
		n = r.Range(0, 10)
	}
	p.AttrKeys = valgen.StrKeys(r, n)
	for i, k := range p.AttrKeys { // a generated key that happens to be reserved would be a different case
		for _, rk := range reservedEventKeys {
			if k == rk {
				p.AttrKeys[i] = k + "x"
			}
		}
	}
	for range p.AttrKeys {
		if n > 30 {
			p.AttrVals = append(p.AttrVals, r.Str(16))
		} else {
			p.AttrVals = append(p.AttrVals, txt(r))
		}
	}
	// occasionally the caller already set some reserved keys (the pack's own fields must win)
	if n > 0 && r.Chance(1, 12) {
		perm := []int{0, 1, 2, 3}
		r.Shuffle(4, func(i, j int) { perm[i], perm[j] = perm[j], perm[i] })
		used := map[int]bool{}
		for _, ri := range perm[:r.Range(1, 4)] {
			at := r.Intn(n)
			if used[at] {
				continue
			}
			used[at] = true
			p.AttrKeys[at] = reservedEventKeys[ri]
		}
	}
	return p
}

func genZip(r *vlib.Rand) *refcodec.RefZipPack {
	p := &refcodec.RefZipPack{RefHeader: genHeader(r), Status: byte(r.Intn(256)), RecordCount: r.I64()}
	if r.Bool() {
		p.Status = byte(r.Intn(3))
	}
	if r.Bool() {
		p.RecordCount = int64(r.Intn(70000))
	}
	switch r.Intn(10) {
	case 0:
		p.Records = r.Bytes(append(bigLens, 70001)[r.Intn(5)])
	case 1:
		p.Records = r.Bytes([]int{252, 253, 254, 255, 256}[r.Intn(5)])
	default:
		p.Records = r.Blob(2000)
	}
	return p
}

var cellEdges = []int32{0, 1, 127, 128, 255, 256, 32767, 32768, 65534, 65535}

func genHitMap(r *vlib.Rand) *refcodec.RefHitMapPack {
	p := &refcodec.RefHitMapPack{RefHeader: genHeader(r), Hit: make([]int32, refcodec.HitMapLength), Error: make([]int32, refcodec.HitMapLength)}
	mode := r.Intn(5)
	cell := func() int32 {
		switch mode {
		case 0:
			return 0
		case 1:
			return cellEdges[r.Intn(len(cellEdges))]
		case 2:
			return int32(r.Intn(100))
		default:
			if r.Chance(1, 4) {
				return cellEdges[r.Intn(len(cellEdges))]
			}
			return int32(r.Intn(65536))
		}
	}
	for i := range p.Hit {
		p.Hit[i] = cell()
		p.Error[i] = cell()
	}
	if mode == 0 && r.Bool() { // one distinguishable cell in an otherwise empty map
		p.Hit[r.Intn(refcodec.HitMapLength)] = 1 + int32(r.Intn(65535))
		p.Error[r.Intn(refcodec.HitMapLength)] = 1 + int32(r.Intn(65535))
	}
	return p
}

func genShorts(r *vlib.Rand, usual int) []int16 {
	n := usual
	switch r.Intn(8) {
	case 0:
		return nil
	case 1:
		return []int16{}
	case 2:
		n = r.Range(0, 10)
	case 3:
		n = []int{127, 128, 254, 255}[r.Intn(4)]
	}
	v := make([]int16, n)
	for i := range v {
		v[i] = r.I16()
	}
	return v
}

func genTxMeter(r *vlib.Rand) refcodec.RefTxMeter {
	return refcodec.RefTxMeter{Time: r.I64(), Count: r.I32(), Error: r.I32(), Actx: r.I32()}
}

func meterCount(r *vlib.Rand) int {
	switch r.Intn(6) {
	case 0:
		return 0
	case 1:
		return 1
	case 2:
		return []int{127, 128, 129}[r.Intn(3)]
	default:
		return r.Range(0, 6)
	}
}

func genIntPairs(r *vlib.Rand) []refcodec.RefIntPair {
	n := 0
	switch r.Intn(6) {
	case 0:
	case 1:
		n = r.Range(100, 140) // across the default table's first growth
	default:
		n = r.Range(0, 8)
	}
	var out []refcodec.RefIntPair
	for _, k := range valgen.IntKeys(r, n) {
		out = append(out, refcodec.RefIntPair{K: k, V: r.I32()})
	}
	return out
}

func genCounter(r *vlib.Rand) *refcodec.RefCounterPack {
	p := &refcodec.RefCounterPack{RefHeader: genHeader(r)}
	p.Duration, p.Cputime = r.I32(), r.I64()
	p.HeapTot, p.HeapUse, p.HeapPerm, p.HeapPendingFinalization = r.I64(), r.I64(), r.I64(), r.I32()
	p.GcCount, p.GcTime = r.I32(), r.I64()
	p.ServiceCount, p.ServiceError, p.ServiceTime = r.I32(), r.I32(), r.I64()
	p.SqlCount, p.SqlError, p.SqlTime, p.SqlFetchCount, p.SqlFetchTime = r.I32(), r.I32(), r.I64(), r.I64(), r.I64()
	p.HttpcCount, p.HttpcError, p.HttpcTime = r.I32(), r.I32(), r.I64()
	p.ActSvcCount = r.I32()
	p.ActSvcSlice = genShorts(r, 3)
	p.Cpu, p.CpuSys, p.CpuUsr, p.CpuWait, p.CpuSteal, p.CpuIrq = r.F32(), r.F32(), r.F32(), r.F32(), r.F32(), r.F32()
	p.CpuProc, p.CpuCores = r.F32(), r.I32()
	p.Mem, p.Swap, p.Disk = r.F32(), r.F32(), r.F32()
	p.ThreadTotalStarted, p.ThreadCount, p.ThreadDaemon, p.ThreadPeakCount = r.I64(), r.I32(), r.I32(), r.I32()

	switch r.Intn(5) {
	case 0: // neither map
	case 1:
		p.HasDbNumActive, p.DbNumActive = true, genIntPairs(r) // only one of the two: section absent
	case 2:
		p.HasDbNumIdle, p.DbNumIdle = true, genIntPairs(r)
	default:
		p.HasDbNumActive, p.DbNumActive = true, genIntPairs(r)
		p.HasDbNumIdle, p.DbNumIdle = true, genIntPairs(r)
	}
	if r.Bool() {
		p.Netstat = &refcodec.RefNetstat{Est: r.I32(), FinW: r.I32(), CloW: r.I32(), TimW: r.I32()}
	}
	p.ProcFd, p.Tps, p.RespTime, p.ApType = r.I32(), r.F32(), r.I32(), r.I16()
	if r.Bool() {
		p.Websocket = &refcodec.RefWebsocket{Count: r.I32(), In: r.I64(), Out: r.I64()}
	}
	p.Starttime, p.PackDropped, p.HostIp, p.MacHash = r.I64(), r.I64(), r.I32(), r.I32()
	if r.Bool() {
		m := valgen.GenTag(r, refcodec.TIntMap, r.Range(0, 2), r.Range(1, 8))
		p.Extra = &m
	}
	p.Pid = r.I32()
	p.ActiveStat = genShorts(r, 5)
	p.ThreadPoolActiveCount, p.ThreadPoolQueueSize = r.I32(), r.I32()

	if r.Chance(2, 3) {
		p.HasTxcallerOidMeter = true
		for _, k := range valgen.IntKeys(r, meterCount(r)) {
			p.TxcallerOidMeter = append(p.TxcallerOidMeter, refcodec.RefIntMeter{Key: k, RefTxMeter: genTxMeter(r)})
		}
	}
	if r.Chance(2, 3) {
		p.HasSqlMeter = true
		for _, k := range valgen.IntKeys(r, meterCount(r)) {
			p.SqlMeter = append(p.SqlMeter, refcodec.RefSqlMeter{Key: k, RefTxMeter: genTxMeter(r), FetchCount: r.I64(), FetchTime: r.I64()})
		}
	}
	if r.Chance(2, 3) {
		p.HasHttpcMeter = true
		for _, k := range valgen.IntKeys(r, meterCount(r)) {
			p.HttpcMeter = append(p.HttpcMeter, refcodec.RefIntMeter{Key: k, RefTxMeter: genTxMeter(r)})
		}
	}
	if r.Chance(2, 3) {
		p.HasTxcallerGroupMeter = true
		type pk struct {
			p int64
			k int32
		}
		seen := map[pk]bool{}
		pcodes := []int64{r.I64(), r.I64()}
		for n := meterCount(r); len(p.TxcallerGroupMeter) < n; {
			k := pk{pcodes[r.Intn(2)], r.I32()}
			if r.Bool() {
				k.p = r.I64()
			}
			if seen[k] {
				continue
			}
			seen[k] = true
			p.TxcallerGroupMeter = append(p.TxcallerGroupMeter, refcodec.RefPKindMeter{Pcode: k.p, Okind: k.k, RefTxMeter: genTxMeter(r)})
		}
	}
	if r.Bool() {
		m := genTxMeter(r)
		p.TxcallerUnknown = &m
	}
	p.ContainerKey = r.I32()
	p.TxDbcTime, p.TxSqlTime, p.TxHttpcTime = r.F32(), r.F32(), r.F32()
	p.ApdexSatisfied, p.ApdexTolerated = r.I32(), r.I32()
	p.ArrivalRate = r.F32()
	p.GcOldgenCount = r.I32()
	p.Version = byte(r.Intn(256))
	p.HeapMax = r.I64()
	p.ProcFdMax = r.I32()
	p.Metering = r.F32()
	p.ApdexTotal = r.I32()
	if r.Chance(2, 3) {
		p.HasTxcallerPOidMeter = true
		type po struct {
			p int64
			o int32
		}
		seen := map[po]bool{}
		pcodes := []int64{r.I64(), r.I64()}
		for n := meterCount(r); len(p.TxcallerPOidMeter) < n; {
			k := po{pcodes[r.Intn(2)], r.I32()}
			if r.Bool() {
				k.p = r.I64()
			}
			if seen[k] {
				continue
			}
			seen[k] = true
			p.TxcallerPOidMeter = append(p.TxcallerPOidMeter, refcodec.RefPOidMeter{Pcode: k.p, Oid: k.o, RefTxMeter: genTxMeter(r)})
		}
	}
	p.Resp90, p.Resp95, p.TimeSqrSum = r.I32(), r.I32(), r.I64()
	return p
}
