// wC05 — bytes on the wire conform to the collector protocol layout.
//
// For each of the eight packs the protocol fixes (tag-count, log-sink, text, parameter, event,
// zip, hit-map, counter) a NEUTRAL reference struct is generated (gen.go), the real golib pack
// is built from it (conv.go) and
//
//	(a) encoded with pack.ToBytesPack,
//	(b) actually sent four times through a real OneWayTcpClient (Send and SendFlush, each with
//	    and without a per-send license override) to a loopback TCP peer — in direct mode, and
//	    in one case of five through the queue drained by one SendAndClear call.
//
// Oracle: the ToBytesPack image equals, byte for byte, the reference payload (2-byte pack type
// + refcodec body) and the byte stream the TCP peer received equals the concatenation of
// refcodec.Frame(10, 0, pack's pcode, Hash64(license in effect), payload) of the four sends.
// The reference encoder (refcodec/packs.go) imports nothing from golib; a Go-to-Go round trip
// is never used. The first differing offset is mapped to the reference field it falls into.
//
// Further sections (same oracle, same reference encoder; see the files' headers):
//
//	conc.go   "concurrent": 2…16 goroutines send through one client (direct / queue with the
//	          background drain / SendAndClear beside it, big and small packs) while others
//	          encode with ToBytesPack — keys …/concurrent; also run under the race detector
//	hist.go   "history": a pack is sent, mutated through its public mutators, sent again —
//	          keys …/after-mutation
//	fault.go  "fault": the peer cuts connections inside frames (also frames larger than the
//	          2 MiB write buffer) — keys …/at-cut, …/after-reconnect
//	stream.go the recording peer and the stream oracle (whole reference frames only)
//
// Teardown is decided by protocol events: the client connection is closed under the send lock
// and the peer reads its connection to EOF (TCP delivers everything written before the FIN).
// A watchdog only ever yields "inconclusive".
package main

import (
	"bytes"
	"encoding/binary"
	"fmt"
	"io"
	"net"
	"reflect"
	"sync/atomic"
	"time"
	"unsafe"

	"github.com/whatap/golib/lang/pack"
	wnet "github.com/whatap/golib/net"
	"github.com/whatap/golib/net/oneway"

	"verif/refcodec"
	"verif/vlib"
)

// ---- loopback peer ---------------------------------------------------------------------

type connResult struct {
	remote string // the peer's view of the client address
	data   []byte
	err    error // nil = clean EOF
}

type collector struct {
	ln       net.Listener
	addr     string
	results  chan connResult
	accepted int64
}

func newCollector() (*collector, error) {
	ln, err := net.Listen("tcp", "127.0.0.1:0")
	if err != nil {
		return nil, err
	}
	col := &collector{ln: ln, addr: ln.Addr().String(), results: make(chan connResult, 64)}
	go func() {
		for {
			conn, err := ln.Accept()
			if err != nil {
				return
			}
			atomic.AddInt64(&col.accepted, 1)
			go func() {
				data, err := io.ReadAll(conn) // returns at EOF (err == nil) or on a reset
				remote := conn.RemoteAddr().String()
				conn.Close()
				select {
				case col.results <- connResult{remote: remote, data: data, err: err}:
				default: // nobody is interested any more (collector was replaced)
				}
			}()
		}
	}()
	return col, nil
}

var theCollector *collector

func getCollector() (*collector, error) {
	if theCollector == nil {
		col, err := newCollector()
		if err != nil {
			return nil, err
		}
		theCollector = col
	}
	return theCollector, nil
}

// resetCollector abandons the shard's listener after an anomaly, so that a connection of the
// failed case can never be taken for one of a later case.
func resetCollector() {
	if theCollector != nil {
		theCollector.ln.Close()
		theCollector = nil
	}
}

// clientLocalAddr reads the private conn field of the client (nil ⇒ "").
func clientLocalAddr(cl *oneway.OneWayTcpClient) string {
	f := reflect.ValueOf(cl).Elem().FieldByName("conn")
	conn := *(*net.Conn)(unsafe.Pointer(f.UnsafeAddr()))
	if conn == nil {
		return ""
	}
	return conn.LocalAddr().String()
}

// ---- comparison ------------------------------------------------------------------------

type expectation struct {
	name    string // golib type name
	payload []byte
	spans   refcodec.Spans
	ref     refcodec.RefPack
	sfx     string // key suffix of the section ("", "/concurrent", "/after-mutation", "/after-reconnect", …)
}

func firstDiff(a, b []byte) int {
	n := len(a)
	if len(b) < n {
		n = len(b)
	}
	for i := 0; i < n; i++ {
		if a[i] != b[i] {
			return i
		}
	}
	if len(a) != len(b) {
		return n
	}
	return -1
}

func window(b []byte, off int) string {
	lo, hi := off-16, off+32
	if lo < 0 {
		lo = 0
	}
	if hi > len(b) {
		hi = len(b)
	}
	if lo > hi {
		lo = hi
	}
	return fmt.Sprintf("[%d:%d] %x", lo, hi, b[lo:hi])
}

func render(v interface{}) string {
	s := fmt.Sprintf("%+v", v)
	if len(s) > 6000 {
		s = s[:6000] + "…"
	}
	return s
}

// diffPayload compares an actual payload (pack type + body) with the reference payload and
// reports the first difference under the key of the reference field it falls into.
// It returns true when the two are equal.
func diffPayload(c *vlib.Ctx, x *expectation, where string, actual []byte, extra map[string]interface{}) bool {
	d := firstDiff(x.payload, actual)
	if d < 0 {
		return true
	}
	detail := map[string]interface{}{
		"pack": x.name, "where": where, "payload_offset": d,
		"expected_len": len(x.payload), "actual_len": len(actual),
		"expected_window": window(x.payload, d), "actual_window": window(actual, d),
		"expected_payload": vlib.Hex(x.payload), "actual_payload": vlib.Hex(actual),
		"reference_pack": render(x.ref),
	}
	for k, v := range extra {
		detail[k] = v
	}
	if d >= len(x.payload) || d >= len(actual) {
		// one image is a strict prefix of the other
		last := ""
		if len(x.spans) > 0 {
			last = x.spans[len(x.spans)-1].Name
		}
		detail["last_reference_field"] = last
		c.Fail(x.name+":length-differs"+x.sfx,
			fmt.Sprintf("%s %s: image has %d bytes, the reference %d (equal up to offset %d)", x.name, where, len(actual), len(x.payload), d), detail)
		return false
	}
	field := x.spans.At(d)
	if field == "" {
		field = "?"
	}
	if field == "body_length" {
		// the counter pack's body is one blob: a different length prefix is the consequence of a
		// different content. Compare the contents behind the two prefixes to name the field.
		sp, _ := x.spans.Find("body_length")
		rd := refcodec.NewR(actual[sp.Off:])
		content := rd.Blob()
		if !rd.Short {
			d2 := firstDiff(x.payload[sp.End:], content)
			detail["actual_body_length_prefix"] = fmt.Sprintf("%x", actual[sp.Off:sp.Off+rd.Off-len(content)])
			detail["body_offset"] = d2
			if d2 >= 0 && d2 < len(content) && sp.End+d2 < len(x.payload) {
				field = x.spans.At(sp.End + d2)
				detail["field"] = field
				c.Fail(x.name+"."+field+":bytes-differ"+x.sfx,
					fmt.Sprintf("%s %s: body blob of %d bytes instead of %d; first differing byte at body offset %d, in reference field %q: expected %02x, got %02x",
						x.name, where, len(content), len(x.payload)-sp.End, d2, field, x.payload[sp.End+d2], content[d2]), detail)
				return false
			}
			if d2 >= 0 {
				c.Fail(x.name+":length-differs"+x.sfx,
					fmt.Sprintf("%s %s: body blob has %d bytes, the reference %d (equal up to body offset %d)", x.name, where, len(content), len(x.payload)-sp.End, d2), detail)
				return false
			}
		}
	}
	detail["field"] = field
	c.Fail(x.name+"."+field+":bytes-differ"+x.sfx,
		fmt.Sprintf("%s %s: first differing byte at payload offset %d, in reference field %q: expected %02x, got %02x",
			x.name, where, d, field, x.payload[d], actual[d]), detail)
	return false
}

type sendPlan struct {
	flush   bool   // SendFlush(p, true) instead of Send(p)
	withLic bool   // per-send license override
	lic     string // license in effect for this send
}

func (s sendPlan) String() string {
	m := "Send"
	if s.flush {
		m = "SendFlush"
	}
	if s.withLic {
		return m + "+WithLicense"
	}
	return m
}

var headerFields = []struct {
	end  int
	name string
}{{1, "source"}, {2, "version"}, {10, "pcode"}, {18, "license-hash"}, {22, "length"}}

// diffStream compares the bytes the TCP peer received with the expected frames.
func diffStream(c *vlib.Ctx, x *expectation, plans []sendPlan, frames [][]byte, actual []byte, extra map[string]interface{}) bool {
	var expected []byte
	for _, f := range frames {
		expected = append(expected, f...)
	}
	d := firstDiff(expected, actual)
	if d < 0 {
		return true
	}
	// which frame, which offset inside it
	k, start := 0, 0
	for k < len(frames)-1 && d >= start+len(frames[k]) {
		start += len(frames[k])
		k++
	}
	o := d - start
	where := fmt.Sprintf("tcp stream, frame %d of %d (%s)", k+1, len(frames), plans[k])
	detail := map[string]interface{}{
		"pack": x.name, "where": where, "stream_offset": d, "frame_offset": o,
		"expected_stream_len": len(expected), "actual_stream_len": len(actual),
		"expected_window": window(expected, d), "actual_window": window(actual, d),
		"expected_frame": vlib.Hex(frames[k]), "license_in_effect": vlib.Hex([]byte(plans[k].lic)),
		"reference_pack": render(x.ref),
	}
	for kk, v := range extra {
		detail[kk] = v
	}
	if d >= len(actual) || d >= len(expected) {
		c.Fail(x.name+":length-differs"+x.sfx,
			fmt.Sprintf("%s %s: the peer received %d bytes, the reference stream has %d (equal up to offset %d)", x.name, where, len(actual), len(expected), d), detail)
		return false
	}
	if o < 22 {
		name := ""
		for _, h := range headerFields {
			if o < h.end {
				name = h.name
				break
			}
		}
		if name == "length" {
			// a different length is normally the consequence of a different body: look into the
			// payload the actual length announces, unless the reference payload follows intact
			af := actual[start:]
			if len(af) >= 22 {
				al := int(int32(binary.BigEndian.Uint32(af[18:22])))
				intact := len(af) >= 22+len(x.payload) && bytes.Equal(af[22:22+len(x.payload)], x.payload)
				if !intact && al >= 0 && len(af) >= 22+al {
					detail["actual_length_field"] = al
					if !diffPayload(c, x, where, af[22:22+al], detail) {
						return false
					}
				}
			}
		}
		detail["field"] = "frame.header." + name
		c.Fail("frame.header."+name+":differs"+x.sfx,
			fmt.Sprintf("%s %s: frame header field %q differs at frame offset %d: expected %02x, got %02x",
				x.name, where, name, o, expected[d], actual[d]), detail)
		return false
	}
	field := x.spans.At(o - 22)
	if field == "" {
		field = "?"
	}
	detail["field"] = field
	detail["payload_offset"] = o - 22
	c.Fail(x.name+"."+field+":bytes-differ"+x.sfx,
		fmt.Sprintf("%s %s: first differing byte at payload offset %d, in reference field %q: expected %02x, got %02x",
			x.name, where, o-22, field, expected[d], actual[d]), detail)
	return false
}

// checkSpans: the offset→field table must tile the payload exactly (an oracle self-check).
func checkSpans(x *expectation) {
	at := 0
	for _, s := range x.spans {
		if s.Off != at || s.End < s.Off {
			panic(fmt.Sprintf("oracle fault: span table of %s does not tile the payload at %d (%+v)", x.name, at, s))
		}
		at = s.End
	}
	if at != len(x.payload) {
		panic(fmt.Sprintf("oracle fault: span table of %s ends at %d, payload has %d bytes", x.name, at, len(x.payload)))
	}
}

// alignUnordered brings the entries of the counter pack's two DB-pool maps (unordered hash
// maps: the layout fixes count and (key,value) pairs, not their order) into the order in which
// they appear in the actual image. The order is read from the image with the independent
// reference reader; keys and values stay the reference's own, and the reordering is done
// only if the image holds exactly the reference's key set.
func alignUnordered(p *refcodec.RefCounterPack, image []byte) (aligned int) {
	if !(p.HasDbNumActive && p.HasDbNumIdle) {
		return 0
	}
	for _, which := range []string{"db_num_active", "db_num_idle"} {
		exp, spans, _ := refcodec.EncodePack(p)
		sp, ok := spans.Find(which + ".size")
		bl, ok2 := spans.Find("body_length")
		if !ok || !ok2 || bl.Off > len(image) || !bytes.Equal(exp[:bl.Off], image[:bl.Off]) {
			return aligned
		}
		// compare body content with body content (a difference further down changes the blob's
		// length prefix, which must not keep the maps from being aligned)
		br := refcodec.NewR(image[bl.Off:])
		body := br.Blob()
		at := sp.Off - bl.End // offset of the map inside the body
		if br.Short || at > len(body) || !bytes.Equal(exp[bl.End:sp.Off], body[:at]) {
			return aligned
		}
		m := &p.DbNumActive
		if which == "db_num_idle" {
			m = &p.DbNumIdle
		}
		rd := refcodec.NewR(body[at:])
		n, ok := rd.Decimal()
		if !ok || n != int64(len(*m)) {
			return aligned
		}
		byKey := map[int32]refcodec.RefIntPair{}
		for _, e := range *m {
			byKey[e.K] = e
		}
		var order []refcodec.RefIntPair
		for i := int64(0); i < n; i++ {
			k, ok1 := rd.Decimal()
			_, ok2 := rd.Decimal()
			if !ok1 || !ok2 || rd.Short || k < -1<<31 || k > 1<<31-1 {
				return aligned
			}
			e, found := byKey[int32(k)]
			if !found {
				return aligned // not the reference's key set (or a key twice): leave it to the byte comparison
			}
			delete(byKey, int32(k))
			order = append(order, e)
		}
		*m = order
		aligned++
	}
	return aligned
}

// ---- one case --------------------------------------------------------------------------

const watchdog = 60 * time.Second

func runCase(c *vlib.Ctx, caseID string, r *vlib.Rand, ref refcodec.RefPack, mk func() pack.Pack) {
	name := ref.PackName()

	// (a) ToBytesPack image
	var image []byte
	if p := vlib.Catch(func() { image = pack.ToBytesPack(mk()) }); p != nil {
		c.Fail(name+":encode-panics", fmt.Sprintf("%s: ToBytesPack panicked: %v", name, p),
			map[string]interface{}{"panic": fmt.Sprint(p), "reference_pack": render(ref)})
		return
	}
	if cp, ok := ref.(*refcodec.RefCounterPack); ok {
		if n := alignUnordered(cp, image); n > 0 {
			c.Count("unordered_maps_aligned", int64(n))
		}
	}
	payload, spans, _ := refcodec.EncodePack(ref)
	x := &expectation{name: name, payload: payload, spans: spans, ref: ref}
	checkSpans(x)
	okImage := diffPayload(c, x, "ToBytesPack image", image, nil)
	c.Count("images_compared", 1)
	c.Count("image_bytes_compared", int64(len(payload)))

	// (b) through the real client
	col, err := getCollector()
	if err != nil {
		c.Inconclusive(caseID, "cannot listen on loopback: "+err.Error())
		c.Eval(-1)
		return
	}
	defLic := genLicense(r)
	ovrLic := genLicense(r)
	if r.Chance(1, 10) {
		ovrLic = defLic + "x" // differs from the default in the last byte only
	}
	plans := []sendPlan{{false, false, ""}, {true, false, ""}, {false, true, ""}, {true, true, ""}}
	r.Shuffle(len(plans), func(i, j int) { plans[i], plans[j] = plans[j], plans[i] })
	for i := range plans {
		plans[i].lic = defLic
		if plans[i].withLic && ovrLic != "" { // an empty override is "no override"
			plans[i].lic = ovrLic
		}
	}
	reuse := r.Bool() // the same pack object for all sends (Write may have updated it) or a fresh one each time
	// Mostly direct mode (every send writes and flushes). One case in five uses the queue without
	// the background goroutine: the four sends are enqueued and one SendAndClear call drains them
	// in order and flushes — deterministic, and it takes the frames through the other send loop.
	queued := r.Chance(1, 5)
	copts := []oneway.OneWayTcpClientOption{oneway.WithServers([]string{col.addr}), oneway.WithLicense(defLic),
		oneway.WithPcode(r.I64()), oneway.WithOid(r.I32())}
	if queued {
		copts = append(copts, oneway.WithUseQueue())
	}
	cl := oneway.NewOneWayTcpClientVerif(copts...)
	var shared pack.Pack
	if reuse {
		shared = mk()
	}
	var frames [][]byte
	sendErr := ""
	local := ""
	// One case in three (direct mode): the client's default license is replaced after the second
	// send, as a configuration reload does; later sends without an override carry the new hash.
	relicenseAt := -1
	if !queued && r.Chance(1, 3) {
		relicenseAt = 2
		c.Count("relicense_cases", 1)
	}
	for pi, pl := range plans {
		if pi == relicenseAt {
			defLic = "reloaded-" + defLic
			cl.License = defLic
		}
		if pi >= relicenseAt && relicenseAt >= 0 && !(pl.withLic && ovrLic != "") {
			pl.lic = defLic
			plans[pi].lic = defLic
		}
		p := shared
		if p == nil {
			p = mk()
		}
		var opts []wnet.TcpClientOption
		if pl.withLic {
			opts = append(opts, wnet.WithLicense(ovrLic))
		}
		var e error
		if pl.flush {
			e = cl.SendFlush(p, true, opts...)
		} else {
			e = cl.Send(p, opts...)
		}
		if e != nil {
			sendErr = fmt.Sprintf("%s returned %v", pl, e)
			break
		}
		if local == "" && !queued {
			local = clientLocalAddr(cl)
		}
		frames = append(frames, refcodec.Frame(10, 0, ref.Hdr().Pcode, refcodec.Hash64([]byte(pl.lic)), payload))
	}
	if queued && sendErr == "" {
		if e := cl.SendAndClear(); e != nil {
			sendErr = fmt.Sprintf("SendAndClear returned %v", e)
		}
		local = clientLocalAddr(cl)
		c.Count("queue_mode_cases", 1)
	}
	cl.VerifCloseLocked() // FIN after everything that was written
	cl.VerifCancel()
	if sendErr != "" || local == "" {
		resetCollector()
		c.Inconclusive(caseID, "send on a healthy loopback connection failed: "+sendErr)
		c.Eval(-1)
		return
	}
	var res connResult
	select {
	case res = <-col.results:
	case <-time.After(watchdog):
		resetCollector()
		c.Inconclusive(caseID, "watchdog: the peer did not see EOF of the client connection")
		c.Eval(-1)
		return
	}
	if res.remote != local {
		resetCollector()
		c.Inconclusive(caseID, fmt.Sprintf("the peer's connection %s is not the client's %s", res.remote, local))
		c.Eval(-1)
		return
	}
	if res.err != nil {
		resetCollector()
		c.Inconclusive(caseID, "the peer's read ended with "+res.err.Error()+" instead of EOF")
		c.Eval(-1)
		return
	}
	extra := map[string]interface{}{"default_license": vlib.Hex([]byte(defLic)), "override_license": vlib.Hex([]byte(ovrLic)),
		"sends": fmt.Sprint(plans), "pack_object_reused": reuse, "queue_mode": queued}
	okStream := diffStream(c, x, plans, frames, res.data, extra)
	c.Count("frames_received", int64(len(frames)))
	c.Count("bytes_received", int64(len(res.data)))
	c.Count("connections", 1)

	// ---- evidence ----
	c.SetAdd("types_covered", name)
	c.Count("cases_"+name, 1)
	if ref.Hdr().LongForm() {
		c.Count("header_long_form", 1)
	} else {
		c.Count("header_short_form", 1)
	}
	c.Count("header_pcode_class_"+fmt.Sprint(refcodec.DecimalClass(ref.Hdr().Pcode)), 1)
	if ovrLic == "" {
		c.Count("override_license_empty", 1)
	}
	if defLic == "" {
		c.Count("default_license_empty", 1)
	}
	if len(payload) > 65536 {
		c.Count("payload_over_64k", 1)
	}
	c.Max("max_payload_bytes", int64(len(payload)))
	if okImage && okStream {
		for _, n := range spans.Names() {
			c.SetAdd("fields_compared_equal", name+"."+n)
		}
	}
	c.DistinctBytes(payload)
	if c.WantSample() && len(payload) < 400 && r.Chance(1, 8) {
		c.Sample(map[string]interface{}{"pack": name, "sends": fmt.Sprint(plans), "default_license": defLic, "override_license": ovrLic,
			"payload_hex": fmt.Sprintf("%x", payload), "first_frame_hex": fmt.Sprintf("%x", frames[0]),
			"fields": spans.Names(), "stream_bytes": len(res.data)})
	}
}

func main() {
	c := vlib.Start("C05")
	n := c.N(500, 20000)
	race := c.Flavour == "race"
	if race {
		// the race flavour runs the concurrency section only
		nc := c.N(16, 160)
		c.Cases("concurrent", nc, func(i int, r *vlib.Rand) { runConcurrent(c, fmt.Sprintf("concurrent#%d", i), i, r) })
		if c.Only == "" {
			per := int64(nc) / int64(c.NShards)
			c.Floor("concurrent_frames_matched", per*15, c.Counter("concurrent_frames_matched"))
			c.Floor("concurrent_images_compared", per*3, c.Counter("concurrent_images_compared"))
		}
		c.Finish()
		return
	}

	c.Cases("TagCountPack", n, func(i int, r *vlib.Rand) {
		ref := genTagCount(r)
		if ref.TagHash == 0 && len(ref.Tags.Keys) > 0 {
			c.Count("taghash_computed", 1)
		} else {
			c.Count("taghash_passed_through", 1)
		}
		runCase(c, fmt.Sprintf("TagCountPack#%d", i), r, ref, func() pack.Pack { return toTagCount(ref) })
	})
	c.Cases("LogSinkPack", n, func(i int, r *vlib.Rand) {
		ref := genLogSink(r)
		if ref.TagHash == 0 && len(ref.Tags.Keys) > 0 {
			c.Count("taghash_computed", 1)
		} else {
			c.Count("taghash_passed_through", 1)
		}
		if ref.Fields != nil && len(ref.Fields.Keys) > 0 {
			c.Count("logsink_fields_present", 1)
		}
		runCase(c, fmt.Sprintf("LogSinkPack#%d", i), r, ref, func() pack.Pack { return toLogSink(ref) })
	})
	c.Cases("TextPack", n, func(i int, r *vlib.Rand) {
		ref := genText(r)
		bulk := r.Bool()
		c.Count("text_records", int64(len(ref.Records)))
		runCase(c, fmt.Sprintf("TextPack#%d", i), r, ref, func() pack.Pack { return toText(ref, bulk) })
	})
	c.Cases("ParamPack", n, func(i int, r *vlib.Rand) {
		ref := genParam(r)
		c.Count("param_entries", int64(len(ref.Keys)))
		runCase(c, fmt.Sprintf("ParamPack#%d", i), r, ref, func() pack.Pack { return toParam(ref) })
	})
	c.Cases("EventPack", n, func(i int, r *vlib.Rand) {
		ref := genEvent(r)
		k, _ := ref.WireAttrs()
		c.Max("max_event_wire_attributes", int64(len(k)))
		if len(k) != len(ref.AttrKeys)+3 && len(k) != len(ref.AttrKeys)+4 {
			c.Count("event_reserved_key_preset_by_caller", 1)
		}
		runCase(c, fmt.Sprintf("EventPack#%d", i), r, ref, func() pack.Pack { return toEvent(ref) })
	})
	c.Cases("ZipPack", n, func(i int, r *vlib.Rand) {
		ref := genZip(r)
		runCase(c, fmt.Sprintf("ZipPack#%d", i), r, ref, func() pack.Pack { return toZip(ref) })
	})
	c.Cases("HitMapPack1", n, func(i int, r *vlib.Rand) {
		ref := genHitMap(r)
		runCase(c, fmt.Sprintf("HitMapPack1#%d", i), r, ref, func() pack.Pack { return toHitMap(ref) })
	})
	c.Cases("CounterPack1", n, func(i int, r *vlib.Rand) {
		ref := genCounter(r)
		var acts []int16
		if r.Bool() {
			acts = []int16{r.I16(), r.I16()}
		}
		for name, on := range map[string]bool{
			"db_pool_maps": ref.HasDbNumActive && ref.HasDbNumIdle, "netstat": ref.Netstat != nil, "websocket": ref.Websocket != nil,
			"extra": ref.Extra != nil, "txcaller_oid_meter": ref.HasTxcallerOidMeter, "sql_meter": ref.HasSqlMeter,
			"httpc_meter": ref.HasHttpcMeter, "txcaller_group_meter": ref.HasTxcallerGroupMeter,
			"txcaller_unknown": ref.TxcallerUnknown != nil, "txcaller_poid_meter": ref.HasTxcallerPOidMeter} {
			if on {
				c.Count("counter_section_"+name, 1)
			}
		}
		// the golib pack is always built from the generated entry order; runCase may permute the
		// reference's copy of the two unordered DB-pool maps to the order seen on the wire
		src := *ref
		runCase(c, fmt.Sprintf("CounterPack1#%d", i), r, ref, func() pack.Pack { return toCounter(&src, acts) })
	})

	nConc, nHist, nFault := c.N(48, 960), c.N(1600, 64000), c.N(160, 6400)
	c.Cases("concurrent", nConc, func(i int, r *vlib.Rand) { runConcurrent(c, fmt.Sprintf("concurrent#%d", i), i, r) })
	c.Cases("history", nHist, func(i int, r *vlib.Rand) { runHistory(c, fmt.Sprintf("history#%d", i), i, r) })
	c.Cases("fault", nFault, func(i int, r *vlib.Rand) { runFault(c, fmt.Sprintf("fault#%d", i), i, r) })
	nBad := c.N(160, 6400)
	c.Cases("unencodable", nBad, func(i int, r *vlib.Rand) { runUnencodable(c, fmt.Sprintf("unencodable#%d", i), i, r) })

	// observation floors (per shard; ≤ 10 % of what a healthy run reaches)
	perShard := int64(8*n) / int64(c.NShards)
	if c.Only == "" {
		pc, ph, pf := int64(nConc)/int64(c.NShards), int64(nHist)/int64(c.NShards), int64(nFault)/int64(c.NShards)
		c.Floor("concurrent_frames_matched", pc*30, c.Counter("concurrent_frames_matched"))
		c.Floor("concurrent_images_compared", pc*5, c.Counter("concurrent_images_compared"))
		c.Floor("history_frames_after_mutation", ph/5, c.Counter("history_frames_after_mutation"))
		c.Floor("history_mutations", ph/4, c.Counter("history_mutations"))
		c.Floor("fault_cuts_executed", pf/10, c.Counter("fault_cuts_executed"))
		c.Floor("fault_reconnections", pf/10, c.Counter("fault_reconnections"))
		c.Floor("fault_frames_matched", pf, c.Counter("fault_frames_matched"))
		c.Floor("unencodable_packs_handed_over", int64(nBad)/int64(c.NShards)/4, c.Counter("unencodable_packs_handed_over"))
		c.Floor("frames_received", perShard*4/10, c.Counter("frames_received"))
		c.Floor("images_compared", perShard/10, c.Counter("images_compared"))
		c.Floor("header_long_form", perShard/40, c.Counter("header_long_form"))
		c.Floor("header_short_form", perShard/40, c.Counter("header_short_form"))
		c.Floor("taghash_computed", perShard/200, c.Counter("taghash_computed"))
	}
	c.Finish()
}
