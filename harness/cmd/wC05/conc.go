package main

// Section "concurrent": the byte-for-byte conformance oracle under concurrent use.
//
// One client, 2…16 goroutines sending uniquely identified packs of all eight types (small, and
// big ones around and above the client's 2 MiB write buffer) in direct mode or through the
// queue (background drain started as GetOneWayTcpClient does, optionally with SendAndClear
// callers beside it), while further goroutines build packs and encode them with ToBytesPack.
// Oracle: every frame the peer received equals the reference frame of exactly one pack handed
// to the client (matched through the unique id each pack carries in its header time), the
// stream is nothing but whole frames, every accepted pack arrives exactly once, and every
// ToBytesPack image equals its reference payload. Order is not looked at (C06's subject).

import (
	"fmt"
	"runtime"
	"strings"
	"sync"
	"sync/atomic"
	"time"

	"github.com/whatap/golib/lang/pack"
	wnet "github.com/whatap/golib/net"
	"github.com/whatap/golib/net/oneway"

	"verif/refcodec"
	"verif/vlib"
)

var packKinds = []string{"TagCountPack", "LogSinkPack", "TextPack", "ParamPack", "EventPack", "ZipPack", "HitMapPack1", "CounterPack1"}

// capUnordered keeps at most one entry in each of the counter pack's two unordered DB-pool
// maps (a one-entry map has one order), so that the expected image is known before the send.
func capUnordered(p *refcodec.RefCounterPack) {
	if len(p.DbNumActive) > 1 {
		p.DbNumActive = p.DbNumActive[:1]
	}
	if len(p.DbNumIdle) > 1 {
		p.DbNumIdle = p.DbNumIdle[:1]
	}
}

func asciiBig(r *vlib.Rand, n int) string {
	b := r.Bytes(n)
	for i := range b {
		b[i] = 'a' + b[i]%26
	}
	return string(b)
}

// genAnyPack draws one pack of the given kind: the neutral reference struct and a builder of
// the real golib pack (a fresh object per call). big > 0 asks for a body of about big bytes
// (text, log-sink and zip packs can carry one).
func genAnyPack(r *vlib.Rand, kind int, big int) (refcodec.RefPack, func() pack.Pack) {
	if big > 0 {
		switch r.Intn(3) {
		case 0:
			ref := &refcodec.RefTextPack{RefHeader: genHeader(r)}
			left := big
			for left > 0 {
				n := left
				if r.Bool() && left > 1000 {
					n = r.Range(left/3, left)
				}
				ref.Records = append(ref.Records, refcodec.RefTextRec{Div: byte(r.Intn(256)), Hash: r.I32(), Text: asciiBig(r, n)})
				left -= n
			}
			bulk := r.Bool()
			return ref, func() pack.Pack { return toText(ref, bulk) }
		case 1:
			ref := genLogSink(r)
			ref.Content = asciiBig(r, big)
			return ref, func() pack.Pack { return toLogSink(ref) }
		default:
			ref := genZip(r)
			ref.Records = r.Bytes(big)
			return ref, func() pack.Pack { return toZip(ref) }
		}
	}
	switch kind {
	case 0:
		ref := genTagCount(r)
		return ref, func() pack.Pack { return toTagCount(ref) }
	case 1:
		ref := genLogSink(r)
		return ref, func() pack.Pack { return toLogSink(ref) }
	case 2:
		ref := genText(r)
		bulk := r.Bool()
		return ref, func() pack.Pack { return toText(ref, bulk) }
	case 3:
		ref := genParam(r)
		return ref, func() pack.Pack { return toParam(ref) }
	case 4:
		ref := genEvent(r)
		return ref, func() pack.Pack { return toEvent(ref) }
	case 5:
		ref := genZip(r)
		return ref, func() pack.Pack { return toZip(ref) }
	case 6:
		ref := genHitMap(r)
		return ref, func() pack.Pack { return toHitMap(ref) }
	default:
		ref := genCounter(r)
		capUnordered(ref)
		var acts []int16
		if r.Bool() {
			acts = []int16{r.I16(), r.I16()}
		}
		return ref, func() pack.Pack { return toCounter(ref, acts) }
	}
}

func newExpectation(ref refcodec.RefPack, sfx string) *expectation {
	payload, spans, _ := refcodec.EncodePack(ref)
	x := &expectation{name: ref.PackName(), payload: payload, spans: spans, ref: ref, sfx: sfx}
	checkSpans(x)
	return x
}

// processParked tells whether every background drain goroutine of this process that still
// exists is inside RequestQueue.GetTimeout, i.e. holds no dequeued pack and will look at its
// context before it touches the connection again.
func processParked() bool {
	buf := make([]byte, 1<<20)
	for {
		n := runtime.Stack(buf, true)
		if n < len(buf) {
			buf = buf[:n]
			break
		}
		buf = make([]byte, 2*len(buf))
	}
	for _, g := range strings.Split(string(buf), "\n\n") {
		if strings.Contains(g, "(*OneWayTcpClient).process(") && !strings.Contains(g, "(*RequestQueue).GetTimeout(") {
			return false
		}
	}
	return true
}

func waitProcessParked() bool {
	for i := 0; i < 20000; i++ {
		if processParked() {
			return true
		}
		time.Sleep(time.Millisecond)
	}
	return false
}

type concItem struct {
	sp   *sentPack
	mk   func() pack.Pack
	plan sendPlan
}

type encItem struct {
	x  *expectation
	mk func() pack.Pack
}

func runConcurrent(c *vlib.Ctx, caseID string, i int, r *vlib.Rand) {
	race := c.Flavour == "race"
	mode := []string{"direct", "direct+bg", "queue+bg", "queue+bg+sendclear"}[i%4]
	queued := strings.HasPrefix(mode, "queue")
	senders := r.Range(2, 16)
	total := r.Range(300, 900)
	if race {
		total = r.Range(150, 400)
	}
	encoders := r.Range(1, 4)
	bigEvery := []int{0, 30, 80}[r.Intn(3)]
	if i%4 == 0 || i%4 == 3 {
		bigEvery = []int{20, 50}[r.Intn(2)]
	}
	if race && bigEvery > 0 {
		bigEvery *= 3
	}
	label := fmt.Sprintf("%s mode=%s senders=%d packs=%d encoders=%d big-every=%d", caseID, mode, senders, total, encoders, bigEvery)

	defLic := genLicense(r)
	ovrLic := genLicense(r)
	if ovrLic == "" {
		ovrLic = "override"
	}
	idBase := (r.I64() &^ 0xFFFFF) & 0x7FFFFFFFFFFFFFFF
	var all []*sentPack
	perSender := make([][]concItem, senders)
	nBig := 0
	for n := 0; n < total; n++ {
		s := n % senders
		big := 0
		if bigEvery > 0 && r.Intn(bigEvery) == 0 {
			big = []int{300 << 10, 1 << 20, 2<<20 - 40, 2<<20 + 5000, 3 << 20}[r.Intn(5)]
			nBig++
		}
		ref, mk := genAnyPack(r, r.Intn(8), big)
		ref.Hdr().Time = idBase | int64(n)
		x := newExpectation(ref, "/concurrent")
		pl := sendPlan{flush: r.Bool(), withLic: r.Chance(1, 4), lic: defLic}
		if pl.withLic {
			pl.lic = ovrLic
		}
		sp := &sentPack{id: ref.Hdr().Time, x: x, lic: pl.lic,
			frame: refcodec.Frame(10, 0, ref.Hdr().Pcode, refcodec.Hash64([]byte(pl.lic)), x.payload),
			who:   fmt.Sprintf("%s (sender %d, its #%d, %s)", x.name, s, len(perSender[s]), pl)}
		all = append(all, sp)
		perSender[s] = append(perSender[s], concItem{sp: sp, mk: mk, plan: pl})
	}
	encLists := make([][]encItem, encoders)
	for e := range encLists {
		for k := r.Range(24, 60); k > 0; k-- {
			ref, mk := genAnyPack(r, r.Intn(8), 0)
			encLists[e] = append(encLists[e], encItem{x: newExpectation(ref, "/concurrent"), mk: mk})
		}
	}

	pr, err := newPeer(nil, 0)
	if err != nil {
		c.Inconclusive(caseID, "cannot listen on loopback: "+err.Error())
		c.Eval(-1)
		return
	}
	copts := []oneway.OneWayTcpClientOption{oneway.WithServers([]string{pr.addr}), oneway.WithLicense(defLic),
		oneway.WithPcode(r.I64()), oneway.WithOid(r.I32())}
	if queued {
		copts = append(copts, oneway.WithUseQueue())
		if r.Bool() {
			copts = append(copts, oneway.WithQueueSize(0)) // unbounded
		}
	}
	cl := oneway.NewOneWayTcpClientVerif(copts...)
	bg := mode != "direct"
	if bg {
		cl.VerifStartProcess()
	}

	var clientErrors, refused, encFailures, images int64
	var firstErr atomic.Value
	var stopEnc, stopDrain int32
	start := make(chan struct{})
	var wgSend, wgEnc, wgDrain sync.WaitGroup
	for s := 0; s < senders; s++ {
		wgSend.Add(1)
		go func(items []concItem) {
			defer wgSend.Done()
			<-start
			for _, it := range items {
				p := it.mk()
				var opts []wnet.TcpClientOption
				if it.plan.withLic {
					opts = append(opts, wnet.WithLicense(ovrLic))
				}
				var e error
				if it.plan.flush {
					e = cl.SendFlush(p, true, opts...)
				} else {
					e = cl.Send(p, opts...)
				}
				if e == nil {
					it.sp.accepted = true
					continue
				}
				it.sp.errText = e.Error()
				if queued {
					atomic.AddInt64(&refused, 1) // queue full: not accepted, must not arrive
					runtime.Gosched()
				} else {
					atomic.AddInt64(&clientErrors, 1)
					firstErr.CompareAndSwap(nil, it.sp.who+": "+e.Error())
				}
			}
		}(perSender[s])
	}
	for e := 0; e < encoders; e++ {
		wgEnc.Add(1)
		go func(items []encItem) {
			defer wgEnc.Done()
			<-start
			for pass := 0; pass == 0 || atomic.LoadInt32(&stopEnc) == 0; pass++ {
				for _, it := range items {
					var image []byte
					if p := vlib.Catch(func() { image = pack.ToBytesPack(it.mk()) }); p != nil {
						if atomic.AddInt64(&encFailures, 1) <= 3 {
							c.Fail(it.x.name+":encode-panics/concurrent", fmt.Sprintf("%s: ToBytesPack panicked while other goroutines encode: %v", it.x.name, p),
								map[string]interface{}{"panic": fmt.Sprint(p), "scenario": label, "reference_pack": render(it.x.ref)})
						}
						continue
					}
					atomic.AddInt64(&images, 1)
					if firstDiff(it.x.payload, image) >= 0 && atomic.AddInt64(&encFailures, 1) <= 3 {
						diffPayload(c, it.x, "ToBytesPack image, taken while other goroutines encode and send", image, map[string]interface{}{"scenario": label})
					}
					if pass > 0 && atomic.LoadInt32(&stopEnc) != 0 {
						return
					}
				}
			}
		}(encLists[e])
	}
	if mode == "queue+bg+sendclear" {
		for d := r.Range(1, 2); d > 0; d-- {
			wgDrain.Add(1)
			go func() {
				defer wgDrain.Done()
				<-start
				for atomic.LoadInt32(&stopDrain) == 0 {
					if e := cl.SendAndClear(); e != nil {
						atomic.AddInt64(&clientErrors, 1)
						firstErr.CompareAndSwap(nil, "SendAndClear: "+e.Error())
					}
					runtime.Gosched()
				}
			}()
		}
	}
	close(start)
	wgSend.Wait()
	atomic.StoreInt32(&stopDrain, 1)
	wgDrain.Wait()
	quiet := true
	if queued {
		// drain what is still queued, then wait until the background drain holds nothing
		if e := cl.SendAndClear(); e != nil {
			atomic.AddInt64(&clientErrors, 1)
			firstErr.CompareAndSwap(nil, "final SendAndClear: "+e.Error())
		}
		quiet = waitProcessParked()
		if quiet && cl.Queue.Size() > 0 {
			if e := cl.SendAndClear(); e != nil {
				atomic.AddInt64(&clientErrors, 1)
			}
		}
	}
	atomic.StoreInt32(&stopEnc, 1)
	wgEnc.Wait()
	cl.VerifCancel()
	if bg && quiet {
		quiet = waitProcessParked()
	}
	cl.VerifCloseLocked()
	conns, ok := pr.finish()
	if !ok {
		pr.abandon()
	}
	ix := newSentIndex(all)
	nerr := atomic.LoadInt64(&clientErrors)
	st := checkStreams(c, conns, ix, streamOpts{
		label:       label,
		sfx:         func(int) string { return "/concurrent" },
		tailAllowed: func(pc *peerConn) bool { return nerr > 0 || !ok },
		exactlyOnce: true,
		wantAll:     nerr == 0 && ok && quiet,
		extra:       map[string]interface{}{"default_license": vlib.Hex([]byte(defLic)), "override_license": vlib.Hex([]byte(ovrLic))},
	})
	if st.failures == 0 && atomic.LoadInt64(&encFailures) == 0 {
		switch {
		case !ok:
			c.Inconclusive(caseID, "watchdog: the peer did not see the end of every client connection")
			c.Eval(-1)
			return
		case !quiet:
			c.Inconclusive(caseID, "watchdog: the background drain did not come to rest")
			c.Eval(-1)
			return
		case nerr > 0:
			fe, _ := firstErr.Load().(string)
			c.Inconclusive(caseID, "send on a healthy loopback connection failed: "+fe)
			c.Eval(-1)
			return
		}
	}
	c.Count("concurrent_scenarios", 1)
	c.Count("concurrent_scenarios_"+mode, 1)
	c.Count("concurrent_frames_received", st.frames)
	c.Count("concurrent_frames_matched", st.matched)
	c.Count("concurrent_bytes_received", st.bytes)
	c.Count("concurrent_images_compared", atomic.LoadInt64(&images))
	c.Count("concurrent_big_packs", int64(nBig))
	c.Count("concurrent_queue_refusals", atomic.LoadInt64(&refused))
	c.Count("concurrent_connections", int64(len(conns)))
	c.Max("max_concurrent_senders", int64(senders))
	for _, s := range all {
		if s.seen > 0 {
			c.SetAdd("concurrent_types_matched", s.x.name)
		}
	}
	c.DistinctStr(fmt.Sprintf("concurrent %s %d %d %d %d %x", mode, senders, total, encoders, bigEvery, idBase))
	if c.WantSample() && i%4 == int(c.Seed%4) {
		c.Sample(map[string]interface{}{"section": "concurrent", "scenario": label, "frames_received": st.frames, "frames_matched": st.matched,
			"connections": len(conns), "images_compared_meanwhile": atomic.LoadInt64(&images), "stream_bytes": st.bytes})
	}
}
