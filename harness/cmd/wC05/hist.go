package main

// Section "history": one pack object is sent, MUTATED through the public ways its type offers
// (setters, Put*/Add*/Clear helpers, exported fields and the exported maps / lists / slices
// behind them, in place and by reassignment) and sent again, 2…4 times, over one connection.
//
// Every mutator is applied in lockstep to the golib object and to the neutral reference
// struct (the model of "the fields the pack holds"). Oracle: the k-th frame on the wire equals
// the reference frame of the reference struct as it was at the k-th send. The only state a
// write leaves behind is the tag hash of the tag-count / log-sink packs (a pack whose tag hash
// is 0 takes the hash of its encoded tags at that write and carries it from then on): the
// model does the same with the reference's own hash.

import (
	"encoding/binary"
	"fmt"
	"reflect"
	"strconv"
	"time"

	"github.com/whatap/golib/lang"
	"github.com/whatap/golib/lang/pack"
	"github.com/whatap/golib/lang/value"
	wnet "github.com/whatap/golib/net"
	"github.com/whatap/golib/net/oneway"
	"github.com/whatap/golib/util/hmap"

	"verif/refcodec"
	"verif/valgen"
	"verif/vlib"
)

// ---- deep copy of a neutral struct (snapshot at a send) ----------------------------------------

func deepCopyValue(v reflect.Value) reflect.Value {
	switch v.Kind() {
	case reflect.Ptr:
		if v.IsNil() {
			return v
		}
		n := reflect.New(v.Type().Elem())
		n.Elem().Set(deepCopyValue(v.Elem()))
		return n
	case reflect.Slice:
		if v.IsNil() {
			return v
		}
		n := reflect.MakeSlice(v.Type(), v.Len(), v.Len())
		for i := 0; i < v.Len(); i++ {
			n.Index(i).Set(deepCopyValue(v.Index(i)))
		}
		return n
	case reflect.Struct:
		n := reflect.New(v.Type()).Elem()
		for i := 0; i < v.NumField(); i++ {
			n.Field(i).Set(deepCopyValue(v.Field(i)))
		}
		return n
	}
	return v
}

func snapshot(p refcodec.RefPack) refcodec.RefPack {
	return deepCopyValue(reflect.ValueOf(p)).Interface().(refcodec.RefPack)
}

// ---- neutral map helpers (the model of an insertion-ordered map) ------------------------------------

func vPut(m *refcodec.V, k string, v refcodec.V) {
	for i := range m.Keys {
		if m.Keys[i] == k {
			m.Vals[i] = v
			return
		}
	}
	m.Keys = append(m.Keys, k)
	m.Vals = append(m.Vals, v)
}

func vHas(m *refcodec.V, k string) bool {
	for i := range m.Keys {
		if m.Keys[i] == k {
			return true
		}
	}
	return false
}

func vIntPut(m *refcodec.V, k int32, v refcodec.V) {
	for i := range m.IntKeys {
		if m.IntKeys[i] == k {
			m.Vals[i] = v
			return
		}
	}
	m.IntKeys = append(m.IntKeys, k)
	m.Vals = append(m.Vals, v)
}

func text(s string) refcodec.V  { return refcodec.V{Tag: refcodec.TText, S: s} }
func decimal(n int64) refcodec.V { return refcodec.V{Tag: refcodec.TDecimal, I: n} }

// someKey: an existing key (replace) or a new one.
func someKey(r *vlib.Rand, have []string) string {
	if len(have) > 0 && r.Bool() {
		return have[r.Intn(len(have))]
	}
	return valgen.StrKeys(r, 1)[0]
}

// ---- mutators -----------------------------------------------------------------------------------

type mutOp struct {
	name string
	do   func(r *vlib.Rand) bool // false: not applicable in the current state (nothing was changed)
}

type history struct {
	name       string
	ref        refcodec.RefPack
	g          pack.Pack
	ops        []mutOp
	afterWrite func() // the state a write leaves in the pack's fields
}

func headerOps(a *pack.AbstractPack, h *refcodec.RefHeader) []mutOp {
	kn := func(r *vlib.Rand) int32 {
		if r.Chance(1, 3) {
			return 0
		}
		return r.I32()
	}
	return []mutOp{
		{"SetPCODE", func(r *vlib.Rand) bool { v := r.I64(); a.SetPCODE(v); h.Pcode = v; return true }},
		{"SetOID", func(r *vlib.Rand) bool { v := r.I32(); a.SetOID(v); h.Oid = v; return true }},
		{"SetOKIND", func(r *vlib.Rand) bool { v := kn(r); a.SetOKIND(v); h.Okind = v; return true }},
		{"SetONODE", func(r *vlib.Rand) bool { v := kn(r); a.SetONODE(v); h.Onode = v; return true }},
		{"SetTime", func(r *vlib.Rand) bool { v := r.I64(); a.SetTime(v); h.Time = v; return true }},
		{"Pcode=", func(r *vlib.Rand) bool { v := r.I64(); a.Pcode = v; h.Pcode = v; return true }},
		{"Oid=", func(r *vlib.Rand) bool { v := r.I32(); a.Oid = v; h.Oid = v; return true }},
		{"Okind=,Onode=", func(r *vlib.Rand) bool {
			k, n := kn(r), kn(r)
			a.Okind, a.Onode, h.Okind, h.Onode = k, n, k, n
			return true
		}},
		{"Time=", func(r *vlib.Rand) bool { v := r.I64(); a.Time = v; h.Time = v; return true }},
	}
}

// mapOps: the public ways to change an exported *value.MapValue field.
func mapOps(prefix string, m *refcodec.V, get func() *value.MapValue, set func(*value.MapValue)) []mutOp {
	return []mutOp{
		{prefix + ".PutString", func(r *vlib.Rand) bool {
			k, s := someKey(r, m.Keys), txt(r)
			get().PutString(k, s)
			vPut(m, k, text(s))
			return true
		}},
		{prefix + ".PutLong", func(r *vlib.Rand) bool {
			k, n := someKey(r, m.Keys), r.I64()
			get().PutLong(k, n)
			vPut(m, k, decimal(n))
			return true
		}},
		{prefix + ".Put", func(r *vlib.Rand) bool {
			k, v := someKey(r, m.Keys), valgen.Gen(r, r.Range(0, 2), r.Range(1, 5))
			get().Put(k, valgen.ToGolib(v))
			vPut(m, k, v)
			return true
		}},
		{prefix + ".PutAll", func(r *vlib.Rand) bool {
			o := genMap(r)
			if len(m.Keys) > 0 && len(o.Keys) > 0 && r.Bool() {
				o.Keys[0] = m.Keys[r.Intn(len(m.Keys))] // one key in common
				for i := 1; i < len(o.Keys); i++ {
					if o.Keys[i] == o.Keys[0] {
						return false
					}
				}
			}
			get().PutAll(toMap(o))
			for i := range o.Keys {
				vPut(m, o.Keys[i], o.Vals[i])
			}
			return true
		}},
		{prefix + ".Clear", func(r *vlib.Rand) bool {
			get().Clear()
			m.Keys, m.Vals = nil, nil
			return true
		}},
		{prefix + ".NewList", func(r *vlib.Rand) bool { // a list created inside the map and filled through the returned object
			k := someKey(r, m.Keys)
			l := get().NewList(k)
			lv := refcodec.V{Tag: refcodec.TList}
			for n := r.Range(0, 4); n > 0; n-- {
				if r.Bool() {
					s := txt(r)
					l.AddString(s)
					lv.List = append(lv.List, text(s))
				} else {
					x := r.I64()
					l.AddLong(x)
					lv.List = append(lv.List, decimal(x))
				}
			}
			vPut(m, k, lv)
			return true
		}},
		{prefix + "=", func(r *vlib.Rand) bool {
			o := genMap(r)
			set(toMap(o))
			*m = o
			return true
		}},
	}
}

// observe calls accessors that must not change what the pack holds (a panic inside one of
// them is not this check's subject).
func observe(name string, fns ...func()) mutOp {
	return mutOp{name, func(r *vlib.Rand) bool {
		for _, f := range fns {
			vlib.Catch(f)
		}
		return true
	}}
}

func newTagCountHistory(r *vlib.Rand) *history {
	ref := genTagCount(r)
	g := toTagCount(ref).(*pack.TagCountPack)
	h := &history{name: "TagCountPack", ref: ref, g: g}
	h.ops = append(h.ops, headerOps(&g.AbstractPack, &ref.RefHeader)...)
	h.ops = append(h.ops, mapOps("Tags", &ref.Tags, func() *value.MapValue { return g.Tags }, func(m *value.MapValue) { g.Tags = m })...)
	h.ops = append(h.ops, mapOps("Data", &ref.Data, func() *value.MapValue { return g.Data }, func(m *value.MapValue) { g.Data = m })...)
	h.ops = append(h.ops,
		mutOp{"Category=", func(r *vlib.Rand) bool { s := txt(r); g.Category, ref.Category = s, s; return true }},
		mutOp{"PutTag", func(r *vlib.Rand) bool {
			k, s := someKey(r, ref.Tags.Keys), txt(r)
			g.PutTag(k, s)
			vPut(&ref.Tags, k, text(s))
			return true
		}},
		mutOp{"Clear", func(r *vlib.Rand) bool { g.Clear(); ref.Data.Keys, ref.Data.Vals = nil, nil; return true }},
		mutOp{"Put(value)", func(r *vlib.Rand) bool {
			k, v := someKey(r, ref.Data.Keys), valgen.Leaf(r, 3)
			g.Put(k, valgen.ToGolib(v))
			vPut(&ref.Data, k, v)
			return true
		}},
		mutOp{"Put(integer)", func(r *vlib.Rand) bool {
			k := someKey(r, ref.Data.Keys)
			var n int64
			switch r.Intn(7) {
			case 0:
				x := int(r.I64())
				g.Put(k, x)
				n = int64(x)
			case 1:
				x := r.I16()
				g.Put(k, x)
				n = int64(x)
			case 2:
				x := r.I32()
				g.Put(k, x)
				n = int64(x)
			case 3:
				x := r.I64()
				g.Put(k, x)
				n = x
			case 4:
				x := uint(r.U64())
				g.Put(k, x)
				n = int64(x)
			case 5:
				x := r.U32()
				g.Put(k, x)
				n = int64(x)
			default:
				x := r.U64()
				g.Put(k, x)
				n = int64(x)
			}
			vPut(&ref.Data, k, decimal(n))
			return true
		}},
		mutOp{"Put(float)", func(r *vlib.Rand) bool {
			k := someKey(r, ref.Data.Keys)
			if r.Bool() {
				x := r.F32()
				g.Put(k, x)
				vPut(&ref.Data, k, refcodec.V{Tag: refcodec.TFloat, F32: x})
			} else {
				x := r.F64()
				g.Put(k, x)
				vPut(&ref.Data, k, refcodec.V{Tag: refcodec.TDouble, F: x})
			}
			return true
		}},
		mutOp{"Put(string)", func(r *vlib.Rand) bool {
			k, s := someKey(r, ref.Data.Keys), txt(r)
			g.Put(k, s)
			vPut(&ref.Data, k, text(s))
			return true
		}},
		mutOp{"Put(other)", func(r *vlib.Rand) bool { // any other type is stored as its text
			k := someKey(r, ref.Data.Keys)
			if r.Bool() {
				b := r.Bool()
				g.Put(k, b)
				vPut(&ref.Data, k, text(strconv.FormatBool(b)))
			} else {
				x := int8(r.Intn(256) - 128)
				g.Put(k, x)
				vPut(&ref.Data, k, text(strconv.Itoa(int(x))))
			}
			return true
		}},
	)
	h.ops = append(h.ops, observe("(accessors)", func() { g.GetTagHash() }, func() { g.GetTag(someKey(r, ref.Tags.Keys)) }, func() { g.Get(someKey(r, ref.Data.Keys)) },
		func() { g.GetFloat(someKey(r, ref.Data.Keys)) }, func() { g.GetLong(someKey(r, ref.Data.Keys)) }, func() { g.IsEmpty() }, func() { g.Size() },
		func() { g.ToString() }, func() { g.GetPCODE() }, func() { g.GetTime() }, func() { g.GetPackType() }))
	h.afterWrite = func() { ref.TagHash = refcodec.EffectiveTagHash(ref.TagHash, ref.Tags) }
	return h
}

func newLogSinkHistory(r *vlib.Rand) *history {
	ref := genLogSink(r)
	g := toLogSink(ref).(*pack.LogSinkPack)
	h := &history{name: "LogSinkPack", ref: ref, g: g}
	h.ops = append(h.ops, headerOps(&g.AbstractPack, &ref.RefHeader)...)
	h.ops = append(h.ops, mapOps("Tags", &ref.Tags, func() *value.MapValue { return g.Tags }, func(m *value.MapValue) { g.Tags = m })...)
	// the field map may be absent: its in-place mutators apply only while it exists
	var fm refcodec.V
	sync := func() {
		if ref.Fields != nil {
			fm = *ref.Fields
		}
	}
	for _, op := range mapOps("Fields", &fm, func() *value.MapValue { return g.Fields }, func(m *value.MapValue) { g.Fields = m }) {
		op := op
		assign := op.name == "Fields="
		h.ops = append(h.ops, mutOp{op.name, func(r *vlib.Rand) bool {
			if ref.Fields == nil && !assign {
				return false
			}
			sync()
			if !op.do(r) {
				return false
			}
			c := fm
			ref.Fields = &c
			return true
		}})
	}
	h.ops = append(h.ops,
		mutOp{"Fields=nil", func(r *vlib.Rand) bool { g.Fields = nil; ref.Fields = nil; return true }},
		mutOp{"Category=", func(r *vlib.Rand) bool { s := txt(r); g.Category, ref.Category = s, s; return true }},
		mutOp{"TagHash=", func(r *vlib.Rand) bool {
			v := int64(0)
			if r.Bool() {
				v = r.I64()
			}
			g.TagHash, ref.TagHash = v, v
			return true
		}},
		mutOp{"Line=", func(r *vlib.Rand) bool { v := r.I64(); g.Line, ref.Line = v, v; return true }},
		mutOp{"Content=", func(r *vlib.Rand) bool { s := txt(r); g.Content, ref.Content = s, s; return true }},
		mutOp{"SetContent", func(r *vlib.Rand) bool { s := txt(r); g.SetContent(s); ref.Content = s; return true }},
		mutOp{"SetContentBytes", func(r *vlib.Rand) bool {
			switch r.Intn(5) {
			case 0:
				g.SetContentBytes(nil) // nothing to take
			case 1:
				g.SetContentBytes([]byte{}) // nothing to take
			case 2:
				g.SetContentBytes(refcodec.NewW().U8(byte(2+r.Intn(200))).Text("other version").Decimal(7).Bytes()) // not version 1: ignored
			default:
				s, n := txt(r), r.I64()
				g.SetContentBytes(refcodec.NewW().U8(1).Text(s).Decimal(n).Bytes())
				ref.Content, ref.Line = s, n
			}
			return true
		}},
		mutOp{"ResetTagHash", func(r *vlib.Rand) bool {
			g.ResetTagHash()
			ref.TagHash = refcodec.Hash64(refcodec.EncodeValue(ref.Tags))
			return true
		}},
		mutOp{"TransferOidToTag", func(r *vlib.Rand) bool {
			// any subset of object id / kind / node may be unset (0) when the ids are transferred
			if r.Bool() {
				if r.Bool() {
					g.SetOID(0)
					ref.Oid = 0
				}
				if r.Bool() {
					g.SetOKIND(0)
					ref.Okind = 0
				} else if ref.Okind == 0 {
					v := nz32(r)
					g.SetOKIND(v)
					ref.Okind = v
				}
				if r.Bool() {
					g.SetONODE(0)
					ref.Onode = 0
				} else if ref.Onode == 0 {
					v := nz32(r)
					g.SetONODE(v)
					ref.Onode = v
				}
			}
			g.TransferOidToTag()
			for _, e := range []struct {
				k string
				v int32
			}{{"oid", ref.Oid}, {"okind", ref.Okind}, {"onode", ref.Onode}} {
				if e.v != 0 && !vHas(&ref.Tags, e.k) {
					vPut(&ref.Tags, e.k, decimal(int64(e.v)))
					ref.TagHash = 0
				}
			}
			return true
		}},
	)
	h.ops = append(h.ops, observe("(accessors)", func() { g.GetTabAsBytes() }, func() { g.GetContentBytes() }, func() { g.GetContent() }, func() { g.ToString() },
		func() { g.GetPCODE() }, func() { g.GetTime() }))
	h.afterWrite = func() { ref.TagHash = refcodec.EffectiveTagHash(ref.TagHash, ref.Tags) }
	return h
}

func genTextRecs(r *vlib.Rand, n int) ([]refcodec.RefTextRec, []pack.TextRec) {
	var a []refcodec.RefTextRec
	b := make([]pack.TextRec, 0, n+r.Intn(3)) // sometimes with spare capacity
	for i := 0; i < n; i++ {
		rec := refcodec.RefTextRec{Div: byte(r.Intn(256)), Hash: r.I32(), Text: txt(r)}
		a = append(a, rec)
		b = append(b, pack.TextRec{Div: rec.Div, Hash: rec.Hash, Text: rec.Text})
	}
	return a, b
}

func newTextHistory(r *vlib.Rand) *history {
	ref := genText(r)
	if len(ref.Records) > 40 {
		ref.Records = ref.Records[:r.Intn(3)]
	}
	g := toText(ref, r.Bool()).(*pack.TextPack)
	h := &history{name: "TextPack", ref: ref, g: g}
	h.ops = append(h.ops, headerOps(&g.AbstractPack, &ref.RefHeader)...)
	h.ops = append(h.ops,
		mutOp{"AddText", func(r *vlib.Rand) bool {
			a, b := genTextRecs(r, 1)
			g.AddText(b[0])
			ref.Records = append(ref.Records, a...)
			return true
		}},
		mutOp{"AddTexts", func(r *vlib.Rand) bool {
			a, b := genTextRecs(r, r.Range(0, 5))
			g.AddTexts(b)
			ref.Records = append(ref.Records, a...)
			return true
		}},
	)
	h.ops = append(h.ops, h.ops[len(h.ops)-2:]...) // the type's own mutators as often as the header's
	return h
}

func newParamHistory(r *vlib.Rand) *history {
	ref := genParam(r)
	g := toParam(ref).(*pack.ParamPack)
	h := &history{name: "ParamPack", ref: ref, g: g}
	put := func(k string, v refcodec.V) {
		for i := range ref.Keys {
			if ref.Keys[i] == k {
				ref.Vals[i] = v
				return
			}
		}
		ref.Keys = append(ref.Keys, k)
		ref.Vals = append(ref.Vals, v)
	}
	h.ops = append(h.ops, headerOps(&g.AbstractPack, &ref.RefHeader)...)
	h.ops = append(h.ops,
		mutOp{"Id=", func(r *vlib.Rand) bool { v := r.I32(); g.Id, ref.Id = v, v; return true }},
		mutOp{"Request=", func(r *vlib.Rand) bool { v := r.I64(); g.Request, ref.Request = v, v; return true }},
		mutOp{"Response=", func(r *vlib.Rand) bool { v := r.I64(); g.Response, ref.Response = v, v; return true }},
		mutOp{"ToResponse", func(r *vlib.Rand) bool {
			g.ToResponse()
			if ref.Request != 0 {
				ref.Response, ref.Request = ref.Request, 0
			}
			return true
		}},
		mutOp{"Put", func(r *vlib.Rand) bool {
			k, v := someKey(r, ref.Keys), valgen.Gen(r, r.Range(0, 2), r.Range(1, 5))
			g.Put(k, valgen.ToGolib(v))
			put(k, v)
			return true
		}},
		mutOp{"PutString", func(r *vlib.Rand) bool { k, s := someKey(r, ref.Keys), txt(r); g.PutString(k, s); put(k, text(s)); return true }},
		mutOp{"PutLong", func(r *vlib.Rand) bool { k, n := someKey(r, ref.Keys), r.I64(); g.PutLong(k, n); put(k, decimal(n)); return true }},
		mutOp{"SetMapValue", func(r *vlib.Rand) bool {
			if r.Chance(1, 6) {
				g.SetMapValue(nil)
				return true
			}
			o := genMap(r)
			if len(ref.Keys) > 0 && len(o.Keys) > 0 && r.Bool() {
				o.Keys[0] = ref.Keys[r.Intn(len(ref.Keys))]
				for i := 1; i < len(o.Keys); i++ {
					if o.Keys[i] == o.Keys[0] {
						return false
					}
				}
			}
			g.SetMapValue(toMap(o))
			for i := range o.Keys {
				put(o.Keys[i], o.Vals[i])
			}
			return true
		}},
		observe("(accessors)", func() { g.Get(someKey(r, ref.Keys)) }, func() { g.GetString(someKey(r, ref.Keys)) }, func() { g.GetLong(someKey(r, ref.Keys)) },
			func() { k := g.Keys(); for k.HasMoreElements() { k.NextString() } }, func() { g.Size() }, func() { g.ToString() }),
	)
	return h
}

func newEventHistory(r *vlib.Rand) *history {
	ref := genEvent(r)
	if len(ref.AttrKeys) > 200 {
		ref.AttrKeys, ref.AttrVals = ref.AttrKeys[:200], ref.AttrVals[:200]
	}
	g := toEvent(ref).(*pack.EventPack)
	h := &history{name: "EventPack", ref: ref, g: g}
	idx := func(k string) int {
		for i := range ref.AttrKeys {
			if ref.AttrKeys[i] == k {
				return i
			}
		}
		return -1
	}
	del := func(i int) {
		ref.AttrKeys = append(append([]string{}, ref.AttrKeys[:i]...), ref.AttrKeys[i+1:]...)
		ref.AttrVals = append(append([]string{}, ref.AttrVals[:i]...), ref.AttrVals[i+1:]...)
	}
	key := func(r *vlib.Rand) string {
		if r.Chance(1, 8) {
			return reservedEventKeys[r.Intn(4)]
		}
		return someKey(r, ref.AttrKeys)
	}
	room := func() bool { return len(ref.AttrKeys) < 240 }
	h.ops = append(h.ops, headerOps(&g.AbstractPack, &ref.RefHeader)...)
	h.ops = append(h.ops,
		mutOp{"Uuid=", func(r *vlib.Rand) bool {
			s := ""
			if r.Bool() {
				s = r.Str(40)
			}
			g.Uuid, ref.Uuid = s, s
			return true
		}},
		mutOp{"SetUuid", func(r *vlib.Rand) bool {
			g.SetUuid()
			if ref.Uuid == "" {
				ref.Uuid = g.Uuid // a generated identifier: an input of the next send
				return g.Uuid != ""
			}
			return true
		}},
		mutOp{"Escalation=", func(r *vlib.Rand) bool { v := r.Bool(); g.Escalation, ref.Escalation = v, v; return true }},
		mutOp{"Level=", func(r *vlib.Rand) bool { v := byte(r.Intn(256)); g.Level, ref.Level = v, v; return true }},
		mutOp{"Title=", func(r *vlib.Rand) bool { s := txt(r); g.Title, ref.Title = s, s; return true }},
		mutOp{"Message=", func(r *vlib.Rand) bool { s := txt(r); g.Message, ref.Message = s, s; return true }},
		mutOp{"Status=", func(r *vlib.Rand) bool { v := r.I32(); g.Status, ref.Status = v, v; return true }},
		mutOp{"Otype=", func(r *vlib.Rand) bool { v := r.I32(); g.Otype, ref.Otype = v, v; return true }},
		mutOp{"Eid=", func(r *vlib.Rand) bool { g.Eid = r.I64(); return true }}, // not on the wire
		mutOp{"Attr.Put", func(r *vlib.Rand) bool {
			if !room() {
				return false
			}
			k, s := key(r), txt(r)
			g.Attr.Put(k, s)
			if i := idx(k); i >= 0 {
				ref.AttrVals[i] = s
			} else {
				ref.AttrKeys, ref.AttrVals = append(ref.AttrKeys, k), append(ref.AttrVals, s)
			}
			return true
		}},
		mutOp{"Attr.PutFirst", func(r *vlib.Rand) bool {
			if !room() {
				return false
			}
			k, s := key(r), txt(r)
			g.Attr.PutFirst(k, s)
			if i := idx(k); i >= 0 {
				del(i)
			}
			ref.AttrKeys, ref.AttrVals = append([]string{k}, ref.AttrKeys...), append([]string{s}, ref.AttrVals...)
			return true
		}},
		mutOp{"Attr.PutLast", func(r *vlib.Rand) bool {
			if !room() {
				return false
			}
			k, s := key(r), txt(r)
			g.Attr.PutLast(k, s)
			if i := idx(k); i >= 0 {
				del(i)
			}
			ref.AttrKeys, ref.AttrVals = append(ref.AttrKeys, k), append(ref.AttrVals, s)
			return true
		}},
		mutOp{"Attr.Remove", func(r *vlib.Rand) bool {
			if len(ref.AttrKeys) == 0 {
				g.Attr.Remove("absent")
				return true
			}
			i := r.Intn(len(ref.AttrKeys))
			g.Attr.Remove(ref.AttrKeys[i])
			del(i)
			return true
		}},
		mutOp{"Attr.RemoveFirst", func(r *vlib.Rand) bool {
			if len(ref.AttrKeys) == 0 {
				return false
			}
			g.Attr.RemoveFirst()
			del(0)
			return true
		}},
		mutOp{"Attr.RemoveLast", func(r *vlib.Rand) bool {
			if len(ref.AttrKeys) == 0 {
				return false
			}
			g.Attr.RemoveLast()
			del(len(ref.AttrKeys) - 1)
			return true
		}},
		mutOp{"Attr.Clear", func(r *vlib.Rand) bool { g.Attr.Clear(); ref.AttrKeys, ref.AttrVals = nil, nil; return true }},
		mutOp{"Attr=", func(r *vlib.Rand) bool {
			m := hmap.NewStringKeyLinkedMap()
			ref.AttrKeys, ref.AttrVals = valgen.StrKeys(r, r.Range(0, 6)), nil
			for _, k := range ref.AttrKeys {
				s := txt(r)
				ref.AttrVals = append(ref.AttrVals, s)
				m.Put(k, s)
			}
			g.Attr = m
			return true
		}},
		observe("(accessors)", func() { g.Size() }, func() { g.ToString() }, func() { g.Attr.Get(someKey(r, ref.AttrKeys)) }, func() { g.Attr.ContainsKey("_uuid_") },
			func() { g.Attr.KeyArray() }, func() { g.Attr.GetFirstKey() }, func() { g.Attr.GetLastValue() }),
	)
	return h
}

func newZipHistory(r *vlib.Rand) *history {
	ref := genZip(r)
	g := toZip(ref).(*pack.ZipPack)
	h := &history{name: "ZipPack", ref: ref, g: g}
	h.ops = append(h.ops, headerOps(&g.AbstractPack, &ref.RefHeader)...)
	h.ops = append(h.ops,
		mutOp{"Status=", func(r *vlib.Rand) bool { v := byte(r.Intn(256)); g.Status, ref.Status = v, v; return true }},
		mutOp{"RecordCount=", func(r *vlib.Rand) bool { v := int(r.I64()); g.RecordCount, ref.RecordCount = v, int64(v); return true }},
		mutOp{"Records=", func(r *vlib.Rand) bool {
			b := r.Blob(3000)
			ref.Records = b
			if b == nil {
				g.Records = nil
			} else {
				g.Records = append(make([]byte, 0, len(b)), b...)
			}
			return true
		}},
		mutOp{"Records[i]=", func(r *vlib.Rand) bool {
			if len(ref.Records) == 0 {
				return false
			}
			i, v := r.Intn(len(ref.Records)), byte(r.Intn(256))
			g.Records[i], ref.Records[i] = v, v
			return true
		}},
		mutOp{"SetRecords", func(r *vlib.Rand) bool {
			var items []pack.Pack
			w := refcodec.NewW()
			n := r.Range(0, 4)
			for k := 0; k < n; k++ {
				ir, mk := genAnyPack(r, r.Intn(8), 0)
				items = append(items, mk())
				w.Pack(ir)
			}
			g.SetRecords(items)
			ref.RecordCount = int64(n)
			ref.Records = append([]byte{}, w.Bytes()...)
			return true
		}},
	)
	h.ops = append(h.ops, h.ops[len(h.ops)-5:]...)
	h.ops = append(h.ops, observe("(accessors)", func() { g.ToString() }, func() { g.GetRecords() }))
	return h
}

// hitMapCell is the cell of a response time (ms) in the 120-cell hit map of the layout:
// 40 cells of 125 ms up to 5 s, 20 of 250 ms up to 10 s, 20 of 500 ms up to 20 s, 20 of 1 s up
// to 40 s, 20 of 2 s up to 80 s; anything longer falls into the last cell.
func hitMapCell(ms int) int {
	bands := []struct{ from, width, first int }{{0, 125, 0}, {5000, 250, 40}, {10000, 500, 60}, {20000, 1000, 80}, {40000, 2000, 100}}
	if ms >= 80000 {
		return 119
	}
	for i := len(bands) - 1; i >= 0; i-- {
		if ms >= bands[i].from {
			return bands[i].first + (ms-bands[i].from)/bands[i].width
		}
	}
	return 0
}

func newHitMapHistory(r *vlib.Rand) *history {
	ref := genHitMap(r)
	g := toHitMap(ref).(*pack.HitMapPack1)
	h := &history{name: "HitMapPack1", ref: ref, g: g}
	h.ops = append(h.ops, headerOps(&g.AbstractPack, &ref.RefHeader)...)
	edges := []int{0, 124, 125, 4999, 5000, 5249, 5250, 9999, 10000, 10499, 19999, 20000, 20999, 39999, 40000, 41999, 42000, 79999, 80000, 80001, 1 << 30}
	own := []mutOp{
		{"Add", func(r *vlib.Rand) bool {
			for k := r.Range(1, 12); k > 0; k-- {
				ms := r.Intn(100000)
				if r.Chance(1, 3) {
					ms = edges[r.Intn(len(edges))]
				}
				isErr := r.Bool()
				cell := hitMapCell(ms)
				if ref.Hit[cell] >= 65535 || ref.Error[cell] >= 65535 {
					continue // the layout has 16 bits per cell
				}
				g.Add(ms, isErr)
				ref.Hit[cell]++
				if isErr {
					ref.Error[cell]++
				}
			}
			return true
		}},
		{"Hit[i]=,Error[i]=", func(r *vlib.Rand) bool {
			i, a, b := r.Intn(refcodec.HitMapLength), cellEdges[r.Intn(len(cellEdges))], int32(r.Intn(65536))
			g.Hit[i], ref.Hit[i], g.Error[i], ref.Error[i] = a, a, b, b
			return true
		}},
		{"Hit=,Error=", func(r *vlib.Rand) bool {
			n := genHitMap(r)
			ref.Hit, ref.Error = n.Hit, n.Error
			g.Hit = append(make([]int32, 0, refcodec.HitMapLength), n.Hit...)
			g.Error = append(make([]int32, 0, refcodec.HitMapLength), n.Error...)
			return true
		}},
	}
	h.ops = append(h.ops, own...)
	h.ops = append(h.ops, own...)
	h.ops = append(h.ops, observe("(accessors)", func() { g.HitMapIndex(r.Intn(100000)) }, func() { g.HitMapTime(r.Intn(120)) }, func() { g.ToString() }))
	return h
}

func newCounterHistory(r *vlib.Rand) *history {
	ref := genCounter(r)
	var acts []int16
	if r.Bool() {
		acts = []int16{r.I16(), r.I16()}
	}
	g := toCounter(ref, acts).(*pack.CounterPack1)
	h := &history{name: "CounterPack1", ref: ref, g: g}
	h.ops = append(h.ops, headerOps(&g.AbstractPack, &ref.RefHeader)...)
	meter := func(r *vlib.Rand) (refcodec.RefTxMeter, *pack.TxMeter) {
		m := genTxMeter(r)
		t := txMeter(m, acts)
		return m, &t
	}
	pairPut := func(m *[]refcodec.RefIntPair, k, v int32) {
		for i := range *m {
			if (*m)[i].K == k {
				(*m)[i].V = v
				return
			}
		}
		*m = append(*m, refcodec.RefIntPair{K: k, V: v})
	}
	dbOps := func(name string, has *bool, m *[]refcodec.RefIntPair, get func() *hmap.IntIntMap, set func(*hmap.IntIntMap)) []mutOp {
		return []mutOp{
			{name + ".Put", func(r *vlib.Rand) bool {
				if !*has {
					return false
				}
				k, v := r.I32(), r.I32()
				if len(*m) > 0 && r.Bool() {
					k = (*m)[r.Intn(len(*m))].K
				}
				get().Put(k, v)
				pairPut(m, k, v)
				return true
			}},
			{name + ".Remove", func(r *vlib.Rand) bool {
				if !*has || len(*m) == 0 {
					return false
				}
				i := r.Intn(len(*m))
				get().Remove((*m)[i].K)
				*m = append(append([]refcodec.RefIntPair{}, (*m)[:i]...), (*m)[i+1:]...)
				return true
			}},
			{name + ".Clear", func(r *vlib.Rand) bool {
				if !*has {
					return false
				}
				get().Clear()
				*m = nil
				return true
			}},
			{name + "=", func(r *vlib.Rand) bool {
				if r.Chance(1, 4) {
					set(nil)
					*has, *m = false, nil
					return true
				}
				*has, *m = true, genIntPairs(r)
				set(intIntMap(*m))
				return true
			}},
		}
	}
	h.ops = append(h.ops, dbOps("DbNumActive", &ref.HasDbNumActive, &ref.DbNumActive, func() *hmap.IntIntMap { return g.DbNumActive }, func(m *hmap.IntIntMap) { g.DbNumActive = m })...)
	h.ops = append(h.ops, dbOps("DbNumIdle", &ref.HasDbNumIdle, &ref.DbNumIdle, func() *hmap.IntIntMap { return g.DbNumIdle }, func(m *hmap.IntIntMap) { g.DbNumIdle = m })...)
	intMeterOps := func(name string, has *bool, m *[]refcodec.RefIntMeter, get func() *hmap.IntKeyLinkedMap, mkv func(t *pack.TxMeter) interface{}, tx func(v interface{}) *pack.TxMeter) []mutOp {
		return []mutOp{
			{name + ".Put", func(r *vlib.Rand) bool {
				if !*has {
					return false
				}
				k := r.I32()
				at := -1
				if len(*m) > 0 && r.Bool() {
					at = r.Intn(len(*m))
					k = (*m)[at].Key
				} else {
					for i := range *m {
						if (*m)[i].Key == k {
							at = i
						}
					}
				}
				rm, t := meter(r)
				get().Put(k, mkv(t))
				if at >= 0 {
					(*m)[at].RefTxMeter = rm
				} else {
					*m = append(*m, refcodec.RefIntMeter{Key: k, RefTxMeter: rm})
				}
				return true
			}},
			{name + ".Remove", func(r *vlib.Rand) bool {
				if !*has || len(*m) == 0 {
					return false
				}
				i := r.Intn(len(*m))
				get().Remove((*m)[i].Key)
				*m = append(append([]refcodec.RefIntMeter{}, (*m)[:i]...), (*m)[i+1:]...)
				return true
			}},
			{name + ".Clear", func(r *vlib.Rand) bool {
				if !*has {
					return false
				}
				get().Clear()
				*m = nil
				return true
			}},
			{name + "[k].Count=", func(r *vlib.Rand) bool { // through the stored pointer
				if !*has || len(*m) == 0 {
					return false
				}
				i := r.Intn(len(*m))
				t := tx(get().Get((*m)[i].Key))
				v, e, tm := r.I32(), r.I32(), r.I64()
				t.Count, t.Error, t.Time = v, e, tm
				(*m)[i].Count, (*m)[i].Error, (*m)[i].Time = v, e, tm
				return true
			}},
		}
	}
	h.ops = append(h.ops, intMeterOps("TxcallerOidMeter", &ref.HasTxcallerOidMeter, &ref.TxcallerOidMeter, func() *hmap.IntKeyLinkedMap { return g.TxcallerOidMeter },
		func(t *pack.TxMeter) interface{} { return t }, func(v interface{}) *pack.TxMeter { return v.(*pack.TxMeter) })...)
	h.ops = append(h.ops, intMeterOps("HttpcMeter", &ref.HasHttpcMeter, &ref.HttpcMeter, func() *hmap.IntKeyLinkedMap { return g.HttpcMeter },
		func(t *pack.TxMeter) interface{} { t.Acts = nil; return &pack.HttpcMeter{TxMeter: *t} }, func(v interface{}) *pack.TxMeter { return &v.(*pack.HttpcMeter).TxMeter })...)
	h.ops = append(h.ops,
		mutOp{"SqlMeter.Put", func(r *vlib.Rand) bool {
			if !ref.HasSqlMeter {
				return false
			}
			k := r.I32()
			at := -1
			if len(ref.SqlMeter) > 0 && r.Bool() {
				at = r.Intn(len(ref.SqlMeter))
				k = ref.SqlMeter[at].Key
			} else {
				for i := range ref.SqlMeter {
					if ref.SqlMeter[i].Key == k {
						at = i
					}
				}
			}
			e := refcodec.RefSqlMeter{Key: k, RefTxMeter: genTxMeter(r), FetchCount: r.I64(), FetchTime: r.I64()}
			g.SqlMeter.Put(k, &pack.SqlMeter{TxMeter: txMeter(e.RefTxMeter, nil), FetchCount: e.FetchCount, FetchTime: e.FetchTime})
			if at >= 0 {
				ref.SqlMeter[at] = e
			} else {
				ref.SqlMeter = append(ref.SqlMeter, e)
			}
			return true
		}},
		mutOp{"SqlMeter.Remove", func(r *vlib.Rand) bool {
			if !ref.HasSqlMeter || len(ref.SqlMeter) == 0 {
				return false
			}
			i := r.Intn(len(ref.SqlMeter))
			g.SqlMeter.Remove(ref.SqlMeter[i].Key)
			ref.SqlMeter = append(append([]refcodec.RefSqlMeter{}, ref.SqlMeter[:i]...), ref.SqlMeter[i+1:]...)
			return true
		}},
		mutOp{"SqlMeter[k].FetchCount=", func(r *vlib.Rand) bool {
			if !ref.HasSqlMeter || len(ref.SqlMeter) == 0 {
				return false
			}
			i := r.Intn(len(ref.SqlMeter))
			v := r.I64()
			g.SqlMeter.Get(ref.SqlMeter[i].Key).(*pack.SqlMeter).FetchCount = v
			ref.SqlMeter[i].FetchCount = v
			return true
		}},
		mutOp{"TxcallerGroupMeter.Put", func(r *vlib.Rand) bool {
			if !ref.HasTxcallerGroupMeter {
				return false
			}
			pc, ok := r.I64(), r.I32()
			at := -1
			if len(ref.TxcallerGroupMeter) > 0 && r.Bool() {
				at = r.Intn(len(ref.TxcallerGroupMeter))
				pc, ok = ref.TxcallerGroupMeter[at].Pcode, ref.TxcallerGroupMeter[at].Okind
			} else {
				for i, e := range ref.TxcallerGroupMeter {
					if e.Pcode == pc && e.Okind == ok {
						at = i
					}
				}
			}
			rm := genTxMeter(r)
			t := txMeter(rm, nil)
			g.TxcallerGroupMeter.Put(lang.NewPKIND(pc, ok), &t)
			if at >= 0 {
				ref.TxcallerGroupMeter[at].RefTxMeter = rm
			} else {
				ref.TxcallerGroupMeter = append(ref.TxcallerGroupMeter, refcodec.RefPKindMeter{Pcode: pc, Okind: ok, RefTxMeter: rm})
			}
			return true
		}},
		mutOp{"TxcallerGroupMeter.Remove", func(r *vlib.Rand) bool {
			if !ref.HasTxcallerGroupMeter || len(ref.TxcallerGroupMeter) == 0 {
				return false
			}
			i := r.Intn(len(ref.TxcallerGroupMeter))
			g.TxcallerGroupMeter.Remove(lang.NewPKIND(ref.TxcallerGroupMeter[i].Pcode, ref.TxcallerGroupMeter[i].Okind))
			ref.TxcallerGroupMeter = append(append([]refcodec.RefPKindMeter{}, ref.TxcallerGroupMeter[:i]...), ref.TxcallerGroupMeter[i+1:]...)
			return true
		}},
		mutOp{"TxcallerPOidMeter.Put", func(r *vlib.Rand) bool {
			if !ref.HasTxcallerPOidMeter {
				return false
			}
			pc, oid := r.I64(), r.I32()
			at := -1
			if len(ref.TxcallerPOidMeter) > 0 && r.Bool() {
				at = r.Intn(len(ref.TxcallerPOidMeter))
				pc, oid = ref.TxcallerPOidMeter[at].Pcode, ref.TxcallerPOidMeter[at].Oid
			} else {
				for i, e := range ref.TxcallerPOidMeter {
					if e.Pcode == pc && e.Oid == oid {
						at = i
					}
				}
			}
			rm, t := meter(r)
			g.TxcallerPOidMeter.Put(lang.NewPOID(pc, oid), t)
			if at >= 0 {
				ref.TxcallerPOidMeter[at].RefTxMeter = rm
			} else {
				ref.TxcallerPOidMeter = append(ref.TxcallerPOidMeter, refcodec.RefPOidMeter{Pcode: pc, Oid: oid, RefTxMeter: rm})
			}
			return true
		}},
		mutOp{"TxcallerPOidMeter.Clear", func(r *vlib.Rand) bool {
			if !ref.HasTxcallerPOidMeter {
				return false
			}
			g.TxcallerPOidMeter.Clear()
			ref.TxcallerPOidMeter = nil
			return true
		}},
		mutOp{"Netstat.*=", func(r *vlib.Rand) bool {
			if ref.Netstat == nil {
				return false
			}
			a, b := r.I32(), r.I32()
			g.Netstat.Est, g.Netstat.TimW, ref.Netstat.Est, ref.Netstat.TimW = a, b, a, b
			return true
		}},
		mutOp{"Websocket.*=", func(r *vlib.Rand) bool {
			if ref.Websocket == nil {
				return false
			}
			a, b := r.I32(), r.I64()
			g.Websocket.Count, g.Websocket.Out, ref.Websocket.Count, ref.Websocket.Out = a, b, a, b
			return true
		}},
		mutOp{"TxcallerUnknown.*=", func(r *vlib.Rand) bool {
			if ref.TxcallerUnknown == nil {
				return false
			}
			a, b := r.I64(), r.I32()
			g.TxcallerUnknown.Time, g.TxcallerUnknown.Actx, ref.TxcallerUnknown.Time, ref.TxcallerUnknown.Actx = a, b, a, b
			return true
		}},
		mutOp{"Extra.Put*", func(r *vlib.Rand) bool {
			if ref.Extra == nil {
				return false
			}
			k := r.I32()
			if len(ref.Extra.IntKeys) > 0 && r.Bool() {
				k = ref.Extra.IntKeys[r.Intn(len(ref.Extra.IntKeys))]
			}
			switch r.Intn(3) {
			case 0:
				s := txt(r)
				g.Extra.PutString(k, s)
				vIntPut(ref.Extra, k, text(s))
			case 1:
				n := r.I64()
				g.Extra.PutLong(k, n)
				vIntPut(ref.Extra, k, decimal(n))
			default:
				v := valgen.Leaf(r, 3)
				g.Extra.Put(k, valgen.ToGolib(v))
				vIntPut(ref.Extra, k, v)
			}
			return true
		}},
		mutOp{"Extra.Clear", func(r *vlib.Rand) bool {
			if ref.Extra == nil {
				return false
			}
			g.Extra.Clear()
			ref.Extra.IntKeys, ref.Extra.Vals = nil, nil
			return true
		}},
		mutOp{"ActSvcSlice[i]=,ActiveStat[i]=", func(r *vlib.Rand) bool {
			if len(ref.ActSvcSlice) == 0 || len(ref.ActiveStat) == 0 {
				return false
			}
			i, j, a, b := r.Intn(len(ref.ActSvcSlice)), r.Intn(len(ref.ActiveStat)), r.I16(), r.I16()
			g.ActSvcSlice[i], ref.ActSvcSlice[i], g.ActiveStat[j], ref.ActiveStat[j] = a, a, b, b
			return true
		}},
		// exported fields, reassigned: a random subset of all fields takes new values (sections
		// appear, disappear or are replaced by new objects)
		mutOp{"fields=", func(r *vlib.Rand) bool {
			n := genCounter(r)
			dst, src := reflect.ValueOf(ref).Elem(), reflect.ValueOf(n).Elem()
			groups := map[string]string{"DbNumActive": "HasDbNumActive", "DbNumIdle": "HasDbNumIdle", "TxcallerOidMeter": "HasTxcallerOidMeter",
				"SqlMeter": "HasSqlMeter", "HttpcMeter": "HasHttpcMeter", "TxcallerGroupMeter": "HasTxcallerGroupMeter", "TxcallerPOidMeter": "HasTxcallerPOidMeter"}
			flags := map[string]bool{}
			for _, f := range groups {
				flags[f] = true
			}
			for i := 0; i < dst.NumField(); i++ {
				name := dst.Type().Field(i).Name
				if name == "RefHeader" || flags[name] || !r.Chance(1, 3) {
					continue
				}
				dst.Field(i).Set(src.Field(i))
				if f, ok := groups[name]; ok {
					dst.FieldByName(f).Set(src.FieldByName(f))
				}
			}
			fillCounter(g, ref, acts)
			return true
		}},
	)
	return h
}

var historyMakers = []func(r *vlib.Rand) *history{newTagCountHistory, newLogSinkHistory, newTextHistory, newParamHistory,
	newEventHistory, newZipHistory, newHitMapHistory, newCounterHistory}

// ---- one history ---------------------------------------------------------------------------------

type histSend struct {
	snap     refcodec.RefPack
	plan     sendPlan
	mutators []string // applied since the previous send
}

func runHistory(c *vlib.Ctx, caseID string, i int, r *vlib.Rand) {
	h := historyMakers[i%len(historyMakers)](r)
	nSends := r.Range(2, 4)
	queued := r.Chance(1, 4)
	defLic := genLicense(r)
	ovrLic := genLicense(r)

	col, err := getCollector() // the shard's long-lived listener: one connection per history
	if err != nil {
		c.Inconclusive(caseID, "cannot listen on loopback: "+err.Error())
		c.Eval(-1)
		return
	}
	copts := []oneway.OneWayTcpClientOption{oneway.WithServers([]string{col.addr}), oneway.WithLicense(defLic), oneway.WithPcode(r.I64()), oneway.WithOid(r.I32())}
	if queued {
		copts = append(copts, oneway.WithUseQueue())
	}
	cl := oneway.NewOneWayTcpClientVerif(copts...)
	var sends []histSend
	sendErr := ""
	imagesOK := true
	for s := 0; s < nSends && sendErr == ""; s++ {
		var applied []string
		if s > 0 {
			want := r.Range(1, 4)
			for tries := 0; len(applied) < want && tries < 40; tries++ {
				op := h.ops[r.Intn(len(h.ops))]
				if op.do(r) {
					applied = append(applied, op.name)
					c.SetAdd("mutators_covered", h.name+":"+op.name)
					c.Count("history_mutations", 1)
				}
			}
		}
		// now and then the application also takes the image of the pack between two sends
		if r.Chance(1, 3) {
			snap := snapshot(h.ref)
			var image []byte
			if p := vlib.Catch(func() { image = pack.ToBytesPack(h.g) }); p != nil {
				c.Fail(h.name+":encode-panics/after-mutation", fmt.Sprintf("%s: ToBytesPack panicked after %v: %v", h.name, applied, p),
					map[string]interface{}{"panic": fmt.Sprint(p), "mutators": applied, "reference_pack": render(snap)})
				imagesOK = false
				break
			}
			if cp, ok := snap.(*refcodec.RefCounterPack); ok {
				alignUnordered(cp, image)
			}
			x := newExpectation(snap, "")
			if s > 0 {
				x.sfx = "/after-mutation"
			}
			if !diffPayload(c, x, fmt.Sprintf("ToBytesPack image before send %d of %d", s+1, nSends), image, map[string]interface{}{"mutators_since_previous_send": applied, "history": historyText(sends)}) {
				imagesOK = false
			}
			c.Count("history_images_compared", 1)
			if h.afterWrite != nil {
				h.afterWrite()
			}
		}
		pl := sendPlan{flush: r.Bool(), withLic: r.Chance(1, 4), lic: defLic}
		if pl.withLic && ovrLic != "" {
			pl.lic = ovrLic
		}
		var opts []wnet.TcpClientOption
		if pl.withLic {
			opts = append(opts, wnet.WithLicense(ovrLic))
		}
		sends = append(sends, histSend{snap: snapshot(h.ref), plan: pl, mutators: applied})
		var e error
		if pl.flush {
			e = cl.SendFlush(h.g, true, opts...)
		} else {
			e = cl.Send(h.g, opts...)
		}
		if e == nil && queued {
			e = cl.SendAndClear() // the queue holds the object itself: it is encoded here, before the next mutation
		}
		if e != nil {
			sendErr = fmt.Sprintf("send %d (%s) returned %v", s+1, pl, e)
		}
		if h.afterWrite != nil {
			h.afterWrite()
		}
	}
	local := clientLocalAddr(cl)
	cl.VerifCloseLocked()
	cl.VerifCancel()
	data, reason := collectOne(col, local, sendErr)
	if reason != "" {
		resetCollector()
		c.Inconclusive(caseID, reason)
		c.Eval(-1)
		return
	}
	off := 0
	allOK := imagesOK
	for k, sd := range sends {
		var actual []byte
		if len(data)-off >= 22 {
			al := int(int32(binary.BigEndian.Uint32(data[off+18 : off+22])))
			if al >= 0 && off+22+al <= len(data) {
				actual = data[off : off+22+al]
			}
		}
		if actual == nil {
			actual = data[off:]
		}
		if cp, isC := sd.snap.(*refcodec.RefCounterPack); isC && len(actual) > 22 {
			if n := alignUnordered(cp, actual[22:]); n > 0 {
				c.Count("unordered_maps_aligned", int64(n))
			}
		}
		x := newExpectation(sd.snap, "")
		if k > 0 {
			x.sfx = "/after-mutation"
		}
		frame := refcodec.Frame(10, 0, sd.snap.Hdr().Pcode, refcodec.Hash64([]byte(sd.plan.lic)), x.payload)
		extra := map[string]interface{}{"send": k + 1, "of": len(sends), "mutators_since_previous_send": sd.mutators, "history": historyText(sends[:k+1]),
			"queue_mode": queued, "default_license": vlib.Hex([]byte(defLic)), "override_license": vlib.Hex([]byte(ovrLic))}
		c.Count("history_frames_compared", 1)
		if k > 0 {
			c.Count("history_frames_after_mutation", 1)
		}
		if !diffStream(c, x, []sendPlan{sd.plan}, [][]byte{frame}, actual, extra) {
			allOK = false
			break // what follows a differing frame cannot be delimited reliably
		}
		off += len(actual)
	}
	if allOK && off != len(data) {
		allOK = false
		c.Fail(h.name+":length-differs/after-mutation", fmt.Sprintf("%s: %d bytes follow the %d frames of the history", h.name, len(data)-off, len(sends)),
			map[string]interface{}{"history": historyText(sends), "trailing": window(data, off)})
	}
	c.Count("histories", 1)
	c.Count("histories_"+h.name, 1)
	if queued {
		c.Count("histories_queue_mode", 1)
	}
	c.DistinctBytes(data)
	if c.WantSample() && len(data) < 1500 && r.Chance(1, 6) {
		c.Sample(map[string]interface{}{"section": "history", "pack": h.name, "history": historyText(sends), "frames": len(sends), "stream_bytes": len(data), "all_equal": allOK})
	}
}

func historyText(sends []histSend) []string {
	var out []string
	for k, s := range sends {
		if k > 0 {
			out = append(out, fmt.Sprintf("mutate %v", s.mutators))
		}
		out = append(out, fmt.Sprintf("send %d: %s", k+1, s.plan))
	}
	return out
}


// collectOne takes the byte stream of the one connection a case made to the shard's collector
// (the client has closed it). reason != "": the case cannot be judged.
func collectOne(col *collector, local, sendErr string) (data []byte, reason string) {
	if sendErr != "" || local == "" {
		return nil, "send on a healthy loopback connection failed: " + sendErr
	}
	select {
	case res := <-col.results:
		if res.remote != local {
			return nil, fmt.Sprintf("the peer's connection %s is not the client's %s", res.remote, local)
		}
		if res.err != nil {
			return nil, "the peer's read ended with " + res.err.Error() + " instead of EOF"
		}
		return res.data, ""
	case <-time.After(watchdog):
		return nil, "watchdog: the peer did not see EOF of the client connection"
	}
}
