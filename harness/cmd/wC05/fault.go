package main

// Section "fault": the framing clause under connection faults.
//
// The peer ends a connection (reset or orderly close) after exactly N received bytes, with N
// inside a frame header, inside a body, at a frame boundary, and inside frames larger than the
// client's 2 MiB write buffer that are in flight against a peer with a small receive buffer.
// The client goes on sending (it reconnects by itself on a later send). Which packs get lost
// is not looked at (C06's subject). Oracle, on bytes only: EVERY connection's stream starts
// with a well-formed frame header and consists of whole frames, each equal to the reference
// frame of a pack handed to the client; only a connection the peer itself cut may end inside
// a frame, and those last bytes must be the beginning of such a reference frame.

import (
	"fmt"
	"sync"
	"time"

	"github.com/whatap/golib/lang/pack"
	wnet "github.com/whatap/golib/net"
	"github.com/whatap/golib/net/oneway"

	"verif/refcodec"
	"verif/vlib"
)

var faultKinds = []string{"direct-single", "direct-multi", "direct-big-inflight", "queue-drain-over-reset"}

func runFault(c *vlib.Ctx, caseID string, i int, r *vlib.Rand) {
	kind := faultKinds[i%len(faultKinds)]
	senders := 1
	total := r.Range(12, 60)
	rcvbuf := 0
	switch kind {
	case "direct-multi":
		senders = r.Range(2, 6)
		total = r.Range(30, 120)
	case "direct-big-inflight":
		total = r.Range(4, 8)
		rcvbuf = 16 << 10
	case "queue-drain-over-reset":
		total = r.Range(30, 60)
	}
	defLic := genLicense(r)
	ovrLic := genLicense(r)
	if ovrLic == "" {
		ovrLic = "o"
	}
	idBase := (r.I64() &^ 0xFFFFF) & 0x7FFFFFFFFFFFFFFF

	var all []*sentPack
	items := make([]concItem, 0, total)
	bigAt := -1
	if kind == "direct-big-inflight" {
		bigAt = r.Intn(total - 1)
	}
	for n := 0; n < total; n++ {
		big := 0
		switch {
		case n == bigAt:
			big = []int{2<<20 + 5000, 5 << 20, 7 << 20}[r.Intn(3)]
		case kind == "queue-drain-over-reset" && n > 0:
			big = r.Range(50<<10, 150<<10)
		case kind != "direct-big-inflight" && r.Chance(1, 15):
			big = r.Range(70<<10, 400<<10)
		}
		ref, mk := genAnyPack(r, r.Intn(8), big)
		ref.Hdr().Time = idBase | int64(n)
		x := newExpectation(ref, "")
		pl := sendPlan{flush: r.Bool(), withLic: r.Chance(1, 5), lic: defLic}
		if pl.withLic {
			pl.lic = ovrLic
		}
		sp := &sentPack{id: ref.Hdr().Time, x: x, lic: pl.lic,
			frame: refcodec.Frame(10, 0, ref.Hdr().Pcode, refcodec.Hash64([]byte(pl.lic)), x.payload),
			who:   fmt.Sprintf("%s (#%d, %s, %d bytes)", x.name, n, pl, 22+len(x.payload))}
		all = append(all, sp)
		items = append(items, concItem{sp: sp, mk: mk, plan: pl})
	}

	// cut plans: where in the stream of a connection the peer ends it
	offsetIn := func(from, frameLen int) int {
		switch r.Intn(6) {
		case 0:
			return from + r.Range(1, 21) // inside the frame header
		case 1:
			return from + 22 // between header and payload
		case 2:
			return from + frameLen // at the frame boundary
		case 3:
			return from + frameLen - 1
		default:
			return from + r.Range(1, frameLen-1)
		}
	}
	var plans []cutPlan
	nCuts := r.Range(1, 3)
	switch kind {
	case "direct-big-inflight":
		// connection 0 is cut inside the big frame, early enough that most of it is still on
		// the client's side
		from := 0
		for n := 0; n < bigAt; n++ {
			from += len(all[n].frame)
		}
		plans = append(plans, cutPlan{after: from + r.Range(1, 600<<10), rst: !r.Chance(1, 4)})
		if r.Bool() {
			plans = append(plans, cutPlan{after: r.Range(1, 3000), rst: r.Bool()})
		}
	case "queue-drain-over-reset":
		// connection 0 is reset right after the first (small) frame, while the client is idle
		plans = append(plans, cutPlan{after: len(all[0].frame), rst: true})
		if r.Bool() {
			plans = append(plans, cutPlan{after: r.Range(1, 3<<20), rst: r.Bool()})
		}
	default:
		from, n := 0, 0
		for k := 0; k < nCuts; k++ {
			// on connection 0 the layout is known for a single sender; later connections start
			// with whatever pack comes next, so the offset is drawn against typical frame sizes
			skip := r.Intn(mini(6, total-n))
			for s := 0; s < skip; s++ {
				from += len(all[n].frame)
				n++
			}
			plans = append(plans, cutPlan{after: offsetIn(from, len(all[n].frame)), rst: r.Bool()})
			from, n = 0, mini(n+2, total-1)
		}
	}

	pr, err := newPeer(plans, rcvbuf)
	if err != nil {
		c.Inconclusive(caseID, "cannot listen on loopback: "+err.Error())
		c.Eval(-1)
		return
	}
	copts := []oneway.OneWayTcpClientOption{oneway.WithServers([]string{pr.addr}), oneway.WithLicense(defLic), oneway.WithPcode(r.I64()), oneway.WithOid(r.I32())}
	queued := kind == "queue-drain-over-reset"
	if queued {
		copts = append(copts, oneway.WithUseQueue(), oneway.WithQueueSize(0))
	}
	cl := oneway.NewOneWayTcpClientVerif(copts...)
	label := fmt.Sprintf("%s kind=%s senders=%d packs=%d cuts=%+v", caseID, kind, senders, total, plans)

	var mu sync.Mutex
	sendErrors, bigErrors := 0, 0
	sendOne := func(it concItem) {
		p := it.mk()
		var opts []wnet.TcpClientOption
		if it.plan.withLic {
			opts = append(opts, wnet.WithLicense(ovrLic))
		}
		var e error
		if it.plan.flush {
			e = cl.SendFlush(p, true, opts...)
		} else {
			e = cl.Send(p, opts...)
		}
		if e == nil {
			it.sp.accepted = true
			return
		}
		it.sp.errText = e.Error()
		mu.Lock()
		sendErrors++
		if len(it.sp.frame) > 2<<20 {
			bigErrors++
		}
		mu.Unlock()
	}
	switch {
	case queued:
		sendOne(items[0])
		if e := cl.SendAndClear(); e != nil {
			mu.Lock()
			sendErrors++
			mu.Unlock()
		}
		// wait for the event "the peer has reset connection 0" (a protocol event, not a verdict)
		for k := 0; k < 5000; k++ {
			pr.mu.Lock()
			var pc0 *peerConn
			if len(pr.conns) > 0 {
				pc0 = pr.conns[0]
			}
			pr.mu.Unlock()
			if pc0 != nil {
				pc0.mu.Lock()
				cut := pc0.cut
				pc0.mu.Unlock()
				if cut {
					break
				}
			}
			time.Sleep(time.Millisecond)
		}
		time.Sleep(20 * time.Millisecond) // let the reset reach the client's socket
		for _, it := range items[1:] {
			sendOne(it)
		}
		for k := 0; k < 8 && cl.Queue.Size() > 0; k++ {
			if e := cl.SendAndClear(); e != nil {
				mu.Lock()
				sendErrors++
				mu.Unlock()
			}
		}
	case senders == 1:
		for _, it := range items {
			sendOne(it)
		}
	default:
		var wg sync.WaitGroup
		for s := 0; s < senders; s++ {
			wg.Add(1)
			go func(s int) {
				defer wg.Done()
				for n := s; n < len(items); n += senders {
					sendOne(items[n])
				}
			}(s)
		}
		wg.Wait()
	}
	cl.VerifCancel()
	cl.VerifCloseLocked()
	conns, ok := pr.finish()
	if !ok {
		pr.abandon()
	}
	ix := newSentIndex(all)
	st := checkStreams(c, conns, ix, streamOpts{
		label: label,
		sfx: func(conn int) string {
			if conn == 0 {
				return "/at-cut"
			}
			return "/after-reconnect"
		},
		tailAllowed: func(pc *peerConn) bool { return pc.cut || !ok },
		extra:       map[string]interface{}{"default_license": vlib.Hex([]byte(defLic)), "override_license": vlib.Hex([]byte(ovrLic)), "send_errors": sendErrors},
	})
	if !ok && st.failures == 0 {
		c.Inconclusive(caseID, "watchdog: the peer did not see the end of every client connection")
		c.Eval(-1)
		return
	}
	cuts := 0
	for _, pc := range conns {
		if pc.cut {
			cuts++
		}
	}
	c.Count("fault_scenarios", 1)
	c.Count("fault_scenarios_"+kind, 1)
	c.Count("fault_connections", int64(len(conns)))
	if len(conns) > 1 {
		c.Count("fault_reconnections", int64(len(conns)-1))
	}
	c.Count("fault_cuts_executed", int64(cuts))
	c.Count("fault_partial_tails", int64(st.partialTails))
	c.Count("fault_frames_matched", st.matched)
	c.Count("fault_bytes_received", st.bytes)
	c.Count("fault_send_errors", int64(sendErrors))
	c.Count("fault_big_frame_send_errors", int64(bigErrors))
	c.DistinctStr(fmt.Sprintf("fault %s %v %d %x", kind, plans, total, idBase))
	if c.WantSample() && cuts > 0 && r.Chance(1, 4) {
		c.Sample(map[string]interface{}{"section": "fault", "scenario": label, "connections": len(conns), "cuts_executed": cuts,
			"frames_matched": st.matched, "partial_tails": st.partialTails, "send_errors": sendErrors})
	}
}

// ---- unencodable packs between good ones -------------------------------------------------------------
//
// A pack whose Write panics half-way (an event pack with a non-text attribute, a hit map with
// truncated cell slices, a tag-count / log-sink pack without a tag map) is handed to the client
// between good packs. Whatever the client does with it (the panic reaches the caller), not
// one byte of it may reach the wire: the stream stays a sequence of whole reference frames of
// the good packs, each exactly once.

func badPack(r *vlib.Rand) (pack.Pack, string) {
	switch r.Intn(4) {
	case 0:
		ref := genEvent(r)
		g := toEvent(ref).(*pack.EventPack)
		g.Attr.Put("retry", 3)
		return g, "EventPack with a non-text attribute"
	case 1:
		ref := genHitMap(r)
		g := toHitMap(ref).(*pack.HitMapPack1)
		g.Hit = g.Hit[:r.Intn(100)]
		return g, "HitMapPack1 with a truncated Hit slice"
	case 2:
		g := &pack.TagCountPack{Category: txt(r)}
		g.Pcode, g.Time = r.I64(), r.I64()
		return g, "zero-value TagCountPack (no tag map)"
	default:
		ref := genLogSink(r)
		g := toLogSink(ref).(*pack.LogSinkPack)
		g.Tags = nil
		return g, "LogSinkPack without a tag map"
	}
}

func runUnencodable(c *vlib.Ctx, caseID string, i int, r *vlib.Rand) {
	queued := r.Chance(1, 3)
	total := r.Range(8, 40)
	defLic := genLicense(r)
	idBase := (r.I64() &^ 0xFFFFF) & 0x7FFFFFFFFFFFFFFF
	col, err := getCollector() // the shard's long-lived listener: one connection per case
	if err != nil {
		c.Inconclusive(caseID, "cannot listen on loopback: "+err.Error())
		c.Eval(-1)
		return
	}
	copts := []oneway.OneWayTcpClientOption{oneway.WithServers([]string{col.addr}), oneway.WithLicense(defLic), oneway.WithPcode(r.I64()), oneway.WithOid(r.I32())}
	if queued {
		copts = append(copts, oneway.WithUseQueue())
	}
	cl := oneway.NewOneWayTcpClientVerif(copts...)
	var all []*sentPack
	var story []string
	nBad, nPanics, errs := 0, 0, 0
	drain := func() {
		for k := 0; k < 50 && cl.Queue.Size() > 0; k++ {
			var e error
			if p := vlib.Catch(func() { e = cl.SendAndClear() }); p != nil {
				nPanics++
			} else if e != nil {
				errs++
			}
		}
	}
	for n := 0; n < total; n++ {
		if n > 0 && r.Chance(1, 4) {
			p, what := badPack(r)
			nBad++
			story = append(story, "BAD: "+what)
			var e error
			if pn := vlib.Catch(func() { e = cl.Send(p) }); pn != nil {
				nPanics++
			}
			_ = e // an error for a pack that cannot be encoded is as good as a panic
		} else {
			ref, mk := genAnyPack(r, r.Intn(8), 0)
			ref.Hdr().Time = idBase | int64(n)
			x := newExpectation(ref, "/after-unencodable")
			sp := &sentPack{id: ref.Hdr().Time, x: x, lic: defLic,
				frame: refcodec.Frame(10, 0, ref.Hdr().Pcode, refcodec.Hash64([]byte(defLic)), x.payload),
				who:   fmt.Sprintf("%s (#%d)", x.name, n)}
			all = append(all, sp)
			story = append(story, sp.who)
			var e error
			if pn := vlib.Catch(func() { e = cl.Send(mk()) }); pn != nil || e != nil {
				errs++
				sp.errText = fmt.Sprint(pn, e)
			} else {
				sp.accepted = true
			}
		}
		if queued && r.Chance(1, 3) {
			drain()
		}
	}
	if queued {
		drain()
		// a drain that ended in the panic of the last queued pack has not flushed what it had
		// written before: one more call (nothing queued) flushes
		var e error
		if p := vlib.Catch(func() { e = cl.SendAndClear() }); p != nil || e != nil {
			errs++
		}
	}
	local := clientLocalAddr(cl)
	cl.VerifCancel()
	cl.VerifCloseLocked()
	data, reason := collectOne(col, local, "")
	if reason != "" {
		resetCollector()
		c.Inconclusive(caseID, reason)
		c.Eval(-1)
		return
	}
	st := checkStreams(c, []*peerConn{{idx: 0, data: data}}, newSentIndex(all), streamOpts{
		label:       fmt.Sprintf("%s queue=%v", caseID, queued),
		sfx:         func(int) string { return "/after-unencodable" },
		tailAllowed: func(pc *peerConn) bool { return errs > 0 },
		exactlyOnce: true,
		wantAll:     errs == 0,
		extra:       map[string]interface{}{"handed_over": story, "default_license": vlib.Hex([]byte(defLic))},
	})
	if st.failures == 0 && errs > 0 {
		resetCollector()
		c.Inconclusive(caseID, fmt.Sprintf("a good pack failed on a healthy loopback connection (%d)", errs))
		c.Eval(-1)
		return
	}
	c.Count("unencodable_scenarios", 1)
	c.Count("unencodable_packs_handed_over", int64(nBad))
	c.Count("unencodable_panics_reaching_the_caller", int64(nPanics))
	c.Count("unencodable_good_frames_matched", st.matched)
	c.DistinctStr(fmt.Sprintf("unencodable %v %d %x", queued, total, idBase))
}
