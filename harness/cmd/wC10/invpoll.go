package main

// ---- monitor 1e: invariant-preserving workloads under observation ---------------------------
//
// The short porcupine histories of monitor 2 judge complete histories, but a window of a few
// instructions inside one operation (a bounded map that removes the eldest entry and only
// then links the new one; a counter kept beside the structure and read without its lock) is
// rarely hit by 6–12 operations per goroutine. This monitor trades generality for volume: it
// brings the shared instance into a state with a property P that EVERY operation of the
// workload preserves in the sequential model, so P holds in every state any linearization
// can pass through — and lets observer goroutines call the observing point operations
// (Size, IsEmpty, IsFull, Size1, Size2) hundreds of thousands of times next to the writers.
// An observation that contradicts P cannot be explained by any linearization of the run: it is
// a linearizability violation, decided without a search and without timing.
//
//	full-bounded   SetMax(m), m entries present; writers insert fresh and existing keys
//	               (each insertion into a full bounded map evicts exactly one entry) and read.
//	               P: Size()==m, !IsEmpty(), IsFull().
//	fixed-keys     unbounded, all K keys of the pool present; writers update and read them.
//	               P: Size()==K, !IsEmpty().
//	full-queue     queue of capacity n (each lane of the double queue) holding n elements;
//	               writers call Put* (refused) and PutForce* (evict oldest, then add).
//	               P: Size()==n (a+b), Size1()==a, Size2()==b.
//
// (Added after seeded change C10r6-3: a map's element count kept in an atomic and read by
// Size()/IsEmpty() without the lock — race-detector clean, sequentially exact.)

import (
	"fmt"
	"reflect"
	"runtime"
	"strings"
	"sync"
	"sync/atomic"

	"github.com/whatap/golib/util/queue"

	"verif/vlib"
)

var invInsertOps = []string{"Put", "PutFirst", "PutLast", "Add", "AddFirst", "AddLast"}
var invReadOps = []string{"Get", "GetLRU", "ContainsKey", "Contains", "HasKey"}

type invObs struct {
	name string
	m    reflect.Value
	want int64 // for bool results: 1 = true, 0 = false
	bool bool
}

func invPoll(c *vlib.Ctx, ct ctype, r *vlib.Rand, label string, gomax int) {
	tname := strings.SplitN(ct.name, "(", 2)[0]
	isQueue := strings.HasPrefix(ct.name, "Request")
	if !isQueue && !strings.Contains(tname, "Map") && !strings.Contains(tname, "Set") {
		return // the linked list has no keyed state to hold invariant
	}
	old := runtime.GOMAXPROCS(gomax)
	defer runtime.GOMAXPROCS(old)

	var inst reflect.Value
	var writerOps []opm
	var obs []invObs
	mode := ""
	keyPool := 1
	param := 0
	switch {
	case isQueue:
		mode = "full-queue"
		keyPool = 1000
		if strings.HasPrefix(ct.name, "RequestDoubleQueue") {
			a, b := r.Range(1, 5), r.Range(1, 5)
			q := queue.NewRequestDoubleQueue(a, b)
			for i := 0; i < a; i++ {
				q.Put1(fmt.Sprint("pre1-", i))
			}
			for i := 0; i < b; i++ {
				q.Put2(fmt.Sprint("pre2-", i))
			}
			inst = reflect.ValueOf(q)
			param = a*10 + b
			for _, n := range []string{"Put1", "Put2", "PutForce1", "PutForce2"} {
				writerOps = append(writerOps, opm{n, inst.MethodByName(n)})
			}
			obs = []invObs{{"Size", inst.MethodByName("Size"), int64(a + b), false},
				{"Size1", inst.MethodByName("Size1"), int64(a), false}, {"Size2", inst.MethodByName("Size2"), int64(b), false}}
		} else {
			n := r.Range(1, 6)
			q := queue.NewRequestQueue(n)
			for i := 0; i < n; i++ {
				q.Put(fmt.Sprint("pre-", i))
			}
			inst = reflect.ValueOf(q)
			param = n
			for _, nm := range []string{"Put", "PutForce"} {
				writerOps = append(writerOps, opm{nm, inst.MethodByName(nm)})
			}
			obs = []invObs{{"Size", inst.MethodByName("Size"), int64(n), false}}
		}
	default:
		inst = reflect.ValueOf(ct.mk())
		put := inst.MethodByName("Put")
		size := inst.MethodByName("Size")
		if !put.IsValid() || !size.IsValid() {
			return
		}
		sm := inst.MethodByName("SetMax")
		want := 0
		if sm.IsValid() && sm.Type().NumIn() == 1 && r.Intn(3) != 0 {
			mode = "full-bounded"
			want = r.Range(1, 6)
			keyPool = want + r.Range(2, 40)
			sm.Call([]reflect.Value{reflect.ValueOf(want).Convert(sm.Type().In(0))})
		} else {
			mode = "fixed-keys"
			want = r.Range(1, 6)
			keyPool = want
		}
		param = want
		for i := 0; i < 100000 && int(size.Call(nil)[0].Int()) < want; i++ {
			if _, p := callRecovered(put, r, keyPool, inst); p != nil {
				return // sequential defect of the type: C09/C12's business
			}
		}
		if int(size.Call(nil)[0].Int()) != want {
			c.Count("invpoll_setup_failed", 1)
			return
		}
		for _, n := range append(append([]string{}, invInsertOps...), invReadOps...) {
			if m := inst.MethodByName(n); m.IsValid() {
				writerOps = append(writerOps, opm{n, m})
			}
		}
		obs = []invObs{{"Size", size, int64(want), false}}
		if m := inst.MethodByName("IsEmpty"); m.IsValid() && m.Type().NumIn() == 0 {
			obs = append(obs, invObs{"IsEmpty", m, 0, true})
		}
		if m := inst.MethodByName("IsFull"); m.IsValid() && m.Type().NumIn() == 0 && mode == "full-bounded" {
			obs = append(obs, invObs{"IsFull", m, 1, true})
		}
	}

	// The premise is established by observation, not assumed: the invariant must hold before
	// anybody else touches the instance and after each of 400 writer operations applied from
	// ONE goroutine (same operation mix, same key pool). A type whose operations do not
	// preserve it sequentially (SetMax of the plain IntIntMap is only consulted by IsFull and
	// bounds nothing) is not judged in this mode.
	check := func() string {
		for _, o := range obs {
			if got := obsValue(o); got != o.want {
				return o.name
			}
		}
		return ""
	}
	if bad := check(); bad != "" {
		c.Count("invpoll_premise_not_met/"+tname+"/"+mode, 1)
		return
	}
	pr := r.Fork("premise")
	for i := 0; i < 400; i++ {
		op := writerOps[pr.Intn(len(writerOps))]
		if _, p := callRecovered(op.m, pr, keyPool, inst); p != nil {
			c.Count("invpoll_premise_not_met/"+tname+"/"+mode, 1)
			return
		}
		if bad := check(); bad != "" {
			c.Count("invpoll_premise_not_met/"+tname+"/"+mode, 1)
			c.SetAdd("invpoll_modes_whose_invariant_does_not_hold_sequentially", tname+"/"+mode+"/"+bad+" after "+op.name)
			return
		}
	}

	writers := r.Range(1, 4)
	observers := r.Range(1, 3)
	per := c.N(4000, 20000)
	var wg, og sync.WaitGroup
	var progress, observations, panics int64
	var stop int32
	type bad struct {
		op   string
		got  int64
		want int64
		n    int64
	}
	var bmu sync.Mutex
	bads := map[string]*bad{}
	for w := 0; w < writers; w++ {
		wg.Add(1)
		gr := r.Fork(fmt.Sprint("w", w))
		go stressWorker(&wg, &progress, func(i int) {
			op := writerOps[gr.Intn(len(writerOps))]
			if _, p := callRecovered(op.m, gr, keyPool, inst); p != nil {
				atomic.AddInt64(&panics, 1)
			}
		}, per)
	}
	for o := 0; o < observers; o++ {
		og.Add(1)
		o := o
		go func() {
			defer og.Done()
			for i := 0; atomic.LoadInt32(&stop) == 0; i++ {
				ob := obs[(i+o)%len(obs)]
				got := obsValue(ob)
				atomic.AddInt64(&observations, 1)
				if got != ob.want {
					bmu.Lock()
					if b := bads[ob.name]; b != nil {
						b.n++
					} else {
						bads[ob.name] = &bad{ob.name, got, ob.want, 1}
					}
					bmu.Unlock()
				}
				if i%64 == 0 {
					runtime.Gosched()
				}
			}
		}()
	}
	verdict, stack := waitOrDeadlock(&wg, &progress, "main.stressWorker")
	atomic.StoreInt32(&stop, 1)
	if verdict != "done" {
		if verdict == "deadlock" {
			c.Fail(tname+":deadlock-under-concurrency", "every writer of the invariant-poll run is parked on the structure's own mutex",
				map[string]interface{}{"type": ct.name, "mode": mode, "goroutine": stack})
		} else {
			c.Inconclusive(label, "invariant-poll run made no progress for 5 minutes but is not parked on a mutex")
		}
		return
	}
	og.Wait()
	if panics > 0 {
		c.Count("invpoll_runs_with_panics", 1) // stress and the sequential checks judge panics
		return
	}
	// at quiescence the invariant must hold too
	for _, o := range obs {
		if got := obsValue(o); got != o.want {
			bads[o.name+"/at-quiescence"] = &bad{o.name, got, o.want, 1}
		}
	}
	for k, b := range bads {
		c.Fail(tname+"."+b.op+":not-linearizable/invariant-poll",
			fmt.Sprintf("%s (%s, parameter %d): every operation of this run preserves %s()==%d in the sequential model, yet %s() returned %d (%d times in %d observations, %s) — no linearization explains it",
				ct.name, mode, param, b.op, b.want, b.op, b.got, b.n, observations, k),
			map[string]interface{}{"type": ct.name, "mode": mode, "parameter": param, "key_pool": keyPool, "writers": writers, "observers": observers,
				"ops_per_writer": per, "gomaxprocs": gomax, "observer": b.op, "want": b.want, "got": b.got, "times": b.n, "observations": observations})
	}
	c.Count("invpoll_runs", 1)
	c.Count("invpoll_runs/"+mode, 1)
	c.Count("invpoll_observations", observations)
	c.Count("invpoll_writer_ops", int64(writers*per))
	c.SetAdd("invpoll_types", ct.name+"/"+mode)
	c.DistinctStr(fmt.Sprintf("invpoll|%s|%s|%d|%d|w%d|o%d|p%d|%s", ct.name, mode, param, keyPool, writers, observers, gomax, label))
	if c.WantSample() {
		c.Sample(map[string]interface{}{"monitor": "invariant-poll", "type": ct.name, "mode": mode, "parameter": param, "key_pool": keyPool,
			"writers": writers, "observers": observers, "ops_per_writer": per, "observations": observations, "gomaxprocs": gomax})
	}
}

func obsValue(o invObs) (v int64) {
	defer func() {
		if recover() != nil {
			v = -999
		}
	}()
	out := o.m.Call(nil)[0]
	if o.bool {
		if out.Bool() {
			return 1
		}
		return 0
	}
	return out.Int()
}
