// wC10 — shared collections: linearizable, race-free, never self-deadlock.
//
// Three monitors (DESIGN §4 C10):
//  1. stress: 2..16 goroutines issue the point operations on one shared instance; the Go race
//     detector (race flavour) is the oracle, plus panics and quiescent structural checks;
//  2. linearizability: many short recorded histories checked with porcupine against the
//     sequential models (see linz.go);
//  3. self-deadlock: every exported method of every collection type, enumerated by
//     reflection, is called on a private populated instance; a probe goroutine parked in
//     sync.Mutex.Lock on an instance nobody else can touch is a conclusive self-deadlock.
package main

import (
	"fmt"
	"reflect"
	"regexp"
	"runtime"
	"sort"
	"strings"
	"sync"
	"sync/atomic"
	"time"

	wio "github.com/whatap/golib/io"
	"github.com/whatap/golib/util/hmap"
	"github.com/whatap/golib/util/list"
	"github.com/whatap/golib/util/queue"

	"verif/vlib"
)

// lk is a LinkedKey for LinkedMap / LinkedSet.
type lk struct{ k int }

func (a *lk) Hash() uint { return uint(a.k & 0x7fffffff) }
func (a *lk) Equals(o hmap.LinkedKey) bool {
	b, ok := o.(*lk)
	return ok && b.k == a.k
}

type ctype struct {
	name string
	mk   func() interface{}
}

var ctypes = []ctype{
	{"LinkedMap", func() interface{} { return hmap.NewLinkedMapDefault() }},
	{"IntKeyLinkedMap", func() interface{} { return hmap.NewIntKeyLinkedMapDefault() }},
	{"LongKeyLinkedMap", func() interface{} { return hmap.NewLongKeyLinkedMapDefault() }},
	{"StringKeyLinkedMap", func() interface{} { return hmap.NewStringKeyLinkedMap() }},
	{"IntIntLinkedMap", func() interface{} { return hmap.NewIntIntLinkedMap() }},
	{"IntFloatLinkedMap", func() interface{} { return hmap.NewIntFloatLinkedMap() }},
	{"LongFloatLinkedMap", func() interface{} { return hmap.NewLongFloatLinkedMap() }},
	{"LongLongLinkedMap", func() interface{} { return hmap.NewLongLongLinkedMapDefault() }},
	{"StringIntLinkedMap", func() interface{} { return hmap.NewStringIntLinkedMap() }},
	{"StringLongLinkedMap", func() interface{} { return hmap.NewStringLongLinkedMap() }},
	{"LinkedSet", func() interface{} { return hmap.NewLinkedSet() }},
	{"IntLinkedSet", func() interface{} { return hmap.NewIntLinkedSet() }},
	{"StringLinkedSet", func() interface{} { return hmap.NewStringLinkedSet() }},
	{"IntIntMap", func() interface{} { return hmap.NewIntIntMapDefault() }},
	{"IntKeyMap", func() interface{} { return hmap.NewIntKeyMapDefault() }},
	{"IntSet", func() interface{} { return hmap.NewIntSet() }},
	{"StringSet", func() interface{} { return hmap.NewStringSet() }},
	{"LinkedList", func() interface{} { return list.NewLinkedList() }},
	{"RequestQueue", func() interface{} { return queue.NewRequestQueue(0) }},
	{"RequestQueue(cap4)", func() interface{} { return queue.NewRequestQueue(4) }},
	{"RequestDoubleQueue", func() interface{} { return queue.NewRequestDoubleQueue(0, 0) }},
	{"RequestDoubleQueue(cap3,3)", func() interface{} { return queue.NewRequestDoubleQueue(3, 3) }},
}

// point operations of the property (by method name); everything else is "whole-structure".
var pointOps = map[string]bool{
	"Put": true, "PutFirst": true, "PutLast": true, "Add": true, "AddNoOver": true, "AddIfExist": true,
	"Get": true, "GetLRU": true, "ContainsKey": true, "Contains": true, "HasKey": true, "Remove": true,
	"RemoveFirst": true, "RemoveLast": true, "Clear": true, "Size": true, "IsEmpty": true, "IsFull": true,
	"PutForce": true, "Put1": true, "Put2": true, "PutForce1": true, "PutForce2": true, "GetNoWait": true,
	"Size1": true, "Size2": true, "AddFirst": true, "AddLast": true, "Unipoint": true,
}

var (
	tLinkedKey = reflect.TypeOf((*hmap.LinkedKey)(nil)).Elem()
	tEmptyIf   = reflect.TypeOf((*interface{})(nil)).Elem()
)

var uid int64

// synthNil: object arguments are synthesised as nil (used by the probe's "nil-args" variant).
var synthNil bool

// synthSelf: an argument of the receiver's own type is the receiver itself (m.PutAll(m)).
var synthSelf bool
var synthUncomparable bool // tEmptyIf arguments are slices (no == for their dynamic type)

// synth builds an argument of type t. keyPool bounds the key space.
func synth(t reflect.Type, r *vlib.Rand, keyPool int, recv reflect.Value, depth int) reflect.Value {
	k := r.Intn(keyPool)
	switch {
	case t == tLinkedKey:
		return reflect.ValueOf(&lk{k}).Convert(t)
	case t == tEmptyIf && synthNil:
		return reflect.Zero(t)
	case t == tEmptyIf && synthUncomparable:
		// a value whose dynamic type does not support == (comparing two of them panics at run
		// time inside whatever method compares stored values)
		v := interface{}([]int{k})
		return reflect.ValueOf(&v).Elem()
	case t == tEmptyIf:
		v := fmt.Sprintf("v%d", atomic.AddInt64(&uid, 1))
		return reflect.ValueOf(&v).Elem().Convert(t)
	}
	switch t.Kind() {
	case reflect.Int, reflect.Int32, reflect.Int64, reflect.Int16, reflect.Int8:
		return reflect.ValueOf(int64(k + 1)).Convert(t)
	case reflect.Uint, reflect.Uint32, reflect.Uint64, reflect.Uint16, reflect.Uint8:
		return reflect.ValueOf(uint64(k + 1)).Convert(t)
	case reflect.Float32, reflect.Float64:
		return reflect.ValueOf(float64(k) + 0.5).Convert(t)
	case reflect.String:
		return reflect.ValueOf(fmt.Sprintf("k%d", k)).Convert(t)
	case reflect.Bool:
		return reflect.ValueOf(r.Bool())
	case reflect.Func:
		return reflect.MakeFunc(t, func(args []reflect.Value) []reflect.Value {
			out := make([]reflect.Value, t.NumOut())
			for i := range out {
				out[i] = reflect.Zero(t.Out(i))
			}
			return out
		})
	case reflect.Slice:
		n := 3
		s := reflect.MakeSlice(t, n, n)
		for i := 0; i < n; i++ {
			s.Index(i).Set(synth(t.Elem(), r, keyPool, recv, depth+1))
		}
		return s
	case reflect.Ptr:
		if synthSelf && depth == 0 && recv.IsValid() && t == recv.Type() {
			return recv
		}
		if depth < 2 && recv.IsValid() && t == recv.Type() {
			// another populated instance of the same type (PutAll(other) …)
			for _, ct := range ctypes {
				o := ct.mk()
				if reflect.TypeOf(o) == t {
					populate(reflect.ValueOf(o), r, keyPool)
					return reflect.ValueOf(o)
				}
			}
		}
		if t == reflect.TypeOf((*list.LinkedListEntity)(nil)) && recv.IsValid() {
			if m := recv.MethodByName("GetFirst"); m.IsValid() {
				return m.Call(nil)[0]
			}
		}
		if t == reflect.TypeOf((*wio.DataOutputX)(nil)) {
			return reflect.ValueOf(wio.NewDataOutputX())
		}
		if t == reflect.TypeOf((*wio.DataInputX)(nil)) {
			return reflect.ValueOf(wio.NewDataInputX([]byte{0}))
		}
		if t.Elem().Kind() == reflect.Struct {
			return reflect.New(t.Elem())
		}
	}
	return reflect.Zero(t)
}

// populate inserts a few elements through the type's own insert operations.
func populate(v reflect.Value, r *vlib.Rand, keyPool int) {
	for _, name := range []string{"Put", "Add", "Put1", "Put2", "AddLast"} {
		m := v.MethodByName(name)
		if !m.IsValid() {
			continue
		}
		for i := 0; i < 4; i++ {
			callRecovered(m, r, keyPool, v)
		}
		if name == "Put" || name == "Add" {
			break
		}
	}
}

func callRecovered(m reflect.Value, r *vlib.Rand, keyPool int, recv reflect.Value) (out []reflect.Value, pan interface{}) {
	defer func() {
		if e := recover(); e != nil {
			pan = e
		}
	}()
	t := m.Type()
	args := make([]reflect.Value, t.NumIn())
	for i := range args {
		if t.IsVariadic() && i == t.NumIn()-1 {
			args = args[:i]
			break
		}
		args[i] = synth(t.In(i), r, keyPool, recv, 0)
	}
	return m.Call(args), nil
}

// ---- monitor 3: self-deadlock -------------------------------------------------------------

//go:noinline
func probeCall(m reflect.Value, r *vlib.Rand, recv reflect.Value, keyPool int, done chan<- interface{}) {
	_, p := callRecovered(m, r, keyPool, recv)
	done <- p
}

var gHeader = regexp.MustCompile(`(?m)^goroutine \d+ \[([^\]]*)\]:$`)

// parkedProbes counts goroutines that are inside probeCall and parked on a mutex, and
// returns the stack of the last one.
func parkedProbes() (n int, stack string) {
	buf := make([]byte, 1<<20)
	for {
		k := runtime.Stack(buf, true)
		if k < len(buf) {
			buf = buf[:k]
			break
		}
		buf = make([]byte, 2*len(buf))
	}
	for _, g := range strings.Split(string(buf), "\n\n") {
		if !strings.Contains(g, "main.probeCall") {
			continue
		}
		h := gHeader.FindStringSubmatch(g)
		if h == nil {
			continue
		}
		st := h[1]
		if strings.HasPrefix(st, "sync.Mutex.Lock") || strings.HasPrefix(st, "sync.RWMutex") || strings.HasPrefix(st, "semacquire") {
			if strings.Contains(g, "sync.(*Mutex).Lock") || strings.Contains(g, "sync.(*RWMutex)") {
				n++
				stack = g
			}
		}
	}
	return
}

// condWaiters counts probe goroutines parked in sync.Cond.Wait.
func condWaiters() int {
	buf := make([]byte, 1<<20)
	for {
		k := runtime.Stack(buf, true)
		if k < len(buf) {
			buf = buf[:k]
			break
		}
		buf = make([]byte, 2*len(buf))
	}
	n := 0
	for _, g := range strings.Split(string(buf), "\n\n") {
		if strings.Contains(g, "main.probeCall") && strings.Contains(g, "sync.(*Cond).Wait") {
			n++
		}
	}
	return n
}

func selfDeadlockProbe(c *vlib.Ctx) {
	leaked := 0
	condLeaked := 0
	for ti, ct := range ctypes {
		if ti%c.NShards != c.Shard {
			continue
		}
		typ := reflect.TypeOf(ct.mk())
		variants := []string{"populated", "empty", "nil-args", "self-arg"}
		for mi := 0; mi < typ.NumMethod(); mi++ {
			mt := typ.Method(mi).Type
			for a := 1; a < mt.NumIn(); a++ {
				if mt.In(a) == tEmptyIf {
					// stored values and arguments of a dynamic type that cannot be compared with ==:
					// a method that panics on them must still release the structure's lock
					variants = append(variants, "uncomparable-values")
					mi = typ.NumMethod()
					break
				}
			}
		}
		if _, ok := typ.MethodByName("SetMax"); ok {
			variants = append(variants, "bounded-full")
		}
		for _, variant := range variants {
			for mi := 0; mi < typ.NumMethod(); mi++ {
				mname := typ.Method(mi).Name
				if variant == "self-arg" {
					// only methods that take an instance of the receiver's own type
					takes := false
					mt := typ.Method(mi).Type
					for a := 1; a < mt.NumIn(); a++ {
						takes = takes || mt.In(a) == typ
					}
					if !takes {
						continue
					}
				}
				id := fmt.Sprintf("selfdeadlock/%s.%s/%s", ct.name, mname, variant)
				if (c.Only != "" && c.Only != id) || c.Resume[id] {
					continue
				}
				c.Journal(id, "selfdeadlock")
				r := c.Rand(id)
				inst := reflect.ValueOf(ct.mk())
				synthUncomparable = variant == "uncomparable-values"
				switch variant {
				case "populated", "self-arg", "uncomparable-values":
					populate(inst, r, 4)
				case "bounded-full":
					// bound the structure to what it holds, so that every insert path has to evict
					populate(inst, r, 4)
					if sm := inst.MethodByName("SetMax"); sm.IsValid() && sm.Type().NumIn() == 1 {
						if sz := inst.MethodByName("Size"); sz.IsValid() {
							n := int(sz.Call(nil)[0].Int())
							if n < 1 {
								n = 1
							}
							sm.Call([]reflect.Value{reflect.ValueOf(n).Convert(sm.Type().In(0))})
						}
					}
				}
				m := inst.Method(mi)
				done := make(chan interface{}, 1)
				// bounded-full: draw the key from a large pool so that it is new and the insert
				// has to take its eviction path
				kp := 4
				if variant == "bounded-full" {
					kp = 1 << 20
				}
				synthNil = variant == "nil-args"
				synthSelf = variant == "self-arg"
				go probeCall(m, r, inst, kp, done)
				verdict := ""
				var pan interface{}
				waits := []time.Duration{20 * time.Millisecond, 100 * time.Millisecond, 400 * time.Millisecond, time.Second, 3 * time.Second, 10 * time.Second, 30 * time.Second}
			poll:
				for _, w := range waits {
					select {
					case pan = <-done:
						verdict = "returned"
						break poll
					case <-time.After(w):
						if cw := condWaiters(); cw > condLeaked {
							// parked in Cond.Wait: a blocking dequeue on an empty queue waits for
							// a producer by design; that is not the structure's own lock
							verdict = "waits-for-producer"
							condLeaked = cw
							c.Count("methods_blocking_by_design", 1)
							break poll
						}
						if n, st := parkedProbes(); n > leaked {
							// parked in Mutex.Lock beneath its own receiver on a private instance:
							// nobody else can ever release that lock
							verdict = "deadlock"
							leaked = n
							c.Fail(fmt.Sprintf("%s.%s:self-deadlock", strings.SplitN(ct.name, "(", 2)[0], mname),
								"the method blocks forever on the structure's own lock when called on a private instance from a single goroutine",
								map[string]interface{}{"type": ct.name, "method": mname, "instance": variant, "goroutine": st})
							break poll
						}
					}
				}
				c.Eval(1)
				c.Count("methods_probed", 1)
				c.SetAdd("types_probed", ct.name)
				c.DistinctStr(id)
				synthNil = false
				synthSelf = false
				synthUncomparable = false
				switch verdict {
				case "returned":
					if pan != nil {
						c.Count("methods_panicked_on_synthetic_args", 1)
					}
					// follow-up: the structure's lock must have been released on every path the
					// call took (early return, panic): a second call must not find it held
					if sz := inst.MethodByName("Size"); sz.IsValid() && sz.Type().NumIn() == 0 {
						d2 := make(chan interface{}, 1)
						go probeCall(sz, r, inst, 4, d2)
					follow:
						for _, w := range waits {
							select {
							case <-d2:
								break follow
							case <-time.After(w):
								if n, st := parkedProbes(); n > leaked {
									leaked = n
									c.Fail(fmt.Sprintf("%s.%s:lock-leaked", strings.SplitN(ct.name, "(", 2)[0], mname),
										"after the method returned (or panicked) the structure's own lock is still held: the next operation blocks forever",
										map[string]interface{}{"type": ct.name, "method": mname, "instance": variant, "first_call_panicked": pan != nil, "goroutine": st})
									break follow
								}
							}
						}
						c.Count("lock_release_followups", 1)
					}
				case "":
					c.Inconclusive(id, "method did not return within 45 s and is not parked on a mutex")
				}
				if c.WantSample() && mi < 2 {
					c.Sample(map[string]interface{}{"monitor": "self-deadlock", "type": ct.name, "method": mname, "instance": variant, "verdict": verdict})
				}
			}
		}
	}
}

// stressWorker runs one goroutine's share of a concurrent run (a named function, so that the
// deadlock watchdog can find these goroutines in a dump).
//
//go:noinline
func stressWorker(wg *sync.WaitGroup, progress *int64, step func(i int), n int) {
	defer wg.Done()
	for i := 0; i < n; i++ {
		step(i)
		atomic.AddInt64(progress, 1)
		if i%7 == 0 {
			runtime.Gosched()
		}
	}
}

// waitOrDeadlock waits for wg. If the progress counter stands still and EVERY goroutine that
// is still inside marker is parked in sync.Mutex.Lock (none runnable, none running), no
// goroutine can ever release that mutex: a conclusive deadlock, independent of timing.
func waitOrDeadlock(wg *sync.WaitGroup, progress *int64, marker string) (string, string) {
	done := make(chan struct{})
	go func() { wg.Wait(); close(done) }()
	last := atomic.LoadInt64(progress)
	still := 0
	for waited := 0; waited < 150; waited++ {
		select {
		case <-done:
			return "done", ""
		case <-time.After(2 * time.Second):
		}
		cur := atomic.LoadInt64(progress)
		if cur != last {
			last, still = cur, 0
			continue
		}
		still++
		if still < 2 {
			continue
		}
		total, parked, stack := markerGoroutines(marker)
		if total > 0 && parked == total && atomic.LoadInt64(progress) == cur {
			return "deadlock", stack
		}
	}
	return "stuck", ""
}

func markerGoroutines(marker string) (total, parked int, stack string) {
	buf := make([]byte, 1<<20)
	for {
		k := runtime.Stack(buf, true)
		if k < len(buf) {
			buf = buf[:k]
			break
		}
		buf = make([]byte, 2*len(buf))
	}
	for _, g := range strings.Split(string(buf), "\n\n") {
		if !strings.Contains(g, marker+"(") {
			continue
		}
		total++
		h := gHeader.FindStringSubmatch(g)
		if h != nil && (strings.HasPrefix(h[1], "sync.Mutex.Lock") || strings.HasPrefix(h[1], "sync.RWMutex")) && strings.Contains(g, "github.com/whatap/golib/") {
			parked++
			stack = g
		}
	}
	return
}

// ---- monitor 1: stress (race detector, panics, quiescent checks) ----------------------------

type opm struct {
	name string
	m    reflect.Value
}

func stressOne(c *vlib.Ctx, ct ctype, r *vlib.Rand, label string, goroutines, keys, opsPer, gomax int) {
	old := runtime.GOMAXPROCS(gomax)
	defer runtime.GOMAXPROCS(old)
	inst := reflect.ValueOf(ct.mk())
	if sm := inst.MethodByName("SetMax"); sm.IsValid() && r.Bool() && sm.Type().NumIn() == 1 {
		sm.Call([]reflect.Value{reflect.ValueOf(r.Range(1, 5)).Convert(sm.Type().In(0))})
	}
	var ops []opm
	typ := inst.Type()
	for i := 0; i < typ.NumMethod(); i++ {
		n := typ.Method(i).Name
		if pointOps[n] {
			if n == "Get" && strings.HasPrefix(ct.name, "Request") {
				continue // blocking dequeue: exercised with its wake-up oracle in C11
			}
			if n == "Remove" && ct.name == "LinkedList" {
				continue // Remove(node) needs a node handle obtained through GetFirst (not a point operation)
			}
			ops = append(ops, opm{n, inst.Method(i)})
		}
	}
	var wg sync.WaitGroup
	var panics int64
	var progress int64
	var firstPanic atomic.Value
	pairSeen := make([]map[string]int, goroutines)
	for g := 0; g < goroutines; g++ {
		wg.Add(1)
		gr := r.Fork(fmt.Sprint("g", g))
		pairSeen[g] = map[string]int{}
		g, gr := g, gr
		go stressWorker(&wg, &progress, func(i int) {
			op := ops[gr.Intn(len(ops))]
			if op.name == "Clear" && gr.Intn(8) != 0 {
				return // keep the structure populated most of the time
			}
			_, p := callRecovered(op.m, gr, keys, inst)
			if p != nil {
				if atomic.AddInt64(&panics, 1) == 1 {
					firstPanic.Store(fmt.Sprintf("%s: %v", op.name, p))
				}
			}
			pairSeen[g][op.name]++
		}, opsPer)
	}
	tname := strings.SplitN(ct.name, "(", 2)[0]
	if verdict, stack := waitOrDeadlock(&wg, &progress, "main.stressWorker"); verdict != "done" {
		if verdict == "deadlock" {
			c.Fail(tname+":deadlock-under-concurrency", "every goroutine operating on the shared instance is parked on the structure's own mutex: the concurrent run can never finish",
				map[string]interface{}{"type": ct.name, "goroutines": goroutines, "keys": keys, "goroutine": stack})
		} else {
			c.Inconclusive(label, "stress run made no progress for 5 minutes but is not parked on a mutex")
		}
		return
	}
	if panics > 0 {
		fp, _ := firstPanic.Load().(string)
		// is it a panic that also happens sequentially? (then it is C09/C12's finding, not a
		// concurrency one): replay the same op mix on a private instance from one goroutine
		seq := reflect.ValueOf(ct.mk())
		sr := r.Fork("seq")
		seqPanics := 0
		for i := 0; i < 2000; i++ {
			n := ops[sr.Intn(len(ops))].name
			if _, p := callRecovered(seq.MethodByName(n), sr, keys, seq); p != nil {
				seqPanics++
			}
		}
		if seqPanics == 0 {
			c.Fail(tname+":panic-under-concurrency", "a point operation panicked in a concurrent run although the same operation mix never panics sequentially: "+fp,
				map[string]interface{}{"type": ct.name, "goroutines": goroutines, "keys": keys, "ops_per_goroutine": opsPer, "panics": panics})
		} else {
			c.Count("sequential_panics_seen_in_stress", 1)
		}
	}
	// quiescent consistency: Size() agrees with what the whole-structure views report
	if sz := inst.MethodByName("Size"); sz.IsValid() && sz.Type().NumIn() == 0 {
		n := int(sz.Call(nil)[0].Int())
		for _, view := range []string{"KeyArray", "ToArray"} {
			vm := inst.MethodByName(view)
			if !vm.IsValid() || vm.Type().NumIn() != 0 {
				continue
			}
			done := make(chan int, 1)
			go func() {
				defer func() {
					if recover() != nil {
						done <- -2
					}
				}()
				done <- vm.Call(nil)[0].Len()
			}()
			select {
			case l := <-done:
				if l >= 0 && l != n {
					c.Fail(tname+":structure-corrupt-after-concurrency", fmt.Sprintf("after a concurrent run (at quiescence) Size()=%d but %s() has %d elements", n, view, l),
						map[string]interface{}{"type": ct.name, "goroutines": goroutines, "keys": keys})
				}
			case <-time.After(20 * time.Second):
				// a known self-deadlocking view (monitor 3 reports it); not decided here
			}
			break
		}
		if n < 0 {
			c.Fail(tname+":structure-corrupt-after-concurrency", fmt.Sprintf("Size()=%d after a concurrent run", n), nil)
		}
	}
	quiescentInvariants(c, ct, inst.Interface(), tname)
	// evidence: which operation pairs ran concurrently (executed by different goroutines of one run)
	names := map[string]bool{}
	for g := range pairSeen {
		for n := range pairSeen[g] {
			names[n] = true
		}
	}
	var nl []string
	for n := range names {
		nl = append(nl, n)
	}
	sort.Strings(nl)
	for _, a := range nl {
		for _, b := range nl {
			if a <= b {
				c.SetAdd("concurrent_op_pairs", tname+":"+a+"|"+b)
			}
		}
	}
	c.Count("stress_runs", 1)
	c.Count("stress_ops", int64(goroutines*opsPer))
	c.Max("max_goroutines", int64(goroutines))
	c.SetAdd("types_stressed", ct.name)
	c.DistinctStr(fmt.Sprintf("%s|g%d|k%d|p%d|%s", ct.name, goroutines, keys, gomax, label))
	if c.WantSample() {
		c.Sample(map[string]interface{}{"monitor": "stress", "type": ct.name, "goroutines": goroutines, "keys": keys, "ops_per_goroutine": opsPer, "gomaxprocs": gomax, "ops": nl, "panics": panics})
	}
}

// ---- monitor 1b: point operations next to whole-structure operations ---------------------
//
// Writers put keys nobody removes while another goroutine keeps calling the whole-structure
// methods (sort, key-array, contains-value, to-string, enumerator constructors …). Whatever
// those do internally, an acknowledged put must not vanish and the structure must stay
// intact: at quiescence every key put is present and Size() equals their number.
func wholeOpStress(c *vlib.Ctx, ct ctype, r *vlib.Rand, label string, writers, perWriter, gomax int) {
	old := runtime.GOMAXPROCS(gomax)
	defer runtime.GOMAXPROCS(old)
	inst := reflect.ValueOf(ct.mk())
	put := inst.MethodByName("Put")
	if !put.IsValid() || put.Type().NumIn() < 1 || put.Type().NumIn() > 2 {
		return
	}
	var contains reflect.Value
	for _, n := range []string{"ContainsKey", "Contains", "HasKey"} {
		if m := inst.MethodByName(n); m.IsValid() && m.Type().NumIn() == 1 && m.Type().NumOut() == 1 && m.Type().Out(0).Kind() == reflect.Bool {
			contains = m
			break
		}
	}
	if !contains.IsValid() {
		return
	}
	kt := put.Type().In(0)
	mkKey := func(id int64) (reflect.Value, bool) {
		switch {
		case kt == tLinkedKey:
			return reflect.ValueOf(&lk{int(id)}).Convert(kt), true
		case kt.Kind() == reflect.String:
			return reflect.ValueOf(fmt.Sprintf("w%d", id)).Convert(kt), true
		case kt.Kind() == reflect.Int32 || kt.Kind() == reflect.Int64 || kt.Kind() == reflect.Int:
			return reflect.ValueOf(id).Convert(kt), true
		}
		return reflect.Value{}, false
	}
	if _, ok := mkKey(1); !ok {
		return
	}
	// whole-structure methods: everything exported that is not a point operation and whose
	// arguments can be synthesised; SetMax would bound the structure and is left out
	var whole []opm
	typ := inst.Type()
	for i := 0; i < typ.NumMethod(); i++ {
		n := typ.Method(i).Name
		if pointOps[n] || strings.HasPrefix(n, "Set") || strings.HasPrefix(n, "Remove") || n == "ToObject" || n == "PutAll" {
			continue
		}
		whole = append(whole, opm{n, inst.Method(i)})
	}
	if len(whole) == 0 {
		return
	}
	var wg sync.WaitGroup
	var progress int64
	stop := int32(0)
	for w := 0; w < writers; w++ {
		wg.Add(1)
		w := w
		wr := r.Fork(fmt.Sprint("writer", w))
		go stressWorker(&wg, &progress, func(i int) {
			k, _ := mkKey(int64(w+1)*1000000 + int64(i))
			args := []reflect.Value{k}
			if put.Type().NumIn() == 2 {
				args = append(args, synth(put.Type().In(1), wr, 4, inst, 0))
			}
			func() {
				defer func() { recover() }()
				put.Call(args)
			}()
		}, perWriter)
	}
	var bg sync.WaitGroup
	bg.Add(1)
	bgr := r.Fork("whole")
	calls := map[string]int{}
	go func() {
		defer bg.Done()
		for atomic.LoadInt32(&stop) == 0 {
			op := whole[bgr.Intn(len(whole))]
			callRecovered(op.m, bgr, 4, inst)
			calls[op.name]++
			runtime.Gosched()
		}
	}()
	tname := strings.SplitN(ct.name, "(", 2)[0]
	verdict, stack := waitOrDeadlock(&wg, &progress, "main.stressWorker")
	atomic.StoreInt32(&stop, 1)
	if verdict != "done" {
		if verdict == "deadlock" {
			c.Fail(tname+":deadlock-under-concurrency", "writers are parked on the structure's own mutex while a whole-structure operation runs: the run can never finish",
				map[string]interface{}{"type": ct.name, "goroutine": stack, "whole_ops": fmt.Sprint(calls)})
		} else {
			c.Inconclusive(label, "writers made no progress for 5 minutes but are not parked on a mutex")
		}
		return
	}
	bgDone := make(chan struct{})
	go func() { bg.Wait(); close(bgDone) }()
	select {
	case <-bgDone:
	case <-time.After(120 * time.Second):
		c.Inconclusive(label, "whole-structure caller did not return within 120 s")
		return
	}
	missing := 0
	firstMissing := ""
	for w := 0; w < writers; w++ {
		for i := 0; i < perWriter; i++ {
			k, _ := mkKey(int64(w+1)*1000000 + int64(i))
			var present bool
			func() {
				defer func() { recover() }()
				present = contains.Call([]reflect.Value{k})[0].Bool()
			}()
			if !present {
				missing++
				if firstMissing == "" {
					firstMissing = fmt.Sprintf("writer %d put #%d", w, i)
				}
			}
		}
	}
	total := writers * perWriter
	size := -1
	if sz := inst.MethodByName("Size"); sz.IsValid() {
		size = int(sz.Call(nil)[0].Int())
	}
	if missing > 0 || (size >= 0 && size != total) {
		var names []string
		for n := range calls {
			names = append(names, n)
		}
		sort.Strings(names)
		c.Fail(tname+":update-lost-under-whole-structure-op", fmt.Sprintf("%d of %d acknowledged puts are gone (Size()=%d) after running next to whole-structure operations; first: %s", missing, total, size, firstMissing),
			map[string]interface{}{"type": ct.name, "writers": writers, "puts_per_writer": perWriter, "whole_structure_calls": fmt.Sprint(calls), "methods": names})
	}
	c.Count("whole_op_runs", 1)
	c.Count("whole_op_puts", int64(total))
	wc := 0
	for n, k := range calls {
		wc += k
		c.SetAdd("whole_structure_methods_called_concurrently", tname+"."+n)
	}
	c.Count("whole_structure_calls", int64(wc))
	c.DistinctStr(fmt.Sprintf("whole|%s|%d|%d|%s", ct.name, writers, gomax, label))
}

// ---- monitor 1c: no public method blocks for ever next to writers ------------------------------
//
// Every exported method that is not a point operation (sort, key array, to-string, enumerators,
// contains-value, ...) is called in a loop by one goroutine while writers issue the point
// operations on the same instance. Judged: after the writers are done nobody holds the lock, so
// a caller that is still parked in sync.Mutex.Lock inside golib (seen in two goroutine dumps
// with no progress between them) can never be released — e.g. a method declared on a value
// receiver that locks a copy of the mutex taken while a writer held it.

//go:noinline
func wholeCaller(done *sync.WaitGroup, stop *int32, calls *int64, step func()) {
	defer done.Done()
	for atomic.LoadInt32(stop) == 0 {
		step()
		atomic.AddInt64(calls, 1)
		runtime.Gosched()
	}
}

func wholeOpBlocking(c *vlib.Ctx, ct ctype, r *vlib.Rand, label string, writers, perWriter, gomax int) {
	old := runtime.GOMAXPROCS(gomax)
	defer runtime.GOMAXPROCS(old)
	inst := reflect.ValueOf(ct.mk())
	var points, whole []opm
	typ := inst.Type()
	for i := 0; i < typ.NumMethod(); i++ {
		n := typ.Method(i).Name
		isReq := strings.HasPrefix(ct.name, "Request")
		switch {
		case n == "Get" && isReq:
			continue // blocks by contract until a producer arrives (C11)
		case n == "Remove" && ct.name == "LinkedList":
			continue
		case pointOps[n]:
			points = append(points, opm{n, inst.Method(i)})
		case strings.HasPrefix(n, "Set"):
			continue // reconfigures the instance (bound, capacity, callbacks)
		default:
			whole = append(whole, opm{n, inst.Method(i)})
		}
	}
	if len(whole) == 0 || len(points) == 0 {
		return
	}
	var wg sync.WaitGroup
	var progress int64
	for w := 0; w < writers; w++ {
		wg.Add(1)
		wr := r.Fork(fmt.Sprint("writer", w))
		go stressWorker(&wg, &progress, func(i int) {
			op := points[wr.Intn(len(points))]
			if op.name == "Clear" && wr.Intn(8) != 0 {
				return
			}
			callRecovered(op.m, wr, 6, inst)
		}, perWriter)
	}
	var bg sync.WaitGroup
	var stop int32
	var calls int64
	bgr := r.Fork("whole")
	names := map[string]int{}
	var cur atomic.Value
	cur.Store("")
	bg.Add(1)
	go wholeCaller(&bg, &stop, &calls, func() {
		op := whole[bgr.Intn(len(whole))]
		cur.Store(op.name)
		callRecovered(op.m, bgr, 6, inst)
		names[op.name]++
	})
	tname := strings.SplitN(ct.name, "(", 2)[0]
	verdict, stack := waitOrDeadlock(&wg, &progress, "main.stressWorker")
	atomic.StoreInt32(&stop, 1)
	if verdict != "done" {
		if verdict == "deadlock" {
			c.Fail(tname+":deadlock-under-concurrency", "writers are parked on the structure's own mutex while a whole-structure operation runs: the run can never finish",
				map[string]interface{}{"type": ct.name, "goroutine": stack, "method_in_flight": cur.Load()})
		} else {
			c.Inconclusive(label, "writers made no progress for 5 minutes but are not parked on a mutex")
		}
		return
	}
	// writers are done: the instance is quiescent except for the one whole-structure caller
	bgDone := make(chan struct{})
	go func() { bg.Wait(); close(bgDone) }()
	parkedSeen := 0
	var lastCalls int64 = -1
	for waited := 0; ; waited++ {
		select {
		case <-bgDone:
			waited = -1
		case <-time.After(500 * time.Millisecond):
		}
		if waited < 0 {
			break
		}
		total, parked, st := markerGoroutines("main.wholeCaller")
		n := atomic.LoadInt64(&calls)
		if total == 1 && parked == 1 && n == lastCalls {
			parkedSeen++
		} else {
			parkedSeen = 0
		}
		lastCalls = n
		if parkedSeen >= 2 {
			m, _ := cur.Load().(string)
			c.Fail(tname+"."+m+":blocks-forever-under-concurrency",
				fmt.Sprintf("%s.%s() called while other goroutines were mutating the instance is still parked on a mutex inside golib although every other goroutine has finished: nobody can release it", tname, m),
				map[string]interface{}{"type": ct.name, "method": m, "writers": writers, "goroutine": st})
			return
		}
		if waited > 240 {
			c.Inconclusive(label, "whole-structure caller did not return within 120 s and is not parked on a mutex")
			return
		}
	}
	c.Count("whole_blocking_runs", 1)
	c.Count("whole_blocking_calls", atomic.LoadInt64(&calls))
	for n := range names {
		c.SetAdd("whole_structure_methods_called_next_to_writers", tname+"."+n)
	}
	c.DistinctStr(fmt.Sprintf("wholeblock|%s|%d|%d|%s", ct.name, writers, gomax, label))
}

// ---- monitor 1d: two shared instances at once, with cross arguments ------------------------------
//
// Two instances of one type are hammered at the same time; a share of the calls on A take B as
// an argument and the other way round (a.PutAll(b) next to b.PutAll(a)). A method that holds its
// own lock while taking the argument's lock deadlocks here (opposite lock order), and every
// later operation on either instance parks behind it: all workers parked on a mutex is the
// conclusive verdict of waitOrDeadlock.
func pairStress(c *vlib.Ctx, ct ctype, r *vlib.Rand, label string, goroutines, opsPer, gomax int) {
	old := runtime.GOMAXPROCS(gomax)
	defer runtime.GOMAXPROCS(old)
	insts := [2]reflect.Value{reflect.ValueOf(ct.mk()), reflect.ValueOf(ct.mk())}
	typ := insts[0].Type()
	type op struct {
		name  string
		idx   int
		cross bool
	}
	var ops []op
	hasCross := false
	for i := 0; i < typ.NumMethod(); i++ {
		n := typ.Method(i).Name
		mt := typ.Method(i).Type
		takes := false
		for a := 1; a < mt.NumIn(); a++ {
			takes = takes || mt.In(a) == typ
		}
		switch {
		case takes:
			ops = append(ops, op{n, i, true}, op{n, i, true}, op{n, i, true})
			hasCross = true
		case pointOps[n]:
			if n == "Get" && strings.HasPrefix(ct.name, "Request") {
				continue
			}
			if n == "Remove" && ct.name == "LinkedList" {
				continue
			}
			ops = append(ops, op{n, i, false})
		}
	}
	if !hasCross {
		return
	}
	for k := range insts {
		populate(insts[k], r, 8)
	}
	var wg sync.WaitGroup
	var progress int64
	var crossCalls int64
	for g := 0; g < goroutines; g++ {
		wg.Add(1)
		gr := r.Fork(fmt.Sprint("g", g))
		g := g
		go stressWorker(&wg, &progress, func(i int) {
			o := ops[gr.Intn(len(ops))]
			me := insts[(g+i)%2]
			if o.name == "Clear" && gr.Intn(8) != 0 {
				return
			}
			if o.cross {
				other := insts[(g+i+1)%2]
				m := me.Method(o.idx)
				mt := m.Type()
				args := make([]reflect.Value, mt.NumIn())
				for a := range args {
					if mt.In(a) == typ {
						args[a] = other
					} else {
						args[a] = synth(mt.In(a), gr, 6, me, 0)
					}
				}
				func() {
					defer func() { recover() }()
					m.Call(args)
				}()
				atomic.AddInt64(&crossCalls, 1)
				return
			}
			callRecovered(me.Method(o.idx), gr, 6, me)
		}, opsPer)
	}
	tname := strings.SplitN(ct.name, "(", 2)[0]
	if verdict, stack := waitOrDeadlock(&wg, &progress, "main.stressWorker"); verdict != "done" {
		if verdict == "deadlock" {
			c.Fail(tname+":deadlock-between-two-instances", "goroutines operating on two instances of the type, some calls taking the other instance as argument, are all parked on the structures' own mutexes: the run can never finish (lock order)",
				map[string]interface{}{"type": ct.name, "goroutines": goroutines, "goroutine": stack})
		} else {
			c.Inconclusive(label, "pair stress made no progress for 5 minutes but is not parked on a mutex")
		}
		return
	}
	c.Count("pair_stress_runs", 1)
	c.Count("pair_stress_cross_calls", atomic.LoadInt64(&crossCalls))
	c.SetAdd("pair_stress_types", tname)
	c.DistinctStr(fmt.Sprintf("pair|%s|%d|%d|%s", ct.name, goroutines, gomax, label))
}

// ---- bystanders ------------------------------------------------------------------------------------
//
// Throughout the run a few goroutines use PRIVATE instances of the string- and integer-keyed types
// (nobody else ever sees them). A private instance used by one goroutine is sequential, so put /
// get / remove on it must behave sequentially whatever the other goroutines of the process do to
// THEIR instances: process-wide scratch state behind the per-instance locks (a shared hash buffer,
// a shared entry pool) shows here, and — because the bystanders keep that state busy — in the
// histories of the shared instances as well.
var bystanderOps, bystanderFaults int64
var bystanderFirst atomic.Value

//go:noinline
func bystander(id int, stop *int32) {
	ss := hmap.NewStringSet()
	sk := hmap.NewStringKeyLinkedMap()
	si := hmap.NewStringIntLinkedMap()
	ik := hmap.NewIntKeyMapDefault()
	fail := func(what string) {
		if atomic.AddInt64(&bystanderFaults, 1) == 1 {
			bystanderFirst.Store(what)
		}
	}
	for n := 0; atomic.LoadInt32(stop) == 0; n++ {
		k := fmt.Sprintf("bystander-%d-%d-%s", id, n, strings.Repeat("x", n%23))
		func() {
			defer func() {
				if e := recover(); e != nil {
					fail(fmt.Sprintf("panic on a private instance: %v", e))
				}
			}()
			ss.Put(k)
			if !ss.Contains(k) {
				fail("StringSet: Contains(k) false right after Put(k) on a private instance")
			}
			sk.Put(k, n)
			if v := sk.Get(k); v != n {
				fail(fmt.Sprintf("StringKeyLinkedMap: Get(k)=%v right after Put(k,%d) on a private instance", v, n))
			}
			si.Put(k, int32(n))
			if v := si.Get(k); v != int32(n) {
				fail(fmt.Sprintf("StringIntLinkedMap: Get(k)=%v right after Put(k,%d) on a private instance", v, n))
			}
			ik.Put(int32(n), k)
			if v := ik.Get(int32(n)); v != k {
				fail("IntKeyMap: Get(n) differs right after Put(n) on a private instance")
			}
			if n%4 == 3 {
				ss.Remove(k)
				sk.Remove(k)
				si.Remove(k)
				ik.Remove(int32(n))
				if ss.Contains(k) || sk.ContainsKey(k) || si.ContainsKey(k) {
					fail("a key is still present right after Remove on a private instance")
				}
			}
			if n%4096 == 4095 {
				ss.Clear()
				sk.Clear()
				si.Clear()
				ik.Clear()
			}
		}()
		atomic.AddInt64(&bystanderOps, 1)
		if n%8 == 0 {
			time.Sleep(10 * time.Microsecond) // leave the CPU to the monitored runs
		}
	}
}

func main() {
	c := vlib.Start("C10")
	isRace := c.Flavour == "race"
	gomaxes := []int{1, 2, 4, 16}

	// monitor 3 (plain flavour only: it does not need the race detector)
	if !isRace {
		selfDeadlockProbe(c)
	}

	// bystanders on private instances run next to everything that follows
	var stopBy int32
	go bystander(0, &stopBy)

	// monitor 1
	reps := c.N(4, 24)
	opsPer := c.N(6000, 40000)
	if isRace {
		reps = c.N(4, 16)
		opsPer = c.N(3000, 15000)
	}
	c.Cases("stress", len(ctypes)*reps, func(i int, r *vlib.Rand) {
		ct := ctypes[i%len(ctypes)]
		stressOne(c, ct, r, fmt.Sprint("stress#", i), r.Range(2, 16), r.Range(2, 6), opsPer, gomaxes[(i/len(ctypes))%4])
	})

	// monitor 1b (plain flavour only: the property claims race freedom for the point operations,
	// not for enumerator constructors and other whole-structure methods; what is judged here is
	// the behavioural consequence — lost updates, corruption, deadlock)
	wreps := c.N(2, 12)
	if isRace {
		wreps = 0
	}
	c.Cases("whole-ops", len(ctypes)*wreps, func(i int, r *vlib.Rand) {
		ct := ctypes[i%len(ctypes)]
		wholeOpStress(c, ct, r, fmt.Sprint("whole-ops#", i), r.Range(2, 6), c.N(1500, 6000), []int{4, 16, 2, 8}[(i/len(ctypes))%4])
	})

	// monitor 1c (plain flavour, same reason)
	breps := c.N(2, 12)
	if isRace {
		breps = 0
	}
	c.Cases("whole-blocking", len(ctypes)*breps, func(i int, r *vlib.Rand) {
		ct := ctypes[i%len(ctypes)]
		wholeOpBlocking(c, ct, r, fmt.Sprint("whole-blocking#", i), r.Range(2, 6), c.N(3000, 12000), []int{16, 4, 8, 2}[(i/len(ctypes))%4])
	})
	if !isRace {
		c.Floor("whole_blocking_runs", int64(len(ctypes)*breps/c.NShards/2), c.Counter("whole_blocking_runs"))
	}

	// monitor 1d
	// (plain flavour, like 1b/1c: taking another instance as argument is a whole-structure
	// operation on that instance — PutAll enumerates it — and the property claims race freedom
	// for the point operations only; what is judged here is the lock order)
	preps := c.N(3, 12)
	if isRace {
		preps = 0
	}
	c.Cases("pair-stress", len(ctypes)*preps, func(i int, r *vlib.Rand) {
		ct := ctypes[i%len(ctypes)]
		pairStress(c, ct, r, fmt.Sprint("pair-stress#", i), r.Range(2, 8), c.N(2000, 8000), []int{16, 4, 2, 8}[(i/len(ctypes))%4])
	})

	// monitor 1e (both flavours: the observers' calls next to the writers are also what the
	// race detector needs to see)
	ireps := c.N(4, 24)
	if isRace {
		ireps = c.N(2, 8)
	}
	c.Cases("invariant-poll", len(ctypes)*ireps, func(i int, r *vlib.Rand) {
		ct := ctypes[i%len(ctypes)]
		invPoll(c, ct, r, fmt.Sprint("invariant-poll#", i), []int{4, 16, 2, 8}[(i/len(ctypes))%4])
	})
	c.Floor("invpoll_runs", int64(len(ctypes)*ireps/c.NShards/4), c.Counter("invpoll_runs"))
	c.Floor("invpoll_observations", int64(len(ctypes)*ireps/c.NShards)*100, c.Counter("invpoll_observations"))

	// monitor 2
	runLinearizability(c)

	atomic.StoreInt32(&stopBy, 1)
	c.Count("bystander_private_instance_rounds", atomic.LoadInt64(&bystanderOps))
	if n := atomic.LoadInt64(&bystanderFaults); n > 0 {
		first, _ := bystanderFirst.Load().(string)
		c.Fail("private-instance-disturbed-by-other-goroutines", fmt.Sprintf("an instance used by ONE goroutine only misbehaved %d times while other goroutines were using their own instances: %s", n, first),
			map[string]interface{}{"faults": n, "first": first})
	}
	c.Floor("bystander_private_instance_rounds", 1000, atomic.LoadInt64(&bystanderOps))

	c.Floor("stress_runs", int64(len(ctypes)*reps/c.NShards/4), c.Counter("stress_runs"))
	c.Finish()
}
