package main

// Monitor 2: linearizability of short concurrent histories, checked with porcupine against
// the sequential reference models of harness/lmap (13 linked types) and harness/pmap (4 plain
// types), plus a small deque model for list.LinkedList. Timestamps come from one atomic
// logical clock (incremented before the call and after the return), so "A returned before
// B was called" is exact and independent of the wall clock.

import (
	"fmt"
	"runtime"
	"sort"
	"strings"
	"sync"
	"sync/atomic"
	"time"

	"github.com/anishathalye/porcupine"
	"github.com/whatap/golib/util/list"
	"github.com/whatap/golib/util/queue"

	"verif/lmap"
	"verif/pmap"
	"verif/vlib"
)

type hop struct {
	client    int
	in, out   interface{}
	call, ret int64
}

// runConcurrent executes per-goroutine operation lists on a shared object and records the history.
func runConcurrent(progs [][]interface{}, apply func(in interface{}) interface{}, gomax int) ([]hop, string) {
	old := runtime.GOMAXPROCS(gomax)
	defer runtime.GOMAXPROCS(old)
	var clk int64
	var wg sync.WaitGroup
	res := make([][]hop, len(progs))
	var ready, start int32
	for g := range progs {
		wg.Add(1)
		go histWorker(&wg, g, progs[g], apply, &clk, &ready, &start, gomax, &res[g])
	}
	for atomic.LoadInt32(&ready) < int32(len(progs)) {
		runtime.Gosched()
	}
	atomic.StoreInt32(&start, 1)
	if verdict, st := waitOrDeadlock(&wg, &clk, "main.histWorker"); verdict != "done" {
		return nil, verdict + "\n" + st
	}
	var all []hop
	for _, r := range res {
		all = append(all, r...)
	}
	sort.Slice(all, func(i, j int) bool { return all[i].call < all[j].call })
	return all, ""
}

// stuckHistory turns a history that never finished into a verdict.
func stuckHistory(c *vlib.Ctx, typeName, label, why string, progs [][]interface{}) {
	if strings.HasPrefix(why, "deadlock") {
		c.Fail(typeName+":deadlock-under-concurrency", "every goroutine of a short concurrent history is parked on the structure's own mutex: the history can never finish",
			map[string]interface{}{"type": typeName, "programs": fmt.Sprint(progs), "goroutine": why})
		return
	}
	c.Inconclusive(label, "history made no progress for 5 minutes but is not parked on a mutex")
}

//go:noinline
func histWorker(wg *sync.WaitGroup, g int, prog []interface{}, apply func(in interface{}) interface{}, clk *int64, ready, start *int32, gomax int, out *[]hop) {
	defer wg.Done()
	// spin barrier: all goroutines leave together, on different Ps where possible
	atomic.AddInt32(ready, 1)
	for atomic.LoadInt32(start) == 0 {
		if gomax == 1 {
			runtime.Gosched()
		}
	}
	for i, in := range prog {
		c := atomic.AddInt64(clk, 1)
		o := apply(in)
		r := atomic.AddInt64(clk, 1)
		*out = append(*out, hop{client: g, in: in, out: o, call: c, ret: r})
		if (g+i)%3 == 0 {
			runtime.Gosched()
		}
	}
}

func maxOverlap(h []hop) (int, int) {
	type ev struct {
		t int64
		d int
	}
	var evs []ev
	for _, o := range h {
		evs = append(evs, ev{o.call, 1}, ev{o.ret, -1})
	}
	sort.Slice(evs, func(i, j int) bool { return evs[i].t < evs[j].t })
	cur, mx, pairs := 0, 0, 0
	for _, e := range evs {
		if e.d == 1 {
			pairs += cur
		}
		cur += e.d
		if cur > mx {
			mx = cur
		}
	}
	return mx, pairs
}

func toPorc(h []hop) []porcupine.Operation {
	ops := make([]porcupine.Operation, len(h))
	for i, o := range h {
		ops[i] = porcupine.Operation{ClientId: o.client, Input: o.in, Output: o.out, Call: o.call, Return: o.ret}
	}
	return ops
}

func renderHist(h []hop) []string {
	var out []string
	for _, o := range h {
		out = append(out, fmt.Sprintf("g%d [%d,%d] %v -> %v", o.client, o.call, o.ret, o.in, o.out))
	}
	return out
}

func judge(c *vlib.Ctx, typeName string, model porcupine.Model, h []hop, label string, extra map[string]interface{}) {
	res, _ := porcupine.CheckOperationsVerbose(model, toPorc(h), 20*time.Second)
	mo, pairs := maxOverlap(h)
	c.Count("lin_histories", 1)
	c.Count("lin_ops", int64(len(h)))
	c.Max("max_overlap", int64(mo))
	if pairs > 0 {
		c.Count("lin_histories_with_overlap", 1)
	}
	c.Count("lin_overlapping_pairs", int64(pairs))
	c.SetAdd("types_linearizability", typeName)
	rh := renderHist(h)
	c.DistinctStr(typeName + "|" + strings.Join(rh, ";"))
	switch res {
	case porcupine.Ok:
		c.Count("lin_ok", 1)
	case porcupine.Unknown:
		c.Inconclusive(label, "porcupine timed out (20 s)")
	case porcupine.Illegal:
		d := map[string]interface{}{"type": typeName, "history": rh}
		for k, v := range extra {
			d[k] = v
		}
		c.Fail(typeName+":not-linearizable", "a recorded concurrent history of point operations has no linearization against the sequential model", d)
	}
	if c.WantSample() && pairs > 0 {
		c.Sample(map[string]interface{}{"monitor": "linearizability", "type": typeName, "history": rh, "verdict": fmt.Sprint(res), "max_overlap": mo})
	}
}

// ---- linked types (lmap) ------------------------------------------------------------------

var lmapPoint = []string{"Put", "PutFirst", "PutLast", "Add", "AddFirst", "AddLast", "AddNoOver", "Get", "GetLRU", "ContainsKey",
	"Remove", "RemoveFirst", "RemoveLast", "Clear", "Size", "IsEmpty", "IsFull"}

func lmapKey(t *lmap.TypeDesc, i int) interface{} {
	ints := []int64{1, 2, 102, 203, -1} // 1, 102, 203 share buckets in the default tables
	strs := []string{"a", "b", "k1", "k2", "zz"}
	switch t.Key {
	case lmap.KString:
		return strs[i%len(strs)]
	}
	return ints[i%len(ints)]
}

func lmapVal(t *lmap.TypeDesc, id int64) interface{} {
	switch t.Val {
	case lmap.VFloat32:
		return float32(id)
	case lmap.VSet:
		return nil
	}
	return id
}

func linLmap(c *vlib.Ctx, t *lmap.TypeDesc, r *vlib.Rand, label string, gomax int) {
	cfg := lmap.Config{Default: true, Max: []int{0, 0, 2, 3}[r.Intn(4)]}
	inst := t.New(cfg)
	if inst.Obj == nil {
		return
	}
	model := lmap.NewModel(t, cfg)
	var ops []string
	for _, o := range lmapPoint {
		if t.Supports(o) {
			ops = append(ops, o)
		}
	}
	nkeys := r.Range(1, 4)
	// bounded instances: a share of the histories is mostly "add unless full" on fresh keys, so that
	// several callers meet at the last free slot (check-then-act atomicity of the bound)
	boundRace := cfg.Max > 0 && t.Supports("AddNoOver") && r.Intn(2) == 0
	if boundRace {
		nkeys = 5
		c.Count("lin_histories_racing_for_the_last_slot", 1)
	}
	var vid int64 = 1000
	mk := func(rr *vlib.Rand) lmap.Op {
		name := ops[rr.Intn(len(ops))]
		if name == "Clear" && rr.Intn(3) != 0 {
			name = "Put"
		}
		if boundRace && rr.Intn(10) < 6 {
			name = "AddNoOver"
		}
		op := lmap.Op{Name: name}
		switch name {
		case "Put", "PutFirst", "PutLast", "Add", "AddFirst", "AddLast", "AddNoOver":
			op.K = lmapKey(t, rr.Intn(nkeys))
			op.V = lmapVal(t, atomic.AddInt64(&vid, 1))
			if strings.HasPrefix(name, "Add") {
				op.V = lmapVal(t, int64(rr.Range(1, 9)))
			}
		case "Get", "GetLRU", "ContainsKey", "Remove":
			op.K = lmapKey(t, rr.Intn(nkeys))
		}
		return op
	}
	// sequential prefix applied to both the instance and the model
	for i := r.Intn(4); i > 0; i-- {
		op := mk(r)
		if op.Name == "Clear" {
			continue
		}
		got := lmap.Apply(inst, op)
		want := model.Step(op)
		if !want.Equal(got) {
			return // a sequential disagreement is C09's finding, not a concurrency one
		}
	}
	G := r.Range(3, 5)
	progs := make([][]interface{}, G)
	for g := range progs {
		gr := r.Fork(fmt.Sprint("g", g))
		for i := r.Range(4, 9); i > 0; i-- {
			progs[g] = append(progs[g], mk(gr))
		}
	}
	h, why := runConcurrent(progs, func(in interface{}) interface{} { return lmap.Apply(inst, in.(lmap.Op)) }, gomax)
	if why != "" {
		stuckHistory(c, t.Name, label, why, progs)
		return
	}
	init := model.Clone()
	pm := porcupine.Model{
		Init: func() interface{} { return init.Clone() },
		Step: func(st, in, out interface{}) (bool, interface{}) {
			m := st.(*lmap.Model).Clone()
			want := m.Step(in.(lmap.Op))
			return want.Equal(out.(lmap.Result)), m
		},
		Equal: func(a, b interface{}) bool { return a.(*lmap.Model).Equal(b.(*lmap.Model)) },
	}
	judge(c, t.Name, pm, h, label, map[string]interface{}{"max": cfg.Max, "initial_keys": fmt.Sprint(init.Keys())})
	// quiescent structural invariant
	if snap := lmap.Walk(inst); snap != nil && len(snap.Problems) > 0 {
		c.Fail(t.Name+":structure-corrupt-after-concurrency", "the structural walker found a broken invariant at quiescence after a concurrent history: "+snap.Problems[0],
			map[string]interface{}{"type": t.Name, "problems": snap.Problems, "history": renderHist(h)})
	}
	c.Count("walker_runs", 1)
}

// ---- plain types (pmap) -------------------------------------------------------------------

func linPmap(c *vlib.Ctx, d *pmap.Descriptor, r *vlib.Rand, label string, gomax int) {
	inst := d.New(0, 0)
	model := pmap.NewModel(d.Name, inst.None)
	nkeys := r.Range(1, 4)
	ikeys := []int32{1, 2, 102, -7}
	skeys := []string{"a", "b", "k1", "zz"}
	var vid int32 = 10
	mk := func(rr *vlib.Rand) pmap.Op {
		name := d.PointOps[rr.Intn(len(d.PointOps))]
		if name == "Clear" && rr.Intn(3) != 0 {
			name = "Put"
		}
		if d.StringKey {
			return pmap.StrOp(name, skeys[rr.Intn(nkeys)])
		}
		op := pmap.Op{Name: name, K: ikeys[rr.Intn(nkeys)]}
		switch name {
		case "Put":
			op.V = atomic.AddInt32(&vid, 1)
		case "Add", "AddIfExist":
			op.V = int32(rr.Range(1, 9))
		}
		return op
	}
	for i := r.Intn(4); i > 0; i-- {
		op := mk(r)
		if op.Name == "Clear" {
			continue
		}
		got := pmap.Apply(inst, op)
		want := model.Step(op)
		if !pmap.Match(want, got, model.None) {
			return
		}
	}
	G := r.Range(3, 5)
	progs := make([][]interface{}, G)
	for g := range progs {
		gr := r.Fork(fmt.Sprint("g", g))
		for i := r.Range(4, 9); i > 0; i-- {
			progs[g] = append(progs[g], mk(gr))
		}
	}
	h, why := runConcurrent(progs, func(in interface{}) interface{} { return pmap.Apply(inst, in.(pmap.Op)) }, gomax)
	if why != "" {
		stuckHistory(c, d.Name, label, why, progs)
		return
	}
	init := model.Clone()
	pm := porcupine.Model{
		Init: func() interface{} { return init.Clone() },
		Step: func(st, in, out interface{}) (bool, interface{}) {
			m := st.(*pmap.Model).Clone()
			want := m.Step(in.(pmap.Op))
			return pmap.Match(want, out.(pmap.Result), m.None), m
		},
		Equal: func(a, b interface{}) bool { return a.(*pmap.Model).StateKey() == b.(*pmap.Model).StateKey() },
	}
	judge(c, d.Name, pm, h, label, nil)
	if rep := pmap.Walk(inst); rep != nil && len(rep.Problems) > 0 {
		hard := 0
		for _, p := range rep.Problems {
			if p.Kind != "misplaced" {
				hard++
			}
		}
		if hard > 0 {
			c.Fail(d.Name+":structure-corrupt-after-concurrency", fmt.Sprintf("the structural walker found a broken invariant at quiescence after a concurrent history: %+v", rep.Problems[0]),
				map[string]interface{}{"type": d.Name, "history": renderHist(h)})
		}
	}
	c.Count("walker_runs", 1)
}

// ---- list.LinkedList ---------------------------------------------------------------------

type llOp struct {
	Name string
	V    int64
}

func (o llOp) String() string {
	if strings.HasPrefix(o.Name, "Add") {
		return fmt.Sprintf("%s(%d)", o.Name, o.V)
	}
	return o.Name + "()"
}

type llRes struct {
	Has bool
	V   int64
}

func llStep(st []int64, op llOp) ([]int64, llRes) {
	switch op.Name {
	case "AddFirst":
		return append([]int64{op.V}, st...), llRes{}
	case "AddLast", "Add":
		return append(append([]int64{}, st...), op.V), llRes{}
	case "RemoveFirst":
		if len(st) == 0 {
			return st, llRes{}
		}
		return append([]int64{}, st[1:]...), llRes{true, st[0]}
	case "RemoveLast":
		if len(st) == 0 {
			return st, llRes{}
		}
		return append([]int64{}, st[:len(st)-1]...), llRes{true, st[len(st)-1]}
	case "Size":
		return st, llRes{true, int64(len(st))}
	case "Clear":
		return nil, llRes{}
	}
	return st, llRes{}
}

func linLinkedList(c *vlib.Ctx, r *vlib.Rand, label string, gomax int) {
	l := list.NewLinkedList()
	names := []string{"AddFirst", "AddLast", "Add", "RemoveFirst", "RemoveLast", "Size", "Clear"}
	var vid int64 = 100
	mk := func(rr *vlib.Rand) llOp {
		n := names[rr.Intn(len(names))]
		if n == "Clear" && rr.Intn(3) != 0 {
			n = "AddLast"
		}
		return llOp{Name: n, V: atomic.AddInt64(&vid, 1)}
	}
	apply := func(in interface{}) interface{} {
		op := in.(llOp)
		switch op.Name {
		case "AddFirst":
			l.AddFirst(op.V)
		case "AddLast":
			l.AddLast(op.V)
		case "Add":
			l.Add(op.V)
		case "RemoveFirst":
			if v := l.RemoveFirst(); v != nil {
				return llRes{true, v.(int64)}
			}
		case "RemoveLast":
			if v := l.RemoveLast(); v != nil {
				return llRes{true, v.(int64)}
			}
		case "Size":
			return llRes{true, int64(l.Size())}
		case "Clear":
			l.Clear()
		}
		return llRes{}
	}
	G := r.Range(3, 5)
	progs := make([][]interface{}, G)
	for g := range progs {
		gr := r.Fork(fmt.Sprint("g", g))
		for i := r.Range(4, 9); i > 0; i-- {
			progs[g] = append(progs[g], mk(gr))
		}
	}
	h, why := runConcurrent(progs, apply, gomax)
	if why != "" {
		stuckHistory(c, "LinkedList", label, why, progs)
		return
	}
	pm := porcupine.Model{
		Init: func() interface{} { return []int64(nil) },
		Step: func(st, in, out interface{}) (bool, interface{}) {
			ns, want := llStep(st.([]int64), in.(llOp))
			return want == out.(llRes), ns
		},
		Equal: func(a, b interface{}) bool { return fmt.Sprint(a) == fmt.Sprint(b) },
	}
	judge(c, "LinkedList", pm, h, label, nil)
	// quiescence: ToArray agrees with Size and the chain is consistent
	arr := l.ToArray()
	if len(arr) != l.Size() {
		c.Fail("LinkedList:structure-corrupt-after-concurrency", fmt.Sprintf("Size()=%d but ToArray() has %d elements at quiescence", l.Size(), len(arr)), map[string]interface{}{"history": renderHist(h)})
	}
}

// ---- queue.RequestQueue / RequestDoubleQueue ---------------------------------------------
//
// The property names the request queues and "size, enqueue, dequeue" explicitly. Histories use
// the non-blocking operations (a blocking Get belongs to C11's wake-up oracle); the bounded
// instances are kept full most of the time so that PutForce takes its evict-then-add path
// next to Size observers.

type qOp struct {
	Name string
	V    int64
}

func (o qOp) String() string {
	if strings.HasPrefix(o.Name, "Put") {
		return fmt.Sprintf("%s(%d)", o.Name, o.V)
	}
	return o.Name + "()"
}

type qRes struct {
	Has bool
	V   int64
}

type qState struct {
	A, B string // the two lanes, elements rendered "v," (strings keep the state comparable)
}

func qlen(s string) int { return strings.Count(s, ",") }
func qpop(s string) (string, int64) {
	i := strings.Index(s, ",")
	var v int64
	fmt.Sscan(s[:i], &v)
	return s[i+1:], v
}

// qStep is the sequential model: lane A is the single queue (or queue1), lane B queue2.
func qStep(st qState, op qOp, capA, capB int) (qState, qRes) {
	put := func(lane string, cp int, force bool) (string, qRes) {
		if cp <= 0 || qlen(lane) < cp {
			return lane + fmt.Sprint(op.V) + ",", qRes{true, 1}
		}
		if !force {
			return lane, qRes{true, 0}
		}
		for qlen(lane) >= cp {
			lane, _ = qpop(lane)
		}
		return lane + fmt.Sprint(op.V) + ",", qRes{true, 0}
	}
	switch op.Name {
	case "Put", "Put1":
		var r qRes
		st.A, r = put(st.A, capA, false)
		return st, r
	case "PutForce", "PutForce1":
		var r qRes
		st.A, r = put(st.A, capA, true)
		return st, r
	case "Put2":
		var r qRes
		st.B, r = put(st.B, capB, false)
		return st, r
	case "PutForce2":
		var r qRes
		st.B, r = put(st.B, capB, true)
		return st, r
	case "GetNoWait":
		var v int64
		if qlen(st.A) > 0 {
			st.A, v = qpop(st.A)
			return st, qRes{true, v}
		}
		if qlen(st.B) > 0 {
			st.B, v = qpop(st.B)
			return st, qRes{true, v}
		}
		return st, qRes{}
	case "Size":
		return st, qRes{true, int64(qlen(st.A) + qlen(st.B))}
	case "Size1":
		return st, qRes{true, int64(qlen(st.A))}
	case "Size2":
		return st, qRes{true, int64(qlen(st.B))}
	case "Clear":
		return qState{}, qRes{}
	}
	return st, qRes{}
}

func b2i(b bool) int64 {
	if b {
		return 1
	}
	return 0
}

func linQueue(c *vlib.Ctx, r *vlib.Rand, label string, gomax int, double bool) {
	caps := []int{0, 1, 2, 3, 4}
	capA, capB := caps[r.Intn(len(caps))], caps[r.Intn(len(caps))]
	var names []string
	var apply func(in interface{}) interface{}
	tname := "RequestQueue"
	var vid int64 = 100
	get := func(v interface{}) interface{} {
		if v == nil {
			return qRes{}
		}
		return qRes{true, v.(int64)}
	}
	var sizeNow func() int
	if !double {
		q := queue.NewRequestQueue(capA)
		capB = 0
		names = []string{"Put", "PutForce", "PutForce", "GetNoWait", "Size", "Size", "Clear"}
		for i := 0; i < capA; i++ { // start full: the eviction path is the interesting one
			q.Put(atomic.AddInt64(&vid, 1))
		}
		sizeNow = q.Size
		apply = func(in interface{}) interface{} {
			op := in.(qOp)
			switch op.Name {
			case "Put":
				return qRes{true, b2i(q.Put(op.V))}
			case "PutForce":
				return qRes{true, b2i(q.PutForce(op.V))}
			case "GetNoWait":
				return get(q.GetNoWait())
			case "Size":
				return qRes{true, int64(q.Size())}
			case "Clear":
				q.Clear()
			}
			return qRes{}
		}
	} else {
		tname = "RequestDoubleQueue"
		q := queue.NewRequestDoubleQueue(capA, capB)
		names = []string{"Put1", "Put2", "PutForce1", "PutForce2", "GetNoWait", "Size", "Size1", "Size2", "Clear"}
		for i := 0; i < capA; i++ {
			q.Put1(atomic.AddInt64(&vid, 1))
		}
		for i := 0; i < capB; i++ {
			q.Put2(atomic.AddInt64(&vid, 1))
		}
		sizeNow = q.Size
		apply = func(in interface{}) interface{} {
			op := in.(qOp)
			switch op.Name {
			case "Put1":
				return qRes{true, b2i(q.Put1(op.V))}
			case "Put2":
				return qRes{true, b2i(q.Put2(op.V))}
			case "PutForce1":
				return qRes{true, b2i(q.PutForce1(op.V))}
			case "PutForce2":
				return qRes{true, b2i(q.PutForce2(op.V))}
			case "GetNoWait":
				return get(q.GetNoWait())
			case "Size":
				return qRes{true, int64(q.Size())}
			case "Size1":
				return qRes{true, int64(q.Size1())}
			case "Size2":
				return qRes{true, int64(q.Size2())}
			case "Clear":
				q.Clear()
			}
			return qRes{}
		}
	}
	// initial state of the model = what the prologue put in
	init := qState{}
	{
		var v int64 = 100
		for i := 0; i < capA; i++ {
			v++
			init.A += fmt.Sprint(v) + ","
		}
		for i := 0; i < capB && double; i++ {
			v++
			init.B += fmt.Sprint(v) + ","
		}
	}
	mk := func(rr *vlib.Rand) qOp {
		n := names[rr.Intn(len(names))]
		if n == "Clear" && rr.Intn(4) != 0 {
			n = names[2]
		}
		return qOp{Name: n, V: atomic.AddInt64(&vid, 1)}
	}
	G := r.Range(3, 5)
	progs := make([][]interface{}, G)
	for g := range progs {
		gr := r.Fork(fmt.Sprint("g", g))
		for i := r.Range(4, 9); i > 0; i-- {
			progs[g] = append(progs[g], mk(gr))
		}
	}
	h, why := runConcurrent(progs, apply, gomax)
	if why != "" {
		stuckHistory(c, tname, label, why, progs)
		return
	}
	pm := porcupine.Model{
		Init: func() interface{} { return init },
		Step: func(st, in, out interface{}) (bool, interface{}) {
			ns, want := qStep(st.(qState), in.(qOp), capA, capB)
			return want == out.(qRes), ns
		},
		Equal: func(a, b interface{}) bool { return a.(qState) == b.(qState) },
	}
	judge(c, tname, pm, h, label, map[string]interface{}{"capacity1": capA, "capacity2": capB, "initial": fmt.Sprint(init)})
	c.Count("lin_queue_histories", 1)
	if capA > 0 {
		c.Count("lin_queue_histories_bounded_full_start", 1)
	}
	_ = sizeNow
}

func runLinearizability(c *vlib.Ctx) {
	gomaxes := []int{4, 8, 16, 2}
	n := c.N(4000, 200000)
	if c.Flavour == "race" {
		n = c.N(1500, 50000)
	}
	ntypes := len(lmap.Types) + len(pmap.Types) + 3
	c.Cases("linearizability", n, func(i int, r *vlib.Rand) {
		k := i % ntypes
		label := fmt.Sprint("linearizability#", i)
		gm := gomaxes[(i/ntypes)%4]
		switch {
		case k < len(lmap.Types):
			linLmap(c, lmap.Types[k], r, label, gm)
		case k < len(lmap.Types)+len(pmap.Types):
			linPmap(c, pmap.Types[k-len(lmap.Types)], r, label, gm)
		case k == len(lmap.Types)+len(pmap.Types):
			linLinkedList(c, r, label, gm)
		default:
			linQueue(c, r, label, gm, k == ntypes-1)
		}
	})
	c.Floor("lin_queue_histories", int64(n/c.NShards/ntypes/2), c.Counter("lin_queue_histories"))
	c.Floor("lin_histories", int64(n/c.NShards/4), c.Counter("lin_histories"))
	c.Floor("lin_histories_with_overlap", int64(n/c.NShards/40), c.Counter("lin_histories_with_overlap"))
}

// quiescentInvariants: the stress instances are created by reflection; their generic quiescent
// check (Size() versus the whole-structure views) is in stressOne. The private-structure
// walkers run after every linearizability history (linLmap / linPmap).
func quiescentInvariants(c *vlib.Ctx, ct ctype, inst interface{}, tname string) {}
