package main

import "verif/vlib"

// runLinearizability: monitor 2 (filled in once the shared models are available).
func runLinearizability(c *vlib.Ctx) {}

// quiescentInvariants runs the structural walkers of the shared model packages at quiescence.
func quiescentInvariants(c *vlib.Ctx, ct ctype, inst interface{}, tname string) {}
