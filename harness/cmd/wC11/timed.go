package main

import (
	"fmt"
	"sync/atomic"
	"time"

	"verif/vlib"
)

var timedTs = []int{0, 5, 20, 60}

// timedCase — GetTimeout(t). On an EMPTY queue it may return empty-handed only after
// elapsed >= t - 1 ms (the library's deadline is computed on a clock truncated to whole
// milliseconds, hence the 1 ms; machine load can only lengthen the elapsed time, so the
// inequality can only become "more true"). On a non-empty queue it returns the head; no
// timing is asserted there. With a late producer either outcome is allowed, each with its own
// condition.
func timedCase(c *vlib.Ctx, kind int, i int, r *vlib.Rand) {
	section := "timed-" + []string{"rq", "dq"}[kind]
	if skipAbandoned(c, section, i) {
		return
	}
	caseID := fmt.Sprintf("%s#%d", section, i)
	// the whole case runs on its own goroutine: every library call in it (put, clear, timed
	// get, size) is thereby bounded by the watchdog
	var step atomic.Value
	step.Store("start")
	var gaveUp int32
	wd := curWatchdog() + time.Second
	o := guardCall(wd, func() { timedBody(c, kind, section, caseID, r, &step, &gaveUp) })
	o.rethrow()
	if o.Runaway {
		c.Fail([]string{"RequestQueue", "RequestDoubleQueue"}[kind]+".PutForce:eviction-runaway", "Overflowed was invoked more than 64 times in a case that puts at most 4 elements", map[string]interface{}{"case": caseID, "step": step.Load()})
		abandonSection(c, section, caseID+": eviction loop aborted")
		return
	}
	if !o.Returned {
		atomic.StoreInt32(&gaveUp, 1)
		atomic.AddInt32(&stallsSeen, 1)
		c.Inconclusive(caseID, fmt.Sprintf("library call did not return within the watchdog %v (at: %v); goroutine abandoned", wd, step.Load()))
		abandonSection(c, section, fmt.Sprintf("%s: call did not return (at: %v)", caseID, step.Load()))
	}
}

func timedBody(c *vlib.Ctx, kind int, section, caseID string, r *vlib.Rand, step *atomic.Value, gaveUp *int32) {
	for _, t := range timedTs {
		if atomic.LoadInt32(gaveUp) != 0 {
			return
		}
		timedOne(c, kind, r, "timed", t, "", 0, step, gaveUp)
	}
}

// timedOne is one timed get with its oracle: a fresh queue, one of the variants (drawn when
// variant is ""), GetTimeout(t), the verdicts. pfx ("timed" / "tdelta") names the counters. delta is the process-wide clock correction
// (dateutil.SetDelta) the caller has installed; it is only recorded here. The verdicts are the
// same under every delta: the property speaks of the timeout that has elapsed, not of what any
// wall clock shows. Returns the elapsed time of the GetTimeout call and what it returned;
// done is false when the case had been given up by its watchdog in the meantime.
func timedOne(c *vlib.Ctx, kind int, r *vlib.Rand, pfx string, t int, variant string, delta int64, step *atomic.Value, gaveUp *int32) (el time.Duration, v interface{}, done bool) {
	caps := [2]int{[]int{0, 1, 2, 5}[r.Intn(4)], []int{0, 1, 2, 5}[r.Intn(4)]}
	q := newQ(kind, caps)
	T := q.name()
	installGuard(q, 64)
	// "after-clear": filled, cleared while non-empty, then one element put: it must come out
	drawn := []string{"empty", "empty", "non-empty", "late-producer", "after-clear"}[r.Intn(5)]
	if variant == "" {
		variant = drawn
	}
	lane := r.Intn(q.lanes())
	id := mkID(lane, 0, 1+r.Intn(1000))
	where := fmt.Sprintf("%s t=%d %s", T, t, variant)
	if delta != 0 {
		where += fmt.Sprintf(" clock-delta=%dms", delta)
	}
	step.Store(where + ": set-up")
	var prodDone chan struct{}
	switch variant {
	case "non-empty":
		q.put(lane, id)
	case "after-clear":
		for k := r.Range(1, 3); k > 0; k-- {
			q.put(r.Intn(q.lanes()), mkID(0, 1, 5000+k))
		}
		q.clear()
		q.put(lane, id)
	case "late-producer":
		prodDone = make(chan struct{})
		delay := time.Duration(r.Intn(2*t*1000+200)) * time.Microsecond
		go func() {
			time.Sleep(delay)
			q.put(lane, id)
			close(prodDone)
		}()
	}
	// workload shaping only: start away from the last tenth of a wall-clock millisecond, where
	// the verdict would hinge on the agreement of two different clocks to a few microseconds
	for time.Now().UnixNano()%1e6 > 9e5 {
	}
	step.Store(where + ": GetTimeout")
	t0 := time.Now()
	v = q.getTimeout(t)
	el = time.Since(t0)
	step.Store(where + ": after GetTimeout")
	if atomic.LoadInt32(gaveUp) != 0 {
		return el, v, false
	}
	detail := map[string]interface{}{"type": T, "variant": variant, "timeout_ms": t, "elapsed_ns": el.Nanoseconds(), "returned": fmt.Sprint(v)}
	if pfx != "timed" {
		detail["clock_delta_ms"] = delta
		detail["how"] = "dateutil.SetDelta(clock_delta_ms) before the call (what an agent does after a time sync with the server), nothing else differs from the delta-0 run"
	}
	limit := time.Duration(t)*time.Millisecond - time.Millisecond
	switch {
	case v == nil && (variant == "non-empty" || variant == "after-clear"):
		c.Fail(T+".GetTimeout:wrong-element", "GetTimeout on a non-empty queue returned nil", detail)
	case v == nil:
		if el < limit {
			c.Fail(T+".GetTimeout:early-empty-return", fmt.Sprintf("GetTimeout(%d) returned empty-handed after %v (< %v)", t, el, limit), detail)
		}
		if pfx == "timed" {
			c.Count(fmt.Sprintf("timed_empty_returns_t%d", t), 1)
			c.Max(fmt.Sprintf("max_timed_empty_elapsed_us_t%d", t), el.Microseconds())
		} else {
			c.Count("tdelta_empty_returns", 1)
			c.Max("max_tdelta_empty_overshoot_us", el.Microseconds()-int64(t)*1000) // evidence only
		}
	default:
		if variant == "empty" || v != interface{}(id) {
			c.Fail(T+".GetTimeout:wrong-element", fmt.Sprintf("GetTimeout returned %v, expected %s", v, map[bool]string{true: "nil", false: fmtID(id)}[variant == "empty"]), detail)
		}
		c.Count(pfx+"_element_returns", 1)
	}
	if prodDone != nil {
		step.Store(where + ": waiting for the late producer's Put")
		<-prodDone // bounded by the case's watchdog
		if v == nil {
			if got := q.getNoWait(); got != interface{}(id) {
				c.Fail(T+":conservation", fmt.Sprintf("element put during an expired GetTimeout is not in the queue afterwards (got %v)", got), detail)
			}
		}
	}
	if q.size() != 0 {
		c.Fail(T+".Size:wrong-value", fmt.Sprintf("Size()=%d after the timed get, expected 0", q.size()), detail)
	}
	c.Count(pfx+"_gets", 1)
	if pfx == "timed" {
		c.SetAdd("timed_variants", fmt.Sprintf("%s/%s/t=%d", T, variant, t))
	} else {
		c.SetAdd("tdelta_variants", fmt.Sprintf("%s/%s/delta=%dms", T, variant, delta))
	}
	if pfx != "timed" {
		c.Eval(1) // a clock-delta case makes many judged gets; each is one evaluation
	}
	c.DistinctStr(fmt.Sprint(pfx, T, variant, t, caps, id, delta))
	if t == 20 && wantSample(c, pfx) {
		c.Sample(map[string]interface{}{"section": pfx, "case": detail})
	}
	return el, v, true
}
