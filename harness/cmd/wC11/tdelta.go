package main

import (
	"fmt"
	"runtime"
	"strings"
	"sync/atomic"
	"time"

	"github.com/whatap/golib/util/dateutil"

	"verif/vlib"
)

// The process-wide clock correction (dateutil.SetDelta / SetServerTime: the difference
// between the server's clock and the local one, installed by an agent after a time sync) is a
// configuration of the library. What C11 states about the queues does not mention it, so it
// must hold under every value of it. clockDeltas[0] is the control.
// +1 h comes before the small positive ones: a get that waits "t + delta" is then reported by (c)
// after one watchdog instead of first spending 2.5 s in every get of the +2.5 s round.
var clockDeltas = []int64{0, -1, -1000, -60000, -86400000, 3600000, 1, 2500}

// deltas for the sections that are re-run under a correction (seq/lin/conc/wake "-cd"): the
// negative ones and +1 ms only. Those sections call GetTimeout(0..2) on possibly empty queues
// thousands of times without a bound of their own per call; a library that waits "t + delta"
// is the business of tdelta-* below, which bounds every single call.
var sideDeltas = []int64{-86400000, -60000, -1000, -1, 1}

// secSuffix is appended to the section names while a "-cd" re-run is in progress; deltaNow
// mirrors what was last installed (evidence only). Both are touched by the main goroutine only.
var secSuffix = ""

func secName(prefix string, kind int) string {
	return prefix + []string{"rq", "dq"}[kind] + secSuffix
}

// deltaFrozen: a library call was abandoned (still running) during the clock-delta phase. It may
// read the process-wide delta at any time; dateutil.SetDelta is a plain store, so writing it
// again from here would be a data race of the monitor's own making (and would change the
// conditions of a call that is still being observed). The delta is left as it is and the rest
// of the phase is given up (counted as abandoned cases).
var deltaFrozen bool

// setDelta installs a clock correction and checks (monitor sanity, not a verdict on golib's
// queues) that the library reports it back. No-op once deltaFrozen.
func setDelta(c *vlib.Ctx, d int64) {
	if deltaFrozen {
		return
	}
	dateutil.SetDelta(d)
	if got := dateutil.GetDelta(); got != d {
		panic(fmt.Sprintf("wC11: dateutil.SetDelta(%d) not in effect (GetDelta()=%d): the clock-delta phase would observe nothing", d, got))
	}
}

// withSideDelta runs one case of a re-run section under one of sideDeltas and restores 0.
// The sections are sequential in this process: nothing else reads the clock meanwhile.
func withSideDelta(c *vlib.Ctx, section string, i int, fn func()) {
	if deltaFrozen {
		abandonSection(c, section, "the clock delta can no longer be changed: a library call abandoned earlier in the clock-delta phase is still running")
		skipAbandoned(c, section, i)
		return
	}
	stalls0 := atomic.LoadInt32(&stallsSeen)
	d := sideDeltas[c.Rand(fmt.Sprintf("%s#%d/clock-delta", section, i)).Intn(len(sideDeltas))]
	setDelta(c, d)
	defer func() {
		if atomic.LoadInt32(&stallsSeen) != stalls0 {
			deltaFrozen = true
		}
		setDelta(c, 0)
	}()
	c.Count("cd_cases", 1)
	c.SetAdd("cd_sections_x_delta", fmt.Sprintf("%s/delta=%dms", section, d))
	fn()
}

// tdeltaCase — the timed get under clock corrections, both queue types. For every delta of
// clockDeltas (0 first: the control) and every timeout of timedTs plus one drawn timeout:
//
//	(a) GetTimeout(t) on an EMPTY queue returns nil, and not before t − 1 ms have elapsed on
//	    the monotonic clock (same oracle as timed-*: load can only make it "more true");
//	(b) one more get of a drawn variant (non-empty, after-clear, late-producer, empty) with the
//	    verdicts of timed-*: an element that is there is returned, under every delta;
//	(c) the empty get returns at all: every single get runs on its own goroutine under a
//	    watchdog of t + 20 s. For delta > 0, a get that is still parked after that, although
//	    the delta-0 control with the same t in the same case returned in less than a quarter of
//	    the watchdog, although a plain time.Sleep(t) started after the watchdog fired came
//	    back in less than a quarter of it as well, and although another second of grace has
//	    passed, is <Type>.GetTimeout:late-empty-return/clock-delta: the only thing that
//	    differs from the control is the delta. Everything else that does not come back is
//	    inconclusive. No upper bound is asserted on a get that does return.
func tdeltaCase(c *vlib.Ctx, kind int, i int, r *vlib.Rand) {
	section := secName("tdelta-", kind)
	if deltaFrozen {
		abandonSection(c, section, "the clock delta can no longer be changed: a library call abandoned earlier in the clock-delta phase is still running")
	}
	if skipAbandoned(c, section, i) {
		return
	}
	caseID := fmt.Sprintf("%s#%d", section, i)
	T := []string{"RequestQueue", "RequestDoubleQueue"}[kind]
	ts := append(append([]int(nil), timedTs...), r.Range(1, 90))
	control := map[int]time.Duration{} // t -> elapsed of the empty get under delta 0
	defer setDelta(c, 0)
	for _, d := range clockDeltas {
		setDelta(c, d)
		for _, t := range ts {
			for pass := 0; pass < 2; pass++ {
				variant := "empty"
				if pass == 1 {
					variant = "" // drawn
				}
				var step atomic.Value
				step.Store("start")
				var gaveUp, returned int32
				var el time.Duration
				var done bool
				wd := time.Duration(t)*time.Millisecond + curWatchdog()
				o := guardCall(wd, func() {
					defer atomic.StoreInt32(&returned, 1)
					el, _, done = timedOne(c, kind, r, "tdelta", t, variant, d, &step, &gaveUp)
				})
				o.rethrow()
				if o.Runaway {
					c.Fail(T+".PutForce:eviction-runaway", "Overflowed was invoked more than 64 times in a case that puts at most 4 elements", map[string]interface{}{"case": caseID, "step": step.Load(), "clock_delta_ms": d})
					abandonSection(c, section, caseID+": eviction loop aborted")
					return
				}
				if o.Returned {
					if pass == 0 && d == 0 && done {
						control[t] = el
					}
					if pass == 0 && done {
						c.Count(fmt.Sprintf("tdelta_empty_gets_delta_%dms", d), 1)
					}
					continue
				}
				// the get (or a call around it) has not come back within t + watchdog
				atomic.StoreInt32(&gaveUp, 1)
				atomic.AddInt32(&stallsSeen, 1)
				deltaFrozen = true // the deferred restore becomes a no-op
				at := fmt.Sprint(step.Load())
				ctl, haveCtl := control[t]
				detail := map[string]interface{}{"type": T, "case": caseID, "variant": map[int]string{0: "empty", 1: "drawn (see stuck_at)"}[pass], "timeout_ms": t, "clock_delta_ms": d, "watchdog_ms": wd.Milliseconds(), "stuck_at": at,
					"how": "dateutil.SetDelta(clock_delta_ms), then GetTimeout(timeout_ms) on a fresh empty queue; the same call under delta 0 is the control"}
				verdict := false
				if pass == 0 && d > 0 && haveCtl && ctl < wd/4 && strings.HasSuffix(at, ": GetTimeout") {
					detail["control_elapsed_ns_delta0"] = ctl.Nanoseconds()
					// is the machine responsive NOW? a plain sleep of the same length on a fresh goroutine
					p0 := time.Now()
					pch := make(chan struct{})
					go func() { time.Sleep(time.Duration(t) * time.Millisecond); close(pch) }()
					probeOK := waitFor(pch, wd/4)
					detail["probe_sleep_elapsed_ns"] = time.Since(p0).Nanoseconds()
					if probeOK {
						time.Sleep(time.Second) // grace: a get whose timer was due together with the watchdog's
						verdict = atomic.LoadInt32(&returned) == 0
					}
				}
				if verdict {
					detail["parked_in_GetTimeout"] = countFrames("queue.(*" + T + ").GetTimeout(")
					c.Fail(T+".GetTimeout:late-empty-return/clock-delta",
						fmt.Sprintf("GetTimeout(%d) on an empty queue has not returned %v after the call under a clock delta of %+d ms; under delta 0 the same call returned after %v", t, wd+time.Second, d, ctl), detail)
				} else {
					c.Inconclusive(caseID, fmt.Sprintf("library call did not return within the watchdog %v (at: %v); goroutine abandoned", wd, at))
				}
				abandonSection(c, section, fmt.Sprintf("%s: call did not return (at: %v)", caseID, at))
				return
			}
		}
	}
	c.Count("tdelta_cases_all_deltas", 1)
}

// countFrames counts the goroutines whose stack contains frame (evidence for a report).
func countFrames(frame string) int {
	buf := make([]byte, 1<<20)
	for {
		n := runtime.Stack(buf, true)
		if n < len(buf) {
			buf = buf[:n]
			break
		}
		buf = make([]byte, 2*len(buf))
	}
	return strings.Count(string(buf), frame)
}
