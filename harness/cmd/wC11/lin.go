package main

import (
	"fmt"
	"runtime"
	"sort"
	"sync"
	"sync/atomic"
	"time"

	"github.com/anishathalye/porcupine"

	"verif/vlib"
)

// Small histories checked for linearizability with porcupine against the reference FIFO.
// State = content of the (one or two) lanes as a string of element bytes; capacities are fixed
// per history, so every result below is determined by the state:
//   Put/PutForce -> bool, GetNoWait/GetTimeout/Get -> element or nil (Get never nil), Size* -> int,
//   Clear. For the double queue a get must take lane 1's head whenever lane 1 is non-empty.

const (
	lPut = iota
	lPutForce
	lGetNoWait
	lGetTimeout
	lGet
	lSize // total
	lSizeLane
	lClear
)

var linOpName = []string{"Put", "PutForce", "GetNoWait", "GetTimeout", "Get", "Size", "SizeLane", "Clear"}

type linIn struct {
	Op   int
	Lane int
	ID   byte
}
type linOut struct {
	OK bool
	ID byte // 0 = nil
	N  int
}

type linState struct{ a, b string } // lane contents; comparable, so porcupine's == fallback works

type linHistOp struct {
	Client int    `json:"client"`
	Op     string `json:"op"`
	Call   int64  `json:"call_ns"`
	Ret    int64  `json:"return_ns"`
}

func linModel(caps [2]int, lanes int, strictPriority bool) porcupine.Model {
	full := func(s string, cap int) bool { return cap > 0 && len(s) >= cap }
	return porcupine.Model{
		Init: func() interface{} { return linState{} },
		Step: func(state, input, output interface{}) (bool, interface{}) {
			st := state.(linState)
			in := input.(linIn)
			out := output.(linOut)
			ln := [2]string{st.a, st.b}
			mk := func() linState { return linState{ln[0], ln[1]} }
			switch in.Op {
			case lPut:
				if full(ln[in.Lane], caps[in.Lane]) {
					return !out.OK, st
				}
				ln[in.Lane] += string([]byte{in.ID})
				return out.OK, mk()
			case lPutForce:
				if !full(ln[in.Lane], caps[in.Lane]) {
					ln[in.Lane] += string([]byte{in.ID})
					return out.OK, mk()
				}
				s := ln[in.Lane]
				for full(s, caps[in.Lane]) {
					s = s[1:]
				}
				ln[in.Lane] = s + string([]byte{in.ID})
				return !out.OK, mk()
			case lGetNoWait, lGetTimeout, lGet:
				if out.ID == 0 {
					return in.Op != lGet && ln[0] == "" && ln[1] == "", st
				}
				if strictPriority || lanes == 1 {
					for l := 0; l < lanes; l++ {
						if ln[l] != "" {
							if ln[l][0] != out.ID {
								return false, st
							}
							ln[l] = ln[l][1:]
							return true, mk()
						}
					}
					return false, st
				}
				// relaxed double queue (diagnosis only): head of either lane
				for l := 0; l < lanes; l++ {
					if ln[l] != "" && ln[l][0] == out.ID {
						ln[l] = ln[l][1:]
						return true, mk()
					}
				}
				return false, st
			case lSize:
				return out.N == len(ln[0])+len(ln[1]), st
			case lSizeLane:
				return out.N == len(ln[in.Lane]), st
			case lClear:
				return true, linState{}
			}
			return false, st
		},
	}
}

func descr(in linIn, out linOut) string {
	switch in.Op {
	case lPut, lPutForce:
		return fmt.Sprintf("%s%d(%d)=%v", linOpName[in.Op], in.Lane+1, in.ID, out.OK)
	case lGetNoWait, lGetTimeout, lGet:
		if out.ID == 0 {
			return linOpName[in.Op] + "()=nil"
		}
		return fmt.Sprintf("%s()=%d", linOpName[in.Op], out.ID)
	case lSize:
		return fmt.Sprintf("Size()=%d", out.N)
	case lSizeLane:
		return fmt.Sprintf("Size%d()=%d", in.Lane+1, out.N)
	}
	return "Clear()"
}

func linCase(c *vlib.Ctx, kind int, i int, r *vlib.Rand) {
	section := secName("lin-", kind)
	if skipAbandoned(c, section, i) {
		return
	}
	capCh := []int{0, 1, 1, 2, 2, 3, 5}
	caps := [2]int{capCh[r.Intn(len(capCh))], capCh[r.Intn(len(capCh))]}
	q := newQ(kind, caps)
	T := q.name()
	lanes := q.lanes()
	// no history here offers more than 5×10 elements (+ pills): callbacks beyond that are a
	// runaway eviction loop, aborted by the guard and reported below
	guard := installGuard(q, 256)
	var runaway int32
	G := r.Range(2, 5)
	getters := 0
	if r.Intn(3) == 0 {
		getters = r.Range(1, 2) // goroutines that also use the blocking Get and end at a pill
		if getters >= G {
			getters = G - 1
		}
		if tooManyStalls() {
			getters = 0
		}
	}
	procs := []int{1, 2, 4, 8, 16, 16}[r.Intn(6)]
	old := runtime.GOMAXPROCS(procs)
	defer runtime.GOMAXPROCS(old)
	base := 0
	if getters > 0 {
		base = countParked(q.parkFrame())
	}

	start := time.Now()
	now := func() int64 { return int64(time.Since(start)) }
	hist := make([][]porcupine.Operation, G+1)
	var delivered int64
	var gettersDone int32
	startCh := make(chan struct{})
	var wwg, gwg sync.WaitGroup
	// weights: put, putForce, getNoWait, getTimeout(0), get, size, sizeLane, clear
	wWorker := [8]int{30, 20, 25, 5, 0, 8, 8, 2}
	wGetter := [8]int{8, 0, 20, 0, 60, 5, 0, 0} // no PutForce/Clear here: they could destroy a pill meant for another getter
	switch r.Intn(4) {
	case 0:
		wWorker = [8]int{25, 45, 15, 0, 0, 10, 5, 0} // eviction heavy
	case 1:
		wWorker = [8]int{45, 5, 35, 5, 0, 5, 5, 0}
	}
	for g := 0; g < G; g++ {
		isGetter := g < getters
		n := r.Range(3, 10)
		rr := r.Fork(fmt.Sprintf("g%d", g))
		wg := &wwg
		if isGetter {
			wg = &gwg
		}
		wg.Add(1)
		go func(g, n int, isGetter bool, rr *vlib.Rand) {
			defer wg.Done()
			if isGetter {
				defer atomic.AddInt32(&gettersDone, 1)
			}
			w := wWorker
			if isGetter {
				w = wGetter
			}
			ops := make([]porcupine.Operation, 0, n)
			defer func() {
				if e := recover(); e != nil {
					if !isRunaway(e) {
						panic(e)
					}
					atomic.StoreInt32(&runaway, 1)
				}
			}()
			defer func() { hist[g] = ops }()
			<-startCh
			for k := 0; k < n; k++ {
				in := linIn{Op: pickW(rr, w[:]), Lane: rr.Intn(lanes)}
				var out linOut
				var v interface{}
				t0 := now()
				switch in.Op {
				case lPut:
					in.ID = byte(g*10 + k + 1)
					out.OK = q.put(in.Lane, uint64(in.ID))
				case lPutForce:
					in.ID = byte(g*10 + k + 1)
					out.OK = q.putForce(in.Lane, uint64(in.ID))
				case lGetNoWait:
					v = q.getNoWait()
				case lGetTimeout:
					v = q.getTimeout(0)
				case lGet:
					v = q.get()
				case lSize:
					out.N = q.size()
				case lSizeLane:
					out.N = q.sizeLane(in.Lane)
				case lClear:
					q.clear()
				}
				t1 := now()
				isPill := false
				if v != nil {
					id, _ := v.(uint64)
					out.ID = byte(id)
					isPill = id >= 200
					atomic.AddInt64(&delivered, 1)
				}
				ops = append(ops, porcupine.Operation{ClientId: g, Input: in, Call: t0, Output: out, Return: t1})
				if isPill {
					return
				}
				if rr.Intn(4) == 0 {
					runtime.Gosched()
				}
			}
		}(g, n, isGetter, rr)
	}
	close(startCh)
	done := func(wg *sync.WaitGroup) <-chan struct{} {
		ch := make(chan struct{})
		go func() { wg.Wait(); close(ch) }()
		return ch
	}
	caseID := fmt.Sprintf("%s#%d", secName("lin-", kind), i)
	if !waitDone(done(&wwg)) {
		atomic.AddInt32(&stallsSeen, 1)
		c.Inconclusive(caseID, "watchdog fired while non-blocking workers were running")
		noteSectionStall(c, section, caseID)
		return
	}
	if getters > 0 {
		// pills (ids 200..): ordinary recorded Puts by client G into the low-priority lane,
		// retried while refused, until every blocking getter has ended
		gd := done(&gwg)
		pills := guardCall(2*curWatchdog(), func() {
			var ops []porcupine.Operation
			deadline := time.Now().Add(curWatchdog())
			accepted := 0
			for accepted < getters && atomic.LoadInt32(&gettersDone) < int32(getters) {
				in := linIn{Op: lPut, Lane: lanes - 1, ID: byte(200 + accepted)}
				t0 := now()
				ok := q.put(in.Lane, uint64(in.ID))
				t1 := now()
				if len(ops) < 60 || ok {
					ops = append(ops, porcupine.Operation{ClientId: G, Input: in, Call: t0, Output: linOut{OK: ok}, Return: t1})
				} else {
					// a refused put changes nothing; beyond 60 retries it is simply not recorded
				}
				if ok {
					accepted++
					continue
				}
				if time.Now().After(deadline) {
					break
				}
				runtime.Gosched()
			}
			hist[G] = ops
		})
		pills.rethrow()
		if !pills.Returned {
			atomic.AddInt32(&stallsSeen, 1)
			c.Inconclusive(caseID, "a pill Put did not return within the watchdog; goroutine abandoned")
			noteSectionStall(c, section, caseID)
			return
		}
		if !waitDone(gd) {
			s := diagnoseStall(q, base, func() int64 { return atomic.LoadInt64(&delivered) })
			if s.Conclusive {
				c.Fail(T+".Get:lost-wakeup", "small history: getter parked in Get() while Size()>0 holds stably", s.Detail)
			} else {
				c.Inconclusive(caseID, fmt.Sprintf("watchdog %v fired (bare timeout) waiting for blocking getters", watchdog))
			}
			noteSectionStall(c, section, caseID)
			return
		}
	}
	if atomic.LoadInt32(&runaway) != 0 {
		c.Fail(T+".PutForce:eviction-runaway", fmt.Sprintf("small history: Overflowed/Failed were invoked %d times: the eviction loop of a forced put does not terminate (aborted by the monitor)", atomic.LoadInt64(&guard.calls)),
			map[string]interface{}{"type": T, "capacity": caps[:lanes], "gomaxprocs": procs})
		noteSectionStall(c, section, caseID)
		return
	}
	var all []porcupine.Operation
	for _, h := range hist {
		all = append(all, h...)
	}
	// overlap measurement (evidence only)
	type ev struct {
		t    int64
		open int
	}
	var evs []ev
	for _, o := range all {
		evs = append(evs, ev{o.Call, +1}, ev{o.Return, -1})
	}
	sort.Slice(evs, func(a, b int) bool {
		if evs[a].t != evs[b].t {
			return evs[a].t < evs[b].t
		}
		return evs[a].open > evs[b].open
	})
	open, maxOpen := 0, 0
	for _, e := range evs {
		open += e.open
		if open > maxOpen {
			maxOpen = open
		}
	}

	dump := func() []linHistOp {
		var d []linHistOp
		for _, o := range all {
			d = append(d, linHistOp{o.ClientId, descr(o.Input.(linIn), o.Output.(linOut)), o.Call, o.Return})
		}
		sort.Slice(d, func(a, b int) bool { return d[a].Call < d[b].Call })
		return d
	}
	const ptimeout = 10 * time.Second
	res := porcupine.CheckOperationsTimeout(linModel(caps, lanes, true), all, ptimeout)
	switch res {
	case porcupine.Unknown:
		c.Inconclusive(caseID, "porcupine timed out")
		return
	case porcupine.Illegal:
		key := T + ":not-linearizable"
		what := "history is not linearizable against the bounded-FIFO model"
		// narrow the key. First: is the history fine once the Size reads are left out? Then the
		// only offence is a Size() result (Size reads the lengths without the queue's lock; a
		// torn Size can otherwise masquerade as a priority inversion). Second: would it be fine
		// if a get were allowed to take lane 2's head while lane 1 is non-empty?
		var noSize []porcupine.Operation
		for _, o := range all {
			if op := o.Input.(linIn).Op; op != lSize && op != lSizeLane {
				noSize = append(noSize, o)
			}
		}
		if len(noSize) < len(all) && porcupine.CheckOperationsTimeout(linModel(caps, lanes, true), noSize, ptimeout) == porcupine.Ok {
			key, what = T+".Size:not-linearizable", "history is linearizable except for a Size() result that matches no state between operations (Size reads the length without the queue's lock, e.g. half-way through a forced put)"
		} else if lanes == 2 && porcupine.CheckOperationsTimeout(linModel(caps, lanes, false), noSize, ptimeout) == porcupine.Ok {
			key, what = "RequestDoubleQueue:priority", "history is linearizable only if a get may take a lane-2 element while lane 1 is non-empty"
		}
		c.Fail(key, what, map[string]interface{}{"type": T, "capacity": caps[:lanes], "gomaxprocs": procs, "history": dump()})
		return
	}
	c.Count("lin_histories", 1)
	c.Count("lin_ops", int64(len(all)))
	c.Max("max_overlap", int64(maxOpen))
	if maxOpen >= 2 {
		c.Count("lin_histories_with_overlap", 1)
	}
	if getters > 0 {
		c.Count("lin_histories_with_blocking_get", 1)
	}
	for _, o := range all {
		in, out := o.Input.(linIn), o.Output.(linOut)
		c.Count("lin_op_"+linOpName[in.Op], 1)
		if (in.Op == lPut || in.Op == lPutForce) && !out.OK {
			c.Count("lin_"+linOpName[in.Op]+"_false", 1)
		}
		if lanes == 2 && in.Op >= lGetNoWait && in.Op <= lGet && out.ID != 0 {
			c.Count("lin_dq_gets_with_element", 1)
		}
	}
	c.SetAdd("types_covered", T)
	d := dump()
	s := T + fmt.Sprint(caps)
	for _, o := range d {
		s += fmt.Sprintf("|%d:%s", o.Client, o.Op)
	}
	c.DistinctStr(s)
	if maxOpen >= 3 && wantSample(c, "lin") {
		if len(d) > 30 {
			d = d[:30]
		}
		c.Sample(map[string]interface{}{"section": "lin", "type": T, "capacity": caps[:lanes], "max_overlap": maxOpen, "history": d})
	}
}
