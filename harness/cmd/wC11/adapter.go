package main

import (
	"fmt"
	"reflect"
	"runtime"
	"runtime/debug"
	"strings"
	"sync/atomic"
	"time"
	"unsafe"

	"github.com/whatap/golib/util/queue"

	"verif/vlib"
)

// qapi is the common face of the two queue types under test. lane 0 is the (only) lane of
// RequestQueue and the FIRST (high priority) lane of RequestDoubleQueue; lane 1 is the
// second lane of the double queue.
type qapi interface {
	name() string
	lanes() int
	put(lane int, v interface{}) bool
	putForce(lane int, v interface{}) bool
	get() interface{}
	getNoWait() interface{}
	getTimeout(ms int) interface{}
	clear()
	size() int
	sizeLane(lane int) int
	setCap(c [2]int)
	getCap(lane int) int
	// failed[l] / overflowed[l] are called by the queue with its lock held.
	setCallbacks(failed, overflowed [2]func(interface{}))
	parkFrame() string // substring of the blocking-Get frame in a goroutine dump
}

// ---- RequestQueue ---------------------------------------------------------------------

type rqA struct{ q *queue.RequestQueue }

func newRQ(c [2]int) qapi                             { return &rqA{queue.NewRequestQueue(c[0])} }
func (a *rqA) name() string                           { return "RequestQueue" }
func (a *rqA) lanes() int                             { return 1 }
func (a *rqA) put(_ int, v interface{}) bool          { return a.q.Put(v) }
func (a *rqA) putForce(_ int, v interface{}) bool     { return a.q.PutForce(v) }
func (a *rqA) get() interface{}                       { return a.q.Get() }
func (a *rqA) getNoWait() interface{}                 { return a.q.GetNoWait() }
func (a *rqA) getTimeout(ms int) interface{}          { return a.q.GetTimeout(ms) }
func (a *rqA) clear()                                 { a.q.Clear() }
func (a *rqA) size() int                              { return a.q.Size() }
func (a *rqA) sizeLane(int) int                       { return a.q.Size() }
func (a *rqA) setCap(c [2]int)                        { a.q.SetCapacity(c[0]) }
func (a *rqA) getCap(int) int                         { return a.q.GetCapacity() }
func (a *rqA) parkFrame() string                      { return "queue.(*RequestQueue).Get(" }
func (a *rqA) setCallbacks(f, o [2]func(interface{})) { a.q.Failed, a.q.Overflowed = f[0], o[0] }

// ---- RequestDoubleQueue ---------------------------------------------------------------

type dqA struct{ q *queue.RequestDoubleQueue }

func newDQ(c [2]int) qapi   { return &dqA{queue.NewRequestDoubleQueue(c[0], c[1])} }
func (a *dqA) name() string { return "RequestDoubleQueue" }
func (a *dqA) lanes() int   { return 2 }
func (a *dqA) put(l int, v interface{}) bool {
	if l == 0 {
		return a.q.Put1(v)
	}
	return a.q.Put2(v)
}
func (a *dqA) putForce(l int, v interface{}) bool {
	if l == 0 {
		return a.q.PutForce1(v)
	}
	return a.q.PutForce2(v)
}
func (a *dqA) get() interface{}              { return a.q.Get() }
func (a *dqA) getNoWait() interface{}        { return a.q.GetNoWait() }
func (a *dqA) getTimeout(ms int) interface{} { return a.q.GetTimeout(ms) }
func (a *dqA) clear()                        { a.q.Clear() }
func (a *dqA) size() int                     { return a.q.Size() }
func (a *dqA) sizeLane(l int) int {
	if l == 0 {
		return a.q.Size1()
	}
	return a.q.Size2()
}
func (a *dqA) setCap(c [2]int) { a.q.SetCapacity(c[0], c[1]) }
func (a *dqA) getCap(l int) int {
	if l == 0 {
		return a.q.GetCapacity1()
	}
	return a.q.GetCapacity2()
}
func (a *dqA) parkFrame() string { return "queue.(*RequestDoubleQueue).Get(" }

// The double queue has no exported setter for its four callbacks: they are private fields,
// written here through reflect+unsafe (the pointer stays inside the allocation).
func (a *dqA) setCallbacks(f, o [2]func(interface{})) {
	setPriv(a.q, "failed1", f[0])
	setPriv(a.q, "failed2", f[1])
	setPriv(a.q, "overflowed1", o[0])
	setPriv(a.q, "overflowed2", o[1])
}

func setPriv(obj interface{}, field string, val func(interface{})) {
	v := reflect.ValueOf(obj).Elem().FieldByName(field)
	if !v.IsValid() {
		panic("wC11: private field " + field + " not found in " + reflect.TypeOf(obj).String())
	}
	reflect.NewAt(v.Type(), unsafe.Pointer(v.UnsafeAddr())).Elem().Set(reflect.ValueOf(val))
}

func newQ(kind int, c [2]int) qapi {
	if kind == 0 {
		return newRQ(c)
	}
	return newDQ(c)
}

// ---- goroutine-dump helpers -----------------------------------------------------------

// countParked counts goroutines that are parked in sync.Cond.Wait beneath the given frame.
func countParked(frame string) int {
	buf := make([]byte, 1<<20)
	for {
		n := runtime.Stack(buf, true)
		if n < len(buf) {
			buf = buf[:n]
			break
		}
		buf = make([]byte, 2*len(buf))
	}
	cnt := 0
	for _, b := range strings.Split(string(buf), "\n\n") {
		e := strings.IndexByte(b, '\n')
		if e < 0 {
			continue
		}
		if strings.Contains(b[:e], "sync.Cond.Wait") && strings.Contains(b, frame) {
			cnt++
		}
	}
	return cnt
}

// waitParked polls (workload shaping only, never a verdict) until want more goroutines than
// base are parked in the blocking Get; returns how many were seen parked.
func waitParked(frame string, base, want int) int {
	seen := 0
	for i := 0; i < 300; i++ {
		seen = countParked(frame) - base
		if seen >= want {
			return seen
		}
		if i < 100 {
			for k := 0; k < 10; k++ {
				runtime.Gosched()
			}
		} else {
			time.Sleep(100 * time.Microsecond)
		}
	}
	return seen
}

// stall is the outcome of a fired watchdog.
type stall struct {
	Conclusive bool
	Detail     map[string]interface{}
}

// diagnoseStall is called when the generous watchdog fired while consumers were expected to
// return. It is conclusive (a lost wake-up) only if, observed twice seconds apart, a consumer
// is parked in Cond.Wait under Get while Size()>0 and nothing was delivered in between.
// Anything else is a bare timeout: inconclusive. Size() is read through sizeBounded: a leaked
// goroutine that spins with the queue's lock held must not block the diagnosis itself.
func diagnoseStall(q qapi, base int, progress func() int64) stall {
	atomic.AddInt32(&stallsSeen, 1)
	p1, s1, g1 := countParked(q.parkFrame())-base, sizeBounded(q), progress()
	time.Sleep(3 * time.Second)
	p2, s2, g2 := countParked(q.parkFrame())-base, sizeBounded(q), progress()
	d := map[string]interface{}{"parked_consumers": []int{p1, p2}, "size": []int{s1, s2}, "delivered": []int64{g1, g2}}
	if s1 < 0 || s2 < 0 {
		d["note"] = "Size() itself did not return within 2 s (reported as -1): the queue's lock is held by a goroutine that does not come back"
	}
	return stall{Conclusive: p1 > 0 && p2 > 0 && s1 > 0 && s2 > 0 && g1 == g2, Detail: d}
}

// sizeBounded is q.size() with a 2 s bound (-1 = did not return).
func sizeBounded(q qapi) int {
	ch := make(chan int, 1)
	go func() { ch <- q.size() }()
	t := time.NewTimer(2 * time.Second)
	defer t.Stop()
	select {
	case n := <-ch:
		return n
	case <-t.C:
		return -1
	}
}

// The watchdog is generous (20 s) as long as nothing ever stalled in this process. Once a stall
// has been seen (or a sequential section has failed) the run already carries a finding or an
// inconclusive case; later cases then use a shorter one, and after three stalls the cases that park consumers in the blocking Get
// are skipped (reported inconclusive), so that a broken wake-up cannot cost hours.
const watchdog = 20 * time.Second

var stallsSeen int32

// seqFailed is set when a sequential model section (they run first) has reported a violation:
// the run is decided, and the concurrent sections that follow need not wait generously for a
// structure that is already known to misbehave.
var seqFailed int32

func curWatchdog() time.Duration {
	if atomic.LoadInt32(&stallsSeen) > 0 || atomic.LoadInt32(&seqFailed) > 0 {
		return 5 * time.Second
	}
	return watchdog
}

func tooManyStalls() bool { return atomic.LoadInt32(&stallsSeen) >= 3 }

// waitDone waits for ch with the watchdog; false means it fired.
func waitDone(ch <-chan struct{}) bool { return waitFor(ch, curWatchdog()) }

func waitFor(ch <-chan struct{}, d time.Duration) bool {
	t := time.NewTimer(d)
	defer t.Stop()
	select {
	case <-ch:
		return true
	case <-t.C:
		return false
	}
}

// waitProgress waits for ch as long as progress() keeps changing; it gives up (false) once
// nothing has moved for a whole watchdog, and in any case after four watchdogs.
// Workload shaping only: the caller turns "gave up" into a stop request, never into a verdict.
func waitProgress(ch <-chan struct{}, progress func() int64) bool {
	quiet := curWatchdog()
	hard := time.Now().Add(4 * curWatchdog())
	last, lastAt := progress(), time.Now()
	tk := time.NewTicker(20 * time.Millisecond)
	defer tk.Stop()
	for {
		select {
		case <-ch:
			return true
		case <-tk.C:
		}
		now := time.Now()
		if p := progress(); p != last {
			last, lastAt = p, now
		}
		if now.Sub(lastAt) > quiet || now.After(hard) {
			return false
		}
	}
}

// ---- bounded execution of library calls ------------------------------------------------

// runawayPanic is thrown by the monitor's own Failed/Overflowed callbacks when the library
// invokes them more often than any history could justify (PutForce's eviction loop
// `for size >= capacity { RemoveFirst … }` never ends once RemoveFirst stops shrinking the
// list). The callbacks run on the caller's goroutine with the queue's lock held; the panic
// unwinds through the library's deferred Unlock, so the lock is released and the caller can
// report a deterministic verdict instead of spinning (and allocating) until the watchdog.
type runawayPanic struct{ calls int }

// isRunaway classifies a recovered value; anything else is re-panicked by the callers.
func isRunaway(e interface{}) bool { _, ok := e.(runawayPanic); return ok }

// cbGuard is the Overflowed callback of the sections that do not evaluate callback arguments:
// it only counts, and aborts a runaway eviction loop after limit calls.
type cbGuard struct {
	calls int64
	limit int64
}

func (g *cbGuard) cb(interface{}) {
	if n := atomic.AddInt64(&g.calls, 1); n > g.limit {
		panic(runawayPanic{int(n)})
	}
}

func installGuard(q qapi, limit int) *cbGuard {
	g := &cbGuard{limit: int64(limit)}
	// Overflowed only: Failed is called at most once per refused put, outside any loop
	q.setCallbacks([2]func(interface{}){nil, nil}, [2]func(interface{}){g.cb, g.cb})
	return g
}

type callOutcome struct {
	Returned bool        // fn came back (normally or by panic)
	Runaway  bool        // fn was aborted by runawayPanic
	Panic    interface{} // any other panic value (with Stack)
	Stack    string
}

// guardCall runs fn on its own goroutine and waits for it for at most d. A call that does
// not come back is abandoned (the goroutine is leaked; it can only touch what fn captured).
func guardCall(d time.Duration, fn func()) callOutcome {
	ch := make(chan callOutcome, 1)
	go func() {
		defer func() {
			o := callOutcome{Returned: true}
			if e := recover(); e != nil {
				if isRunaway(e) {
					o.Runaway = true
				} else {
					o.Panic, o.Stack = e, string(debug.Stack())
				}
			}
			ch <- o
		}()
		fn()
	}()
	t := time.NewTimer(d)
	defer t.Stop()
	select {
	case o := <-ch:
		return o
	case <-t.C:
		return callOutcome{}
	}
}

// rethrow passes a foreign panic on to the caller's goroutine (vlib.Cases reports it).
func (o callOutcome) rethrow() {
	if o.Panic != nil {
		panic(fmt.Sprintf("%v\n%s", o.Panic, o.Stack))
	}
}

// ---- abandoning a section --------------------------------------------------------------

// A section whose structure is stuck (a call that never returns, elements that never come
// out) reports what is conclusive once and gives up its remaining cases: they are counted
// (abandoned_cases*), not evaluated. Only the main goroutine touches this map.
var abandonedSections = map[string]string{}

var procStart = time.Now()

func abandonSection(c *vlib.Ctx, section, reason string) {
	if _, ok := abandonedSections[section]; ok {
		return
	}
	abandonedSections[section] = reason
	c.Note(fmt.Sprintf("section %s abandoned: %s", section, reason))
}

// noteSectionStall: a second stall (or aborted runaway) in the same section abandons it.
var sectionStalls = map[string]int{}

func noteSectionStall(c *vlib.Ctx, section, caseID string) {
	sectionStalls[section]++
	if sectionStalls[section] >= 2 {
		abandonSection(c, section, fmt.Sprintf("second stall in this section (%s)", caseID))
	}
}

// overBudget: last line of defence for the child's own watchdog. It can only become true
// after a stall was seen in this process (a healthy run never consults the clock here) and
// turns the rest of the run into inconclusive cases.
func overBudget(c *vlib.Ctx) bool {
	if atomic.LoadInt32(&stallsSeen) == 0 {
		return false
	}
	limit := 240 * time.Second
	if c.Thorough() {
		limit = 1500 * time.Second
	}
	return time.Since(procStart) > limit
}

// skipAbandoned is called first thing in every case.
func skipAbandoned(c *vlib.Ctx, section string, i int) bool {
	if _, ok := abandonedSections[section]; !ok && overBudget(c) {
		abandonSection(c, section, "time budget exhausted after stalls")
		c.Inconclusive(fmt.Sprintf("%s#%d", section, i), "section abandoned from here on: stalls have used up the time budget of this child")
	}
	if _, ok := abandonedSections[section]; ok {
		c.Count("abandoned_cases", 1)
		c.Count("abandoned_cases_"+section, 1)
		c.Eval(-1) // vlib counts one evaluation per case it hands out; this one was not evaluated
		return true
	}
	return false
}

func fmtID(id uint64) string {
	if id == 0 {
		return "nil"
	}
	return fmt.Sprintf("L%d.p%d.#%d", id>>60, (id>>32)&0xfffffff, id&0xffffffff)
}
