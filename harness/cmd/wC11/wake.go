package main

import (
	"fmt"
	"sync/atomic"
	"time"

	"verif/vlib"
)

// wakeCase — bounded progress of the blocking Get. C consumers are parked in Get() on an empty
// queue BEFORE anything is put (verified in the goroutine dump); then, round after round, a
// burst of elements is put and exactly that many consumer returns must follow. A watchdog
// that fires is conclusive only in the lost-wake-up constellation (see diagnoseStall).
func wakeCase(c *vlib.Ctx, kind int, i int, r *vlib.Rand) {
	section := secName("wake-", kind)
	if skipAbandoned(c, section, i) {
		return
	}
	if tooManyStalls() {
		c.Inconclusive(fmt.Sprintf("%s#%d", section, i), "skipped: blocking-Get case after three stalls in this process")
		return
	}
	C := r.Range(1, 8)
	caps := [2]int{[]int{0, 1, 2, 5, 1000}[r.Intn(5)], []int{0, 1, 2, 5, 1000}[r.Intn(5)]}
	q := newQ(kind, caps)
	T := q.name()
	lanes := q.lanes()
	base := countParked(q.parkFrame())
	installGuard(q, 1024) // at most 24 rounds × 5 puts: more Overflowed calls are a runaway eviction loop
	results := make(chan interface{}, 64)
	quit := make(chan struct{}) // closed when the case ends: consumers must not outlive it spinning or blocked on results
	defer close(quit)
	var delivered int64
	for ci := 0; ci < C; ci++ {
		go func() {
			for {
				v := q.get()
				atomic.AddInt64(&delivered, 1)
				select {
				case results <- v:
				case <-quit:
					return
				}
				if _, ok := v.(pillT); ok || v == nil {
					return // a pill, or a blocking Get that came back empty-handed (reported by the case): never spin on it
				}
				select {
				case <-quit:
					return
				default:
				}
			}
		}()
	}
	parked := waitParked(q.parkFrame(), base, C)
	caseID := fmt.Sprintf("%s#%d", secName("wake-", kind), i)
	var log []string
	params := map[string]interface{}{"type": T, "consumers": C, "capacity": caps[:lanes], "parked_before_first_put": parked}
	stalled := func(phase string) {
		s := diagnoseStall(q, base, func() int64 { return atomic.LoadInt64(&delivered) })
		s.Detail["phase"] = phase
		s.Detail["params"] = params
		s.Detail["ops"] = log
		if s.Conclusive {
			c.Fail(T+".Get:lost-wakeup", "a put returned, a consumer is parked in Get(), Size()>0 holds stably and nobody returns", s.Detail)
		} else {
			c.Inconclusive(caseID, fmt.Sprintf("watchdog %v fired (bare timeout) in %s", watchdog, phase))
		}
		noteSectionStall(c, section, caseID)
	}
	// every library call made by this goroutine is bounded: a put that does not come back (or
	// whose eviction loop had to be aborted) ends the case
	putBounded := func(force bool, lane int, v interface{}) (bool, bool) {
		res := new(bool) // written by the call's goroutine, read only if it came back
		wd := curWatchdog()
		o := guardCall(wd, func() {
			if force {
				*res = q.putForce(lane, v)
			} else {
				*res = q.put(lane, v)
			}
		})
		o.rethrow()
		name := map[bool]string{false: "Put", true: "PutForce"}[force]
		if o.Runaway {
			c.Fail(T+".PutForce:eviction-runaway", "Overflowed was invoked more than 1024 times by one forced put: the eviction loop does not terminate (aborted by the monitor)", map[string]interface{}{"params": params, "ops": log})
			noteSectionStall(c, section, caseID)
			return false, false
		}
		if !o.Returned {
			atomic.AddInt32(&stallsSeen, 1)
			c.Inconclusive(caseID, fmt.Sprintf("%s%d did not return within the watchdog %v; goroutine abandoned", name, lane+1, wd))
			noteSectionStall(c, section, caseID)
			return false, false
		}
		return *res, true
	}
	recv := func() (interface{}, bool) {
		t := time.NewTimer(curWatchdog())
		defer t.Stop()
		select {
		case v := <-results:
			return v, true
		case <-t.C:
			return nil, false
		}
	}
	rounds := r.Range(3, 24)
	seq := 0
	bad := false
	for rd := 0; rd < rounds && !bad; rd++ {
		burst := 1
		if r.Intn(3) == 0 {
			burst = r.Range(2, 5)
		}
		want := map[uint64]bool{}
		var order []uint64
		held := [2]int{}
		for b := 0; b < burst; b++ {
			lane := r.Intn(lanes)
			if caps[lane] > 0 && held[lane] >= caps[lane] {
				continue // keep the burst within the lane capacity: every put below must be accepted
			}
			held[lane]++
			seq++
			id := mkID(lane, 0, seq)
			force := r.Intn(3) == 0
			ok, returned := putBounded(force, lane, id)
			if !returned {
				return
			}
			log = append(log, fmt.Sprintf("%s%d(%s)=%v", map[bool]string{false: "Put", true: "PutForce"}[force], lane+1, fmtID(id), ok))
			if !ok {
				// consumers can only have made room: at most held[lane] <= capacity elements are inside
				bad = true
				c.Fail(T+"."+map[bool]string{false: "Put", true: "PutForce"}[force]+":wrong-return",
					"put on a lane that holds fewer elements than its capacity returned false", map[string]interface{}{"params": params, "ops": log})
			}
			want[id] = true
			order = append(order, id)
		}
		for k := 0; k < len(order) && !bad; k++ {
			v, ok := recv()
			if !ok {
				stalled(fmt.Sprintf("round %d: %d elements put, %d consumer returns seen", rd, len(order), k))
				return
			}
			id, _ := v.(uint64)
			log = append(log, fmt.Sprintf("Get()=%s", fmtID(id)))
			if v == nil {
				bad = true
				c.Fail(T+".Get:empty-return", "blocking Get() returned nil", map[string]interface{}{"params": params, "ops": log})
			} else if !want[id] {
				bad = true
				c.Fail(T+".Get:wrong-element", fmt.Sprintf("Get() returned %v which is not one of the elements just put (or was already delivered)", v), map[string]interface{}{"params": params, "ops": log})
			} else if C == 1 && lanes == 1 && id != order[k] {
				bad = true
				c.Fail(T+":delivery-order", fmt.Sprintf("single consumer received %s, expected %s", fmtID(id), fmtID(order[k])), map[string]interface{}{"params": params, "ops": log})
			}
			delete(want, id)
			c.Count("wake_returns_after_put", 1)
		}
		if r.Bool() && !bad {
			if waitParked(q.parkFrame(), base, C) >= C {
				c.Count("wake_rounds_started_with_all_consumers_parked", 1)
			}
		}
		c.Count("wake_rounds", 1)
	}
	if bad {
		// a violation is reported; the consumers that are still parked get their pills on a
		// best-effort basis (they also end at the closed quit channel), nothing is waited for
		for k := 0; k < C; k++ {
			if _, returned := putBounded(false, lanes-1, pill); !returned {
				break
			}
		}
		return
	}
	// stop the consumers: one pill at a time (works for capacity 1 as well). A consumer whose
	// Get comes back empty-handed has ended as well (see above): alive counts those still there.
	alive := C
	for alive > 0 {
		ok, returned := putBounded(false, lanes-1, pill)
		if !returned {
			return
		}
		if !ok {
			c.Fail(T+".Put:wrong-return", "Put on an empty queue returned false", map[string]interface{}{"params": params, "ops": log})
			return
		}
		for n := 0; alive > 0; n++ {
			v, ok := recv()
			if !ok {
				stalled("pills")
				return
			}
			if _, isPill := v.(pillT); isPill {
				alive--
				break
			}
			if v == nil {
				alive--
			}
			if n > 64 {
				return // already reported; never loop on a consumer that keeps returning something else
			}
			if !bad {
				bad = true
				if v == nil {
					c.Fail(T+".Get:empty-return", "blocking Get() returned nil (only a pill was queued; another consumer took it)", map[string]interface{}{"params": params, "ops": log})
				} else {
					c.Fail(T+".Get:wrong-element", fmt.Sprintf("Get() returned %v, only the pill was queued", v), map[string]interface{}{"params": params, "ops": log})
				}
			}
		}
	}
	if bad {
		return
	}
	c.Count("wake_cases", 1)
	c.Count("wake_consumers_parked_before_first_put", int64(parked))
	c.SetAdd("types_covered", T)
	c.DistinctStr(fmt.Sprint("wake", T, C, caps, log))
	if i%31 == 0 && wantSample(c, "wake") {
		s := log
		if len(s) > 24 {
			s = s[:24]
		}
		c.Sample(map[string]interface{}{"section": "wake", "params": params, "first_ops": s})
	}
}
