package main

import (
	"fmt"
	"math"
	"os"
	"runtime"
	"sort"
	"sync"
	"sync/atomic"
	"time"

	"verif/vlib"
)

const (
	kPut = iota
	kPutForce
	kGet
	kGetNoWait
	kGetTimeout
)

var kindName = []string{"Put", "PutForce", "Get", "GetNoWait", "GetTimeout"}

type pillT struct{}

var pill interface{} = pillT{}

// opRec is one recorded client call: call/return stamps come from one monotonic clock
// (time.Since(start)); they order events, they are never compared with a duration.
type opRec struct {
	Kind uint8
	Lane uint8
	OK   bool
	ID   uint64
	T0   int64
	T1   int64
}

func mkID(lane, producer, seq int) uint64 {
	return uint64(lane)<<60 | uint64(producer+1)<<32 | uint64(seq)
}
func idLane(id uint64) int { return int(id >> 60) }
func idProd(id uint64) int { return int((id>>32)&0xfffffff) - 1 }
func idSeq(id uint64) int  { return int(id & 0xffffffff) }

type concParams struct {
	Type       string `json:"type"`
	P          int    `json:"producers"`
	C          int    `json:"consumers"`
	Cap        [2]int `json:"capacity"`
	PerProd    int    `json:"puts_per_producer"`
	ForcePct   int    `json:"putforce_percent"`
	ConsProf   string `json:"consumer_profile"`
	ConsFirst  bool   `json:"consumers_block_before_first_producer"`
	Clearer    bool   `json:"clearer"`
	Tuner      bool   `json:"size_capacity_reader"`
	CapChanger bool   `json:"capacity_changer"`
	Procs      int    `json:"gomaxprocs"`
	Budget     int    `json:"consumer_delivery_budget"` // >0: a consumer stops after that many deliveries (elements stay queued)
	PillLane   int    `json:"pill_lane"`
}

type concOut struct {
	prod       [][]opRec
	cons       [][]opRec
	failedCB   []uint64 // ids handed to Failed, in call order (appended under the queue's lock)
	evictedCB  []uint64 // ids handed to Overflowed, in call order
	cbForeign  int
	left       []uint64
	sizeAtEnd  int
	pillsLeft  int
	nilGets    int64
	runaway    int32 // a producer's PutForce was aborted by the callbacks' runaway guard
	stopped    bool  // consumers were told to stop because nothing moved any more (pills not delivered)
	clears     int64
	sizeObs    int64
	sizeBad    string
	parkedSeen int
}

var consProfiles = map[string][3]int{ // weights Get, GetNoWait, GetTimeout
	"get":     {1, 0, 0},
	"nowait":  {0, 1, 0},
	"timeout": {0, 0, 1},
	"mixed":   {5, 3, 2},
	"get+nw":  {3, 1, 0},
}
var consProfNames = []string{"get", "nowait", "timeout", "mixed", "get+nw", "get", "mixed"}

func concCase(c *vlib.Ctx, kind int, i int, r *vlib.Rand) {
	section := secName("conc-", kind)
	if skipAbandoned(c, section, i) {
		return
	}
	race := c.Flavour == "race"
	p := concParams{}
	p.P, p.C = r.Range(1, 8), r.Range(1, 8)
	capChoices := []int{0, 1, 2, 5, 1000, 3, 16, 64}
	p.Cap[0] = capChoices[r.Intn(len(capChoices))]
	p.Cap[1] = capChoices[r.Intn(len(capChoices))]
	switch {
	case race:
		p.PerProd = r.Range(30, 250)
	case c.Thorough():
		p.PerProd = r.Range(200, 3000)
	default:
		p.PerProd = r.Range(150, 1500)
	}
	p.ForcePct = []int{0, 0, 20, 50, 100}[r.Intn(5)]
	p.ConsProf = consProfNames[r.Intn(len(consProfNames))]
	p.ConsFirst = r.Intn(3) != 0
	p.Clearer = r.Intn(8) == 0
	p.Tuner = r.Intn(3) != 0
	p.CapChanger = p.Tuner && p.Cap[0] > 0 && p.Cap[1] > 0 && r.Intn(3) == 0
	p.Procs = []int{1, 2, 4, 8, 16, 16}[r.Intn(6)]
	if r.Intn(4) == 0 {
		p.Budget = 1 + r.Intn(1+p.P*p.PerProd/(2*p.C))
	}
	q := newQ(kind, p.Cap)
	p.Type = q.name()
	p.PillLane = q.lanes() - 1 // normally behind everything else
	if q.lanes() == 2 && r.Intn(4) == 0 {
		p.PillLane = 0 // pills overtake lane 2: its content is left at the end
	}

	caseID := fmt.Sprintf("%s#%d", secName("conc-", kind), i)
	if tooManyStalls() && consProfiles[p.ConsProf][0] > 0 {
		c.Inconclusive(caseID, "skipped: blocking-Get case after three stalls in this process")
		return
	}
	old := runtime.GOMAXPROCS(p.Procs)
	defer runtime.GOMAXPROCS(old)
	tc := time.Now()
	out, st := runConc(q, &p, r)
	if os.Getenv("C11_DEBUG") != "" {
		fmt.Fprintf(os.Stderr, "DBG %v %+v\n", time.Since(tc), p)
	}
	if st != nil {
		if st.Conclusive {
			c.Fail(p.Type+".Get:lost-wakeup", "watchdog: consumers stay parked in Get() while Size()>0 holds stably and nothing is delivered", map[string]interface{}{"params": p, "observation": st.Detail})
		} else {
			c.Inconclusive(caseID, fmt.Sprintf("watchdog %v fired (bare timeout) %v", watchdog, st.Detail))
		}
		// goroutines of this history are leaked (parked or spinning); the structure does not
		// recover by itself, so the rest of the section would only repeat the same stall
		abandonSection(c, section, fmt.Sprintf("%s: stall in phase %v (conclusive=%v)", caseID, st.Detail["phase"], st.Conclusive))
		return
	}
	if checkConc(c, q, &p, out) > 0 && (out.stopped || out.runaway != 0) {
		abandonSection(c, section, fmt.Sprintf("%s: the queue stopped delivering (consumers stopped by the monitor=%v, eviction loop aborted=%v); findings reported", caseID, out.stopped, out.runaway != 0))
	}
	if out.stopped {
		c.Count("conc_histories_consumers_stopped_by_monitor", 1)
	}
	c.Count("conc_histories", 1)
	c.SetAdd("conc_PxC", fmt.Sprintf("%dx%d", p.P, p.C))
	c.SetAdd("conc_capacities", fmt.Sprint(p.Cap[0]))
	c.SetAdd("conc_consumer_profiles", p.ConsProf)
	c.SetAdd("types_covered", p.Type)
	c.DistinctStr(fmt.Sprintf("%+v", p))
}

// runConc executes one P×C history. It returns a non-nil stall when the watchdog fired; in
// that case goroutines may be leaked and no buffer is read.
func runConc(q qapi, p *concParams, r *vlib.Rand) (*concOut, *stall) {
	out := &concOut{prod: make([][]opRec, p.P), cons: make([][]opRec, p.C)}
	lanes := q.lanes()
	// callbacks run with the queue's lock held: plain appends, no extra synchronisation.
	// No history can evict more than was ever offered: beyond that the eviction loop of a
	// forced put is running away and is aborted (see runawayPanic). Failed is called at most
	// once per refused put, outside any loop.
	maxCB := p.P*p.PerProd + p.C + 64
	fcb := func(v interface{}) {
		switch x := v.(type) {
		case uint64:
			out.failedCB = append(out.failedCB, x)
		case pillT:
		default:
			out.cbForeign++
		}
	}
	ocb := func(v interface{}) {
		switch x := v.(type) {
		case uint64:
			out.evictedCB = append(out.evictedCB, x)
		default:
			out.cbForeign++
		}
		if len(out.evictedCB)+out.cbForeign > maxCB {
			panic(runawayPanic{len(out.evictedCB) + out.cbForeign})
		}
	}
	q.setCallbacks([2]func(interface{}){fcb, fcb}, [2]func(interface{}){ocb, ocb})

	start := time.Now()
	now := func() int64 { return int64(time.Since(start)) }
	var delivered, nilGets, consExited int64
	var stopCons int32
	base := countParked(q.parkFrame())

	// ---- consumers
	var cwg sync.WaitGroup
	consStart := make(chan struct{})
	prof := consProfiles[p.ConsProf]
	for ci := 0; ci < p.C; ci++ {
		rr := r.Fork(fmt.Sprintf("cons%d", ci))
		cwg.Add(1)
		go func(ci int, rr *vlib.Rand) {
			defer cwg.Done()
			defer atomic.AddInt64(&consExited, 1)
			buf := make([]opRec, 0, 256)
			defer func() { out.cons[ci] = buf }()
			<-consStart
			first := true
			emptyGets := 0
			for got := 0; (p.Budget == 0 || got < p.Budget) && got <= maxCB && atomic.LoadInt32(&stopCons) == 0; {
				k := kGet + pickW(rr, prof[:])
				if first && p.ConsFirst && prof[0] > 0 {
					k = kGet // park before the first producer exists
				}
				first = false
				var v interface{}
				t0 := now()
				switch k {
				case kGet:
					v = q.get()
				case kGetNoWait:
					v = q.getNoWait()
				default:
					v = q.getTimeout(rr.Intn(3))
				}
				t1 := now()
				if v == nil {
					atomic.AddInt64(&nilGets, 1)
					if k == kGet {
						// a blocking get never comes back empty-handed: recorded (checkConc reports
						// Get:empty-return) and, after the third, this consumer gives up instead of
						// spinning on a Get that no longer blocks
						buf = append(buf, opRec{Kind: kGet, ID: 0, T0: t0, T1: t1})
						if emptyGets++; emptyGets >= 3 {
							break
						}
					}
					runtime.Gosched()
					continue
				}
				if _, ok := v.(pillT); ok {
					break
				}
				id, _ := v.(uint64)
				buf = append(buf, opRec{Kind: uint8(k), Lane: uint8(idLane(id)), OK: true, ID: id, T0: t0, T1: t1})
				atomic.AddInt64(&delivered, 1)
				got++
				if rr.Intn(64) == 0 {
					runtime.Gosched()
				}
			}
		}(ci, rr)
	}
	if p.ConsFirst {
		close(consStart)
		if prof[0] > 0 {
			out.parkedSeen = waitParked(q.parkFrame(), base, p.C)
		} else {
			for k := 0; k < 20; k++ {
				runtime.Gosched()
			}
		}
	}

	// ---- side goroutines: Size/GetCapacity reader (+ capacity changer), clearer
	var stop int32
	var swg sync.WaitGroup
	var sizeBad atomic.Value
	var sizeObs, clears int64
	if p.Tuner {
		rr := r.Fork("tuner")
		swg.Add(1)
		go func() {
			defer swg.Done()
			for n := 0; atomic.LoadInt32(&stop) == 0; n++ {
				for l := 0; l < lanes; l++ {
					s := q.sizeLane(l)
					_ = q.getCap(l)
					if !p.CapChanger && p.Cap[l] > 0 && (s < 0 || s > p.Cap[l]) {
						sizeBad.Store(fmt.Sprintf("lane %d Size()=%d with fixed capacity %d", l+1, s, p.Cap[l]))
					}
					if s < 0 {
						sizeBad.Store(fmt.Sprintf("lane %d Size()=%d", l+1, s))
					}
				}
				_ = q.size()
				atomic.AddInt64(&sizeObs, 1)
				if p.CapChanger && n%8 == 0 {
					// positive capacities only: SetCapacity is unlocked, and a change to
					// "unbounded" inside PutForce's eviction loop would never terminate
					q.setCap([2]int{1 + rr.Intn(8), 1 + rr.Intn(8)})
				}
				runtime.Gosched()
			}
		}()
	}
	if p.Clearer {
		rr := r.Fork("clearer")
		swg.Add(1)
		go func() {
			defer swg.Done()
			for atomic.LoadInt32(&stop) == 0 {
				for k := 200 + rr.Intn(3000); k > 0 && atomic.LoadInt32(&stop) == 0; k-- {
					runtime.Gosched() // pacing by yields: short sleeps cost milliseconds on a loaded machine
				}
				q.clear()
				atomic.AddInt64(&clears, 1)
			}
		}()
	}

	// ---- producers
	var pwg sync.WaitGroup
	prodStart := make(chan struct{})
	for pi := 0; pi < p.P; pi++ {
		rr := r.Fork(fmt.Sprintf("prod%d", pi))
		pwg.Add(1)
		go func(pi int, rr *vlib.Rand) {
			defer pwg.Done()
			buf := make([]opRec, 0, p.PerProd)
			defer func() {
				out.prod[pi] = buf
				if e := recover(); e != nil {
					if !isRunaway(e) {
						panic(e)
					}
					atomic.StoreInt32(&out.runaway, 1) // the aborted PutForce is not recorded: it never returned
				}
			}()
			<-prodStart
			for s := 1; s <= p.PerProd; s++ {
				lane := 0
				if lanes == 2 {
					lane = rr.Intn(2)
				}
				id := mkID(lane, pi, s)
				var v interface{} = id
				k := kPut
				if rr.Intn(100) < p.ForcePct {
					k = kPutForce
				}
				var ok bool
				t0 := now()
				if k == kPut {
					ok = q.put(lane, v)
				} else {
					ok = q.putForce(lane, v)
				}
				t1 := now()
				buf = append(buf, opRec{Kind: uint8(k), Lane: uint8(lane), OK: ok, ID: id, T0: t0, T1: t1})
				switch x := rr.Intn(256); {
				case x < 8:
					runtime.Gosched()
				case x < 12:
					_ = q.getCap(lane) // a second reader of the capacity besides the puts themselves
					_ = q.sizeLane(lane)
				case x == 8:
					for k := 0; k < 40; k++ { // lets the queue run empty so that consumers park again
						runtime.Gosched()
					}
				}
			}
		}(pi, rr)
	}
	if !p.ConsFirst {
		close(consStart)
	}
	close(prodStart)

	done := func(wg *sync.WaitGroup) <-chan struct{} {
		ch := make(chan struct{})
		go func() { wg.Wait(); close(ch) }()
		return ch
	}
	progress := func() int64 { return atomic.LoadInt64(&delivered) + atomic.LoadInt64(&consExited) }
	if !waitDone(done(&pwg)) {
		s := diagnoseStall(q, base, progress)
		s.Conclusive = false // producers never wait for consumers: a stuck producer is not a lost wake-up
		s.Detail["phase"] = "producers"
		atomic.StoreInt32(&stop, 1)
		atomic.StoreInt32(&stopCons, 1)
		return nil, &s
	}
	atomic.StoreInt32(&stop, 1)
	if !waitDone(done(&swg)) {
		atomic.AddInt32(&stallsSeen, 1)
		atomic.StoreInt32(&stopCons, 1)
		s := stall{Detail: map[string]interface{}{"phase": "side goroutines"}}
		return nil, &s
	}
	// ---- poison pills: one per consumer, into the low-priority lane, plain Put retried while
	// refused. They are the normal way to end the consumers, but the shutdown does not rely on
	// the queue delivering them: when neither a delivery nor a consumer exit has been seen for
	// a whole watchdog the consumers are told to stop (those in a non-blocking get notice at
	// once; one parked in the blocking Get cannot, which is then the stall to diagnose).
	cdone := done(&cwg)
	var stopPills int32
	pillDone := make(chan struct{})
	go func() {
		defer close(pillDone)
		for n := 0; n < p.C && atomic.LoadInt32(&stopPills) == 0; {
			if q.put(p.PillLane, pill) {
				n++
				continue
			}
			runtime.Gosched()
		}
	}()
	ok := waitProgress(cdone, progress)
	if !ok {
		out.stopped = true
		atomic.StoreInt32(&stopCons, 1)
		ok = waitFor(cdone, 2*time.Second)
	}
	atomic.StoreInt32(&stopPills, 1)
	if !ok {
		s := diagnoseStall(q, base, progress)
		s.Detail["phase"] = "consumers"
		return nil, &s
	}
	if !waitFor(pillDone, curWatchdog()) {
		atomic.AddInt32(&stallsSeen, 1)
		s := stall{Detail: map[string]interface{}{"phase": "pill put does not return"}}
		return nil, &s
	}
	// ---- quiescent: everything below is single-threaded
	drained := guardCall(curWatchdog(), func() {
		out.sizeAtEnd = q.size()
		for {
			v := q.getNoWait()
			if v == nil {
				break
			}
			if id, ok := v.(uint64); ok {
				out.left = append(out.left, id)
			} else {
				out.pillsLeft++
			}
			if len(out.left)+out.pillsLeft > p.P*p.PerProd+p.C+16 {
				break
			}
		}
	})
	drained.rethrow()
	if !drained.Returned {
		atomic.AddInt32(&stallsSeen, 1)
		s := stall{Detail: map[string]interface{}{"phase": "quiescent Size()/GetNoWait() does not return"}}
		return nil, &s
	}
	out.nilGets = atomic.LoadInt64(&nilGets)
	out.clears = atomic.LoadInt64(&clears)
	out.sizeObs = atomic.LoadInt64(&sizeObs)
	if s, ok := sizeBad.Load().(string); ok {
		out.sizeBad = s
	}
	return out, nil
}

// ---- checkers ---------------------------------------------------------------------------

type elemInfo struct {
	put       opRec
	accepted  bool
	delivered int
	evicted   int
	left      int
	failedCB  int
	get       opRec
}

type pt struct {
	a, b int64
	id   uint64
}

// dom answers "is there a point with a < qa and b > qb" after sorting by a (prefix maximum of b).
type dom struct {
	pts  []pt
	best []int // index of the max-b point among pts[:i+1]
}

func newDom(pts []pt) *dom {
	sort.Slice(pts, func(i, j int) bool { return pts[i].a < pts[j].a })
	d := &dom{pts: pts, best: make([]int, len(pts))}
	for i := range pts {
		d.best[i] = i
		if i > 0 && pts[d.best[i-1]].b >= pts[i].b {
			d.best[i] = d.best[i-1]
		}
	}
	return d
}

func (d *dom) find(qa, qb int64) (pt, bool) {
	n := sort.Search(len(d.pts), func(i int) bool { return d.pts[i].a >= qa })
	if n == 0 {
		return pt{}, false
	}
	x := d.pts[d.best[n-1]]
	return x, x.b > qb
}

func checkConc(c *vlib.Ctx, q qapi, p *concParams, o *concOut) int {
	T := p.Type
	fails := 0
	fail := func(key, what string, extra map[string]interface{}) {
		fails++
		if extra == nil {
			extra = map[string]interface{}{}
		}
		extra["params"] = p
		c.Fail(key, what, extra)
	}
	if o.runaway != 0 {
		fail(T+".PutForce:eviction-runaway", fmt.Sprintf("Overflowed/Failed were invoked %d times although only %d elements were ever offered: the eviction loop of a forced put does not terminate (aborted by the monitor)",
			len(o.evictedCB)+o.cbForeign, p.P*p.PerProd), nil)
	}
	info := make(map[uint64]*elemInfo, p.P*p.PerProd)
	var nAcc, nRef, nForceFalse, nForce int
	for _, buf := range o.prod {
		for _, rec := range buf {
			e := &elemInfo{put: rec}
			e.accepted = rec.Kind == kPutForce || rec.OK
			if e.accepted {
				nAcc++
			} else {
				nRef++
			}
			if rec.Kind == kPutForce {
				nForce++
				if !rec.OK {
					nForceFalse++
				}
			}
			info[rec.ID] = e
		}
	}
	// --- Failed callback: exactly the refused elements, once each
	for _, id := range o.failedCB {
		e := info[id]
		if e == nil || e.accepted {
			fail(T+":callback-args", fmt.Sprintf("Failed callback received %s which was not a refused Put", fmtID(id)), nil)
			continue
		}
		e.failedCB++
	}
	if o.cbForeign > 0 {
		fail(T+":callback-args", fmt.Sprintf("%d callback invocations carried a value that was never put (nil or foreign)", o.cbForeign), nil)
	}
	for id, e := range info {
		if !e.accepted && e.failedCB != 1 {
			fail(T+":callback-args", fmt.Sprintf("refused Put(%s) was handed to Failed %d times", fmtID(id), e.failedCB), nil)
			break
		}
	}
	// --- deliveries
	nDel := 0
	for ci, buf := range o.cons {
		lastSeq := map[uint64]int{}
		for _, rec := range buf {
			if rec.ID == 0 {
				fail(T+".Get:empty-return", fmt.Sprintf("blocking Get() of consumer %d returned nil", ci), nil)
				continue
			}
			nDel++
			e := info[rec.ID]
			if e == nil || !e.accepted {
				fail(T+":conservation", fmt.Sprintf("consumer %d received %s which was never accepted (refused or never put)", ci, fmtID(rec.ID)), nil)
				continue
			}
			e.delivered++
			e.get = rec
			if e.delivered > 1 {
				fail(T+":duplicate-delivery", fmt.Sprintf("%s was delivered %d times", fmtID(rec.ID), e.delivered), nil)
			}
			pk := rec.ID >> 32
			if s := idSeq(rec.ID); s <= lastSeq[pk] {
				fail(T+":per-producer-order", fmt.Sprintf("consumer %d received %s after #%d of the same producer and lane", ci, fmtID(rec.ID), lastSeq[pk]),
					map[string]interface{}{"consumer": ci})
			} else {
				lastSeq[pk] = s
			}
		}
	}
	// --- evictions: oldest first per producer, never something delivered
	lastEv := map[uint64]int{}
	for _, id := range o.evictedCB {
		e := info[id]
		if e == nil || !e.accepted {
			fail(T+":callback-args", fmt.Sprintf("Overflowed callback received %s which was never accepted", fmtID(id)), nil)
			continue
		}
		e.evicted++
		if e.evicted+e.delivered > 1 {
			fail(T+":duplicate-delivery", fmt.Sprintf("%s was evicted %d× and delivered %d×", fmtID(id), e.evicted, e.delivered), nil)
		}
		pk := id >> 32
		if s := idSeq(id); s <= lastEv[pk] {
			fail(T+".PutForce:eviction-order", fmt.Sprintf("%s evicted after #%d of the same producer and lane: not oldest-first", fmtID(id), lastEv[pk]), nil)
		} else {
			lastEv[pk] = s
		}
	}
	// --- left at the end
	if o.sizeAtEnd != len(o.left)+o.pillsLeft {
		fail(T+".Size:wrong-value", fmt.Sprintf("quiescent Size()=%d but %d elements could be drained", o.sizeAtEnd, len(o.left)+o.pillsLeft), nil)
	}
	lastLeft := map[uint64]int{}
	for _, id := range o.left {
		e := info[id]
		if e == nil || !e.accepted {
			fail(T+":conservation", fmt.Sprintf("%s found in the queue at the end was never accepted", fmtID(id)), nil)
			continue
		}
		e.left++
		if e.left+e.evicted+e.delivered > 1 {
			fail(T+":duplicate-delivery", fmt.Sprintf("%s: delivered %d×, evicted %d×, still queued %d×", fmtID(id), e.delivered, e.evicted, e.left), nil)
		}
		pk := id >> 32
		if s := idSeq(id); s <= lastLeft[pk] {
			fail(T+":per-producer-order", fmt.Sprintf("remaining content holds %s after #%d of the same producer and lane", fmtID(id), lastLeft[pk]), nil)
		} else {
			lastLeft[pk] = s
		}
	}
	// --- conservation
	lost := 0
	var lostEx []string
	for id, e := range info {
		if e.accepted && e.delivered+e.evicted+e.left == 0 {
			lost++
			if len(lostEx) < 5 {
				lostEx = append(lostEx, fmtID(id))
			}
		}
	}
	if lost > 0 && o.clears == 0 {
		fail(T+":conservation", fmt.Sprintf("%d accepted elements were neither delivered, evicted nor left (accepted=%d delivered=%d evicted=%d left=%d, no Clear)", lost, nAcc, nDel, len(o.evictedCB), len(o.left)),
			map[string]interface{}{"examples": lostEx})
	}
	if !p.CapChanger && nForceFalse != len(o.evictedCB) {
		// with a fixed capacity every forced put that reports "had to evict" evicts exactly one
		fail(T+":callback-args", fmt.Sprintf("%d PutForce calls returned false but Overflowed was called %d times (fixed capacity)", nForceFalse, len(o.evictedCB)), nil)
	}
	if o.sizeBad != "" {
		fail(T+":capacity-exceeded", "concurrent observer: "+o.sizeBad, nil)
	}
	// --- real-time FIFO per lane: x accepted strictly before y was offered, yet y was taken
	//     strictly before the get that took x was even called (or x is still queued)
	for l := 0; l < q.lanes(); l++ {
		var xs []pt
		for id, e := range info {
			if idLane(id) != l || !e.accepted || e.evicted > 0 {
				continue
			}
			if e.delivered == 1 {
				xs = append(xs, pt{e.put.T1, e.get.T0, id})
			} else if e.left == 1 {
				xs = append(xs, pt{e.put.T1, math.MaxInt64, id})
			}
		}
		d := newDom(xs)
		for id, e := range info {
			if idLane(id) != l || e.delivered != 1 {
				continue
			}
			if x, bad := d.find(e.put.T0, e.get.T1); bad {
				fail(T+":delivery-order", fmt.Sprintf("%s was accepted before %s was offered, but %s was delivered first", fmtID(x.id), fmtID(id), fmtID(id)),
					map[string]interface{}{"earlier_put_return_ns": x.a, "earlier_get_call_ns": x.b, "later_put_call_ns": e.put.T0, "later_get_return_ns": e.get.T1})
				break
			}
		}
	}
	// --- double queue priority: a lane-2 element was delivered by a get during whose whole
	//     interval some lane-1 element was sitting in the queue
	if q.lanes() == 2 {
		var xs []pt
		for id, e := range info {
			if idLane(id) != 0 || !e.accepted || e.evicted > 0 {
				continue
			}
			if e.delivered == 1 {
				xs = append(xs, pt{e.put.T1, e.get.T0, id})
			} else if e.left == 1 {
				xs = append(xs, pt{e.put.T1, math.MaxInt64, id})
			}
		}
		d := newDom(xs)
		n2 := 0
		for id, e := range info {
			if idLane(id) != 1 || e.delivered != 1 {
				continue
			}
			n2++
			if x, bad := d.find(e.get.T0, e.get.T1); bad {
				fail("RequestDoubleQueue:priority", fmt.Sprintf("%s delivered lane-2 element %s although lane-1 element %s was queued during the whole call", kindName[e.get.Kind], fmtID(id), fmtID(x.id)),
					map[string]interface{}{"lane1_put_return_ns": x.a, "lane1_removed_call_ns": x.b, "get_call_ns": e.get.T0, "get_return_ns": e.get.T1})
				break
			}
		}
		c.Count("conc_lane2_deliveries_checked_for_priority", int64(n2))
	}

	// --- evidence
	c.Count("conc_ops", int64(nAcc+nRef+nDel)+o.nilGets)
	c.Count("conc_accepted", int64(nAcc))
	c.Count("conc_refused", int64(nRef))
	c.Count("conc_delivered", int64(nDel))
	c.Count("conc_evicted", int64(len(o.evictedCB)))
	c.Count("conc_left_at_end", int64(len(o.left)))
	c.Count("conc_putforce", int64(nForce))
	c.Count("conc_empty_returns", o.nilGets)
	c.Count("conc_size_observations", o.sizeObs)
	c.Count("conc_clears", o.clears)
	if o.clears > 0 {
		c.Count("conc_histories_with_clear", 1)
		c.Count("conc_cleared_elements", int64(lost))
	}
	if o.parkedSeen > 0 {
		c.Count("conc_consumers_parked_before_first_put", int64(o.parkedSeen))
		c.Count("conc_histories_consumers_parked_first", 1)
	}
	byKind := [5]int64{}
	for _, buf := range o.cons {
		for _, rec := range buf {
			byKind[rec.Kind]++
		}
	}
	c.Count("conc_delivered_by_Get", byKind[kGet])
	c.Count("conc_delivered_by_GetNoWait", byKind[kGetNoWait])
	c.Count("conc_delivered_by_GetTimeout", byKind[kGetTimeout])
	if len(o.left) > 0 {
		c.Count("conc_histories_with_elements_left", 1)
	}
	if fails == 0 && p.P >= 2 && p.C >= 2 && wantSample(c, "conc") {
		c.Sample(map[string]interface{}{"section": "conc", "params": p, "accepted": nAcc, "refused": nRef, "delivered": nDel,
			"evicted": len(o.evictedCB), "left": len(o.left), "clears": o.clears, "consumers_parked_before_first_put": o.parkedSeen})
	}
	return fails
}
