// wC11 — request queues are bounded FIFOs that lose, duplicate or strand nothing.
//
// Monitors (DESIGN §4 C11):
//
//	seq-*   sequential model check of RequestQueue / RequestDoubleQueue against an independent
//	        FIFO model that predicts results, callback arguments and Size() after every step;
//	conc-*  P×C concurrent histories with conservation / exactly-once / per-producer-order /
//	        real-time delivery-order / double-queue-priority checkers (O(n log n));
//	lin-*   small histories checked with porcupine (bounded FIFO; two-FIFO priority model);
//	wake-*  bounded progress of the blocking Get with consumers parked before the first put;
//	timed-* GetTimeout returns empty-handed only after its timeout (− 1 ms clock truncation);
//	tdelta-* the same under process-wide clock corrections (dateutil.SetDelta: 0, −1 ms … −1 day,
//	        +1 ms … +1 h), plus: the get returns at all (judged against the delta-0 control);
//	*-cd    a slice of seq/lin/conc/wake re-run under a non-zero clock correction.
//
// Nothing in here waits without a bound (adapter.go: guardCall, waitProgress, runawayPanic):
// a library call that does not return costs one case (conclusive where the stuck state is
// unambiguous without a clock, inconclusive otherwise), its goroutine is abandoned, and the
// section that hit it gives up its remaining cases (counted as abandoned_cases*), so that the
// child always ends well inside the driver's watchdog. The sequential sections run first.
//
// The race flavour runs the same concurrent workloads (smaller) under the race detector; the
// driver turns its reports into race:<frame>|<frame> keys.
package main

import (
	"fmt"
	"time"

	"verif/vlib"
)

// wantSample keeps the evidence samples mixed: at most one per section and shard.
var sampled = map[string]bool{}

func wantSample(c *vlib.Ctx, section string) bool {
	if sampled[section] || !c.WantSample() {
		return false
	}
	sampled[section] = true
	return true
}

func main() {
	c := vlib.Start("C11")
	race := c.Flavour == "race"
	n := func(q, t, rq, rt int) int {
		if race {
			return c.N(rq, rt)
		}
		return c.N(q, t)
	}
	timed := func(section string, fn func()) {
		t0 := time.Now()
		fn()
		c.Count("section_ms_"+section, time.Since(t0).Milliseconds())
	}
	// The sequential model sections of BOTH queue types run first: whatever is observable
	// without concurrency (wrong element, wrong size, stranded elements after a Clear, an
	// eviction loop that does not end) is reported within seconds, before any section that
	// has to wait for other goroutines.
	for kind, tag := range []string{"rq", "dq"} {
		kind := kind
		timed("seq", func() {
			c.Cases("seq-"+tag, n(6000, 300000, 800, 20000), func(i int, r *vlib.Rand) { seqCase(c, kind, i, r) })
		})
	}
	for kind, tag := range []string{"rq", "dq"} {
		kind := kind
		timed("conc", func() {
			c.Cases("conc-"+tag, n(240, 6000, 96, 2000), func(i int, r *vlib.Rand) { concCase(c, kind, i, r) })
		})
		timed("lin", func() {
			c.Cases("lin-"+tag, n(3000, 120000, 800, 20000), func(i int, r *vlib.Rand) { linCase(c, kind, i, r) })
		})
		timed("wake", func() {
			c.Cases("wake-"+tag, n(160, 6000, 64, 2000), func(i int, r *vlib.Rand) { wakeCase(c, kind, i, r) })
		})
		timed("timed", func() {
			c.Cases("timed-"+tag, n(32, 1200, 8, 200), func(i int, r *vlib.Rand) { timedCase(c, kind, i, r) })
		})
		timed("timed-multi", func() {
			c.Cases("timed-multi-"+tag, n(96, 2400, 24, 400), func(i int, r *vlib.Rand) { timedMultiCase(c, kind, i, r) })
		})
		timed("volume", func() {
			c.Cases("volume-"+tag, n(16, 160, 4, 24), func(i int, r *vlib.Rand) { volumeCase(c, kind, i, r) })
		})
	}
	// Clock-correction phase (tdelta.go). dateutil.SetDelta is process-global, so this is a
	// sequential phase of its own, after everything else; every case restores delta 0.
	// First the timed get under every correction of clockDeltas, then a slice of the sections
	// above re-run under a correction (they must be unaffected).
	for kind, tag := range []string{"rq", "dq"} {
		kind := kind
		timed("tdelta", func() {
			c.Cases("tdelta-"+tag, n(16, 240, 4, 48), func(i int, r *vlib.Rand) { tdeltaCase(c, kind, i, r) })
		})
	}
	secSuffix = "-cd"
	for kind, tag := range []string{"rq", "dq"} {
		kind := kind
		under := func(section string, fn func(i int, r *vlib.Rand)) func(i int, r *vlib.Rand) {
			return func(i int, r *vlib.Rand) { withSideDelta(c, section, i, func() { fn(i, r) }) }
		}
		timed("cd", func() {
			c.Cases("seq-"+tag+"-cd", n(640, 30000, 160, 4000), under("seq-"+tag+"-cd", func(i int, r *vlib.Rand) { seqCase(c, kind, i, r) }))
			c.Cases("lin-"+tag+"-cd", n(320, 12000, 96, 2000), under("lin-"+tag+"-cd", func(i int, r *vlib.Rand) { linCase(c, kind, i, r) }))
			c.Cases("conc-"+tag+"-cd", n(24, 600, 12, 200), under("conc-"+tag+"-cd", func(i int, r *vlib.Rand) { concCase(c, kind, i, r) }))
			c.Cases("wake-"+tag+"-cd", n(16, 600, 8, 200), under("wake-"+tag+"-cd", func(i int, r *vlib.Rand) { wakeCase(c, kind, i, r) }))
		})
	}
	secSuffix = ""
	if len(abandonedSections) > 0 {
		c.Count("abandoned_sections", int64(len(abandonedSections)))
	}
	// observation floors (per shard; ≤ 10 % of what a healthy quick run reaches)
	if race {
		c.Floor("conc_histories", 4, c.Counter("conc_histories"))
		c.Floor("conc_delivered", 2000, c.Counter("conc_delivered"))
		c.Floor("lin_histories_with_overlap", 10, c.Counter("lin_histories_with_overlap"))
	} else {
		c.Floor("seq_ops", 20000, c.Counter("seq_ops"))
		c.Floor("seq_refused_puts", 500, c.Counter("seq_refused_puts"))
		c.Floor("seq_evictions", 500, c.Counter("seq_evictions"))
		c.Floor("seq_clear_nonempty", 300, c.Counter("seq_clear_nonempty"))
		c.Floor("seq_deliveries_after_nonempty_clear", 3000, c.Counter("seq_deliveries_after_nonempty_clear"))
		c.Floor("conc_histories", 5, c.Counter("conc_histories"))
		c.Floor("conc_delivered", 10000, c.Counter("conc_delivered"))
		c.Floor("conc_consumers_parked_before_first_put", 10, c.Counter("conc_consumers_parked_before_first_put"))
		c.Floor("lin_histories_with_overlap", 20, c.Counter("lin_histories_with_overlap"))
		c.Floor("wake_returns_after_put", 30, c.Counter("wake_returns_after_put"))
		c.Floor("timed_gets", 4, c.Counter("timed_gets"))
		c.Floor("timedmulti_cases", 3, c.Counter("timedmulti_cases"))
		c.Floor("timedmulti_empty_returns", 3, c.Counter("timedmulti_empty_returns"))
		c.Floor("volume_cases", 1, c.Counter("volume_cases"))
		c.Floor("cd_cases", 10, c.Counter("cd_cases"))
		c.Floor("tdelta_gets", 30, c.Counter("tdelta_gets"))
	}
	// every clock correction was really exercised by empty timed gets that returned
	for _, d := range clockDeltas {
		k := fmt.Sprintf("tdelta_empty_gets_delta_%dms", d)
		c.Floor(k, 1, c.Counter(k))
	}
	c.Finish()
}
