package main

import (
	"fmt"
	"sort"
	"sync"
	"sync/atomic"
	"time"

	"verif/vlib"
)

// timedMultiCase — SEVERAL consumers wait on one empty queue at the same time, each in a timed
// get with its own timeout (some in the blocking Get), while zero or a few elements are put at
// drawn moments. Verdicts:
//   - a timed get that comes back empty-handed has waited elapsed >= t - 1 ms (load can only
//     lengthen the wait), whatever made it wake up: another consumer's deadline, a put that
//     another consumer won, a Clear;
//   - no element is delivered twice, every delivered element was put;
//   - after every timed get has returned (the blocking consumers are released with pills), a
//     second batch is put with NO consumer left: Size() must equal the batch and draining with
//     GetNoWait must return exactly the not-yet-delivered elements in the order accepted (a
//     helper a timed get left behind would swallow them).
func timedMultiCase(c *vlib.Ctx, kind int, i int, r *vlib.Rand) {
	section := secName("timed-multi-", kind)
	if skipAbandoned(c, section, i) {
		return
	}
	if tooManyStalls() {
		c.Inconclusive(fmt.Sprintf("%s#%d", section, i), "skipped after three stalls in this process")
		return
	}
	caseID := fmt.Sprintf("%s#%d", section, i)
	q := newQ(kind, [2]int{[]int{0, 64, 1000}[r.Intn(3)], []int{0, 64, 1000}[r.Intn(3)]})
	T := q.name()
	installGuard(q, 4096)
	K := r.Range(2, 6)
	nBlocking := 0
	if r.Intn(3) == 0 {
		nBlocking = r.Range(1, 2)
	}
	touts := make([]int, K)
	pool := []int{0, 1, 5, 20, 40, 60, 90, 150, 300, 600}
	for k := range touts {
		touts[k] = pool[r.Intn(len(pool))]
	}
	if r.Intn(2) == 0 { // one long and one short waiter together
		touts[0], touts[1] = []int{300, 600}[r.Intn(2)], []int{5, 20, 40}[r.Intn(3)]
	}
	nPut := []int{0, 0, 1, 1, 2, K - 1, K + 2}[r.Intn(7)]
	type putPlan struct {
		delay time.Duration
		lane  int
		id    uint64
	}
	maxT := 0
	for _, t := range touts {
		if t > maxT {
			maxT = t
		}
	}
	plans := make([]putPlan, nPut)
	for p := range plans {
		plans[p] = putPlan{time.Duration(r.Intn(maxT*1000+2000)) * time.Microsecond, r.Intn(q.lanes()), mkID(0, 1, p+1)}
		plans[p].id = mkID(plans[p].lane, 1, p+1)
	}
	sort.Slice(plans, func(a, b int) bool { return plans[a].delay < plans[b].delay })
	type res struct {
		t    int
		el   time.Duration
		v    interface{}
		kind string
	}
	out := make([]res, K+nBlocking)
	var wg sync.WaitGroup
	start := make(chan struct{})
	var timedLeft int32 = int32(K)
	for k := 0; k < K+nBlocking; k++ {
		k := k
		wg.Add(1)
		go func() {
			defer wg.Done()
			<-start
			if k >= K {
				v := q.get()
				out[k] = res{-1, 0, v, "Get"}
				return
			}
			t0 := time.Now()
			v := q.getTimeout(touts[k])
			out[k] = res{touts[k], time.Since(t0), v, "GetTimeout"}
			atomic.AddInt32(&timedLeft, -1)
		}()
	}
	var pwg sync.WaitGroup
	pwg.Add(1)
	go func() {
		defer pwg.Done()
		<-start
		t0 := time.Now()
		for _, p := range plans {
			if d := p.delay - time.Since(t0); d > 0 {
				time.Sleep(d)
			}
			q.put(p.lane, p.id)
		}
	}()
	close(start)
	done := make(chan struct{})
	go func() {
		pwg.Wait()
		// release the blocking consumers once every timed get is back
		for atomic.LoadInt32(&timedLeft) > 0 {
			time.Sleep(time.Millisecond)
		}
		for b := 0; b < nBlocking; b++ {
			q.put(0, pillT{})
		}
		wg.Wait()
		close(done)
	}()
	params := map[string]interface{}{"type": T, "timeouts_ms": touts, "blocking_consumers": nBlocking, "puts": nPut}
	if !waitFor(done, curWatchdog()+2*time.Second) {
		atomic.AddInt32(&stallsSeen, 1)
		c.Inconclusive(caseID, "consumers did not all return within the watchdog; goroutines abandoned")
		noteSectionStall(c, section, caseID)
		return
	}
	c.Count("timedmulti_cases", 1)
	put := map[uint64]bool{}
	for _, p := range plans {
		put[p.id] = true
	}
	delivered := map[uint64]bool{}
	pills := 0
	var obs []string
	for k, o := range out {
		obs = append(obs, fmt.Sprintf("%s(%d)=%v after %v", o.kind, o.t, o.v, o.el))
		detail := map[string]interface{}{"params": params, "consumer": k, "observed": obs}
		switch v := o.v.(type) {
		case nil:
			if o.kind == "Get" {
				c.Fail(T+".Get:empty-return", "the blocking Get returned nil next to timed consumers", detail)
				continue
			}
			c.Count("timedmulti_empty_returns", 1)
			if limit := time.Duration(o.t)*time.Millisecond - time.Millisecond; o.el < limit {
				detail["elapsed_ns"], detail["timeout_ms"] = o.el.Nanoseconds(), o.t
				c.Fail(T+".GetTimeout:early-empty-return/other-waiters", fmt.Sprintf("GetTimeout(%d) returned empty-handed after %v (< %v) while other consumers were waiting on the same queue", o.t, o.el, limit), detail)
			}
		case pillT:
			pills++
		case uint64:
			if !put[v] || delivered[v] {
				c.Fail(T+":conservation", fmt.Sprintf("element %s delivered twice or never put", fmtID(v)), detail)
			}
			delivered[v] = true
			c.Count("timedmulti_element_returns", 1)
		default:
			c.Fail(T+":conservation", fmt.Sprintf("foreign element %v delivered", v), detail)
		}
	}
	// second batch with nobody waiting
	var want []uint64
	for _, p := range plans {
		if !delivered[p.id] {
			want = append(want, p.id)
		}
	}
	// pills not consumed by a blocking consumer (a timed consumer cannot have got one: they are
	// put after all timed gets returned)
	for pills < nBlocking {
		want = append(want, ^uint64(0))
		pills++
	}
	nb := r.Range(1, 6)
	lane2 := r.Intn(q.lanes())
	for b := 0; b < nb; b++ {
		id := mkID(lane2, 2, b+1)
		q.put(lane2, id)
		want = append(want, id)
	}
	// give a helper that a timed get may have left behind every chance to run
	for y := 0; y < 50; y++ {
		time.Sleep(100 * time.Microsecond)
	}
	detail := map[string]interface{}{"params": params, "observed": obs, "second_batch": nb}
	if got := sizeBounded(q); got != len(want) {
		detail["size"], detail["expected"] = got, len(want)
		c.Fail(T+":conservation/after-timed-gets", fmt.Sprintf("Size()=%d, but %d accepted elements were never delivered: something other than a consumer took elements out after the timed gets had returned", got, len(want)), detail)
		return
	}
	var got []uint64
	for range want {
		v := q.getNoWait()
		switch x := v.(type) {
		case uint64:
			got = append(got, x)
		case pillT:
			got = append(got, ^uint64(0))
		default:
			got = append(got, 0)
		}
	}
	// order: per lane FIFO; for the double queue lane 1 before lane 2. Compare as multisets
	// first, then per-lane order.
	ws, gs := append([]uint64(nil), want...), append([]uint64(nil), got...)
	sort.Slice(ws, func(a, b int) bool { return ws[a] < ws[b] })
	sort.Slice(gs, func(a, b int) bool { return gs[a] < gs[b] })
	if fmt.Sprint(ws) != fmt.Sprint(gs) {
		detail["drained"], detail["expected"] = fmt.Sprint(got), fmt.Sprint(want)
		c.Fail(T+":conservation/after-timed-gets", "draining after the timed gets does not return exactly the accepted, undelivered elements", detail)
		return
	}
	if q.lanes() == 1 && fmt.Sprint(want) != fmt.Sprint(got) {
		detail["drained"], detail["expected"] = fmt.Sprint(got), fmt.Sprint(want)
		c.Fail(T+":fifo-order/after-timed-gets", "elements left after the timed gets come out in another order than accepted", detail)
	}
	c.Count("timedmulti_second_batch_elements", int64(nb))
}

// volumeCase — a queue without an effective bound (capacity 0, negative, or far above the
// volume) is filled with more elements than any internal size class of the list underneath
// (1.05 .. 2.2 million outstanding), with partial drains in between. Every put must be accepted,
// Size() must follow, and the elements must come out complete and in order.
func volumeCase(c *vlib.Ctx, kind int, i int, r *vlib.Rand) {
	section := secName("volume-", kind)
	if skipAbandoned(c, section, i) {
		return
	}
	caseID := fmt.Sprintf("%s#%d", section, i)
	capv := []int{0, -1, 3 << 20, 1 << 30}[r.Intn(4)]
	q := newQ(kind, [2]int{capv, capv})
	T := q.name()
	installGuard(q, 16)
	peak := []int{(1 << 20) + r.Range(1, 70000), (1 << 20) + r.Range(1, 70000), (2 << 20) + r.Range(1, 100000), (1 << 16) + r.Range(1, 3000), (1 << 20) - r.Range(0, 2)}[r.Intn(5)]
	force := r.Intn(3) == 0
	lanes := q.lanes()
	var next, head [2]uint64 // per lane: next id to put, next id expected
	outstanding := 0
	bad := false
	params := map[string]interface{}{"type": T, "capacity": capv, "peak": peak, "forced_puts": force}
	body := func() {
		phases := r.Range(1, 3)
		for ph := 0; ph < phases && !bad; ph++ {
			for outstanding < peak && !bad {
				l := 0
				if lanes == 2 && outstanding%3 == 1 {
					l = 1
				}
				id := mkID(l, 1, 0) | next[l]
				var ok bool
				if force {
					ok = q.putForce(l, id)
				} else {
					ok = q.put(l, id)
				}
				if !ok {
					params["outstanding"] = outstanding
					c.Fail(T+".Put:refused-below-capacity", fmt.Sprintf("put #%d refused on a queue of capacity %d holding %d elements", next[l], capv, outstanding), params)
					bad = true
					return
				}
				next[l]++
				outstanding++
				if outstanding&0xffff == 0 || outstanding == peak {
					if s := q.size(); s != outstanding {
						params["outstanding"], params["size"] = outstanding, s
						c.Fail(T+":conservation/volume", fmt.Sprintf("after %d accepted puts and no loss report Size()=%d", outstanding, s), params)
						bad = true
						return
					}
				}
			}
			drain := outstanding
			if ph < phases-1 {
				drain = r.Range(1, outstanding/2)
			}
			for d := 0; d < drain; d++ {
				v, _ := q.getNoWait().(uint64)
				l := 0
				if lanes == 2 && head[0] == next[0] {
					l = 1
				}
				if want := mkID(l, 1, 0) | head[l]; v != want {
					params["outstanding"], params["got"], params["want"] = outstanding, fmtID(v), fmtID(want)
					c.Fail(T+":fifo-order/volume", fmt.Sprintf("element %d of the drain is %s, expected %s", d, fmtID(v), fmtID(want)), params)
					bad = true
					return
				}
				head[l]++
				outstanding--
			}
			c.Count("volume_elements_drained", int64(drain))
		}
		if !bad {
			if v := q.getNoWait(); v != nil || q.size() != 0 {
				c.Fail(T+":conservation/volume", fmt.Sprintf("queue not empty after a complete drain: %v, Size()=%d", v, q.size()), params)
			}
		}
	}
	o := guardCall(4*curWatchdog(), body)
	o.rethrow()
	if o.Runaway {
		c.Fail(T+":overflow-reported-below-capacity", "Overflowed/Failed was invoked on a queue that never reached its capacity", params)
		return
	}
	if !o.Returned {
		atomic.AddInt32(&stallsSeen, 1)
		c.Inconclusive(caseID, "volume case did not finish within four watchdogs")
		abandonSection(c, section, caseID+": did not finish")
		return
	}
	c.Count("volume_cases", 1)
	c.Max("volume_max_outstanding", int64(peak))
}

