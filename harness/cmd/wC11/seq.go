package main

import (
	"fmt"
	"strings"
	"sync"
	"sync/atomic"

	"verif/vlib"
)

// ---- the independent sequential model ---------------------------------------------------

// fifo is the reference bounded FIFO written from the property text: capacity<=0 means
// unbounded; a plain put on a full queue is refused; a forced put evicts oldest-first until
// there is room.
type fifo struct {
	cap int
	q   []uint64
}

func (f *fifo) full() bool { return f.cap > 0 && len(f.q) >= f.cap }

// put returns (accepted, element handed to Failed or 0).
func (f *fifo) put(v uint64) (bool, uint64) {
	if f.full() {
		return false, v
	}
	f.q = append(f.q, v)
	return true, 0
}

// putForce returns (true if nothing had to be evicted, evicted elements oldest first).
func (f *fifo) putForce(v uint64) (bool, []uint64) {
	if !f.full() {
		f.q = append(f.q, v)
		return true, nil
	}
	var ev []uint64
	for f.full() {
		ev = append(ev, f.q[0])
		f.q = f.q[1:]
	}
	f.q = append(f.q, v)
	return false, ev
}

func (f *fifo) pop() uint64 {
	if len(f.q) == 0 {
		return 0
	}
	v := f.q[0]
	f.q = f.q[1:]
	return v
}

// model2 is one or two lanes; a get serves lane 0 before lane 1.
type model2 struct {
	n    int
	lane [2]fifo
}

func (m *model2) get() (uint64, int) {
	for l := 0; l < m.n; l++ {
		if len(m.lane[l].q) > 0 {
			return m.lane[l].pop(), l
		}
	}
	return 0, -1
}
func (m *model2) size() int { return len(m.lane[0].q) + len(m.lane[1].q) }

// ---- sequential model check -------------------------------------------------------------

type cbEv struct {
	Kind byte // 'F' failed, 'O' overflowed
	Lane int
	Val  uint64 // 0 = not one of our elements
	Raw  string
}

func (e cbEv) String() string { return fmt.Sprintf("%c%d(%s)", e.Kind, e.Lane+1, e.Raw) }

var seqCaps = []int{0, 1, 2, 5, 1000}

// weights: put, putForce, getNoWait, getTimeout, get(blocking, only when non-empty), clear, setCapacity, sizeOnly
var seqProfiles = [][8]int{
	{60, 15, 10, 2, 5, 1, 2, 5},
	{30, 15, 25, 5, 10, 2, 5, 8},
	{20, 10, 40, 10, 10, 2, 3, 5},
	{30, 20, 15, 3, 5, 2, 20, 5},
	{10, 60, 10, 2, 5, 1, 10, 2},
}

func pickW(r *vlib.Rand, w []int) int {
	t := 0
	for _, x := range w {
		t += x
	}
	k := r.Intn(t)
	for i, x := range w {
		if k < x {
			return i
		}
		k -= x
	}
	return len(w) - 1
}

// seqRun is what the main goroutine may look at when a sequential case does not come back:
// the executed operations and the library call that is pending.
type seqRun struct {
	mu        sync.Mutex
	log       []string
	pending   string
	abandoned bool
}

type seqAbandoned struct{}

func (s *seqRun) begin(name string) {
	s.mu.Lock()
	s.pending = name
	s.mu.Unlock()
}

// add appends a finished operation; a case that was given up by the main goroutine ends here.
func (s *seqRun) add(entry string) {
	s.mu.Lock()
	s.pending = ""
	s.log = append(s.log, entry)
	ab := s.abandoned
	s.mu.Unlock()
	if ab {
		panic(seqAbandoned{})
	}
}

// seqCase runs one sequential model-check case on its own goroutine and waits for it with the
// watchdog: a library call that never returns (a Get that parks although elements are queued,
// an eviction loop that does not end) must cost one case, not the child.
func seqCase(c *vlib.Ctx, kind int, i int, r *vlib.Rand) {
	section := secName("seq-", kind)
	if skipAbandoned(c, section, i) {
		return
	}
	st := &seqRun{}
	var qShared qapi // written once by the case's goroutine under st.mu
	// the sequential sections run before anything that can leave goroutines parked in Get
	base := 0
	wd := curWatchdog()
	o := guardCall(wd, func() { seqBody(c, kind, i, r, st, &qShared) })
	o.rethrow()
	if o.Returned {
		return
	}
	// the case is stuck inside a library call
	st.mu.Lock()
	st.abandoned = true
	pending := st.pending
	ops := append([]string(nil), st.log...)
	q := qShared
	st.mu.Unlock()
	detail := map[string]interface{}{"pending_call": pending, "ops": ops}
	caseID := fmt.Sprintf("%s#%d", section, i)
	conclusive := false
	if q != nil {
		detail["type"] = q.name()
		if pending == "Get()" {
			// Get is only called when the model holds an element and Size() agreed with the model
			// just before; nobody else uses this queue. Parked in Cond.Wait with Size()>0, seen
			// twice: the blocking get does not return although an element is available.
			s := diagnoseStall(q, base, func() int64 { return 0 })
			detail["observation"] = s.Detail
			if s.Conclusive {
				conclusive = true
				c.Fail(q.name()+".Get:lost-wakeup", "sequential: Get() stays parked in Cond.Wait although Size()>0 and no other goroutine uses the queue", detail)
			}
		} else {
			atomic.AddInt32(&stallsSeen, 1)
		}
	} else {
		atomic.AddInt32(&stallsSeen, 1)
	}
	if !conclusive {
		c.Inconclusive(caseID, fmt.Sprintf("sequential call %q did not return within the watchdog %v after %d operations; goroutine abandoned", pending, wd, len(ops)))
	}
	abandonSection(c, section, fmt.Sprintf("%s: library call %q did not return", caseID, pending))
}

func seqBody(c *vlib.Ctx, kind int, i int, r *vlib.Rand, st *seqRun, qOut *qapi) {
	var caps [2]int
	caps[0] = seqCaps[r.Intn(len(seqCaps))]
	caps[1] = seqCaps[r.Intn(len(seqCaps))]
	if r.Intn(40) == 0 {
		caps[r.Intn(2)] = -1 - r.Intn(3) // negative = unbounded as well
	}
	q := newQ(kind, caps)
	st.mu.Lock()
	*qOut = q
	st.mu.Unlock()
	T := q.name()
	m := &model2{n: q.lanes()}
	m.lane[0].cap, m.lane[1].cap = caps[0], caps[1]

	var rec []cbEv
	mk := func(k byte, l int) func(interface{}) {
		return func(v interface{}) {
			id, _ := v.(uint64)
			rec = append(rec, cbEv{k, l, id, fmt.Sprint(v)})
			// one call can hand over at most what the queue holds (+ the refused element)
			if len(rec) > m.size()+4 {
				panic(runawayPanic{len(rec)})
			}
		}
	}
	q.setCallbacks([2]func(interface{}){mk('F', 0), mk('F', 1)}, [2]func(interface{}){mk('O', 0), mk('O', 1)})

	nops := r.Range(10, 300)
	big := caps[0] == 1000 || caps[1] == 1000
	if big && r.Intn(3) == 0 {
		nops = r.Range(1200, 2600) // long enough to fill a lane of 1000
	}
	prof := seqProfiles[r.Intn(len(seqProfiles))]
	if nops > 1000 {
		prof = seqProfiles[0]
	}
	phaseLen := r.Range(20, 400)

	// A third of the cases start with a scripted prologue: fill (1..4 puts, any lane), Clear()
	// on the NON-empty queue, put again, fetch with each kind of get; sometimes twice. What is
	// accepted after a Clear must come out again, in order, on both lanes of both queue types.
	var script [][2]int
	if r.Intn(3) == 0 {
		putOp := func(forcePct int) [2]int {
			op := 0
			if r.Intn(100) < forcePct {
				op = 1
			}
			return [2]int{op, r.Intn(q.lanes())}
		}
		for rounds := r.Range(1, 2); rounds > 0; rounds-- {
			for k := r.Range(1, 4); k > 0; k-- {
				script = append(script, putOp(25))
			}
			script = append(script, [2]int{5, 0})
			n2 := r.Range(1, 3)
			for k := 0; k < n2; k++ {
				script = append(script, putOp(40))
			}
			for k := r.Range(1, n2+1); k > 0; k-- {
				script = append(script, [2]int{[]int{2, 2, 3, 4, 4}[r.Intn(5)], 0})
			}
		}
		c.Count("seq_cases_with_clear_prologue", 1)
	}
	if nops < len(script) {
		nops = len(script)
	}

	next := uint64(0)
	failed := false
	sinceClear := false // a Clear() of a non-empty queue happened earlier in this case
	fail := func(key, what string) {
		failed = true
		atomic.StoreInt32(&seqFailed, 1)
		c.Fail(key, what, map[string]interface{}{"type": T, "initial_capacity": caps[:q.lanes()], "ops": st.log, "failing_step": len(st.log) - 1})
	}
	// call executes one library call; true = it was aborted by the callbacks' runaway guard
	call := func(name string, fn func()) (runaway bool) {
		st.begin(name)
		defer func() {
			if e := recover(); e != nil {
				if !isRunaway(e) {
					panic(e)
				}
				runaway = true
			}
		}()
		fn()
		return false
	}
	checkSizes := func(op string) {
		st.begin("Size()/GetCapacity() after " + op)
		for l := 0; l < q.lanes(); l++ {
			if g, w := q.sizeLane(l), len(m.lane[l].q); g != w {
				fail(T+".Size:wrong-value", fmt.Sprintf("after %s lane %d Size()=%d, model holds %d", op, l+1, g, w))
			}
			if g, w := q.getCap(l), m.lane[l].cap; g != w {
				fail(T+".GetCapacity:wrong-value", fmt.Sprintf("after %s lane %d GetCapacity()=%d, expected %d", op, l+1, g, w))
			}
		}
		if g, w := q.size(), m.size(); g != w {
			fail(T+".Size:wrong-value", fmt.Sprintf("after %s Size()=%d, model holds %d", op, g, w))
		}
	}
	cmpCB := func(op string, isForce bool, want []cbEv) {
		same := len(want) == len(rec)
		if same {
			for k := range want {
				if want[k].Kind != rec[k].Kind || want[k].Lane != rec[k].Lane || want[k].Val != rec[k].Val {
					same = false
				}
			}
		}
		if same {
			return
		}
		ws, gs := make([]string, len(want)), make([]string, len(rec))
		for k := range want {
			ws[k] = fmt.Sprintf("%c%d(%d)", want[k].Kind, want[k].Lane+1, want[k].Val)
		}
		for k := range rec {
			gs[k] = rec[k].String()
		}
		key := T + ":callback-args"
		if isForce {
			// all-overflow on the right lane but different elements/order: the wrong end (or count) was evicted
			onlyO := true
			for _, e := range rec {
				if e.Kind != 'O' {
					onlyO = false
				}
			}
			if onlyO {
				key = T + ".PutForce:eviction-order"
			}
		}
		fail(key, fmt.Sprintf("%s: callbacks %v, expected %v", op, gs, ws))
	}
	getCheck := func(op string, got interface{}) {
		want, wl := m.get()
		gid, _ := got.(uint64)
		if got != nil && gid == 0 {
			fail(T+"."+op+":wrong-element", fmt.Sprintf("%s returned foreign value %v", op, got))
			return
		}
		if gid == want {
			if wl == 1 {
				c.Count("seq_lane2_served_when_lane1_empty", 1)
			}
			if gid != 0 && sinceClear {
				c.Count("seq_deliveries_after_nonempty_clear", 1)
			}
			return
		}
		key := T + "." + op + ":wrong-element"
		if m.n == 2 && wl == 0 && len(m.lane[1].q) > 0 && gid == m.lane[1].q[0] {
			key = "RequestDoubleQueue:priority"
		}
		if op == "Get" && got == nil {
			key = T + ".Get:empty-return" // a blocking get never comes back empty-handed
		}
		fail(key, fmt.Sprintf("%s returned %d, the model's next element is %d", op, gid, want))
	}
	runawayFail := func(name string) {
		fail(T+".PutForce:eviction-runaway", fmt.Sprintf("%s: the callbacks were invoked %d times although the queue held %d elements: the eviction loop does not terminate (aborted by the monitor); last callbacks %v",
			name, len(rec), m.size(), rec[len(rec)-3:]))
	}

	for step := 0; step < nops && !failed; step++ {
		if step > 0 && step%phaseLen == 0 && nops <= 1000 {
			prof = seqProfiles[r.Intn(len(seqProfiles))]
		}
		rec = rec[:0]
		var op, lane int
		if len(script) > 0 {
			op, lane = script[0][0], script[0][1]
			script = script[1:]
			if op == 4 && m.size() == 0 {
				op = 2
			}
		} else {
			op = pickW(r, prof[:])
			lane = r.Intn(q.lanes())
		}
		last := ""
		switch op {
		case 0: // Put
			next++
			name := fmt.Sprintf("Put%d(%d)", lane+1, next)
			var got bool
			if call(name, func() { got = q.put(lane, next) }) {
				st.add(name + "=<aborted>")
				runawayFail(name)
				break
			}
			wantOK, wf := m.lane[lane].put(next)
			last = fmt.Sprintf("%s=%v", name, got)
			st.add(last)
			if got != wantOK {
				fail(T+".Put:wrong-return", fmt.Sprintf("%s returned %v with %d/%d held, expected %v", name, got, len(m.lane[lane].q), m.lane[lane].cap, wantOK))
			}
			var want []cbEv
			if wf != 0 {
				want = []cbEv{{Kind: 'F', Lane: lane, Val: wf}}
				c.Count("seq_refused_puts", 1)
			}
			cmpCB(name, false, want)
			c.Count("seq_put", 1)
		case 1: // PutForce
			next++
			name := fmt.Sprintf("PutForce%d(%d)", lane+1, next)
			var got bool
			if call(name, func() { got = q.putForce(lane, next) }) {
				st.add(name + "=<aborted>")
				runawayFail(name)
				break
			}
			wantOK, ev := m.lane[lane].putForce(next)
			last = fmt.Sprintf("%s=%v", name, got)
			st.add(last)
			if got != wantOK {
				fail(T+".PutForce:wrong-return", fmt.Sprintf("%s returned %v, expected %v (evictions expected: %d)", name, got, wantOK, len(ev)))
			}
			var want []cbEv
			for _, e := range ev {
				want = append(want, cbEv{Kind: 'O', Lane: lane, Val: e})
			}
			cmpCB(name, true, want)
			c.Count("seq_putforce", 1)
			c.Count("seq_evictions", int64(len(ev)))
			if len(ev) > 1 {
				c.Count("seq_multi_evictions", 1)
			}
		case 2: // GetNoWait
			var got interface{}
			call("GetNoWait()", func() { got = q.getNoWait() })
			last = fmt.Sprintf("GetNoWait()=%v", got)
			st.add(last)
			getCheck("GetNoWait", got)
			cmpCB("GetNoWait", false, nil)
			c.Count("seq_getnowait", 1)
		case 3: // GetTimeout(0 or tiny)
			t := 0
			switch r.Intn(240) { // tiny positive timeouts are rare: on an empty queue each one costs its full duration
			case 0:
				t = 1
			case 1:
				t = 2
			case 2, 3, 4, 5, 6, 7, 8, 9:
				t = -1
			}
			var got interface{}
			call(fmt.Sprintf("GetTimeout(%d)", t), func() { got = q.getTimeout(t) })
			last = fmt.Sprintf("GetTimeout(%d)=%v", t, got)
			st.add(last)
			getCheck("GetTimeout", got)
			cmpCB("GetTimeout", false, nil)
			c.Count("seq_gettimeout", 1)
		case 4: // blocking Get, only where the model says an element is available
			if m.size() == 0 {
				step--
				prof[4] = 0 // avoid spinning on an empty queue
				if prof[0]+prof[1] == 0 {
					prof[0] = 1
				}
				continue
			}
			var got interface{}
			call("Get()", func() { got = q.get() })
			last = fmt.Sprintf("Get()=%v", got)
			st.add(last)
			getCheck("Get", got)
			cmpCB("Get", false, nil)
			c.Count("seq_get", 1)
		case 5:
			if m.size() > 0 {
				sinceClear = true
				c.Count("seq_clear_nonempty", 1)
			}
			call("Clear()", func() { q.clear() })
			m.lane[0].q, m.lane[1].q = nil, nil
			last = "Clear()"
			st.add(last)
			cmpCB("Clear", false, nil)
			c.Count("seq_clear", 1)
		case 6:
			nc := [2]int{m.lane[0].cap, m.lane[1].cap}
			for l := 0; l < q.lanes(); l++ {
				switch r.Intn(4) {
				case 0:
					nc[l] = seqCaps[r.Intn(len(seqCaps))]
				case 1:
					nc[l] = r.Range(1, 8)
				case 2:
					if r.Intn(8) == 0 {
						nc[l] = -r.Intn(3)
					}
				}
			}
			last = fmt.Sprintf("SetCapacity(%v)", nc[:q.lanes()])
			call(last, func() { q.setCap(nc) })
			m.lane[0].cap, m.lane[1].cap = nc[0], nc[1]
			st.add(last)
			cmpCB("SetCapacity", false, nil)
			c.Count("seq_setcapacity", 1)
		case 7:
			last = "Size()"
			st.add(last)
		}
		if !failed {
			checkSizes(last)
		}
		if len(m.lane[0].q) >= 1000 || len(m.lane[1].q) >= 1000 {
			c.Count("seq_steps_with_lane_at_1000", 1)
		}
	}
	// drain: what is left must come out in model order (bounded by what the model holds)
	for budget := m.size() + 8; !failed && budget > 0 && (m.size() > 0 || q.size() > 0); budget-- {
		rec = rec[:0]
		var got interface{}
		call("GetNoWait()", func() { got = q.getNoWait() })
		st.add(fmt.Sprintf("GetNoWait()=%v", got))
		getCheck("GetNoWait", got)
		if got == nil && m.size() == 0 {
			break
		}
		c.Count("seq_drained", 1)
	}
	if !failed {
		st.begin("GetNoWait()")
		if got := q.getNoWait(); got != nil {
			st.add(fmt.Sprintf("GetNoWait()=%v", got))
			fail(T+".GetNoWait:wrong-element", fmt.Sprintf("empty queue returned %v", got))
		}
	}
	log := st.log
	c.Count("seq_ops", int64(len(log)))
	c.Count("seq_cases", 1)
	for l := 0; l < q.lanes(); l++ {
		c.SetAdd("seq_capacities", fmt.Sprint(caps[l]))
	}
	c.SetAdd("types_covered", T)
	c.DistinctStr(T + fmt.Sprint(caps) + strings.Join(log, ";"))
	if i%97 == 0 && wantSample(c, "seq") {
		s := log
		if len(s) > 40 {
			s = s[:40]
		}
		c.Sample(map[string]interface{}{"section": "seq", "type": T, "capacity": caps[:q.lanes()], "ops_total": len(log), "first_ops": s})
	}
}
