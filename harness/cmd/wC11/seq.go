package main

import (
	"fmt"
	"strings"

	"verif/vlib"
)

// ---- the independent sequential model ---------------------------------------------------

// fifo is the reference bounded FIFO written from the property text: capacity<=0 means
// unbounded; a plain put on a full queue is refused; a forced put evicts oldest-first until
// there is room.
type fifo struct {
	cap int
	q   []uint64
}

func (f *fifo) full() bool { return f.cap > 0 && len(f.q) >= f.cap }

// put returns (accepted, element handed to Failed or 0).
func (f *fifo) put(v uint64) (bool, uint64) {
	if f.full() {
		return false, v
	}
	f.q = append(f.q, v)
	return true, 0
}

// putForce returns (true if nothing had to be evicted, evicted elements oldest first).
func (f *fifo) putForce(v uint64) (bool, []uint64) {
	if !f.full() {
		f.q = append(f.q, v)
		return true, nil
	}
	var ev []uint64
	for f.full() {
		ev = append(ev, f.q[0])
		f.q = f.q[1:]
	}
	f.q = append(f.q, v)
	return false, ev
}

func (f *fifo) pop() uint64 {
	if len(f.q) == 0 {
		return 0
	}
	v := f.q[0]
	f.q = f.q[1:]
	return v
}

// model2 is one or two lanes; a get serves lane 0 before lane 1.
type model2 struct {
	n    int
	lane [2]fifo
}

func (m *model2) get() (uint64, int) {
	for l := 0; l < m.n; l++ {
		if len(m.lane[l].q) > 0 {
			return m.lane[l].pop(), l
		}
	}
	return 0, -1
}
func (m *model2) size() int { return len(m.lane[0].q) + len(m.lane[1].q) }

// ---- sequential model check -------------------------------------------------------------

type cbEv struct {
	Kind byte // 'F' failed, 'O' overflowed
	Lane int
	Val  uint64 // 0 = not one of our elements
	Raw  string
}

func (e cbEv) String() string { return fmt.Sprintf("%c%d(%s)", e.Kind, e.Lane+1, e.Raw) }

var seqCaps = []int{0, 1, 2, 5, 1000}

// weights: put, putForce, getNoWait, getTimeout, get(blocking, only when non-empty), clear, setCapacity, sizeOnly
var seqProfiles = [][8]int{
	{60, 15, 10, 2, 5, 1, 2, 5},
	{30, 15, 25, 5, 10, 2, 5, 8},
	{20, 10, 40, 10, 10, 2, 3, 5},
	{30, 20, 15, 3, 5, 2, 20, 5},
	{10, 60, 10, 2, 5, 1, 10, 2},
}

func pickW(r *vlib.Rand, w []int) int {
	t := 0
	for _, x := range w {
		t += x
	}
	k := r.Intn(t)
	for i, x := range w {
		if k < x {
			return i
		}
		k -= x
	}
	return len(w) - 1
}

func seqCase(c *vlib.Ctx, kind int, i int, r *vlib.Rand) {
	var caps [2]int
	caps[0] = seqCaps[r.Intn(len(seqCaps))]
	caps[1] = seqCaps[r.Intn(len(seqCaps))]
	if r.Intn(40) == 0 {
		caps[r.Intn(2)] = -1 - r.Intn(3) // negative = unbounded as well
	}
	q := newQ(kind, caps)
	T := q.name()
	m := &model2{n: q.lanes()}
	m.lane[0].cap, m.lane[1].cap = caps[0], caps[1]

	var rec []cbEv
	mk := func(k byte, l int) func(interface{}) {
		return func(v interface{}) {
			id, _ := v.(uint64)
			rec = append(rec, cbEv{k, l, id, fmt.Sprint(v)})
		}
	}
	q.setCallbacks([2]func(interface{}){mk('F', 0), mk('F', 1)}, [2]func(interface{}){mk('O', 0), mk('O', 1)})

	nops := r.Range(10, 300)
	big := caps[0] == 1000 || caps[1] == 1000
	if big && r.Intn(3) == 0 {
		nops = r.Range(1200, 2600) // long enough to fill a lane of 1000
	}
	prof := seqProfiles[r.Intn(len(seqProfiles))]
	if nops > 1000 {
		prof = seqProfiles[0]
	}
	phaseLen := r.Range(20, 400)
	var log []string
	next := uint64(0)
	failed := false
	fail := func(key, what string) {
		failed = true
		tail := log
		c.Fail(key, what, map[string]interface{}{"type": T, "initial_capacity": caps[:q.lanes()], "ops": tail, "failing_step": len(log) - 1})
	}
	checkSizes := func(op string) {
		for l := 0; l < q.lanes(); l++ {
			if g, w := q.sizeLane(l), len(m.lane[l].q); g != w {
				fail(T+".Size:wrong-value", fmt.Sprintf("after %s lane %d Size()=%d, model holds %d", op, l+1, g, w))
			}
			if g, w := q.getCap(l), m.lane[l].cap; g != w {
				fail(T+".GetCapacity:wrong-value", fmt.Sprintf("after %s lane %d GetCapacity()=%d, expected %d", op, l+1, g, w))
			}
		}
		if g, w := q.size(), m.size(); g != w {
			fail(T+".Size:wrong-value", fmt.Sprintf("after %s Size()=%d, model holds %d", op, g, w))
		}
	}
	cmpCB := func(op string, isForce bool, want []cbEv) {
		same := len(want) == len(rec)
		if same {
			for k := range want {
				if want[k].Kind != rec[k].Kind || want[k].Lane != rec[k].Lane || want[k].Val != rec[k].Val {
					same = false
				}
			}
		}
		if same {
			return
		}
		ws, gs := make([]string, len(want)), make([]string, len(rec))
		for k := range want {
			ws[k] = fmt.Sprintf("%c%d(%d)", want[k].Kind, want[k].Lane+1, want[k].Val)
		}
		for k := range rec {
			gs[k] = rec[k].String()
		}
		key := T + ":callback-args"
		if isForce {
			// all-overflow on the right lane but different elements/order: the wrong end (or count) was evicted
			onlyO := true
			for _, e := range rec {
				if e.Kind != 'O' {
					onlyO = false
				}
			}
			if onlyO {
				key = T + ".PutForce:eviction-order"
			}
		}
		fail(key, fmt.Sprintf("%s: callbacks %v, expected %v", op, gs, ws))
	}
	getCheck := func(op string, got interface{}) {
		want, wl := m.get()
		gid, _ := got.(uint64)
		if got != nil && gid == 0 {
			fail(T+"."+op+":wrong-element", fmt.Sprintf("%s returned foreign value %v", op, got))
			return
		}
		if gid == want {
			if wl == 1 {
				c.Count("seq_lane2_served_when_lane1_empty", 1)
			}
			return
		}
		key := T + "." + op + ":wrong-element"
		if m.n == 2 && wl == 0 && len(m.lane[1].q) > 0 && gid == m.lane[1].q[0] {
			key = "RequestDoubleQueue:priority"
		}
		fail(key, fmt.Sprintf("%s returned %d, the model's next element is %d", op, gid, want))
	}

	for step := 0; step < nops && !failed; step++ {
		if step > 0 && step%phaseLen == 0 && nops <= 1000 {
			prof = seqProfiles[r.Intn(len(seqProfiles))]
		}
		rec = rec[:0]
		op := pickW(r, prof[:])
		lane := r.Intn(q.lanes())
		switch op {
		case 0: // Put
			next++
			got := q.put(lane, next)
			wantOK, wf := m.lane[lane].put(next)
			name := fmt.Sprintf("Put%d(%d)", lane+1, next)
			log = append(log, fmt.Sprintf("%s=%v", name, got))
			if got != wantOK {
				fail(T+".Put:wrong-return", fmt.Sprintf("%s returned %v with %d/%d held, expected %v", name, got, len(m.lane[lane].q), m.lane[lane].cap, wantOK))
			}
			var want []cbEv
			if wf != 0 {
				want = []cbEv{{Kind: 'F', Lane: lane, Val: wf}}
				c.Count("seq_refused_puts", 1)
			}
			cmpCB(name, false, want)
			c.Count("seq_put", 1)
		case 1: // PutForce
			next++
			got := q.putForce(lane, next)
			wantOK, ev := m.lane[lane].putForce(next)
			name := fmt.Sprintf("PutForce%d(%d)", lane+1, next)
			log = append(log, fmt.Sprintf("%s=%v", name, got))
			if got != wantOK {
				fail(T+".PutForce:wrong-return", fmt.Sprintf("%s returned %v, expected %v (evictions expected: %d)", name, got, wantOK, len(ev)))
			}
			var want []cbEv
			for _, e := range ev {
				want = append(want, cbEv{Kind: 'O', Lane: lane, Val: e})
			}
			cmpCB(name, true, want)
			c.Count("seq_putforce", 1)
			c.Count("seq_evictions", int64(len(ev)))
			if len(ev) > 1 {
				c.Count("seq_multi_evictions", 1)
			}
		case 2: // GetNoWait
			got := q.getNoWait()
			log = append(log, fmt.Sprintf("GetNoWait()=%v", got))
			getCheck("GetNoWait", got)
			cmpCB("GetNoWait", false, nil)
			c.Count("seq_getnowait", 1)
		case 3: // GetTimeout(0 or tiny)
			t := 0
			switch r.Intn(240) { // tiny positive timeouts are rare: on an empty queue each one costs its full duration
			case 0:
				t = 1
			case 1:
				t = 2
			case 2, 3, 4, 5, 6, 7, 8, 9:
				t = -1
			}
			got := q.getTimeout(t)
			log = append(log, fmt.Sprintf("GetTimeout(%d)=%v", t, got))
			getCheck("GetTimeout", got)
			cmpCB("GetTimeout", false, nil)
			c.Count("seq_gettimeout", 1)
		case 4: // blocking Get, only where the model says an element is available
			if m.size() == 0 {
				step--
				prof[4] = 0 // avoid spinning on an empty queue
				if prof[0]+prof[1] == 0 {
					prof[0] = 1
				}
				continue
			}
			got := q.get()
			log = append(log, fmt.Sprintf("Get()=%v", got))
			getCheck("Get", got)
			cmpCB("Get", false, nil)
			c.Count("seq_get", 1)
		case 5:
			q.clear()
			m.lane[0].q, m.lane[1].q = nil, nil
			log = append(log, "Clear()")
			cmpCB("Clear", false, nil)
			c.Count("seq_clear", 1)
		case 6:
			nc := [2]int{m.lane[0].cap, m.lane[1].cap}
			for l := 0; l < q.lanes(); l++ {
				switch r.Intn(4) {
				case 0:
					nc[l] = seqCaps[r.Intn(len(seqCaps))]
				case 1:
					nc[l] = r.Range(1, 8)
				case 2:
					if r.Intn(8) == 0 {
						nc[l] = -r.Intn(3)
					}
				}
			}
			q.setCap(nc)
			m.lane[0].cap, m.lane[1].cap = nc[0], nc[1]
			log = append(log, fmt.Sprintf("SetCapacity(%v)", nc[:q.lanes()]))
			cmpCB("SetCapacity", false, nil)
			c.Count("seq_setcapacity", 1)
		case 7:
			log = append(log, "Size()")
		}
		if !failed {
			checkSizes(log[len(log)-1])
		}
		if len(m.lane[0].q) >= 1000 || len(m.lane[1].q) >= 1000 {
			c.Count("seq_steps_with_lane_at_1000", 1)
		}
	}
	// drain: what is left must come out in model order
	for !failed && (m.size() > 0 || q.size() > 0) {
		rec = rec[:0]
		got := q.getNoWait()
		log = append(log, fmt.Sprintf("GetNoWait()=%v", got))
		getCheck("GetNoWait", got)
		if got == nil && m.size() == 0 {
			break
		}
		c.Count("seq_drained", 1)
	}
	if !failed {
		if got := q.getNoWait(); got != nil {
			log = append(log, fmt.Sprintf("GetNoWait()=%v", got))
			fail(T+".GetNoWait:wrong-element", fmt.Sprintf("empty queue returned %v", got))
		}
	}
	c.Count("seq_ops", int64(len(log)))
	c.Count("seq_cases", 1)
	for l := 0; l < q.lanes(); l++ {
		c.SetAdd("seq_capacities", fmt.Sprint(caps[l]))
	}
	c.SetAdd("types_covered", T)
	c.DistinctStr(T + fmt.Sprint(caps) + strings.Join(log, ";"))
	if i%97 == 0 && wantSample(c, "seq") {
		s := log
		if len(s) > 40 {
			s = s[:40]
		}
		c.Sample(map[string]interface{}{"section": "seq", "type": T, "capacity": caps[:q.lanes()], "ops_total": len(log), "first_ops": s})
	}
}
