package main

// Result ownership. "Read back identically and in order" is a statement about the sequence of
// values a caller ends up with, not about each value at the instant it is returned: a caller
// keeps what a read gave it while it goes on reading. So every slice (and string) a reader
// hands out is HELD here as the returned value itself — no copy — next to a private copy, and
// re-verified
//   (a) after every later read on the same input and when the program ends,
//   (b) after reads on other inputs created meanwhile,
//   (c) after the caller has written over a previously returned slice (over its whole
//       capacity): the remaining held values, the later reads and the buffer that was handed to
//       NewDataInputX must be unaffected — the library must never write to that buffer itself.
// The writer side holds ToByteArray() results while the writer is written to and while it is
// re-used by the Write*Header calls, the ToBytes* helper results while the helpers are called
// again, and the slices given TO a writer while they are overwritten afterwards.

import (
	"bytes"
	"fmt"
	"math"

	gio "github.com/whatap/golib/io"

	"verif/vlib"
)

// heldVal is one value the library handed out: the returned slice itself plus a private copy.
type heldVal struct {
	method    string // the method that returned it
	input     int    // index of the input it came from
	op        int    // op index in the program
	n         int    // elements
	elem      string // element type
	scribbled bool   // the caller has written over it (the private copy follows)
	dead      bool   // already reported
	same      func() bool
	scribble  func() // overwrite the returned slice over its whole capacity
	show      func() (now, was string)
}

func holdSlice[T any](v []T, elem string, eq func(a, b T) bool, flip func(T) T) *heldVal {
	cp := make([]T, len(v))
	copy(cp, v)
	show := func(s []T) string {
		if len(s) > 48 {
			return fmt.Sprintf("%v… (%d elements)", s[:48], len(s))
		}
		return fmt.Sprintf("%v", s)
	}
	return &heldVal{n: len(v), elem: elem,
		same: func() bool { return eqSlice(v, cp, eq) },
		scribble: func() {
			full := v[:cap(v)]
			for i := range full {
				full[i] = flip(full[i])
			}
			copy(cp, v)
		},
		show: func() (string, string) { return show(v), show(cp) },
	}
}

func holdBytes(v []byte) *heldVal {
	cp := append([]byte{}, v...)
	return &heldVal{n: len(v), elem: "byte",
		same: func() bool { return bytes.Equal(v, cp) },
		scribble: func() {
			full := v[:cap(v)]
			for i := range full {
				full[i] ^= 0xFF
			}
			copy(cp, v)
		},
		show: func() (string, string) { return vlib.Hex(v), vlib.Hex(cp) },
	}
}

// holdString keeps the string and a private copy of its bytes (a string built over a re-used
// buffer without copying would change under the caller). Strings cannot be written by the caller.
func holdString(s string) *heldVal {
	cp := []byte(s)
	return &heldVal{n: len(s), elem: "string",
		same: func() bool { return s == string(cp) },
		show: func() (string, string) { return vlib.Hex([]byte(s)), vlib.Hex(cp) },
	}
}

func holdStrings(v []string) *heldVal {
	cp := make([][]byte, len(v))
	for i := range v {
		cp[i] = []byte(v[i])
	}
	return &heldVal{n: len(v), elem: "string element",
		same: func() bool {
			if len(v) != len(cp) {
				return false
			}
			for i := range v {
				if v[i] != string(cp[i]) {
					return false
				}
			}
			return true
		},
		scribble: func() {
			full := v[:cap(v)]
			for i := range full {
				full[i] += "~"
			}
			for i := range v {
				cp[i] = []byte(v[i])
			}
		},
		show: func() (string, string) {
			return fmt.Sprintf("%d strings, first %q", len(v), head(v)), fmt.Sprintf("%d strings", len(cp))
		},
	}
}

func holdI16(v []int16) *heldVal {
	return holdSlice(v, "int16", func(a, b int16) bool { return a == b }, func(x int16) int16 { return ^x })
}
func holdI32(v []int32) *heldVal {
	return holdSlice(v, "int32", func(a, b int32) bool { return a == b }, func(x int32) int32 { return ^x })
}
func holdI64(v []int64) *heldVal {
	return holdSlice(v, "int64", func(a, b int64) bool { return a == b }, func(x int64) int64 { return ^x })
}
func holdF32(v []float32) *heldVal {
	return holdSlice(v, "float32", eqF32, func(x float32) float32 { return math.Float32frombits(^math.Float32bits(x)) })
}
func holdF64(v []float64) *heldVal {
	return holdSlice(v, "float64", eqF64, func(x float64) float64 { return math.Float64frombits(^math.Float64bits(x)) })
}

// sizeClass names the length classes the evidence reports.
func sizeClass(n int) string {
	switch {
	case n <= 9:
		return fmt.Sprint(n)
	case n <= 16:
		return "10-16"
	case n <= 64:
		return "17-64"
	case n <= 253:
		return "65-253"
	case n <= 65535:
		return "254-65535"
	}
	return ">65535"
}

// ownTally is the measured evidence of the ownership monitor (per harness, flushed into the
// counters by flushOwn).
type ownTally struct {
	held, reverified, scribbles, afterScribble  int64
	otherInputReads, inputChecks, inputsWatched int64
	snapshots, snapshotChecks, headerReuses     int64
	helperHeld, helperScribbles                 int64
	argsHeld, argsScribbled                     int64
	heldBySize                                  map[string]int64
	heldByMethod                                map[string]int64
}

func (t *ownTally) note(hv *heldVal) {
	if t.heldBySize == nil {
		t.heldBySize, t.heldByMethod = map[string]int64{}, map[string]int64{}
	}
	t.held++
	t.heldByMethod[hv.method]++
	if hv.elem == "byte" {
		t.heldBySize[sizeClass(hv.n)]++
	}
}

func (h *harness) flushOwn() {
	c, t := h.c, &h.own
	c.Count("own_held_values", t.held)
	c.Count("own_held_reverifications", t.reverified)
	c.Count("own_scribbles_over_returned_slices", t.scribbles)
	c.Count("own_reverifications_after_a_scribble", t.afterScribble)
	c.Count("own_reads_on_other_inputs_with_values_held", t.otherInputReads)
	c.Count("own_input_buffers_watched", t.inputsWatched)
	c.Count("own_input_buffer_checks", t.inputChecks)
	c.Count("own_ToByteArray_snapshots_held", t.snapshots)
	c.Count("own_ToByteArray_snapshot_reverifications", t.snapshotChecks)
	c.Count("own_ToByteArray_held_over_header_reuse", t.headerReuses)
	c.Count("own_helper_results_held", t.helperHeld)
	c.Count("own_helper_results_scribbled", t.helperScribbles)
	c.Count("own_writer_arguments_held", t.argsHeld)
	c.Count("own_writer_arguments_overwritten_after_the_write", t.argsScribbled)
	for k, n := range t.heldBySize {
		c.Count("own_held_byte_strings_of_len_"+k, n)
	}
	for k, n := range t.heldByMethod {
		c.Count("own_held_from_"+k, n)
		c.SetAdd("own_methods_held", k)
	}
	*t = ownTally{}
}

// pick is a small deterministic stream for the monitor's own choices (which value to write
// over, where the second input starts); it is derived from the program, so a replay makes the
// same choices.
type pick uint64

func (p *pick) next() uint64 { *p = pick(vlib.Mix(uint64(*p) + 0x9e3779b97f4a7c15)); return uint64(*p) }
func (p *pick) intn(n int) int {
	if n <= 0 {
		return 0
	}
	return int(p.next() >> 11 % uint64(n))
}

// ownInput is a buffer handed to NewDataInputX and a private copy of it.
type ownInput struct {
	img, cp []byte
	name    string
}

// ownMon is the monitor of one program: all values held so far, over all inputs.
type ownMon struct {
	h        *harness
	detail   func(map[string]interface{}) map[string]interface{}
	held     []*heldVal
	inputs   []*ownInput
	scribble bool // this program contains caller writes over returned slices
	anyScr   bool
	pk       pick
	tick     int
}

func (m *ownMon) watch(img []byte, name string) int {
	m.inputs = append(m.inputs, &ownInput{img: img, cp: append([]byte{}, img...), name: name})
	m.h.own.inputsWatched++
	return len(m.inputs) - 1
}

// add registers a value just returned by method on input (nil: the read returns no slice).
func (m *ownMon) add(hv *heldVal, method string, input, op int) {
	if hv == nil {
		return
	}
	hv.method, hv.input, hv.op = method, input, op
	m.held = append(m.held, hv)
	m.h.own.note(hv)
}

// verify re-checks every held value after the read of op afterOp by afterMethod on input
// afterInput (note: what else happened). Values of more than 2048 elements are compared on
// every eighth call and whenever full is set (ends of inputs, caller writes).
func (m *ownMon) verify(afterMethod string, afterOp, afterInput int, full bool, note ...string) {
	t := &m.h.own
	m.tick++
	for _, hv := range m.held {
		if hv.dead || (hv.n > 2048 && !full && m.tick%8 != 0) {
			continue
		}
		t.reverified++
		if m.anyScr {
			t.afterScribble++
		}
		if hv.input != afterInput {
			t.otherInputReads++
		}
		if hv.same() {
			continue
		}
		hv.dead = true
		key := "DataInputX." + hv.method + ":result-altered-later"
		if m.h.rp.first(key) {
			now, was := hv.show()
			after := fmt.Sprintf("%s had read op %d", afterMethod, afterOp)
			if afterInput >= 0 {
				after += " on input " + m.inputs[afterInput].name
			}
			if len(note) > 0 {
				after = note[0]
			}
			m.h.c.Fail(key, fmt.Sprintf("the %d-%s value returned by %s for op %d (input %s) was %s when returned and is %s after %s",
				hv.n, hv.elem, hv.method, hv.op, m.inputs[hv.input].name, was, now, after),
				m.detail(map[string]interface{}{"op_index": hv.op, "method": hv.method, "len": hv.n, "when_returned": was, "now": now,
					"after": after, "value_itself_overwritten_by_caller": hv.scribbled, "caller_overwrote_some_returned_slice": m.anyScr}))
		}
	}
}

// inputIntact checks the buffer of the input a read has just been made on (so that a write
// by the library is reported under the method that made it); buffers of more than 4096 bytes
// on every eighth read.
func (m *ownMon) inputIntact(idx int, method string) {
	if len(m.inputs[idx].img) > 4096 && m.tick%8 != 0 {
		return
	}
	m.checkInputs(m.inputs[idx:idx+1], method, "the read", false)
}

// inputsIntact: the buffers handed to NewDataInputX are byte for byte what they were.
func (m *ownMon) inputsIntact(method, after string, byCaller bool) {
	m.checkInputs(m.inputs, method, after, byCaller)
}

func (m *ownMon) checkInputs(inputs []*ownInput, method, after string, byCaller bool) {
	for _, in := range inputs {
		m.h.own.inputChecks++
		if bytes.Equal(in.img, in.cp) {
			continue
		}
		key := "DataInputX." + method + ":input-buffer-written"
		what := fmt.Sprintf("the buffer handed to NewDataInputX (input %s) differs from what it was after %s", in.name, after)
		if byCaller {
			key = "DataInputX." + method + ":result-aliases-input-buffer"
			what = fmt.Sprintf("writing over the slice returned by %s changed the buffer handed to NewDataInputX (input %s)", method, in.name)
		}
		if m.h.rp.first(key) {
			d := 0
			for d < len(in.cp) && in.img[d] == in.cp[d] {
				d++
			}
			m.h.c.Fail(key, what, m.detail(map[string]interface{}{"first_changed_offset": d, "buffer_len": len(in.cp)}))
		}
		copy(in.cp, in.img) // report once, go on from the new state
	}
}

// maybeScribble plays the caller that writes over a value it got earlier.
func (m *ownMon) maybeScribble(lastMethod string) {
	if !m.scribble || len(m.held) == 0 || m.pk.intn(3) != 0 {
		return
	}
	// the most recent values are the ones a scratch buffer would still back: prefer them.
	var hv *heldVal
	if m.pk.intn(2) == 0 {
		hv = m.held[len(m.held)-1-m.pk.intn(minI(3, len(m.held)))]
	} else {
		hv = m.held[m.pk.intn(len(m.held))]
	}
	if hv.dead || hv.scribble == nil {
		return
	}
	m.inputsIntact(lastMethod, "the reads so far (no caller write yet since the last check)", false)
	hv.scribble()
	hv.scribbled, m.anyScr = true, true
	m.h.own.scribbles++
	m.inputsIntact(hv.method, "", true)
	m.verify(hv.method, hv.op, hv.input, true, fmt.Sprintf("the caller wrote over the slice %s had returned for op %d (after %s)", hv.method, hv.op, lastMethod))
}

// ---- writer side: helper results ---------------------------------------------------------

// helperHold keeps the result of the previous call of a ToBytes* helper while the helper is
// called again, and every few calls writes over a result before the next call.
type helperHold struct {
	prev  []byte // the returned slice itself
	want  []byte // reference bytes (points into the batch image)
	prevI int
}

func (b *batch) helperOwn(name string, hh *helperHold, i int, g, ref []byte) {
	h := b.h
	if hh.prev != nil {
		h.own.helperHeld++
		if !bytes.Equal(hh.prev, hh.want) {
			if key := name + ":result-altered-later"; h.rp.first(key) {
				h.c.Fail(key, fmt.Sprintf("the slice %s(%s) returned was %x and is %x after the next call %s(%s)", name, b.hex(b.pats[hh.prevI]), hh.want, hh.prev, name, b.hex(b.pats[i])),
					b.detail(i, map[string]interface{}{"previous_index": hh.prevI}))
			}
		}
	}
	if !bytes.Equal(g, ref) {
		hh.prev = nil // a wrong result is the helper's own oracle's business
		return
	}
	hh.prev, hh.want, hh.prevI = g, ref, i
	if i%5 == 3 {
		// the caller owns the result: writing over it must not reach any later result
		// (checked by the helper's own oracle on the next calls).
		for j := range g {
			g[j] ^= 0xFF
		}
		hh.prev = nil
		h.own.helperScribbles++
	}
}

// ---- writer side: the stream ---------------------------------------------------------------

// headerReuse holds out.ToByteArray() while the writer is re-used by one of the Write*Header
// calls (they empty the stream and write a frame around what it held) and then written again.
func (h *harness) headerReuse(out *gio.DataOutputX, produced []byte, variant int, detail func(map[string]interface{}) map[string]interface{}) {
	c, rp := h.c, h.rp
	heldBefore := out.ToByteArray()
	if !bytes.Equal(heldBefore, produced) {
		return // reported by the executor already
	}
	name := [...]string{"WriteHeader", "WriteOneWayHeader", "WriteSecureHeader"}[variant%3]
	if p := vlib.Catch(func() {
		switch variant % 3 {
		case 0:
			out.WriteHeader(1, 2, 0x0102030405060708, -0x1112131415161718)
		case 1:
			out.WriteOneWayHeader(3, 4, 0x0102030405060708, -0x1112131415161718)
		default:
			out.WriteSecureHeader(5, 6, 0x0102030405060708, 0x21222324, -0x31323334)
		}
	}); p != nil {
		return // the frame calls are C05's subject
	}
	h.own.headerReuses++
	// Not judged: what a slice taken BEFORE the frame call holds afterwards. ToByteArray()
	// hands out a view of the stream's buffer (like bytes.Buffer.Bytes), and the frame calls
	// are documented to empty the stream and rebuild it around its content; the property only
	// promises that appending writes produce the right bytes, so asserting more here raised
	// alarms on correct code (see DESIGN.md §8.3).
	_ = heldBefore
	// the framed stream, held while the writer goes on.
	framed := out.ToByteArray()
	cp := append([]byte{}, framed...)
	out.WriteLong(0x4142434445464748).WriteText("after the frame").WriteDecimal(-129)
	out.WriteBlob(cp)
	h.own.snapshots++
	h.own.snapshotChecks++
	if !bytes.Equal(framed, cp) {
		key := "DataOutputX.ToByteArray:result-altered-later"
		if rp.first(key) {
			c.Fail(key, fmt.Sprintf("the bytes ToByteArray() returned after %s changed when the stream was written further", name), detail(nil))
		}
	}
}
