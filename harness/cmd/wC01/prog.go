package main

// Programs: a list of typed write operations, executed against golib's DataOutputX, encoded
// by the independent reference writer, and replayed as the matching Read* sequence.

import (
	"bytes"
	"fmt"
	"math"

	gio "github.com/whatap/golib/io"

	"verif/refcodec"
	"verif/vlib"
)

type kind int

const (
	kBool kind = iota
	kByte
	kShort
	kUShort
	kInt3
	kInt
	kLong5
	kLong
	kFloat
	kDouble
	kDecimal
	kBlob
	kText
	kShortBytes
	kTextShort
	kIntBytes
	kBytes
	kWriteOff
	kShortArr
	kIntArr
	kLongArr
	kFloatArr
	kDoubleArr
	kTextArr
	kDecArr
	kDecArrInt
	kLE16s
	kLE16u
	kLE32s
	kLE32u
	kCount
)

var wnames = [kCount]string{
	"WriteBool", "WriteByte", "WriteShort", "WriteUShort", "WriteInt3", "WriteInt", "WriteLong5", "WriteLong",
	"WriteFloat", "WriteDouble", "WriteDecimal", "WriteBlob", "WriteText", "WriteShortBytes",
	"WriteTextShortLength", "WriteIntBytes", "WriteBytes", "Write", "WriteShortArray", "WriteIntArray",
	"WriteLongArray", "WriteFloatArray", "WriteDoubleArray", "WriteTextArray", "WriteDecimal*n", "WriteDecimal*n(int)",
	"WriteBytes(le16)", "WriteBytes(le16)", "WriteBytes(le32)", "WriteBytes(le32)",
}

// op is one typed write (and the read variant that replays it).
type op struct {
	k   kind
	rd  int     // read variant (see rname)
	i   int64   // integer payload / float bits
	b   []byte  // byte payload (nil-ness is part of the case)
	s   string  // text payload
	i16 []int16 // array payloads (nil-ness is part of the case)
	i32 []int32
	i64 []int64
	f32 []float32
	f64 []float64
	ss  []string
	pre int // kWriteOff: bytes of b before the written window
	pst int // kWriteOff: bytes of b after the written window
	lim int // kIntBytes rd>0: slack added to the limit of ReadIntBytesLimit
}

func (o *op) wname() string { return wnames[o.k] }

func (o *op) rname() string {
	switch o.k {
	case kBool:
		return "ReadBool"
	case kByte:
		return "ReadByte"
	case kShort:
		return [...]string{"ReadShort", "ReadUnsignedShort", "ReadUShort"}[o.rd]
	case kUShort:
		return [...]string{"ReadUShort", "ReadUnsignedShort", "ReadShort"}[o.rd]
	case kInt3:
		return "ReadInt3"
	case kInt:
		return [...]string{"ReadInt", "ReadUnsignedInt"}[o.rd]
	case kLong5:
		return "ReadLong5"
	case kLong:
		return "ReadLong"
	case kFloat:
		return "ReadFloat"
	case kDouble:
		return "ReadDouble"
	case kDecimal:
		return [...]string{"ReadDecimal", "ReadDecimalLen"}[o.rd]
	case kBlob:
		return "ReadBlob"
	case kText:
		return "ReadText"
	case kShortBytes:
		return "ReadShortBytes"
	case kTextShort:
		return "ReadTextShortLength"
	case kIntBytes:
		if o.rd == 0 {
			return "ReadIntBytes"
		}
		return "ReadIntBytesLimit"
	case kBytes, kWriteOff:
		return "ReadBytes"
	case kShortArr:
		return "ReadShortArray"
	case kIntArr:
		return "ReadIntArray"
	case kLongArr:
		return "ReadLongArray"
	case kFloatArr:
		return "ReadFloatArray"
	case kDoubleArr:
		return "ReadDoubleArray"
	case kTextArr:
		return "ReadTextArray"
	case kDecArr:
		return "ReadDecimalArray"
	case kDecArrInt:
		return "ReadDecimalArrayInt"
	case kLE16s:
		return "ReadShortLittle"
	case kLE16u:
		return "ReadUnsignedShortLittle"
	case kLE32s:
		return "ReadIntLittle"
	case kLE32u:
		return "ReadUintLittle"
	}
	return "?"
}

func (o *op) isLE() bool { return o.k >= kLE16s && o.k <= kLE32u }

func (o *op) window() []byte { return o.b[o.pre : len(o.b)-o.pst] }

// leImage is the byte-reversed big-endian image of the value (built from the reference
// encoder's big-endian bytes, not from golib).
func (o *op) leImage() []byte {
	w := refcodec.NewW()
	if o.k == kLE16s || o.k == kLE16u {
		w.U16(uint16(o.i))
	} else {
		w.I32(int32(o.i))
	}
	return rev(w.B)
}

func rev(b []byte) []byte {
	o := make([]byte, len(b))
	for i := range b {
		o[len(b)-1-i] = b[i]
	}
	return o
}

// describe renders an op for samples and replay files.
func (o *op) describe() map[string]interface{} {
	m := map[string]interface{}{"write": o.wname(), "read": o.rname()}
	blob := func(b []byte) {
		m["len"] = len(b)
		m["nil"] = b == nil
		m["hex"] = vlib.Hex(b)
	}
	switch o.k {
	case kBool, kByte, kShort, kUShort, kInt3, kInt, kLong5, kLong, kDecimal, kLE16s, kLE16u, kLE32s, kLE32u:
		m["value"] = fmt.Sprintf("%d (0x%x)", o.i, uint64(o.i))
	case kFloat:
		m["bits"] = fmt.Sprintf("0x%08x", uint32(o.i))
	case kDouble:
		m["bits"] = fmt.Sprintf("0x%016x", uint64(o.i))
	case kBlob, kShortBytes, kIntBytes, kBytes:
		blob(o.b)
		if o.k == kIntBytes && o.rd > 0 {
			m["limit"] = len(o.b) + o.lim
		}
	case kWriteOff:
		blob(o.window())
		m["off"] = o.pre
		m["buflen"] = len(o.b)
	case kText, kTextShort:
		blob([]byte(o.s))
	case kShortArr:
		m["len"], m["nil"], m["head"] = len(o.i16), o.i16 == nil, fmt.Sprint(head(o.i16))
	case kIntArr, kDecArrInt:
		m["len"], m["nil"], m["head"] = len(o.i32), o.i32 == nil, fmt.Sprint(head(o.i32))
	case kLongArr, kDecArr:
		m["len"], m["nil"], m["head"] = len(o.i64), o.i64 == nil, fmt.Sprint(head(o.i64))
	case kFloatArr:
		h := []string{}
		for _, f := range head(o.f32) {
			h = append(h, fmt.Sprintf("%08x", math.Float32bits(f)))
		}
		m["len"], m["nil"], m["head_bits"] = len(o.f32), o.f32 == nil, h
	case kDoubleArr:
		h := []string{}
		for _, f := range head(o.f64) {
			h = append(h, fmt.Sprintf("%016x", math.Float64bits(f)))
		}
		m["len"], m["nil"], m["head_bits"] = len(o.f64), o.f64 == nil, h
	case kTextArr:
		m["len"], m["nil"], m["head"] = len(o.ss), o.ss == nil, fmt.Sprintf("%q", head(o.ss))
	}
	return m
}

func head[T any](v []T) []T {
	if len(v) > 8 {
		return v[:8]
	}
	return v
}

func describeAll(ops []op) []interface{} {
	out := make([]interface{}, 0, len(ops))
	for i := range ops {
		if i >= 80 {
			out = append(out, fmt.Sprintf("… %d more ops", len(ops)-i))
			break
		}
		out = append(out, ops[i].describe())
	}
	return out
}

// ---- reference side -------------------------------------------------------------------

func refWrite(w *refcodec.W, o *op) {
	switch o.k {
	case kBool:
		w.Bool(o.i != 0)
	case kByte:
		w.U8(byte(o.i))
	case kShort:
		w.I16(int16(o.i))
	case kUShort:
		w.U16(uint16(o.i))
	case kInt3:
		w.I24(int32(o.i))
	case kInt:
		w.I32(int32(o.i))
	case kLong5:
		w.I40(o.i)
	case kLong:
		w.I64(o.i)
	case kFloat:
		w.F32(math.Float32frombits(uint32(o.i)))
	case kDouble:
		w.F64(math.Float64frombits(uint64(o.i)))
	case kDecimal:
		w.Decimal(o.i)
	case kBlob:
		w.Blob(o.b)
	case kText:
		w.Text(o.s)
	case kShortBytes:
		w.ShortBytes(o.b)
	case kTextShort:
		w.TextShort(o.s)
	case kIntBytes:
		w.IntBytes(o.b)
	case kBytes:
		w.Raw(o.b)
	case kWriteOff:
		w.Raw(o.window())
	case kShortArr:
		w.ShortArray(o.i16)
	case kIntArr:
		w.IntArray(o.i32)
	case kLongArr:
		w.LongArray(o.i64)
	case kFloatArr:
		w.FloatArray(o.f32)
	case kDoubleArr:
		w.DoubleArray(o.f64)
	case kTextArr:
		w.TextArray(o.ss)
	case kDecArr:
		w.Decimal(int64(len(o.i64)))
		for _, v := range o.i64 {
			w.Decimal(v)
		}
	case kDecArrInt:
		w.Decimal(int64(len(o.i32)))
		for _, v := range o.i32 {
			w.Decimal(int64(v))
		}
	case kLE16s, kLE16u, kLE32s, kLE32u:
		w.Raw(o.leImage())
	}
}

// refRead decodes the field with the independent reference reader and says whether it is
// the original value ("" = yes). It validates the oracle itself.
func refRead(r *refcodec.R, o *op) string {
	ne := func(ok bool) string {
		if ok {
			return ""
		}
		return "reference reader does not return what the reference writer was given"
	}
	switch o.k {
	case kBool:
		return ne(r.Bool() == (o.i != 0))
	case kByte:
		return ne(r.U8() == byte(o.i))
	case kShort:
		return ne(r.I16() == int16(o.i))
	case kUShort:
		return ne(r.U16() == uint16(o.i))
	case kInt3:
		return ne(int64(r.I24()) == o.i)
	case kInt:
		return ne(r.I32() == int32(o.i))
	case kLong5:
		return ne(r.I40() == o.i)
	case kLong:
		return ne(r.I64() == o.i)
	case kFloat:
		return ne(math.Float32bits(r.F32()) == uint32(o.i))
	case kDouble:
		return ne(math.Float64bits(r.F64()) == uint64(o.i))
	case kDecimal:
		v, ok := r.Decimal()
		return ne(ok && v == o.i)
	case kBlob:
		return ne(bytes.Equal(r.Blob(), o.b))
	case kText:
		return ne(r.Text() == o.s)
	case kShortBytes:
		return ne(bytes.Equal(r.ShortBytes(), o.b))
	case kTextShort:
		return ne(r.TextShort() == o.s)
	case kIntBytes:
		return ne(bytes.Equal(r.IntBytes(), o.b))
	case kBytes:
		return ne(bytes.Equal(r.Raw(len(o.b)), o.b))
	case kWriteOff:
		return ne(bytes.Equal(r.Raw(len(o.window())), o.window()))
	case kShortArr:
		return ne(eqSlice(r.ShortArray(), o.i16, func(a, b int16) bool { return a == b }))
	case kIntArr:
		return ne(eqSlice(r.IntArray(), o.i32, func(a, b int32) bool { return a == b }))
	case kLongArr:
		return ne(eqSlice(r.LongArray(), o.i64, func(a, b int64) bool { return a == b }))
	case kFloatArr:
		return ne(eqSlice(r.FloatArray(), o.f32, eqF32))
	case kDoubleArr:
		return ne(eqSlice(r.DoubleArray(), o.f64, eqF64))
	case kTextArr:
		return ne(eqSlice(r.TextArray(), o.ss, func(a, b string) bool { return a == b }))
	case kDecArr:
		v, ok := r.DecimalArray()
		return ne(ok && eqSlice(v, o.i64, func(a, b int64) bool { return a == b }))
	case kDecArrInt:
		v, ok := r.DecimalArray()
		return ne(ok && eqSlice(v, o.i32, func(a int64, b int32) bool { return a == int64(b) }))
	case kLE16s, kLE16u:
		return ne(bytes.Equal(r.Raw(2), o.leImage()))
	case kLE32s, kLE32u:
		return ne(bytes.Equal(r.Raw(4), o.leImage()))
	}
	return "unknown op"
}

func eqF32(a, b float32) bool { return math.Float32bits(a) == math.Float32bits(b) }
func eqF64(a, b float64) bool { return math.Float64bits(a) == math.Float64bits(b) }

// eqSlice: same length (nil ≡ empty) and element-wise equal.
func eqSlice[A, B any](a []A, b []B, eq func(A, B) bool) bool {
	if len(a) != len(b) {
		return false
	}
	for i := range a {
		if !eq(a[i], b[i]) {
			return false
		}
	}
	return true
}

// ---- golib side -----------------------------------------------------------------------

func gWrite(out *gio.DataOutputX, o *op) {
	switch o.k {
	case kBool:
		out.WriteBool(o.i != 0)
	case kByte:
		out.WriteByte(byte(o.i))
	case kShort:
		out.WriteShort(int16(o.i))
	case kUShort:
		out.WriteUShort(uint16(o.i))
	case kInt3:
		out.WriteInt3(int32(o.i))
	case kInt:
		out.WriteInt(int32(o.i))
	case kLong5:
		out.WriteLong5(o.i)
	case kLong:
		out.WriteLong(o.i)
	case kFloat:
		out.WriteFloat(math.Float32frombits(uint32(o.i)))
	case kDouble:
		out.WriteDouble(math.Float64frombits(uint64(o.i)))
	case kDecimal:
		out.WriteDecimal(o.i)
	case kBlob:
		out.WriteBlob(o.b)
	case kText:
		out.WriteText(o.s)
	case kShortBytes:
		out.WriteShortBytes(o.b)
	case kTextShort:
		out.WriteTextShortLength(o.s)
	case kIntBytes:
		out.WriteIntBytes(o.b)
	case kBytes:
		out.WriteBytes(o.b)
	case kWriteOff:
		out.Write(o.b, o.pre, len(o.b)-o.pre-o.pst)
	case kShortArr:
		out.WriteShortArray(o.i16)
	case kIntArr:
		out.WriteIntArray(o.i32)
	case kLongArr:
		out.WriteLongArray(o.i64)
	case kFloatArr:
		out.WriteFloatArray(o.f32)
	case kDoubleArr:
		out.WriteDoubleArray(o.f64)
	case kTextArr:
		out.WriteTextArray(o.ss)
	case kDecArr:
		out.WriteDecimal(int64(len(o.i64)))
		for _, v := range o.i64 {
			out.WriteDecimal(v)
		}
	case kDecArrInt:
		out.WriteDecimal(int64(len(o.i32)))
		for _, v := range o.i32 {
			out.WriteDecimal(int64(v))
		}
	case kLE16s, kLE16u, kLE32s, kLE32u:
		out.WriteBytes(o.leImage())
	}
}

// gRead performs the matching read and returns "" when the value is bit-identical, else a
// description of the difference.
func gRead(in *gio.DataInputX, o *op) string {
	msg, _ := gReadHold(in, o)
	return msg
}

// gReadHold is gRead that also hands back what the read returned when that is a slice or a
// string (held by the ownership monitor, see own.go); nil for the scalar reads.
func gReadHold(in *gio.DataInputX, o *op) (string, *heldVal) {
	var hv *heldVal
	msg := gReadInto(in, o, &hv)
	return msg, hv
}

func gReadInto(in *gio.DataInputX, o *op, hv **heldVal) string {
	num := func(got, want int64) string {
		if got == want {
			return ""
		}
		return fmt.Sprintf("got %d (0x%x), written %d (0x%x)", got, uint64(got), want, uint64(want))
	}
	bs := func(got, want []byte) string {
		if bytes.Equal(got, want) {
			return ""
		}
		return fmt.Sprintf("got %d bytes %s, written %d bytes %s", len(got), vlib.Hex(got), len(want), vlib.Hex(want))
	}
	str := func(got, want string) string { return bs([]byte(got), []byte(want)) }
	arr := func(ok bool, gl, wl int) string {
		if ok {
			return ""
		}
		return fmt.Sprintf("array differs (got length %d, written length %d)", gl, wl)
	}
	switch o.k {
	case kBool:
		g := in.ReadBool()
		if g != (o.i != 0) {
			return fmt.Sprintf("got %v, written %v", g, o.i != 0)
		}
		return ""
	case kByte:
		return num(int64(in.ReadByte()), int64(byte(o.i)))
	case kShort:
		switch o.rd {
		case 0:
			return num(int64(in.ReadShort()), int64(int16(o.i)))
		case 1:
			return num(int64(in.ReadUnsignedShort()), int64(uint16(o.i)))
		default:
			return num(int64(in.ReadUShort()), int64(uint16(o.i)))
		}
	case kUShort:
		switch o.rd {
		case 0:
			return num(int64(in.ReadUShort()), int64(uint16(o.i)))
		case 1:
			return num(int64(in.ReadUnsignedShort()), int64(uint16(o.i)))
		default:
			return num(int64(in.ReadShort()), int64(int16(uint16(o.i))))
		}
	case kInt3:
		return num(int64(in.ReadInt3()), o.i)
	case kInt:
		if o.rd == 0 {
			return num(int64(in.ReadInt()), int64(int32(o.i)))
		}
		return num(int64(in.ReadUnsignedInt()), int64(uint32(o.i)))
	case kLong5:
		return num(in.ReadLong5(), o.i)
	case kLong:
		return num(in.ReadLong(), o.i)
	case kFloat:
		return num(int64(math.Float32bits(in.ReadFloat())), int64(uint32(o.i)))
	case kDouble:
		return num(int64(math.Float64bits(in.ReadDouble())), o.i)
	case kDecimal:
		if o.rd == 0 {
			return num(in.ReadDecimal(), o.i)
		}
		n := in.ReadByte()
		return num(in.ReadDecimalLen(int(n)), o.i)
	case kBlob:
		g := in.ReadBlob()
		*hv = holdBytes(g)
		return bs(g, o.b)
	case kText:
		g := in.ReadText()
		*hv = holdString(g)
		return str(g, o.s)
	case kShortBytes:
		g := in.ReadShortBytes()
		*hv = holdBytes(g)
		return bs(g, o.b)
	case kTextShort:
		g := in.ReadTextShortLength()
		*hv = holdString(g)
		return str(g, o.s)
	case kIntBytes:
		var g []byte
		if o.rd == 0 {
			g = in.ReadIntBytes()
		} else {
			g = in.ReadIntBytesLimit(len(o.b) + o.lim)
		}
		*hv = holdBytes(g)
		return bs(g, o.b)
	case kBytes:
		g := in.ReadBytes(int32(len(o.b)))
		*hv = holdBytes(g)
		return bs(g, o.b)
	case kWriteOff:
		g := in.ReadBytes(int32(len(o.window())))
		*hv = holdBytes(g)
		return bs(g, o.window())
	case kShortArr:
		g := in.ReadShortArray()
		*hv = holdI16(g)
		return arr(eqSlice(g, o.i16, func(a, b int16) bool { return a == b }), len(g), len(o.i16))
	case kIntArr:
		g := in.ReadIntArray()
		*hv = holdI32(g)
		return arr(eqSlice(g, o.i32, func(a, b int32) bool { return a == b }), len(g), len(o.i32))
	case kLongArr:
		g := in.ReadLongArray()
		*hv = holdI64(g)
		return arr(eqSlice(g, o.i64, func(a, b int64) bool { return a == b }), len(g), len(o.i64))
	case kFloatArr:
		g := in.ReadFloatArray()
		*hv = holdF32(g)
		return arr(eqSlice(g, o.f32, eqF32), len(g), len(o.f32))
	case kDoubleArr:
		g := in.ReadDoubleArray()
		*hv = holdF64(g)
		return arr(eqSlice(g, o.f64, eqF64), len(g), len(o.f64))
	case kTextArr:
		g := in.ReadTextArray()
		*hv = holdStrings(g)
		return arr(eqSlice(g, o.ss, func(a, b string) bool { return a == b }), len(g), len(o.ss))
	case kDecArr:
		g := in.ReadDecimalArray()
		*hv = holdI64(g)
		return arr(eqSlice(g, o.i64, func(a, b int64) bool { return a == b }), len(g), len(o.i64))
	case kDecArrInt:
		g := in.ReadDecimalArrayInt()
		*hv = holdI32(g)
		return arr(eqSlice(g, o.i32, func(a, b int32) bool { return a == b }), len(g), len(o.i32))
	case kLE16s:
		return num(int64(in.ReadShortLittle()), int64(int16(o.i)))
	case kLE16u:
		return num(int64(in.ReadUnsignedShortLittle()), int64(uint16(o.i)))
	case kLE32s:
		return num(int64(in.ReadIntLittle()), int64(int32(o.i)))
	case kLE32u:
		return num(int64(in.ReadUintLittle()), int64(uint32(o.i)))
	}
	return "unknown op"
}

// ---- executor ---------------------------------------------------------------------------

type progResult struct {
	bytes   []byte // golib's output
	refLen  int
	aborted bool
}

// cloneArgs copies the slices an op passes to its writer (nil stays nil), so that the executor
// can write over what the writer was given after the call without losing the expected values.
func cloneArgs(o *op) (clone *op, intact func() bool, scribble func()) {
	c := *o
	if o.b != nil {
		c.b = append([]byte{}, o.b...)
	}
	if o.i16 != nil {
		c.i16 = append([]int16{}, o.i16...)
	}
	if o.i32 != nil {
		c.i32 = append([]int32{}, o.i32...)
	}
	if o.i64 != nil {
		c.i64 = append([]int64{}, o.i64...)
	}
	if o.f32 != nil {
		c.f32 = append([]float32{}, o.f32...)
	}
	if o.f64 != nil {
		c.f64 = append([]float64{}, o.f64...)
	}
	if o.ss != nil {
		c.ss = append([]string{}, o.ss...)
	}
	intact = func() bool {
		return bytes.Equal(c.b, o.b) && eqSlice(c.i16, o.i16, func(a, b int16) bool { return a == b }) &&
			eqSlice(c.i32, o.i32, func(a, b int32) bool { return a == b }) && eqSlice(c.i64, o.i64, func(a, b int64) bool { return a == b }) &&
			eqSlice(c.f32, o.f32, eqF32) && eqSlice(c.f64, o.f64, eqF64) && eqSlice(c.ss, o.ss, func(a, b string) bool { return a == b })
	}
	scribble = func() {
		for i := range c.b {
			c.b[i] ^= 0xFF
		}
		for i := range c.i16 {
			c.i16[i] = ^c.i16[i]
		}
		for i := range c.i32 {
			c.i32[i] = ^c.i32[i]
		}
		for i := range c.i64 {
			c.i64[i] = ^c.i64[i]
		}
		for i := range c.f32 {
			c.f32[i] = math.Float32frombits(^math.Float32bits(c.f32[i]))
		}
		for i := range c.f64 {
			c.f64[i] = math.Float64frombits(^math.Float64bits(c.f64[i]))
		}
		for i := range c.ss {
			c.ss[i] += "~"
		}
	}
	return &c, intact, scribble
}

func (o *op) hasSliceArg() bool {
	return o.b != nil || o.i16 != nil || o.i32 != nil || o.i64 != nil || o.f32 != nil || o.f64 != nil || o.ss != nil
}

// reader is one DataInputX over one watched buffer, replaying the program from its first op.
type reader struct {
	in     *gio.DataInputX
	img    []byte
	idx    int // the monitor's number for this input
	next   int // next op to read
	canary bool
	ok     bool
}

// runProgram executes ops against golib and the reference and checks every clause of the
// property. section names the caller (for the replay detail only).
func (h *harness) runProgram(section string, ops []op) progResult {
	h.gcTick()
	c, rp, t := h.c, h.rp, &h.t
	detail := func(extra map[string]interface{}) map[string]interface{} {
		m := map[string]interface{}{"section": section, "ops": describeAll(ops)}
		for k, v := range extra {
			m[k] = v
		}
		return m
	}

	// 1. reference encoding, field ends, and the oracle's self-check.
	w := refcodec.NewW()
	refEnd := make([]int, len(ops))
	for i := range ops {
		refWrite(w, &ops[i])
		refEnd[i] = w.Len()
	}
	rr := refcodec.NewR(w.B)
	for i := range ops {
		if msg := refRead(rr, &ops[i]); msg != "" || rr.Off != refEnd[i] || rr.Short {
			if rp.first("harness:refcodec-self-inconsistent@" + ops[i].wname()) {
				c.Fail("harness:refcodec-self-inconsistent@"+ops[i].wname(),
					"the reference reader and the reference writer disagree (oracle fault, not a golib finding): "+msg,
					detail(map[string]interface{}{"op_index": i, "ref_hex": vlib.Hex(w.B)}))
			}
			return progResult{aborted: true}
		}
	}
	// the monitor's own choices (see own.go) follow from the program.
	pk := pick(vlib.HashBytes(w.B) ^ uint64(len(ops))<<32)
	ownArgs := pk.intn(2) == 0

	// 2. golib writes; Size() and the produced bytes after every single write. Earlier
	// ToByteArray() results are held (the returned slices themselves) while the writes go on.
	out := gio.NewDataOutputX()
	gEnd := make([]int, len(ops))
	prev, prevRef, prevSz := 0, 0, out.Size()
	if prevSz != 0 {
		if rp.first("Size:wrong@NewDataOutputX") {
			c.Fail("Size:wrong@NewDataOutputX", fmt.Sprintf("Size()=%d on a fresh stream", prevSz), nil)
		}
	}
	segDiff := false
	var snaps [4][]byte // [0] the previous result, [1..3] results kept from further back
	var snapAt [4]int
	kept := 0
	for i := range ops {
		o := &ops[i]
		wo := o
		var argIntact func() bool
		var argScribble func()
		if ownArgs && o.hasSliceArg() {
			wo, argIntact, argScribble = cloneArgs(o)
		}
		var sz int
		if p := vlib.Catch(func() { gWrite(out, wo); sz = out.Size() }); p != nil {
			key := "program:panic@" + o.wname()
			if rp.first(key) {
				c.Fail(key, fmt.Sprintf("%s panicked: %v", o.wname(), p), detail(map[string]interface{}{"op_index": i}))
			}
			return progResult{aborted: true}
		}
		got := out.ToByteArray()
		t.sizeChecks++
		// Size() must equal the bytes produced after every write; the op that is named is the
		// one during which the counter and the buffer went out of step.
		if sz-prevSz != len(got)-prev {
			key := "Size:wrong@" + o.wname()
			if rp.first(key) {
				c.Fail(key, fmt.Sprintf("op %d (%s) produced %d bytes but Size() advanced by %d (Size()=%d, %d bytes produced so far, reference %d)", i, o.wname(), len(got)-prev, sz-prevSz, sz, len(got), refEnd[i]),
					detail(map[string]interface{}{"op_index": i, "size": sz, "produced": len(got), "reference_len": refEnd[i]}))
			}
		}
		prevSz = sz
		seg, ref := got[prev:], w.B[prevRef:refEnd[i]]
		t.bytesCompared += int64(len(ref))
		segOK := bytes.Equal(seg, ref)
		if !segOK {
			segDiff = true
			key := "program:bytes-differ@" + o.wname()
			what := fmt.Sprintf("op %d (%s): golib emitted %s, the reference encoder emits %s", i, o.wname(), vlib.Hex(seg), vlib.Hex(ref))
			if o.k == kDecimal && len(seg) > 0 && seg[0] != ref[0] {
				if seg[0] > ref[0] {
					key = "DataOutputX.WriteDecimal:not-shortest"
				} else {
					key = "DataOutputX.WriteDecimal:class-too-short"
				}
				what = fmt.Sprintf("WriteDecimal(%d) used the %d-byte form, the shortest form holding it has %d bytes", o.i, seg[0], ref[0])
			}
			if rp.first(key) {
				c.Fail(key, what, detail(map[string]interface{}{"op_index": i, "golib_hex": vlib.Hex(seg), "reference_hex": vlib.Hex(ref)}))
			}
		}
		// the slices the writer was given belong to the caller again once the call returns:
		// the writer has not written to them, and overwriting them now changes nothing.
		if argIntact != nil {
			h.own.argsHeld++
			if !argIntact() {
				if key := "DataOutputX." + o.wname() + ":argument-written"; rp.first(key) {
					c.Fail(key, fmt.Sprintf("op %d: %s changed the slice it was given", i, o.wname()), detail(map[string]interface{}{"op_index": i}))
				}
			}
			argScribble()
			h.own.argsScribbled++
			if now := out.ToByteArray(); segOK && (len(now) != len(got) || !bytes.Equal(now[prev:], ref)) {
				segDiff = true
				if key := "DataOutputX." + o.wname() + ":argument-retained"; rp.first(key) {
					c.Fail(key, fmt.Sprintf("op %d: the bytes %s had produced changed when the caller overwrote the slice it had passed (now %s, were %s)", i, o.wname(), vlib.Hex(now[prev:]), vlib.Hex(ref)),
						detail(map[string]interface{}{"op_index": i}))
				}
			}
		}
		// every held ToByteArray() result still is the prefix it was when returned (the
		// reference prefix, as long as every op's own bytes matched).
		if !segDiff {
			for s := 0; s <= kept; s++ {
				if snaps[s] == nil {
					continue
				}
				h.own.snapshotChecks++
				if !bytes.Equal(snaps[s], w.B[:len(snaps[s])]) {
					if key := "DataOutputX.ToByteArray:result-altered-later"; rp.first(key) {
						c.Fail(key, fmt.Sprintf("the %d bytes ToByteArray() returned after op %d changed while op %d (%s) was written: now %s, were %s", len(snaps[s]), snapAt[s], i, o.wname(), vlib.Hex(snaps[s]), vlib.Hex(w.B[:len(snaps[s])])),
							detail(map[string]interface{}{"op_index": i, "snapshot_after_op": snapAt[s]}))
					}
					snaps[s] = nil
				}
			}
			if snaps[0] != nil && kept < 3 && pk.intn(6) == 0 {
				kept++
				snaps[kept], snapAt[kept] = snaps[0], snapAt[0]
			}
			snaps[0], snapAt[0] = got, i
			h.own.snapshots++
		}
		prev, prevRef = len(got), refEnd[i]
		gEnd[i] = prev
	}
	produced := append([]byte{}, out.ToByteArray()...)
	if !segDiff && !bytes.Equal(produced, w.B) {
		// every op's own bytes matched when it was written: a later write disturbed them.
		if rp.first("program:bytes-differ@whole") {
			c.Fail("program:bytes-differ@whole", "every op's own bytes matched when written, but the final buffer differs from the reference",
				detail(map[string]interface{}{"golib_hex": vlib.Hex(produced), "reference_hex": vlib.Hex(w.B)}))
		}
	}

	// 3. replay as the matching reads: once with three canary bytes behind the stream, once
	// ending exactly at the last field, and once more from a third input that is created while
	// the second is being read and is read in step with it. Everything the reads hand out is
	// held and re-verified after every further read on any of the inputs (own.go). A stream
	// that is not the reference stream has already been reported; it is not read back (a reader
	// handed a length prefix of a different form would allocate from payload bytes taken as a
	// length).
	res := progResult{bytes: produced, refLen: w.Len()}
	if segDiff || !bytes.Equal(produced, w.B) {
		t.programs++
		t.programOps += int64(len(ops))
		t.notReadBack++
		res.aborted = true
		return res
	}
	mon := &ownMon{h: h, detail: detail, pk: pk, scribble: pk.intn(4) != 0}
	open := func(img []byte, name string, canary bool) *reader {
		return &reader{in: gio.NewDataInputX(img), img: img, idx: mon.watch(img, name), canary: canary, ok: true}
	}
	step := func(rd *reader) {
		i := rd.next
		rd.next++
		o := &ops[i]
		var msg string
		var hv *heldVal
		var av int32
		if p := vlib.Catch(func() { msg, hv = gReadHold(rd.in, o); av = rd.in.Available() }); p != nil {
			key := "program:panic@" + o.rname()
			if rp.first(key) {
				c.Fail(key, fmt.Sprintf("op %d: %s panicked on the bytes its own writer produced: %v", i, o.rname(), p),
					detail(map[string]interface{}{"op_index": i, "golib_hex": vlib.Hex(produced), "canary": rd.canary, "input": mon.inputs[rd.idx].name}))
			}
			rd.ok = false
			mon.inputIntact(rd.idx, o.rname())
			return
		}
		t.readsChecked++
		if msg != "" {
			key := "program:value-differs@" + o.rname()
			if o.isLE() {
				key = o.rname() + ":not-little-endian"
			}
			if rp.first(key) {
				c.Fail(key, fmt.Sprintf("op %d: %s after %s: %s", i, o.rname(), o.wname(), msg),
					detail(map[string]interface{}{"op_index": i, "golib_hex": vlib.Hex(produced), "canary": rd.canary, "input": mon.inputs[rd.idx].name,
						"caller_overwrote_some_returned_slice_before": mon.anyScr}))
			}
		}
		t.availChecks++
		if want := int32(len(rd.img) - gEnd[i]); av != want {
			key := "Available:wrong@" + o.rname()
			if rp.first(key) {
				c.Fail(key, fmt.Sprintf("op %d: Available()=%d after %s, but %d of %d bytes belong to the fields read so far (expected %d)", i, av, o.rname(), gEnd[i], len(rd.img), want),
					detail(map[string]interface{}{"op_index": i, "available": av, "expected": want, "golib_hex": vlib.Hex(produced), "canary": rd.canary}))
			}
			rd.ok = false // the stream position is off; later reads would only repeat the report
		}
		mon.add(hv, o.rname(), rd.idx, i)
		mon.verify(o.rname(), i, rd.idx, false)
		mon.inputIntact(rd.idx, o.rname())
		mon.maybeScribble(o.rname())
	}

	a := open(append(append([]byte{}, produced...), canary...), "A (stream + 3 canary bytes)", true)
	for a.ok && a.next < len(ops) {
		step(a)
	}
	if a.ok {
		var tail []byte
		var av int32
		p := vlib.Catch(func() { tail = a.in.ReadBytes(3); av = a.in.Available() })
		if p != nil || !bytes.Equal(tail, canary) || av != 0 {
			if rp.first("program:canary-consumed") {
				c.Fail("program:canary-consumed", fmt.Sprintf("after all matching reads the three canary bytes are not what remains (got %x, Available()=%d, panic=%v)", tail, av, p),
					detail(map[string]interface{}{"golib_hex": vlib.Hex(produced)}))
			}
		}
		if p == nil {
			mon.add(holdBytes(tail), "ReadBytes", a.idx, len(ops))
		}
	}
	mon.verify("ReadBytes", len(ops), a.idx, true)
	mon.inputsIntact("ReadBytes", "every field of input A was read", false)

	b := open(produced, "B (the stream exactly)", false)
	var cR *reader
	startC := mon.pk.intn(len(ops) + 1)
	for {
		if cR == nil && (b.next >= startC || !b.ok) {
			cR = open(append([]byte{}, produced...), fmt.Sprintf("C (created after %d reads on B)", b.next), false)
		}
		progressed := false
		if b.ok && b.next < len(ops) {
			step(b)
			progressed = true
		}
		if cR != nil && cR.ok && cR.next < len(ops) {
			step(cR)
			progressed = true
		}
		if !progressed && cR != nil {
			break
		}
	}
	last := "NewDataInputX"
	if len(ops) > 0 {
		last = ops[len(ops)-1].rname()
	}
	mon.verify(last, len(ops)-1, -1, true)
	mon.inputsIntact(last, "every field of every input was read", false)
	if !a.ok || !b.ok || (cR != nil && !cR.ok) {
		res.aborted = true
	}

	// 4. the writer is re-used while its earlier ToByteArray() result is held.
	if !res.aborted {
		h.headerReuse(out, produced, mon.pk.intn(3), detail)
	}
	t.programs++
	t.programOps += int64(len(ops))
	return res
}

// ---- generator --------------------------------------------------------------------------

var decBoundaries = []int64{0, 127, -128, 32767, -32768, 8388607, -8388608, 2147483647, -2147483648,
	549755813887, -549755813888, math.MaxInt64, math.MinInt64}

func addSat(v, d int64) int64 {
	s := v + d
	if d > 0 && s < v {
		return math.MaxInt64
	}
	if d < 0 && s > v {
		return math.MinInt64
	}
	return s
}

func drawDecimal(r *vlib.Rand) int64 {
	if r.Intn(4) == 0 {
		return addSat(decBoundaries[r.Intn(len(decBoundaries))], int64(r.Range(-3, 3)))
	}
	return r.I64()
}

func sx(v int64, bits uint) int64 { return v << (64 - bits) >> (64 - bits) }

func drawLen(r *vlib.Rand) int {
	switch r.Intn(10) {
	case 0:
		return 0
	case 1:
		return 1
	case 2:
		return 2
	case 3:
		return r.Range(41, 300)
	default:
		return r.Range(3, 40)
	}
}

// genOp draws one operation. big is a per-program allowance for one large payload
// (blob thresholds 65534..65537).
func genOp(r *vlib.Rand, big *int) op {
	o := op{k: kind(r.Intn(int(kCount)))}
	maxLen := 300
	if *big > 0 && r.Intn(40) == 0 {
		*big--
		maxLen = 65537
	}
	text := func(lim int) string {
		if maxLen > 300 {
			return r.AsciiN(minI([]int{65534, 65535, 65536, 65537}[r.Intn(4)], lim))
		}
		return r.Str(minI(maxLen, lim))
	}
	blob := func(lim int) []byte {
		if maxLen > 300 {
			return r.Bytes(minI([]int{65534, 65535, 65536, 65537}[r.Intn(4)], lim))
		}
		return r.Blob(minI(maxLen, lim))
	}
	switch o.k {
	case kBool:
		o.i = int64(r.Intn(2))
	case kByte:
		o.i = int64(byte(r.I16()))
	case kShort:
		o.i, o.rd = int64(r.I16()), r.Intn(3)
	case kUShort:
		o.i, o.rd = int64(uint16(r.I16())), r.Intn(3)
	case kInt3:
		o.i = sx(int64(r.I32()), 24)
	case kInt:
		o.i, o.rd = int64(r.I32()), r.Intn(2)
	case kLong5:
		o.i = sx(r.I64(), 40)
	case kLong:
		o.i = r.I64()
	case kFloat:
		o.i = int64(math.Float32bits(r.F32()))
	case kDouble:
		o.i = int64(math.Float64bits(r.F64()))
	case kDecimal:
		o.i, o.rd = drawDecimal(r), r.Intn(2)
	case kBlob:
		o.b = blob(1 << 30)
	case kText:
		o.s = text(1 << 30)
	case kShortBytes:
		o.b = blob(65535)
	case kTextShort:
		o.s = text(65535)
	case kIntBytes:
		o.b, o.rd = blob(1<<30), r.Intn(3)
		if o.rd == 2 {
			o.lim = r.Range(1, 1000)
		}
	case kBytes:
		o.b = r.Bytes(r.Range(0, 40))
	case kWriteOff:
		o.pre, o.pst = r.Range(0, 5), r.Range(0, 5)
		o.b = r.Bytes(o.pre + o.pst + r.Range(0, 40))
	case kShortArr:
		if n := drawLen(r); n > 0 || r.Bool() {
			o.i16 = make([]int16, n)
			for i := range o.i16 {
				o.i16[i] = r.I16()
			}
		}
	case kIntArr:
		if n := drawLen(r); n > 0 || r.Bool() {
			o.i32 = make([]int32, n)
			for i := range o.i32 {
				o.i32[i] = r.I32()
			}
		}
	case kLongArr:
		if n := drawLen(r); n > 0 || r.Bool() {
			o.i64 = make([]int64, n)
			for i := range o.i64 {
				o.i64[i] = r.I64()
			}
		}
	case kFloatArr:
		if n := drawLen(r); n > 0 || r.Bool() {
			o.f32 = make([]float32, n)
			for i := range o.f32 {
				o.f32[i] = r.F32()
			}
		}
	case kDoubleArr:
		if n := drawLen(r); n > 0 || r.Bool() {
			o.f64 = make([]float64, n)
			for i := range o.f64 {
				o.f64[i] = r.F64()
			}
		}
	case kTextArr:
		if n := drawLen(r) % 48; n > 0 || r.Bool() {
			o.ss = make([]string, n)
			for i := range o.ss {
				o.ss[i] = r.Str(300)
			}
		}
	case kDecArr:
		o.i64 = make([]int64, drawLen(r)%24)
		for i := range o.i64 {
			o.i64[i] = drawDecimal(r)
		}
	case kDecArrInt:
		o.i32 = make([]int32, drawLen(r)%24)
		for i := range o.i32 {
			o.i32[i] = r.I32()
		}
	case kLE16s, kLE16u:
		o.i = int64(uint16(r.I16()))
	case kLE32s, kLE32u:
		o.i = int64(r.I32())
	}
	return o
}

func minI(a, b int) int {
	if a < b {
		return a
	}
	return b
}
