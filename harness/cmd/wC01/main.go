// wC01 — the primitive stream codec (io.DataOutputX / io.DataInputX) is lossless, canonical
// and big-endian; the little-endian read helpers decode the byte-reversed layout.
//
// Oracle: verif/refcodec (independent reference writer W and reader R; imports nothing from
// golib). (a) single-value sweeps — every 8/16/24-bit pattern in both tiers, every 32-bit
// pattern in the thorough tier (a stratified 2^26-point sample + all edges in quick), edge
// lists and PRNG draws for 40/64-bit, doubles and decimals, length thresholds of the
// blob/text/short/int-length byte strings, nil versus empty, array lengths 0..32767;
// (b) random programs of mixed writes replayed as the matching reads; every slice or string a
// read hands out is held (the returned value itself, next to a private copy) and re-verified
// after every later read on the same and on other inputs and after the caller wrote over other
// returned slices; ToByteArray()/ToBytes* results and the slices given to a writer likewise
// (own.go).
package main

import (
	"bytes"
	"fmt"
	"math"
	"runtime"
	"runtime/debug"
	"runtime/metrics"
	"sort"

	gio "github.com/whatap/golib/io"

	"verif/refcodec"
	"verif/vlib"
)

var canary = []byte{0xC5, 0x3A, 0x96}

func f32frombits(u uint32) float32 { return math.Float32frombits(u) }
func f32bits(f float32) uint32     { return math.Float32bits(f) }
func f64frombits(u uint64) float64 { return math.Float64frombits(u) }
func f64bits(f float64) uint64     { return math.Float64bits(f) }

// reporter throttles repeated reports of one key (a broken helper fails for most of 2^32
// patterns); every mismatch is still counted.
type reporter struct{ n map[string]int }

func (rp *reporter) first(key string) bool { rp.n[key]++; return rp.n[key] <= 4 }

type tally struct {
	values        [9]int64 // by width in bytes; [0] = decimals
	decClass      [9]int64 // decimals by payload length
	sizeChecks    int64
	availChecks   int64
	readsChecked  int64
	writesChecked int64
	bytesCompared int64
	programs      int64
	notReadBack   int64
	programOps    int64
}

type harness struct {
	c  *vlib.Ctx
	rp *reporter
	t  tally
	b  [9]*batch

	own ownTally // result-ownership evidence (own.go)

	allocs []metrics.Sample
	lastGC uint64
}

// gcBudget: bytes allocated between two collections. The worker is one goroutine with a live
// heap of a few MB that allocates GBs of short-lived garbage; with the concurrent collector
// the heap overshoots by whatever is allocated while a cycle waits for CPU (on a loaded
// machine hundreds of MB, and the address space stays mapped, which matters under the
// address-space limit the child runs with). Collecting synchronously at a fixed allocation
// budget makes the footprint independent of machine load. Nothing in a verdict depends on it.
const gcBudget = 96 << 20

func (h *harness) gcTick() {
	if h.allocs == nil {
		return
	}
	metrics.Read(h.allocs)
	if a := h.allocs[0].Value.Uint64(); a-h.lastGC > gcBudget {
		runtime.GC()
		h.lastGC = a
	}
}

const batchN = 1 << 14

// edges returns every 2^k+d and -2^k+d (k=0..bits, d=-2..2) truncated to bits, plus byte
// patterns that expose a swapped or dropped byte.
func edges(bits uint) []uint64 {
	mask := ^uint64(0)
	if bits < 64 {
		mask = 1<<bits - 1
	}
	set := map[uint64]struct{}{}
	add := func(v uint64) { set[v&mask] = struct{}{} }
	for k := uint(0); k <= bits && k < 64; k++ {
		for d := int64(-2); d <= 2; d++ {
			add(uint64(int64(1)<<k + d))
			add(uint64(-(int64(1) << k) + d))
		}
	}
	for d := int64(-3); d <= 3; d++ {
		add(uint64(d))
		add(uint64(math.MaxInt64) + uint64(d))
		for _, bd := range decBoundaries {
			add(uint64(addSat(bd, d)))
		}
	}
	n := bits / 8
	for j := uint(0); j < n; j++ {
		for _, x := range []uint64{0x01, 0x7f, 0x80, 0xff, 0xa5} {
			add(x << (8 * j))    // one byte set
			add(^(x << (8 * j))) // all others set
			add(0x0102030405060708 ^ x<<(8*j))
		}
	}
	add(0x0102030405060708)
	add(0x0807060504030201)
	add(0xf1e2d3c4b5a69788)
	add(0x8070605040302010)
	out := make([]uint64, 0, len(set))
	for v := range set {
		out = append(out, v)
	}
	sort.Slice(out, func(i, j int) bool { return out[i] < out[j] })
	return out
}

// floatEdges32 / floatEdges64: zeros, subnormals, extremes, infinities and every NaN payload
// class (each single payload bit, quiet and signalling, both signs, all-ones payload).
func floatEdges32() []uint64 {
	v := []uint64{0, 0x80000000, 1, 0x80000001, 0x007fffff, 0x00800000, 0x7f7fffff, 0xff7fffff, 0x7f800000, 0xff800000,
		0x7fc00000, 0xffc00000, 0x7fffffff, 0xffffffff, 0x3f800000, 0xbf800000, 0x7fbfffff, 0xffbfffff}
	for _, sign := range []uint64{0, 0x80000000} {
		for k := uint(0); k < 23; k++ {
			v = append(v, sign|0x7f800000|1<<k, sign|0x7fc00000|1<<k)
		}
	}
	return v
}

func floatEdges64() []uint64 {
	v := []uint64{0, 1 << 63, 1, 1<<63 | 1, 0x000fffffffffffff, 0x0010000000000000, 0x7fefffffffffffff, 0xffefffffffffffff,
		0x7ff0000000000000, 0xfff0000000000000, 0x7ff8000000000000, 0xfff8000000000000, 0x7fffffffffffffff, 0xffffffffffffffff,
		0x3ff0000000000000, 0xbff0000000000000, 0x7ff7ffffffffffff, 0xfff7ffffffffffff}
	for _, sign := range []uint64{0, 1 << 63} {
		for k := uint(0); k < 52; k++ {
			v = append(v, sign|0x7ff0000000000000|1<<k, sign|0x7ff8000000000000|1<<k)
		}
	}
	return v
}

func chunks(v []uint64, fn func([]uint64)) {
	for len(v) > 0 {
		n := len(v)
		if n > batchN {
			n = batchN
		}
		fn(v[:n])
		v = v[n:]
	}
}

// shardRange splits [0,total) into NShards contiguous ranges.
func shardRange(c *vlib.Ctx, total uint64) (lo, hi uint64) {
	n, s := uint64(c.NShards), uint64(c.Shard)
	lo, hi = total/n*s, total/n*(s+1)
	if s == n-1 {
		hi = total
	}
	return lo, hi
}

// heapMark records the heap address space mapped so far (the child runs under an
// address-space limit; see config.json).
func heapMark(c *vlib.Ctx, where string) {
	var m runtime.MemStats
	runtime.ReadMemStats(&m)
	c.Max("max_heap_sys_mb", int64(m.HeapSys>>20))
	c.Max("max_heap_sys_mb_after_"+where, int64(m.HeapSys>>20))
}

func main() {
	c := vlib.Start("C01")
	h := &harness{c: c, rp: &reporter{n: map[string]int{}}, allocs: []metrics.Sample{{Name: "/gc/heap/allocs:bytes"}}}
	debug.SetGCPercent(-1)
	debug.SetMemoryLimit(1 << 30) // backstop only: the collector comes back on if the budgeted GC is not enough
	for _, w := range []int{1, 2, 3, 4, 5, 8} {
		h.b[w] = newBatch(h, w)
	}

	// ---------------------------------------------------------------- (a) single values --
	c.Section("sweep8", false, func() {
		pats := make([]uint64, 256)
		for i := range pats {
			pats[i] = uint64(i)
		}
		h.sweep8(pats)
		// bool: both values through the stream and the static helpers.
		for _, v := range []bool{false, true} {
			want := refcodec.NewW().Bool(v).B
			out := gio.NewDataOutputX().WriteBool(v)
			if !bytes.Equal(out.ToByteArray(), want) || out.Size() != 1 {
				c.Fail("DataOutputX.WriteBool:bytes-differ", fmt.Sprintf("WriteBool(%v) emitted %x (Size %d), reference %x", v, out.ToByteArray(), out.Size(), want), nil)
			}
			if !bytes.Equal(gio.ToBytesBool(v), want) {
				c.Fail("ToBytesBool:bytes-differ", fmt.Sprintf("ToBytesBool(%v)=%x, reference %x", v, gio.ToBytesBool(v), want), nil)
			}
			buf := []byte{0xA5, 0xA5, 0xA5}
			if got := gio.SetBytesBool(buf, 1, v); !bytes.Equal(got, []byte{0xA5, want[0], 0xA5}) {
				c.Fail("SetBytesBool:bytes-differ", fmt.Sprintf("SetBytesBool(buf,1,%v) left %x", v, got), nil)
			}
			in := gio.NewDataInputX(append(append([]byte{}, want...), canary...))
			if g := in.ReadBool(); g != v || in.Available() != 3 {
				c.Fail("DataInputX.ReadBool:value-differs", fmt.Sprintf("ReadBool on %x returned %v, Available()=%d", want, g, in.Available()), nil)
			}
			if gio.ToBool(want, 0) != v {
				c.Fail("ToBool:value-differs", fmt.Sprintf("ToBool(%x)=%v", want, !v), nil)
			}
			c.SetAdd("functions_swept", "DataOutputX.WriteBool")
			c.SetAdd("functions_swept", "DataInputX.ReadBool")
		}
		// result ownership of ToBytesBool: results are held over later calls, then written over
		// by the caller; neither the other held results nor later results may change.
		t1, f1, t2, f2 := gio.ToBytesBool(true), gio.ToBytesBool(false), gio.ToBytesBool(true), gio.ToBytesBool(false)
		okBool := func() bool {
			t3, f3 := gio.ToBytesBool(true), gio.ToBytesBool(false)
			return len(t2) == 1 && len(f2) == 1 && len(t3) == 1 && len(f3) == 1 && t2[0] == 1 && f2[0] == 0 && t3[0] == 1 && f3[0] == 0
		}
		if !okBool() || len(t1) != 1 || len(f1) != 1 || t1[0] != 1 || f1[0] != 0 {
			c.Fail("ToBytesBool:result-altered-later", fmt.Sprintf("results of ToBytesBool held over later calls changed: true→%x %x, false→%x %x", t1, t2, f1, f2), nil)
		} else {
			t1[0], f1[0] = 0xEE, 0xEE
			if !okBool() {
				c.Fail("ToBytesBool:result-altered-later", fmt.Sprintf("after the caller wrote over earlier results of ToBytesBool, other results read true→%x (now %x), false→%x (now %x)", t2, gio.ToBytesBool(true), f2, gio.ToBytesBool(false)), nil)
			}
		}
		h.own.helperHeld += 4
		h.own.helperScribbles += 2
		c.Eval(256 + 2)
		c.DistinctEnum(256 + 2)
		c.Exhaustive("all 2^8 byte values through WriteByte/ReadByte; both booleans")
	})

	c.Section("sweep16", false, func() {
		pats := make([]uint64, 1<<16)
		for i := range pats {
			pats[i] = uint64(i)
		}
		chunks(pats, h.sweep16)
		c.Eval(1 << 16)
		c.DistinctEnum(1 << 16)
		c.Exhaustive("all 2^16 patterns through WriteShort/WriteUShort/ReadShort/ReadUShort/ReadUnsignedShort, the 16-bit static helpers and the little-endian 16-bit readers")
	})

	c.Section("sweep24", true, func() {
		lo, hi := shardRange(c, 1<<24)
		pats := make([]uint64, 0, batchN)
		for u := lo; u < hi; {
			pats = pats[:0]
			for ; u < hi && len(pats) < batchN; u++ {
				pats = append(pats, u)
			}
			h.sweep24(pats)
		}
		c.Eval(int64(hi - lo))
		c.DistinctEnum(int64(hi - lo))
		if c.Shard == 0 {
			c.Exhaustive("all 2^24 patterns through WriteInt3/ReadInt3/ToInt3/ToBytesInt3/SetBytesInt3 (sign extension included)")
		}
	})

	c.Section("sweep32", true, func() {
		pats := make([]uint64, 0, batchN)
		var n int64
		if c.Thorough() {
			lo, hi := shardRange(c, 1<<32)
			for u := lo; u < hi; {
				pats = pats[:0]
				for ; u < hi && len(pats) < batchN; u++ {
					pats = append(pats, u)
				}
				h.sweep32(pats)
			}
			n = int64(hi - lo)
			if c.Shard == 0 {
				c.Exhaustive("all 2^32 patterns through WriteInt/ReadInt/ReadUnsignedInt/WriteFloat/ReadFloat, the 32-bit static helpers and the little-endian 32-bit readers")
			}
		} else {
			// stratified sample: one seed-determined point in each of 2^26 strata of 64
			// consecutive patterns (so every value of the upper 26 bits occurs).
			lo, hi := shardRange(c, 1<<26)
			for j := lo; j < hi; {
				pats = pats[:0]
				for ; j < hi && len(pats) < batchN; j++ {
					pats = append(pats, j<<6|vlib.Mix(c.Seed*0x9e3779b97f4a7c15^j)&0x3f)
				}
				h.sweep32(pats)
			}
			n = int64(hi - lo)
		}
		// edges are always included (owner: shard 0).
		if c.Shard == 0 {
			e := append(edges(32), floatEdges32()...)
			chunks(e, h.sweep32)
			n += int64(len(e))
			c.Count("edge_values_32", int64(len(e)))
		}
		c.Eval(n)
		c.DistinctEnum(n)
	})

	heapMark(c, "sweep32")
	c.Section("edges64", false, func() {
		e := append(edges(64), floatEdges64()...)
		chunks(e, h.sweep64)
		e40 := edges(40)
		chunks(e40, h.sweep40)
		// decimals: every edge as a value, plus the same list negated.
		vals := make([]int64, 0, 2*len(e))
		for _, p := range e {
			vals = append(vals, int64(p), -int64(p))
		}
		h.decimalSweep(vals)
		c.Count("edge_values_64", int64(len(e)))
		c.Count("edge_values_40", int64(len(e40)))
		c.Eval(int64(len(e) + len(e40) + len(vals)))
		c.DistinctEnum(int64(len(e) + len(e40)))
	})

	c.Section("decimal-boundaries", false, func() {
		// every value within ±2 of each of the twelve class boundaries (and of 0 and the two
		// extremes) must use exactly the shortest form.
		var vals []int64
		seen := map[int64]bool{}
		// decBoundaries holds the last value of each class on both sides of zero; the first
		// value of the next class is one further out, so ±3 around each covers ±2 around both.
		for _, bd := range decBoundaries {
			for d := int64(-3); d <= 3; d++ {
				if v := addSat(bd, d); !seen[v] {
					seen[v] = true
					vals = append(vals, v)
				}
			}
		}
		sort.Slice(vals, func(i, j int) bool { return vals[i] < vals[j] })
		// each value alone in its own stream (so a failure names one value) …
		for _, v := range vals {
			h.decimalSweep([]int64{v})
			out := gio.NewDataOutputX().WriteDecimal(v)
			if got, want := len(out.ToByteArray()), 1+minimalDecLen(v); got != want {
				if h.rp.first("DataOutputX.WriteDecimal:not-shortest") {
					c.Fail("DataOutputX.WriteDecimal:not-shortest", fmt.Sprintf("WriteDecimal(%d) produced %d bytes, the shortest form has %d", v, got, want), map[string]interface{}{"value": v})
				}
			}
			c.SetAdd("decimal_boundary_values", fmt.Sprint(v))
		}
		// … and all together in one stream.
		h.decimalSweep(vals)
		c.Count("decimal_boundary_values", int64(len(vals)))
		c.Eval(int64(2 * len(vals)))
		c.DistinctEnum(int64(len(vals)))
		c.Exhaustive("every value within ±2 of the twelve decimal class boundaries, of 0 and of the int64 extremes")
	})

	const rchunk = 1 << 13
	c.Cases("random64", c.N(2<<20, 128<<20)/rchunk, func(i int, r *vlib.Rand) {
		p64 := make([]uint64, rchunk)
		p40 := make([]uint64, rchunk)
		dec := make([]int64, rchunk)
		for j := range p64 {
			switch r.Intn(3) {
			case 0:
				p64[j] = uint64(r.I64())
			case 1:
				p64[j] = f64bits(r.F64())
			default:
				p64[j] = r.U64()
			}
			if r.Bool() {
				p40[j] = uint64(r.I64()) & (1<<40 - 1)
			} else {
				p40[j] = r.U64() & (1<<40 - 1)
			}
			dec[j] = drawDecimal(r)
		}
		h.sweep64(p64)
		h.sweep40(p40)
		h.decimalSweep(dec)
		c.Distinct(vlib.Mix(p64[0] ^ p40[1] ^ uint64(dec[2])))
		c.Eval(3*rchunk - 1)
	})

	heapMark(c, "random64")
	// ---------------------------------------------------------------- length thresholds --
	lengths := []int{}
	for l := 0; l <= 300; l++ {
		lengths = append(lengths, l)
	}
	lengths = append(lengths, 65534, 65535, 65536, 65537, 1<<20-1, 1<<20, 1<<20+1)
	type tk struct {
		k   kind
		rd  int
		max int
	}
	tkinds := []tk{{kBlob, 0, 1 << 30}, {kText, 0, 1 << 30}, {kShortBytes, 0, 65535}, {kTextShort, 0, 65535},
		{kIntBytes, 0, 1 << 30}, {kIntBytes, 1, 1 << 30}, {kIntBytes, 2, 1 << 30}, {kBytes, 0, 1 << 30}, {kWriteOff, 0, 1 << 30}}
	c.Cases("thresholds", len(lengths)*len(tkinds), func(i int, r *vlib.Rand) {
		l, k := lengths[i/len(tkinds)], tkinds[i%len(tkinds)]
		if l > k.max {
			return // the 16-bit length field cannot represent it: outside the property
		}
		payload := r.Bytes(l)
		if l > 0 {
			payload[0], payload[l-1] = 0xB1, 0xE9
		}
		o := op{k: k.k, rd: k.rd}
		switch k.k {
		case kText, kTextShort:
			if l%2 == 0 {
				o.s = r.AsciiN(l)
			} else {
				o.s = string(payload) // arbitrary bytes, invalid UTF-8 included
			}
		case kWriteOff:
			o.pre, o.pst = r.Range(0, 9), r.Range(0, 9)
			o.b = append(append(r.Bytes(o.pre), payload...), r.Bytes(o.pst)...)
		case kIntBytes:
			o.b = payload
			if k.rd == 2 {
				o.lim = r.Range(1, 100000)
			}
		default:
			o.b = payload
		}
		if l == 0 && r.Bool() {
			o.b = nil
		}
		if k.k == kWriteOff && o.b == nil {
			o.pre, o.pst = 0, 0
		}
		h.runProgram("thresholds", []op{o})
		res := h.runProgram("thresholds", []op{{k: kInt, i: 0x01020304}, o, {k: kLong, i: -0x0102030405060708}})
		c.SetAdd("threshold_ops", o.wname()+"/"+o.rname())
		if len(res.bytes) > 4 && (k.k == kBlob || k.k == kText) {
			form := 1
			if res.bytes[4] == 255 {
				form = 3
			} else if res.bytes[4] == 254 {
				form = 5
			}
			c.SetAdd("blob_prefix_forms", fmt.Sprintf("%d-byte prefix", form))
		}
		c.Count("threshold_cases", 1)
		c.Max("max_payload_len", int64(l))
		c.DistinctStr(fmt.Sprintf("thr/%d/%d/%d", k.k, k.rd, l))
		c.Eval(1)
	})

	heapMark(c, "thresholds")
	c.Section("nil-empty", false, func() {
		pairs := [][2]op{
			{{k: kBlob}, {k: kBlob, b: []byte{}}},
			{{k: kShortBytes}, {k: kShortBytes, b: []byte{}}},
			{{k: kIntBytes}, {k: kIntBytes, b: []byte{}}},
			{{k: kIntBytes, rd: 1}, {k: kIntBytes, rd: 1, b: []byte{}}},
			{{k: kBytes}, {k: kBytes, b: []byte{}}},
			{{k: kShortArr}, {k: kShortArr, i16: []int16{}}},
			{{k: kIntArr}, {k: kIntArr, i32: []int32{}}},
			{{k: kLongArr}, {k: kLongArr, i64: []int64{}}},
			{{k: kFloatArr}, {k: kFloatArr, f32: []float32{}}},
			{{k: kDoubleArr}, {k: kDoubleArr, f64: []float64{}}},
			{{k: kTextArr}, {k: kTextArr, ss: []string{}}},
			{{k: kDecArr}, {k: kDecArr, i64: []int64{}}},
		}
		for _, p := range pairs {
			for _, wrap := range []bool{false, true} {
				mk := func(o op) []op {
					if wrap {
						return []op{{k: kShort, i: -2}, o, {k: kDouble, i: 0x400921fb54442d18}}
					}
					return []op{o}
				}
				a := h.runProgram("nil-empty", mk(p[0]))
				b := h.runProgram("nil-empty", mk(p[1]))
				if !bytes.Equal(a.bytes, b.bytes) {
					key := "nil-vs-empty:bytes-differ@" + p[0].wname()
					c.Fail(key, fmt.Sprintf("%s(nil) emitted %x but %s(empty) emitted %x", p[0].wname(), a.bytes, p[0].wname(), b.bytes), nil)
				}
				c.Count("nil_empty_pairs", 1)
				c.Eval(2)
			}
		}
		c.DistinctEnum(int64(2 * len(pairs)))
	})

	// ---------------------------------------------------------------- array lengths -------
	var alens []int
	if c.Thorough() {
		for l := 0; l <= 32767; l++ {
			alens = append(alens, l)
		}
	} else {
		set := map[int]bool{}
		for l := 0; l <= 40; l++ {
			set[l] = true
		}
		for _, l := range []int{126, 127, 128, 129, 130, 253, 254, 255, 256, 257, 258, 1023, 1024, 1025, 16383, 16384, 16385, 32765, 32766, 32767} {
			set[l] = true
		}
		for l := 0; l <= 32767; l += 331 {
			set[l] = true
		}
		for l := range set {
			alens = append(alens, l)
		}
		sort.Ints(alens)
	}
	akinds := []kind{kShortArr, kIntArr, kLongArr, kFloatArr, kDoubleArr, kTextArr}
	c.Cases("arrays", len(alens)*len(akinds), func(i int, r *vlib.Rand) {
		l, k := alens[i/len(akinds)], akinds[i%len(akinds)]
		o := op{k: k}
		nilArr := l == 0 && r.Bool()
		switch k {
		case kShortArr:
			if !nilArr {
				o.i16 = make([]int16, l)
			}
			for j := range o.i16 {
				o.i16[j] = r.I16()
			}
		case kIntArr:
			if !nilArr {
				o.i32 = make([]int32, l)
			}
			for j := range o.i32 {
				o.i32[j] = r.I32()
			}
		case kLongArr:
			if !nilArr {
				o.i64 = make([]int64, l)
			}
			for j := range o.i64 {
				o.i64[j] = r.I64()
			}
		case kFloatArr:
			if !nilArr {
				o.f32 = make([]float32, l)
			}
			for j := range o.f32 {
				o.f32[j] = r.F32()
			}
		case kDoubleArr:
			if !nilArr {
				o.f64 = make([]float64, l)
			}
			for j := range o.f64 {
				o.f64[j] = r.F64()
			}
		case kTextArr:
			if !nilArr {
				o.ss = make([]string, l)
			}
			for j := range o.ss {
				o.ss[j] = r.Str(24)
			}
		}
		h.runProgram("arrays", []op{{k: kByte, i: 0x5a}, o, {k: kInt, i: -0x01020304}})
		c.SetAdd("array_ops", o.wname())
		c.Count("array_cases", 1)
		c.Count("array_elements", int64(l))
		c.Max("max_array_len", int64(l))
		c.DistinctStr(fmt.Sprintf("arr/%d/%d", k, l))
	})
	heapMark(c, "arrays")
	if c.Thorough() && c.Shard == 0 {
		c.Exhaustive("every array length 0..32767 for each of the six typed arrays")
	}

	// ---------------------------------------------------------------- (b) programs --------
	c.Cases("programs", c.N(20000, 400000), func(i int, r *vlib.Rand) {
		n := r.Range(1, 64)
		big := 1
		ops := make([]op, n)
		for j := range ops {
			ops[j] = genOp(r, &big)
		}
		res := h.runProgram("programs", ops)
		for j := range ops {
			c.SetAdd("ops_covered", ops[j].wname()+"→"+ops[j].rname())
			if ops[j].k == kDecimal {
				c.SetAdd("decimal_classes_in_programs", fmt.Sprint(refcodec.DecimalClass(ops[j].i)))
			}
		}
		c.Count("random_programs", 1)
		c.Count("random_program_ops", int64(n))
		c.Max("max_program_bytes", int64(len(res.bytes)))
		c.DistinctBytes(res.bytes)
		if i < 64 && n <= 6 && c.WantSample() {
			c.Sample(map[string]interface{}{"ops": describeAll(ops), "bytes": vlib.Hex(res.bytes), "reference_len": res.refLen})
		}
	})

	// ------------------------------------------------ (b') programs dense in held values ------
	// The same executor and oracle as (b) on programs made mostly of the reads that hand out
	// slices (byte strings of every encoding at the lengths 0..10 and around 16/32/64/128/253..256,
	// the seven typed arrays, texts), so that many values of every size class are held across
	// many later reads of the same and of other kinds (see own.go).
	c.Cases("ownership", c.N(8000, 160000), func(i int, r *vlib.Rand) {
		ops := genOwnProgram(r)
		res := h.runProgram("ownership", ops)
		for j := range ops {
			c.SetAdd("ops_covered", ops[j].wname()+"→"+ops[j].rname())
		}
		c.Count("ownership_programs", 1)
		c.Count("ownership_program_ops", int64(len(ops)))
		c.DistinctBytes(res.bytes)
		if i < 64 && len(ops) <= 5 && c.WantSample() {
			c.Sample(map[string]interface{}{"section": "ownership", "ops": describeAll(ops), "bytes": vlib.Hex(res.bytes)})
		}
	})

	// ------------------------------------------------ (c) programs, many streams at once -----
	// Independent streams in different goroutines must not influence each other (a header
	// template or scratch buffer shared between streams would only show here). Same oracle as
	// (b); every parallel case has its own harness state.
	c.ParallelCases("programs-parallel", c.N(8*16*4, 8*16*40), 8, func(i int, r *vlib.Rand) {
		hp := &harness{c: c, rp: &reporter{n: map[string]int{}}} // allocs == nil: no GC ticks from here
		for k := 0; k < 40; k++ {
			n := r.Range(1, 24)
			big := 1
			ops := make([]op, n)
			for j := range ops {
				ops[j] = genOp(r, &big)
				// make the 2- and 4-byte length forms of blobs and texts common
				if ops[j].k == kBlob && r.Bool() {
					ops[j].b = r.Bytes([]int{254, 255, 256, 300, 400, 65535, 65536}[r.Intn(7)])
				}
				if ops[j].k == kText && r.Bool() {
					ops[j].s = r.AsciiN([]int{254, 255, 256, 300, 400, 65535, 65536}[r.Intn(7)])
				}
			}
			hp.runProgram("programs-parallel", ops)
			// … and one dense in held values (b'), so that values are held while the other
			// goroutines read.
			hp.runProgram("programs-parallel", genOwnProgram(r))
		}
		held := hp.own.held
		hp.flushOwn()
		c.Count("parallel_programs", 80)
		c.Count("parallel_held_values", held)
		c.Eval(79)
		c.DistinctEnum(1)
	})

	heapMark(c, "programs")
	// ---------------------------------------------------------------- evidence ------------
	t := &h.t
	for w, name := range map[int]string{0: "values_decimal", 1: "values_8bit", 2: "values_16bit", 3: "values_24bit", 4: "values_32bit", 5: "values_40bit", 8: "values_64bit"} {
		c.Count(name, t.values[w])
	}
	for n, cnt := range t.decClass {
		if cnt > 0 {
			c.Count(fmt.Sprintf("decimals_of_%d_payload_bytes", n), cnt)
		}
	}
	c.Count("size_checks", t.sizeChecks)
	c.Count("available_checks", t.availChecks)
	c.Count("reads_checked", t.readsChecked)
	c.Count("writes_checked", t.writesChecked)
	c.Count("bytes_compared_with_reference", t.bytesCompared)
	c.Count("programs_executed", t.programs)
	c.Count("program_ops", t.programOps)
	c.Count("programs_not_read_back_because_bytes_differ", t.notReadBack)
	for k, n := range h.rp.n {
		c.Count("mismatches/"+k, int64(n))
	}
	h.flushOwn()

	ns := int64(c.NShards)
	c.Floor("random_programs", int64(c.N(20000, 400000))/10/ns, c.Counter("random_programs"))
	c.Floor("random_program_ops", int64(c.N(20000, 400000))*3/ns, c.Counter("random_program_ops"))
	c.Floor("values_24bit", (1<<24)/10/ns, c.Counter("values_24bit"))
	c.Floor("values_32bit", int64(c.N(1<<26, 1<<32))/10/ns, c.Counter("values_32bit"))
	c.Floor("values_16bit", (1<<16)/10/ns, c.Counter("values_16bit"))
	c.Floor("values_64bit", int64(c.N(2<<20, 128<<20))/10/ns, c.Counter("values_64bit"))
	c.Floor("values_decimal", int64(c.N(2<<20, 128<<20))/10/ns, c.Counter("values_decimal"))
	c.Floor("threshold_cases", int64(len(lengths)*len(tkinds))/10/ns, c.Counter("threshold_cases"))
	c.Floor("array_cases", int64(len(alens)*len(akinds))/10/ns, c.Counter("array_cases"))
	// result ownership: what the monitor held and how often it looked again.
	nOwn := int64(c.N(8000, 160000))
	c.Floor("ownership_programs", nOwn/10/ns, c.Counter("ownership_programs"))
	c.Floor("own_held_values", nOwn*30/ns, c.Counter("own_held_values"))
	c.Floor("own_held_reverifications", nOwn*1500/ns, c.Counter("own_held_reverifications"))
	c.Floor("own_scribbles_over_returned_slices", nOwn*10/ns, c.Counter("own_scribbles_over_returned_slices"))
	c.Floor("own_reads_on_other_inputs_with_values_held", nOwn*1000/ns, c.Counter("own_reads_on_other_inputs_with_values_held"))
	c.Floor("own_input_buffer_checks", nOwn*80/ns, c.Counter("own_input_buffer_checks"))
	c.Floor("own_ToByteArray_snapshot_reverifications", nOwn*40/ns, c.Counter("own_ToByteArray_snapshot_reverifications"))
	c.Floor("own_ToByteArray_held_over_header_reuse", nOwn/ns, c.Counter("own_ToByteArray_held_over_header_reuse"))
	c.Floor("own_writer_arguments_overwritten_after_the_write", nOwn*4/ns, c.Counter("own_writer_arguments_overwritten_after_the_write"))
	c.Floor("own_helper_results_held", (1<<23)/ns, c.Counter("own_helper_results_held"))
	c.Floor("parallel_held_values", int64(c.N(8*16*4, 8*16*40))*200/ns, c.Counter("parallel_held_values"))
	for _, l := range []string{"0", "1", "7", "8", "9"} {
		c.Floor("own_held_byte_strings_of_len_"+l, nOwn/2/ns, c.Counter("own_held_byte_strings_of_len_"+l))
	}
	c.Finish()
}

// ownLens: the lengths (bytes or elements) of the values the ownership programs hold; the
// first eleven are drawn as often as all the others together.
var ownLens = []int{0, 1, 2, 3, 4, 5, 6, 7, 8, 9, 10, 15, 16, 17, 31, 32, 33, 63, 64, 65, 127, 128, 129, 253, 254, 255, 256, 300}

func drawOwnLen(r *vlib.Rand) int {
	if r.Bool() {
		return ownLens[r.Intn(11)]
	}
	return ownLens[r.Intn(len(ownLens))]
}

// genOwnProgram: 2..32 ops, three of four handing out a slice or a string when read.
func genOwnProgram(r *vlib.Rand) []op {
	ops := make([]op, r.Range(2, 32))
	for j := range ops {
		ops[j] = genOwnOp(r)
	}
	return ops
}

func genOwnOp(r *vlib.Rand) op {
	if r.Intn(4) == 0 {
		big := 0
		return genOp(r, &big)
	}
	l := drawOwnLen(r)
	nilv := l == 0 && r.Bool()
	o := op{}
	switch r.Intn(20) {
	case 0, 1, 2:
		o.k = kBlob
	case 3, 4:
		o.k = kShortBytes
	case 5, 6, 7:
		o.k, o.rd = kIntBytes, r.Intn(3)
		if o.rd == 2 {
			o.lim = r.Range(1, 1000)
		}
	case 8, 9:
		o.k = kBytes
	case 10:
		o.k, o.pre, o.pst = kWriteOff, r.Range(0, 5), r.Range(0, 5)
		o.b = append(append(r.Bytes(o.pre), r.Bytes(l)...), r.Bytes(o.pst)...)
		return o
	case 11:
		o.k, o.s = kText, r.AsciiN(l)
		return o
	case 12:
		o.k, o.s = kTextShort, r.AsciiN(l)
		return o
	case 13:
		o.k = kShortArr
		if !nilv {
			o.i16 = make([]int16, l)
		}
		for i := range o.i16 {
			o.i16[i] = r.I16()
		}
		return o
	case 14:
		o.k = kIntArr
		if !nilv {
			o.i32 = make([]int32, l)
		}
		for i := range o.i32 {
			o.i32[i] = r.I32()
		}
		return o
	case 15:
		o.k = kLongArr
		if !nilv {
			o.i64 = make([]int64, l)
		}
		for i := range o.i64 {
			o.i64[i] = r.I64()
		}
		return o
	case 16:
		o.k = kFloatArr
		if !nilv {
			o.f32 = make([]float32, l)
		}
		for i := range o.f32 {
			o.f32[i] = r.F32()
		}
		return o
	case 17:
		o.k = kDoubleArr
		if !nilv {
			o.f64 = make([]float64, l)
		}
		for i := range o.f64 {
			o.f64[i] = r.F64()
		}
		return o
	case 18:
		o.k = kTextArr
		if !nilv {
			o.ss = make([]string, l%48)
		}
		for i := range o.ss {
			o.ss[i] = r.Str(12)
		}
		return o
	default:
		if r.Bool() {
			o.k, o.i64 = kDecArr, make([]int64, l%40)
			for i := range o.i64 {
				o.i64[i] = drawDecimal(r)
			}
		} else {
			o.k, o.i32 = kDecArrInt, make([]int32, l%40)
			for i := range o.i32 {
				o.i32[i] = r.I32()
			}
		}
		return o
	}
	if !nilv {
		o.b = r.Bytes(l)
	}
	return o
}
