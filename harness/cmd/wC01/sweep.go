package main

// Single-value sweeps over fixed-width fields: a batch of bit patterns is encoded by the
// reference writer (big-endian image) and byte-reversed per field (little-endian image);
// golib's writers must reproduce the big-endian image, its readers must return the
// pattern's value from the matching image.

import (
	"bytes"
	"fmt"

	gio "github.com/whatap/golib/io"

	"verif/refcodec"
	"verif/vlib"
)

type batch struct {
	h     *harness
	width int
	pats  []uint64
	n     int    // bytes of the image without the canary
	be    []byte // reference big-endian image + canary
	le    []byte // per-field byte-reversed image + canary
	w     *refcodec.W
}

func newBatch(h *harness, width int) *batch {
	return &batch{h: h, width: width, w: refcodec.NewW()}
}

// sext is the value a signed reader must return for a width-byte pattern.
func (b *batch) sext(p uint64) int64 {
	sh := uint(64 - 8*b.width)
	return int64(p<<sh) >> sh
}

func (b *batch) hex(p uint64) string { return fmt.Sprintf("0x%0*x", 2*b.width, p) }

func (b *batch) load(pats []uint64) {
	b.h.gcTick()
	b.pats = pats
	w := b.w
	w.B = w.B[:0]
	for _, p := range pats {
		switch b.width {
		case 1:
			w.U8(byte(p))
		case 2:
			w.U16(uint16(p))
		case 3:
			w.I24(int32(b.sext(p)))
		case 4:
			w.I32(int32(uint32(p)))
		case 5:
			w.I40(b.sext(p))
		case 8:
			w.I64(int64(p))
		}
	}
	b.n = len(w.B)
	if b.n != len(pats)*b.width {
		panic("harness: reference image has the wrong size")
	}
	b.be = append(append(b.be[:0], w.B...), canary...)
	b.le = b.le[:0]
	for i := 0; i < b.n; i += b.width {
		for j := b.width - 1; j >= 0; j-- {
			b.le = append(b.le, w.B[i+j])
		}
	}
	b.le = append(b.le, canary...)
	b.h.t.values[b.width] += int64(len(pats))
}

func (b *batch) detail(i int, extra map[string]interface{}) map[string]interface{} {
	m := map[string]interface{}{"pattern": b.hex(b.pats[i]), "index_in_batch": i,
		"big_endian_image":    fmt.Sprintf("%x", b.be[i*b.width:(i+1)*b.width]),
		"little_endian_image": fmt.Sprintf("%x", b.le[i*b.width:(i+1)*b.width])}
	for k, v := range extra {
		m[k] = v
	}
	return m
}

// write: a DataOutputX writer applied to every pattern must produce the reference image and
// keep Size() in step.
func (b *batch) write(name string, f func(out *gio.DataOutputX, p uint64)) {
	h := b.h
	out := gio.NewDataOutputX()
	prevSz := out.Size() // 0 on a fresh stream is checked by the program executor
	for i, p := range b.pats {
		f(out, p)
		sz := out.Size()
		if sz-prevSz != b.width {
			if key := "Size:wrong@" + name; h.rp.first(key) {
				h.c.Fail(key, fmt.Sprintf("Size() advanced by %d (to %d) over call %d of %s (%d bytes each)", sz-prevSz, sz, i+1, name, b.width), b.detail(i, nil))
			}
		}
		prevSz = sz
	}
	h.t.sizeChecks += int64(len(b.pats))
	h.t.writesChecked += int64(len(b.pats))
	h.t.bytesCompared += int64(b.n)
	h.c.SetAdd("functions_swept", "DataOutputX."+name)
	got := out.ToByteArray()
	if bytes.Equal(got, b.be[:b.n]) {
		return
	}
	key := "DataOutputX." + name + ":bytes-differ"
	if len(got) != b.n {
		if h.rp.first(key) {
			h.c.Fail(key, fmt.Sprintf("%d calls of %s produced %d bytes, expected %d", len(b.pats), name, len(got), b.n), nil)
		}
		return
	}
	for i := range b.pats {
		g, r := got[i*b.width:(i+1)*b.width], b.be[i*b.width:(i+1)*b.width]
		if !bytes.Equal(g, r) && h.rp.first(key) {
			h.c.Fail(key, fmt.Sprintf("%s(%s) emitted %x, the reference big-endian encoding is %x", name, b.hex(b.pats[i]), g, r),
				b.detail(i, map[string]interface{}{"golib": fmt.Sprintf("%x", g)}))
		}
	}
}

// read: a DataInputX reader applied to the image must return (got) the value the pattern
// stands for (want), advance Available() by the width, and leave the canary.
func (b *batch) read(name string, little bool, f func(in *gio.DataInputX, p uint64) (got, want int64)) {
	h := b.h
	img := b.be
	key := "DataInputX." + name + ":value-differs"
	if little {
		img = b.le
		key = name + ":not-little-endian"
	}
	in := gio.NewDataInputX(img)
	h.c.SetAdd("functions_swept", "DataInputX."+name)
	for i, p := range b.pats {
		got, want := f(in, p)
		if got != want && h.rp.first(key) {
			h.c.Fail(key, fmt.Sprintf("%s on %x returned %d (0x%x), the %s value of these bytes is %d (0x%x)", name,
				img[i*b.width:(i+1)*b.width], got, uint64(got), endian(little), want, uint64(want)), b.detail(i, nil))
		}
		if av, exp := in.Available(), int32(len(img)-(i+1)*b.width); av != exp {
			if k := "Available:wrong@" + name; h.rp.first(k) {
				h.c.Fail(k, fmt.Sprintf("Available()=%d after %d calls of %s on %d bytes (expected %d)", av, i+1, name, len(img), exp), b.detail(i, nil))
			}
			return
		}
	}
	h.t.readsChecked += int64(len(b.pats))
	h.t.availChecks += int64(len(b.pats))
	tail := in.ReadBytes(3)
	if !bytes.Equal(tail, canary) || in.Available() != 0 {
		if k := "DataInputX." + name + ":canary-consumed"; h.rp.first(k) {
			h.c.Fail(k, fmt.Sprintf("after %d calls of %s the three canary bytes are not what remains (got %x)", len(b.pats), name, tail), nil)
		}
	}
}

func endian(little bool) string {
	if little {
		return "little-endian"
	}
	return "big-endian"
}

// static: a To*(buf,pos) helper applied at every field offset of the image.
func (b *batch) static(name string, little bool, f func(img []byte, pos int, p uint64) (got, want int64)) {
	h := b.h
	img := b.be
	key := name + ":value-differs"
	if little {
		img = b.le
		key = name + ":not-little-endian"
	}
	h.c.SetAdd("functions_swept", name)
	for i, p := range b.pats {
		got, want := f(img, i*b.width, p)
		if got != want && h.rp.first(key) {
			h.c.Fail(key, fmt.Sprintf("%s on %x returned %d (0x%x), the %s value of these bytes is %d (0x%x)", name,
				img[i*b.width:(i+1)*b.width], got, uint64(got), endian(little), want, uint64(want)), b.detail(i, map[string]interface{}{"pos": i * b.width}))
		}
	}
	h.t.readsChecked += int64(len(b.pats))
}

// toBytes: a ToBytes*(v) helper must return exactly the reference field.
func (b *batch) toBytes(name string, f func(p uint64) []byte) {
	h := b.h
	key := name + ":bytes-differ"
	h.c.SetAdd("functions_swept", name)
	var hh helperHold
	for i, p := range b.pats {
		g, r := f(p), b.be[i*b.width:(i+1)*b.width]
		if !bytes.Equal(g, r) && h.rp.first(key) {
			h.c.Fail(key, fmt.Sprintf("%s(%s) returned %x, the reference big-endian encoding is %x", name, b.hex(p), g, r), b.detail(i, nil))
		}
		b.helperOwn(name, &hh, i, g, r)
	}
	h.t.writesChecked += int64(len(b.pats))
}

// setBytes: a SetBytes*(buf,off,v) helper must put the reference field at off and touch
// nothing else.
func (b *batch) setBytes(name string, f func(buf []byte, off int, p uint64) []byte) {
	h := b.h
	key := name + ":bytes-differ"
	h.c.SetAdd("functions_swept", name)
	buf := make([]byte, b.width+7)
	exp := make([]byte, b.width+7)
	for i, p := range b.pats {
		off := i % 7
		for j := range buf {
			buf[j], exp[j] = 0xA5, 0xA5
		}
		copy(exp[off:], b.be[i*b.width:(i+1)*b.width])
		ret := f(buf, off, p)
		if (!bytes.Equal(buf, exp) || !bytes.Equal(ret, exp)) && h.rp.first(key) {
			h.c.Fail(key, fmt.Sprintf("%s(buf,%d,%s) left %x (returned %x), expected %x", name, off, b.hex(p), buf, ret, exp), b.detail(i, map[string]interface{}{"off": off}))
		}
	}
	h.t.writesChecked += int64(len(b.pats))
}

// ---- decimal -----------------------------------------------------------------------------

// minimalDecLen is a second, table-free statement of "the shortest of the 0/1/2/3/4/5/8-byte
// forms that holds the value": the first n for which truncating to n bytes and sign-extending
// gives the value back.
func minimalDecLen(v int64) int {
	if v == 0 {
		return 0
	}
	for _, n := range []int{1, 2, 3, 4, 5} {
		sh := uint(64 - 8*n)
		if v<<sh>>sh == v {
			return n
		}
	}
	return 8
}

// decimalSweep writes every value with WriteDecimal into one stream and reads it back with
// ReadDecimal and with ReadByte+ReadDecimalLen.
func (h *harness) decimalSweep(vals []int64) {
	h.gcTick()
	c, rp, t := h.c, h.rp, &h.t
	w := refcodec.NewW()
	out := gio.NewDataOutputX()
	gEnd := make([]int, len(vals))
	prev, prevRef, prevSz := 0, 0, 0
	for i, v := range vals {
		cls := refcodec.DecimalClass(v)
		if m := minimalDecLen(v); m != cls {
			c.Fail("harness:decimal-class-oracles-disagree", fmt.Sprintf("range table says %d bytes, truncation test says %d bytes for %d", cls, m, v), nil)
			return
		}
		w.Fields = w.Fields[:0]
		w.Decimal(v)
		out.WriteDecimal(v)
		got := out.ToByteArray()
		if sz := out.Size(); sz-prevSz != len(got)-prev {
			if rp.first("Size:wrong@WriteDecimal") {
				c.Fail("Size:wrong@WriteDecimal", fmt.Sprintf("WriteDecimal(%d) produced %d bytes but Size() advanced by %d (to %d)", v, len(got)-prev, sz-prevSz, sz), map[string]interface{}{"value": v})
			}
		}
		prevSz = out.Size()
		seg, ref := got[prev:], w.B[prevRef:]
		if len(ref) != 1+cls || int(ref[0]) != cls {
			panic("harness: reference decimal has the wrong shape")
		}
		if !bytes.Equal(seg, ref) {
			key := "DataOutputX.WriteDecimal:bytes-differ"
			what := fmt.Sprintf("WriteDecimal(%d) emitted %x, the reference encoder emits %x", v, seg, ref)
			if len(seg) > 0 && seg[0] > ref[0] {
				key = "DataOutputX.WriteDecimal:not-shortest"
				what = fmt.Sprintf("WriteDecimal(%d) used the %d-byte form (%x); the shortest form holding it has %d bytes (%x)", v, seg[0], seg, cls, ref)
			} else if len(seg) > 0 && seg[0] < ref[0] {
				key = "DataOutputX.WriteDecimal:class-too-short"
				what = fmt.Sprintf("WriteDecimal(%d) used the %d-byte form (%x), which cannot hold it; the shortest form holding it has %d bytes (%x)", v, seg[0], seg, cls, ref)
			}
			if rp.first(key) {
				c.Fail(key, what, map[string]interface{}{"value": v, "golib_hex": fmt.Sprintf("%x", seg), "reference_hex": fmt.Sprintf("%x", ref)})
			}
		}
		t.decClass[cls]++
		prev, prevRef = len(got), len(w.B)
		gEnd[i] = prev
	}
	t.sizeChecks += int64(len(vals))
	t.writesChecked += int64(len(vals))
	t.bytesCompared += int64(len(w.B))
	t.values[0] += int64(len(vals))
	img := append(append([]byte{}, out.ToByteArray()...), canary...)
	for pass := 0; pass < 2; pass++ {
		name := [...]string{"ReadDecimal", "ReadDecimalLen"}[pass]
		in := gio.NewDataInputX(img)
		ok := true
		for i, v := range vals {
			var g int64
			var av int32
			p := vlib.Catch(func() {
				if pass == 0 {
					g = in.ReadDecimal()
				} else {
					g = in.ReadDecimalLen(int(in.ReadByte()))
				}
				av = in.Available()
			})
			if p != nil {
				if k := "DataInputX." + name + ":panic"; rp.first(k) {
					c.Fail(k, fmt.Sprintf("%s panicked on the encoding of %d: %v", name, v, p), map[string]interface{}{"value": v})
				}
				ok = false
				break
			}
			if g != v {
				if k := "DataInputX." + name + ":value-differs"; rp.first(k) {
					c.Fail(k, fmt.Sprintf("%s returned %d for the encoding of %d", name, g, v), map[string]interface{}{"value": v, "got": g})
				}
			}
			if exp := int32(len(img) - gEnd[i]); av != exp {
				if k := "Available:wrong@" + name; rp.first(k) {
					c.Fail(k, fmt.Sprintf("Available()=%d after %s of %d (expected %d)", av, name, v, exp), map[string]interface{}{"value": v})
				}
				ok = false
				break
			}
		}
		t.readsChecked += int64(len(vals))
		t.availChecks += int64(len(vals))
		if ok {
			if tail := in.ReadBytes(3); !bytes.Equal(tail, canary) || in.Available() != 0 {
				if k := "DataInputX." + name + ":canary-consumed"; rp.first(k) {
					c.Fail(k, fmt.Sprintf("after reading every decimal back the canary is not what remains (got %x)", tail), nil)
				}
			}
		}
	}
}

// ---- the per-width function tables -------------------------------------------------------

func (h *harness) sweep8(pats []uint64) {
	b := h.b[1]
	b.load(pats)
	b.write("WriteByte", func(o *gio.DataOutputX, p uint64) { o.WriteByte(byte(p)) })
	b.read("ReadByte", false, func(in *gio.DataInputX, p uint64) (int64, int64) { return int64(in.ReadByte()), int64(p) })
	b.read("ReadDecimalLen(1)", false, func(in *gio.DataInputX, p uint64) (int64, int64) { return in.ReadDecimalLen(1), b.sext(p) })
}

func (h *harness) sweep16(pats []uint64) {
	b := h.b[2]
	b.load(pats)
	b.write("WriteShort", func(o *gio.DataOutputX, p uint64) { o.WriteShort(int16(p)) })
	b.write("WriteUShort", func(o *gio.DataOutputX, p uint64) { o.WriteUShort(uint16(p)) })
	b.read("ReadShort", false, func(in *gio.DataInputX, p uint64) (int64, int64) { return int64(in.ReadShort()), b.sext(p) })
	b.read("ReadUnsignedShort", false, func(in *gio.DataInputX, p uint64) (int64, int64) { return int64(in.ReadUnsignedShort()), int64(p) })
	b.read("ReadUShort", false, func(in *gio.DataInputX, p uint64) (int64, int64) { return int64(in.ReadUShort()), int64(p) })
	b.read("ReadDecimalLen(2)", false, func(in *gio.DataInputX, p uint64) (int64, int64) { return in.ReadDecimalLen(2), b.sext(p) })
	b.read("ReadShortLittle", true, func(in *gio.DataInputX, p uint64) (int64, int64) { return int64(in.ReadShortLittle()), b.sext(p) })
	b.read("ReadUnsignedShortLittle", true, func(in *gio.DataInputX, p uint64) (int64, int64) {
		return int64(in.ReadUnsignedShortLittle()), int64(p)
	})
	b.static("ToShort", false, func(img []byte, pos int, p uint64) (int64, int64) { return int64(gio.ToShort(img, pos)), b.sext(p) })
	b.static("ToUShort", false, func(img []byte, pos int, p uint64) (int64, int64) { return int64(gio.ToUShort(img, pos)), int64(p) })
	b.static("ToUshort", false, func(img []byte, pos int, p uint64) (int64, int64) { return int64(gio.ToUshort(img, pos)), int64(p) })
	b.static("ToShortLittle", true, func(img []byte, pos int, p uint64) (int64, int64) {
		return int64(gio.ToShortLittle(img, pos)), b.sext(p)
	})
	b.static("ToUshortLittle", true, func(img []byte, pos int, p uint64) (int64, int64) {
		return int64(gio.ToUshortLittle(img, pos)), int64(p)
	})
	b.toBytes("ToBytesShort", func(p uint64) []byte { return gio.ToBytesShort(int16(p)) })
	b.toBytes("ToBytesUShort", func(p uint64) []byte { return gio.ToBytesUShort(uint16(p)) })
	b.setBytes("SetBytesShort", func(buf []byte, off int, p uint64) []byte { return gio.SetBytesShort(buf, off, int16(p)) })
}

func (h *harness) sweep24(pats []uint64) {
	b := h.b[3]
	b.load(pats)
	b.write("WriteInt3", func(o *gio.DataOutputX, p uint64) { o.WriteInt3(int32(b.sext(p))) })
	b.read("ReadInt3", false, func(in *gio.DataInputX, p uint64) (int64, int64) { return int64(in.ReadInt3()), b.sext(p) })
	b.read("ReadDecimalLen(3)", false, func(in *gio.DataInputX, p uint64) (int64, int64) { return in.ReadDecimalLen(3), b.sext(p) })
	b.static("ToInt3", false, func(img []byte, pos int, p uint64) (int64, int64) { return int64(gio.ToInt3(img, pos)), b.sext(p) })
	b.toBytes("ToBytesInt3", func(p uint64) []byte { return gio.ToBytesInt3(int32(b.sext(p))) })
	b.setBytes("SetBytesInt3", func(buf []byte, off int, p uint64) []byte { return gio.SetBytesInt3(buf, off, int32(b.sext(p))) })
}

func (h *harness) sweep32(pats []uint64) {
	b := h.b[4]
	b.load(pats)
	f32 := func(p uint64) float32 { return f32frombits(uint32(p)) }
	b.write("WriteInt", func(o *gio.DataOutputX, p uint64) { o.WriteInt(int32(uint32(p))) })
	b.write("WriteFloat", func(o *gio.DataOutputX, p uint64) { o.WriteFloat(f32(p)) })
	b.read("ReadInt", false, func(in *gio.DataInputX, p uint64) (int64, int64) { return int64(in.ReadInt()), b.sext(p) })
	b.read("ReadUnsignedInt", false, func(in *gio.DataInputX, p uint64) (int64, int64) { return int64(in.ReadUnsignedInt()), int64(p) })
	b.read("ReadFloat", false, func(in *gio.DataInputX, p uint64) (int64, int64) { return int64(f32bits(in.ReadFloat())), int64(p) })
	b.read("ReadDecimalLen(4)", false, func(in *gio.DataInputX, p uint64) (int64, int64) { return in.ReadDecimalLen(4), b.sext(p) })
	b.read("ReadIntLittle", true, func(in *gio.DataInputX, p uint64) (int64, int64) { return int64(in.ReadIntLittle()), b.sext(p) })
	b.read("ReadUintLittle", true, func(in *gio.DataInputX, p uint64) (int64, int64) { return int64(in.ReadUintLittle()), int64(p) })
	b.static("ToInt", false, func(img []byte, pos int, p uint64) (int64, int64) { return int64(gio.ToInt(img, pos)), b.sext(p) })
	b.static("ToUint", false, func(img []byte, pos int, p uint64) (int64, int64) { return int64(gio.ToUint(img, pos)), int64(p) })
	b.static("ToFloat", false, func(img []byte, pos int, p uint64) (int64, int64) {
		return int64(f32bits(gio.ToFloat(img, pos))), int64(p)
	})
	b.static("ToIntLittle", true, func(img []byte, pos int, p uint64) (int64, int64) { return int64(gio.ToIntLittle(img, pos)), b.sext(p) })
	b.static("ToUintLittle", true, func(img []byte, pos int, p uint64) (int64, int64) { return int64(gio.ToUintLittle(img, pos)), int64(p) })
	b.toBytes("ToBytesInt", func(p uint64) []byte { return gio.ToBytesInt(int32(uint32(p))) })
	b.toBytes("ToBytesFloat", func(p uint64) []byte { return gio.ToBytesFloat(f32(p)) })
	b.setBytes("SetBytesInt", func(buf []byte, off int, p uint64) []byte { return gio.SetBytesInt(buf, off, int32(uint32(p))) })
	b.setBytes("SetBytesFloat", func(buf []byte, off int, p uint64) []byte { return gio.SetBytesFloat(buf, off, f32(p)) })
}

// sweep40 takes arbitrary 64-bit draws and uses their low 40 bits.
func (h *harness) sweep40(pats []uint64) {
	b := h.b[5]
	b.load(pats)
	b.write("WriteLong5", func(o *gio.DataOutputX, p uint64) { o.WriteLong5(b.sext(p)) })
	b.read("ReadLong5", false, func(in *gio.DataInputX, p uint64) (int64, int64) { return in.ReadLong5(), b.sext(p) })
	b.read("ReadDecimalLen(5)", false, func(in *gio.DataInputX, p uint64) (int64, int64) { return in.ReadDecimalLen(5), b.sext(p) })
	b.static("ToLong5", false, func(img []byte, pos int, p uint64) (int64, int64) { return gio.ToLong5(img, pos), b.sext(p) })
	b.toBytes("ToBytesLong5", func(p uint64) []byte { return gio.ToBytesLong5(b.sext(p)) })
	b.setBytes("SetBytesLong5", func(buf []byte, off int, p uint64) []byte { return gio.SetBytesLong5(buf, off, b.sext(p)) })
}

func (h *harness) sweep64(pats []uint64) {
	b := h.b[8]
	b.load(pats)
	b.write("WriteLong", func(o *gio.DataOutputX, p uint64) { o.WriteLong(int64(p)) })
	b.write("WriteDouble", func(o *gio.DataOutputX, p uint64) { o.WriteDouble(f64frombits(p)) })
	b.read("ReadLong", false, func(in *gio.DataInputX, p uint64) (int64, int64) { return in.ReadLong(), int64(p) })
	b.read("ReadDouble", false, func(in *gio.DataInputX, p uint64) (int64, int64) { return int64(f64bits(in.ReadDouble())), int64(p) })
	b.read("ReadDecimalLen(8)", false, func(in *gio.DataInputX, p uint64) (int64, int64) { return in.ReadDecimalLen(8), int64(p) })
	b.static("ToLong", false, func(img []byte, pos int, p uint64) (int64, int64) { return gio.ToLong(img, pos), int64(p) })
	b.static("ToDouble", false, func(img []byte, pos int, p uint64) (int64, int64) {
		return int64(f64bits(gio.ToDouble(img, pos))), int64(p)
	})
	b.static("ToLongLittle", true, func(img []byte, pos int, p uint64) (int64, int64) { return gio.ToLongLittle(img, pos), int64(p) })
	b.static("ToUlongLittle", true, func(img []byte, pos int, p uint64) (int64, int64) {
		return int64(gio.ToUlongLittle(img, pos)), int64(p)
	})
	b.toBytes("ToBytesLong", func(p uint64) []byte { return gio.ToBytesLong(int64(p)) })
	b.toBytes("ToBytesDouble", func(p uint64) []byte { return gio.ToBytesDouble(f64frombits(p)) })
	b.setBytes("SetBytesLong", func(buf []byte, off int, p uint64) []byte { return gio.SetBytesLong(buf, off, int64(p)) })
	b.setBytes("SetBytesDouble", func(buf []byte, off int, p uint64) []byte { return gio.SetBytesDouble(buf, off, f64frombits(p)) })
}
