package main

// Monitor 2b — pool histories of SEVERAL goroutines sharing the package-level pools (what a
// UDP server does: one goroutine per datagram, all of them CreatePack/ClosePack on the same
// sync.Pools).
//
// G goroutines loop, each a bounded number of times:
//
//	p := CreatePack(type, ver)        the pack must be blank (equals a freshly constructed
//	                                  pack or its Clear() value, field by field — the same
//	                                  comparison as the sequential monitor) and carry ver
//	fill EVERY field with values that carry this goroutine's id
//	a short random amount of work     (PRNG steps; in the yielding modes runtime.Gosched)
//	re-check                          every field (and Ver) still holds this goroutine's value:
//	                                  a late Clear() by the previous owner, or another owner
//	                                  writing into the same object, shows here
//	sometimes p.Write(out)            the bytes must be those of a private pack with the same
//	                                  fields (the owner serialises what it set)
//	ClosePack(p)
//
// Nothing is judged by time. What makes the rare interleavings happen is only scheduling:
// several GOMAXPROCS values, 4…4×GOMAXPROCS goroutines, three modes —
//
//	tight   no voluntary yield: goroutines are descheduled by the runtime's asynchronous
//	        preemption at arbitrary instructions (inside ClosePack too)
//	yield   the owner yields while it holds the pack: objects migrate between goroutines and
//	        Ps through the pools' shared queues (cross-P steals)
//	stw     tight, plus one goroutine that stops the world (runtime.ReadMemStats) a bounded
//	        number of times: every running goroutine is preempted wherever it is and queued
//	        behind the others
//
// In the configurations with Fail > 0 every Fail-th iteration starts with a ToPack of a
// datagram that fails in Read or Process (poolfail.go concFailing), recovered like a server
// loop does; nothing else changes: the acquisitions that follow must be blank.
//
// Keys: <Type>.<Field>:pool-residue/concurrent   acquired pack not blank
//
//	<Type>.<Field>:pool-residue/after-failed-read   … and it holds values of a datagram whose
//	                                         ToPack failed
//	<Type>.<Field>:pool-object-shared        field changed while the pack was owned
//	<Type>.Write:pool-object-shared          bytes written by the owner are not its fields
//	<Type>:pool-object-shared/memory         the object's memory changed while owned although
//	                                         every field still compares equal
//
// The harness itself is race-free: a goroutine touches only the pack it owns, its own
// templates and the mutex-protected Ctx. In the race flavour the comparisons go through
// reflect (instrumented reads) and every iteration serialises the pack with golib's Write,
// so that two owners of one object are also reported by the race detector.

import (
	"bytes"
	"fmt"
	"path/filepath"
	"reflect"
	"runtime"
	"sync"
	"sync/atomic"
	"unsafe"

	"github.com/whatap/golib/io"
	"github.com/whatap/golib/lang/pack/udp"

	"verif/vlib"
)

// versions the concurrent owners acquire at: one per family and gate region, and the pool
// default 50100 (the value a late Clear() resets Ver to) only once in eight
var concVersions = []int32{10105, 20104, 30103, 40100, 50101, 10110, 50001, 50100}

type concCfg struct {
	Procs int
	Gs    int
	Mode  string // tight | yield | stw
	Fail  int    // > 0: every Fail-th iteration of a goroutine starts with a ToPack that fails (poolfail.go)
}

func (g concCfg) String() string {
	if g.Fail > 0 {
		return fmt.Sprintf("P=%d,G=%d,%s,failed-ToPack/%d", g.Procs, g.Gs, g.Mode, g.Fail)
	}
	return fmt.Sprintf("P=%d,G=%d,%s", g.Procs, g.Gs, g.Mode)
}

// ownValue builds a value of type t that carries tag/num and is not a blank value. ok=false:
// the type has no such value the harness can build (the field is then filled with its zero
// value and takes part in the comparisons like the others).
func ownValue(t reflect.Type, tag string, num int64, depth int) (v reflect.Value, ok bool) {
	v = reflect.New(t).Elem()
	switch t.Kind() {
	case reflect.String:
		v.SetString(tag)
	case reflect.Bool:
		v.SetBool(true)
	case reflect.Int, reflect.Int64, reflect.Int32:
		v.SetInt(1000 + num)
	case reflect.Int16:
		v.SetInt(2 + num%30000)
	case reflect.Int8:
		v.SetInt(2 + num%120)
	case reflect.Uint, reflect.Uint64, reflect.Uint32:
		v.SetUint(uint64(1000 + num))
	case reflect.Uint16:
		v.SetUint(uint64(2 + num%60000))
	case reflect.Uint8:
		v.SetUint(uint64(2 + num%250))
	case reflect.Float32, reflect.Float64:
		v.SetFloat(float64(1000+num) + 0.5)
	case reflect.Slice:
		switch t.Elem().Kind() {
		case reflect.Uint8:
			v.SetBytes([]byte(tag))
		case reflect.Int16:
			v.Set(reflect.ValueOf([]int16{int16(2 + num%30000), 2, 3, 4, 5}))
		default:
			ev, eok := ownValue(t.Elem(), tag, num, depth+1)
			if !eok {
				return v, false
			}
			s := reflect.MakeSlice(t, 1, 1)
			s.Index(0).Set(ev)
			v.Set(s)
		}
	case reflect.Map:
		kv, kok := ownValue(t.Key(), tag, num, depth+1)
		ev, eok := ownValue(t.Elem(), tag, num, depth+1)
		if !kok || !eok {
			return v, false
		}
		m := reflect.MakeMap(t)
		m.SetMapIndex(kv, ev)
		v.Set(m)
	case reflect.Ptr:
		if depth > 1 || t.Elem().Kind() != reflect.Struct {
			return v, false
		}
		p := reflect.New(t.Elem())
		any := false
		for i := 0; i < t.Elem().NumField(); i++ {
			sf := t.Elem().Field(i)
			if sf.PkgPath != "" || sf.Anonymous {
				continue
			}
			switch sf.Type.Kind() {
			case reflect.String, reflect.Bool, reflect.Int, reflect.Int32, reflect.Int64, reflect.Int16:
				fv, _ := ownValue(sf.Type, tag+"."+sf.Name, num, depth+1)
				p.Elem().Field(i).Set(fv)
				any = true
			}
		}
		if !any {
			return v, false
		}
		v.Set(p)
	default:
		return v, false
	}
	return v, true
}

// onlyExported: every field of the struct (and of its embedded structs) is exported, so a
// whole-struct assignment stores exactly the data fields and Ver.
func onlyExported(t reflect.Type) bool {
	for i := 0; i < t.NumField(); i++ {
		f := t.Field(i)
		if f.PkgPath != "" {
			return false
		}
		if f.Anonymous && f.Type.Kind() == reflect.Struct && !onlyExported(f.Type) {
			return false
		}
	}
	return true
}

func memOf(v reflect.Value) []byte {
	return unsafe.Slice((*byte)(unsafe.Pointer(v.UnsafeAddr())), int(v.Type().Size()))
}

// concOwner is everything one goroutine needs for one pack type; nothing in it is shared.
type concOwner struct {
	k      *packKind
	gid    int
	whole  bool          // whole-struct assignment is the fill
	tmpl   reflect.Value // struct holding this goroutine's value in every data field
	tmplB  []byte
	tmplV  *int32
	blank  [2]reflect.Value // private copies of the fresh and of the cleared pack
	blankB [2][]byte
	blankV [2]*int32
	maps   []int            // indices (into k.Fields) of the map-typed fields
	own    []reflect.Value  // own value per field (the maps are re-made per fill)
	want   map[int32][]byte // bytes golib writes for a private pack holding the own values
}

func (k *packKind) verPtr(v reflect.Value) *int32 {
	return (*int32)(unsafe.Pointer(v.FieldByIndex(k.verIdx).UnsafeAddr()))
}

func newConcOwner(k *packKind, gid int) *concOwner {
	o := &concOwner{k: k, gid: gid, whole: onlyExported(k.typ), want: map[int32][]byte{}}
	o.tmpl = reflect.New(k.typ).Elem()
	o.tmpl.Set(k.fresh)
	for i := range k.Fields {
		fi := &k.Fields[i]
		v, _ := ownValue(fi.Type, fmt.Sprintf("g%02d/%s.%s", gid, k.Name, fi.Name), int64(gid*131+i*7), 0)
		o.own = append(o.own, v)
		o.tmpl.FieldByIndex(fi.Index).Set(v)
		if fi.Type.Kind() == reflect.Map {
			o.maps = append(o.maps, i)
		}
	}
	o.tmplB, o.tmplV = memOf(o.tmpl), k.verPtr(o.tmpl)
	for j, src := range []reflect.Value{k.fresh, k.cleared} {
		o.blank[j] = reflect.New(k.typ).Elem()
		o.blank[j].Set(src)
		o.blankB[j], o.blankV[j] = memOf(o.blank[j]), k.verPtr(o.blank[j])
	}
	// what golib writes for these fields, from a private (never pooled) pack
	for _, ver := range concVersions {
		priv := reflect.New(k.typ)
		priv.Elem().Set(o.tmpl)
		pp := priv.Interface().(udp.UdpPack)
		pp.SetVersion(ver)
		if b, pn := writeBytes(pp); pn == nil {
			o.want[ver] = b
		}
	}
	return o
}

// remakeMaps gives the template new map objects with the same content: a map is written
// INTO by its users, the one stored in a pooled pack is never stored twice.
func (o *concOwner) remakeMaps() {
	for _, i := range o.maps {
		src := o.own[i]
		if src.IsNil() {
			continue
		}
		m := reflect.MakeMapWithSize(src.Type(), src.Len())
		it := src.MapRange()
		for it.Next() {
			m.SetMapIndex(it.Key(), it.Value())
		}
		o.tmpl.FieldByIndex(o.k.Fields[i].Index).Set(m)
	}
}

// foreign describes a value found in an owned or just-acquired pack.
func foreign(v reflect.Value) string {
	s := ""
	switch v.Kind() {
	case reflect.String:
		s = v.String()
	case reflect.Slice:
		if v.Type().Elem().Kind() == reflect.Uint8 {
			s = string(v.Bytes())
		}
	}
	if len(s) > 4 && s[0] == 'g' && s[3] == '/' {
		return "the value goroutine " + s[1:3] + " stores"
	}
	if isFailedReadValue(v) {
		return "a value of a datagram whose ToPack failed"
	}
	return ""
}

type concStats struct {
	acquires, blankFast, blankSlow, recheckFast, recheckSlow int64
	handovers, writes, yields, fieldsCompared                int64
	failedReads, failedReadsOK                               int64
	_                                                        [40]byte // one goroutine's counters per cache line pair
}

type concRun struct {
	c       *vlib.Ctx
	k       *packKind
	cfg     concCfg
	iters   int
	bad     atomic.Int32 // findings so far in this run: the run stops early after a few
	slow    bool         // compare through reflect only (race flavour)
	wrEvery int
	failing []*failedDatagram // read-only: datagrams on which ToPack fails (cfg.Fail > 0)
}

// raceLogged: the race detector of this process has written a report (race flavour; the
// driver points GORACE log_path at <out>/race). Used only to stop early.
func raceLogged(c *vlib.Ctx) bool {
	m, _ := filepath.Glob(filepath.Join(c.Out, "race.*"))
	return len(m) > 0
}

func (rn *concRun) fail(key, what string, d map[string]interface{}) {
	rn.bad.Add(1)
	d["type"], d["config"] = rn.k.Name, rn.cfg.String()
	rn.c.Fail(key, what, d)
}

func (rn *concRun) owner(o *concOwner, r *vlib.Rand, st *concStats, addrs map[uintptr]struct{}) {
	k := rn.k
	var last uintptr
	for it := 0; it < rn.iters; it++ {
		if rn.bad.Load() >= 4 {
			return
		}
		if rn.slow && o.gid == 1 && it&31 == 31 && raceLogged(rn.c) {
			rn.bad.Store(4) // the race detector has reported: more reports of the same thing only cost time
			return
		}
		if len(rn.failing) > 0 && (it+o.gid)%rn.cfg.Fail == 0 {
			// a datagram that fails in Read or Process: the goroutine recovers and carries on, as
			// a UDP server loop does; what the failed call leaves in the pool is seen by the
			// acquisitions that follow (this goroutine's or another's)
			fd := rn.failing[(it/rn.cfg.Fail+o.gid*5)%len(rn.failing)]
			var q udp.UdpPack
			if pn := vlib.Catch(func() { q = udp.ToPack(k.Code, fd.dv, fd.b) }); pn == nil && q != nil {
				st.failedReadsOK++ // a fresh pack fails on it, the pooled one did not: not judged
				udp.ClosePack(q)
			} else {
				st.failedReads++
			}
		}
		ver := concVersions[(o.gid+it)%len(concVersions)]
		p := udp.CreatePack(k.Code, ver)
		if p == nil {
			rn.fail(k.Name+".CreatePack:nil", fmt.Sprintf("CreatePack(%d, %d) returned nil", k.Code, ver), map[string]interface{}{})
			return
		}
		st.acquires++
		e := elemOf(p)
		addr := e.UnsafeAddr()
		if addr != last {
			st.handovers++ // not the object this goroutine released last: new, or released by another goroutine
			if len(addrs) < 4096 {
				addrs[addr] = struct{}{}
			}
		}
		ctx := func(extra map[string]interface{}) map[string]interface{} {
			m := map[string]interface{}{"goroutine": o.gid, "iteration": it, "version": ver, "pack": k.dump(p)}
			for a, b := range extra {
				m[a] = b
			}
			return m
		}

		// 1. blank on acquisition
		isBlank := false
		if !rn.slow {
			*o.blankV[0], *o.blankV[1] = ver, ver
			pm := memOf(e)
			isBlank = bytes.Equal(pm, o.blankB[0]) || bytes.Equal(pm, o.blankB[1])
		}
		if isBlank {
			st.blankFast++
		} else {
			st.blankSlow++
			kind := "/concurrent"
			if len(rn.failing) > 0 && k.carriesFailedReadValue(e) {
				kind = "/after-failed-read"
			}
			if got := p.GetVersion(); got != ver {
				rn.fail(k.Name+".Ver:pool-residue/concurrent",
					fmt.Sprintf("%s acquired with CreatePack(%d, %d) has version %d when its new owner looks at it", k.Name, k.Code, ver, got), ctx(nil))
			}
			for i := range k.Fields {
				f := &k.Fields[i]
				got := e.FieldByIndex(f.Index)
				if !k.isBlank(f, got) {
					who := foreign(got)
					if who != "" {
						who = " (" + who + ")"
					}
					rn.fail(k.Name+"."+f.Name+":pool-residue"+kind,
						fmt.Sprintf("%s acquired from the pool by goroutine %d while other goroutines use the pool holds %s = %s%s; a new pack has %s", k.Name, o.gid, f.Name, render(got), who, render(k.fresh.FieldByIndex(f.Index))),
						ctx(map[string]interface{}{"field": f.Name, "value": render(got), "fresh": render(k.fresh.FieldByIndex(f.Index))}))
				}
			}
		}
		st.fieldsCompared += int64(len(k.Fields))

		// 2. fill every field with this goroutine's values
		o.remakeMaps()
		*o.tmplV = ver
		if o.whole {
			e.Set(o.tmpl)
		} else {
			for i := range k.Fields {
				idx := k.Fields[i].Index
				e.FieldByIndex(idx).Set(o.tmpl.FieldByIndex(idx))
			}
		}

		// 3. a short random amount of work
		x := r.U64()
		for n := int(x & 31); n > 0; n-- {
			x = vlib.Mix(x)
		}
		if rn.cfg.Mode == "yield" {
			for n := int(x>>8) % 3; n > 0; n-- {
				runtime.Gosched()
				st.yields++
			}
		}

		// 4. every field still holds this goroutine's value
		same := false
		if !rn.slow && o.whole {
			same = bytes.Equal(memOf(e), o.tmplB)
		}
		if same {
			st.recheckFast++
		} else {
			st.recheckSlow++
			diff := 0
			if got := p.GetVersion(); got != ver {
				diff++
				rn.fail(k.Name+".Ver:pool-object-shared",
					fmt.Sprintf("%s owned by goroutine %d: version changed from %d to %d while the pack was in use", k.Name, o.gid, ver, got), ctx(nil))
			}
			for i := range k.Fields {
				f := &k.Fields[i]
				got, want := e.FieldByIndex(f.Index), o.tmpl.FieldByIndex(f.Index)
				if !eqVal(got, want, 0) {
					diff++
					who := foreign(got)
					if who == "" && k.isBlank(f, got) {
						who = "blank: a Clear() ran on the pack after it was handed out"
					}
					if who != "" {
						who = " (" + who + ")"
					}
					rn.fail(k.Name+"."+f.Name+":pool-object-shared",
						fmt.Sprintf("%s owned by goroutine %d between CreatePack and ClosePack: %s was set to %s and now holds %s%s", k.Name, o.gid, f.Name, render(want), render(got), who),
						ctx(map[string]interface{}{"field": f.Name, "set": render(want), "found": render(got)}))
				}
			}
			if diff == 0 && !rn.slow && o.whole {
				rn.fail(k.Name+":pool-object-shared/memory",
					fmt.Sprintf("%s owned by goroutine %d: the object's memory changed between the owner's fill and its re-check (every field compares equal again)", k.Name, o.gid), ctx(nil))
			}
		}
		st.fieldsCompared += int64(len(k.Fields))

		// 5. the owner serialises what it set
		if want := o.want[ver]; want != nil && (rn.slow || int(x>>16)%rn.wrEvery == 0) {
			var got []byte
			pn := vlib.Catch(func() {
				out := io.NewDataOutputX()
				p.Write(out)
				got = out.ToByteArray()
			})
			st.writes++
			if pn != nil || !bytes.Equal(got, want) {
				rn.fail(k.Name+".Write:pool-object-shared",
					fmt.Sprintf("%s owned by goroutine %d: Write at version %d did not produce the bytes of the fields the owner had set (panic: %v)", k.Name, o.gid, ver, pn),
					ctx(map[string]interface{}{"written": vlib.Hex(got), "expected": vlib.Hex(want)}))
			}
		}

		udp.ClosePack(p)
		last = addr
		if rn.cfg.Mode == "yield" && x>>24&3 == 0 {
			// nobody owns a pack here: the released object is acquired by whoever runs next
			runtime.Gosched()
			st.yields++
		}
	}
}

func (rn *concRun) run(seedLabel string) {
	c, k, cfg := rn.c, rn.k, rn.cfg
	prev := runtime.GOMAXPROCS(cfg.Procs)
	defer runtime.GOMAXPROCS(prev)
	owners := make([]*concOwner, cfg.Gs)
	for g := range owners {
		owners[g] = newConcOwner(k, g+1)
	}
	stats := make([]concStats, cfg.Gs)
	addrs := make([]map[uintptr]struct{}, cfg.Gs)
	var wg sync.WaitGroup
	var done atomic.Bool
	var stws int64
	start := make(chan struct{})
	for g := 0; g < cfg.Gs; g++ {
		wg.Add(1)
		addrs[g] = map[uintptr]struct{}{}
		go func(g int) {
			defer wg.Done()
			r := c.Rand(fmt.Sprintf("%s/g%d", seedLabel, g))
			<-start
			if pn := vlib.Catch(func() { rn.owner(owners[g], r, &stats[g], addrs[g]) }); pn != nil {
				rn.fail(k.Name+":pool-concurrent-panic", fmt.Sprintf("%s: panic in a goroutine using the pool: %v", k.Name, pn),
					map[string]interface{}{"goroutine": g + 1, "panic": fmt.Sprint(pn)})
			}
		}(g)
	}
	var wgS sync.WaitGroup
	if cfg.Mode == "stw" {
		wgS.Add(1)
		go func() {
			defer wgS.Done()
			var ms runtime.MemStats
			<-start
			for n := 0; n < rn.iters*4 && !done.Load(); n++ {
				runtime.ReadMemStats(&ms) // stops the world: every running goroutine is preempted where it is
				stws++
				runtime.Gosched()
			}
		}()
	}
	close(start)
	wg.Wait()
	done.Store(true)
	wgS.Wait()

	var t concStats
	seen := map[uintptr]int{}
	for g := range stats {
		s := &stats[g]
		t.acquires += s.acquires
		t.blankFast += s.blankFast
		t.blankSlow += s.blankSlow
		t.recheckFast += s.recheckFast
		t.recheckSlow += s.recheckSlow
		t.handovers += s.handovers
		t.writes += s.writes
		t.yields += s.yields
		t.fieldsCompared += s.fieldsCompared
		t.failedReads += s.failedReads
		t.failedReadsOK += s.failedReadsOK
		for a := range addrs[g] {
			seen[a]++
		}
	}
	shared := 0
	for _, n := range seen {
		if n > 1 {
			shared++
		}
	}
	c.Eval(t.acquires)
	c.Count("pool_conc_acquires", t.acquires)
	c.Count("pool_conc_acquires_"+k.Name, t.acquires)
	c.Count("pool_conc_acquires_mode_"+cfg.Mode, t.acquires)
	c.Count("pool_conc_blank_checks_memory", t.blankFast)
	c.Count("pool_conc_blank_checks_fieldwise", t.blankSlow)
	c.Count("pool_conc_rechecks_memory", t.recheckFast)
	c.Count("pool_conc_rechecks_fieldwise", t.recheckSlow)
	c.Count("pool_conc_fields_compared", t.fieldsCompared)
	c.Count("pool_conc_not_my_last_object", t.handovers)
	c.Count("pool_conc_addresses_acquired_by_several_goroutines", int64(shared))
	c.Count("pool_conc_writes_compared", t.writes)
	c.Count("pool_conc_owner_yields", t.yields)
	c.Count("pool_conc_stop_the_world", stws)
	c.Count("pool_conc_runs", 1)
	if cfg.Fail > 0 {
		c.Count("pool_conc_failed_decodes", t.failedReads)
		c.Count("pool_conc_failed_decodes_"+k.Name, t.failedReads)
		c.Count("pool_conc_failed_decodes_mode_"+cfg.Mode, t.failedReads)
		c.Count("pool_conc_failed_decode_succeeded_on_pooled_pack", t.failedReadsOK)
		c.Count("pool_conc_acquires_in_runs_with_failed_decodes", t.acquires)
		for _, fd := range rn.failing {
			c.SetAdd("pool_conc_failed_decode_sites", k.Name+"@"+fd.site+"@"+fd.stage)
		}
	}
	c.Max("max_pool_conc_goroutines", int64(cfg.Gs))
	c.SetAdd("pool_conc_types_covered", k.Name)
	c.SetAdd("pool_conc_configs", cfg.String())
	c.DistinctStr("pool-conc/" + k.Name + "/" + cfg.String())
	if c.WantSample() && k.Name == "UdpTxSqlPack" && cfg.Mode == "yield" {
		c.Sample(map[string]interface{}{"kind": "pool-concurrent", "type": k.Name, "config": cfg.String(), "acquires": t.acquires,
			"acquired_not_my_last_object": t.handovers, "addresses_acquired_by_several_goroutines": shared,
			"own_values_of_goroutine_1": k.dump(func() udp.UdpPack {
				p := reflect.New(k.typ)
				p.Elem().Set(owners[0].tmpl)
				return p.Interface().(udp.UdpPack)
			}())})
	}
}

func concConfigs(np int, race bool) []concCfg {
	if np < 2 {
		np = 2
	}
	if race {
		return []concCfg{{2, 8, "yield", 0}, {4, 16, "tight", 0}, {np, 4 * np, "yield", 0}, {4, 16, "tight", 8}}
	}
	cf := []concCfg{
		{1, 4, "tight", 0}, {1, 8, "tight", 0},
		{2, 8, "tight", 0}, {2, 8, "stw", 0}, {2, 8, "yield", 0},
		{4, 16, "stw", 0}, {4, 16, "yield", 0},
		{np, 4, "tight", 0}, {np, 4 * np, "tight", 0}, {np, 4 * np, "stw", 0}, {np, 4 * np, "yield", 0},
		// the slice with failed decodes among the acquisitions
		{1, 4, "tight", 8}, {2, 8, "yield", 8}, {np, 4 * np, "tight", 16},
	}
	return cf
}

func poolConcSection(c *vlib.Ctx) {
	var pooled []*packKind
	for _, k := range kinds {
		if k.Pooled {
			pooled = append(pooled, k)
		}
	}
	race := c.Flavour == "race"
	planned, plannedFailed := int64(0), int64(0)
	c.Section("pool-conc", true, func() {
		np := runtime.GOMAXPROCS(0)
		cfgs := concConfigs(np, race)
		failing := map[string][]*failedDatagram{}
		perRun := c.N(480000, 16000000) // acquisitions per (type, configuration), over all goroutines
		if race {
			perRun = c.N(20000, 400000)
		}
		// the (type, configuration) pairs are dealt round-robin to the shards: every type meets
		// every configuration, every shard gets a mix of both
		n := 0
		for _, k := range pooled {
			for ci, cfg := range cfgs {
				n++
				if (n-1)%c.NShards != c.Shard {
					continue
				}
				if race && raceLogged(c) {
					c.Count("pool_conc_runs_skipped_after_race_report", 1)
					continue
				}
				rn := &concRun{c: c, k: k, cfg: cfg, iters: perRun / cfg.Gs, slow: race, wrEvery: 8}
				if cfg.Mode == "yield" {
					rn.iters /= 4 // a yielding owner is slower; what matters there is the number of hand-overs
				}
				if cfg.Fail > 0 {
					if failing[k.Name] == nil {
						failing[k.Name] = k.concFailing(k.probeFailInfo())
					}
					rn.failing = failing[k.Name]
					if len(rn.failing) == 0 {
						c.SetAdd("failed_decode_types_without_failing_input", k.Name)
						continue // no input of this type fails: the run would repeat a plain one
					}
					rn.iters /= 2
					plannedFailed += int64(rn.iters / cfg.Fail * cfg.Gs)
				}
				planned += int64(rn.iters * cfg.Gs)
				rn.run(fmt.Sprintf("pool-conc/%s/%d", k.Name, ci))
			}
		}
	})
	if c.Only == "" && planned > 0 {
		c.Floor("pool_conc_acquires", planned/10, c.Counter("pool_conc_acquires"))
		c.Floor("pool_conc_not_my_last_object", planned/1000, c.Counter("pool_conc_not_my_last_object"))
		if plannedFailed > 0 {
			c.Floor("pool_conc_failed_decodes", plannedFailed/10, c.Counter("pool_conc_failed_decodes"))
		}
	}
}
