package main

// Reflection helpers of the C07 worker: pack registry, field enumeration, random fill,
// single-field alternates (for the "carried" measurement), structural equality with
// nil ≡ empty, string scanning. Nothing here encodes or decodes anything: the oracles only
// compare what golib's writer produced with what golib's reader restored, field by field.

import (
	"fmt"
	"math"
	"reflect"
	"sort"
	"strings"
	"unsafe"

	"github.com/whatap/golib/lang/pack/udp"

	"verif/vlib"
)

type fieldInfo struct {
	Name  string // name used in finding keys ("Txid", "Host", "AbstractPack.Pid" on a clash)
	Index []int  // reflect index path from the pack struct
	Type  reflect.Type
}

type packKind struct {
	Name   string
	Code   uint8
	Pooled bool
	ctor   func(ver int32) udp.UdpPack
	typ    reflect.Type // struct type
	Fields []fieldInfo  // every data field except Ver
	verIdx []int

	fresh   reflect.Value // struct value of a freshly constructed pack
	cleared reflect.Value // struct value of a freshly constructed pack after Clear()
}

// New constructs a fresh pack at the given version. SetVersion is called explicitly because
// NewUdpTxMethodPackVer ignores its argument (it is not part of this property).
func (k *packKind) New(ver int32) udp.UdpPack {
	p := k.ctor(ver)
	p.SetVersion(ver)
	return p
}

func (k *packKind) init() {
	p := k.ctor(udp.UDP_PACK_VERSION)
	k.typ = reflect.TypeOf(p).Elem()
	outer := map[string]bool{}
	for i := 0; i < k.typ.NumField(); i++ {
		f := k.typ.Field(i)
		if !f.Anonymous {
			outer[f.Name] = true
		}
	}
	for i := 0; i < k.typ.NumField(); i++ {
		f := k.typ.Field(i)
		if f.Anonymous && f.Type.Kind() == reflect.Struct {
			for j := 0; j < f.Type.NumField(); j++ {
				g := f.Type.Field(j)
				if g.PkgPath != "" {
					continue
				}
				if g.Name == "Ver" {
					k.verIdx = []int{i, j}
					continue
				}
				name := g.Name
				if outer[name] {
					name = f.Name + "." + g.Name
				}
				k.Fields = append(k.Fields, fieldInfo{name, []int{i, j}, g.Type})
			}
			continue
		}
		if f.PkgPath != "" {
			continue
		}
		k.Fields = append(k.Fields, fieldInfo{f.Name, []int{i}, f.Type})
	}
	k.fresh = reflect.ValueOf(k.ctor(udp.UDP_PACK_VERSION)).Elem()
	cl := k.ctor(udp.UDP_PACK_VERSION)
	cl.Clear()
	k.cleared = reflect.ValueOf(cl).Elem()
}

func (k *packKind) field(name string) *fieldInfo {
	for i := range k.Fields {
		if k.Fields[i].Name == name {
			return &k.Fields[i]
		}
	}
	return nil
}

// isBlank: the value a field has when nothing was stored in it — what the constructor
// leaves or what Clear() sets (Index/Parent are 0 after construction and -1 after Clear or
// after a PHP-family Read; both are "no value").
func (k *packKind) isBlank(fi *fieldInfo, got reflect.Value) bool {
	return eqVal(got, k.fresh.FieldByIndex(fi.Index), 0) || eqVal(got, k.cleared.FieldByIndex(fi.Index), 0)
}

func elemOf(p udp.UdpPack) reflect.Value { return reflect.ValueOf(p).Elem() }

// copyPack makes a shallow copy (maps, slices and pointers are shared; alternates never
// mutate them in place).
func (k *packKind) copyPack(p udp.UdpPack) udp.UdpPack {
	nv := reflect.New(k.typ)
	nv.Elem().Set(elemOf(p))
	return nv.Interface().(udp.UdpPack)
}

var kinds = []*packKind{
	{Name: "UdpTxStartPack", Code: udp.TX_START, Pooled: true, ctor: func(v int32) udp.UdpPack { return udp.NewUdpTxStartPackVer(v) }},
	{Name: "UdpTxStartEndPack", Code: udp.TX_START_END, Pooled: true, ctor: func(v int32) udp.UdpPack { return udp.NewUdpTxStartEndPackVer(v) }},
	{Name: "UdpTxEndPack", Code: udp.TX_END, Pooled: true, ctor: func(v int32) udp.UdpPack { return udp.NewUdpTxEndPackVer(v) }},
	{Name: "UdpTxSqlPack", Code: udp.TX_SQL, Pooled: true, ctor: func(v int32) udp.UdpPack { return udp.NewUdpTxSqlPackVer(v) }},
	{Name: "UdpTxSqlParamPack", Code: udp.TX_SQL_PARAM, Pooled: true, ctor: func(v int32) udp.UdpPack { return udp.NewUdpTxSqlParamPackVer(v) }},
	{Name: "UdpTxDbcPack", Code: udp.TX_DB_CONN, Pooled: true, ctor: func(v int32) udp.UdpPack { return udp.NewUdpTxDbcPackVer(v) }},
	{Name: "UdpTxHttpcPack", Code: udp.TX_HTTPC, Pooled: true, ctor: func(v int32) udp.UdpPack { return udp.NewUdpTxHttpcPackVer(v) }},
	{Name: "UdpTxErrorPack", Code: udp.TX_ERROR, Pooled: true, ctor: func(v int32) udp.UdpPack { return udp.NewUdpTxErrorPackVer(v) }},
	{Name: "UdpTxMessagePack", Code: udp.TX_MSG, Pooled: true, ctor: func(v int32) udp.UdpPack { return udp.NewUdpTxMessagePackVer(v) }},
	{Name: "UdpTxSecureMessagePack", Code: udp.TX_SECURE_MSG, Pooled: true, ctor: func(v int32) udp.UdpPack { return udp.NewUdpTxSecureMessagePackVer(v) }},
	{Name: "UdpTxMethodPack", Code: udp.TX_METHOD, Pooled: true, ctor: func(v int32) udp.UdpPack { return udp.NewUdpTxMethodPackVer(v) }},
	{Name: "UdpTxParamPack", Code: udp.TX_PARAM, Pooled: true, ctor: func(v int32) udp.UdpPack { return udp.NewUdpTxParamPackVer(v) }},
	{Name: "UdpActiveStackPack1", Code: udp.ACTIVE_STACK_1, Pooled: true, ctor: func(v int32) udp.UdpPack { return udp.NewUdpActiveStackPack1Ver(v) }},
	{Name: "UdpActiveStackPack", Code: udp.ACTIVE_STACK, Pooled: true, ctor: func(v int32) udp.UdpPack { return udp.NewUdpActiveStackPackVer(v) }},
	{Name: "UdpActiveStatsPack", Code: udp.ACTIVE_STATS, Pooled: true, ctor: func(v int32) udp.UdpPack { return udp.NewUdpActiveStatsPackVer(v) }},
	{Name: "UdpDBConPoolPack", Code: udp.DBCONN_POOL, Pooled: true, ctor: func(v int32) udp.UdpPack { return udp.NewUdpDBConPoolPackVer(v) }},
	{Name: "UdpConfigPack", Code: udp.CONFIG_INFO, Pooled: true, ctor: func(v int32) udp.UdpPack { return udp.NewUdpConfigPackVer(v) }},
	{Name: "UdpRelayPack", Code: udp.RELAY_PACK, Pooled: true, ctor: func(v int32) udp.UdpPack { return udp.NewUdpRelayPackVer(v) }},
	// not known to CreatePack: constructed directly
	{Name: "UdpTxResultSetPack", Code: udp.TX_RESULT_SET, Pooled: false, ctor: func(v int32) udp.UdpPack { return udp.NewUdpTxResultSetPackVer(v) }},
}

func kindByName(n string) *packKind {
	for _, k := range kinds {
		if k.Name == n {
			return k
		}
	}
	return nil
}

// ---- random fill -------------------------------------------------------------------------

var longLens = []int{2047, 2048, 2049, 4095, 4096, 4097, 32766, 32767, 32768, 32769, 65534, 65535}
var midLens = []int{255, 256, 257, 300, 511, 512, 600}

type filler struct {
	r        *vlib.Rand
	longLeft int // budget of very long strings per fill (keeps a fill cheap)
}

func (f *filler) bytesN(n int) []byte {
	if f.r.Intn(3) == 0 {
		return f.r.Bytes(n) // arbitrary bytes, invalid UTF-8 included
	}
	return []byte(f.r.AsciiN(n))
}

// str draws a string whose byte length fits the unsigned 16-bit length field of
// WriteTextShortLength: mostly up to a few hundred bytes, occasionally at the 2 KiB / 32 KiB
// / 64 KiB thresholds.
func (f *filler) str() string {
	switch x := f.r.Intn(48); {
	case x == 0 && f.longLeft > 0:
		f.longLeft--
		return string(f.bytesN(longLens[f.r.Intn(len(longLens))]))
	case x <= 2:
		return string(f.bytesN(midLens[f.r.Intn(len(midLens))]))
	case x <= 5:
		return f.r.AsciiN(f.r.Range(1, 300))
	case x <= 8:
		// decimal-looking and almost-decimal text (text fields next to numeric ones)
		return []string{"0", "1", "-1", "007", "+5", "12345678901234567890", "1e3", " 7", "0x10"}[f.r.Intn(9)]
	default:
		return f.r.Str(300)
	}
}

func (f *filler) value(t reflect.Type, depth int) reflect.Value {
	r := f.r
	v := reflect.New(t).Elem()
	switch t.Kind() {
	case reflect.String:
		v.SetString(f.str())
	case reflect.Bool:
		v.SetBool(r.Bool())
	case reflect.Int64, reflect.Int:
		v.SetInt(r.I64())
	case reflect.Int32:
		v.SetInt(int64(r.I32()))
	case reflect.Int16:
		v.SetInt(int64(r.I16()))
	case reflect.Int8:
		v.SetInt(int64(int8(r.U64())))
	case reflect.Uint8, reflect.Uint16, reflect.Uint32, reflect.Uint64:
		v.SetUint(r.U64() >> uint(64-t.Bits()))
	case reflect.Float32, reflect.Float64:
		v.SetFloat(float64(r.I32()) / 8)
	case reflect.Slice:
		switch t.Elem().Kind() {
		case reflect.Uint8:
			var b []byte
			switch x := r.Intn(20); {
			case x == 0:
				b = nil
			case x == 1 && f.longLeft > 0:
				f.longLeft--
				b = r.Bytes([]int{32767, 32768, 65535, 65536, 70000}[r.Intn(5)])
			default:
				b = r.Bytes(r.Range(1, 400))
			}
			v.SetBytes(b)
		case reflect.Int16:
			// the active-stats array is five counters; nil is the empty pack
			if r.Intn(10) != 0 {
				a := make([]int16, 5)
				for i := range a {
					a[i] = r.I16()
				}
				v.Set(reflect.ValueOf(a))
			}
		default:
			n := r.Range(0, 4)
			s := reflect.MakeSlice(t, n, n)
			for i := 0; i < n; i++ {
				s.Index(i).Set(f.value(t.Elem(), depth+1))
			}
			v.Set(s)
		}
	case reflect.Map:
		n := r.Range(0, 4)
		m := reflect.MakeMap(t)
		for i := 0; i < n; i++ {
			m.SetMapIndex(f.value(t.Key(), depth+1), f.value(t.Elem(), depth+1))
		}
		v.Set(m)
	case reflect.Ptr:
		if depth < 2 && t.Elem().Kind() == reflect.Struct && r.Intn(4) != 0 {
			p := reflect.New(t.Elem())
			for i := 0; i < t.Elem().NumField(); i++ {
				sf := t.Elem().Field(i)
				if sf.PkgPath != "" || sf.Anonymous {
					continue
				}
				switch sf.Type.Kind() {
				case reflect.String, reflect.Bool, reflect.Int, reflect.Int32, reflect.Int64, reflect.Int16:
					p.Elem().Field(i).Set(f.value(sf.Type, depth+1))
				}
			}
			v.Set(p)
		}
	}
	return v
}

// fillAll stores a random value in every data field of the pack (wire fields and the
// "processing data" fields alike).
func (k *packKind) fillAll(r *vlib.Rand, p udp.UdpPack) {
	f := &filler{r: r, longLeft: 2}
	e := elemOf(p)
	for i := range k.Fields {
		fi := &k.Fields[i]
		e.FieldByIndex(fi.Index).Set(f.value(fi.Type, 0))
	}
}

// fillResidue is the fill of the pool histories. It stores into the fields selected by mask
// (nil = every field) and leaves the others as they are (blank, on a pack that came out of
// the pool clean). No selected field is left at a value that could be mistaken for "blank":
// every string non-empty, every number at least 2 in magnitude (a quarter of them negative,
// some over the whole width of the field), every container non-empty, every pointer set;
// existing maps are written INTO, as Process() does. Booleans are drawn (false is blank).
func (k *packKind) fillResidue(r *vlib.Rand, p udp.UdpPack, mask []bool) {
	f := &filler{r: r, longLeft: 0}
	e := elemOf(p)
	for i := range k.Fields {
		if mask != nil && !mask[i] {
			continue
		}
		fi := &k.Fields[i]
		fv := e.FieldByIndex(fi.Index)
		switch fi.Type.Kind() {
		case reflect.String:
			fv.SetString("res-" + r.Ident() + f.str())
		case reflect.Bool:
			fv.SetBool(r.Bool())
		case reflect.Int64, reflect.Int32, reflect.Int16, reflect.Int:
			v := int64(2 + r.Intn(30000))
			switch r.Intn(8) {
			case 0, 1:
				v = -v
			case 2:
				sh := uint(64 - fi.Type.Bits())
				if w := r.I64() << sh >> sh; w < -1 || w > 1 {
					v = w
				}
			}
			fv.SetInt(v)
		case reflect.Slice:
			switch fi.Type.Elem().Kind() {
			case reflect.Uint8:
				fv.SetBytes(r.Bytes(r.Range(1, 600)))
			case reflect.Int16:
				fv.Set(reflect.ValueOf([]int16{int16(1 + r.Intn(100)), 2, 3, 4, int16(r.Intn(9))}))
			default:
				n := r.Range(1, 4)
				s := reflect.MakeSlice(fi.Type, n, n)
				for j := 0; j < n; j++ {
					s.Index(j).Set(f.value(fi.Type.Elem(), 1))
				}
				fv.Set(s)
			}
		case reflect.Map:
			if fv.IsNil() || r.Intn(4) == 0 {
				fv.Set(reflect.MakeMap(fi.Type))
			}
			n := r.Range(1, 4)
			for j := 0; j < n; j++ {
				kk := reflect.New(fi.Type.Key()).Elem()
				kk.SetString("k" + r.Ident())
				vv := reflect.New(fi.Type.Elem()).Elem()
				vv.SetString("v" + r.Ident())
				fv.SetMapIndex(kk, vv)
			}
		case reflect.Ptr:
			for {
				v := f.value(fi.Type, 0)
				if !v.IsNil() {
					fv.Set(v)
					break
				}
			}
		default:
			fv.Set(f.value(fi.Type, 0))
		}
	}
}

// fillPlan draws which fields one fill of a pool history stores into. A Clear() that resets
// a field only under a condition on ANOTHER field (set / not set) is invisible to fills that
// always populate everything, so the plan is drawn over the whole power set of the fields:
//
//	all          every field                                        (~12 %)
//	single       exactly one field                                  (~15 %)
//	all-but-one  every field except one                             (~8 %)
//	own-subset   the embedded AbstractPack part left blank, each of
//	             the pack's own fields with probability q            (~15 %)
//	subset       each field independently with probability q        (the rest)
//
// with q drawn per fill from 0.25, 0.5, 0.6, 0.7. An empty draw becomes a single field.
func (k *packKind) fillPlan(r *vlib.Rand) (mode string, mask []bool, names []string) {
	n := len(k.Fields)
	mask = make([]bool, n)
	x := r.Intn(100)
	switch {
	case x < 12:
		mode = "all"
		for i := range mask {
			mask[i] = true
		}
	case x < 27:
		mode = "single"
		mask[r.Intn(n)] = true
	case x < 35:
		mode = "all-but-one"
		for i := range mask {
			mask[i] = true
		}
		mask[r.Intn(n)] = false
	default:
		mode = "subset"
		own := x < 50
		if own {
			mode = "own-subset"
		}
		q := []int{25, 50, 60, 70}[r.Intn(4)]
		any := false
		for i := range mask {
			hit := r.Intn(100) < q // drawn for every field: the stream does not depend on the mode
			if own && len(k.Fields[i].Index) > 1 {
				hit = false
			}
			mask[i] = hit
			any = any || hit
		}
		if !any {
			mask[r.Intn(n)] = true
		}
	}
	for i, m := range mask {
		if m {
			names = append(names, k.Fields[i].Name)
		}
	}
	return
}

// ---- alternates for the carried measurement -----------------------------------------------

// alternates returns values of the field's type that all differ from cur. A field is
// carried iff at least one of them changes the written bytes. Several are tried because a
// single change can be invisible for reasons other than "not written" (a cap cutting an
// appended byte off; two different invalid code points both rendered as U+FFFD).
func alternates(cur reflect.Value) []reflect.Value {
	t := cur.Type()
	mk := func() reflect.Value { return reflect.New(t).Elem() }
	var out []reflect.Value
	switch t.Kind() {
	case reflect.String:
		s := cur.String()
		a, b, c := mk(), mk(), mk()
		if s == "" {
			a.SetString("Z")
			b.SetString("zz")
			c.SetString("7")
		} else {
			fb := byte('Z')
			if s[0] == 'Z' {
				fb = 'Y'
			}
			a.SetString(string(fb) + s[1:])
			if len(s) < 65535 {
				b.SetString(s + "x")
			} else {
				b.SetString(s[:len(s)-1])
			}
			c.SetString("")
		}
		out = append(out, a, b, c)
	case reflect.Bool:
		a := mk()
		a.SetBool(!cur.Bool())
		out = append(out, a)
	case reflect.Int, reflect.Int64, reflect.Int32, reflect.Int16, reflect.Int8:
		x := cur.Int()
		bits := uint(t.Bits())
		wrap := func(v int64) int64 { // keep inside the field's width
			sh := 64 - bits
			return v << sh >> sh
		}
		for _, y := range []int64{wrap(x + 1), 1, 2, 57, wrap(-x), 0} {
			if y != x {
				a := mk()
				a.SetInt(y)
				out = append(out, a)
			}
			if len(out) == 4 {
				break
			}
		}
	case reflect.Slice:
		n := cur.Len()
		a := reflect.MakeSlice(t, n+1, n+1)
		reflect.Copy(a, cur)
		switch t.Elem().Kind() {
		case reflect.Uint8:
			a.Index(n).SetUint(0x5a)
		case reflect.Int16, reflect.Int32, reflect.Int64:
			a.Index(n).SetInt(3)
		case reflect.String:
			a.Index(n).SetString("x")
		}
		out = append(out, a)
		if n > 0 {
			b := reflect.MakeSlice(t, n, n)
			reflect.Copy(b, cur)
			switch t.Elem().Kind() {
			case reflect.Uint8:
				b.Index(0).SetUint(uint64(byte(cur.Index(0).Uint()) ^ 0x21))
			case reflect.Int16, reflect.Int32, reflect.Int64:
				v := cur.Index(0).Int() + 1
				if v > math.MaxInt16 {
					v = 0
				}
				b.Index(0).SetInt(v)
			case reflect.String:
				b.Index(0).SetString(cur.Index(0).String() + "y")
			}
			out = append(out, b, reflect.Zero(t))
		} else if t.Elem().Kind() == reflect.Int16 {
			out = append(out, reflect.ValueOf([]int16{1, 2, 3, 4, 5}))
		}
	case reflect.Map:
		m := reflect.MakeMap(t)
		if !cur.IsNil() {
			it := cur.MapRange()
			for it.Next() {
				m.SetMapIndex(it.Key(), it.Value())
			}
		}
		if t.Key().Kind() == reflect.String && t.Elem().Kind() == reflect.String {
			m.SetMapIndex(reflect.ValueOf("alt-key"), reflect.ValueOf("alt-value"))
		}
		out = append(out, m)
	case reflect.Ptr:
		if cur.IsNil() {
			p := reflect.New(t.Elem())
			if t.Elem().Kind() == reflect.Struct {
				for i := 0; i < t.Elem().NumField(); i++ {
					sf := t.Elem().Field(i)
					if sf.PkgPath == "" && sf.Type.Kind() == reflect.String {
						p.Elem().Field(i).SetString("alt")
					}
				}
			}
			out = append(out, p)
		} else {
			out = append(out, reflect.Zero(t))
		}
	}
	return out
}

// ---- structural equality (nil ≡ empty) ---------------------------------------------------

func eqVal(a, b reflect.Value, depth int) bool {
	if a.Type() != b.Type() {
		return false
	}
	switch a.Kind() {
	case reflect.Bool:
		return a.Bool() == b.Bool()
	case reflect.Int, reflect.Int8, reflect.Int16, reflect.Int32, reflect.Int64:
		return a.Int() == b.Int()
	case reflect.Uint, reflect.Uint8, reflect.Uint16, reflect.Uint32, reflect.Uint64, reflect.Uintptr:
		return a.Uint() == b.Uint()
	case reflect.Float32, reflect.Float64:
		return math.Float64bits(a.Float()) == math.Float64bits(b.Float())
	case reflect.String:
		return a.String() == b.String()
	case reflect.Slice:
		if a.Len() != b.Len() {
			return false
		}
		for i := 0; i < a.Len(); i++ {
			if !eqVal(a.Index(i), b.Index(i), depth+1) {
				return false
			}
		}
		return true
	case reflect.Map:
		if a.Len() != b.Len() {
			return false
		}
		it := a.MapRange()
		for it.Next() {
			o := b.MapIndex(it.Key())
			if !o.IsValid() || !eqVal(it.Value(), o, depth+1) {
				return false
			}
		}
		return true
	case reflect.Ptr:
		if a.IsNil() || b.IsNil() {
			return a.IsNil() && b.IsNil()
		}
		if a.Pointer() == b.Pointer() {
			return true
		}
		if depth > 3 {
			return false
		}
		return eqVal(a.Elem(), b.Elem(), depth+1)
	case reflect.Interface:
		if a.IsNil() || b.IsNil() {
			return a.IsNil() && b.IsNil()
		}
		return eqVal(a.Elem(), b.Elem(), depth+1)
	case reflect.Struct:
		for i := 0; i < a.NumField(); i++ {
			fa, fb := a.Field(i), b.Field(i)
			if !fa.CanInterface() {
				if !fa.CanAddr() || !fb.CanAddr() {
					continue
				}
				fa = reflect.NewAt(fa.Type(), unsafe.Pointer(fa.UnsafeAddr())).Elem()
				fb = reflect.NewAt(fb.Type(), unsafe.Pointer(fb.UnsafeAddr())).Elem()
			}
			if !eqVal(fa, fb, depth+1) {
				return false
			}
		}
		return true
	}
	return false
}

// ---- rendering and string scanning -------------------------------------------------------

func short(s string) string {
	if len(s) <= 160 {
		return fmt.Sprintf("%q", s)
	}
	return fmt.Sprintf("%q…(%d bytes)…%q", s[:80], len(s), s[len(s)-24:])
}

func render(v reflect.Value) string {
	switch v.Kind() {
	case reflect.String:
		return short(v.String())
	case reflect.Slice:
		if v.Type().Elem().Kind() == reflect.Uint8 {
			return "bytes:" + vlib.Hex(v.Bytes())
		}
		if v.IsNil() {
			return "nil"
		}
		return short(fmt.Sprintf("%v", v.Interface()))
	case reflect.Ptr:
		if v.IsNil() {
			return "nil"
		}
		return short(fmt.Sprintf("&%+v", v.Elem().Interface()))
	case reflect.Map:
		if v.IsNil() {
			return "nil-map"
		}
		keys := []string{}
		it := v.MapRange()
		for it.Next() {
			keys = append(keys, fmt.Sprintf("%v=%v", it.Key().Interface(), it.Value().Interface()))
		}
		sort.Strings(keys)
		return short("map{" + strings.Join(keys, ", ") + "}")
	}
	return fmt.Sprintf("%v", v.Interface())
}

// dump renders every data field of a pack (for replay files and samples).
func (k *packKind) dump(p udp.UdpPack) map[string]string {
	m := map[string]string{"Ver": fmt.Sprint(p.GetVersion())}
	e := elemOf(p)
	for i := range k.Fields {
		fi := &k.Fields[i]
		m[fi.Name] = render(e.FieldByIndex(fi.Index))
	}
	return m
}

// scanStrings calls fn for every string reachable from v (fields, pointers, slices, map
// keys and values, byte slices as text).
func scanStrings(v reflect.Value, path string, depth int, fn func(path, s string)) {
	if depth > 5 {
		return
	}
	switch v.Kind() {
	case reflect.String:
		fn(path, v.String())
	case reflect.Ptr, reflect.Interface:
		if !v.IsNil() {
			scanStrings(v.Elem(), path, depth+1, fn)
		}
	case reflect.Struct:
		for i := 0; i < v.NumField(); i++ {
			f := v.Field(i)
			if !f.CanInterface() {
				if !f.CanAddr() {
					continue
				}
				f = reflect.NewAt(f.Type(), unsafe.Pointer(f.UnsafeAddr())).Elem()
			}
			n := v.Type().Field(i).Name
			if v.Type().Field(i).Anonymous {
				scanStrings(f, path, depth, fn)
			} else if path == "" {
				scanStrings(f, n, depth+1, fn)
			} else {
				scanStrings(f, path+"."+n, depth+1, fn)
			}
		}
	case reflect.Slice:
		if v.Type().Elem().Kind() == reflect.Uint8 {
			fn(path, string(v.Bytes()))
			return
		}
		for i := 0; i < v.Len(); i++ {
			scanStrings(v.Index(i), fmt.Sprintf("%s[%d]", path, i), depth+1, fn)
		}
	case reflect.Map:
		it := v.MapRange()
		for it.Next() {
			scanStrings(it.Key(), path+"{key}", depth+1, fn)
			scanStrings(it.Value(), path+"{value}", depth+1, fn)
		}
	}
}
